// C36: connection-protocol handling is robust and replies are matched.
// Every peer packet sequence up to a depth over a 38-packet alphabet, combined with
// local calls, is run against the real mux/channel code (package ssh instrumented,
// goroutines under the cooperative scheduler) and compared with a small reference
// model of RFC 4254 channel/global request handling.
package main

import (
	"fmt"
	"strings"

	"golang.org/x/crypto/ssh"
	"verif/schedx"
	"verif/vf"
)

func main() { vf.Main("C36", vf.ModelChecking, run) }

// expectation computed by the reference model
type expect struct {
	fatal      int      // index of the first packet that must end the connection (-1 none)
	sync       []string // replies the mux itself must send, in order (up to the fatal packet)
	asyncReq   []string // replies the application sends and that must arrive (connection and channel survive)
	asyncOpt   []string // application replies that may be lost (their channel is closed later in the sequence)
	oData      string
	oStderr    string
	oReqs      int
	globalReqs int
	newChans   int
	oOpen      bool // O still open after the sequence
}

type mchan struct {
	peer    uint32
	inbound bool
	isO     bool
	win     uint64
	replies []string // application replies tied to this channel
}

// model is the reference: RFC 4254 handling of one peer packet at a time. Local channel
// ids are slots: O has slot 0, I slot 1; a new inbound channel takes the lowest free
// slot (so after O is closed its id can be reused by a new channel).
func model(seq []int) expect {
	e := expect{fatal: -1, oOpen: true}
	chans := map[int]*mchan{0: {peer: 100, isO: true, win: 1000}, 1: {peer: 101, inbound: true, win: 1000}}
	closeChan := func(id int) {
		c := chans[id]
		e.asyncOpt = append(e.asyncOpt, c.replies...)
		if c.isO {
			e.oOpen = false
		}
		delete(chans, id)
	}
	for idx, k := range seq {
		fatal := false
		target := 0 // kinds named ...O address slot 0, ...I slot 1
		switch k {
		case ssh.VerifC36ConfirmI, ssh.VerifC36CloseI:
			target = 1
		}
		c := chans[target]
		switch k {
		case ssh.VerifC36OpenOK:
			id := 0
			for chans[id] != nil {
				id++
			}
			chans[id] = &mchan{peer: 200, inbound: true, win: 1000, replies: []string{"openConfirm:200"}}
			e.newChans++
		case ssh.VerifC36OpenRej:
			// offered to the application, which rejects it: no channel remains
			e.newChans++
			e.asyncReq = append(e.asyncReq, "appReject")
		case ssh.VerifC36OpenMaxPkt0:
			e.sync = append(e.sync, "openFail:201")
		case ssh.VerifC36OpenMaxPktHuge:
			e.sync = append(e.sync, "openFail:202")
		case ssh.VerifC36ConfirmO, ssh.VerifC36FailureO, ssh.VerifC36ConfirmI:
			fatal = true // duplicate response, response on an inbound channel, or unknown channel
		case ssh.VerifC36ConfirmUnknown, ssh.VerifC36DataUnknown, ssh.VerifC36EOFUnknown, ssh.VerifC36SuccessUnknown:
			fatal = true
		case ssh.VerifC36DataO:
			if c == nil {
				fatal = true
			} else if c.isO {
				e.oData += "abc"
			}
		case ssh.VerifC36StderrO:
			if c == nil {
				fatal = true
			} else if c.isO {
				e.oStderr += "xy"
			}
		case ssh.VerifC36DataOEmpty, ssh.VerifC36ExtDiscardO, ssh.VerifC36EOFO, ssh.VerifC36SuccessO, ssh.VerifC36FailureReplyO, ssh.VerifC36AdjustO0:
			fatal = c == nil
		case ssh.VerifC36DataOLenMismatch, ssh.VerifC36DataOTooBig, ssh.VerifC36DataOTruncated:
			fatal = true
		case ssh.VerifC36CloseO, ssh.VerifC36CloseI:
			if c == nil {
				fatal = true
			} else {
				e.sync = append(e.sync, fmt.Sprintf("close:%d", c.peer))
				closeChan(target)
			}
		case ssh.VerifC36ReqOWant:
			if c == nil {
				e.sync = append(e.sync, "chanFailure:*") // RFC 4254 5.4: failure, connection stays up
			} else {
				if c.isO {
					e.oReqs++
				}
				c.replies = append(c.replies, fmt.Sprintf("chanSuccess:%d", c.peer))
			}
		case ssh.VerifC36ReqONoWant:
			if c != nil && c.isO {
				e.oReqs++
			}
		case ssh.VerifC36ReqUnknownWant:
			e.sync = append(e.sync, "chanFailure:*")
		case ssh.VerifC36ReqUnknownNoWant:
		case ssh.VerifC36GlobalWant:
			e.globalReqs++
			e.asyncReq = append(e.asyncReq, "globalSuccess")
		case ssh.VerifC36GlobalNoWant:
			e.globalReqs++
		case ssh.VerifC36GlobalSuccess, ssh.VerifC36GlobalFailure:
			// unsolicited: dropped
		case ssh.VerifC36Ping:
			e.sync = append(e.sync, "pong")
		case ssh.VerifC36AdjustOHalf:
			if c == nil {
				fatal = true
			} else {
				c.win += 1 << 31
				fatal = c.win > 0xffffffff
			}
		case ssh.VerifC36ShortChannelPkt, ssh.VerifC36UnknownTypeO, ssh.VerifC36UnknownTypeShort, ssh.VerifC36OpenTruncated:
			fatal = true
		}
		if fatal {
			e.fatal = idx
			break
		}
	}
	for _, c := range chans {
		if e.fatal >= 0 {
			e.asyncOpt = append(e.asyncOpt, c.replies...)
		} else {
			e.asyncReq = append(e.asyncReq, c.replies...)
		}
	}
	if e.fatal >= 0 {
		e.asyncOpt = append(e.asyncOpt, e.asyncReq...)
		e.asyncReq = nil
	}
	return e
}

var kindName = []string{"openOK", "openMaxPkt0", "openMaxPktHuge", "confirmO(dup)", "confirm77", "failureO(dup)", "confirmI", "dataO", "dataO-empty", "dataO-lenmismatch", "dataO-toobig", "data77", "stderrO", "ext7O", "dataO-truncated", "eofO", "closeO", "closeI", "eof77", "reqO-want", "reqO", "req77-want", "req77", "successO", "failureO-reply", "success77", "global-want", "globalSuccess", "globalFailure", "ping", "adjustO-0", "adjustO-2^31", "short-chan-pkt", "type199-O", "type199-short", "global", "open-truncated", "open-rejected-by-app"}

func seqName(seq []int, local int) string {
	var p []string
	for _, k := range seq {
		p = append(p, kindName[k])
	}
	return fmt.Sprintf("[%s] local=%d", strings.Join(p, ","), local)
}

func isSync(d string) bool {
	return d == "pong" || strings.HasPrefix(d, "openFail:") || strings.HasPrefix(d, "close:") || strings.HasPrefix(d, "chanFailure:")
}

func check(seq []int, local int) func(any) (string, string) {
	e := model(seq)
	return func(obs any) (string, string) {
		r, _ := obs.(*ssh.VerifC36Result)
		if r == nil {
			return "", ""
		}
		name := seqName(seq, local)
		if r.SetupErr != "" {
			return "harness setup failed: " + r.SetupErr, name
		}
		concurrent := local >= 4 && local <= 6
		if local == 6 {
			// A concurrent OpenChannel may take a local id that the sequence freed by closing
			// a channel; later packets "for O/I" then reach the new channel at a moment the
			// model cannot know. Such executions are checked for panics, hangs and the
			// return of the call only.
			for i, k := range seq {
				if (k == ssh.VerifC36CloseO || k == ssh.VerifC36CloseI) && i < len(seq)-1 {
					if !r.LocalDone {
						return "local call did not return", name
					}
					return "", ""
				}
			}
		}
		// A channel the application is about to reject holds a local id for a moment; if an
		// earlier packet of the sequence freed O's or I's id, that id may or may not be taken
		// by it when later packets "for O/I" or a later open arrive. Not modelled: such
		// executions are checked for panics and hangs only.
		closed := false
		for i, k := range seq {
			if k == ssh.VerifC36CloseO || k == ssh.VerifC36CloseI {
				closed = true
			}
			if k == ssh.VerifC36OpenRej && closed && i < len(seq)-1 {
				if local != 0 && !r.LocalDone {
					return "local call did not return", name
				}
				return "", ""
			}
		}
		// the local call's own traffic shows up at the peer too: filter it out
		var syncGot, asyncGot []string
		for _, d := range r.PeerGot {
			switch {
			case d == "globalReq" || strings.HasPrefix(d, "chanReq:") || d == "open":
				// sent by the local call
			case isSync(d):
				if strings.HasPrefix(d, "chanFailure:") {
					d = "chanFailure:*"
				}
				syncGot = append(syncGot, d)
			default:
				asyncGot = append(asyncGot, d)
			}
		}
		if e.fatal >= 0 {
			if r.MuxErr == "" {
				return "connection survived a packet that must be rejected: " + kindName[seq[e.fatal]], name
			}
		} else if r.MuxErr != "" {
			return "connection ended with an error on a sequence of acceptable packets", name + ": " + r.MuxErr
		}
		if strings.Join(syncGot, " ") != strings.Join(e.sync, " ") {
			return "mux replies differ from the reference model", fmt.Sprintf("%s: got %v want %v", name, syncGot, e.sync)
		}
		// application-level replies: the required ones must all arrive, the optional ones may
		rest := append([]string(nil), asyncGot...)
		take := func(list *[]string, x string) bool {
			for i, y := range *list {
				if y == x {
					*list = append((*list)[:i], (*list)[i+1:]...)
					return true
				}
			}
			return false
		}
		for _, w := range e.asyncReq {
			if !take(&rest, w) {
				return "application-level reply missing at the peer", fmt.Sprintf("%s: %s missing (got %v)", name, w, asyncGot)
			}
		}
		opt := append([]string(nil), e.asyncOpt...)
		for _, g := range rest {
			if !take(&opt, g) {
				return "unexpected packet sent to the peer", fmt.Sprintf("%s: %s (all: %v)", name, g, r.PeerGot)
			}
		}
		if r.OData != e.oData || r.OStderr != e.oStderr {
			return "channel data delivered differs from the reference model", fmt.Sprintf("%s: data %q/%q want %q/%q", name, r.OData, r.OStderr, e.oData, e.oStderr)
		}
		if r.OReqs != e.oReqs || r.GlobalReqs != e.globalReqs || r.NewChans != e.newChans {
			return "requests/channels delivered to the application differ from the reference model", fmt.Sprintf("%s: oReqs %d/%d global %d/%d chans %d/%d", name, r.OReqs, e.oReqs, r.GlobalReqs, e.globalReqs, r.NewChans, e.newChans)
		}
		if local != 0 {
			if !r.LocalDone {
				return "local call did not return", name
			}
			if !concurrent {
				// issued after every packet was processed: the peer answers failure, so a
				// success can only come from a stale unsolicited reply
				alive := e.fatal < 0
				switch local {
				case 1:
					if alive && (r.LocalOK || r.LocalErr != "") {
						return "global reply delivered to a request that was not waiting for it (stale reply consumed)", fmt.Sprintf("%s: ok=%v err=%q", name, r.LocalOK, r.LocalErr)
					}
				case 2:
					if alive && e.oOpen && (r.LocalOK || r.LocalErr != "") {
						return "channel reply delivered to a request that was not waiting for it (stale reply consumed)", fmt.Sprintf("%s: ok=%v err=%q", name, r.LocalOK, r.LocalErr)
					}
				case 7, 8, 9, 10:
					// second request after a first one during which the sequence arrived
					// (9, 10: and a one-way request was sent while the first was still waiting)
					if alive && (local == 8 || local == 10 || e.oOpen) && (r.LocalOK || r.LocalErr != "") {
						return "reply delivered to a request that was not waiting for it (reply left over from an earlier request consumed)", fmt.Sprintf("%s: ok=%v err=%q", name, r.LocalOK, r.LocalErr)
					}
					if !r.FirstDone {
						return "local call did not return", name + " (first request)"
					}
				case 3:
					if alive && !r.LocalOK {
						return "OpenChannel failed on a healthy connection", fmt.Sprintf("%s: err=%q", name, r.LocalErr)
					}
				}
				if !alive && r.LocalErr == "" && r.LocalOK {
					return "local call succeeded on a dead connection", name
				}
			}
		}
		return "", ""
	}
}

func outcome(obs any) string {
	r, _ := obs.(*ssh.VerifC36Result)
	if r == nil {
		return "<nil>"
	}
	err := r.MuxErr
	if i := strings.IndexAny(err, "0123456789"); i > 0 {
		err = err[:i]
	}
	return fmt.Sprintf("err=%q got=%d local=%v/%v", err, len(r.PeerGot), r.LocalDone, r.LocalOK)
}

func run(c *vf.Ctx) {
	n := ssh.VerifC36NKinds
	depth0, depth1 := 3, 1 // depth at bound 0 (default schedule), depth explored with 1 deviation
	if c.Thorough {
		depth0, depth1 = 4, 2
	}
	c.Rule(fmt.Sprintf("all peer packet sequences of length <=%d over a %d-packet alphabet (established outbound+inbound channel, unknown ids, malformed/duplicate/unsolicited packets) in the default schedule, x local calls {none, global SendRequest, channel SendRequest, OpenChannel} after the sequence for length <=2; all sequences of length <=%d x {sequential, concurrent} local calls with <=1 scheduling deviation; oracle = reference model of RFC 4254 handling (fatal vs reply vs delivery), stale-reply detection, all streams closed at connection end (deadlock = violation), no panic", depth0, n, depth1))
	c.Assume("package ssh is data-race free (separate -race pass); application accepts every channel and answers every request positively")
	var scs []schedx.Scenario
	add := func(seq []int, local, bound int, group string) {
		s := append([]int(nil), seq...)
		p := ssh.VerifC36Params{Seq: s, Local: local}
		scs = append(scs, schedx.Scenario{Name: seqName(s, local), Group: group, Bound: bound,
			Body: func() any { return ssh.VerifC36Run(p) }, Check: check(s, local), Outcome: outcome})
	}
	var gen func(prefix []int, d int)
	gen = func(prefix []int, d int) {
		if len(prefix) > 0 {
			add(prefix, 0, 0, fmt.Sprintf("len%d bound0", len(prefix)))
			if len(prefix) <= 2 {
				for l := 1; l <= 3; l++ {
					add(prefix, l, 0, fmt.Sprintf("len%d bound0 local-after", len(prefix)))
				}
			}
			if len(prefix) <= depth1 {
				for l := 0; l <= 6; l++ {
					add(prefix, l, 1, fmt.Sprintf("len%d bound1", len(prefix)))
				}
			}
		}
		if d == 0 {
			return
		}
		for k := 0; k < n; k++ {
			gen(append(prefix, k), d-1)
		}
	}
	gen(nil, depth0)
	// two-request modes: sequences over the reply-related sub-alphabet, up to length 4
	sub := []int{ssh.VerifC36SuccessO, ssh.VerifC36FailureReplyO, ssh.VerifC36GlobalSuccess, ssh.VerifC36GlobalFailure, ssh.VerifC36DataO, ssh.VerifC36CloseO, ssh.VerifC36Ping}
	var gen2 func(prefix []int, d int)
	gen2 = func(prefix []int, d int) {
		add(prefix, 7, 0, "two requests (channel), reply-alphabet sequences")
		add(prefix, 8, 0, "two requests (global), reply-alphabet sequences")
		if len(prefix) <= 2 {
			add(prefix, 9, 0, "request waiting + one-way request (channel)")
			add(prefix, 10, 0, "request waiting + one-way request (global)")
			if len(prefix) <= 1 {
				add(prefix, 9, 1, "request waiting + one-way request bound1")
				add(prefix, 10, 1, "request waiting + one-way request bound1")
			}
		}
		if len(prefix) <= depth1 {
			add(prefix, 7, 1, "two requests bound1")
			add(prefix, 8, 1, "two requests bound1")
		}
		if d == 0 {
			return
		}
		for _, k := range sub {
			gen2(append(prefix, k), d-1)
		}
	}
	gen2(nil, 4)
	// a packet that ends the connection, racing with a concurrent local call: the mux loop's
	// shutdown (dropAll, closing channels, closing the request streams) against SendRequest /
	// OpenChannel needs the local call delayed AND the shutdown interrupted: 2 deviations
	// (quick: three representative fatal packets - unknown channel, malformed, oversize data;
	// thorough: every packet kind that ends the connection)
	rep := map[int]bool{ssh.VerifC36ConfirmUnknown: true, ssh.VerifC36ShortChannelPkt: true, ssh.VerifC36DataOTooBig: true}
	for k := 0; k < n; k++ {
		if model([]int{k}).fatal == 0 && (c.Thorough || rep[k]) {
			for l := 4; l <= 6; l++ {
				add([]int{k}, l, 2, "len1 fatal packet, concurrent local call, bound2")
			}
		}
	}
	// no packets at all, only local calls
	eb := 1
	if c.Thorough {
		eb = 2
	}
	for l := 0; l <= 6; l++ {
		add(nil, l, eb, fmt.Sprintf("empty sequence bound%d", eb))
	}
	schedx.Explore(c, scs)
}
