package ssh

// Harness for property C36 (connection-protocol handling is robust and replies are
// matched): a real mux with one outbound channel O (peer id 100) and one inbound
// channel I (peer id 101) established, then an arbitrary peer packet sequence, local
// calls, and connection end.

import (
	"fmt"
	"io"
	"sync"
)

// Peer packet kinds (the alphabet). O = established outbound channel, I = established
// inbound channel, 77 = an id no channel has.
const (
	VerifC36OpenOK = iota
	VerifC36OpenMaxPkt0
	VerifC36OpenMaxPktHuge
	VerifC36ConfirmO
	VerifC36ConfirmUnknown
	VerifC36FailureO
	VerifC36ConfirmI
	VerifC36DataO
	VerifC36DataOEmpty
	VerifC36DataOLenMismatch
	VerifC36DataOTooBig
	VerifC36DataUnknown
	VerifC36StderrO
	VerifC36ExtDiscardO
	VerifC36DataOTruncated
	VerifC36EOFO
	VerifC36CloseO
	VerifC36CloseI
	VerifC36EOFUnknown
	VerifC36ReqOWant
	VerifC36ReqONoWant
	VerifC36ReqUnknownWant
	VerifC36ReqUnknownNoWant
	VerifC36SuccessO
	VerifC36FailureReplyO
	VerifC36SuccessUnknown
	VerifC36GlobalWant
	VerifC36GlobalSuccess
	VerifC36GlobalFailure
	VerifC36Ping
	VerifC36AdjustO0
	VerifC36AdjustOHalf // 2^31: the second one overflows the window
	VerifC36ShortChannelPkt
	VerifC36UnknownTypeO
	VerifC36UnknownTypeShort
	VerifC36GlobalNoWant
	VerifC36OpenTruncated
	VerifC36OpenRej // a channel type the application rejects; the peer's id for it equals O's local id
	VerifC36NKinds
)

type VerifC36Params struct {
	Seq []int
	// Local call: 0 none; 1 global SendRequest, 2 SendRequest on O, 3 OpenChannel -- issued
	// after the whole sequence was processed (barrier); 4,5,6 the same three issued
	// concurrently with the sequence; 7 (channel) and 8 (global): a first request is in
	// flight while the whole sequence arrives (the peer withholds its real answer until
	// then), and a SECOND request is issued afterwards - its result must be the peer's
	// real answer (failure), never a reply left over from the first request's time; 9 / 10: as 7 / 8,
	// and while the first request is waiting the body sends a request that wants NO reply.
	Local int
}

type VerifC36Result struct {
	SetupErr       string
	MuxErr         string   // "" = still alive until the peer closed (EOF); else the error text
	PeerGot        []string // what the peer received after setup, in order
	OData          string   // bytes read from O's data stream until EOF
	OStderr        string
	OReqs          int // channel requests the application saw on O
	GlobalReqs     int
	NewChans       int
	FirstDone      bool // modes 7/8: the first request returned
	LocalDone      bool
	LocalOK        bool
	LocalErr       string
	AliveAtBarrier bool
}

func (p VerifC36Params) pkt(kind int, oLocal, iLocal uint32) []byte {
	u32 := func(v uint32) []byte { return []byte{byte(v >> 24), byte(v >> 16), byte(v >> 8), byte(v)} }
	cat := func(parts ...[]byte) []byte {
		var o []byte
		for _, x := range parts {
			o = append(o, x...)
		}
		return o
	}
	const unknown = 77
	switch kind {
	case VerifC36OpenOK:
		return Marshal(channelOpenMsg{ChanType: "n", PeersID: 200, PeersWindow: 1000, MaxPacketSize: 100})
	case VerifC36OpenMaxPkt0:
		return Marshal(channelOpenMsg{ChanType: "n", PeersID: 201, PeersWindow: 1000, MaxPacketSize: 0})
	case VerifC36OpenMaxPktHuge:
		return Marshal(channelOpenMsg{ChanType: "n", PeersID: 202, PeersWindow: 1000, MaxPacketSize: 1<<31 + 1})
	case VerifC36ConfirmO:
		return Marshal(channelOpenConfirmMsg{PeersID: oLocal, MyID: 100, MyWindow: 1000, MaxPacketSize: 100})
	case VerifC36ConfirmUnknown:
		return Marshal(channelOpenConfirmMsg{PeersID: unknown, MyID: 300, MyWindow: 1000, MaxPacketSize: 100})
	case VerifC36FailureO:
		return Marshal(channelOpenFailureMsg{PeersID: oLocal, Reason: Prohibited, Message: "x", Language: "en"})
	case VerifC36ConfirmI:
		return Marshal(channelOpenConfirmMsg{PeersID: iLocal, MyID: 101, MyWindow: 1000, MaxPacketSize: 100})
	case VerifC36DataO:
		return cat([]byte{msgChannelData}, u32(oLocal), u32(3), []byte("abc"))
	case VerifC36DataOEmpty:
		return cat([]byte{msgChannelData}, u32(oLocal), u32(0))
	case VerifC36DataOLenMismatch:
		return cat([]byte{msgChannelData}, u32(oLocal), u32(5), []byte("abc"))
	case VerifC36DataOTooBig:
		return cat([]byte{msgChannelData}, u32(oLocal), u32(channelMaxPacket+1), make([]byte, channelMaxPacket+1))
	case VerifC36DataUnknown:
		return cat([]byte{msgChannelData}, u32(unknown), u32(3), []byte("abc"))
	case VerifC36StderrO:
		return cat([]byte{msgChannelExtendedData}, u32(oLocal), u32(1), u32(2), []byte("xy"))
	case VerifC36ExtDiscardO:
		return cat([]byte{msgChannelExtendedData}, u32(oLocal), u32(7), u32(2), []byte("zz"))
	case VerifC36DataOTruncated:
		return cat([]byte{msgChannelData}, u32(oLocal), []byte{0, 0})
	case VerifC36EOFO:
		return Marshal(channelEOFMsg{PeersID: oLocal})
	case VerifC36CloseO:
		return Marshal(channelCloseMsg{PeersID: oLocal})
	case VerifC36CloseI:
		return Marshal(channelCloseMsg{PeersID: iLocal})
	case VerifC36EOFUnknown:
		return Marshal(channelEOFMsg{PeersID: unknown})
	case VerifC36ReqOWant:
		return Marshal(channelRequestMsg{PeersID: oLocal, Request: "r", WantReply: true})
	case VerifC36ReqONoWant:
		return Marshal(channelRequestMsg{PeersID: oLocal, Request: "r", WantReply: false})
	case VerifC36ReqUnknownWant:
		return Marshal(channelRequestMsg{PeersID: unknown, Request: "r", WantReply: true})
	case VerifC36ReqUnknownNoWant:
		return Marshal(channelRequestMsg{PeersID: unknown, Request: "r", WantReply: false})
	case VerifC36SuccessO:
		return Marshal(channelRequestSuccessMsg{PeersID: oLocal})
	case VerifC36FailureReplyO:
		return Marshal(channelRequestFailureMsg{PeersID: oLocal})
	case VerifC36SuccessUnknown:
		return Marshal(channelRequestSuccessMsg{PeersID: unknown})
	case VerifC36GlobalWant:
		return Marshal(globalRequestMsg{Type: "g", WantReply: true})
	case VerifC36GlobalNoWant:
		return Marshal(globalRequestMsg{Type: "g", WantReply: false})
	case VerifC36GlobalSuccess:
		return Marshal(globalRequestSuccessMsg{Data: []byte("stale")})
	case VerifC36GlobalFailure:
		return Marshal(globalRequestFailureMsg{Data: []byte("stale")})
	case VerifC36Ping:
		return Marshal(pingMsg{Data: "seq"})
	case VerifC36AdjustO0:
		return Marshal(windowAdjustMsg{PeersID: oLocal, AdditionalBytes: 0})
	case VerifC36AdjustOHalf:
		return Marshal(windowAdjustMsg{PeersID: oLocal, AdditionalBytes: 1 << 31})
	case VerifC36ShortChannelPkt:
		return []byte{msgChannelData, 0, 0}
	case VerifC36UnknownTypeO:
		return cat([]byte{199}, u32(oLocal), []byte{1, 2, 3})
	case VerifC36UnknownTypeShort:
		return []byte{199}
	case VerifC36OpenTruncated:
		return []byte{msgChannelOpen, 0, 0}
	case VerifC36OpenRej:
		return Marshal(channelOpenMsg{ChanType: "rej", PeersID: oLocal, PeersWindow: 1000, MaxPacketSize: 100})
	}
	panic("bad kind")
}

// VerifC36Run runs one scenario to completion.
func VerifC36Run(p VerifC36Params) *VerifC36Result {
	res := &VerifC36Result{}
	a, b := VerifMemPipe()
	m := newMux(a)
	var mu sync.Mutex
	var wg sync.WaitGroup // everything that must end when the connection ends

	setup := true
	firstSeen := make(chan struct{}, 1)
	var peerMu sync.Mutex // serialises the peer's writes with its bookkeeping of channels it closed
	peerClosed := map[uint32]bool{}
	pongs := make(chan string, 64)
	nextPeerID := uint32(100)
	localOf := map[uint32]uint32{101: 0xffffffff} // peer-side channel id -> the mux's local id
	// the peer's reader: records what the mux sends and answers requests
	wg.Add(1)
	go func() {
		defer wg.Done()
		defer close(pongs)
		for {
			pkt, err := b.ReadPacket()
			if err != nil {
				return
			}
			desc := fmt.Sprintf("type%d", pkt[0])
			msg, derr := decode(pkt)
			if derr == nil {
				switch x := msg.(type) {
				case *channelOpenMsg:
					desc = "open"
					if x.ChanType == "fail" {
						b.WritePacket(Marshal(channelOpenFailureMsg{PeersID: x.PeersID, Reason: Prohibited, Message: "no", Language: "en"}))
					} else {
						localOf[nextPeerID] = x.PeersID
						b.WritePacket(Marshal(channelOpenConfirmMsg{PeersID: x.PeersID, MyID: nextPeerID, MyWindow: 1000, MaxPacketSize: 100}))
						nextPeerID += 10
					}
				case *channelOpenConfirmMsg:
					desc = fmt.Sprintf("openConfirm:%d", x.PeersID)
				case *channelOpenFailureMsg:
					desc = fmt.Sprintf("openFail:%d", x.PeersID)
					if x.Message == "app says no" {
						desc = "appReject" // sent by the application, hence not ordered with the mux's own replies
					}
				case *channelRequestMsg:
					desc = fmt.Sprintf("chanReq:%d", x.PeersID)
					if x.WantReply && x.Request == "first" {
						firstSeen <- struct{}{} // answer withheld until the sequence has been sent
					} else if x.WantReply {
						peerMu.Lock()
						if !peerClosed[x.PeersID] { // RFC 4254 5.3: nothing may follow the peer's own close
							b.WritePacket(Marshal(channelRequestFailureMsg{PeersID: localOf[x.PeersID]}))
						}
						peerMu.Unlock()
					}
				case *channelRequestSuccessMsg:
					desc = fmt.Sprintf("chanSuccess:%d", x.PeersID)
				case *channelRequestFailureMsg:
					desc = fmt.Sprintf("chanFailure:%d", x.PeersID)
				case *channelCloseMsg:
					desc = fmt.Sprintf("close:%d", x.PeersID)
				case *channelEOFMsg:
					desc = fmt.Sprintf("eof:%d", x.PeersID)
				case *windowAdjustMsg:
					desc = fmt.Sprintf("adjust:%d", x.PeersID)
				case *globalRequestMsg:
					desc = "globalReq"
					if x.WantReply && x.Type == "first" {
						firstSeen <- struct{}{}
					} else if x.WantReply {
						b.WritePacket(Marshal(globalRequestFailureMsg{Data: []byte("real")}))
					}
				case *globalRequestSuccessMsg:
					desc = "globalSuccess"
				case *globalRequestFailureMsg:
					desc = "globalFailure"
				}
			}
			if pkt[0] == msgPong {
				var pm pongMsg
				Unmarshal(pkt, &pm)
				desc = "pong"
				if pm.Data != "seq" {
					pongs <- pm.Data
					continue // barrier pongs are not part of the observation
				}
			}
			mu.Lock()
			if !setup {
				res.PeerGot = append(res.PeerGot, desc)
			}
			mu.Unlock()
		}
	}()
	barrier := func(tag string) bool {
		if err := b.WritePacket(Marshal(pingMsg{Data: tag})); err != nil {
			return false
		}
		for d := range pongs {
			if d == tag {
				return true
			}
		}
		return false
	}
	// the application: accepts every channel (except type "rej", which it rejects), answers every request positively
	drain := func(reqs <-chan *Request, count *int) {
		defer wg.Done()
		for r := range reqs {
			mu.Lock()
			*count++
			mu.Unlock()
			r.Reply(true, nil)
		}
	}
	var dummy int
	accepted := make(chan struct{}, 64)
	wg.Add(2)
	go func() {
		defer wg.Done()
		for nc := range m.incomingChannels {
			mu.Lock()
			res.NewChans++
			mu.Unlock()
			if nc.ChannelType() == "rej" {
				nc.Reject(Prohibited, "app says no")
				accepted <- struct{}{}
				continue
			}
			_, reqs, err := nc.Accept()
			if err == nil {
				wg.Add(1)
				go drain(reqs, &dummy)
			}
			accepted <- struct{}{}
		}
	}()
	go drain(m.incomingRequests, &res.GlobalReqs)

	// setup: O (outbound, peer id 100), I (inbound, peer id 101)
	och, oreqs, err := m.OpenChannel("o", nil)
	if err != nil {
		res.SetupErr = err.Error()
		return res
	}
	O := och.(*channel)
	wg.Add(1)
	go drain(oreqs, &res.OReqs)
	b.WritePacket(Marshal(channelOpenMsg{ChanType: "i", PeersID: 101, PeersWindow: 1000, MaxPacketSize: 100}))
	<-accepted
	if !barrier("setup") {
		res.SetupErr = "setup barrier failed"
		return res
	}
	verifWaitIdle()
	// find I's local id: the only other channel
	var iLocal uint32 = 0xffffffff
	m.chanList.Lock()
	for _, c := range m.chanList.chans {
		if c != nil && c != O {
			iLocal = c.localId
		}
	}
	m.chanList.Unlock()
	mu.Lock()
	setup = false
	res.NewChans = 0
	mu.Unlock()

	local := func() {
		defer wg.Done()
		var ok bool
		var err error
		switch (p.Local-1)%3 + 1 {
		case 1:
			ok, _, err = m.SendRequest("local", true, nil)
		case 2:
			ok, err = O.SendRequest("local", true, nil)
		case 3:
			var c Channel
			var r <-chan *Request
			c, r, err = m.OpenChannel("p", nil)
			ok = err == nil
			if c != nil {
				wg.Add(1)
				go drain(r, &dummy)
			}
		}
		mu.Lock()
		res.LocalDone, res.LocalOK = true, ok
		if err != nil {
			res.LocalErr = err.Error()
		}
		mu.Unlock()
	}
	if p.Local >= 4 && p.Local <= 6 {
		wg.Add(1)
		go local()
	}
	if p.Local >= 7 && p.Local <= 10 {
		wg.Add(1)
		go func() {
			defer wg.Done()
			if p.Local == 7 || p.Local == 9 {
				O.SendRequest("first", true, nil)
			} else {
				m.SendRequest("first", true, nil)
			}
			mu.Lock()
			res.FirstDone = true
			mu.Unlock()
		}()
		<-firstSeen // the first request is on the wire and waiting for its reply
	}
	for _, k := range p.Seq {
		peerMu.Lock()
		if k == VerifC36CloseO {
			peerClosed[100] = true
		}
		b.WritePacket(p.pkt(k, O.localId, iLocal))
		peerMu.Unlock()
	}
	res.AliveAtBarrier = barrier("end")
	verifWaitIdle() // the application has answered everything it is going to answer
	if p.Local >= 1 && p.Local <= 3 {
		wg.Add(1)
		local() // sequential: every packet of the sequence has been processed
	}
	if p.Local == 9 || p.Local == 10 {
		// while the first request is still waiting, another goroutine (here: the body) sends a
		// request that wants NO reply; the first request's reply, which arrives afterwards,
		// must still be delivered to it
		if p.Local == 9 {
			O.SendRequest("oneway", false, nil)
		} else {
			m.SendRequest("oneway", false, nil)
		}
		verifWaitIdle()
	}
	if p.Local >= 7 && p.Local <= 10 {
		// now the peer's real answer to the first request (unless it closed the channel)
		peerMu.Lock()
		if (p.Local == 7 || p.Local == 9) && !peerClosed[100] {
			b.WritePacket(Marshal(channelRequestFailureMsg{PeersID: O.localId}))
		} else if p.Local == 8 || p.Local == 10 {
			b.WritePacket(Marshal(globalRequestFailureMsg{Data: []byte("real")}))
		}
		peerMu.Unlock()
		barrier("first-answered")
		verifWaitIdle()
		var ok bool
		var err error
		if p.Local == 7 || p.Local == 9 {
			ok, err = O.SendRequest("second", true, nil)
		} else {
			ok, _, err = m.SendRequest("second", true, nil)
		}
		mu.Lock()
		res.LocalDone, res.LocalOK = true, ok
		if err != nil {
			res.LocalErr = err.Error()
		}
		mu.Unlock()
	}
	b.Close() // the connection ends
	if err := m.Wait(); err != nil && err != io.EOF {
		res.MuxErr = err.Error()
	}
	// every stream must end now
	readAll := func(r io.Reader) string {
		var out []byte
		buf := make([]byte, 16)
		for {
			n, err := r.Read(buf)
			out = append(out, buf[:n]...)
			if err != nil {
				return string(out)
			}
		}
	}
	res.OData = readAll(O)
	res.OStderr = readAll(O.Stderr())
	wg.Wait()
	return res
}
