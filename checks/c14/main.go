// C14: MD4 and RIPEMD-160 digests match their references, and Sum leaves the running
// state usable.
//
//	G  grid: {md4, ripemd160} x every message length 0..320, every length within 2 of a
//	   multiple of 64 or of the 55/56 padding boundary up to 2000, and 2000 x write
//	   chunkings (one call, byte-wise, strides 7/55/56/63/64/65, every two-way split,
//	   boundary three-way splits) x value classes, Sum appended to a prefix;
//	S  every history over {Write 1,9,55,56,63,64,65; Sum; Reset} to a depth without
//	   state merging: every Sum (also in the middle of the stream) is the reference
//	   digest of the bytes written since the last Reset, and the stream continues.
//
//	L  long inputs 2^k + {-1,0,1,55,56,63,64,65} up to 4 MiB (thorough: 512 MiB) so that the
//	   upper bytes of the length field and multi-block _Block calls are exercised.
//
// Hardening pass: caller-owned Write buffers, pre-filled Sum destinations, mid-stream Sum
// at every cut and Reset-of-a-used-object in G.
//
// Oracles: verif/ref/md4ref (RFC 1320) and verif/ref/rmd160ref (RIPEMD-160 paper).
package main

import (
	"bytes"
	"crypto"
	"fmt"
	"hash"
	"strings"

	"golang.org/x/crypto/md4"
	"golang.org/x/crypto/ripemd160"
	"verif/ref/md4ref"
	"verif/ref/rmd160ref"
	"verif/vf"
)

func main() { vf.Main("C14", vf.ModelChecking, run) }

type alg struct {
	name string
	size int
	new  func() hash.Hash
	ref  func([]byte) []byte
	id   crypto.Hash
}

func algs() []*alg {
	return []*alg{
		{"md4", 16, md4.New, func(m []byte) []byte { s := md4ref.Sum(m); return s[:] }, crypto.MD4},
		{"ripemd160", 20, ripemd160.New, func(m []byte) []byte { s := rmd160ref.Sum(m); return s[:] }, crypto.RIPEMD160},
	}
}

var ones = func() []int {
	o := make([]int, 4096)
	for i := range o {
		o[i] = 1
	}
	return o
}()

// plans calls f with each chunking of L bytes (the slice is only valid during the call).
func plans(L int, full bool, f func(plan []int) bool) int {
	const B = 64
	n := 0
	var buf [3]int
	emit := func(p []int) bool { n++; return f(p) }
	buf[0] = L
	if !emit(buf[:1]) {
		return n
	}
	if L > 0 && !emit(ones[:L]) {
		return n
	}
	for _, st := range []int{7, 55, 56, B - 1, B, B + 1} {
		if L > st {
			var p []int
			for r := L; r > 0; r -= st {
				if r < st {
					p = append(p, r)
				} else {
					p = append(p, st)
				}
			}
			if !emit(p) {
				return n
			}
		}
	}
	cuts := [...]int{0, 1, 55, 56, 57, B - 1, B, B + 1, 2*B - 1, 2 * B, 2*B + 1, 3 * B, L - 1, L}
	if full {
		for x := 0; x <= L; x++ {
			buf[0], buf[1] = x, L-x
			if !emit(buf[:2]) {
				return n
			}
		}
	} else {
		for _, x := range cuts {
			if x >= 0 && x <= L {
				buf[0], buf[1] = x, L-x
				if !emit(buf[:2]) {
					return n
				}
			}
		}
	}
	for i, x := range cuts {
		for j, y := range cuts {
			if x < 0 || x > y || y > L || i > j {
				continue
			}
			buf[0], buf[1], buf[2] = x, y-x, L-y
			if !emit(buf[:3]) {
				return n
			}
		}
	}
	return n
}

func clobber(b []byte) {
	for i := range b {
		b[i] ^= 0xFF
	}
}

// sumInto calls h.Sum with a 3-byte prefix whose spare capacity holds old contents (a
// reused destination) and returns the result.
func sumInto(h hash.Hash, size int) []byte {
	dst := make([]byte, 3+size+8)
	for i := range dst {
		dst[i] = 0xA5 ^ byte(i)
	}
	copy(dst, "pfx")
	return h.Sum(dst[:3])
}

func dataClass(c *vf.Ctx, label string, class, n int) []byte {
	switch class {
	case 1:
		return bytes.Repeat([]byte{0xff}, n)
	case 2:
		return make([]byte, n)
	case 3:
		b := make([]byte, n)
		for i := range b {
			b[i] = byte(i)
		}
		return b
	}
	return c.Bytes(label, class, n)
}

func run(c *vf.Ctx) {
	c.Rule("(G) {md4, ripemd160} x message lengths {0..320 all; every L<=2000 with L mod 64 in {0,1,2,53..58,62,63}; 2000} x chunkings {one Write, byte-wise, strides 7/55/56/63/64/65, every two-way split (class 0) or boundary two-way splits, boundary three-way splits} x value classes {seeded, 0xFF, 0x00, ascending}; " +
		"(S) every history over {Write 1,9,55,56,63,64,65; Sum; Reset} to depth D, no state merging; " +
		"(L) long inputs 2^k+{-1,0,1,55,56,63,64,65}, k=10..22 (md4 quick: {-1,0,56} for k=21,22; thorough adds 2^29 and 2^29+56 so that the bit length needs a fifth byte) x chunkings {one Write, 1/63/65 then rest, two parts meeting at 2^(k-1)+1, strides 4095 and 65537} on one reused (Reset) object. " +
		"Non-initial states in (G): every message also with a double Sum in the middle at every cut (where every two-way split is enumerated; 16 boundary cuts otherwise) and on an object that absorbed L other bytes and was Reset. " +
		"Caller-owned buffers / reused destinations: every Write gets a private copy (must be left unmodified, overwritten afterwards); every Sum appends to a prefix whose spare capacity holds old contents, and the result is overwritten afterwards. " +
		"non-trivial = distinct (alg, length, class) with length >= 55 (padding spills / more than one block), every history of depth >= 2. oracle = RFC 1320 / RIPEMD-160 reference models")
	c.Assume("reference models verif/ref/md4ref, verif/ref/rmd160ref (validated against the RFC 1320 / RIPEMD-160 test vectors, CPython hashlib and openssl)")
	c.Assume("values are a fixed alphabet plus seeded classes; every shape is enumerated, not every value")
	for _, a := range algs() {
		grid(c, a)
		longGrid(c, a)
		sequences(c, a)
		// registration with package crypto
		c.Eval(1)
		if !a.id.Available() {
			c.Violation(a.name+": not registered with package crypto", nil)
		} else {
			m := c.Bytes("reg", 0, 100)
			h := a.id.New()
			h.Write(m)
			if !bytes.Equal(h.Sum(nil), a.ref(m)) {
				c.Violation(a.name+": crypto.Hash registration computes a wrong digest", nil)
			}
		}
	}
}

func grid(c *vf.Ctx, a *alg) {
	var lens []int
	for L := 0; L <= 2000; L++ {
		r := L % 64
		if L <= 320 || r <= 2 || (r >= 53 && r <= 58) || r >= 62 || L == 2000 {
			lens = append(lens, L)
		}
	}
	nclass := 4
	if c.Thorough {
		nclass = 4 + c.V()
	}
	type gc struct{ L, class int }
	var cs []gc
	for cl := 0; cl < nclass; cl++ {
		for _, L := range lens {
			cs = append(cs, gc{L, cl})
		}
	}
	pfor(c, a.name+" section G", len(cs), func(i int) {
		g := cs[i]
		msg := dataClass(c, "G-"+a.name, g.class, g.L)
		want := a.ref(msg)
		full := (g.class == 0 && g.L <= 320) || c.Thorough
		bad := false
		np := plans(g.L, full, func(plan []int) bool {
			h := a.new()
			pos := 0
			for _, n := range plan {
				// the caller owns the buffer: private copy, overwritten after the call;
				// Write must not modify it (io.Writer)
				wbuf := append([]byte(nil), msg[pos:pos+n]...)
				w, err := h.Write(wbuf)
				if w != n || err != nil {
					c.Violation(a.name+": Write return value wrong", map[string]any{"n": n, "got": w, "err": fmt.Sprint(err)})
					bad = true
					return false
				}
				if !bytes.Equal(wbuf, msg[pos:pos+n]) {
					c.Violation(a.name+": Write modifies the caller's buffer", map[string]any{"msglen": g.L, "n": n})
					bad = true
					return false
				}
				clobber(wbuf)
				pos += n
			}
			c.Eval(1)
			got := sumInto(h, a.size)
			if len(got) != 3+a.size || string(got[:3]) != "pfx" || !bytes.Equal(got[3:], want) {
				pl := append([]int(nil), plan...)
				if len(pl) > 8 {
					pl = pl[:8]
				}
				c.Violation(a.name+": digest != reference (length/chunking grid)",
					map[string]any{"msglen": g.L, "class": g.class, "writes(first 8)": pl, "got": fmt.Sprintf("%x", got), "want": fmt.Sprintf("%x", want)})
				bad = true
				return false
			}
			return true
		})
		if bad {
			return
		}
		// dimension D (non-initial states): the same message with a double Sum in the middle at
		// every cut (where every two-way split is enumerated, first six classes; boundary cuts otherwise), and
		// on an object that absorbed L other bytes (+ a Sum for odd L) before being Reset
		if !gridStates(c, a, g.L, g.class, full && g.class < 6, msg, want) {
			return
		}
		if h := a.new(); h.Size() != a.size || h.BlockSize() != 64 {
			c.Violation(a.name+": Size/BlockSize wrong", map[string]any{"size": h.Size(), "blocksize": h.BlockSize()})
		}
		if g.L >= 55 {
			c.Nontrivial(fmt.Sprintf("G/%s/%d/%d", a.name, g.L, g.class))
		}
		if g.L == 120 && g.class == 0 {
			c.Sample(map[string]any{"section": "G", "alg": a.name, "msglen": g.L, "chunkings": np, "digest": fmt.Sprintf("%x", want)})
		}
	})
}

func gridStates(c *vf.Ctx, a *alg, L, class int, full bool, msg, want []byte) bool {
	bad := func(what string, cut int, got []byte) bool {
		c.Violation(a.name+": "+what, map[string]any{"msglen": L, "class": class, "cut": cut, "got": fmt.Sprintf("%x", got), "want": fmt.Sprintf("%x", want)})
		return false
	}
	midSum := func(cut int) bool {
		h := a.new()
		h.Write(msg[:cut])
		s1 := h.Sum(nil)
		s2 := sumInto(h, a.size)[3:]
		c.Eval(1)
		if !bytes.Equal(s1, s2) {
			return bad("Sum in the middle of a stream is not idempotent", cut, s2)
		}
		clobber(s1)
		clobber(s2)
		h.Write(msg[cut:])
		if got := h.Sum(nil); !bytes.Equal(got, want) {
			return bad("Sum in the middle of a stream alters the running state", cut, got)
		}
		return true
	}
	if full {
		for cut := 0; cut <= L; cut++ {
			if !midSum(cut) {
				return false
			}
		}
	} else {
		for _, cut := range [...]int{0, 1, 55, 56, 57, 63, 64, 65, 119, 120, 127, 128, L - 9, L - 8, L - 1, L} {
			if cut >= 0 && cut <= L && !midSum(cut) {
				return false
			}
		}
	}
	h := a.new()
	junk := make([]byte, L)
	for i := range junk {
		junk[i] = ^msg[i] ^ byte(i)
	}
	h.Write(junk)
	if L&1 == 1 {
		h.Sum(nil)
	}
	h.Reset()
	h.Write(msg)
	c.Eval(1)
	if got := h.Sum(nil); !bytes.Equal(got, want) {
		return bad("Reset of a used object does not restore the initial state", L, got)
	}
	return true
}

// ------------------------------------------------------------------ L (long inputs)

// longGrid: lengths 2^k + {-1,0,1,55,56,63,64,65} (block and padding boundaries next to
// every power of two, so the 64-bit bit-length field gets non-zero bytes 0..3) in write
// chunkings whose boundaries sit on and cross those points, on one reused object.
// k = 10..22; md4 in quick uses only {-1,0,56} for k = 21, 22 (the RFC 1320 model runs at a few MB/s).
// Thorough adds 2^29 and 2^29+56 bytes, where the bit length needs a fifth byte.
func longGrid(c *vf.Ctx, a *alg) {
	kmax := 22
	if a.name == "md4" && !c.Thorough {
		kmax = 20
	}
	var lens []int
	seen := map[int]bool{}
	for k := 10; k <= 22; k++ {
		offs := []int{-1, 0, 1, 55, 56, 63, 64, 65}
		if k > kmax {
			offs = []int{-1, 0, 56} // md4 quick: a reduced set for 2^21 and 2^22 (4th length byte)
		}
		for _, d := range offs {
			if L := 1<<k + d; !seen[L] {
				seen[L] = true
				lens = append(lens, L)
			}
		}
	}
	long := c.Bytes("L-"+a.name, 0, 1<<22+65)
	if c.Thorough {
		lens = append(lens, 1<<29, 1<<29+56)
		huge := make([]byte, 1<<29+56)
		for i := 0; i < len(huge); i += len(long) {
			copy(huge[i:], long)
		}
		long = huge
	}
	longPlans := func(L int) [][]int {
		ps := [][]int{{L}, {1, L - 1}, {63, L - 63}, {65, L - 65}}
		half := 1
		for half*2 < L {
			half *= 2
		}
		ps = append(ps, []int{half/2 + 1, L - half/2 - 1})
		for _, st := range []int{4095, 65537} {
			if L > st {
				var p []int
				for r := L; r > 0; r -= st {
					p = append(p, min(r, st))
				}
				ps = append(ps, p)
			}
		}
		return ps
	}
	pfor(c, a.name+" section L", len(lens), func(j int) {
		L := lens[len(lens)-1-j] // longest first
		msg := long[:L]
		want := a.ref(msg)
		h := a.new()
		for pi, plan := range longPlans(L) {
			if pi > 0 {
				h.Reset() // reused object
			}
			pos := 0
			for _, n := range plan {
				h.Write(msg[pos : pos+n])
				pos += n
			}
			c.Eval(1)
			if got := sumInto(h, a.size)[3:]; !bytes.Equal(got, want) {
				c.Violation(a.name+": digest != reference (long input)", map[string]any{"msglen": L, "chunking": pi, "got": fmt.Sprintf("%x", got), "want": fmt.Sprintf("%x", want)})
				return
			}
		}
		c.Nontrivial(fmt.Sprintf("L/%s/%d", a.name, L))
		if L == 1<<kmax+65 {
			c.Sample(map[string]any{"section": "L", "alg": a.name, "msglen": L, "digest": fmt.Sprintf("%x", want)})
		}
	})
}

type op struct {
	kind byte // W, S, Z
	n    int
}

func sequences(c *vf.Ctx, a *alg) {
	ops := []op{{'W', 1}, {'S', 0}, {'Z', 0}, {'W', 64}, {'W', 55}, {'W', 56}, {'W', 63}, {'W', 65}, {'W', 9}}
	depth := 5
	if c.Thorough {
		depth = 6
	}
	data := c.Bytes("S-"+a.name, 0, depth*65+8)
	vf.ExploreSeq(c, "S/"+a.name, vf.SeqSpec[op]{
		Ops: ops, Depth: depth, Parallel: true,
		Name: func(o op) string {
			switch o.kind {
			case 'W':
				return fmt.Sprintf("Write(%d)", o.n)
			case 'S':
				return "Sum"
			}
			return "Reset"
		},
		Class: func(h []op, mis string) string {
			cat, _, _ := strings.Cut(mis, " | ")
			return a.name + ": history: " + cat
		},
		Run: func(hist []op) (key string, stop bool, mis string) {
			defer recoverRun(&stop, &mis)
			h := a.new()
			pos := 0
			sums := 0
			for _, o := range hist {
				switch o.kind {
				case 'W':
					wbuf := append([]byte(nil), data[pos:pos+o.n]...) // caller-owned: overwritten after the call
					n, err := h.Write(wbuf)
					if n != o.n || err != nil {
						return "", true, "Write return value wrong"
					}
					clobber(wbuf)
					pos += o.n
				case 'Z':
					h.Reset()
					pos = 0
				case 'S':
					var got []byte
					if p, _, _ := vf.Protect(func() { got = sumInto(h, a.size) }); p {
						return "", true, "Sum panics"
					}
					sums++
					if len(got) != 3+a.size || string(got[:3]) != "pfx" || !bytes.Equal(got[3:], a.ref(data[:pos])) {
						return "", true, "Sum != reference digest of the bytes written since Reset"
					}
					clobber(got[:cap(got)]) // the result is the caller's
				}
			}
			var got []byte
			if p, _, _ := vf.Protect(func() { got = h.Sum(nil) }); p {
				return "", true, "Sum panics"
			}
			if !bytes.Equal(got, a.ref(data[:pos])) {
				return "", true, "final Sum != reference digest of the bytes written since Reset (state disturbed by an earlier Sum/Reset or chunking)"
			}
			if len(hist) == depth {
				c.Outcome(fmt.Sprintf("S history end: mid-stream sums=%d", sums))
			}
			return "", false, ""
		},
	})
}

// pfor is c.ParallelFor with every case guarded: a panic escaping the code under test
// is recorded as a violation instead of crashing the run.
func pfor(c *vf.Ctx, section string, n int, f func(i int)) {
	c.ParallelFor(n, func(i int) {
		if p, v, st := vf.Protect(func() { f(i) }); p {
			if len(st) > 1500 {
				st = st[:1500]
			}
			c.Violation(section+": unexpected panic in the code under test", map[string]any{"case_index": i, "panic": fmt.Sprint(v), "stack": st})
		}
	})
}

// recoverRun turns a panic inside a history into a mismatch of that history.
func recoverRun(stop *bool, mis *string) {
	if r := recover(); r != nil {
		*stop, *mis = true, fmt.Sprintf("unexpected panic | %v", r)
	}
}
