// C45: totality of the OpenPGP, armor and clearsign parsers.
//
// Every input of the enumerated space is handed to every entry point (ReadKeyRing,
// ReadArmoredKeyRing, ReadMessage with an empty and a real keyring and prompt functions
// that are absent / answer nil / a wrong / the right passphrase, CheckDetachedSignature,
// CheckArmoredDetachedSignature, armor.Decode (+ReadMessage on its body), clearsign.Decode);
// the call must return (value or error) without panicking and every returned body must
// reach EOF or an error within a STEP budget (Read calls are counted; no wall clock).
// The input is delivered through three reader behaviours (whole reads, one octet per Read,
// final octets together with io.EOF), bodies are drained with buffer sizes on either side of
// the 22-octet MDC window, and a drained body is read twice more after its end.
//
//	entry.go   the entry points, step-counting readers, panic classification
//	seeds.go   seed objects: GnuPG-made keys/messages, the repo's test vectors (copied as
//	           data), package-made messages, crafted session-key packets
//	mutate.go  the enumerated input space: all strings of length <=2 (<=3 thorough); for
//	           each seed every truncation, 7 substitutions at every offset, packet-length rewrites
//
//go:debug cryptocustomrand=1
package main

import (
	"fmt"
	"os"
	"os/exec"
	"sort"
	"sync/atomic"
	"syscall"
	"time"

	"verif/vf"
)

func main() { vf.Main("C45", vf.Exploration, run) }

func run(c *vf.Ctx) {
	c.Rule("inputs: ALL byte strings of length <=2 (thorough <=3); for each seed object (keys of every kind, messages of every packet kind, armored blocks, cleartext messages, crafted session-key packets) " +
		"EVERY truncation, at EVERY offset the substitutions {0x00,0x7F,0x80,0xC0,0xFF,b^1,b^0x80} (armored / cleartext seeds also LF '=' '-' ':' ' '), and for every top-level packet header the length rewrites {0,1,L-1,L,L+1,191,192,8383,8384,65535,2^31-1,2^31,2^32-16..2^32-1} in 1-, 2- and 5-octet form, " +
		"partial-length headers {2^0,2^1,2^9,2^30} (also followed by a 5-octet length) and old-format length types 0..3; nested: signature subpacket areas cut at every position, MPI bit counts, every subpacket's own length field (signature and user-attribute packets) with the same boundary set; each input goes to 11 entry-point variants; non-trivial = distinct (seed, mutation) pairs, resp. distinct short strings that are accepted or reach a packet parser; " +
		"oracle: no panic, result or error, bodies reach EOF/error within 10^6 Read calls; " +
		"hardening dimensions: (D/env) the input reaches the parsers through 3 reader behaviours (whole reads / one octet per Read / final octets together with io.EOF) and bodies are drained with 6 buffer sizes {4096,512,64,1,22,23} (22 = MDC trailer window, both sides of seMDCReader's short-read branch): " +
		"every unmodified seed x all 18 combinations, every truncation x all 3 reader behaviours (buffer size round-robin by offset), substitutions / rewrites / short strings one combination each, assigned round-robin; a drained body is read twice more after EOF/error; " +
		"(C/E) 5 crafted armored seeds with body lines of 96/97/100/101 characters and header lines whose \": \" and value straddle the 100-octet fragment boundary of armor.Decode's reader")
	c.Assume("the prompt function gives up (returns an error) after 3 calls: ReadMessage is documented to call it forever otherwise; keyrings passed to ReadMessage/CheckDetachedSignature are trusted (fixture) keys; a CPU loop that performs no Read call would hang the run instead of being reported")
	if f := os.Getenv("C45_PROBE_FILE"); f != "" {
		probe(c, f) // child process: one input through every entry point under a CPU-time limit; never returns
	}
	go watchdog(c)
	e := newEnv(c)
	if e == nil {
		return
	}
	phase := map[string]float64{}
	t0 := time.Now()
	e.shortStrings()
	phase["short_strings"] = time.Since(t0).Seconds()
	t0 = time.Now()
	seeds := e.seeds()
	e.mutations(seeds)
	phase["seed_mutations"] = time.Since(t0).Seconds()
	c.Set("phase_seconds", phase)
	e.report()
}

// tallies shared by the workers (one pair of atomic counters per entry point)
type tally struct {
	perEntry map[string]*atomic.Int64
	accepted map[string]*atomic.Int64
}

func newTally() *tally {
	t := &tally{perEntry: map[string]*atomic.Int64{}, accepted: map[string]*atomic.Int64{}}
	for _, n := range entryNames {
		t.perEntry[n], t.accepted[n] = new(atomic.Int64), new(atomic.Int64)
	}
	return t
}

func (t *tally) add(entry string, accepted bool) {
	t.perEntry[entry].Add(1)
	if accepted {
		t.accepted[entry].Add(1)
	}
}

func (e *env) report() {
	keys := make([]string, 0, len(e.t.perEntry))
	for k := range e.t.perEntry {
		keys = append(keys, k)
	}
	sort.Strings(keys)
	calls := map[string]string{}
	for _, k := range keys {
		calls[k] = fmt.Sprintf("%d calls, %d returned a value", e.t.perEntry[k].Load(), e.t.accepted[k].Load())
	}
	e.c.Set("entry_points", calls)
	for _, k := range keys {
		if e.t.accepted[k].Load() > 0 {
			e.c.Outcome(k + ": returned a value (bodies drained to EOF or error)")
		}
		if e.t.perEntry[k].Load() > e.t.accepted[k].Load() {
			e.c.Outcome(k + ": returned an error")
		}
	}
}

// probeCPUSeconds is the CPU time (not wall time) a single input may consume in the probe
// child before the kernel kills it. The same inputs take microseconds to milliseconds.
const probeCPUSeconds = 120

// probe runs in a child process: the given input goes through every entry point with every
// reader behaviour and drain size, under RLIMIT_CPU. Ending normally means "returns"; being
// killed by the limit is the parent's proof of non-termination (CPU time is independent of
// how loaded the machine is, so this is not a wall-clock oracle).
func probe(c *vf.Ctx, file string) {
	syscall.Setrlimit(syscall.RLIMIT_CPU, &syscall.Rlimit{Cur: probeCPUSeconds, Max: probeCPUSeconds + 5})
	input, err := os.ReadFile(file)
	if err != nil {
		os.Exit(4)
	}
	e := newEnv(c)
	if e == nil {
		os.Exit(4)
	}
	for mode := 0; mode < readerModes; mode++ {
		for _, buf := range drainSizes {
			e.allMode(input, buf, mode, func() string { return "probe" })
		}
	}
	os.Exit(0)
}

// watchdog: a parser loop that performs no Read call cannot be seen by the step budget and
// would make the run hang forever. A call that has been in flight for 90 s is re-run in a
// child process under a CPU-time limit (see probe); if the kernel kills the child for using
// more than probeCPUSeconds of CPU on that one input, the call does not terminate: a violation
// is recorded and the run ends (it could never complete). A child that returns normally only
// means the box is slow; the call is left alone. If the run's own budget has expired and a
// call is still in flight 5 minutes later although its probe returned, the run ends
// INCONCLUSIVE (status 3) as before.
func watchdog(c *vf.Ctx) {
	probed := map[*flight]bool{}
	self, _ := os.Executable()
	for {
		time.Sleep(15 * time.Second)
		var old []*flight
		inflight.Range(func(_, v any) bool {
			if f := v.(*flight); time.Since(f.start) > 90*time.Second {
				old = append(old, f)
			}
			return true
		})
		for _, f := range old {
			if probed[f] {
				continue
			}
			probed[f] = true
			tmp, err := os.CreateTemp("", "c45probe")
			if err != nil {
				continue
			}
			tmp.Write(f.input)
			tmp.Close()
			cmd := exec.Command(self, c.Tier)
			cmd.Env = append(os.Environ(), "C45_PROBE_FILE="+tmp.Name())
			err = cmd.Run()
			os.Remove(tmp.Name())
			if ee, ok := err.(*exec.ExitError); ok {
				if ws, ok := ee.Sys().(syscall.WaitStatus); ok && ws.Signaled() && (ws.Signal() == syscall.SIGXCPU || ws.Signal() == syscall.SIGKILL) {
					c.Violation(f.entry+" (or another entry point) does not return: the input keeps a parser busy for more than "+fmt.Sprint(probeCPUSeconds)+" s of CPU time", map[string]any{
						"input_hex": fmt.Sprintf("%x", clip(f.input, 2000)), "input": f.what(), "octets": len(f.input), "first_stuck_entry": f.entry})
					c.Abort("a call under test does not return (proven by the CPU-time-limited probe)")
				}
			}
		}
		if !c.Expired() {
			continue
		}
		var stuck []*flight
		for _, f := range old {
			if time.Since(f.start) > 5*time.Minute {
				stuck = append(stuck, f)
			}
		}
		if len(stuck) == 0 {
			continue
		}
		for _, f := range stuck {
			fmt.Fprintf(os.Stderr, "INCONCLUSIVE property=C45: %s has not returned after %s on input %q (hex %x)\n", f.entry, time.Since(f.start).Round(time.Second), f.what(), clip(f.input, 600))
		}
		os.Exit(3)
	}
}
