package main

import (
	"bytes"
	"crypto"
	"crypto/rsa"
	_ "crypto/sha256"
	_ "crypto/sha512"
	"fmt"
	"math/big"
	"sort"
	"strings"
	"time"

	"golang.org/x/crypto/openpgp"
	"golang.org/x/crypto/openpgp/packet"
	"verif/ref/pgpfix"
	"verif/ref/pgpref"
	"verif/vf"
)

type seed struct {
	name string
	data []byte
	kind string // what it is, for the evidence
}

func dearmor(b []byte) []byte {
	a, err := pgpref.ArmorDecode(b)
	if err != nil {
		panic(err)
	}
	return a.Body
}

// newLen encodes n as a new-format length with the minimal form.
func newLen(n int) []byte {
	for _, o := range []int{1, 2, 5} {
		if b, ok := pgpref.EncodeNewLength(uint32(n), o); ok {
			return b
		}
	}
	panic("length")
}

func pkt(tag byte, body []byte) []byte {
	return append(append([]byte{0xC0 | tag}, newLen(len(body))...), body...)
}

func mpi(v *big.Int) []byte {
	b := v.Bytes()
	return append([]byte{byte(v.BitLen() >> 8), byte(v.BitLen())}, b...)
}

// craftedPKESK builds session-key packets whose decrypted content is degenerate: an RSA
// encryption of a 0-, 1-, 2- and 3-octet block (a well-formed one has algorithm, key and two
// checksum octets), and ElGamal packets whose second integer is 0 or p. Each is followed by
// a well-formed integrity-protected data packet taken from a real message.
func (e *env) craftedPKESK() []seed {
	var out []seed
	ks, err := pgpref.ParseKeys(dearmor(pgpfix.Pub("rsa")))
	if err != nil {
		panic(err)
	}
	var rsaSub, elgSub *pgpref.Key
	for _, k := range ks {
		if k.Tag == 14 {
			rsaSub = k
		}
	}
	ks2, _ := pgpref.ParseKeys(dearmor(pgpfix.Pub("dsa")))
	for _, k := range ks2 {
		if k.Tag == 14 {
			elgSub = k
		}
	}
	// the encrypted data packet of a real message to the rsa key
	msg := pgpfix.Msg("enc.rsa.AES.gpg")
	pk, err := pgpref.SplitPackets(msg)
	if err != nil || len(pk) != 2 {
		panic("fixture enc.rsa.AES.gpg: unexpected structure")
	}
	// a short integrity-protected data packet follows each crafted session-key packet
	data := pkt(18, append([]byte{1}, msg[pk[1].BodyStart+1:pk[1].BodyStart+41]...))
	id := func(k *pgpref.Key) []byte {
		b := make([]byte, 8)
		for i := 0; i < 8; i++ {
			b[i] = byte(k.KeyID >> (56 - 8*uint(i)))
		}
		return b
	}
	pub := rsaSub.Pub.(*rsa.PublicKey)
	for n := 0; n <= 3; n++ {
		block := bytes.Repeat([]byte{7}, n)
		ct, err := rsa.EncryptPKCS1v15(vf.NewRand(fmt.Sprintf("c45-crafted-%d", n)), pub, block)
		if err != nil {
			panic(err)
		}
		body := append(append([]byte{3}, id(rsaSub)...), 1)
		body = append(body, byte(len(ct)*8>>8), byte(len(ct)*8)) // fixed-width MPI: the size of the seed does not depend on the ciphertext value
		body = append(body, ct...)
		out = append(out, seed{fmt.Sprintf("crafted: RSA session-key packet decrypting to %d octets", n), append(pkt(1, body), data...), "crafted PKESK"})
	}
	eg := elgSub.Pub.(*pgpref.ElGamalPriv)
	for i, c2 := range []*big.Int{big.NewInt(0), eg.P, big.NewInt(1)} {
		body := append(append([]byte{3}, id(elgSub)...), 16)
		body = append(body, mpi(big.NewInt(2))...)
		body = append(body, mpi(c2)...)
		out = append(out, seed{fmt.Sprintf("crafted: ElGamal session-key packet with second integer %s", []string{"0", "p", "1"}[i]), append(pkt(1, body), data...), "crafted PKESK"})
	}
	// an RSA-type session-key packet addressed to the ElGamal subkey, and the reverse
	{
		body := append(append([]byte{3}, id(elgSub)...), 1)
		body = append(body, mpi(big.NewInt(12345))...)
		out = append(out, seed{"crafted: RSA-type session-key packet carrying the key id of an ElGamal key", append(pkt(1, body), data...), "crafted PKESK"})
		body = append(append([]byte{3}, id(rsaSub)...), 16)
		body = append(body, mpi(big.NewInt(2))...)
		body = append(body, mpi(big.NewInt(3))...)
		out = append(out, seed{"crafted: ElGamal-type session-key packet carrying the key id of an RSA key", append(pkt(1, body), data...), "crafted PKESK"})
	}
	return out
}

// packageMade returns messages produced by the package itself (partial lengths in every layer).
func (e *env) packageMade() []seed {
	var out []seed
	ring := e.realRing()
	defer e.release(ring, new(bool))
	signer := ring[1] // the rsa fixture
	to := e.pubs[0]
	now := time.Unix(pgpfix.FixtureTime, 0)
	cfg := func(l string) *packet.Config {
		return &packet.Config{Rand: vf.NewRand("c45-made-" + l), DefaultHash: crypto.SHA256, Time: func() time.Time { return now }, DefaultCompressionAlgo: packet.CompressionZLIB}
	}
	text := []byte(strings.Repeat("seed message line\n", 40)) // 720 octets: two partial chunks
	var b bytes.Buffer
	if w, err := openpgp.Sign(&b, signer, nil, cfg("sign")); err == nil {
		w.Write(text)
		w.Close()
		out = append(out, seed{"package: Sign (RSA, partial-length literal)", append([]byte{}, b.Bytes()...), "message"})
	}
	b.Reset()
	if w, err := openpgp.Encrypt(&b, []*openpgp.Entity{to}, signer, nil, cfg("enc")); err == nil {
		w.Write(text)
		w.Close()
		out = append(out, seed{"package: Encrypt+sign (RSA)", append([]byte{}, b.Bytes()...), "message"})
	}
	b.Reset()
	if w, err := openpgp.SymmetricallyEncrypt(&b, []byte("pw"), nil, cfg("sym")); err == nil {
		w.Write(text)
		w.Close()
		out = append(out, seed{"package: SymmetricallyEncrypt (zlib)", append([]byte{}, b.Bytes()...), "message"})
	}
	return out
}

func (e *env) seeds() []seed {
	c := e.c
	var s []seed
	add := func(name, kind string, data []byte) { s = append(s, seed{name, data, kind}) }
	// GnuPG-made keys
	add("gpg key: rsa public", "key", dearmor(pgpfix.Pub("rsa")))
	add("gpg key: dsa/elgamal public", "key", dearmor(pgpfix.Pub("dsa")))
	add("gpg key: p384 secret", "key", dearmor(pgpfix.Sec("p384")))
	add("gpg key: p521 public", "key", dearmor(pgpfix.Pub("p521")))
	add("gpg key: ecdsa+ecdh public", "key", dearmor(pgpfix.Pub("ecdh")))
	add("gpg key: ecdsa+ecdh secret (unprotected)", "key", dearmor(pgpfix.Sec("ecdh")))
	add("gpg key: p384 public, armored", "armored key", pgpfix.Pub("p384"))
	add("gpg key: ecdsa+ecdh secret, armored", "armored key", pgpfix.Sec("ecdh"))
	if c.Thorough {
		add("gpg key: rsa secret", "key", dearmor(pgpfix.Sec("rsa")))
		add("gpg key: dsa/elgamal secret", "key", dearmor(pgpfix.Sec("dsa")))
		add("gpg key: locked (protected) secret", "key", dearmor(pgpfix.Sec("locked")))
		add("gpg key: p256 secret, armored", "armored key", pgpfix.Sec("p256"))
	}
	// GnuPG-made messages and signatures
	msgs := []string{"sig.rsa.SHA256.none.gpg", "sig.dsa.SHA256.zlib.gpg", "sigtext.p256.gpg", "sym.AES.none.gpg", "sym.CAST5.nomdc.gpg",
		"sym.AES256.zip.gpg", "sym.AES.s2k0.gpg", "enc.rsa.AES.gpg", "enc.dsa.AES256.gpg", "enc.locked.AES.gpg",
		"encanon.rsa.AES.gpg", "det.rsa.SHA256.sig", "dettext.dsa.sig", "det.p521.SHA512.sig", "detasc.p256.asc", "clear.rsa.asc", "clear.p256.asc", "encasc.rsa.asc"}
	if c.Thorough {
		msgs = append(msgs, "sym.3DES.bzip2.gpg", "sigenc.p384.gpg", "sigencsym.p256.gpg", "sym.AES192.zlib.gpg", "sig.p521.SHA512.zlib.gpg")
	}
	for _, n := range msgs {
		kind := "message"
		switch {
		case strings.HasPrefix(n, "det"):
			kind = "detached signature"
		case strings.HasPrefix(n, "clear"):
			kind = "cleartext message"
		}
		if strings.HasSuffix(n, ".asc") && kind != "cleartext message" {
			kind = "armored " + kind
		}
		add("gpg: "+n, kind, pgpfix.Msg(n))
	}
	// the repository's own test vectors (copied as data)
	rs := pgpfix.RepoSeeds()
	var names []string
	for n := range rs {
		names = append(names, n)
	}
	sort.Strings(names)
	quickSet := map[string]bool{"campbellQuine.bin": true, "detachedSignatureV3TextHex.bin": true, "detachedSignatureDSAHex.bin": true, "signedMessageHex.bin": true,
		"signedTextMessageHex.bin": true, "signedEncryptedMessageHex.bin": true, "signedEncryptedMessage2Hex.bin": true, "symmetricallyEncryptedCompressedHex.bin": true,
		"recipientUnspecifiedHex.bin": true, "signedMessageV3.asc": true, "keySigV3Armor.asc": true, "UnsupportedKeyHex.bin": true, "unknownHashFunctionHex.bin": true,
		"missingHashFunctionHex.bin": true, "revokedKeyHex.bin": true, "goodCrossSignatureKey.asc": true, "privKeyRSAHex.bin": true, "privKeyElGamalHex.bin": true,
		"p256TestKeyPrivateHex.bin": true, "ecc384PubHex.bin": true, "ecdsaPkDataHex.bin": true, "clearsignInput2.asc": true, "dsaKeyWithSHA512.bin": true, "e2ePublicKey.asc": true}
	for _, n := range names {
		if !c.Thorough && !quickSet[n] {
			continue
		}
		if len(rs[n]) > 4096 {
			continue // inputs are bounded by 4 KiB
		}
		add("repo test vector: "+n, "repo test vector", rs[n])
	}
	// a user attribute packet with three subpackets using the 1-, 2- and 5-octet subpacket length forms
	{
		var ua []byte
		ua = append(ua, 21, 1)
		ua = append(ua, bytes.Repeat([]byte{0x10}, 20)...)
		ua = append(ua, 192, 8, 2) // 2-octet length 200: type + 199 octets
		ua = append(ua, bytes.Repeat([]byte{0x20}, 199)...)
		ua = append(ua, 255, 0, 0, 0, 4, 3, 9, 9, 9)
		add("crafted: user attribute packet (subpacket lengths in 1, 2 and 5 octets) after a user id", "crafted packet", append(pkt(13, []byte("u <u@example.org>")), pkt(17, ua)...))
	}
	// armored blocks whose line lengths sit on the reader's thresholds (C/E): body lines of 96
	// (longest accepted), 97, 100 (= the bufio.Reader size of armor.Decode: the line comes back
	// as a fragment) and 101 characters; header lines of 99..102 characters whose ": " separator
	// and value straddle the 100-octet fragment boundary.
	{
		lit := append([]byte{'b', 0, 0, 0, 0, 0}, bytes.Repeat([]byte("armor line length seed. "), 6)...)
		body := pkt(11, lit)
		for _, w := range []int{96, 97, 100, 101} {
			add(fmt.Sprintf("crafted: armored literal message, body lines of %d characters", w), "armored message", append(pgpref.ArmorEncode("PGP MESSAGE", nil, body, w), '\n'))
		}
		var hs []pgpref.Header
		for _, n := range []int{99, 100, 101, 102} {
			// key of n-9 characters: the ": " starts at offset n-9, the value fills the line to n+8
			hs = append(hs, pgpref.Header{Key: strings.Repeat("K", n-9), Value: strings.Repeat("v", 17)})
		}
		hs = append(hs, pgpref.Header{Key: "Comment", Value: strings.Repeat("c", 200)}, pgpref.Header{Key: "Empty", Value: ""})
		add("crafted: armored literal message, header lines around the 100-octet fragment boundary", "armored message", append(pgpref.ArmorEncode("PGP MESSAGE", hs, body[:40], 64), '\n'))
	}
	s = append(s, e.packageMade()...)
	s = append(s, e.craftedPKESK()...)
	s = append(s, e.craftedHashSubstitution()...)
	total := 0
	byKind := map[string]int{}
	for _, x := range s {
		total += len(x.data)
		byKind[x.kind]++
	}
	c.Set("seeds", map[string]any{"count": len(s), "octets": total, "by_kind": byKind})
	return s
}

// craftedHashSubstitution: detached signatures whose hash-algorithm octet names another digest
// (shorter or longer than the one signed with) and whose "left 16 bits" field is recomputed so
// that the quick check passes: the verification code then runs with a digest whose length does
// not fit the key (a DSA subgroup shorter or longer than the digest, an ECDSA curve, an RSA
// modulus). A blind substitution of that octet passes the 16-bit check once in 65536.
func (e *env) craftedHashSubstitution() []seed {
	var out []seed
	for _, n := range []string{"det.rsa.SHA256.sig", "dettext.dsa.sig", "det.p521.SHA512.sig"} {
		sig := pgpfix.Msg(n)
		pk, err := pgpref.SplitPackets(sig)
		if err != nil || len(pk) != 1 {
			continue
		}
		b0 := pk[0].BodyStart
		for _, id := range []int{1, 2, 8, 9, 10, 11} {
			m := append([]byte(nil), sig...)
			body := m[b0:]
			if len(body) < 6 || body[0] != 4 || int(body[3]) == id {
				continue
			}
			body[3] = byte(id)
			rs, err := pgpref.ParseSigV4(body)
			if err != nil {
				continue
			}
			d, _, err := rs.Digest(e.doc)
			if err != nil {
				continue
			}
			body[rs.UnhashedEnd], body[rs.UnhashedEnd+1] = d[0], d[1]
			out = append(out, seed{fmt.Sprintf("crafted: %s with hash algorithm octet %d and a matching hash prefix", n, id), m, "detached signature"})
		}
	}
	return out
}
