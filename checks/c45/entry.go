package main

import (
	"bytes"
	"errors"
	"fmt"
	"io"
	"regexp"
	"strings"
	"sync"
	"sync/atomic"
	"time"

	"golang.org/x/crypto/openpgp"
	"golang.org/x/crypto/openpgp/armor"
	"golang.org/x/crypto/openpgp/clearsign"
	"verif/ref/pgpfix"
	"verif/vf"
)

const readBudget = 1000000 // Read calls per reader; more = non-termination (inputs are <= ~4 KiB)

type budgetExceeded struct{ what string }

// countReader counts Read calls on the INPUT; a parser that keeps reading past the
// budget is aborted through a panic carrying budgetExceeded.
type countReader struct {
	r     *bytes.Reader
	reads int
}

func (c *countReader) Read(p []byte) (int, error) {
	c.reads++
	if c.reads > readBudget {
		panic(budgetExceeded{"input reader"})
	}
	return c.r.Read(p)
}

func in(b []byte) io.Reader { return &countReader{r: bytes.NewReader(b)} }

// The same byte string can reach a parser through readers that behave differently, all within
// the io.Reader contract. readerModes: 0 = as much as asked for at once (bytes.Reader);
// 1 = one octet per Read call; 2 = the last octets are returned TOGETHER with io.EOF.
const readerModes = 3

var readerModeNames = [readerModes]string{"whole reads", "one octet per Read", "final octets together with io.EOF"}

type modeReader struct {
	b     []byte
	mode  int
	reads int
}

func (m *modeReader) Read(p []byte) (int, error) {
	m.reads++
	if m.reads > readBudget {
		panic(budgetExceeded{"input reader"})
	}
	if len(p) == 0 {
		return 0, nil
	}
	if len(m.b) == 0 {
		return 0, io.EOF
	}
	n := len(p)
	if m.mode == 1 {
		n = 1
	}
	if n > len(m.b) {
		n = len(m.b)
	}
	copy(p, m.b[:n])
	m.b = m.b[n:]
	if m.mode == 2 && len(m.b) == 0 {
		return n, io.EOF
	}
	return n, nil
}

// inMode returns the input as a reader of the given mode.
func inMode(b []byte, mode int) io.Reader {
	if mode == 0 {
		return in(b)
	}
	return &modeReader{b: b, mode: mode}
}

// drainSizes: buffer sizes used to read returned bodies. 1, 22 and 23 lie on either side of
// the 22-octet MDC trailer window (seMDCReader.Read takes another path for len(buf) <= 22);
// 64 / 512 / 4096 are below / above the armor line, partial-length chunk and bufio sizes.
var drainSizes = []int{4096, 512, 64, 1, 22, 23}

// drain reads a returned body to EOF or error under the step budget; afterwards the reader is
// asked twice more (a reader that has ended must keep answering without panicking).
func drain(r io.Reader, bufSize int) (n int64, err error) {
	buf := make([]byte, bufSize)
	for steps := 0; steps < readBudget; steps++ {
		k, e := r.Read(buf)
		n += int64(k)
		if e != nil {
			r.Read(buf)
			r.Read(buf[:1])
			if e == io.EOF {
				return n, nil
			}
			return n, e
		}
	}
	panic(budgetExceeded{"returned body"})
}

type env struct {
	c     *vf.Ctx
	t     *tally
	empty openpgp.EntityList
	pubs  openpgp.EntityList      // public keys for signature checks (never modified)
	pool  chan openpgp.EntityList // parsed copies of the "real" keyring; a copy is used by one goroutine at a time
	doc   []byte
}

func mustRing(c *vf.Ctx, name string, data []byte, armored bool) openpgp.EntityList {
	var el openpgp.EntityList
	var err error
	id := flightID.Add(1)
	inflight.Store(id, &flight{"loading fixture key " + name, data, func() string { return "fixture key " + name }, time.Now()})
	defer inflight.Delete(id)
	if armored {
		el, err = openpgp.ReadArmoredKeyRing(bytes.NewReader(data))
	} else {
		el, err = openpgp.ReadKeyRing(bytes.NewReader(data))
	}
	if err != nil || len(el) == 0 {
		c.Violation("fixture key is rejected by ReadKeyRing / ReadArmoredKeyRing", map[string]any{"key": name, "err": fmt.Sprint(err)})
		return nil
	}
	return el
}

func newEnv(c *vf.Ctx) *env {
	e := &env{c: c, t: newTally(), pool: make(chan openpgp.EntityList, 64), doc: pgpfix.Plain()}
	rs := pgpfix.RepoSeeds()
	for _, n := range []string{"rsa", "dsa", "p256", "p384", "p521"} {
		p := mustRing(c, n, pgpfix.Pub(n), true)
		if p == nil {
			return nil
		}
		e.pubs = append(e.pubs, p...)
	}
	for _, n := range []string{"testKeys1And2Hex.bin", "dsaKeyWithSHA512.bin"} {
		if p := mustRing(c, n, rs[n], false); p != nil {
			e.pubs = append(e.pubs, p...)
		}
	}
	for _, n := range []string{"keyV4forVerifyingSignedMessageV3.asc"} {
		if p := mustRing(c, n, rs[n], true); p != nil {
			e.pubs = append(e.pubs, p...)
		}
	}
	r := e.realRing()
	if r == nil {
		return nil
	}
	e.release(r, new(bool))
	return e
}

// realRing returns a keyring with private keys: the GnuPG-made rsa, dsa/elgamal and p256 keys, the
// repository's own test keys (some passphrase-protected) and the protected "locked" key. Prompt
// functions decrypt keys in place, so every copy is used by one goroutine at a time and is
// thrown away once a key has been unlocked.
func (e *env) realRing() openpgp.EntityList {
	select {
	case el := <-e.pool:
		return el
	default:
	}
	var ring openpgp.EntityList
	rs := pgpfix.RepoSeeds()
	for _, n := range []string{"locked", "rsa", "dsa", "p256"} {
		s := mustRing(e.c, n, pgpfix.Sec(n), true)
		if s == nil {
			return nil
		}
		ring = append(ring, s...)
	}
	for _, n := range []string{"testKeys1And2PrivateHex.bin", "dsaElGamalTestKeysHex.bin"} {
		s := mustRing(e.c, n, rs[n], false)
		if s == nil {
			return nil
		}
		ring = append(ring, s...)
	}
	return ring
}

func (e *env) release(el openpgp.EntityList, used *bool) {
	if *used {
		// only the "locked" fixture (first entity) can be unlocked by the prompts' passphrases: replace it
		l := mustRing(e.c, "locked", pgpfix.Sec("locked"), true)
		if l == nil {
			return
		}
		el = append(append(openpgp.EntityList{}, l...), el[len(l):]...)
	}
	select {
	case e.pool <- el:
	default:
	}
}

// prompt variants. Every prompt gives up after three calls (ReadMessage would call it forever).
func promptNil() openpgp.PromptFunction {
	calls := 0
	return func(keys []openpgp.Key, symmetric bool) ([]byte, error) {
		if calls++; calls > 3 {
			return nil, errors.New("prompt gives up")
		}
		return nil, nil
	}
}

func promptWith(pass, keyPass string, used *bool) openpgp.PromptFunction {
	calls := 0
	return func(keys []openpgp.Key, symmetric bool) ([]byte, error) {
		if calls++; calls > 3 {
			return nil, errors.New("prompt gives up")
		}
		for _, k := range keys {
			if k.PrivateKey != nil && k.PrivateKey.Encrypted {
				if err := k.PrivateKey.Decrypt([]byte(keyPass)); err == nil {
					*used = true
				}
			}
		}
		if symmetric {
			return []byte(pass), nil
		}
		return nil, nil
	}
}

var digits = regexp.MustCompile(`[0-9]+`)
var frameRE = regexp.MustCompile(`golang\.org/x/crypto/openpgp[\w/]*\.(?:\(\*?\w+\)\.)?\w+`)

// panicClass builds a stable class: entry point, normalised panic text, innermost frame of the package.
func panicClass(entry string, pv any, stack string) string {
	msg := fmt.Sprint(pv)
	switch {
	case strings.Contains(msg, "index out of range"):
		msg = "runtime error: index out of range"
	case strings.Contains(msg, "slice bounds out of range"):
		msg = "runtime error: slice bounds out of range"
	default:
		msg = digits.ReplaceAllString(msg, "N")
	}
	// the class names the API function; which keyring / prompt variant was used is in the detail
	if i := strings.IndexByte(entry, '('); i > 0 {
		entry = entry[:i]
	}
	if entry == "armor.Decode+ReadMessage" && strings.Contains(stack, "openpgp.ReadMessage") {
		entry = "ReadMessage"
	}
	frame := "?"
	// the frames after "panic(" are innermost first
	s := stack
	if i := strings.Index(s, "\npanic("); i >= 0 {
		s = s[i:]
	}
	if m := frameRE.FindString(s); m != "" {
		frame = strings.TrimPrefix(m, "golang.org/x/crypto/")
	}
	return fmt.Sprintf("%s panics: %s [in %s]", entry, msg, frame)
}

// inflight: calls that have not returned yet (diagnosis of a call that never returns; see watchdog in main.go)
type flight struct {
	entry string
	input []byte
	what  func() string
	start time.Time
}

var inflight sync.Map
var flightID atomic.Int64

// call runs one entry point on one input and classifies what happened.
func (e *env) call(entry string, input []byte, what func() string, f func() (accepted bool)) {
	var acc bool
	id := flightID.Add(1)
	inflight.Store(id, &flight{entry, input, what, time.Now()})
	defer inflight.Delete(id)
	p, pv, st := vf.Protect(func() { acc = f() })
	e.c.Eval(1)
	e.t.add(entry, acc && !p)
	if !p {
		return
	}
	if b, ok := pv.(budgetExceeded); ok {
		e.c.Violation(entry+": "+b.what+" does not terminate within 10^6 Read calls", map[string]any{"input_hex": fmt.Sprintf("%x", clip(input, 2000)), "input": what()})
		return
	}
	e.c.Violation(panicClass(entry, pv, st), map[string]any{"entry_point": entry, "input_hex": fmt.Sprintf("%x", clip(input, 2000)), "input": what(), "panic": fmt.Sprint(pv), "stack": st})
}

func clip(b []byte, n int) []byte {
	if len(b) > n {
		return b[:n]
	}
	return b
}

func (e *env) readMsg(r io.Reader, ring openpgp.KeyRing, prompt openpgp.PromptFunction, bufSize int) bool {
	md, err := openpgp.ReadMessage(r, ring, prompt, nil)
	if err != nil {
		return false
	}
	if md.UnverifiedBody != nil {
		drain(md.UnverifiedBody, bufSize)
	}
	return true
}

// entryNames lists the entry-point variants in the order they are called.
var entryNames = []string{
	"ReadKeyRing", "ReadArmoredKeyRing",
	"ReadMessage(empty keyring, no prompt)", "ReadMessage(empty keyring, prompt answers nil)",
	"ReadMessage(real keyring, prompt answers a wrong passphrase)", "ReadMessage(real keyring, prompt answers the right passphrase)",
	"CheckDetachedSignature", "CheckArmoredDetachedSignature",
	"armor.Decode", "armor.Decode+ReadMessage", "clearsign.Decode",
}

// all hands one input to every entry point; the combination of drain buffer size and reader
// mode is assigned round-robin by idx (unmodified seeds and truncations get every reader mode,
// see mutations()).
func (e *env) all(input []byte, idx int, what func() string) {
	if idx < 0 {
		idx = -idx
	}
	e.allMode(input, drainSizes[idx%len(drainSizes)], (idx/len(drainSizes))%readerModes, what)
}

// allMode hands one input to every entry point, read through a reader of the given mode;
// returned bodies are drained with a buffer of buf octets.
func (e *env) allMode(input []byte, buf, mode int, what0 func() string) {
	what := what0
	if mode != 0 || buf < 64 {
		what = func() string {
			return fmt.Sprintf("%s [input reader: %s; bodies read %d octets at a time]", what0(), readerModeNames[mode], buf)
		}
	}
	in := func(b []byte) io.Reader { return inMode(b, mode) }
	e.call(entryNames[0], input, what, func() bool {
		el, err := openpgp.ReadKeyRing(in(input))
		return err == nil && len(el) > 0
	})
	e.call(entryNames[1], input, what, func() bool {
		el, err := openpgp.ReadArmoredKeyRing(in(input))
		return err == nil && len(el) > 0
	})
	e.call(entryNames[2], input, what, func() bool { return e.readMsg(in(input), e.empty, nil, buf) })
	e.call(entryNames[3], input, what, func() bool { return e.readMsg(in(input), e.empty, promptNil(), buf) })
	for k, pw := range [][2]string{{"wrong", "wrong"}, {"pw", pgpfix.LockedPassphrase}} {
		used := false
		ring := e.realRing()
		e.call(entryNames[4+k], input, what, func() bool { return e.readMsg(in(input), ring, promptWith(pw[0], pw[1], &used), buf) })
		e.release(ring, &used)
	}
	e.call(entryNames[6], input, what, func() bool {
		_, err := openpgp.CheckDetachedSignature(e.pubs, inMode(e.doc, mode), in(input))
		return err == nil
	})
	e.call(entryNames[7], input, what, func() bool {
		_, err := openpgp.CheckArmoredDetachedSignature(e.pubs, inMode(e.doc, mode), in(input))
		return err == nil
	})
	e.call(entryNames[8], input, what, func() bool {
		blk, err := armor.Decode(in(input))
		if err != nil {
			return false
		}
		_, err = drain(blk.Body, buf)
		return err == nil
	})
	e.call(entryNames[9], input, what, func() bool {
		blk, err := armor.Decode(in(input))
		if err != nil {
			return false
		}
		used := false
		ring := e.realRing()
		defer e.release(ring, &used)
		return e.readMsg(blk.Body, ring, promptWith("pw", pgpfix.LockedPassphrase, &used), buf)
	})
	e.call(entryNames[10], input, what, func() bool {
		b, _ := clearsign.Decode(input)
		if b == nil {
			return false
		}
		if b.ArmoredSignature != nil && b.ArmoredSignature.Body != nil {
			_, err := openpgp.CheckDetachedSignature(e.pubs, inMode(b.Bytes, mode), b.ArmoredSignature.Body)
			return err == nil
		}
		return true
	})
}
