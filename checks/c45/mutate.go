package main

import (
	"bytes"
	"fmt"

	"verif/ref/pgpref"
)

// shortStrings: every byte string of length <= 2 (thorough: <= 3) into every entry point.
func (e *env) shortStrings() {
	c := e.c
	maxLen := 2
	if c.Thorough {
		maxLen = 3
	}
	total := 0
	for l, n := 0, 1; l <= maxLen; l, n = l+1, n*256 {
		total += n
	}
	c.Set("short_strings", map[string]int{"max_length": maxLen, "count": total})
	// enumerate by (first two octets) blocks so that the work splits evenly
	type blk struct{ l, hi int }
	var blocks []blk
	blocks = append(blocks, blk{0, 0})
	for l := 1; l <= maxLen; l++ {
		if l <= 2 {
			blocks = append(blocks, blk{l, -1})
		} else {
			for hi := 0; hi < 65536; hi++ {
				blocks = append(blocks, blk{l, hi})
			}
		}
	}
	c.ParallelFor(len(blocks), func(bi int) {
		b := blocks[bi]
		run := func(in []byte, idx int) {
			cp := append([]byte{}, in...)
			e.all(cp, idx, func() string { return fmt.Sprintf("short string %x", cp) })
			if len(cp) > 0 && cp[0]&0x80 != 0 {
				// reaches a packet parser; counted per (length, first two octets)
				k := cp
				if len(k) > 2 {
					k = k[:2]
				}
				c.Nontrivial(fmt.Sprintf("S/%d/%x", len(cp), k))
			}
		}
		switch {
		case b.l == 0:
			run(nil, 0)
		case b.l == 1:
			for x := 0; x < 256; x++ {
				run([]byte{byte(x)}, x)
			}
		case b.l == 2:
			for x := 0; x < 65536; x++ {
				run([]byte{byte(x >> 8), byte(x)}, x)
			}
		default:
			for x := 0; x < 256; x++ {
				run([]byte{byte(b.hi >> 8), byte(b.hi), byte(x)}, x)
			}
		}
	})
	if c.WantSample() {
		c.Sample(map[string]any{"part": "short strings", "example_inputs_hex": []string{"", "99", "c000", "8c0d", "d201"}, "entry_points": entryNames})
	}
}

type mutant struct {
	seed int
	desc string
	data []byte
}

// subsOf: the substitution alphabet; textual seeds (armor, cleartext) additionally get the
// characters that have a meaning in those formats.
func subsOf(b byte, textual bool) []byte {
	var out []byte
	seen := map[byte]bool{b: true}
	cand := []byte{0x00, 0x7F, 0x80, 0xC0, 0xFF, b ^ 1, b ^ 0x80}
	if textual {
		cand = append(cand, '\n', '=', '-', ':', ' ')
	}
	for _, x := range cand {
		if !seen[x] {
			seen[x] = true
			out = append(out, x)
		}
	}
	return out
}

// boundarySet: the values every rewritten length field takes: small and form boundaries, the true
// length and its neighbours, 16/31/32-bit boundaries and the sixteen largest 32-bit values
// (sums of such a length and a header size wrap around in uint32 arithmetic).
func boundarySet(trueLen int) []uint32 {
	vals := []uint32{0, 1, 191, 192, 8383, 8384, 65535, 1<<31 - 1, 1 << 31}
	for _, d := range []int{-1, 0, 1} {
		if trueLen+d >= 0 {
			vals = append(vals, uint32(trueLen+d))
		}
	}
	for k := uint32(16); k >= 1; k-- {
		vals = append(vals, 0xFFFFFFFF-k+1)
	}
	seen := map[uint32]bool{}
	var out []uint32
	for _, v := range vals {
		if !seen[v] {
			seen[v] = true
			out = append(out, v)
		}
	}
	return out
}

// encodeSubLen encodes a SUBPACKET length (RFC 4880 5.2.3.1: one octet < 192, two octets
// 192..16319, five octets) in the requested form.
func encodeSubLen(n uint32, octets int) ([]byte, bool) {
	switch octets {
	case 1:
		if n < 192 {
			return []byte{byte(n)}, true
		}
	case 2:
		if n >= 192 && n < 16320 {
			m := n - 192
			return []byte{byte(m>>8) + 192, byte(m)}, true
		}
	case 5:
		return []byte{255, byte(n >> 24), byte(n >> 16), byte(n >> 8), byte(n)}, true
	}
	return nil, false
}

type subpkt struct{ off, lenLen, n int } // offset of the length field inside the area, its size, announced length

func walkSubpackets(area []byte) (out []subpkt) {
	for i := 0; i < len(area); {
		var n, ll int
		switch {
		case area[i] < 192:
			n, ll = int(area[i]), 1
		case area[i] < 255:
			if i+1 >= len(area) {
				return
			}
			n, ll = (int(area[i])-192)<<8+int(area[i+1])+192, 2
		default:
			if i+4 >= len(area) {
				return
			}
			n, ll = int(area[i+1])<<24|int(area[i+2])<<16|int(area[i+3])<<8|int(area[i+4]), 5
		}
		if n < 0 || i+ll+n > len(area) {
			return
		}
		out = append(out, subpkt{i, ll, n})
		i += ll + n
	}
	return
}

// subpacketLengthRewrites: every subpacket of a version 4 signature packet (hashed and unhashed
// area) and of a user attribute packet gets its OWN length field re-encoded in the 1-, 2- and
// 5-octet forms with every value of boundarySet; once with the enclosing area count and packet
// length left as they are, once with both re-computed so that the framing around it is consistent.
func subpacketLengthRewrites(data []byte, p pgpref.Packet) (out [][]byte, desc []string) {
	head, tail := data[:p.Off], data[p.End:]
	b := p.Body
	emit := func(body []byte, keepHeader bool, d string) {
		var hdr []byte
		if keepHeader {
			hdr = append(hdr, data[p.Off:p.BodyStart]...)
		} else {
			hdr = []byte{0xC0 | byte(p.Tag)}
			for _, o := range []int{1, 2, 5} {
				if enc, ok := pgpref.EncodeNewLength(uint32(len(body)), o); ok {
					hdr = append(hdr, enc...)
					break
				}
			}
		}
		out = append(out, append(append(append(append([]byte{}, head...), hdr...), body...), tail...))
		desc = append(desc, d)
	}
	type area struct {
		name       string
		start, end int // subpacket data inside b
		countAt    int // offset of the two-octet count, -1 if the area is the whole packet body
	}
	var areas []area
	switch p.Tag {
	case 2:
		if p.Partial || p.Indet {
			return
		}
		sg, err := pgpref.ParseSigV4(b)
		if err != nil {
			return
		}
		areas = []area{{"hashed", 6, sg.HashedEnd, 4}, {"unhashed", sg.HashedEnd + 2, sg.UnhashedEnd, sg.HashedEnd}}
	case 17:
		if p.Partial || p.Indet {
			return
		}
		areas = []area{{"user attribute", 0, len(b), -1}}
	default:
		return
	}
	for _, a := range areas {
		for si, sp := range walkSubpackets(b[a.start:a.end]) {
			at := a.start + sp.off
			for _, v := range boundarySet(sp.n) {
				for _, o := range []int{1, 2, 5} {
					enc, ok := encodeSubLen(v, o)
					if !ok {
						continue
					}
					nb := append(append(append([]byte{}, b[:at]...), enc...), b[at+sp.lenLen:]...)
					d := fmt.Sprintf("%s subpacket %d: length %d -> %d in %d octets", a.name, si, sp.n, v, o)
					emit(nb, true, d+", enclosing lengths left as they are")
					// consistent framing: area count and packet length follow the new size
					if a.countAt >= 0 {
						cnt := a.end - a.start + len(enc) - sp.lenLen
						nb2 := append([]byte{}, nb...)
						nb2[a.countAt], nb2[a.countAt+1] = byte(cnt>>8), byte(cnt)
						emit(nb2, false, d+", enclosing lengths re-computed")
					} else {
						emit(nb, false, d+", enclosing lengths re-computed")
					}
					// and the area ending right after the rewritten length field
					if a.countAt >= 0 {
						cnt := sp.off + len(enc)
						nb3 := append(append(append([]byte{}, b[:at]...), enc...), b[a.end:]...)
						nb3[a.countAt], nb3[a.countAt+1] = byte(cnt>>8), byte(cnt)
						emit(nb3, false, d+", area ends after the length field")
					}
				}
			}
		}
	}
	return
}

// lengthRewrites returns the variants of a packet sequence in which the header of packet p is
// replaced: new-format lengths {0,1,191,192,8383,8384,2^32-1} in every octet form that can
// express them, partial-length headers, and old-format headers of every length type.
func lengthRewrites(data []byte, p pgpref.Packet) (out [][]byte, desc []string) {
	rest := data[p.BodyStart:]
	head := data[:p.Off]
	emit := func(hdr []byte, d string) {
		v := append(append(append([]byte{}, head...), hdr...), rest...)
		out = append(out, v)
		desc = append(desc, d)
	}
	tagNew := byte(0xC0 | p.Tag)
	wide := boundarySet(len(p.Body)) // includes 65535, 2^31-1, 2^31 and 2^32-16 .. 2^32-1
	for _, n := range wide {
		for _, o := range []int{1, 2, 5} {
			if enc, ok := pgpref.EncodeNewLength(n, o); ok {
				emit(append([]byte{tagNew}, enc...), fmt.Sprintf("new-format length %d in %d octets", n, o))
			}
		}
	}
	// a partial-length chain (one chunk of 2^0 octets) that ends in a five-octet length
	if len(rest) >= 1 {
		for _, n := range wide {
			out = append(out, append(append(append([]byte{}, head...), tagNew, 0xE0, rest[0], 0xFF, byte(n>>24), byte(n>>16), byte(n>>8), byte(n)), rest[1:]...))
			desc = append(desc, fmt.Sprintf("partial chunk of 1 octet followed by the five-octet length %d", n))
		}
	}
	for _, pl := range []byte{0xE0, 0xE1, 0xE9, 0xFE} {
		emit([]byte{tagNew, pl}, fmt.Sprintf("partial-length header 0x%02x", pl))
	}
	if p.Tag < 16 {
		old := func(lt byte) byte { return 0x80 | byte(p.Tag)<<2 | lt }
		for _, n := range []int{0, 1, 255} {
			emit([]byte{old(0), byte(n)}, fmt.Sprintf("old-format one-octet length %d", n))
		}
		for _, n := range []int{0, 256, 65535} {
			emit([]byte{old(1), byte(n >> 8), byte(n)}, fmt.Sprintf("old-format two-octet length %d", n))
		}
		for _, n := range wide {
			emit([]byte{old(2), byte(n >> 24), byte(n >> 16), byte(n >> 8), byte(n)}, fmt.Sprintf("old-format four-octet length %d", n))
		}
		emit([]byte{old(3)}, "old-format indeterminate length")
	}
	return
}

// nestedRewrites: rewrites of length fields INSIDE a packet body (the analogue of the packet-length
// rewrites one level down): for version 4 signature packets each subpacket area cut at every
// position and ended with the lead octets of a 2- or 5-octet subpacket length; for signature and
// session-key packets every MPI bit count set to {0,1,7,8,9,2^16-1}. The packet header is
// re-encoded so that the framing stays consistent.
func nestedRewrites(data []byte, p pgpref.Packet) (out [][]byte, desc []string) {
	head, tail := data[:p.Off], data[p.End:]
	emit := func(body []byte, d string) {
		hdr := []byte{0xC0 | byte(p.Tag)}
		for _, o := range []int{1, 2, 5} {
			if enc, ok := pgpref.EncodeNewLength(uint32(len(body)), o); ok {
				hdr = append(hdr, enc...)
				break
			}
		}
		v := append(append(append(append([]byte{}, head...), hdr...), body...), tail...)
		out = append(out, v)
		desc = append(desc, d)
	}
	b := p.Body
	var mpiAt []int
	switch p.Tag {
	case 2:
		sg, err := pgpref.ParseSigV4(b)
		if err != nil {
			return
		}
		areas := [][2]int{{6, sg.HashedEnd}, {sg.HashedEnd + 2, sg.UnhashedEnd}} // [start,end) of the subpacket data; the 2-octet count precedes it
		for ai, a := range areas {
			for cut := a[0]; cut <= a[1]; cut++ {
				for ti, t := range [][]byte{nil, {0xC0}, {0xFF}, {0xFF, 0, 0, 0}, {0xFF, 0, 0, 0, 1}, {0}} {
					if cut == a[1] && ti == 0 {
						continue
					}
					area := append(append([]byte{}, b[a[0]:cut]...), t...)
					nb := append([]byte{}, b[:a[0]-2]...)
					nb = append(nb, byte(len(area)>>8), byte(len(area)))
					nb = append(nb, area...)
					nb = append(nb, b[a[1]:]...)
					emit(nb, fmt.Sprintf("subpacket area %d cut after %d octets and ended with % x", ai, cut-a[0], t))
				}
			}
		}
		for _, r := range sg.MPIValue {
			mpiAt = append(mpiAt, r[0]-2)
		}
	case 1:
		if len(b) < 12 {
			return
		}
		for i := 10; i+2 <= len(b); {
			mpiAt = append(mpiAt, i)
			i += 2 + (int(b[i])<<8|int(b[i+1])+7)/8
		}
	default:
		return
	}
	for mi, at := range mpiAt {
		for _, bits := range []int{0, 1, 7, 8, 9, 0xFFFF} {
			nb := append([]byte{}, b...)
			nb[at], nb[at+1] = byte(bits>>8), byte(bits)
			emit(nb, fmt.Sprintf("bit count of MPI %d set to %d", mi, bits))
			// and with the value octets cut to what the new count announces
			if n := (bits + 7) / 8; at+2+n <= len(b) {
				old := (int(b[at])<<8 | int(b[at+1]) + 7) / 8
				if at+2+old <= len(b) {
					nb2 := append(append(append([]byte{}, nb[:at+2]...), b[at+2:at+2+n]...), b[at+2+old:]...)
					emit(nb2, fmt.Sprintf("MPI %d shortened to %d bits", mi, bits))
				}
			}
		}
	}
	return
}

func (e *env) mutations(seeds []seed) {
	c := e.c
	// unmutated seeds first: a panic here is a defect on well-formed input
	// (every drain buffer size x every reader mode)
	for _, s := range seeds {
		s := s
		for _, buf := range drainSizes {
			for mode := 0; mode < readerModes; mode++ {
				e.allMode(s.data, buf, mode, func() string { return "seed, unmodified: " + s.name })
			}
		}
	}
	type job struct {
		seed, off int
		kind      int // 0 truncation, 1 substitution set, 2 length rewrites of packet number off
	}
	var jobs []job
	counts := map[string]int{}
	pkts := make([][]pgpref.Packet, len(seeds))
	armoredBody := make([]*pgpref.Armored, len(seeds))
	textual := make([]bool, len(seeds))
	for si, s := range seeds {
		textual[si] = bytes.HasPrefix(s.data, []byte("-----BEGIN")) || bytes.Contains(s.data, []byte("\n-----BEGIN"))
		for off := 0; off < len(s.data); off++ {
			jobs = append(jobs, job{si, off, 0}, job{si, off, 1})
		}
		counts["truncations"] += len(s.data)
		body := s.data
		if a, err := pgpref.ArmorDecode(s.data); err == nil {
			armoredBody[si] = a
			body = a.Body
		}
		ps, _ := pgpref.SplitPackets(body) // whatever prefix of the sequence is well-formed
		pkts[si] = ps
		for pi := range ps {
			jobs = append(jobs, job{si, pi, 2})
		}
		counts["packets_with_rewritten_headers"] += len(ps)
	}
	c.Set("mutation_jobs", counts)
	c.ParallelFor(len(jobs), func(ji int) {
		j := jobs[ji]
		s := seeds[j.seed]
		switch j.kind {
		case 0:
			// every truncation through every reader mode (the end of input is where they differ);
			// the drain buffer size goes round-robin with the offset
			for mode := 0; mode < readerModes; mode++ {
				m := append([]byte{}, s.data[:j.off]...)
				e.allMode(m, drainSizes[(j.off+mode)%len(drainSizes)], mode, func() string { return fmt.Sprintf("%s, truncated to %d octets", s.name, j.off) })
			}
			c.Nontrivial(fmt.Sprintf("M/%d/t/%d", j.seed, j.off))
		case 1:
			for xi, x := range subsOf(s.data[j.off], textual[j.seed]) {
				m := append([]byte{}, s.data...)
				m[j.off] = x
				x := x
				e.all(m, j.off*5+xi*7+j.seed, func() string { return fmt.Sprintf("%s, octet %d: %02x -> %02x", s.name, j.off, s.data[j.off], x) })
				c.Nontrivial(fmt.Sprintf("M/%d/s/%d/%02x", j.seed, j.off, x))
			}
		case 2:
			body := s.data
			if armoredBody[j.seed] != nil {
				body = armoredBody[j.seed].Body
			}
			vars, descs := lengthRewrites(body, pkts[j.seed][j.off])
			v2, d2 := nestedRewrites(body, pkts[j.seed][j.off])
			vars, descs = append(vars, v2...), append(descs, d2...)
			v3, d3 := subpacketLengthRewrites(body, pkts[j.seed][j.off])
			vars, descs = append(vars, v3...), append(descs, d3...)
			for vi, v := range vars {
				m := v
				if a := armoredBody[j.seed]; a != nil {
					m = append(pgpref.ArmorEncode(a.Type, a.Headers, v, 64), '\n')
				}
				d := descs[vi]
				e.all(m, ji+vi, func() string {
					return fmt.Sprintf("%s, packet %d (tag %d): header rewritten to %s", s.name, j.off, pkts[j.seed][j.off].Tag, d)
				})
				c.Nontrivial(fmt.Sprintf("M/%d/l/%d/%d", j.seed, j.off, vi))
			}
		}
	})
	if c.WantSample() {
		s := seeds[len(seeds)-1]
		c.Sample(map[string]any{"part": "seed mutations", "seed": s.name, "seed_hex": fmt.Sprintf("%x", clip(s.data, 300)),
			"mutations": "every truncation; every offset x {00,7f,80,c0,ff,b^1,b^80}; every top-level packet header x length rewrites"})
	}
}
