package xts

// Harness for the concurrent-use part of property C13: xts.Cipher is documented as safe
// for concurrent use when the block cipher is. Added to package xts through the build
// overlay and instrumented (the tweak pool becomes a deterministic free list whose Get
// and Put are scheduling points; the block cipher used here yields before every block).

import (
	"crypto/aes"
	"crypto/cipher"
	"sync"
)

var verifC13Mu sync.Mutex

type verifC13Block struct{ cipher.Block }

func (b verifC13Block) Encrypt(dst, src []byte) {
	verifC13Mu.Lock() // a scheduling point: another goroutine may run between two blocks
	verifC13Mu.Unlock()
	b.Block.Encrypt(dst, src)
}

func (b verifC13Block) Decrypt(dst, src []byte) {
	verifC13Mu.Lock()
	verifC13Mu.Unlock()
	b.Block.Decrypt(dst, src)
}

// VerifC13Op is one Encrypt or Decrypt call on the shared Cipher.
type VerifC13Op struct {
	Decrypt bool
	InPlace bool
	Sector  uint64
	Data    []byte
}

// VerifC13Concurrent runs warm sequentially on a fresh Cipher (bringing the tweak pool
// into whatever state those calls leave behind), then one goroutine per element of ops,
// each performing its calls in order, all on the same Cipher. It returns every output.
func VerifC13Concurrent(key []byte, warm []VerifC13Op, ops [][]VerifC13Op) (warmOut [][]byte, out [][][]byte, err error) {
	tweakPool = sync.Pool{New: func() any { return new([blockSize]byte) }}
	c, err := NewCipher(func(k []byte) (cipher.Block, error) {
		b, err := aes.NewCipher(k)
		return verifC13Block{b}, err
	}, key)
	if err != nil {
		return nil, nil, err
	}
	do := func(o VerifC13Op) []byte {
		src := append([]byte(nil), o.Data...)
		dst := src
		if !o.InPlace {
			dst = make([]byte, len(src))
		}
		if o.Decrypt {
			c.Decrypt(dst, src, o.Sector)
		} else {
			c.Encrypt(dst, src, o.Sector)
		}
		return dst
	}
	for _, o := range warm {
		warmOut = append(warmOut, do(o))
	}
	out = make([][][]byte, len(ops))
	var wg sync.WaitGroup
	for i := range ops {
		i := i
		wg.Add(1)
		go func() {
			defer wg.Done()
			for _, o := range ops[i] {
				out[i] = append(out[i], do(o))
			}
		}()
	}
	wg.Wait()
	return warmOut, out, nil
}
