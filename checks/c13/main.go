// C13: XTS mode matches IEEE 1619 and inverts.
// Grid: AES-128/256 key pairs x sector boundary values x every multiple of 16 in
// 16..4096 x {separate, in-place} x value alphabet; invalid lengths must panic.
// Hardening pass (grid part only): caller-owned key and source buffers, dirty destinations,
// long-lived shared Ciphers, Decrypt of model ciphertexts, long data units up to 4 MiB (16 MiB).
package main

import (
	"bytes"
	"crypto/aes"
	"fmt"
	"sort"

	"golang.org/x/crypto/xts"
	"verif/ref/xtsref"
	"verif/schedx"
	"verif/vf"
)

func main() { vf.Main("C13", vf.Exploration, run) }

// concurrent use of one Cipher (documented as safe when the block cipher is): every
// schedule with <= bound deviations of 2-3 goroutines calling Encrypt/Decrypt on a shared
// Cipher, after a sequential warm-up that leaves the tweak pool in each reachable state;
// every output must equal the IEEE 1619 model's.
func concurrentScenarios(c *vf.Ctx) []schedx.Scenario {
	key := make([]byte, 32)
	for i := range key {
		key[i] = byte(i*11 + 5)
	}
	data := func(tag, blocks int) []byte {
		d := make([]byte, 16*blocks)
		for i := range d {
			d[i] = byte(i*13 + tag*29 + 1)
		}
		return d
	}
	E := func(tag int, sec uint64, inplace bool) xts.VerifC13Op {
		return xts.VerifC13Op{Sector: sec, Data: data(tag, 2), InPlace: inplace}
	}
	D := func(tag int, sec uint64, inplace bool) xts.VerifC13Op {
		return xts.VerifC13Op{Decrypt: true, Sector: sec, Data: data(tag, 2), InPlace: inplace}
	}
	want := func(o xts.VerifC13Op) []byte { return xtsref.Crypt(key, o.Data, o.Sector, o.Decrypt) }
	bound := 2
	if c.Thorough {
		bound = 3
	}
	type sc struct {
		name string
		warm []xts.VerifC13Op
		ops  [][]xts.VerifC13Op
	}
	warms := map[string][]xts.VerifC13Op{
		"no warm-up": nil,
		"after E":    {E(9, 7, false)},
		"after D":    {D(9, 7, false)},
		"after E,D":  {E(9, 7, false), D(8, 8, true)},
		"after D,D":  {D(9, 7, false), D(8, 8, false)},
	}
	mixes := map[string][][]xts.VerifC13Op{
		"E|E":   {{E(1, 1, false)}, {E(2, 2, false)}},
		"E|D":   {{E(1, 1, false)}, {D(2, 2, false)}},
		"D|D":   {{D(1, 1, true)}, {D(2, 2, false)}},
		"EE|DD": {{E(1, 1, false), E(3, 1<<63, true)}, {D(2, 2, false), D(4, 1<<64-1, false)}},
		"ED|DE": {{E(1, 1, true), D(3, 3, false)}, {D(2, 2, false), E(4, 4, false)}},
		"E|D|E": {{E(1, 1, false)}, {D(2, 2, false)}, {E(3, 3, true)}},
		"D|D|D": {{D(1, 1, false)}, {D(2, 2, false)}, {D(3, 3, false)}},
	}
	var scs []schedx.Scenario
	for wn, w := range warms {
		for mn, m := range mixes {
			w, m := w, m
			b := bound
			if len(m) == 3 && !c.Thorough {
				b = 2
			}
			scs = append(scs, schedx.Scenario{Name: "shared Cipher, " + wn + ", goroutines " + mn, Group: "concurrent use of one Cipher", Bound: b,
				Body: func() any {
					wo, out, err := xts.VerifC13Concurrent(key, w, m)
					if err != nil {
						return "NewCipher: " + err.Error()
					}
					for i, o := range w {
						if !bytes.Equal(wo[i], want(o)) {
							return fmt.Sprintf("warm-up call %d differs from the IEEE 1619 model", i)
						}
					}
					for g := range m {
						if len(out[g]) != len(m[g]) {
							return fmt.Sprintf("goroutine %d returned %d of %d results", g, len(out[g]), len(m[g]))
						}
						for i, o := range m[g] {
							if !bytes.Equal(out[g][i], want(o)) {
								return fmt.Sprintf("goroutine %d call %d (decrypt=%v sector=%d)", g, i, o.Decrypt, o.Sector)
							}
						}
					}
					return ""
				},
				Check: func(obs any) (string, string) {
					if s, _ := obs.(string); s != "" {
						return "concurrent Encrypt/Decrypt on a shared Cipher differs from the IEEE 1619 model", s
					}
					return "", ""
				},
				Outcome: func(obs any) string { s, _ := obs.(string); return "r=" + s }})
		}
	}
	sort.Slice(scs, func(i, j int) bool { return scs[i].Name < scs[j].Name })
	return scs
}

func run(c *vf.Ctx) {
	{
		scs := concurrentScenarios(c)
		isSched := false
		if c.Replay != nil {
			det, _ := c.Replay["detail"].(map[string]any)
			_, isSched = det["scenario"]
		}
		if c.Replay == nil || isSched {
			schedx.Explore(c, scs) // worker processes end inside
			if isSched {
				return
			}
		}
	}
	c.Rule("full grid keysize{32,64} x sector{0,1,2^32-1,2^32,2^63,2^64-1,seed} x len{16..4096 step 16} x {Encrypt separate into a dirty dst, Encrypt in place, Decrypt of the MODEL's ciphertext separate into a dirty dst, Decrypt in place, Encrypt and Decrypt into a longer dst} x value classes, " +
		"half of the calls on a fresh Cipher whose key buffer the caller has wiped, half on a long-lived Cipher (one per key class, key wiped, shared by all grid points and worker goroutines); source buffers must be unchanged; " +
		"long data units 2^k+{-16,0,16}, k=16..22 (thorough ..23 and 2^24-32, 2^24-16) x 4 (key size, key class, sector) combinations x {Encrypt separate, Decrypt in place, Encrypt in place}; " +
		"invalid lengths 1..80 and 2^k+{-1,1,8,15,17} (k=8..22) and short dst must panic without writing, after which the same Cipher still works; " +
		"non-trivial = distinct (keysize,sector,blocks) with blocks>=2 (tweak doubling exercised); oracle = big-int GF(2^128) XTS model over crypto/aes")
	c.Assume("crypto/aes is a correct AES; values outside the alphabet are not enumerated")
	sectors := []uint64{0, 1, 1<<32 - 1, 1 << 32, 1 << 63, 1<<64 - 1, 0x3333333333}
	maxLen := 4096
	if c.Thorough {
		// every single-bit sector number and its predecessor, and data units up to 16 KiB
		for k := 1; k < 64; k++ {
			sectors = append(sectors, 1<<uint(k), 1<<uint(k)-1)
		}
		maxLen = 16384
	}
	type pt struct {
		ks  int
		sec uint64
		n   int
	}
	var grid []pt
	for _, ks := range []int{32, 64} {
		for _, s := range sectors {
			for n := 16; n <= maxLen; n += 16 {
				grid = append(grid, pt{ks, s, n})
			}
		}
	}
	nv := c.V()
	// Long-lived Ciphers, one per (key size, key class), created once from a PRIVATE copy of the key
	// that is wiped as soon as NewCipher has returned, and then used by every grid point (from all
	// worker goroutines: a Cipher is documented as safe for concurrent use) — each grid point thus
	// sees a Cipher with an arbitrary history of earlier sectors and lengths behind it.
	sharedCi := map[int][]*xts.Cipher{}
	for _, ks := range []int{32, 64} {
		for _, key := range c.ValueClasses("xts-key", ks, nv) {
			kc := append([]byte(nil), key...)
			ci, err := xts.NewCipher(aes.NewCipher, kc)
			for j := range kc {
				kc[j] ^= 0xFF
			}
			if err != nil {
				c.Violation("NewCipher rejects valid key", fmt.Sprint(ks, err))
				return
			}
			sharedCi[ks] = append(sharedCi[ks], ci)
		}
	}
	dirty := func(n int, v byte) []byte { // a destination that still holds old data
		b := make([]byte, n)
		for j := range b {
			b[j] = v ^ byte(j)
		}
		return b
	}
	c.ParallelFor(len(grid), func(i int) {
		g := grid[i]
		keys := c.ValueClasses("xts-key", g.ks, nv)
		// the carry of the tweak doubling depends on the tweak value: vary key classes,
		// keep the data classes small for long inputs
		for ki, key := range keys {
			kc := append([]byte(nil), key...)
			ci, err := xts.NewCipher(aes.NewCipher, kc)
			if err != nil {
				c.Violation("NewCipher rejects valid key", fmt.Sprint(g.ks, err))
				return
			}
			if !bytes.Equal(kc, key) {
				c.Violation("NewCipher modifies the caller's key", map[string]any{"keysize": g.ks, "keyclass": ki})
			}
			for j := range kc {
				kc[j] ^= 0xFF // the caller wipes its key buffer
			}
			old := sharedCi[g.ks][ki] // same key, long history
			datas := c.ValueClasses("xts-data", g.n, 1)
			if g.n > 512 {
				datas = datas[3:] // ascending + seeded only
			}
			for di, data := range datas {
				det := map[string]any{"keysize": g.ks, "sector": g.sec, "len": g.n, "keyclass": ki, "dataclass": di}
				want := xtsref.Crypt(key, data, g.sec, false)
				src := append([]byte(nil), data...)
				got := dirty(g.n, 0xC3)
				pan, val, _ := vf.Protect(func() { ci.Encrypt(got, src, g.sec) })
				if pan {
					det["panic"] = fmt.Sprint(val)
					c.Violation("Encrypt/Decrypt panics on valid arguments", det)
					continue
				}
				c.Eval(1)
				if !bytes.Equal(got, want) {
					c.Violation("Encrypt != IEEE 1619 model", det)
				}
				if !bytes.Equal(src, data) {
					c.Violation("Encrypt modifies the plaintext buffer", det)
				}
				// in place, on the long-lived Cipher (odd key classes: unaligned buffer)
				buf := append(make([]byte, ki%2, g.n+1), data...)[ki%2:]
				old.Encrypt(buf, buf, g.sec)
				c.Eval(1)
				if !bytes.Equal(buf, want) {
					c.Violation("in-place Encrypt differs", det)
				}
				// Decrypt of the MODEL's ciphertext
				csrc := append([]byte(nil), want...)
				back := dirty(g.n, 0x3C)
				old.Decrypt(back, csrc, g.sec)
				c.Eval(1)
				if !bytes.Equal(back, data) {
					c.Violation("Decrypt of an IEEE 1619 ciphertext != plaintext", det)
				}
				if !bytes.Equal(csrc, want) {
					c.Violation("Decrypt modifies the ciphertext buffer", det)
				}
				ci.Decrypt(buf, buf, g.sec)
				c.Eval(1)
				if !bytes.Equal(buf, data) {
					c.Violation("in-place Decrypt differs", det)
				}
				// dst longer than src: only len(src) bytes written
				big := make([]byte, g.n+16)
				for j := range big {
					big[j] = 0xA5
				}
				old.Encrypt(big, src, g.sec)
				c.Eval(1)
				if !bytes.Equal(big[:g.n], want) || !bytes.Equal(big[g.n:], bytes.Repeat([]byte{0xA5}, 16)) {
					c.Violation("Encrypt into longer dst wrong", det)
				}
				for j := range big {
					big[j] = 0x5A
				}
				pan, val, _ = vf.Protect(func() { ci.Decrypt(big, csrc, g.sec) })
				c.Eval(1)
				if pan {
					det["panic"] = fmt.Sprint(val)
					c.Violation("Encrypt/Decrypt panics on valid arguments", det)
					continue
				}
				if !bytes.Equal(big[:g.n], data) || !bytes.Equal(big[g.n:], bytes.Repeat([]byte{0x5A}, 16)) {
					c.Violation("Decrypt into longer dst wrong", det)
				}
			}
		}
		if g.n >= 32 {
			c.Nontrivial(fmt.Sprintf("%d/%d/%d", g.ks, g.sec, g.n/16))
		}
		c.Outcome(fmt.Sprintf("blocks-mod-32=%d", (g.n/16)%32))
		if c.WantSample() && g.n == 4096 {
			c.Sample(map[string]any{"keysize": g.ks, "sector": g.sec, "len": g.n, "key_classes": len(keys)})
		}
	})
	// long data units: lengths 2^k+{-16,0,16} for k=16..22 (the documented limit is < 2^24 bytes; thorough
	// goes to 2^24-16). Without ciphertext stealing block i depends only on tweak*x^i and block i, so
	// the model's ciphertext of the longest unit contains the ciphertext of every shorter one as a prefix.
	{
		var longs []int
		maxK := 22
		if c.Thorough {
			maxK = 23
		}
		for k := 16; k <= maxK; k++ {
			longs = append(longs, 1<<uint(k)-16, 1<<uint(k), 1<<uint(k)+16)
		}
		if c.Thorough {
			longs = append(longs, 1<<24-32, 1<<24-16)
		}
		longMax := longs[len(longs)-1]
		data := make([]byte, longMax)
		for j := range data {
			data[j] = byte(j*7 + j>>12)
		}
		type lt struct {
			ks, ki int
			sec    uint64
		}
		last := len(sharedCi[32]) - 1 // the seeded key class
		lts := []lt{{32, 1, 0}, {32, last, 1<<64 - 1}, {64, 2, 1}, {64, last, 0x3333333333}}
		wants := make([][]byte, len(lts))
		c.ParallelFor(len(lts), func(i int) {
			wants[i] = xtsref.Crypt(c.ValueClasses("xts-key", lts[i].ks, nv)[lts[i].ki], data, lts[i].sec, false)
		})
		c.ParallelFor(len(lts)*len(longs), func(i int) {
			t, n := lts[i/len(longs)], longs[i%len(longs)]
			want := wants[i/len(longs)][:n]
			ci := sharedCi[t.ks][t.ki]
			det := map[string]any{"keysize": t.ks, "sector": t.sec, "len": n, "keyclass": t.ki, "long": true}
			got := dirty(n+16, 0xC3)
			guard := append([]byte(nil), got[n:]...)
			pan, val, _ := vf.Protect(func() { ci.Encrypt(got, data[:n], t.sec) })
			c.Eval(1)
			if pan {
				det["panic"] = fmt.Sprint(val)
				c.Violation("Encrypt panics on a long data unit (< 2^24 bytes)", det)
				return
			}
			if !bytes.Equal(got[:n], want) {
				k := 0
				for got[k] == want[k] {
					k++
				}
				det["first_diff_block"] = k / 16
				c.Violation("Encrypt != IEEE 1619 model on a long data unit (>= 64 KiB)", det)
			}
			if !bytes.Equal(got[n:], guard) {
				c.Violation("Encrypt into longer dst wrong", det)
			}
			// decrypt the model's ciphertext in place
			copy(got, want)
			pan, _, _ = vf.Protect(func() { ci.Decrypt(got[:n], got[:n], t.sec) })
			c.Eval(1)
			if pan || !bytes.Equal(got[:n], data[:n]) {
				c.Violation("in-place Decrypt of an IEEE 1619 ciphertext != plaintext on a long data unit (>= 64 KiB)", det)
			}
			pan, _, _ = vf.Protect(func() { ci.Encrypt(got[:n], got[:n], t.sec) })
			c.Eval(1)
			if pan || !bytes.Equal(got[:n], want) {
				c.Violation("in-place Encrypt differs on a long data unit (>= 64 KiB)", det)
			}
			c.Nontrivial(fmt.Sprintf("long/%d/%d/%d", t.ks, t.sec, n/16))
		})
	}
	// the tweak doubling itself on boundary values: the tweak of a data unit is AES_k2(sector),
	// so carry patterns such as a 32- or 64-bit word of all ones with a carry coming in are
	// reached through Encrypt only for about one sector in 10^8; enumerate them directly
	// against the big-integer model (x -> 2x mod x^128+x^7+x^2+x+1, little-endian bytes).
	{
		pats := [][16]byte{}
		add := func(t [16]byte) { pats = append(pats, t) }
		var zero, ones [16]byte
		for i := range ones {
			ones[i] = 0xff
		}
		add(zero)
		add(ones)
		for pos := 0; pos < 128; pos++ {
			for _, k := range []int{1, 2, 7, 8, 9, 15, 16, 17, 31, 32, 33, 63, 64, 65, 96, 127, 128} {
				// a run of k one-bits whose highest bit is at position pos (and its complement)
				if k > pos+1 {
					continue
				}
				var t, c [16]byte
				for b := pos - k + 1; b <= pos; b++ {
					t[b/8] |= 1 << uint(b%8)
				}
				for i := range c {
					c[i] = ^t[i]
				}
				add(t)
				add(c)
				// the run plus the top bit (reduction) and plus bit 0
				t2 := t
				t2[15] |= 0x80
				add(t2)
				t3 := t
				t3[0] |= 1
				add(t3)
			}
		}
		for i := 0; i < 64*c.V(); i++ {
			var t [16]byte
			copy(t[:], c.Bytes("xts-tweak", i, 16))
			add(t)
		}
		for _, t := range pats {
			got := t
			want := t
			// chains of 300 doublings from each start (a 4 KiB data unit needs 255)
			for j := 0; j < 300; j++ {
				xts.VerifC13Mul2(&got)
				want = xtsref.Double(want)
				c.Eval(1)
				if got != want {
					c.Violation("tweak doubling (mul2) != multiplication by x in GF(2^128)", map[string]any{"start": fmt.Sprintf("%x", t), "step": j, "got": fmt.Sprintf("%x", got), "want": fmt.Sprintf("%x", want)})
					break
				}
			}
			c.Nontrivial("mul2/" + fmt.Sprintf("%x", t))
		}
		c.Set("mul2_start_patterns", len(pats))
	}
	// argument rules: lengths that are not a multiple of 16 and short dst must panic (before anything is written);
	// afterwards the same Cipher still works
	key := c.Bytes("k", 0, 32)
	ci, _ := xts.NewCipher(aes.NewCipher, key)
	var badLens []int
	for n := 1; n <= 80; n++ {
		badLens = append(badLens, n)
	}
	for k := 8; k <= 22; k += 2 {
		badLens = append(badLens, 1<<uint(k)-1, 1<<uint(k)+1, 1<<uint(k)+8, 1<<uint(k)+15, 1<<uint(k)+17)
	}
	for _, n := range badLens {
		if n%16 == 0 {
			continue
		}
		c.Eval(2)
		src := make([]byte, n)
		dst := bytes.Repeat([]byte{0xA5}, n)
		if !vf.Panics(func() { ci.Encrypt(dst, src, 0) }) {
			c.Violation("Encrypt accepts length not multiple of 16", n)
		}
		if !vf.Panics(func() { ci.Decrypt(dst, src, 0) }) {
			c.Violation("Decrypt accepts length not multiple of 16", n)
		}
		if !bytes.Equal(dst, bytes.Repeat([]byte{0xA5}, n)) {
			c.Violation("Encrypt/Decrypt writes to dst before rejecting an invalid length", n)
		}
	}
	for _, n := range []int{16, 32, 512, 4096, 65536} {
		c.Eval(2)
		if !vf.Panics(func() { ci.Encrypt(make([]byte, n-1), make([]byte, n), 0) }) {
			c.Violation("Encrypt accepts short dst", n)
		}
		if !vf.Panics(func() { ci.Decrypt(make([]byte, n-1), make([]byte, n), 0) }) {
			c.Violation("Decrypt accepts short dst", n)
		}
		if !vf.Panics(func() { ci.Encrypt(make([]byte, n-16), make([]byte, n), 0) }) {
			c.Violation("Encrypt accepts short dst", n)
		}
	}
	{
		// non-initial state: the Cipher that has just rejected all of the above
		data := c.ValueClasses("xts-data", 512, 1)[4]
		want := xtsref.Crypt(key, data, 77, false)
		got := make([]byte, 512)
		back := make([]byte, 512)
		pan, _, _ := vf.Protect(func() { ci.Encrypt(got, data, 77); ci.Decrypt(back, want, 77) })
		c.Eval(2)
		if pan || !bytes.Equal(got, want) || !bytes.Equal(back, data) {
			c.Violation("Encrypt/Decrypt wrong on a Cipher that has rejected invalid arguments before", nil)
		}
	}
	// wrong key sizes rejected
	for ks := 0; ks <= 70; ks++ {
		_, err := xts.NewCipher(aes.NewCipher, make([]byte, ks))
		valid := ks == 32 || ks == 48 || ks == 64
		c.Eval(1)
		if (err == nil) != valid {
			c.Violation("NewCipher key length acceptance", ks)
		}
	}
}
