// C13: XTS mode matches IEEE 1619 and inverts.
// Grid: AES-128/256 key pairs x sector boundary values x every multiple of 16 in
// 16..4096 x {separate, in-place} x value alphabet; invalid lengths must panic.
package main

import (
	"bytes"
	"crypto/aes"
	"fmt"
	"sort"

	"golang.org/x/crypto/xts"
	"verif/ref/xtsref"
	"verif/schedx"
	"verif/vf"
)

func main() { vf.Main("C13", vf.Exploration, run) }

// concurrent use of one Cipher (documented as safe when the block cipher is): every
// schedule with <= bound deviations of 2-3 goroutines calling Encrypt/Decrypt on a shared
// Cipher, after a sequential warm-up that leaves the tweak pool in each reachable state;
// every output must equal the IEEE 1619 model's.
func concurrentScenarios(c *vf.Ctx) []schedx.Scenario {
	key := make([]byte, 32)
	for i := range key {
		key[i] = byte(i*11 + 5)
	}
	data := func(tag, blocks int) []byte {
		d := make([]byte, 16*blocks)
		for i := range d {
			d[i] = byte(i*13 + tag*29 + 1)
		}
		return d
	}
	E := func(tag int, sec uint64, inplace bool) xts.VerifC13Op {
		return xts.VerifC13Op{Sector: sec, Data: data(tag, 2), InPlace: inplace}
	}
	D := func(tag int, sec uint64, inplace bool) xts.VerifC13Op {
		return xts.VerifC13Op{Decrypt: true, Sector: sec, Data: data(tag, 2), InPlace: inplace}
	}
	want := func(o xts.VerifC13Op) []byte { return xtsref.Crypt(key, o.Data, o.Sector, o.Decrypt) }
	bound := 2
	if c.Thorough {
		bound = 3
	}
	type sc struct {
		name string
		warm []xts.VerifC13Op
		ops  [][]xts.VerifC13Op
	}
	warms := map[string][]xts.VerifC13Op{
		"no warm-up": nil,
		"after E":    {E(9, 7, false)},
		"after D":    {D(9, 7, false)},
		"after E,D":  {E(9, 7, false), D(8, 8, true)},
		"after D,D":  {D(9, 7, false), D(8, 8, false)},
	}
	mixes := map[string][][]xts.VerifC13Op{
		"E|E":   {{E(1, 1, false)}, {E(2, 2, false)}},
		"E|D":   {{E(1, 1, false)}, {D(2, 2, false)}},
		"D|D":   {{D(1, 1, true)}, {D(2, 2, false)}},
		"EE|DD": {{E(1, 1, false), E(3, 1<<63, true)}, {D(2, 2, false), D(4, 1<<64-1, false)}},
		"ED|DE": {{E(1, 1, true), D(3, 3, false)}, {D(2, 2, false), E(4, 4, false)}},
		"E|D|E": {{E(1, 1, false)}, {D(2, 2, false)}, {E(3, 3, true)}},
		"D|D|D": {{D(1, 1, false)}, {D(2, 2, false)}, {D(3, 3, false)}},
	}
	var scs []schedx.Scenario
	for wn, w := range warms {
		for mn, m := range mixes {
			w, m := w, m
			b := bound
			if len(m) == 3 && !c.Thorough {
				b = 2
			}
			scs = append(scs, schedx.Scenario{Name: "shared Cipher, " + wn + ", goroutines " + mn, Group: "concurrent use of one Cipher", Bound: b,
				Body: func() any {
					wo, out, err := xts.VerifC13Concurrent(key, w, m)
					if err != nil {
						return "NewCipher: " + err.Error()
					}
					for i, o := range w {
						if !bytes.Equal(wo[i], want(o)) {
							return fmt.Sprintf("warm-up call %d differs from the IEEE 1619 model", i)
						}
					}
					for g := range m {
						if len(out[g]) != len(m[g]) {
							return fmt.Sprintf("goroutine %d returned %d of %d results", g, len(out[g]), len(m[g]))
						}
						for i, o := range m[g] {
							if !bytes.Equal(out[g][i], want(o)) {
								return fmt.Sprintf("goroutine %d call %d (decrypt=%v sector=%d)", g, i, o.Decrypt, o.Sector)
							}
						}
					}
					return ""
				},
				Check: func(obs any) (string, string) {
					if s, _ := obs.(string); s != "" {
						return "concurrent Encrypt/Decrypt on a shared Cipher differs from the IEEE 1619 model", s
					}
					return "", ""
				},
				Outcome: func(obs any) string { s, _ := obs.(string); return "r=" + s }})
		}
	}
	sort.Slice(scs, func(i, j int) bool { return scs[i].Name < scs[j].Name })
	return scs
}

func run(c *vf.Ctx) {
	{
		scs := concurrentScenarios(c)
		isSched := false
		if c.Replay != nil {
			det, _ := c.Replay["detail"].(map[string]any)
			_, isSched = det["scenario"]
		}
		if c.Replay == nil || isSched {
			schedx.Explore(c, scs) // worker processes end inside
			if isSched {
				return
			}
		}
	}
	c.Rule("full grid keysize{32,64} x sector{0,1,2^32-1,2^32,2^63,2^64-1,seed} x len{16..4096 step 16} x {separate,in-place} x value classes; " +
		"non-trivial = distinct (keysize,sector,blocks) with blocks>=2 (tweak doubling exercised); oracle = big-int GF(2^128) XTS model over crypto/aes")
	c.Assume("crypto/aes is a correct AES; values outside the alphabet are not enumerated")
	sectors := []uint64{0, 1, 1<<32 - 1, 1 << 32, 1 << 63, 1<<64 - 1, 0x3333333333}
	maxLen := 4096
	if c.Thorough {
		// every single-bit sector number and its predecessor, and data units up to 16 KiB
		for k := 1; k < 64; k++ {
			sectors = append(sectors, 1<<uint(k), 1<<uint(k)-1)
		}
		maxLen = 16384
	}
	type pt struct {
		ks  int
		sec uint64
		n   int
	}
	var grid []pt
	for _, ks := range []int{32, 64} {
		for _, s := range sectors {
			for n := 16; n <= maxLen; n += 16 {
				grid = append(grid, pt{ks, s, n})
			}
		}
	}
	nv := c.V()
	c.ParallelFor(len(grid), func(i int) {
		g := grid[i]
		keys := c.ValueClasses("xts-key", g.ks, nv)
		// the carry of the tweak doubling depends on the tweak value: vary key classes,
		// keep the data classes small for long inputs
		for ki, key := range keys {
			ci, err := xts.NewCipher(aes.NewCipher, key)
			if err != nil {
				c.Violation("NewCipher rejects valid key", fmt.Sprint(g.ks, err))
				return
			}
			datas := c.ValueClasses("xts-data", g.n, 1)
			if g.n > 512 {
				datas = datas[3:] // ascending + seeded only
			}
			for di, data := range datas {
				want := xtsref.Crypt(key, data, g.sec, false)
				got := make([]byte, g.n)
				ci.Encrypt(got, data, g.sec)
				c.Eval(1)
				if !bytes.Equal(got, want) {
					c.Violation("Encrypt != IEEE 1619 model", map[string]any{"keysize": g.ks, "sector": g.sec, "len": g.n, "keyclass": ki, "dataclass": di})
				}
				// in place
				buf := append([]byte(nil), data...)
				ci.Encrypt(buf, buf, g.sec)
				if !bytes.Equal(buf, want) {
					c.Violation("in-place Encrypt differs", map[string]any{"keysize": g.ks, "sector": g.sec, "len": g.n})
				}
				back := make([]byte, g.n)
				ci.Decrypt(back, got, g.sec)
				if !bytes.Equal(back, data) {
					c.Violation("Decrypt(Encrypt(x)) != x", map[string]any{"keysize": g.ks, "sector": g.sec, "len": g.n})
				}
				ci.Decrypt(buf, buf, g.sec)
				if !bytes.Equal(buf, data) {
					c.Violation("in-place Decrypt differs", map[string]any{"keysize": g.ks, "sector": g.sec, "len": g.n})
				}
				// dst longer than src: only len(src) bytes written
				big := make([]byte, g.n+16)
				for j := range big {
					big[j] = 0xA5
				}
				ci.Encrypt(big, data, g.sec)
				if !bytes.Equal(big[:g.n], want) || !bytes.Equal(big[g.n:], bytes.Repeat([]byte{0xA5}, 16)) {
					c.Violation("Encrypt into longer dst wrong", map[string]any{"keysize": g.ks, "sector": g.sec, "len": g.n})
				}
			}
		}
		if g.n >= 32 {
			c.Nontrivial(fmt.Sprintf("%d/%d/%d", g.ks, g.sec, g.n/16))
		}
		c.Outcome(fmt.Sprintf("blocks-mod-32=%d", (g.n/16)%32))
		if c.WantSample() && g.n == 4096 {
			c.Sample(map[string]any{"keysize": g.ks, "sector": g.sec, "len": g.n, "key_classes": len(keys)})
		}
	})
	// the tweak doubling itself on boundary values: the tweak of a data unit is AES_k2(sector),
	// so carry patterns such as a 32- or 64-bit word of all ones with a carry coming in are
	// reached through Encrypt only for about one sector in 10^8; enumerate them directly
	// against the big-integer model (x -> 2x mod x^128+x^7+x^2+x+1, little-endian bytes).
	{
		pats := [][16]byte{}
		add := func(t [16]byte) { pats = append(pats, t) }
		var zero, ones [16]byte
		for i := range ones {
			ones[i] = 0xff
		}
		add(zero)
		add(ones)
		for pos := 0; pos < 128; pos++ {
			for _, k := range []int{1, 2, 7, 8, 9, 15, 16, 17, 31, 32, 33, 63, 64, 65, 96, 127, 128} {
				// a run of k one-bits whose highest bit is at position pos (and its complement)
				if k > pos+1 {
					continue
				}
				var t, c [16]byte
				for b := pos - k + 1; b <= pos; b++ {
					t[b/8] |= 1 << uint(b%8)
				}
				for i := range c {
					c[i] = ^t[i]
				}
				add(t)
				add(c)
				// the run plus the top bit (reduction) and plus bit 0
				t2 := t
				t2[15] |= 0x80
				add(t2)
				t3 := t
				t3[0] |= 1
				add(t3)
			}
		}
		for i := 0; i < 64*c.V(); i++ {
			var t [16]byte
			copy(t[:], c.Bytes("xts-tweak", i, 16))
			add(t)
		}
		for _, t := range pats {
			got := t
			want := t
			// chains of 300 doublings from each start (a 4 KiB data unit needs 255)
			for j := 0; j < 300; j++ {
				xts.VerifC13Mul2(&got)
				want = xtsref.Double(want)
				c.Eval(1)
				if got != want {
					c.Violation("tweak doubling (mul2) != multiplication by x in GF(2^128)", map[string]any{"start": fmt.Sprintf("%x", t), "step": j, "got": fmt.Sprintf("%x", got), "want": fmt.Sprintf("%x", want)})
					break
				}
			}
			c.Nontrivial("mul2/" + fmt.Sprintf("%x", t))
		}
		c.Set("mul2_start_patterns", len(pats))
	}
	// argument rules: lengths that are not a multiple of 16 and short dst must panic; zero length is a no-op or panic but never writes
	key := c.Bytes("k", 0, 32)
	ci, _ := xts.NewCipher(aes.NewCipher, key)
	for n := 1; n <= 80; n++ {
		if n%16 == 0 {
			continue
		}
		c.Eval(2)
		src := make([]byte, n)
		if !vf.Panics(func() { ci.Encrypt(make([]byte, n), src, 0) }) {
			c.Violation("Encrypt accepts length not multiple of 16", n)
		}
		if !vf.Panics(func() { ci.Decrypt(make([]byte, n), src, 0) }) {
			c.Violation("Decrypt accepts length not multiple of 16", n)
		}
	}
	for _, n := range []int{16, 32, 512} {
		c.Eval(2)
		if !vf.Panics(func() { ci.Encrypt(make([]byte, n-1), make([]byte, n), 0) }) {
			c.Violation("Encrypt accepts short dst", n)
		}
		if !vf.Panics(func() { ci.Decrypt(make([]byte, n-1), make([]byte, n), 0) }) {
			c.Violation("Decrypt accepts short dst", n)
		}
	}
	// wrong key sizes rejected
	for ks := 0; ks <= 70; ks++ {
		_, err := xts.NewCipher(aes.NewCipher, make([]byte, ks))
		valid := ks == 32 || ks == 48 || ks == 64
		c.Eval(1)
		if (err == nil) != valid {
			c.Violation("NewCipher key length acceptance", ks)
		}
	}
}
