package main

// Part H: hardening dimensions (HARDEN.md A-E) for C48.
//
//	H1 (E)  one signer per branch of the signing-parameter selection: ECDSA P-224 / P-384 / P-521
//	        delegates and an RSA delegate, default algorithm and every requested algorithm; requests
//	        that do not fit the key (other key type, MD5/MD2/DSA/Ed25519/PSS identifiers) and an
//	        Ed25519 signer must give an error, never a response
//	H2 (C/E) DER length boundaries: one extension whose value has EVERY length 0..400 and every
//	        length in a window below 65536 (so that each enclosing SEQUENCE / OCTET STRING crosses
//	        127->128, 255->256 and 65535->65536 content octets), 0..40 extensions, responder
//	        certificates with subjects of 1..300 octets
//	H3 (D)  a parsed response used as the template of a new CreateResponse (re-signing) by a signer
//	        of the same or another key type; CreateResponse must not modify what the template
//	        refers to
//	H4 (A)  the caller overwrites the DER buffer after ParseResponse / ParseResponseForCert /
//	        ParseRequest: every field that is a decoded VALUE stays what it was (the fields
//	        documented as raw bytes of the response - Raw, TBSResponseData, Signature,
//	        RawResponderName, Certificate - alias the input by design and are not compared)
//	H5 (E)  reference-built responses with 2 / 5 / 60 / 700 SingleResponses, the wanted serial first,
//	        in the middle, last and twice (the first match is reported), and near-miss serials
//	        (serial +- 1, + 256, + 2^64, negated) that must not match

import (
	"bytes"
	"crypto"
	"crypto/ecdsa"
	"crypto/ed25519"
	"crypto/elliptic"
	"crypto/rand"
	"crypto/sha256"
	"crypto/x509"
	"crypto/x509/pkix"
	"encoding/asn1"
	"fmt"
	"math/big"
	"strings"
	"sync/atomic"
	"time"

	"golang.org/x/crypto/ocsp"
	"verif/ref/ocspref"
	"verif/vf"
)

type hardWorld struct {
	curveDelegate [2][3]*ident // [issuer kind][P-224, P-384, P-521], issued by issuer[kind]
	longSubject   []*ident     // ECDSA delegates of issuer[1] whose subject DN grows
}

var hw *hardWorld

func buildHardWorld() *hardWorld {
	h := &hardWorld{}
	for k := 0; k < 2; k++ {
		for i, cv := range []elliptic.Curve{elliptic.P224(), elliptic.P384(), elliptic.P521()} {
			key, err := ecdsa.GenerateKey(cv, rand.Reader)
			if err != nil {
				panic(err)
			}
			cn := fmt.Sprintf("C48 Delegate %s under %s", cv.Params().Name, w.issuer[k].name)
			h.curveDelegate[k][i] = (&ident{name: cn, key: key, cert: mustCert(leafTemplate(cn), w.issuer[k].cert, key.Public(), w.issuer[k].key)}).finish()
		}
	}
	key, _ := ecdsa.GenerateKey(elliptic.P256(), rand.Reader)
	for _, n := range []int{1, 60, 61, 62, 63, 64, 65, 66, 120, 180, 190, 200, 300} {
		t := leafTemplate("x")
		t.Subject = pkix.Name{CommonName: strings.Repeat("n", n)}
		h.longSubject = append(h.longSubject, (&ident{name: fmt.Sprintf("delegate with a %d-octet common name", n), key: key, cert: mustCert(t, w.issuer[1].cert, key.Public(), w.issuer[1].key)}).finish())
	}
	return h
}

// snapshot of everything a template refers to
type tmplSnap struct {
	serial string
	exts   string
	cert   []byte
}

func snapTemplate(t *ocsp.Response) tmplSnap {
	s := tmplSnap{serial: fmt.Sprint(t.SerialNumber), exts: extDigest(t.ExtraExtensions) + "|" + extDigest(t.Extensions)}
	if t.Certificate != nil {
		s.cert = append([]byte(nil), t.Certificate.Raw...)
	}
	return s
}

// extDigest is a short, collision-resistant rendering of an extension list.
func extDigest(e []pkix.Extension) string {
	h := sha256.New()
	for _, x := range e {
		fmt.Fprintf(h, "%v/%v/%d:", x.Id, x.Critical, len(x.Value))
		h.Write(x.Value)
	}
	return fmt.Sprintf("%d:%x", len(e), h.Sum(nil)[:8])
}

// valueFields renders the decoded-value fields of a parsed response.
func valueFields(r *ocsp.Response) string {
	return fmt.Sprintf("st=%d serial=%v prod=%d this=%d next=%d rev=%d reason=%d alg=%v ih=%v keyhash=%x ext=%s",
		r.Status, r.SerialNumber, r.ProducedAt.Unix(), r.ThisUpdate.Unix(), r.NextUpdate.Unix(), r.RevokedAt.Unix(), r.RevocationReason, r.SignatureAlgorithm, r.IssuerHash, r.ResponderKeyHash, extDigest(r.Extensions))
}

// parseOwned parses a private copy of der and then overwrites that copy, as a caller that
// reuses its network buffer does; it returns the response, the value fields as they were when
// the parser returned and as they are after the overwrite.
func parseOwned(der []byte, cert, issuer *x509.Certificate, forCert bool) (r parseResult, before, after string) {
	priv := append(make([]byte, 0, len(der)), der...)
	r = parse(priv, cert, issuer, forCert)
	if r.panicked || r.err != nil || r.resp == nil {
		return
	}
	before = valueFields(r.resp)
	for i := range priv {
		priv[i] ^= 0xFF
	}
	after = valueFields(r.resp)
	return
}

// roundTrip: CreateResponse -> reference decoder -> parsers, for the hardening grids. The
// expectations are those of R1 (same classes), reduced to what the grids vary.
func roundTrip(c *vf.Ctx, part string, iss, signer *ident, tmpl ocsp.Response, wantAlg x509.SignatureAlgorithm, desc map[string]any) (der []byte, ok bool) {
	desc["part"] = part
	bad := func(class, why string) {
		d := map[string]any{"why": why}
		for k, v := range desc {
			d[k] = v
		}
		c.Violation(class, d)
	}
	snap := snapTemplate(&tmpl)
	var err error
	lo := time.Now().Truncate(time.Minute)
	pn, pv, stk := vf.Protect(func() { der, err = ocsp.CreateResponse(iss.cert, signer.cert, tmpl, signer.key) })
	hi := time.Now()
	c.Eval(1)
	if pn {
		bad(panicClass("CreateResponse", pv, stk), stk)
		return nil, false
	}
	if err != nil {
		bad("CreateResponse fails for a template of the grid", err.Error())
		return nil, false
	}
	if s2 := snapTemplate(&tmpl); s2.serial != snap.serial || s2.exts != snap.exts || !bytes.Equal(s2.cert, snap.cert) {
		bad("CreateResponse modifies what the caller's template refers to", fmt.Sprintf("before %v after %v", snap, s2))
	}
	ref, err := ocspref.DecodeResponse(der)
	if err != nil || ref.Status != 0 || len(ref.Singles) != 1 {
		bad("CreateResponse output is not a well-formed successful OCSPResponse with one SingleResponse (reference decoder)", fmt.Sprint(err))
		return der, false
	}
	ih := tmpl.IssuerHash
	if ih == 0 {
		ih = crypto.SHA1
	}
	wantID := ocspref.MakeCertID(iss.ref, ih, tmpl.SerialNumber)
	s := ref.Singles[0]
	wantStatus := map[int]int{ocsp.Good: ocspref.Good, ocsp.Revoked: ocspref.Revoked, ocsp.Unknown: ocspref.Unknown}[tmpl.Status]
	good := true
	fail := func(class, why string) { bad(class, why); good = false }
	switch {
	case s.Status != wantStatus:
		fail("CreateResponse encodes a different certificate status than the template's", fmt.Sprintf("wire %d template %d", s.Status, tmpl.Status))
	case tmpl.Status == ocsp.Revoked && (s.Reason != tmpl.RevocationReason || !s.RevokedAt.Equal(tmpl.RevokedAt)):
		fail("CreateResponse loses or changes the revocation time/reason", fmt.Sprintf("wire reason %d at %v", s.Reason, s.RevokedAt))
	case s.IssuerHash != ih || !bytes.Equal(s.CertID.IssuerNameHash, wantID.IssuerNameHash) || !bytes.Equal(s.CertID.IssuerKeyHash, wantID.IssuerKeyHash):
		fail("CreateResponse writes a CertID whose issuer name/key hashes are not those of the issuer (RFC 6960 4.1.1)", "")
	case s.CertID.SerialNumber.Cmp(tmpl.SerialNumber) != 0:
		fail("CreateResponse writes a different serial number", s.CertID.SerialNumber.String())
	case !s.ThisUpdate.Equal(tmpl.ThisUpdate) || !s.NextUpdate.Equal(tmpl.NextUpdate) || s.HasNextUpd != !tmpl.NextUpdate.IsZero():
		fail("CreateResponse writes different thisUpdate/nextUpdate", fmt.Sprintf("%v %v", s.ThisUpdate, s.NextUpdate))
	case !bytes.Equal(ref.ResponderName, signer.ref.SubjectDER) || ref.ResponderKey != nil:
		fail("CreateResponse does not identify the responder by the responder certificate's subject", hexs(ref.ResponderName))
	case (tmpl.Certificate == nil) != (len(ref.Certs) == 0) || (tmpl.Certificate != nil && !bytes.Equal(ref.Certs[0], tmpl.Certificate.Raw)):
		fail("CreateResponse does not carry exactly the template's certificate", fmt.Sprint(len(ref.Certs)))
	case !ref.SigAlgKnown || ref.SigAlg != refAlg(wantAlg):
		fail("CreateResponse uses a different signature algorithm than requested", fmt.Sprint(ref.SigAlgOID))
	case ref.Verify(signer.ref.Public) != nil:
		fail("CreateResponse signature does not verify over the DER of ResponseData under the signer's key", fmt.Sprint(ref.Verify(signer.ref.Public)))
	case ref.ProducedAt.Before(lo.Add(-time.Second)) || ref.ProducedAt.After(hi):
		fail("CreateResponse producedAt is not the current time to the minute", ref.ProducedAt.String())
	}
	ext := tmpl.ExtraExtensions
	if len(s.Extensions) != len(ext) {
		fail("CreateResponse does not write the template's ExtraExtensions", fmt.Sprint(len(s.Extensions)))
	} else {
		for j := range ext {
			if !s.Extensions[j].ID.Equal(ext[j].Id) || s.Extensions[j].Critical != ext[j].Critical || !bytes.Equal(s.Extensions[j].Value, ext[j].Value) {
				fail("CreateResponse does not write the template's ExtraExtensions", fmt.Sprint(j))
				break
			}
		}
	}
	if !good {
		return der, false
	}
	exp := &expectation{status: tmpl.Status, reason: tmpl.RevocationReason, serial: tmpl.SerialNumber, this: tmpl.ThisUpdate, next: tmpl.NextUpdate, revoked: tmpl.RevokedAt, issuerHash: ih,
		responderName: signer.cert.RawSubject, exts: ext, sigAlg: wantAlg, tbs: ref.TBS, sig: ref.Signature, producedLo: lo.Add(-time.Second), producedHi: hi}
	var carried *ident
	byConstruction := true // the acceptance rule is known by construction when the carried certificate is the signer's (or none)
	if tmpl.Certificate != nil {
		exp.carried = tmpl.Certificate.Raw
		if bytes.Equal(tmpl.Certificate.Raw, signer.cert.Raw) {
			carried = signer
		} else {
			byConstruction = false
		}
	}
	leaf := &x509.Certificate{SerialNumber: tmpl.SerialNumber}
	for ai, arg := range []*ident{nil, iss, w.other} {
		argName := [...]string{"no issuer", "the issuer", "another CA"}[ai]
		var refIss *ocspref.Cert
		var x *x509.Certificate
		if arg != nil {
			refIss, x = arg.ref, arg.cert
		}
		wantOK, why := ref.Accept(refIss)
		if byConstruction && wantOK != expectAccept(signer, carried, arg) {
			bad("harness: reference acceptance rule disagrees with the construction", why)
		}
		for variant := 0; variant < 2; variant++ {
			vname := [...]string{"ParseResponse", "ParseResponseForCert"}[variant]
			r, before, after := parseOwned(der, []*x509.Certificate{nil, leaf}[variant], x, variant == 1)
			c.Eval(1)
			switch {
			case r.panicked:
				bad(panicClass(vname, r.pval, r.stack), r.stack)
			case r.err == nil && !wantOK:
				bad("accepted a response that is neither signed by the issuer nor by a carried certificate that the issuer signed", vname+" with "+argName)
			case r.err != nil && wantOK:
				bad("rejected a CreateResponse output that the documented rules accept", vname+" with "+argName+": "+r.err.Error())
				good = false
			case r.err != nil:
				c.Outcome(part + " rejected: " + argName)
			default:
				c.Outcome(part + " accepted: " + argName)
				if before != after {
					bad("a decoded field of the parsed Response changes when the caller overwrites the DER buffer", "before "+before+" after "+after)
				}
				// compare against an untouched parse (Raw etc. alias the input, so checkFields needs intact bytes)
				if r2 := parse(der, []*x509.Certificate{nil, leaf}[variant], x, variant == 1); r2.err == nil && !r2.panicked {
					if diff := checkFields(r2.resp, exp, der); diff != "" {
						bad("a field returned by "+vname+" differs from the template: "+strings.SplitN(diff, " ", 2)[0], diff+" ["+argName+"]")
						good = false
					}
					if valueFields(r2.resp) != before {
						bad("two parses of the same bytes return different fields", before+" vs "+valueFields(r2.resp))
					}
				}
			}
		}
	}
	return der, good
}

func hardenPart(c *vf.Ctx) {
	hw = buildHardWorld()
	now := time.Now().Truncate(time.Second).UTC()
	var points atomic.Int64

	// ---- H1: signer key kinds x requested algorithm ----
	type algCase struct {
		req  x509.SignatureAlgorithm
		want x509.SignatureAlgorithm // 0: CreateResponse must fail
	}
	ecAlgs := []x509.SignatureAlgorithm{x509.ECDSAWithSHA1, x509.ECDSAWithSHA256, x509.ECDSAWithSHA384, x509.ECDSAWithSHA512}
	rsaAlgs := []x509.SignatureAlgorithm{x509.SHA1WithRSA, x509.SHA256WithRSA, x509.SHA384WithRSA, x509.SHA512WithRSA}
	never := []x509.SignatureAlgorithm{x509.MD2WithRSA, x509.DSAWithSHA1, x509.DSAWithSHA256, x509.PureEd25519, x509.SHA256WithRSAPSS, x509.SignatureAlgorithm(99)}
	type h1 struct {
		kind   int
		signer *ident
		def    x509.SignatureAlgorithm
		ac     algCase
		st     int
	}
	var h1s []h1
	for kind := 0; kind < 2; kind++ {
		signers := []struct {
			id  *ident
			def x509.SignatureAlgorithm
		}{{hw.curveDelegate[kind][0], x509.ECDSAWithSHA256}, {hw.curveDelegate[kind][1], x509.ECDSAWithSHA384}, {hw.curveDelegate[kind][2], x509.ECDSAWithSHA512},
			{w.delegate[kind][0], x509.SHA256WithRSA}, {w.delegate[kind][1], x509.ECDSAWithSHA256}, {w.issuer[kind], map[bool]x509.SignatureAlgorithm{true: x509.SHA256WithRSA, false: x509.ECDSAWithSHA256}[w.issuer[kind].rsa]}}
		for _, sg := range signers {
			var acs []algCase
			acs = append(acs, algCase{0, sg.def})
			for _, a := range ecAlgs {
				acs = append(acs, algCase{a, map[bool]x509.SignatureAlgorithm{true: 0, false: a}[sg.id.rsa]})
			}
			for _, a := range rsaAlgs {
				acs = append(acs, algCase{a, map[bool]x509.SignatureAlgorithm{true: a, false: 0}[sg.id.rsa]})
			}
			for _, a := range never {
				acs = append(acs, algCase{a, 0})
			}
			for i, ac := range acs {
				h1s = append(h1s, h1{kind, sg.id, sg.def, ac, i % 3})
			}
		}
	}
	c.ParallelFor(len(h1s), func(i int) {
		p := h1s[i]
		iss := w.issuer[p.kind]
		tmpl := ocsp.Response{Status: []int{ocsp.Good, ocsp.Revoked, ocsp.Unknown}[p.st], SerialNumber: big.NewInt(int64(4000 + i)), ThisUpdate: now, NextUpdate: now.Add(time.Hour),
			IssuerHash: hashes[i%len(hashes)], SignatureAlgorithm: p.ac.req}
		if tmpl.Status == ocsp.Revoked {
			tmpl.RevokedAt, tmpl.RevocationReason = now.Add(-time.Hour), reasons[i%len(reasons)]
		}
		if p.signer != iss {
			tmpl.Certificate = p.signer.cert
		}
		desc := map[string]any{"issuer": iss.name, "signer": p.signer.name, "requested": fmt.Sprint(p.ac.req)}
		points.Add(1)
		if p.ac.want == 0 {
			var der []byte
			var err error
			pn, pv, stk := vf.Protect(func() { der, err = ocsp.CreateResponse(iss.cert, p.signer.cert, tmpl, p.signer.key) })
			c.Eval(1)
			desc["part"] = "H1"
			switch {
			case pn:
				desc["stack"] = stk
				c.Violation(panicClass("CreateResponse", pv, stk), desc)
			case err == nil:
				// a response was produced although the requested algorithm cannot be used with this key: it must at least not be accepted as valid
				desc["response"] = fmt.Sprintf("%x", der)
				c.Violation("CreateResponse succeeds although the requested SignatureAlgorithm cannot be used with the signer's key", desc)
			default:
				c.Outcome("H1 refused: requested algorithm does not fit the key")
			}
			c.Nontrivial(fmt.Sprintf("H1 %d refuse", i))
			return
		}
		if _, ok := roundTrip(c, "H1", iss, p.signer, tmpl, p.ac.want, desc); ok {
			c.Nontrivial(fmt.Sprintf("H1 %d", i))
		}
	})
	// an Ed25519 signer: error, not a panic and not a response
	{
		_, edKey, _ := ed25519.GenerateKey(rand.Reader)
		var der []byte
		var err error
		pn, pv, stk := vf.Protect(func() {
			der, err = ocsp.CreateResponse(w.issuer[1].cert, w.issuer[1].cert, ocsp.Response{Status: ocsp.Good, SerialNumber: big.NewInt(9), ThisUpdate: now}, edKey)
		})
		c.Eval(1)
		if pn {
			c.Violation(panicClass("CreateResponse", pv, stk), map[string]any{"part": "H1", "signer": "Ed25519 key"})
		} else if err == nil {
			c.Violation("CreateResponse succeeds with a signer key type it documents as unsupported", map[string]any{"part": "H1", "signer": "Ed25519 key", "response": fmt.Sprintf("%x", der)})
		}
	}

	// ---- H2: DER length boundaries ----
	type h2 struct {
		name   string
		signer *ident
		kind   int
		exts   []pkix.Extension
	}
	var h2s []h2
	val := c.Bytes("h2ext", 0, 70000)
	one := func(n int) []pkix.Extension { return []pkix.Extension{{Id: extOID, Value: val[:n]}} }
	for n := 0; n <= 400; n++ {
		kind := n % 2
		signer := []*ident{w.issuer[kind], w.delegate[kind][1], hw.curveDelegate[kind][1]}[n/2%3]
		h2s = append(h2s, h2{fmt.Sprintf("one extension of %d octets", n), signer, kind, one(n)})
	}
	lo64, step := 65536-700, 1
	if c.Thorough {
		lo64 = 65536 - 2100 // also reaches the boundary of the outermost SEQUENCE when an RSA delegate certificate is carried
	}
	for n := lo64; n <= 65536+4; n += step {
		h2s = append(h2s, h2{fmt.Sprintf("one extension of %d octets", n), w.issuer[1], 1, one(n)})
		if c.Thorough || n%2 == 0 {
			h2s = append(h2s, h2{fmt.Sprintf("one extension of %d octets", n), w.delegate[1][1], 1, one(n)})
		}
		if c.Thorough {
			h2s = append(h2s, h2{fmt.Sprintf("one extension of %d octets", n), w.delegate[0][0], 0, one(n)})
		}
	}
	for n := 2; n <= 40; n++ {
		var e []pkix.Extension
		for j := 0; j < n; j++ {
			e = append(e, pkix.Extension{Id: asn1.ObjectIdentifier(append(append([]int(nil), extOID...), j)), Value: val[j : j+(j*7)%23]})
		}
		h2s = append(h2s, h2{fmt.Sprintf("%d extensions", n), w.issuer[n%2], n % 2, e})
	}
	for _, ls := range hw.longSubject {
		h2s = append(h2s, h2{"responder is a " + ls.name, ls, 1, one(5)}, h2{"responder is a " + ls.name + ", no extension", ls, 1, nil})
	}
	c.ParallelFor(len(h2s), func(i int) {
		p := h2s[i]
		iss := w.issuer[p.kind]
		tmpl := ocsp.Response{Status: ocsp.Revoked, RevokedAt: now.Add(-time.Minute), RevocationReason: reasons[i%len(reasons)], SerialNumber: big.NewInt(int64(7000 + i)), ThisUpdate: now, NextUpdate: now.Add(time.Hour), ExtraExtensions: p.exts}
		if i%3 == 0 {
			tmpl.Status, tmpl.RevokedAt, tmpl.RevocationReason = ocsp.Good, time.Time{}, 0
		}
		if p.signer != iss {
			tmpl.Certificate = p.signer.cert
		}
		wantAlg := x509.ECDSAWithSHA256
		switch {
		case p.signer.rsa:
			wantAlg = x509.SHA256WithRSA
		case p.signer == hw.curveDelegate[p.kind][1]:
			wantAlg = x509.ECDSAWithSHA384
		}
		points.Add(1)
		if _, ok := roundTrip(c, "H2", iss, p.signer, tmpl, wantAlg, map[string]any{"issuer": iss.name, "signer": p.signer.name, "shape": p.name}); ok {
			c.Nontrivial("H2 " + p.name + " " + p.signer.name)
		}
	})

	// ---- H3: re-signing a parsed response ----
	type h3 struct {
		kind          int
		first, second *ident
		st            statusClass
		h             crypto.Hash
		withExt       bool
	}
	var h3s []h3
	sts := statusClasses()
	for kind := 0; kind < 2; kind++ {
		ids := []*ident{w.issuer[kind], w.delegate[kind][0], w.delegate[kind][1], hw.curveDelegate[kind][1]}
		n := 0
		for _, a := range ids {
			for _, b := range ids {
				for si, st := range sts {
					if !c.Thorough && si%3 != n%3 {
						continue
					}
					h3s = append(h3s, h3{kind, a, b, st, hashes[n%len(hashes)], n%2 == 0})
					n++
				}
			}
		}
	}
	c.ParallelFor(len(h3s), func(i int) {
		p := h3s[i]
		iss := w.issuer[p.kind]
		algOf := func(id *ident) x509.SignatureAlgorithm {
			switch {
			case id.rsa:
				return x509.SHA256WithRSA
			case id == hw.curveDelegate[p.kind][1]:
				return x509.ECDSAWithSHA384
			}
			return x509.ECDSAWithSHA256
		}
		tmpl := ocsp.Response{Status: p.st.status, SerialNumber: new(big.Int).SetBytes(c.Bytes("h3serial", i, 1+i%20)), ThisUpdate: now.Add(-time.Minute), NextUpdate: now.Add(time.Hour), IssuerHash: p.h}
		if p.st.status == ocsp.Revoked {
			tmpl.RevokedAt, tmpl.RevocationReason = now.Add(-24*time.Hour), p.st.reason
		}
		if p.withExt {
			tmpl.ExtraExtensions = []pkix.Extension{{Id: extOID, Value: c.Bytes("h3ext", i, 12)}}
		}
		if p.first != iss {
			tmpl.Certificate = p.first.cert
		}
		desc := map[string]any{"issuer": iss.name, "first signer": p.first.name, "second signer": p.second.name, "status": p.st.String(), "hash": fmt.Sprint(p.h)}
		points.Add(1)
		der, ok := roundTrip(c, "H3", iss, p.first, tmpl, algOf(p.first), desc)
		if !ok {
			return
		}
		r := parse(der, nil, iss.cert, false)
		if r.panicked || r.err != nil {
			return // reported by roundTrip
		}
		// the parsed response becomes the template, as a responder that re-signs a pre-produced response does
		t2 := *r.resp
		t2.ExtraExtensions = t2.Extensions
		t2.Certificate = nil
		if p.second != iss {
			t2.Certificate = p.second.cert
		}
		want2 := r.resp.SignatureAlgorithm
		if p.first.rsa != p.second.rsa {
			t2.SignatureAlgorithm, want2 = 0, algOf(p.second) // the parsed algorithm belongs to the other key type
		}
		desc2 := map[string]any{"step": "re-signing the parsed response"}
		for k, v := range desc {
			desc2[k] = v
		}
		if _, ok := roundTrip(c, "H3", iss, p.second, t2, want2, desc2); ok {
			c.Nontrivial(fmt.Sprintf("H3 %d", i))
		}
	})

	// ---- H4: requests: the caller overwrites the buffer after ParseRequest ----
	sers := serialClasses(c)
	for _, iss := range []*ident{w.issuer[0], w.issuer[1], w.issuer384} {
		for hi, h := range hashes[1:] {
			for si, serial := range sers {
				if (hi+si)%2 == 1 && !c.Thorough {
					continue
				}
				der, err := ocsp.CreateRequest(&x509.Certificate{SerialNumber: serial}, iss.cert, &ocsp.RequestOptions{Hash: h})
				if err != nil {
					continue // judged in part Q
				}
				priv := append(make([]byte, 0, len(der)), der...)
				var req *ocsp.Request
				pn, pv, stk := vf.Protect(func() { req, err = ocsp.ParseRequest(priv) })
				c.Eval(1)
				points.Add(1)
				if pn {
					c.Violation(panicClass("ParseRequest", pv, stk), map[string]any{"part": "H4"})
					continue
				}
				if err != nil {
					continue
				}
				for i := range priv {
					priv[i] ^= 0xFF
				}
				nh, kh := ocspref.IssuerHashes(iss.ref, h)
				back, merr := req.Marshal()
				if req.HashAlgorithm != h || !bytes.Equal(req.IssuerNameHash, nh) || !bytes.Equal(req.IssuerKeyHash, kh) || req.SerialNumber.Cmp(serial) != 0 || merr != nil || !bytes.Equal(back, der) {
					c.Violation("a field of the parsed Request changes when the caller overwrites the DER buffer", map[string]any{"part": "H4", "issuer": iss.name, "hash": fmt.Sprint(h), "serial": serial.String()})
				}
				c.Nontrivial(fmt.Sprintf("H4 %s %v %v", iss.name, h, serial))
			}
		}
	}

	// ---- H5: many SingleResponses, position of the wanted one, near-miss serials ----
	type h5 struct {
		kind, n, pos int
		dup          bool
		signer       *ident
	}
	var h5s []h5
	counts := []int{2, 5, 60}
	if c.Thorough {
		counts = append(counts, 700)
	}
	for kind := 0; kind < 2; kind++ {
		for _, n := range counts {
			for _, pos := range []int{0, n / 2, n - 1} {
				for _, dup := range []bool{false, true} {
					for _, sg := range []*ident{w.issuer[kind], w.delegate[kind][1]} {
						h5s = append(h5s, h5{kind, n, pos, dup, sg})
					}
				}
			}
		}
	}
	if !c.Thorough {
		h5s = append(h5s, h5{1, 700, 699, false, w.issuer[1]}, h5{1, 700, 350, true, w.delegate[1][1]})
	}
	c.ParallelFor(len(h5s), func(i int) {
		p := h5s[i]
		iss := w.issuer[p.kind]
		wanted := new(big.Int).SetBytes(c.Bytes("h5serial", i, 9))
		wanted.Add(wanted, big.NewInt(1000)) // away from the near-miss neighbours' clamp at 0
		spec := &ocspref.ResponseSpec{ProducedAt: now, NullParams: p.signer.rsa, Alg: ocspref.SigAlg{RSA: p.signer.rsa, Hash: crypto.SHA256}}
		if i%2 == 1 { // responder identified by key hash (a decoded value: must survive the overwrite of the buffer)
			x := crypto.SHA1.New()
			x.Write(p.signer.ref.KeyBits)
			spec.ResponderKey = x.Sum(nil)
		} else {
			spec.ResponderName = p.signer.ref.SubjectDER
		}
		if p.signer != iss {
			spec.Certs = [][]byte{p.signer.cert.Raw}
		}
		near := []*big.Int{new(big.Int).Add(wanted, big.NewInt(1)), new(big.Int).Sub(wanted, big.NewInt(1)), new(big.Int).Add(wanted, big.NewInt(256)), new(big.Int).Add(wanted, new(big.Int).Lsh(big.NewInt(1), 64)), new(big.Int).Neg(wanted)}
		dupAt := -1
		if p.dup && p.n > 1 {
			dupAt = (p.pos + 1) % p.n
			if dupAt < p.pos { // keep the wanted entry the FIRST one with its serial
				dupAt = -1
			}
		}
		for j := 0; j < p.n; j++ {
			ss := ocspref.SingleSpec{Status: ocspref.Good, ThisUpdate: now.Add(-time.Duration(j) * time.Second), NextUpdate: now.Add(time.Hour)}
			serial := new(big.Int).Add(wanted, big.NewInt(int64(3+j)*65537))
			switch {
			case j == p.pos:
				serial = wanted
				ss.Status, ss.RevokedAt, ss.Reason, ss.WithReason = ocspref.Revoked, now.Add(-48*time.Hour), ocsp.KeyCompromise, true
				ss.Extensions = []ocspref.Extension{{ID: extOID, Value: c.Bytes("h5ext", i, 7)}}
			case j == dupAt:
				serial = wanted // a later entry with the same serial but another status: must not be the one reported
			case j < len(near):
				serial = near[j]
			}
			ss.CertID = ocspref.MakeCertID(iss.ref, hashes[1+j%4], serial)
			spec.Singles = append(spec.Singles, ss)
		}
		der, err := ocspref.EncodeResponse(spec, p.signer.key, rand.Reader)
		if err != nil {
			c.Violation("harness: reference encoder failed", map[string]any{"part": "H5", "err": err.Error()})
			return
		}
		desc := map[string]any{"part": "H5", "issuer": iss.name, "signer": p.signer.name, "single_responses": p.n, "wanted_at": p.pos, "duplicate_later": dupAt >= 0}
		bad := func(class, why string) {
			d := map[string]any{"why": why}
			for k, v := range desc {
				d[k] = v
			}
			c.Violation(class, d)
		}
		points.Add(1)
		ref, err := ocspref.DecodeResponse(der)
		if err != nil || len(ref.Singles) != p.n {
			bad("harness: reference decoder rejects a reference-built response", fmt.Sprint(err))
			return
		}
		r, before, after := parseOwned(der, &x509.Certificate{SerialNumber: wanted}, iss.cert, true)
		c.Eval(1)
		switch {
		case r.panicked:
			bad(panicClass("ParseResponseForCert", r.pval, r.stack), r.stack)
		case r.err != nil:
			bad("rejected a well-formed response that the documented rules accept", r.err.Error())
		default:
			s := spec.Singles[p.pos]
			if before != after {
				bad("a decoded field of the parsed Response changes when the caller overwrites the DER buffer", "before "+before+" after "+after)
			}
			r2 := parse(der, &x509.Certificate{SerialNumber: wanted}, iss.cert, true)
			exp := &expectation{status: ocsp.Revoked, reason: ocsp.KeyCompromise, serial: wanted, this: s.ThisUpdate, next: s.NextUpdate, revoked: s.RevokedAt, issuerHash: ref.Singles[p.pos].IssuerHash,
				responderName: spec.ResponderName, responderKey: spec.ResponderKey, exts: refExts(s.Extensions), tbs: ref.TBS, sig: ref.Signature, sigAlg: map[bool]x509.SignatureAlgorithm{true: x509.SHA256WithRSA, false: x509.ECDSAWithSHA256}[p.signer.rsa]}
			if len(spec.Certs) > 0 {
				exp.carried = spec.Certs[0]
			}
			if r2.err != nil || r2.panicked {
				bad("two parses of the same bytes differ", fmt.Sprint(r2.err))
			} else if diff := checkFields(r2.resp, exp, der); diff != "" {
				bad("a field returned by the parser differs from the response: "+firstWord(diff), diff+" [ParseResponseForCert, wanted serial at position "+fmt.Sprint(p.pos)+"]")
			}
			c.Outcome("H5 accepted")
		}
		for _, miss := range []*big.Int{new(big.Int).Add(wanted, big.NewInt(2)), new(big.Int).Add(wanted, big.NewInt(512)), new(big.Int).Add(wanted, new(big.Int).Lsh(big.NewInt(1), 128)), new(big.Int).Sub(new(big.Int).Neg(wanted), big.NewInt(1)), new(big.Int)} {
			r := parse(der, &x509.Certificate{SerialNumber: miss}, iss.cert, true)
			c.Eval(1)
			if r.panicked {
				bad(panicClass("ParseResponseForCert", r.pval, r.stack), r.stack)
			} else if r.err == nil {
				bad("ParseResponseForCert returns a status for a certificate whose serial is not in the response", "asked for "+miss.String())
			}
		}
		if r := parse(der, nil, iss.cert, false); !r.panicked && r.err == nil {
			bad("a call that has no SingleResponse to report succeeds: ParseResponse", "several SingleResponses")
		}
		c.Nontrivial(fmt.Sprintf("H5 %d", i))
	})
	c.Set("hardening", map[string]any{"H1_signer_x_algorithm": len(h1s), "H2_length_shapes": len(h2s), "H3_resign": len(h3s), "H5_many_singles": len(h5s), "points": points.Load()})
}
