package main

import (
	"bytes"
	"crypto"
	"crypto/rand"
	"crypto/x509"
	"crypto/x509/pkix"
	"fmt"
	"math/big"
	"sync/atomic"
	"time"

	"golang.org/x/crypto/ocsp"
	"verif/ref/ocspref"
	"verif/vf"
)

// ---------------------------------------------------------------------------
// R2: responses built by the reference encoder
// ---------------------------------------------------------------------------

type built struct {
	name     string
	der      []byte
	singles  []ocspref.SingleSpec
	spec     *ocspref.ResponseSpec
	signer   *ident
	certs    []*ident
	issuer   *ident
	wrongSig string // non-empty: the signature deliberately covers something else
}

func refExts(e []ocspref.Extension) []pkix.Extension {
	var out []pkix.Extension
	for _, x := range e {
		out = append(out, pkix.Extension{Id: x.ID, Critical: x.Critical, Value: x.Value})
	}
	return out
}

func referenceBuilt(c *vf.Ctx) {
	sts := statusClasses()
	tcs := timeClasses()
	sers := serialClasses(c)
	var cases []*built
	now := time.Now().Truncate(time.Second).UTC()
	n := 0
	for kind := 0; kind < 2; kind++ {
		iss := w.issuer[kind]
		dR, dE := w.delegate[kind][0], w.delegate[kind][1]
		imp := w.impostor[kind]
		type pair struct {
			signer *ident
			certs  []*ident
		}
		var pairs []pair
		for _, signer := range []*ident{iss, dE, w.stranger[1], dR} {
			for li, cl := range [][]*ident{nil, {dE}, {dE, w.stranger[1]}, {w.stranger[1]}, {dR}, {w.stranger[1], dE}} {
				if signer == dR && li != 4 && li != 0 && !c.Thorough {
					continue
				}
				pairs = append(pairs, pair{signer, cl})
			}
		}
		pairs = append(pairs, pair{imp, []*ident{imp}}, pair{iss, []*ident{iss}}, pair{w.stranger[1], []*ident{iss}})
		for _, l := range w.lookalike[kind] {
			pairs = append(pairs, pair{l, []*ident{l}}, pair{l, []*ident{l, dE}})
		}
		for byKey := 0; byKey < 2; byKey++ {
			for si, pr := range pairs {
				signer, cl, li := pr.signer, pr.certs, len(pr.certs)
				{
					for nS := 1; nS <= 3; nS += 2 {
						for k := 0; k < len(sts); k++ {
							if !c.Thorough && k%4 != (si+li+byKey+nS)%4 {
								continue
							}
							n++
							spec := &ocspref.ResponseSpec{ProducedAt: now, NullParams: signer.rsa}
							h := hashes[1+n%4]
							spec.Alg = ocspref.SigAlg{RSA: signer.rsa, Hash: h}
							if byKey == 1 {
								x := crypto.SHA1.New()
								x.Write(signer.ref.KeyBits)
								spec.ResponderKey = x.Sum(nil)
							} else {
								spec.ResponderName = signer.ref.SubjectDER
							}
							for j := 0; j < nS; j++ {
								st := sts[(k+j*5)%len(sts)]
								tc := tcs[(n+j)%len(tcs)]
								ss := ocspref.SingleSpec{CertID: ocspref.MakeCertID(iss.ref, hashes[1+(n+j)%4], new(big.Int).Add(sers[(n+3*j)%len(sers)], big.NewInt(int64(1000*j)))),
									ThisUpdate: tc.this, NextUpdate: tc.next}
								switch st.status {
								case ocsp.Good:
									ss.Status = ocspref.Good
								case ocsp.Unknown:
									ss.Status = ocspref.Unknown
								case ocsp.Revoked:
									ss.Status, ss.RevokedAt, ss.Reason, ss.WithReason = ocspref.Revoked, tc.revoked, st.reason, (n+j)%3 != 0 || st.reason != 0
								}
								if (n+j)%2 == 0 {
									ss.Extensions = []ocspref.Extension{{ID: extOID, Value: c.Bytes("r2ext", n, 9)}}
								}
								spec.Singles = append(spec.Singles, ss)
							}
							for _, ci := range cl {
								spec.Certs = append(spec.Certs, ci.cert.Raw)
							}
							der, err := ocspref.EncodeResponse(spec, signer.key, rand.Reader)
							if err != nil {
								c.Violation("harness: reference encoder failed", map[string]any{"err": err.Error()})
								continue
							}
							cases = append(cases, &built{name: fmt.Sprintf("issuer %s, responder by %s, signed by %s, %d certificate(s) %v, %d SingleResponse(s), first status %s",
								iss.name, [...]string{"name", "key hash"}[byKey], signer.name, len(cl), names(cl), nS, sts[k]), der: der, singles: spec.Singles, spec: spec, signer: signer, certs: cl, issuer: iss})
						}
					}
				}
			}
		}
		// signatures over the wrong bytes (made with the issuer's key, no certificate carried)
		for v := 0; v < 4; v++ {
			spec := &ocspref.ResponseSpec{ResponderName: iss.ref.SubjectDER, ProducedAt: now, NullParams: iss.rsa, Alg: ocspref.SigAlg{RSA: iss.rsa, Hash: crypto.SHA256},
				Singles: []ocspref.SingleSpec{{CertID: ocspref.MakeCertID(iss.ref, crypto.SHA1, big.NewInt(77)), Status: ocspref.Good, ThisUpdate: now}}}
			tbs, _ := ocspref.EncodeTBS(spec)
			good, _ := ocspref.EncodeResponse(spec, iss.key, rand.Reader)
			var signed []byte
			var what string
			alg := spec.Alg
			switch v {
			case 0:
				signed, what = good, "the whole OCSPResponse (of an otherwise identical response)"
			case 1:
				signed, what = tbs[4:], "the contents of ResponseData without its SEQUENCE header"
			case 2:
				signed, what = append(append([]byte(nil), tbs...), 0), "ResponseData plus one byte"
			case 3:
				signed, what = tbs, "ResponseData, but hashed with SHA-384 while the algorithm identifier says SHA-256"
				alg = ocspref.SigAlg{RSA: iss.rsa, Hash: crypto.SHA384}
			}
			hh := alg.Hash.New()
			hh.Write(signed)
			sig, err := iss.key.Sign(rand.Reader, hh.Sum(nil), alg.Hash)
			if err != nil {
				continue
			}
			der, _ := ocspref.AssembleResponse(tbs, spec.Alg, spec.NullParams, sig, nil)
			cases = append(cases, &built{name: "issuer " + iss.name + ", signature over " + what, der: der, singles: spec.Singles, spec: spec, signer: iss, issuer: iss, wrongSig: what})
		}
	}
	var acc, rej atomic.Int64
	c.ParallelFor(len(cases), func(i int) {
		b := cases[i]
		bad := func(class, why string) {
			c.Violation(class, map[string]any{"part": "R2", "case": b.name, "why": why, "response": fmt.Sprintf("%x", b.der)})
		}
		ref, err := ocspref.DecodeResponse(b.der)
		if err != nil {
			bad("harness: reference decoder rejects a reference-built response", err.Error())
			return
		}
		c.Nontrivial("R2 " + b.name)
		for ai, arg := range []*ident{nil, b.issuer, w.other} {
			argName := [...]string{"no issuer", "the issuer", "another CA"}[ai]
			var refIss *ocspref.Cert
			var x *x509.Certificate
			if arg != nil {
				refIss, x = arg.ref, arg.cert
			}
			wantOK, why := ref.Accept(refIss)
			var carried *ident
			if len(b.certs) > 0 {
				carried = b.certs[0]
			}
			if b.wrongSig == "" && wantOK != expectAccept(b.signer, carried, arg) {
				bad("harness: reference acceptance rule disagrees with the construction", why)
			}
			if b.wrongSig != "" && arg != nil && wantOK {
				bad("harness: reference accepts a signature over the wrong bytes", why)
			}
			// which SingleResponse each call must report
			type call struct {
				name    string
				cert    *x509.Certificate
				forCert bool
				single  int // index of the expected SingleResponse, -1: must fail
			}
			calls := []call{{"ParseResponse", nil, false, 0}, {"ParseResponseForCert(nil)", nil, true, 0}}
			if len(b.singles) > 1 {
				calls[0].single, calls[1].single = -1, -1 // "bad number of responses"
			}
			for j := range b.singles {
				calls = append(calls, call{fmt.Sprintf("ParseResponseForCert(serial of SingleResponse %d)", j), &x509.Certificate{SerialNumber: b.singles[j].CertID.SerialNumber}, true, j})
			}
			calls = append(calls, call{"ParseResponseForCert(serial not in the response)", &x509.Certificate{SerialNumber: big.NewInt(987654321)}, true, -1})
			for _, cl := range calls {
				r := parse(b.der, cl.cert, x, cl.forCert)
				c.Eval(1)
				if r.panicked {
					bad(panicClass(cl.name, r.pval, r.stack), r.stack)
					continue
				}
				if cl.single < 0 {
					if r.err == nil {
						bad("a call that has no SingleResponse to report succeeds: "+cl.name, argName)
					}
					continue
				}
				if r.err == nil && !wantOK {
					if b.wrongSig != "" {
						bad("accepted a response whose signature does not cover the DER of ResponseData", cl.name+" with "+argName+": signature over "+b.wrongSig)
					} else {
						bad("accepted a response that is neither signed by the issuer nor by a carried certificate that the issuer signed", cl.name+" with "+argName+" ("+why+")")
					}
					continue
				}
				if r.err != nil && wantOK {
					bad("rejected a well-formed response that the documented rules accept", cl.name+" with "+argName+": "+r.err.Error())
					continue
				}
				if r.err != nil {
					rej.Add(1)
					c.Outcome("R2 rejected: " + argName)
					continue
				}
				acc.Add(1)
				c.Outcome("R2 accepted: " + argName)
				s := b.singles[cl.single]
				exp := &expectation{status: map[int]int{ocspref.Good: ocsp.Good, ocspref.Revoked: ocsp.Revoked, ocspref.Unknown: ocsp.Unknown}[s.Status], serial: s.CertID.SerialNumber,
					this: s.ThisUpdate, next: s.NextUpdate, revoked: s.RevokedAt, issuerHash: ref.Singles[cl.single].IssuerHash, responderName: b.spec.ResponderName, responderKey: b.spec.ResponderKey,
					exts: refExts(s.Extensions), tbs: ref.TBS, sig: ref.Signature}
				if s.WithReason {
					exp.reason = s.Reason
				}
				exp.sigAlg = map[ocspref.SigAlg]x509.SignatureAlgorithm{{RSA: true, Hash: crypto.SHA1}: x509.SHA1WithRSA, {RSA: true, Hash: crypto.SHA256}: x509.SHA256WithRSA, {RSA: true, Hash: crypto.SHA384}: x509.SHA384WithRSA,
					{RSA: true, Hash: crypto.SHA512}: x509.SHA512WithRSA, {Hash: crypto.SHA1}: x509.ECDSAWithSHA1, {Hash: crypto.SHA256}: x509.ECDSAWithSHA256, {Hash: crypto.SHA384}: x509.ECDSAWithSHA384, {Hash: crypto.SHA512}: x509.ECDSAWithSHA512}[b.spec.Alg]
				if len(b.certs) > 0 {
					exp.carried = b.certs[0].cert.Raw
				}
				if !r.resp.ProducedAt.Equal(b.spec.ProducedAt) {
					bad("a field returned by the parser differs from the response: ProducedAt", r.resp.ProducedAt.String())
				}
				if diff := checkFields(r.resp, exp, b.der); diff != "" {
					bad("a field returned by the parser differs from the response: "+firstWord(diff), diff+" ["+cl.name+", "+argName+"]")
				}
			}
		}
	})
	// non-successful responses
	errResp := map[int][]byte{1: ocsp.MalformedRequestErrorResponse, 2: ocsp.InternalErrorErrorResponse, 3: ocsp.TryLaterErrorResponse, 5: ocsp.SigRequredErrorResponse, 6: ocsp.UnauthorizedErrorResponse}
	for _, st := range []int{1, 2, 3, 4, 5, 6, 7, 127, 255} {
		enc := ocspref.EncodeErrorResponse(st)
		if pre, ok := errResp[st]; ok && !bytes.Equal(pre, enc) {
			c.Violation("a pre-serialized error response is not the DER of OCSPResponse{status}", map[string]any{"part": "R2", "status": st, "have": fmt.Sprintf("%x", pre), "want": fmt.Sprintf("%x", enc)})
		}
		for _, x := range []*x509.Certificate{nil, w.issuer[0].cert} {
			r := parse(enc, nil, x, false)
			c.Eval(1)
			re, isRE := r.err.(ocsp.ResponseError)
			switch {
			case r.panicked:
				c.Violation(panicClass("ParseResponse", r.pval, r.stack), map[string]any{"part": "R2", "status": st})
			case r.err == nil || r.resp != nil:
				c.Violation("a non-successful OCSPResponse is returned as a Response", map[string]any{"part": "R2", "status": st})
			case !isRE || int(re.Status) != st:
				c.Violation("a non-successful OCSPResponse does not yield ResponseError with its status", map[string]any{"part": "R2", "status": st, "err": r.err.Error()})
			}
		}
		c.Nontrivial(fmt.Sprintf("R2 error status %d", st))
	}
	c.Set("reference_built", map[string]any{"responses": len(cases), "parses_accepted": acc.Load(), "parses_rejected": rej.Load()})
}

func firstWord(s string) string {
	for i := range s {
		if s[i] == ' ' {
			return s[:i]
		}
	}
	return s
}

func names(l []*ident) []string {
	var out []string
	for _, i := range l {
		out = append(out, i.name)
	}
	return out
}

// ---------------------------------------------------------------------------
// F: every single-byte substitution of representative responses
// ---------------------------------------------------------------------------

func representative(c *vf.Ctx) []*built {
	now := time.Now().Truncate(time.Second).UTC()
	mk := func(name string, iss, signer, carried *ident, tmpl ocsp.Response) *built {
		if carried != nil {
			tmpl.Certificate = carried.cert
		}
		der, err := ocsp.CreateResponse(iss.cert, signer.cert, tmpl, signer.key)
		if err != nil {
			c.Violation("CreateResponse fails for a template of the grid", map[string]any{"part": "F", "err": err.Error()})
			return nil
		}
		b := &built{name: name, der: der, issuer: iss, signer: signer}
		if carried != nil {
			b.certs = []*ident{carried}
		}
		return b
	}
	out := []*built{
		mk("CreateResponse: RSA issuer signs, good, no certificate", w.issuer[0], w.issuer[0], nil, ocsp.Response{Status: ocsp.Good, SerialNumber: big.NewInt(0x1001), ThisUpdate: now, NextUpdate: now.Add(time.Hour)}),
		mk("CreateResponse: ECDSA issuer signs, revoked/keyCompromise, SHA-256 CertID, extension", w.issuer[1], w.issuer[1], nil, ocsp.Response{Status: ocsp.Revoked, SerialNumber: new(big.Int).SetBytes(c.Bytes("fserial", 0, 16)),
			ThisUpdate: now, NextUpdate: now.Add(time.Hour), RevokedAt: now.Add(-time.Hour), RevocationReason: ocsp.KeyCompromise, IssuerHash: crypto.SHA256, ExtraExtensions: []pkix.Extension{{Id: extOID, Value: []byte{1, 2, 3}}}}),
		mk("CreateResponse: ECDSA delegate of the RSA issuer signs, unknown, delegate certificate carried", w.issuer[0], w.delegate[0][1], w.delegate[0][1], ocsp.Response{Status: ocsp.Unknown, SerialNumber: big.NewInt(255), ThisUpdate: now}),
	}
	// reference-built: responder by key hash, RSA delegate of the ECDSA issuer, two SingleResponses
	d := w.delegate[1][0]
	x := crypto.SHA1.New()
	x.Write(d.ref.KeyBits)
	spec := &ocspref.ResponseSpec{ResponderKey: x.Sum(nil), ProducedAt: now, NullParams: true, Alg: ocspref.SigAlg{RSA: true, Hash: crypto.SHA512}, Certs: [][]byte{d.cert.Raw},
		Singles: []ocspref.SingleSpec{{CertID: ocspref.MakeCertID(w.issuer[1].ref, crypto.SHA384, big.NewInt(300)), Status: ocspref.Revoked, RevokedAt: now.Add(-48 * time.Hour), Reason: 4, WithReason: true, ThisUpdate: now, NextUpdate: now.Add(time.Hour)}}}
	der, err := ocspref.EncodeResponse(spec, d.key, rand.Reader)
	if err == nil {
		out = append(out, &built{name: "reference-built: responder by key hash, RSA delegate of the ECDSA issuer, revoked/superseded, SHA-384 CertID", der: der, issuer: w.issuer[1], signer: d, certs: []*ident{d}})
	}
	var res []*built
	for _, b := range out {
		if b != nil {
			res = append(res, b)
		}
	}
	return res
}

func summary(r *ocsp.Response) string {
	if r == nil {
		return "<nil>"
	}
	cert := ""
	if r.Certificate != nil {
		cert = hexs(r.Certificate.Raw)
	}
	return fmt.Sprintf("st=%d serial=%v prod=%d this=%d next=%d rev=%d reason=%d alg=%v ih=%v name=%x key=%x cert=%s exts=%v tbs=%x sig=%x",
		r.Status, r.SerialNumber, r.ProducedAt.Unix(), r.ThisUpdate.Unix(), r.NextUpdate.Unix(), r.RevokedAt.Unix(), r.RevocationReason, r.SignatureAlgorithm, r.IssuerHash,
		r.RawResponderName, r.ResponderKeyHash, cert, r.Extensions, r.TBSResponseData, r.Signature)
}

func faults(c *vf.Ctx) {
	reps := representative(c)
	var total, accepted, lax atomic.Int64
	perResp := map[string]any{}
	for ri, b := range reps {
		orig := parse(b.der, nil, b.issuer.cert, false)
		if orig.err != nil || orig.panicked {
			c.Violation("rejected a well-formed response that the documented rules accept", map[string]any{"part": "F", "case": b.name, "err": fmt.Sprint(orig.err)})
			continue
		}
		want := summary(orig.resp)
		var acc atomic.Int64
		c.ParallelFor(len(b.der), func(off int) {
			for vi := 0; vi < 4; vi++ {
				m := append([]byte(nil), b.der...)
				old := m[off]
				switch vi {
				case 0:
					m[off] = 0x00
				case 1:
					m[off] = 0xff
				case 2:
					m[off] = old ^ 1
				case 3:
					m[off] = old ^ 0x80
				}
				if m[off] == old {
					continue
				}
				total.Add(1)
				c.Eval(1)
				det := func(why string) map[string]any {
					return map[string]any{"part": "F", "case": b.name, "offset": off, "old": old, "new": m[off], "why": why, "response": fmt.Sprintf("%x", b.der)}
				}
				for ai, x := range []*x509.Certificate{b.issuer.cert, nil} {
					r := parse(m, nil, x, false)
					if r.panicked {
						c.Violation(panicClass("ParseResponse", r.pval, r.stack), det(r.stack))
						continue
					}
					if r.err != nil {
						continue
					}
					// accepted: the reference must accept the modified bytes too, with the same contents
					ref, err := ocspref.DecodeResponse(m)
					var refIss *ocspref.Cert
					if ai == 0 {
						refIss = b.issuer.ref
					}
					if err != nil {
						if ai == 1 {
							// Without an issuer (and without a carried certificate) nothing is verified, so the
							// property demands nothing; the parser is merely laxer than RFC 6960 here.
							lax.Add(1)
							continue
						}
						c.Violation("accepted a modified response that is not a well-formed OCSPResponse (reference decoder)", det(err.Error()))
						continue
					}
					if ok, why := ref.Accept(refIss); !ok {
						c.Violation("accepted a modified response that is neither signed by the issuer nor by a carried certificate that the issuer signed", det(why))
						continue
					}
					if ai == 0 {
						acc.Add(1)
						accepted.Add(1)
						if got := summary(r.resp); got != want {
							c.Violation("a modified response was accepted with different fields", det("got "+got+" want "+want))
						}
						if !bytes.Equal(ref.TBS, orig.resp.TBSResponseData) {
							c.Violation("a modified response was accepted although its signed bytes changed", det(""))
						}
					}
				}
			}
			c.Nontrivial(fmt.Sprintf("F r%d o%d", ri, off))
		})
		perResp[b.name] = map[string]any{"bytes": len(b.der), "substitutions_accepted_with_identical_fields": acc.Load()}
	}
	c.Outcome(fmt.Sprintf("F: modified responses accepted with identical fields: %v", accepted.Load() > 0))
	c.Set("faults", map[string]any{"responses": perResp, "substitutions": total.Load(), "values": "0x00, 0xff, b^1, b^0x80", "accepted_with_identical_fields": accepted.Load(),
		"accepted_without_issuer_although_not_well_formed_per_reference": lax.Load()})
}

// ---------------------------------------------------------------------------
// Q: requests
// ---------------------------------------------------------------------------

func requests(c *vf.Ctx) {
	sers := serialClasses(c)
	issuers := []*ident{w.issuer[0], w.issuer[1], w.issuer384}
	type opt struct {
		name string
		o    *ocsp.RequestOptions
		h    crypto.Hash // expected; 0 = unsupported
	}
	opts := []opt{{"nil options", nil, crypto.SHA1}, {"Hash 0", &ocsp.RequestOptions{}, crypto.SHA1}, {"SHA-1", &ocsp.RequestOptions{Hash: crypto.SHA1}, crypto.SHA1},
		{"SHA-256", &ocsp.RequestOptions{Hash: crypto.SHA256}, crypto.SHA256}, {"SHA-384", &ocsp.RequestOptions{Hash: crypto.SHA384}, crypto.SHA384}, {"SHA-512", &ocsp.RequestOptions{Hash: crypto.SHA512}, crypto.SHA512},
		{"MD5 (unsupported)", &ocsp.RequestOptions{Hash: crypto.MD5}, 0}, {"SHA-224 (unsupported)", &ocsp.RequestOptions{Hash: crypto.SHA224}, 0}, {"SHA3-256 (unsupported)", &ocsp.RequestOptions{Hash: crypto.SHA3_256}, 0}}
	n := 0
	for _, iss := range issuers {
		for _, o := range opts {
			for _, serial := range sers {
				n++
				c.Eval(1)
				desc := map[string]any{"part": "Q", "issuer": iss.name, "options": o.name, "serial": serial.String()}
				bad := func(class, why string) {
					d := map[string]any{"why": why}
					for k, v := range desc {
						d[k] = v
					}
					c.Violation(class, d)
				}
				var der []byte
				var err error
				pn, pv, stk := vf.Protect(func() { der, err = ocsp.CreateRequest(&x509.Certificate{SerialNumber: serial}, iss.cert, o.o) })
				if pn {
					bad(panicClass("CreateRequest", pv, stk), stk)
					continue
				}
				if o.h == 0 {
					if err == nil {
						bad("CreateRequest accepts a hash that OCSP CertIDs cannot name", "")
					}
					continue
				}
				if err != nil {
					bad("CreateRequest fails for a supported hash", err.Error())
					continue
				}
				c.Nontrivial(fmt.Sprintf("Q %s %s %s", iss.name, o.name, serial))
				want, _ := ocspref.EncodeRequest([]ocspref.CertID{ocspref.MakeCertID(iss.ref, o.h, serial)}, nil)
				if !bytes.Equal(der, want) {
					bad("CreateRequest output differs from the RFC 6960 encoding of the request (CertID hashes of the issuer name / key, serial)", fmt.Sprintf("have %x want %x", der, want))
				}
				var req *ocsp.Request
				pn, pv, stk = vf.Protect(func() { req, err = ocsp.ParseRequest(der) })
				if pn {
					bad(panicClass("ParseRequest", pv, stk), stk)
					continue
				}
				nh, kh := ocspref.IssuerHashes(iss.ref, o.h)
				if err != nil || req == nil {
					bad("ParseRequest rejects a CreateRequest output", fmt.Sprint(err))
					continue
				}
				if req.HashAlgorithm != o.h || !bytes.Equal(req.IssuerNameHash, nh) || !bytes.Equal(req.IssuerKeyHash, kh) || req.SerialNumber == nil || req.SerialNumber.Cmp(serial) != 0 {
					bad("ParseRequest(CreateRequest(...)) returns different fields", fmt.Sprintf("%v %x %x %v", req.HashAlgorithm, req.IssuerNameHash, req.IssuerKeyHash, req.SerialNumber))
				}
				// Marshal of the parsed request reproduces the bytes
				back, err := req.Marshal()
				if err != nil || !bytes.Equal(back, der) {
					bad("Request.Marshal of a parsed request does not reproduce the request", fmt.Sprint(err))
				}
				if n < 3 {
					c.Sample(desc)
				}
			}
		}
	}
	// Request values with arbitrary hash field lengths
	for _, h := range hashes[1:] {
		for _, l := range []int{0, 1, 20, 32, 64, 200} {
			req := &ocsp.Request{HashAlgorithm: h, IssuerNameHash: c.Bytes("qn", l, l), IssuerKeyHash: c.Bytes("qk", l, l), SerialNumber: big.NewInt(int64(l) - 3)}
			der, err := req.Marshal()
			c.Eval(1)
			if err != nil {
				c.Violation("Request.Marshal fails", map[string]any{"part": "Q", "err": err.Error()})
				continue
			}
			got, err := ocsp.ParseRequest(der)
			if err != nil || got.HashAlgorithm != h || !bytes.Equal(got.IssuerNameHash, req.IssuerNameHash) || !bytes.Equal(got.IssuerKeyHash, req.IssuerKeyHash) || got.SerialNumber.Cmp(req.SerialNumber) != 0 {
				c.Violation("ParseRequest(Request.Marshal()) returns different fields", map[string]any{"part": "Q", "hash": fmt.Sprint(h), "len": l, "err": fmt.Sprint(err)})
			}
			c.Nontrivial(fmt.Sprintf("Q marshal %v %d", h, l))
		}
	}
	for _, h := range []crypto.Hash{0, crypto.MD5, crypto.SHA224} {
		var err error
		pn, pv, stk := vf.Protect(func() { _, err = (&ocsp.Request{HashAlgorithm: h, SerialNumber: big.NewInt(1)}).Marshal() })
		if pn {
			c.Violation(panicClass("Request.Marshal", pv, stk), map[string]any{"part": "Q"})
		} else if err == nil {
			c.Violation("Request.Marshal accepts a hash that OCSP CertIDs cannot name", map[string]any{"part": "Q", "hash": fmt.Sprint(h)})
		}
	}
	// reference-built requests: several CertIDs (the first is reported), signed (refused), trailing data (refused)
	iss := w.issuer[0]
	ids := []ocspref.CertID{ocspref.MakeCertID(iss.ref, crypto.SHA256, big.NewInt(11)), ocspref.MakeCertID(iss.ref, crypto.SHA1, big.NewInt(22))}
	multi, _ := ocspref.EncodeRequest(ids, nil)
	if req, err := ocsp.ParseRequest(multi); err != nil || req.SerialNumber.Int64() != 11 || req.HashAlgorithm != crypto.SHA256 {
		c.Violation("ParseRequest does not report the first CertID of a request with several", map[string]any{"part": "Q", "err": fmt.Sprint(err)})
	}
	signed, _ := ocspref.EncodeRequest(ids[:1], []byte{0xa0, 0x05, 0x30, 0x03, 0x02, 0x01, 0x01})
	if _, err := ocsp.ParseRequest(signed); err == nil {
		c.Violation("ParseRequest accepts a signed request (documented as unsupported)", map[string]any{"part": "Q"})
	}
	single, _ := ocspref.EncodeRequest(ids[:1], nil)
	if _, err := ocsp.ParseRequest(append(append([]byte(nil), single...), 0)); err == nil {
		c.Violation("ParseRequest accepts trailing data", map[string]any{"part": "Q"})
	}
	c.Eval(3)
	c.Set("requests", map[string]any{"create_parse_round_trips": n, "issuer_key_kinds": len(issuers), "option_classes": len(opts), "serial_classes": len(sers)})
}

// ---------------------------------------------------------------------------
// T: totality
// ---------------------------------------------------------------------------

func feedAll(c *vf.Ctx, in []byte, what string) {
	leaf := &x509.Certificate{SerialNumber: big.NewInt(0x1001)}
	type call struct {
		name string
		f    func()
	}
	calls := []call{
		{"ParseRequest", func() { ocsp.ParseRequest(in) }},
		{"ParseResponse", func() { ocsp.ParseResponse(in, nil) }},
		{"ParseResponse", func() { ocsp.ParseResponse(in, w.issuer[0].cert) }},
		{"ParseResponseForCert", func() { ocsp.ParseResponseForCert(in, leaf, w.issuer[1].cert) }},
	}
	for _, cl := range calls {
		if pn, pv, stk := vf.Protect(cl.f); pn {
			c.Violation(panicClass(cl.name, pv, stk), map[string]any{"part": "T", "input": fmt.Sprintf("%x", in), "what": what, "stack": stk})
		}
	}
}

func totality(c *vf.Ctx) {
	maxLen := 2
	if c.Thorough {
		maxLen = 3
	}
	var total atomic.Int64
	feedAll(c, nil, "nil")
	feedAll(c, []byte{}, "empty")
	c.ParallelFor(256, func(b0 int) {
		n := 0
		buf := make([]byte, 3)
		buf[0] = byte(b0)
		feedAll(c, buf[:1], "all inputs up to the length bound")
		n++
		for b1 := 0; b1 < 256; b1++ {
			buf[1] = byte(b1)
			feedAll(c, buf[:2], "all inputs up to the length bound")
			n++
			if maxLen >= 3 {
				for b2 := 0; b2 < 256; b2++ {
					buf[2] = byte(b2)
					feedAll(c, buf[:3], "all inputs up to the length bound")
					n++
				}
			}
		}
		total.Add(int64(n))
		c.Eval(n)
	})
	c.Nontrivial("T short inputs")
	// every truncation of valid requests and responses
	var valid [][]byte
	for _, b := range representative(c) {
		valid = append(valid, b.der)
	}
	q1, _ := ocsp.CreateRequest(&x509.Certificate{SerialNumber: big.NewInt(0x1001)}, w.issuer[0].cert, nil)
	q2, _ := ocsp.CreateRequest(&x509.Certificate{SerialNumber: new(big.Int).Lsh(big.NewInt(1), 159)}, w.issuer[1].cert, &ocsp.RequestOptions{Hash: crypto.SHA512})
	valid = append(valid, q1, q2, ocsp.UnauthorizedErrorResponse)
	trunc := 0
	for vi, v := range valid {
		c.ParallelFor(len(v), func(n int) {
			feedAll(c, v[:n], fmt.Sprintf("truncation of valid message %d to %d bytes", vi, n))
			c.Eval(1)
		})
		trunc += len(v)
		c.Nontrivial(fmt.Sprintf("T truncations of message %d", vi))
	}
	c.Set("totality", map[string]any{"max_len_of_exhaustive_inputs": maxLen, "short_inputs": total.Load() + 2, "truncations": trunc, "parser_entry_points_per_input": 4})
}
