package main

// The fixed little PKI of the check: two issuing CAs (RSA-2048 and ECDSA P-256;
// a P-384 CA for requests), an unrelated CA, delegated responder certificates
// issued by each issuing CA (RSA and ECDSA keys), and "stranger" certificates
// issued by the unrelated CA. Keys are generated once per run; their values are
// irrelevant (the enumerated space is the shape grid), only their kinds matter.

import (
	"bytes"
	"crypto"
	"crypto/ecdsa"
	"crypto/elliptic"
	"crypto/rand"
	"crypto/rsa"
	"crypto/x509"
	"crypto/x509/pkix"
	"fmt"
	"math/big"
	"sync"
	"time"

	"verif/ref/ocspref"
)

type ident struct {
	name string
	key  crypto.Signer
	cert *x509.Certificate
	ref  *ocspref.Cert
	rsa  bool
}

type world struct {
	issuer    [2]*ident    // 0 = RSA CA, 1 = ECDSA P-256 CA
	issuer384 *ident       // ECDSA P-384 CA (requests)
	other     *ident       // unrelated CA
	delegate  [2][2]*ident // [issuer kind][0 = RSA key, 1 = ECDSA key], issued by issuer[kind]
	stranger  [2]*ident    // [0 = RSA key, 1 = ECDSA key], issued by other
	impostor  [2]*ident    // ECDSA leaf issued by a CA that has issuer[kind]'s name but another key
	// lookalike[kind]: certificates that copy identifying fields of issuer[kind]'s certificate (subject DN,
	// subject key id, serial number, or every field) but hold a stranger's key and are signed by that
	// stranger (self-signed) or by the unrelated CA - never by the issuer's key.
	lookalike [2][]*ident
}

func mustCert(tmpl, parent *x509.Certificate, pub crypto.PublicKey, signer crypto.Signer) *x509.Certificate {
	der, err := x509.CreateCertificate(rand.Reader, tmpl, parent, pub, signer)
	if err != nil {
		panic(err)
	}
	c, err := x509.ParseCertificate(der)
	if err != nil {
		panic(err)
	}
	return c
}

func (id *ident) finish() *ident {
	r, err := ocspref.DecodeCert(id.cert.Raw)
	if err != nil {
		panic(err)
	}
	id.ref = r
	_, id.rsa = id.key.(*rsa.PrivateKey)
	return id
}

var serialCounter int64 = 1000

func caTemplate(cn string) *x509.Certificate {
	serialCounter++
	return &x509.Certificate{SerialNumber: big.NewInt(serialCounter), Subject: pkix.Name{CommonName: cn, Organization: []string{"verif C48"}},
		NotBefore: time.Now().Add(-time.Hour), NotAfter: time.Now().Add(10 * 365 * 24 * time.Hour), IsCA: true, BasicConstraintsValid: true,
		KeyUsage: x509.KeyUsageCertSign | x509.KeyUsageCRLSign | x509.KeyUsageDigitalSignature}
}

func leafTemplate(cn string) *x509.Certificate {
	serialCounter++
	return &x509.Certificate{SerialNumber: big.NewInt(serialCounter), Subject: pkix.Name{CommonName: cn, Organization: []string{"verif C48"}},
		NotBefore: time.Now().Add(-time.Hour), NotAfter: time.Now().Add(365 * 24 * time.Hour), KeyUsage: x509.KeyUsageDigitalSignature,
		ExtKeyUsage: []x509.ExtKeyUsage{x509.ExtKeyUsageOCSPSigning}}
}

func buildWorld() *world {
	var rsaKeys [3]*rsa.PrivateKey
	var wg sync.WaitGroup
	for i := range rsaKeys {
		wg.Add(1)
		go func() {
			defer wg.Done()
			k, err := rsa.GenerateKey(rand.Reader, 2048)
			if err != nil {
				panic(err)
			}
			rsaKeys[i] = k
		}()
	}
	ec := func(c elliptic.Curve) *ecdsa.PrivateKey {
		k, err := ecdsa.GenerateKey(c, rand.Reader)
		if err != nil {
			panic(err)
		}
		return k
	}
	ecIssuer, ecOther, ecDeleg, ecStranger, ec384 := ec(elliptic.P256()), ec(elliptic.P256()), ec(elliptic.P256()), ec(elliptic.P256()), ec(elliptic.P384())
	wg.Wait()
	w := &world{}
	selfCA := func(cn string, key crypto.Signer) *ident {
		t := caTemplate(cn)
		return (&ident{name: cn, key: key, cert: mustCert(t, t, key.Public(), key)}).finish()
	}
	w.issuer[0] = selfCA("C48 Issuer RSA", rsaKeys[0])
	w.issuer[1] = selfCA("C48 Issuer ECDSA", ecIssuer)
	w.issuer384 = selfCA("C48 Issuer ECDSA P-384", ec384)
	w.other = selfCA("C48 Other CA", ecOther)
	issue := func(cn string, key crypto.Signer, ca *ident) *ident {
		return (&ident{name: cn, key: key, cert: mustCert(leafTemplate(cn), ca.cert, key.Public(), ca.key)}).finish()
	}
	for k := 0; k < 2; k++ {
		w.delegate[k][0] = issue(fmt.Sprintf("C48 Delegate RSA under %s", w.issuer[k].name), rsaKeys[1], w.issuer[k])
		w.delegate[k][1] = issue(fmt.Sprintf("C48 Delegate ECDSA under %s", w.issuer[k].name), ecDeleg, w.issuer[k])
	}
	for k := 0; k < 2; k++ {
		// a CA certificate with the issuer's exact subject and a different key, and a leaf issued by it:
		// its issuer field names the real issuer, its signature is not the real issuer's
		fakeKey := ec(elliptic.P256())
		t := caTemplate(w.issuer[k].name)
		t.Subject = w.issuer[k].cert.Subject
		fake := &ident{name: "fake " + w.issuer[k].name, key: fakeKey, cert: mustCert(t, t, fakeKey.Public(), fakeKey)}
		w.impostor[k] = issue("C48 Impostor delegate", ec(elliptic.P256()), fake)
		if !bytes.Equal(w.impostor[k].cert.RawIssuer, w.issuer[k].cert.RawSubject) {
			panic("impostor certificate does not name the issuer")
		}
	}
	for k := 0; k < 2; k++ {
		ic := w.issuer[k].cert
		mk := func(name string, key crypto.Signer, edit func(t *x509.Certificate), ca *ident) {
			t := leafTemplate("C48 lookalike")
			edit(t)
			parent, signer := t, key
			if ca != nil {
				parent, signer = ca.cert, ca.key
			}
			id := (&ident{name: name, key: key, cert: mustCert(t, parent, key.Public(), signer)}).finish()
			if id.ref.SignedBy(w.issuer[k].ref.Public) {
				panic("lookalike certificate verifies under the issuer's key")
			}
			w.lookalike[k] = append(w.lookalike[k], id)
		}
		subj := func(t *x509.Certificate) { t.RawSubject = ic.RawSubject }
		skid := func(t *x509.Certificate) { t.SubjectKeyId = ic.SubjectKeyId }
		serial := func(t *x509.Certificate) { t.SerialNumber = ic.SerialNumber }
		all := func(t *x509.Certificate) {
			t.RawSubject, t.SerialNumber, t.SubjectKeyId, t.AuthorityKeyId = ic.RawSubject, ic.SerialNumber, ic.SubjectKeyId, ic.AuthorityKeyId
			t.NotBefore, t.NotAfter, t.KeyUsage, t.ExtKeyUsage, t.IsCA, t.BasicConstraintsValid = ic.NotBefore, ic.NotAfter, ic.KeyUsage, ic.ExtKeyUsage, true, true
		}
		mk("a self-signed ECDSA certificate with the issuer's subject (and thus issuer) DN", ec(elliptic.P256()), subj, nil)
		mk("a self-signed RSA certificate with the issuer's subject (and thus issuer) DN", rsaKeys[2], subj, nil)
		mk("an ECDSA certificate with the issuer's subject DN issued by another CA", ec(elliptic.P256()), subj, w.other)
		mk("a self-signed ECDSA certificate with the issuer's subject key id", ec(elliptic.P256()), skid, nil)
		mk("an ECDSA certificate with the issuer's subject key id issued by another CA", ec(elliptic.P256()), skid, w.other)
		mk("an ECDSA certificate with the issuer's serial number issued by another CA", ec(elliptic.P256()), serial, w.other)
		mk("a self-signed ECDSA copy of every field of the issuer's certificate but the key", ec(elliptic.P256()), all, nil)
		mk("a self-signed RSA copy of every field of the issuer's certificate but the key", rsaKeys[2], all, nil)
		mk("an ECDSA copy of the issuer's certificate fields issued by another CA", ec(elliptic.P256()), all, w.other)
		for _, l := range w.lookalike[k][:3] {
			if !bytes.Equal(l.cert.RawSubject, ic.RawSubject) {
				panic("lookalike subject is not the issuer's subject")
			}
		}
	}
	w.stranger[0] = issue("C48 Stranger RSA", rsaKeys[2], w.other)
	w.stranger[1] = issue("C48 Stranger ECDSA", ecStranger, w.other)
	return w
}
