// C48: OCSP responses round-trip and are accepted only when signed by the issuer.
//
// R1  template grid -> ocsp.CreateResponse -> reference decoder (ref/ocspref, written
//
//	from RFC 6960 and validated against OpenSSL output): the bytes carry exactly the
//	template; the signature verifies over the DER of ResponseData; then
//	ocsp.ParseResponse / ParseResponseForCert with issuer in {none, the issuer,
//	another CA}: accepted iff the reference acceptance rule says so, and the
//	returned fields equal the template.
//
// R2  responses built by the reference encoder (responder by name / by key hash,
//
//	0..2 certificates, 1 or 3 SingleResponses, signatures over the wrong bytes)
//	-> ParseResponse / ParseResponseForCert.
//
// F   every single-byte substitution of 4 representative responses.
// Q   CreateRequest / Request.Marshal / ParseRequest.
// T   totality of the three parsers.
package main

import (
	"bytes"
	"crypto"
	"crypto/x509"
	"crypto/x509/pkix"
	"encoding/asn1"
	"fmt"
	"math/big"
	"strings"
	"sync"
	"sync/atomic"
	"time"

	"golang.org/x/crypto/ocsp"
	"verif/ref/ocspref"
	"verif/vf"
)

func main() { vf.Main("C48", vf.Exploration, run) }

var hashes = []crypto.Hash{0, crypto.SHA1, crypto.SHA256, crypto.SHA384, crypto.SHA512}

var reasons = []int{ocsp.Unspecified, ocsp.KeyCompromise, ocsp.CACompromise, ocsp.AffiliationChanged, ocsp.Superseded, ocsp.CessationOfOperation,
	ocsp.CertificateHold, ocsp.RemoveFromCRL, ocsp.PrivilegeWithdrawn, ocsp.AACompromise}

type statusClass struct {
	status int
	reason int
}

func statusClasses() []statusClass {
	out := []statusClass{{ocsp.Good, 0}, {ocsp.Unknown, 0}}
	for _, r := range reasons {
		out = append(out, statusClass{ocsp.Revoked, r})
	}
	return out
}

func (s statusClass) String() string {
	return fmt.Sprintf("%s/%d", [...]string{"good", "revoked", "unknown"}[s.status], s.reason)
}

type timeClass struct {
	name                string
	this, next, revoked time.Time
}

func timeClasses() []timeClass {
	now := time.Now().Truncate(time.Second).UTC()
	ist := time.FixedZone("IST", 5*3600+1800)
	d := func(y int, m time.Month, dd, h, mi, s int) time.Time {
		return time.Date(y, m, dd, h, mi, s, 0, time.UTC)
	}
	return []timeClass{
		{"now, +7d, -30d (UTC)", now, now.Add(7 * 24 * time.Hour), now.Add(-30 * 24 * time.Hour)},
		{"non-UTC zone", now.In(ist), now.Add(time.Hour).In(ist), now.Add(-time.Hour).In(time.FixedZone("W", -8*3600))},
		{"no NextUpdate", now, time.Time{}, now.Add(-time.Minute)},
		{"1970 / 2049-12-31 23:59:59 / 1950", d(1970, 1, 1, 0, 0, 0), d(2049, 12, 31, 23, 59, 59), d(1950, 1, 1, 0, 0, 0)},
		{"2050 / 9999-12-31 23:59:59 / year 1", d(2050, 1, 1, 0, 0, 0), d(9999, 12, 31, 23, 59, 59), d(1, 1, 1, 0, 0, 1)},
		{"leap day, NextUpdate == ThisUpdate, revoked later", d(2024, 2, 29, 23, 59, 59), d(2024, 2, 29, 23, 59, 59), d(2024, 3, 1, 0, 0, 0)},
	}
}

func serialClasses(c *vf.Ctx) []*big.Int {
	p := func(s string) *big.Int { v, _ := new(big.Int).SetString(s, 0); return v }
	out := []*big.Int{big.NewInt(1), big.NewInt(127), big.NewInt(128), big.NewInt(255), big.NewInt(256), big.NewInt(0x1001), p("0x7fffffffffffffff"), p("0x8000000000000000"),
		p("0x10000000000000000"), p("0x7fffffffffffffffffffffffffffffffffffffff"), p("0xffffffffffffffffffffffffffffffffffffffff"), big.NewInt(0), big.NewInt(-1), big.NewInt(-129)}
	for i := 0; i < c.V(); i++ {
		out = append(out, new(big.Int).SetBytes(c.Bytes("serial", i, 20)))
	}
	return out
}

var extOID = asn1.ObjectIdentifier{1, 3, 6, 1, 4, 1, 99999, 48, 1}

func extClasses(c *vf.Ctx) [][]pkix.Extension {
	out := [][]pkix.Extension{nil, {{Id: extOID, Critical: false, Value: c.Bytes("ext", 0, 18)}}}
	if c.Thorough {
		out = append(out, []pkix.Extension{{Id: extOID, Value: []byte{}}, {Id: asn1.ObjectIdentifier{1, 3, 6, 1, 5, 5, 7, 48, 1, 2}, Value: c.Bytes("ext", 1, 34)}})
	}
	return out
}

func sigAlgFor(id *ident, h crypto.Hash) (x509.SignatureAlgorithm, x509.SignatureAlgorithm) {
	// (what to request in the template, what the response must carry)
	if id.rsa {
		m := map[crypto.Hash]x509.SignatureAlgorithm{crypto.SHA1: x509.SHA1WithRSA, crypto.SHA256: x509.SHA256WithRSA, crypto.SHA384: x509.SHA384WithRSA, crypto.SHA512: x509.SHA512WithRSA}
		if h == 0 {
			return 0, x509.SHA256WithRSA
		}
		return m[h], m[h]
	}
	m := map[crypto.Hash]x509.SignatureAlgorithm{crypto.SHA1: x509.ECDSAWithSHA1, crypto.SHA256: x509.ECDSAWithSHA256, crypto.SHA384: x509.ECDSAWithSHA384, crypto.SHA512: x509.ECDSAWithSHA512}
	if h == 0 {
		return 0, x509.ECDSAWithSHA256 // P-256 keys
	}
	return m[h], m[h]
}

func refAlg(a x509.SignatureAlgorithm) ocspref.SigAlg {
	switch a {
	case x509.SHA1WithRSA:
		return ocspref.SigAlg{RSA: true, Hash: crypto.SHA1}
	case x509.SHA256WithRSA:
		return ocspref.SigAlg{RSA: true, Hash: crypto.SHA256}
	case x509.SHA384WithRSA:
		return ocspref.SigAlg{RSA: true, Hash: crypto.SHA384}
	case x509.SHA512WithRSA:
		return ocspref.SigAlg{RSA: true, Hash: crypto.SHA512}
	case x509.ECDSAWithSHA1:
		return ocspref.SigAlg{Hash: crypto.SHA1}
	case x509.ECDSAWithSHA256:
		return ocspref.SigAlg{Hash: crypto.SHA256}
	case x509.ECDSAWithSHA384:
		return ocspref.SigAlg{Hash: crypto.SHA384}
	case x509.ECDSAWithSHA512:
		return ocspref.SigAlg{Hash: crypto.SHA512}
	}
	return ocspref.SigAlg{}
}

type parseResult struct {
	resp     *ocsp.Response
	err      error
	panicked bool
	pval     any
	stack    string
}

func parse(der []byte, cert, issuer *x509.Certificate, forCert bool) (r parseResult) {
	r.panicked, r.pval, r.stack = vf.Protect(func() {
		if forCert {
			r.resp, r.err = ocsp.ParseResponseForCert(der, cert, issuer)
		} else {
			r.resp, r.err = ocsp.ParseResponse(der, issuer)
		}
	})
	return
}

func panicClass(fn string, pval any, stack string) string {
	var fr []string
	for _, ln := range strings.Split(stack, "\n") {
		if strings.HasPrefix(ln, "golang.org/x/crypto/ocsp.") {
			f := ln[len("golang.org/x/crypto/"):]
			if j := strings.LastIndex(f, "("); j > 0 {
				f = f[:j]
			}
			fr = append(fr, f)
			if len(fr) == 2 {
				break
			}
		}
	}
	return fmt.Sprintf("%s panics: %v [%s]", fn, pval, strings.Join(fr, " < "))
}

func hexs(b []byte) string { return vf.Hex8(b) }

var w *world

func run(c *vf.Ctx) {
	c.Rule("shape grid: issuer key kind x (signer, carried certificate) x status/reason x hash x extensions x time class x serial class for CreateResponse round trips; " +
		"responder-id form x certificate list x signer x number of SingleResponses for reference-built responses; each parsed with no issuer, the issuer and another CA; " +
		"fault part: one case = one (response, offset, substituted value); distinct = distinct grid point or fault position; " +
		"part H: signer key kind {P-224, P-384, P-521, RSA, P-256} x requested algorithm {none, 4 ECDSA, 4 RSA, 6 unusable}; one extension of EVERY length 0..400 and every length in a window below 65536, 2..40 extensions, responder subjects of 1..300 octets; " +
		"parsed response re-signed as template by 4 x 4 signer pairs; DER buffer overwritten after parsing; 2/5/60/700 SingleResponses with the wanted serial first/middle/last/twice and near-miss serials")
	c.Assume("crypto/rsa, crypto/ecdsa, crypto/x509 (certificate creation and parsing), encoding/asn1 and the hash packages of the standard library are trusted")
	c.Assume("the reference (ref/ocspref) follows RFC 6960 4.1.1/4.2.1 and reproduces OpenSSL 3.5 responses and requests byte for byte (its own tests)")
	c.Assume("key values are fresh per run (RSA/ECDSA key generation is not reproducible); the enumerated space is the shape grid, not the keys")
	w = buildWorld()

	section := ""
	if c.Replay != nil {
		if d, ok := c.Replay["detail"].(map[string]any); ok {
			section, _ = d["part"].(string)
		}
	}
	want := func(p string) bool { return section == "" || section == p }
	if want("R1") {
		timed(c, "R1", func() { createRoundTrip(c) })
	}
	if want("R2") {
		timed(c, "R2", func() { referenceBuilt(c) })
	}
	if want("H1") || want("H2") || want("H3") || want("H4") || want("H5") {
		timed(c, "H", func() { hardenPart(c) })
	}
	if want("F") {
		timed(c, "F", func() { faults(c) })
	}
	if want("Q") {
		timed(c, "Q", func() { requests(c) })
	}
	if want("T") {
		timed(c, "T", func() { totality(c) })
	}
}

var partTimes sync.Map

func timed(c *vf.Ctx, name string, f func()) {
	t0 := time.Now()
	f()
	partTimes.Store(name, time.Since(t0).Seconds())
	m := map[string]float64{}
	partTimes.Range(func(k, v any) bool { m[k.(string)] = v.(float64); return true })
	c.Set("part_wall_s", m)
}

// ---------------------------------------------------------------------------
// R1
// ---------------------------------------------------------------------------

type combo struct {
	name    string
	signer  *ident
	carried *ident // certificate put into the response (nil: none)
}

func combos(kind int) []combo {
	iss := w.issuer[kind]
	dR, dE := w.delegate[kind][0], w.delegate[kind][1]
	sR, sE := w.stranger[0], w.stranger[1]
	var out []combo
	add := func(s *ident, sn string, carried *ident, cn string) {
		out = append(out, combo{fmt.Sprintf("signed by %s, carrying %s", sn, cn), s, carried})
	}
	add(iss, "the issuer", nil, "no certificate")
	add(iss, "the issuer", dR, "a delegate certificate (not the signer)")
	add(iss, "the issuer", sE, "a stranger's certificate (not the signer)")
	add(dR, "the RSA delegate", nil, "no certificate")
	add(dR, "the RSA delegate", dR, "its certificate issued by the issuer")
	add(dR, "the RSA delegate", sR, "a stranger's certificate (not the signer)")
	add(dE, "the ECDSA delegate", nil, "no certificate")
	add(dE, "the ECDSA delegate", dE, "its certificate issued by the issuer")
	add(dE, "the ECDSA delegate", dR, "the other delegate's certificate")
	add(sR, "an RSA stranger", nil, "no certificate")
	add(sR, "an RSA stranger", sR, "its certificate issued by another CA")
	add(sR, "an RSA stranger", dR, "a delegate certificate (not the signer)")
	add(sE, "an ECDSA stranger", nil, "no certificate")
	add(sE, "an ECDSA stranger", sE, "its certificate issued by another CA")
	add(sE, "an ECDSA stranger", dE, "a delegate certificate (not the signer)")
	add(w.impostor[kind], "an impostor", w.impostor[kind], "its certificate, which names the issuer but is signed by another key")
	for _, l := range w.lookalike[kind] {
		add(l, "a stranger holding "+l.name, l, "that certificate")
	}
	add(iss, "the issuer", iss, "the issuer's own certificate")
	add(sE, "an ECDSA stranger", iss, "the issuer's own certificate (not the signer)")
	return out
}

// expectAccept is the acceptance rule by construction (which key signed, which
// certificate is carried, who issued it).
func expectAccept(signer, carried, issuerArg *ident) bool {
	if carried == nil {
		return issuerArg == nil || signer.key == issuerArg.key
	}
	if signer.key != carried.key {
		return false
	}
	return issuerArg == nil || carried.ref.SignedBy(issuerArg.ref.Public)
}

func sameTime(a, b time.Time) bool { return a.Equal(b) }

func extsEqual(got []pkix.Extension, want []pkix.Extension) bool {
	if len(got) != len(want) {
		return false
	}
	for i := range got {
		if !got[i].Id.Equal(want[i].Id) || got[i].Critical != want[i].Critical || !bytes.Equal(got[i].Value, want[i].Value) {
			return false
		}
	}
	return true
}

type expectation struct {
	status, reason         int
	serial                 *big.Int
	this, next, revoked    time.Time
	issuerHash             crypto.Hash
	responderName          []byte
	responderKey           []byte
	carried                []byte
	exts                   []pkix.Extension
	sigAlg                 x509.SignatureAlgorithm
	tbs, sig               []byte
	producedLo, producedHi time.Time
}

// checkFields compares a parsed Response with the expectation and returns the first difference.
func checkFields(r *ocsp.Response, e *expectation, der []byte) string {
	switch {
	case r == nil:
		return "nil Response without error"
	case r.Status != e.status:
		return fmt.Sprintf("Status %d, want %d", r.Status, e.status)
	case r.SerialNumber == nil || r.SerialNumber.Cmp(e.serial) != 0:
		return fmt.Sprintf("SerialNumber %v, want %v", r.SerialNumber, e.serial)
	case !sameTime(r.ThisUpdate, e.this):
		return fmt.Sprintf("ThisUpdate %v, want %v", r.ThisUpdate, e.this)
	case !sameTime(r.NextUpdate, e.next):
		return fmt.Sprintf("NextUpdate %v, want %v", r.NextUpdate, e.next)
	case e.status == ocsp.Revoked && !sameTime(r.RevokedAt, e.revoked):
		return fmt.Sprintf("RevokedAt %v, want %v", r.RevokedAt, e.revoked)
	case e.status == ocsp.Revoked && r.RevocationReason != e.reason:
		return fmt.Sprintf("RevocationReason %d, want %d", r.RevocationReason, e.reason)
	case r.IssuerHash != e.issuerHash:
		return fmt.Sprintf("IssuerHash %v, want %v", r.IssuerHash, e.issuerHash)
	case !bytes.Equal(r.RawResponderName, e.responderName):
		return fmt.Sprintf("RawResponderName %s, want %s", hexs(r.RawResponderName), hexs(e.responderName))
	case !bytes.Equal(r.ResponderKeyHash, e.responderKey):
		return fmt.Sprintf("ResponderKeyHash %s, want %s", hexs(r.ResponderKeyHash), hexs(e.responderKey))
	case (r.Certificate == nil) != (e.carried == nil) || (r.Certificate != nil && !bytes.Equal(r.Certificate.Raw, e.carried)):
		return "Certificate is not the (first) certificate carried by the response"
	case !extsEqual(r.Extensions, e.exts):
		return fmt.Sprintf("Extensions %v, want %v", r.Extensions, e.exts)
	case r.SignatureAlgorithm != e.sigAlg:
		return fmt.Sprintf("SignatureAlgorithm %v, want %v", r.SignatureAlgorithm, e.sigAlg)
	case !bytes.Equal(r.TBSResponseData, e.tbs):
		return "TBSResponseData is not the DER of ResponseData"
	case !bytes.Equal(r.Signature, e.sig):
		return "Signature differs from the signature bits of the response"
	case !bytes.Equal(r.Raw, der):
		return "Raw differs from the input"
	case !e.producedLo.IsZero() && (r.ProducedAt.Before(e.producedLo) || r.ProducedAt.After(e.producedHi)):
		return fmt.Sprintf("ProducedAt %v outside [%v, %v]", r.ProducedAt, e.producedLo, e.producedHi)
	}
	return ""
}

func createRoundTrip(c *vf.Ctx) {
	sts, tcs, sers, exts := statusClasses(), timeClasses(), serialClasses(c), extClasses(c)
	type point struct {
		kind, combo, st, h, x, t, s int
	}
	var pts []point
	for kind := 0; kind < 2; kind++ {
		for ci := range combos(kind) {
			for st := range sts {
				for h := range hashes {
					for x := range exts {
						if c.Thorough {
							for t := range tcs {
								pts = append(pts, point{kind, ci, st, h, x, t, (ci + st + 3*h + 5*x + 7*t) % len(sers)})
							}
						} else {
							// two of the six time classes per point, rotating over the other coordinates
							i := ci + st + h + x
							for _, t := range []int{(i + kind) % len(tcs), (i + kind + 3) % len(tcs)} {
								pts = append(pts, point{kind, ci, st, h, x, t, (ci*7 + st*3 + h + 5*x + kind + t) % len(sers)})
							}
						}
					}
				}
			}
		}
	}
	var accepted, rejected atomic.Int64
	cb := [2][]combo{combos(0), combos(1)}
	c.ParallelFor(len(pts), func(i int) {
		p := pts[i]
		co := cb[p.kind][p.combo]
		iss := w.issuer[p.kind]
		st, tc, serial, ext, h := sts[p.st], tcs[p.t], sers[p.s], exts[p.x], hashes[p.h]
		reqAlg, wantAlg := sigAlgFor(co.signer, h)
		tmpl := ocsp.Response{Status: st.status, SerialNumber: serial, ThisUpdate: tc.this, NextUpdate: tc.next, IssuerHash: h, ExtraExtensions: ext, SignatureAlgorithm: reqAlg}
		if st.status == ocsp.Revoked {
			tmpl.RevokedAt, tmpl.RevocationReason = tc.revoked, st.reason
		}
		if co.carried != nil {
			tmpl.Certificate = co.carried.cert
		}
		desc := map[string]any{"part": "R1", "issuer": iss.name, "combination": co.name, "status": st.String(), "hash": fmt.Sprint(h), "extensions": len(ext), "times": tc.name, "serial": serial.String()}
		bad := func(class, why string) {
			d := map[string]any{"why": why}
			for k, v := range desc {
				d[k] = v
			}
			c.Violation(class, d)
		}
		var der []byte
		var err error
		lo := time.Now().Truncate(time.Minute)
		pn, pv, stk := vf.Protect(func() { der, err = ocsp.CreateResponse(iss.cert, co.signer.cert, tmpl, co.signer.key) })
		hi := time.Now()
		c.Eval(1)
		if pn {
			bad(panicClass("CreateResponse", pv, stk), stk)
			return
		}
		if err != nil {
			bad("CreateResponse fails for a template of the grid", err.Error())
			return
		}
		c.Nontrivial(fmt.Sprintf("R1 k%d c%d st%d h%d x%d t%d", p.kind, p.combo, p.st, p.h, p.x, p.t))

		// (1) what is on the wire, read by the reference
		ref, err := ocspref.DecodeResponse(der)
		if err != nil || ref.Status != 0 || len(ref.Singles) != 1 {
			bad("CreateResponse output is not a well-formed successful OCSPResponse with one SingleResponse (reference decoder)", fmt.Sprint(err))
			return
		}
		ih := h
		if ih == 0 {
			ih = crypto.SHA1
		}
		wantID := ocspref.MakeCertID(iss.ref, ih, serial)
		s := ref.Singles[0]
		wantStatus := map[int]int{ocsp.Good: ocspref.Good, ocsp.Revoked: ocspref.Revoked, ocsp.Unknown: ocspref.Unknown}[st.status]
		switch {
		case s.Status != wantStatus:
			bad("CreateResponse encodes a different certificate status than the template's", fmt.Sprintf("wire %d template %d", s.Status, st.status))
		case st.status == ocsp.Revoked && (s.Reason != st.reason || !s.RevokedAt.Equal(tc.revoked)):
			bad("CreateResponse loses or changes the revocation time/reason", fmt.Sprintf("wire reason %d at %v, template %d at %v", s.Reason, s.RevokedAt, st.reason, tc.revoked))
		case s.IssuerHash != ih || !bytes.Equal(s.CertID.IssuerNameHash, wantID.IssuerNameHash) || !bytes.Equal(s.CertID.IssuerKeyHash, wantID.IssuerKeyHash):
			bad("CreateResponse writes a CertID whose issuer name/key hashes are not those of the issuer (RFC 6960 4.1.1)", fmt.Sprintf("name %s want %s key %s want %s", hexs(s.CertID.IssuerNameHash), hexs(wantID.IssuerNameHash), hexs(s.CertID.IssuerKeyHash), hexs(wantID.IssuerKeyHash)))
		case s.CertID.SerialNumber.Cmp(serial) != 0:
			bad("CreateResponse writes a different serial number", s.CertID.SerialNumber.String())
		case !s.ThisUpdate.Equal(tc.this) || !s.NextUpdate.Equal(tc.next) || s.HasNextUpd != !tc.next.IsZero():
			bad("CreateResponse writes different thisUpdate/nextUpdate", fmt.Sprintf("%v %v", s.ThisUpdate, s.NextUpdate))
		case !bytes.Equal(ref.ResponderName, co.signer.ref.SubjectDER) || ref.ResponderKey != nil:
			bad("CreateResponse does not identify the responder by the responder certificate's subject", hexs(ref.ResponderName))
		case (co.carried == nil) != (len(ref.Certs) == 0) || (co.carried != nil && !bytes.Equal(ref.Certs[0], co.carried.cert.Raw)):
			bad("CreateResponse does not carry exactly the template's certificate", fmt.Sprint(len(ref.Certs)))
		case !ref.SigAlgKnown || ref.SigAlg != refAlg(wantAlg):
			bad("CreateResponse uses a different signature algorithm than requested", fmt.Sprint(ref.SigAlgOID))
		case ref.Verify(co.signer.ref.Public) != nil:
			bad("CreateResponse signature does not verify over the DER of ResponseData under the signer's key", fmt.Sprint(ref.Verify(co.signer.ref.Public)))
		case ref.ProducedAt.Before(lo.Add(-time.Second)) || ref.ProducedAt.After(hi):
			bad("CreateResponse producedAt is not the current time to the minute", ref.ProducedAt.String())
		}
		if len(s.Extensions) != len(ext) {
			bad("CreateResponse does not write the template's ExtraExtensions", fmt.Sprint(len(s.Extensions)))
		} else {
			for j := range ext {
				if !s.Extensions[j].ID.Equal(ext[j].Id) || s.Extensions[j].Critical != ext[j].Critical || !bytes.Equal(s.Extensions[j].Value, ext[j].Value) {
					bad("CreateResponse does not write the template's ExtraExtensions", fmt.Sprint(j))
				}
			}
		}

		// (2) parsing with no issuer, the issuer, another CA
		exp := &expectation{status: st.status, reason: st.reason, serial: serial, this: tc.this, next: tc.next, revoked: tc.revoked, issuerHash: ih,
			responderName: co.signer.cert.RawSubject, exts: ext, sigAlg: wantAlg, tbs: ref.TBS, sig: ref.Signature, producedLo: lo.Add(-time.Second), producedHi: hi}
		if co.carried != nil {
			exp.carried = co.carried.cert.Raw
		}
		leaf := &x509.Certificate{SerialNumber: serial}
		otherLeaf := &x509.Certificate{SerialNumber: new(big.Int).Add(serial, big.NewInt(1))}
		for ai, arg := range []*ident{nil, iss, w.other} {
			wantOK := expectAccept(co.signer, co.carried, arg)
			var refIss *ocspref.Cert
			var x *x509.Certificate
			if arg != nil {
				refIss, x = arg.ref, arg.cert
			}
			if ok, why := ref.Accept(refIss); ok != wantOK {
				bad("harness: reference acceptance rule disagrees with the construction", why)
			}
			for variant := 0; variant < 3; variant++ {
				var r parseResult
				vname := [...]string{"ParseResponse", "ParseResponseForCert(cert with the serial)", "ParseResponseForCert(cert with another serial)"}[variant]
				switch variant {
				case 0:
					r = parse(der, nil, x, false)
				case 1:
					r = parse(der, leaf, x, true)
				case 2:
					r = parse(der, otherLeaf, x, true)
				}
				c.Eval(1)
				argName := [...]string{"no issuer", "the issuer", "another CA"}[ai]
				if r.panicked {
					bad(panicClass(vname, r.pval, r.stack), r.stack)
					continue
				}
				if variant == 2 {
					if r.err == nil {
						bad("ParseResponseForCert returns a status for a certificate whose serial is not in the response", argName)
					}
					continue
				}
				if r.err == nil && !wantOK {
					bad("accepted a response that is neither signed by the issuer nor by a carried certificate that the issuer signed", vname+" with "+argName)
					continue
				}
				if r.err != nil && wantOK {
					bad("rejected a CreateResponse output that the documented rules accept", vname+" with "+argName+": "+r.err.Error())
					continue
				}
				if r.err != nil {
					rejected.Add(1)
					c.Outcome("R1 rejected: " + argName)
					continue
				}
				accepted.Add(1)
				c.Outcome("R1 accepted: " + argName)
				if diff := checkFields(r.resp, exp, der); diff != "" {
					bad("a field returned by "+strings.SplitN(vname, "(", 2)[0]+" differs from the template: "+strings.SplitN(diff, " ", 2)[0], diff+" ["+argName+"]")
				}
				if co.carried == nil && arg != nil {
					if e := r.resp.CheckSignatureFrom(x); e != nil {
						bad("CheckSignatureFrom(issuer) fails on an accepted response", e.Error())
					}
				}
			}
		}
		if i < 3 {
			c.Sample(desc)
		}
	})
	// templates outside the documented Status domain: recorded, not judged
	for _, st := range []int{ocsp.ServerFailed, 7, -1} {
		var der []byte
		var err error
		pn, pv, stk := vf.Protect(func() {
			der, err = ocsp.CreateResponse(w.issuer[1].cert, w.issuer[1].cert, ocsp.Response{Status: st, SerialNumber: big.NewInt(5), ThisUpdate: time.Now()}, w.issuer[1].key)
		})
		if pn {
			c.Violation(panicClass("CreateResponse", pv, stk), map[string]any{"part": "R1", "template_status": st})
			continue
		}
		out := "error"
		if err == nil {
			out = "response without certStatus"
			if r, e := ocsp.ParseResponse(der, w.issuer[1].cert); e == nil {
				out = fmt.Sprintf("parsed back as status %d", r.Status)
			}
		}
		c.Outcome(fmt.Sprintf("R1 template Status=%d (outside Good/Revoked/Unknown): %s", st, out))
	}
	// nil serial: an error, not a panic
	pn, pv, stk := vf.Protect(func() {
		ocsp.CreateResponse(w.issuer[1].cert, w.issuer[1].cert, ocsp.Response{Status: ocsp.Good, ThisUpdate: time.Now()}, w.issuer[1].key)
	})
	if pn {
		c.Violation(panicClass("CreateResponse", pv, stk), map[string]any{"part": "R1", "template": "SerialNumber nil"})
	}
	c.Set("create_round_trip", map[string]any{"templates": len(pts), "parses_accepted": accepted.Load(), "parses_rejected": rejected.Load(),
		"dimensions": map[string]int{"issuer_kinds": 2, "signer_x_carried": len(cb[0]), "status_reason": len(sts), "hash": len(hashes), "extension_classes": len(exts), "time_classes": len(tcs), "serial_classes": len(sers), "issuer_arguments": 3, "parse_variants": 3}})
}
