package ssh

// Shared harness code for the scheduler-based checks (C30, C31, C35, C36): an
// in-memory packet pipe built from sync primitives only, so that it is instrumented
// together with the package and every hand-off is a visible operation.

import (
	"io"
	"sync"
)

type verifPipeHalf struct {
	mu     sync.Mutex
	cond   *sync.Cond
	q      [][]byte
	closed bool
}

// VerifMemConn is one end of an in-memory packet pipe; it implements packetConn and
// (as a no-op) keyingTransport.
type VerifMemConn struct {
	in, out *verifPipeHalf
	// Log records the first byte (message type) of every packet written on this end.
	Log []byte
	// OnWrite, if set, sees every packet written on this end (after copying).
	OnWrite func(p []byte)
}

// VerifMemPipe returns the two connected ends.
func VerifMemPipe() (a, b *VerifMemConn) {
	x, y := &verifPipeHalf{}, &verifPipeHalf{}
	x.cond, y.cond = sync.NewCond(&x.mu), sync.NewCond(&y.mu)
	return &VerifMemConn{in: x, out: y}, &VerifMemConn{in: y, out: x}
}

func (t *VerifMemConn) writePacket(p []byte) error {
	t.out.mu.Lock()
	defer t.out.mu.Unlock()
	if t.out.closed {
		return io.EOF
	}
	c := make([]byte, len(p))
	copy(c, p)
	t.Log = append(t.Log, p[0])
	if t.OnWrite != nil {
		t.OnWrite(c)
	}
	t.out.q = append(t.out.q, c)
	t.out.cond.Signal()
	return nil
}

func (t *VerifMemConn) readPacket() ([]byte, error) {
	t.in.mu.Lock()
	defer t.in.mu.Unlock()
	for {
		if len(t.in.q) > 0 {
			p := t.in.q[0]
			t.in.q = t.in.q[1:]
			return p, nil
		}
		if t.in.closed {
			return nil, io.EOF
		}
		t.in.cond.Wait()
	}
}

// Close closes both directions (like closing a socket).
func (t *VerifMemConn) Close() error {
	for _, h := range []*verifPipeHalf{t.in, t.out} {
		h.mu.Lock()
		h.closed = true
		h.cond.Broadcast()
		h.mu.Unlock()
	}
	return nil
}

// Pending is the number of packets written by the other end and not yet read here.
func (t *VerifMemConn) Pending() int {
	t.in.mu.Lock()
	defer t.in.mu.Unlock()
	return len(t.in.q)
}

// WritePacket / ReadPacket are the exported forms used by scripted peers.
func (t *VerifMemConn) WritePacket(p []byte) error  { return t.writePacket(p) }
func (t *VerifMemConn) ReadPacket() ([]byte, error) { return t.readPacket() }

func (t *VerifMemConn) prepareKeyChange(*NegotiatedAlgorithms, *kexResult) error { return nil }
func (t *VerifMemConn) setStrictMode() error                                     { return nil }
func (t *VerifMemConn) setInitialKEXDone()                                       {}

// verifWaitIdle parks the calling harness goroutine until no other goroutine can make
// progress. The instrumenter rewrites calls to it into the scheduler primitive WaitIdle.
func verifWaitIdle() {}

// verifMark tells the explorer that the interesting part of a scenario starts here
// (scenarios explored "from the mark" place scheduling deviations only after it). The
// instrumenter rewrites calls to it into the scheduler primitive Mark.
func verifMark() {}
