// C41: certificate checks decide the OpenSSH validity rules over the signed bytes.
//
//	A  decision grid: type x principals x (valid after, valid before) boundary pairs incl.
//	   2^63 and 2^64-1 x critical options x extensions x authority x signature {good, bad}
//	   x revocation {nil, false, true} x {CheckCert, Authenticate, CheckHostKey}, every
//	   certificate built by the reference encoder, parsed by ParsePublicKey, and decided by
//	   the reference procedure written from PROTOCOL.certkeys; plus clocks 0/1/nil, nil
//	   authority callbacks, plain keys, further signature faults, nonce lengths.
//	B  byte-for-byte round trips: SignCert output (CA type x algorithm x subject key type x
//	   field shapes) equals the reference encoding of the same fields, and
//	   Marshal(ParsePublicKey(b)) == b; the same for certificates issued by ssh-keygen -s.
//	C  the CA signature covers exactly the received bytes: every non-canonical re-encoding
//	   of a valid certificate (option data string("") instead of empty, non-minimal mpints,
//	   unsorted / duplicated options, non-empty reserved, trailing bytes at every nesting
//	   level, ...) x {signature kept, re-signed over the new bytes}: accepted only if the
//	   reference verifies the signature over the received bytes.
//	D  certificates as CA keys are refused (wire and SignCert).
package main

import (
	"bytes"
	"context"
	"crypto/ecdsa"
	"crypto/ed25519"
	"crypto/elliptic"
	"crypto/rand"
	"crypto/rsa"
	"encoding/base64"
	"fmt"
	"net"
	"os"
	"os/exec"
	"path/filepath"
	"reflect"
	"sort"
	"strings"
	"sync"
	"time"

	"golang.org/x/crypto/ssh"
	"verif/checks/c39/detkeys"
	cr "verif/ref/sshcertref"
	kv "verif/ref/sshkeyv1"
	sr "verif/ref/sshsigref"
	"verif/vf"
)

func main() { vf.Main("C41", vf.Exploration, run) }

const (
	princ    = "host.example" // user name and host name under test
	hostAddr = "host.example:22"
)

type connMeta struct{ user string }

func (m connMeta) User() string          { return m.user }
func (m connMeta) SessionID() []byte     { return []byte("session") }
func (m connMeta) ClientVersion() []byte { return []byte("SSH-2.0-c") }
func (m connMeta) ServerVersion() []byte { return []byte("SSH-2.0-s") }
func (m connMeta) RemoteAddr() net.Addr  { return &net.TCPAddr{IP: net.IPv4(10, 1, 2, 3), Port: 4} }
func (m connMeta) LocalAddr() net.Addr   { return &net.TCPAddr{IP: net.IPv4(10, 1, 2, 4), Port: 22} }

// signerKey is a CA (or subject) with reference-side signing.
type signerKey struct {
	name string
	pub  *sr.PubKey
	priv any                                    // standard library private key (nil for sk subjects)
	sign func(format string, tbs []byte) sr.Sig // format "" = default for the key type
	det  bool                                   // signatures are deterministic
}

func edSK(label string) *signerKey {
	p := detkeys.Ed25519(label)
	return &signerKey{name: "ed25519", pub: sr.FromEd25519(p.Public().(ed25519.PublicKey)), priv: p, det: true,
		sign: func(f string, tbs []byte) sr.Sig { return sr.SignEd25519(p, tbs) }}
}
func rsaSK(bits int, label string) *signerKey {
	p := detkeys.RSA(bits, label)
	return &signerKey{name: fmt.Sprintf("rsa%d", bits), pub: sr.FromRSA(&p.PublicKey), priv: p, det: true,
		sign: func(f string, tbs []byte) sr.Sig {
			if f == "" {
				f = sr.RSASHA512
			}
			return sr.SignRSA(p, f, tbs)
		}}
}
func ecSK(cv elliptic.Curve, label string) *signerKey {
	p := detkeys.ECDSA(cv, label)
	return &signerKey{name: "ecdsa" + fmt.Sprint(cv.Params().BitSize), pub: sr.FromECDSA(&p.PublicKey), priv: p,
		sign: func(f string, tbs []byte) sr.Sig { return sr.SignECDSA(rand.Reader, p, tbs) }}
}

type env struct {
	c       *vf.Ctx
	name    string
	ca, ca2 *signerKey // trusted CA, unknown CA (both ed25519)
	subj    *signerKey
}

func (e *env) trusted(blob []byte) bool { return bytes.Equal(blob, e.ca.pub.Blob()) }

func (e *env) checker(now int64, useClock bool, revoked int, supported []string) *ssh.CertChecker {
	ch := &ssh.CertChecker{
		SupportedCriticalOptions: supported,
		IsUserAuthority:          func(a ssh.PublicKey) bool { return e.trusted(a.Marshal()) },
		IsHostAuthority:          func(a ssh.PublicKey, addr string) bool { return addr == hostAddr && e.trusted(a.Marshal()) },
	}
	if useClock {
		ch.Clock = func() time.Time { return time.Unix(now, 0) }
	}
	switch revoked {
	case 1:
		ch.IsRevoked = func(*ssh.Certificate) bool { return false }
	case 2:
		ch.IsRevoked = func(*ssh.Certificate) bool { return true }
	}
	return ch
}

var entries = []string{"CheckCert", "Authenticate", "CheckHostKey"}

// call runs one entry point; perms is set for Authenticate.
func call(ch *ssh.CertChecker, entry int, key ssh.PublicKey) (err error, perms *ssh.Permissions, panicked any) {
	p, v, _ := vf.Protect(func() {
		switch entry {
		case 0:
			if cert, ok := key.(*ssh.Certificate); ok {
				err = ch.CheckCert(princ, cert)
			} else {
				err = fmt.Errorf("not a certificate")
			}
		case 1:
			perms, err = ch.Authenticate(connMeta{princ}, key)
		case 2:
			err = ch.CheckHostKey(hostAddr, &net.TCPAddr{IP: net.IPv4(10, 0, 0, 1), Port: 22}, key)
		}
	})
	if p {
		panicked = v
	}
	return
}

func refCfg(e *env, entry int, now uint64, supported []string, revoked bool) cr.Config {
	cfg := cr.Config{Principal: princ, Now: now, Supported: append([]string{"source-address"}, supported...), Revoked: revoked}
	switch entry {
	case 1:
		cfg.WantType, cfg.CheckCA, cfg.TrustedCA = cr.User, true, e.trusted
	case 2:
		cfg.WantType, cfg.CheckCA, cfg.TrustedCA = cr.Host, true, e.trusted
	}
	return cfg
}

func optMap(opts []cr.Option) map[string]string {
	m := map[string]string{}
	for _, o := range opts {
		v, _ := o.Value()
		m[o.Name] = v
	}
	return m
}

// sameFields compares a parsed ssh.Certificate with the reference view of the same bytes.
func sameFields(g *ssh.Certificate, r *cr.Cert) string {
	switch {
	case g.Type() != r.TypeName:
		return "type name"
	case !bytes.Equal(g.Nonce, r.Nonce):
		return "nonce"
	case !bytes.Equal(g.Key.Marshal(), sr.Cat(sr.Str([]byte(sr.PlainOfCert(r.TypeName))), r.KeyFields)):
		return "certified key"
	case g.Serial != r.Serial:
		return "serial"
	case g.CertType != r.CertType:
		return "type"
	case g.KeyId != r.KeyID:
		return "key id"
	case len(g.ValidPrincipals) != len(r.Principals) || (len(r.Principals) > 0 && !reflect.DeepEqual(g.ValidPrincipals, r.Principals)):
		return "principals"
	case g.ValidAfter != r.ValidAfter || g.ValidBefore != r.ValidBefore:
		return "validity"
	case !reflect.DeepEqual(g.CriticalOptions, optMap(r.Critical)):
		return "critical options"
	case !reflect.DeepEqual(g.Extensions, optMap(r.Extensions)):
		return "extensions"
	case !bytes.Equal(g.Reserved, r.Reserved):
		return "reserved"
	case !bytes.Equal(g.SignatureKey.Marshal(), r.SignatureKey):
		return "signature key"
	}
	s, ok := sr.ParseSig(r.Signature)
	if !ok || g.Signature == nil || g.Signature.Format != s.Format || !bytes.Equal(g.Signature.Blob, s.Blob) || !bytes.Equal(g.Signature.Rest, s.Rest) {
		return "signature"
	}
	return ""
}

var vfStart = time.Now()

func run(c *vf.Ctx) {
	c.Rule("A: type{1,2,0,3} x principals{none,match,other,other+match,''} x (after,before) in {0,now-1,now,now+1,2^63-1,2^63,2^64-1}^2 x critical{none,supported,unsupported,source-address,supported+unsupported} x extensions{none,flag,valued+flag} " +
		"x CA{trusted,unknown} x signature{good,bad} x revocation{nil,false,true} x {CheckCert,Authenticate,CheckHostKey} at clock now for key pairings {ed25519/ed25519 CA, rsa/ecdsa CA} (thorough: also clocks 1 and 2^40 and ecdsa/rsa CA), plus side grids (clock nil/0/1, nil authority callbacks, plain keys, 5 signature faults, nonce lengths); " +
		"B: SignCert with CA{ed25519,rsa default,rsa [rsa-sha2-256],[ssh-rsa],p256,p384,p521, 5 value-class CAs} x subject{rsa,p256,p384,p521,ed25519,sk-ecdsa,sk-ed25519, 13 value classes: point coordinates one/two bytes short, ed25519 public key starting 00/0000, 1039-bit rsa} x 4 field shapes byte-for-byte against the reference encoder, ssh-keygen -s certificates; " +
		"C: every non-canonical re-encoding kind x position of 6 valid base certificates x {signature kept, re-signed} x 3 entry points; D: certificate as CA; " +
		"H (hardening): every evalCert parses a private copy (bytes untouched) and after all decisions the certificate object must marshal as before; one CertChecker per revocation setting decides 144 certificates with identical serial/key id/nonce (type x principal x window x critical x CA x signature) forwards and backwards through the 3 entry points (both key pairings); SignCert on a struct signed before (3 CAs x 3 CAs x 5 subjects x 4 field shapes, struct fresh or from ParsePublicKey) = reference certificate of the new fields; field sizes 255/256/257/65535/65536/65537 [thorough 2^20+-1] for principal count (match first/last/none), key id, extension value, critical option value/name, nonce, reserved, principal name x user/host; security-key CAs (sk-ed25519, sk-ecdsa) x flags {01,05,00,04} x user/host x {intact, changed after signing}: decided when user presence is asserted or the certificate is invalid, and afterwards the CA key object inside the certificate must still refuse a signature without user presence; " +
		"non-trivial = distinct (part, entry point, reference reason or acceptance, boundary classes / re-encoding kind); oracle = reference certificate model (PROTOCOL.certkeys) verifying the CA signature over the received bytes")
	c.Assume("standard library signature primitives are correct; the reference decision uses unsigned 64-bit time comparison as PROTOCOL.certkeys / OpenSSH do (confirmed with ssh-keygen -Y verify for valid-before 2^63 and 2^64-2)")
	c.Assume("security-key CAs are not covered: CheckCert deliberately never enforces user presence on the CA signature (OpenSSH behaviour)")
	c.Assume("acceptance of a non-canonical certificate that IS signed over its received bytes is not decided (only reserved != empty and nonce lengths, which PROTOCOL.certkeys explicitly allows, must be accepted)")

	seed := fmt.Sprint(c.Seed)
	e := &env{c: c, name: "ed25519 subject, ed25519 CA", ca: edSK(seed + "CA"), ca2: edSK(seed + "CA2"), subj: edSK(seed + "subject")}
	partA(e)
	// the same grid with other key types (the signature check is the only type dependent step)
	partA(&env{c: c, name: "rsa subject, ecdsa-p256 CA", ca: ecSK(elliptic.P256(), seed+"CA"), ca2: ecSK(elliptic.P256(), seed+"CA2"), subj: rsaSK(1024, seed+"subject")})
	if c.Thorough {
		partA(&env{c: c, name: "ecdsa-p384 subject, rsa CA", ca: rsaSK(2048, seed+"CA"), ca2: rsaSK(2048, seed+"CA2"), subj: ecSK(elliptic.P384(), seed+"subject")})
	}
	partA2(e)
	partA3(e)
	partB(e, seed)
	partC(e, seed)
	partD(e)
	tH := time.Now()
	c.Set("seconds_before_part_H", time.Since(vfStart).Seconds())
	defer func() { c.Set("seconds_part_H", time.Since(tH).Seconds()) }()
	partH(e, seed)
	hardenCheckerSequences(&env{c: c, name: "rsa subject, ecdsa-p256 CA", ca: ecSK(elliptic.P256(), seed+"CA"), ca2: ecSK(elliptic.P256(), seed+"CA2"), subj: rsaSK(1024, seed+"subject")})
}

// ---- part A: decision grid --------------------------------------------------------------

var (
	supportedOpts = []string{"force-command"}
	critSets      = [][]cr.Option{
		nil,
		{cr.Valued("force-command", "/bin/x")},
		{cr.Flag("verify-required")},
		{cr.Valued("source-address", "10.0.0.0/8")},
		{cr.Valued("force-command", "/bin/x"), cr.Flag("verify-required")},
	}
	critNames = []string{"none", "supported", "unsupported", "source-address", "supported+unsupported"}
	extSets   = [][]cr.Option{nil, {cr.Flag("permit-pty")}, {cr.Valued("foo@example.com", "bar"), cr.Flag("permit-pty")}}
	princSets = [][]string{nil, {princ}, {"other"}, {"other", princ}, {""}}
	princName = []string{"none", "match", "other", "other+match", "empty-string"}
	typeVals  = []uint32{1, 2, 0, 3}
)

func timeVals(now uint64) []uint64 {
	return []uint64{0, now - 1, now, now + 1, 1<<63 - 1, 1 << 63, 1<<64 - 1}
}

var timeName = []string{"0", "now-1", "now", "now+1", "2^63-1", "2^63", "2^64-1"}

type gridCert struct {
	ti, pi, ai, bi, ci, xi, ca, sg int
}

func (e *env) build(g gridCert, now uint64, idx int) (*cr.Cert, []byte) {
	tv := timeVals(now)
	ct := &cr.Cert{TypeName: sr.CertTypeOf(e.subj.pub.Type), Nonce: e.c.Bytes("nonce", idx, 32), KeyFields: e.subj.pub.KeyFields(),
		Serial: uint64(idx), CertType: typeVals[g.ti], KeyID: "grid", Principals: princSets[g.pi], ValidAfter: tv[g.ai], ValidBefore: tv[g.bi],
		Critical: critSets[g.ci], Extensions: extSets[g.xi]}
	ca := e.ca
	if g.ca == 1 {
		ca = e.ca2
	}
	ct.SignWith(ca.pub.Blob(), func(tbs []byte) sr.Sig { return ca.sign("", tbs) })
	if g.sg == 1 {
		ct.Signature = append([]byte{}, ct.Signature...)
		ct.Signature[len(ct.Signature)-7] ^= 0x20 // inside the signature blob
	}
	return ct, ct.Bytes()
}

// rejectClass names a false rejection; the one systematic deviation gets its own class.
func rejectClass(entry string, ct *cr.Cert) string {
	if ct.ValidBefore >= 1<<63 && ct.ValidBefore != cr.Forever {
		return "rejects a certificate whose valid-before lies in [2^63, 2^64-2] as expired although now < valid before (signed comparison of an unsigned field)"
	}
	return entry + " rejects a certificate the reference accepts"
}

func (e *env) evalCert(part string, ct *cr.Cert, b []byte, now uint64, useClock bool, revs []int, ntKey string, canonical bool) {
	c := e.c
	in := append([]byte(nil), b...) // hardening: the parser gets a private copy and must leave it untouched
	key, err := ssh.ParsePublicKey(in)
	c.Eval(1)
	if !bytes.Equal(in, b) {
		c.Violation(part+": ParsePublicKey modifies the bytes it was given", map[string]any{"cert": fmt.Sprintf("%x", b)})
		return
	}
	if err != nil {
		c.Violation(part+": ParsePublicKey rejects a well-formed certificate", map[string]any{"cert": fmt.Sprintf("%x", b), "err": err.Error()})
		return
	}
	gc, ok := key.(*ssh.Certificate)
	if !ok {
		c.Violation(part+": ParsePublicKey does not return *Certificate", fmt.Sprintf("%T", key))
		return
	}
	if canonical {
		if m := gc.Marshal(); !bytes.Equal(m, b) {
			c.Violation(part+": Marshal(ParsePublicKey(b)) != b", map[string]any{"cert": fmt.Sprintf("%x", b), "marshal": fmt.Sprintf("%x", m)})
		}
		if d := sameFields(gc, ct); d != "" {
			c.Violation(part+": parsed certificate field differs from the reference: "+d, map[string]any{"cert": fmt.Sprintf("%x", b)})
		}
	}
	tbs := ct.TBS()
	sigV, sigWhy := cr.VerifySignature(ct, tbs, false)
	m0 := gc.Marshal()
	// hardening: no decision may change the certificate object (or the bytes it aliases)
	defer func() {
		if !bytes.Equal(gc.Marshal(), m0) || !bytes.Equal(in, b) {
			c.Violation("CertChecker modifies the certificate it checks", map[string]any{"part": part, "cert": fmt.Sprintf("%x", b)})
		}
	}()
	for _, rv := range revs {
		ch := e.checker(int64(now), useClock, rv, supportedOpts)
		for en := range entries {
			err, perms, pan := call(ch, en, key)
			c.Eval(1)
			cfg := refCfg(e, en, now, supportedOpts, rv == 2)
			okF, reason := cr.DecideFields(ct, cfg)
			want := okF && sigV != sr.Invalid
			if okF && sigV == sr.Invalid {
				reason = "signature does not verify over the received bytes"
			}
			det := func() map[string]any {
				return map[string]any{"entry": entries[en], "cert": fmt.Sprintf("%x", b), "now": now, "revocation": []string{"nil", "false", "true"}[rv],
					"type": ct.CertType, "principals": ct.Principals, "valid_after": ct.ValidAfter, "valid_before": ct.ValidBefore, "critical": fmt.Sprint(optMap(ct.Critical)),
					"reference": reason + " " + sigWhy, "go_err": fmt.Sprint(err)}
			}
			switch {
			case pan != nil:
				d := det()
				d["panic"] = fmt.Sprint(pan)
				c.Violation(part+": "+entries[en]+" panics", d)
			case err == nil && !want:
				c.Violation(part+": "+entries[en]+" accepts a certificate the reference rejects ["+reason+"]", det())
			case err != nil && want && sigV == sr.Valid:
				c.Violation(rejectClass(entries[en], ct), det())
			case err == nil && en == 1:
				if perms == nil || !reflect.DeepEqual(perms.CriticalOptions, optMap(ct.Critical)) || !reflect.DeepEqual(perms.Extensions, optMap(ct.Extensions)) {
					c.Violation("Authenticate returns permissions that are not the certificate's options", det())
				}
			}
			if want {
				reason = "accept"
			}
			c.Outcome(entries[en] + ": " + reason)
			c.Nontrivial(part + "/" + entries[en] + "/" + reason + "/" + ntKey)
		}
	}
}

func partA(e *env) {
	c := e.c
	nows := []uint64{1_700_000_000}
	if c.Thorough {
		nows = append(nows, 1, 1<<40)
	}
	var grid []gridCert
	for ti := range typeVals {
		for pi := range princSets {
			for ai := 0; ai < 7; ai++ {
				for bi := 0; bi < 7; bi++ {
					for ci := range critSets {
						for xi := range extSets {
							for ca := 0; ca < 2; ca++ {
								for sg := 0; sg < 2; sg++ {
									grid = append(grid, gridCert{ti, pi, ai, bi, ci, xi, ca, sg})
								}
							}
						}
					}
				}
			}
		}
	}
	c.Set("grid_certificates_per_clock_and_key_pairing", len(grid))
	for _, now := range nows {
		now := now
		c.ParallelFor(len(grid), func(i int) {
			g := grid[i]
			ct, b := e.build(g, now, i)
			nt := fmt.Sprintf("%s/%s/%s/%s/%s/ca%d/sig%d", e.name, princName[g.pi], timeName[g.ai], timeName[g.bi], critNames[g.ci], g.ca, g.sg)
			e.evalCert("grid", ct, b, now, true, []int{0, 1, 2}, nt, true)
			if g.ai == 2 && g.bi == 6 && g.ci == 1 && g.pi == 3 && g.sg == 0 && g.ca == 0 && c.WantSample() {
				c.Sample(map[string]any{"part": "A", "type": typeVals[g.ti], "principals": princSets[g.pi], "valid_after": "now", "valid_before": "2^64-1", "critical": critNames[g.ci], "cert_bytes": len(b)})
			}
		})
	}
}

// partA3: the REQUESTED principal varies (user name given by the client, host name dialled),
// including the empty string, against every principal list shape; the decision must be the
// reference's: a non-empty list must contain exactly the requested name.
func partA3(e *env) {
	c := e.c
	reqs := []string{"", princ, "other", "Host.Example", "host"}
	sets := [][]string{nil, {princ}, {"other"}, {""}, {"", princ}, {princ, ""}, {"other", "x"}, {"host"}}
	idx := 0
	for _, ty := range []uint32{cr.User, cr.Host} {
		for si, set := range sets {
			ct := &cr.Cert{TypeName: sr.CertTypeOf(sr.ED25519), Nonce: c.Bytes("nonce3", idx, 32), KeyFields: e.subj.pub.KeyFields(), Serial: 7, CertType: ty,
				KeyID: "req", Principals: set, ValidAfter: 0, ValidBefore: cr.Forever}
			idx++
			ct.SignWith(e.ca.pub.Blob(), func(tbs []byte) sr.Sig { return e.ca.sign("", tbs) })
			key, err := ssh.ParsePublicKey(ct.Bytes())
			if err != nil {
				c.Violation("requested-principal grid: ParsePublicKey rejects a well-formed certificate", err.Error())
				continue
			}
			const now = 1_700_000_000
			ch := e.checker(now, true, 0, supportedOpts)
			ch.IsHostAuthority = func(a ssh.PublicKey, addr string) bool { return e.trusted(a.Marshal()) } // any address: the principal check is the subject here
			for _, req := range reqs {
				for en := range entries {
					var gerr error
					p, v, _ := vf.Protect(func() {
						switch en {
						case 0:
							gerr = ch.CheckCert(req, key.(*ssh.Certificate))
						case 1:
							_, gerr = ch.Authenticate(connMeta{req}, key)
						case 2:
							gerr = ch.CheckHostKey(req+":22", &net.TCPAddr{IP: net.IPv4(10, 0, 0, 1), Port: 22}, key)
						}
					})
					c.Eval(1)
					cfg := refCfg(e, en, now, supportedOpts, false)
					cfg.Principal = req
					want, reason := cr.DecideFields(ct, cfg)
					det := map[string]any{"entry": entries[en], "requested": req, "principals": set, "type": ty, "reference": reason, "go_err": fmt.Sprint(gerr)}
					switch {
					case p:
						det["panic"] = fmt.Sprint(v)
						c.Violation("requested-principal grid: "+entries[en]+" panics", det)
					case gerr == nil && !want:
						c.Violation("requested-principal grid: "+entries[en]+" accepts a certificate for a principal it does not list ["+reason+"]", det)
					case gerr != nil && want:
						c.Violation("requested-principal grid: "+entries[en]+" rejects a certificate the reference accepts", det)
					}
					c.Nontrivial(fmt.Sprintf("A3/%d/%d/%s/%s", ty, si, req, entries[en]))
				}
			}
		}
	}
}

// partA2: side grids.
func partA2(e *env) {
	c := e.c
	base := func(idx int) *cr.Cert {
		return &cr.Cert{TypeName: sr.CertTypeOf(sr.ED25519), Nonce: c.Bytes("nonce2", idx, 32), KeyFields: e.subj.pub.KeyFields(), Serial: 5, CertType: cr.User,
			KeyID: "side", Principals: []string{princ}, ValidAfter: 0, ValidBefore: cr.Forever}
	}
	sign := func(ct *cr.Cert) { ct.SignWith(e.ca.pub.Blob(), func(tbs []byte) sr.Sig { return e.ca.sign("", tbs) }) }
	idx := 0
	// clocks 0 and 1 with every pair of small boundary values, both certificate types
	for _, now := range []uint64{0, 1} {
		vals := []uint64{0, 1, 2, 1 << 63, cr.Forever}
		for _, va := range vals {
			for _, vb := range vals {
				for _, ty := range []uint32{cr.User, cr.Host} {
					ct := base(idx)
					ct.ValidAfter, ct.ValidBefore, ct.CertType = va, vb, ty
					sign(ct)
					e.evalCert("clock near epoch", ct, ct.Bytes(), now, true, []int{0}, fmt.Sprintf("now%d/%d/%d", now, va, vb), true)
					idx++
				}
			}
		}
	}
	// Clock == nil: time.Now is used; only validity windows far away from the real time are tried
	realNow := uint64(time.Now().Unix())
	for _, w := range [][2]uint64{{0, cr.Forever}, {0, 1}, {0, 1_000_000_000}, {1 << 62, cr.Forever}, {1_000_000_000, 1 << 62}, {0, 1<<63 - 1}} {
		for _, ty := range []uint32{cr.User, cr.Host} {
			ct := base(idx)
			ct.ValidAfter, ct.ValidBefore, ct.CertType = w[0], w[1], ty
			sign(ct)
			e.evalCert("nil clock", ct, ct.Bytes(), realNow, false, []int{0}, fmt.Sprintf("%d/%d", w[0], w[1]), true)
			idx++
		}
	}
	// nonce lengths (PROTOCOL.certkeys: arbitrary length)
	for _, n := range []int{0, 1, 16, 31, 33, 64} {
		for _, ty := range []uint32{cr.User, cr.Host} {
			ct := base(idx)
			ct.Nonce, ct.CertType = c.Bytes("noncelen", n, n), ty
			sign(ct)
			e.evalCert("nonce length", ct, ct.Bytes(), 1_700_000_000, true, []int{0}, fmt.Sprint(n), true)
			idx++
		}
	}
	// further signature faults on an otherwise valid certificate
	for _, ty := range []uint32{cr.User, cr.Host} {
		mk := func(name string, mod func(ct *cr.Cert)) {
			ct := base(idx)
			ct.CertType = ty
			sign(ct)
			mod(ct)
			e.evalCert("signature fault: "+name, ct, ct.Bytes(), 1_700_000_000, true, []int{0}, name, true)
			idx++
		}
		mk("signed by another key than the signature key field states", func(ct *cr.Cert) { ct.Signature = e.ca2.sign("", ct.TBS()).Wire() })
		mk("serial changed after signing", func(ct *cr.Cert) { ct.Serial++ })
		mk("principal added after signing", func(ct *cr.Cert) { ct.Principals = append(ct.Principals, "root") })
		mk("valid before changed after signing", func(ct *cr.Cert) { ct.ValidBefore-- })
		mk("extension added after signing", func(ct *cr.Cert) { ct.Extensions = []cr.Option{cr.Flag("permit-pty")} })
		mk("critical option removed after signing (signed with it)", func(ct *cr.Cert) {
			ct.Critical = []cr.Option{cr.Flag("verify-required")}
			sign(ct)
			ct.Critical = nil
		})
		mk("type changed after signing", func(ct *cr.Cert) { ct.CertType = 3 - ct.CertType })
		mk("nonce changed after signing", func(ct *cr.Cert) { ct.Nonce = append([]byte{}, ct.Nonce...); ct.Nonce[0] ^= 1 })
		mk("signature format relabelled", func(ct *cr.Cert) {
			s, _ := sr.ParseSig(ct.Signature)
			s.Format = sr.SKED25519
			ct.Signature = s.Wire()
		})
		mk("signature blob truncated", func(ct *cr.Cert) {
			s, _ := sr.ParseSig(ct.Signature)
			s.Blob = s.Blob[:63]
			ct.Signature = s.Wire()
		})
		mk("signature key replaced by the unknown CA, signature kept", func(ct *cr.Cert) { ct.SignatureKey = e.ca2.pub.Blob() })
	}
	// authority callbacks not set; plain (non-certificate) keys
	ct := base(idx)
	sign(ct)
	key, _ := ssh.ParsePublicKey(ct.Bytes())
	hct := base(idx + 1)
	hct.CertType = cr.Host
	sign(hct)
	hkey, _ := ssh.ParsePublicKey(hct.Bytes())
	bare := &ssh.CertChecker{Clock: func() time.Time { return time.Unix(1_700_000_000, 0) }}
	if _, err := bare.Authenticate(connMeta{princ}, key); err == nil {
		c.Violation("Authenticate accepts a certificate although IsUserAuthority is not set", nil)
	}
	if err := bare.CheckHostKey(hostAddr, &net.TCPAddr{}, hkey); err == nil {
		c.Violation("CheckHostKey accepts a certificate although IsHostAuthority is not set", nil)
	}
	plain, _ := ssh.ParsePublicKey(e.subj.pub.Blob())
	full := e.checker(1_700_000_000, true, 0, supportedOpts)
	if _, err := full.Authenticate(connMeta{princ}, plain); err == nil {
		c.Violation("Authenticate accepts a plain key without UserKeyFallback", nil)
	}
	if err := full.CheckHostKey(hostAddr, &net.TCPAddr{}, plain); err == nil {
		c.Violation("CheckHostKey accepts a plain key without HostKeyFallback", nil)
	}
	for _, allow := range []bool{true, false} {
		allow := allow
		fb := e.checker(1_700_000_000, true, 0, supportedOpts)
		want := &ssh.Permissions{Extensions: map[string]string{"fallback": "yes"}}
		fb.UserKeyFallback = func(conn ssh.ConnMetadata, k ssh.PublicKey) (*ssh.Permissions, error) {
			if allow {
				return want, nil
			}
			return nil, fmt.Errorf("no")
		}
		fb.HostKeyFallback = func(string, net.Addr, ssh.PublicKey) error {
			if allow {
				return nil
			}
			return fmt.Errorf("no")
		}
		p, err := fb.Authenticate(connMeta{princ}, plain)
		if (err == nil) != allow || (allow && p != want) {
			c.Violation("Authenticate does not return the UserKeyFallback result for a plain key", allow)
		}
		if err := fb.CheckHostKey(hostAddr, &net.TCPAddr{}, plain); (err == nil) != allow {
			c.Violation("CheckHostKey does not return the HostKeyFallback result for a plain key", allow)
		}
		// certificates never reach the fallbacks
		bad := base(idx + 2)
		bad.SignWith(e.ca2.pub.Blob(), func(tbs []byte) sr.Sig { return e.ca2.sign("", tbs) })
		bk, _ := ssh.ParsePublicKey(bad.Bytes())
		if _, err := fb.Authenticate(connMeta{princ}, bk); err == nil {
			c.Violation("Authenticate accepts a certificate of an unknown CA when a UserKeyFallback is set", allow)
		}
		c.Eval(3)
	}
	c.Eval(4)
}

// ---- part B: byte-for-byte round trips ---------------------------------------------------

type shape struct {
	name       string
	certType   uint32
	serial     uint64
	keyID      string
	principals []string
	va, vb     uint64
	crit, ext  map[string]string
}

var shapes = []shape{
	{"minimal", cr.User, 0, "", nil, 0, cr.Forever, nil, nil},
	{"typical user", cr.User, 77, "user key", []string{"alice", "bob"}, 1_600_000_000, 1_900_000_000,
		map[string]string{"force-command": "/bin/true", "source-address": "10.0.0.0/8,192.168.0.0/16"},
		map[string]string{"permit-pty": "", "permit-X11-forwarding": "", "foo@example.com": "bar", "no-touch-required": ""}},
	{"host, extreme numbers", cr.Host, 1<<64 - 1, "héßt", []string{"host.example", "", "*.example"}, 1 << 62, 1<<63 - 1,
		map[string]string{"z": "", "a": "1"}, map[string]string{"": "empty name", "b": strings.Repeat("v", 300)}},
	{"empty maps (non-nil)", cr.User, 1, "k", []string{"x"}, 5, 6, map[string]string{}, map[string]string{}},
}

func refOptions(m map[string]string) []cr.Option {
	var names []string
	for k := range m {
		names = append(names, k)
	}
	sort.Strings(names)
	var out []cr.Option
	for _, n := range names {
		if m[n] == "" {
			out = append(out, cr.Flag(n))
		} else {
			out = append(out, cr.Valued(n, m[n]))
		}
	}
	return out
}

type detRand struct{ r *vf.Rand }

func (d detRand) Read(p []byte) (int, error) { return d.r.Read(p) }

// fromClass wraps a boundary value-class key (detkeys.Classes).
func fromClass(ck detkeys.ClassKey) *signerKey {
	switch {
	case ck.RSA != nil:
		p := ck.RSA
		return &signerKey{name: ck.Name, pub: sr.FromRSA(&p.PublicKey), priv: p, det: true, sign: func(f string, tbs []byte) sr.Sig {
			if f == "" {
				f = sr.RSASHA512
			}
			return sr.SignRSA(p, f, tbs)
		}}
	case ck.ECDSA != nil:
		p := ck.ECDSA
		return &signerKey{name: ck.Name, pub: sr.FromECDSA(&p.PublicKey), priv: p, sign: func(f string, tbs []byte) sr.Sig { return sr.SignECDSA(rand.Reader, p, tbs) }}
	}
	p := ck.Ed25519
	return &signerKey{name: ck.Name, pub: sr.FromEd25519(p.Public().(ed25519.PublicKey)), priv: p, det: true, sign: func(f string, tbs []byte) sr.Sig { return sr.SignEd25519(p, tbs) }}
}

// classKeys: value classes used as certified keys and as CA keys (leading zero bytes in
// point coordinates / public keys, RSA modulus without sign pad).
func classKeys(seed string) map[string]*signerKey {
	out := map[string]*signerKey{}
	for _, ck := range detkeys.Classes(seed) {
		out[ck.Name] = fromClass(ck)
	}
	return out
}

var classSubjects = []string{"p256-point-x1", "p256-point-y1", "p256-point-xy1", "p256-point-x2", "p256-point-y2", "p384-point-x1", "p384-point-y2", "p521-point-x1", "p521-point-xy1", "p521-point-x2",
	"ed25519-public-1-zero-byte", "ed25519-public-2-zero-bytes", "rsa1039-n-and-q-unpadded"}

func subjects(seed string) []*signerKey {
	skE := detkeys.ECDSA(elliptic.P256(), seed+"skE")
	skD := detkeys.Ed25519(seed + "skD")
	return []*signerKey{
		rsaSK(1024, seed+"subj"), ecSK(elliptic.P256(), seed+"subj"), ecSK(elliptic.P384(), seed+"subj"), ecSK(elliptic.P521(), seed+"subj"), edSK(seed + "subj2"),
		{name: "sk-ecdsa", pub: sr.FromSKECDSA(&skE.PublicKey, "ssh:")},
		{name: "sk-ed25519", pub: sr.FromSKEd25519(skD.Public().(ed25519.PublicKey), "ssh:app")},
	}
}

func partB(e *env, seed string) {
	c := e.c
	type caCfg struct {
		name   string
		k      *signerKey
		algs   []string // NewSignerWithAlgorithms list (nil = plain signer)
		format string   // expected signature format
	}
	rsaCA := rsaSK(2048, seed+"rsaCA")
	cas := []caCfg{
		{"ed25519", e.ca, nil, sr.ED25519},
		{"rsa (default)", rsaCA, nil, ""}, // unspecified which SHA-2 algorithm; must not be SHA-1
		{"rsa [rsa-sha2-256]", rsaCA, []string{sr.RSASHA256}, sr.RSASHA256},
		{"rsa [ssh-rsa]", rsaCA, []string{sr.RSA}, sr.RSA},
		{"rsa [rsa-sha2-512, ssh-rsa]", rsaCA, []string{sr.RSASHA512, sr.RSA}, sr.RSASHA512},
		{"ecdsa256", ecSK(elliptic.P256(), seed+"ca"), nil, sr.ECDSA256},
		{"ecdsa384", ecSK(elliptic.P384(), seed+"ca"), nil, sr.ECDSA384},
		{"ecdsa521", ecSK(elliptic.P521(), seed+"ca"), nil, sr.ECDSA521},
	}
	subs := subjects(seed)
	nStd := len(subs)
	ck := classKeys(seed)
	for _, n := range classSubjects {
		subs = append(subs, ck[n])
	}
	for _, n := range []string{"p256-point-xy1", "p384-point-x1", "p521-point-y1", "ed25519-public-2-zero-bytes", "rsa1039-n-and-q-unpadded"} {
		f := ck[n].pub.Type
		if f == sr.RSA {
			f = ""
		}
		cas = append(cas, caCfg{"class " + n, ck[n], nil, f})
	}
	type job struct {
		ca  caCfg
		sub *signerKey
		sh  shape
	}
	var jobs []job
	for _, ca := range cas {
		for _, s := range subs {
			for _, sh := range shapes {
				jobs = append(jobs, job{ca, s, sh})
			}
		}
	}
	c.Set("signcert_cases", len(jobs))
	c.ParallelFor(len(jobs), func(i int) {
		j := jobs[i]
		det := map[string]any{"ca": j.ca.name, "subject": j.sub.name, "shape": j.sh.name}
		subjPub, err := ssh.ParsePublicKey(j.sub.pub.Blob())
		if err != nil {
			c.Violation("ParsePublicKey rejects a well-formed subject key", det)
			return
		}
		var auth ssh.Signer
		auth, err = ssh.NewSignerFromKey(j.ca.k.priv)
		if err == nil && j.ca.algs != nil {
			auth, err = ssh.NewSignerWithAlgorithms(auth.(ssh.AlgorithmSigner), j.ca.algs)
		}
		if err != nil {
			c.Violation("cannot build the CA signer", map[string]any{"case": det, "err": err.Error()})
			return
		}
		gc := &ssh.Certificate{Key: subjPub, Serial: j.sh.serial, CertType: j.sh.certType, KeyId: j.sh.keyID, ValidPrincipals: j.sh.principals,
			ValidAfter: j.sh.va, ValidBefore: j.sh.vb, Permissions: ssh.Permissions{CriticalOptions: j.sh.crit, Extensions: j.sh.ext}}
		label := fmt.Sprintf("signcert|%d|%d", c.Seed, i)
		var serr error
		if p, v, _ := vf.Protect(func() { serr = gc.SignCert(detRand{vf.NewRand(label)}, auth) }); p {
			c.Violation("SignCert panics", map[string]any{"case": det, "panic": fmt.Sprint(v)})
			return
		}
		c.Eval(1)
		if serr != nil {
			c.Violation("SignCert fails", map[string]any{"case": det, "err": serr.Error()})
			return
		}
		b := gc.Marshal()
		// the reference encoding of the same fields
		nonce := make([]byte, 32)
		vf.NewRand(label).Read(nonce)
		rc := &cr.Cert{TypeName: sr.CertTypeOf(j.sub.pub.Type), Nonce: nonce, KeyFields: j.sub.pub.KeyFields(), Serial: j.sh.serial, CertType: j.sh.certType,
			KeyID: j.sh.keyID, Principals: j.sh.principals, ValidAfter: j.sh.va, ValidBefore: j.sh.vb, Critical: refOptions(j.sh.crit), Extensions: refOptions(j.sh.ext),
			SignatureKey: j.ca.k.pub.Blob()}
		tbs := rc.TBS()
		if len(b) < len(tbs) || !bytes.Equal(b[:len(tbs)], tbs) {
			det["got"], det["want"] = fmt.Sprintf("%x", b), fmt.Sprintf("%x", tbs)
			c.Violation("SignCert output: signed part differs from the reference encoding of the same fields", det)
			return
		}
		pc, n, perr := cr.Parse(b)
		if perr != nil || n != len(tbs) {
			c.Violation("SignCert output: reference cannot parse the certificate", map[string]any{"case": det, "err": fmt.Sprint(perr)})
			return
		}
		sg, _ := sr.ParseSig(pc.Signature)
		if j.ca.format == "" {
			if sg.Format != sr.RSASHA256 && sg.Format != sr.RSASHA512 {
				c.Violation("SignCert with an unrestricted RSA authority does not use a SHA-2 signature algorithm", map[string]any{"case": det, "format": sg.Format})
			}
			c.Outcome("SignCert default algorithm for an RSA authority: " + sg.Format)
		} else if sg.Format != j.ca.format {
			c.Violation("SignCert uses another signature algorithm than the first of the authority's list", map[string]any{"case": det, "format": sg.Format})
		}
		if v, why := cr.VerifySignature(pc, tbs, false); v != sr.Valid {
			c.Violation("SignCert output: CA signature does not verify over the certificate bytes", map[string]any{"case": det, "why": why})
		}
		if j.ca.k.det {
			rc.Signature = j.ca.k.sign(sg.Format, tbs).Wire()
			if !bytes.Equal(rc.Bytes(), b) {
				c.Violation("SignCert output differs from the reference certificate (deterministic signature)", det)
			}
		}
		// parse and re-marshal
		k2, err := ssh.ParsePublicKey(b)
		c.Eval(1)
		if err != nil {
			c.Violation("ParsePublicKey rejects SignCert output", map[string]any{"case": det, "err": err.Error()})
			return
		}
		g2 := k2.(*ssh.Certificate)
		if !bytes.Equal(g2.Marshal(), b) {
			c.Violation("Marshal(ParsePublicKey(SignCert output)) differs", det)
		}
		if d := sameFields(g2, pc); d != "" {
			c.Violation("parsed SignCert output: field differs from the reference: "+d, det)
		}
		// and the checker accepts it when everything fits
		ch := &ssh.CertChecker{Clock: func() time.Time { return time.Unix(int64(j.sh.va), 0) }, SupportedCriticalOptions: []string{"force-command", "z", "a"}}
		p := "x"
		if len(j.sh.principals) > 0 {
			p = j.sh.principals[0]
		}
		if err := ch.CheckCert(p, g2); err != nil {
			c.Violation("CheckCert rejects a fresh SignCert certificate at its valid-after time", map[string]any{"case": det, "err": err.Error()})
		}
		c.Nontrivial("B/" + j.ca.name + "/" + j.sub.name + "/" + j.sh.name)
		if c.WantSample() && j.sh.name == "typical user" && j.ca.name == "rsa [rsa-sha2-256]" {
			c.Sample(map[string]any{"part": "B", "ca": j.ca.name, "subject": j.sub.name, "shape": j.sh.name, "bytes": len(b), "signature_format": sg.Format})
		}
	})
	if !c.Thorough {
		subs = append(append([]*signerKey{}, subs[:nStd]...), ck["p256-point-xy1"], ck["p521-point-x2"])
	}
	partBKeygen(e, seed, subs)
}

// ssh-keygen -s certificates (additional oracle; skipped when the binary is absent).
func partBKeygen(e *env, seed string, subs []*signerKey) {
	c := e.c
	bin, err := exec.LookPath("ssh-keygen")
	if err != nil || os.Getenv("VERIF_NO_SSH_KEYGEN") != "" {
		c.Set("external_oracle", "absent")
		return
	}
	c.Set("external_oracle", "ssh-keygen present: "+bin)
	work := os.Getenv("VERIF_WORK")
	if work == "" {
		work = "/var/tmp/verif-work"
	}
	os.MkdirAll(work, 0o755)
	dir, err := os.MkdirTemp(work, "c41-keygen-")
	if err != nil {
		return
	}
	defer os.RemoveAll(dir)
	runKG := func(args ...string) error {
		ctx, cancel := context.WithTimeout(context.Background(), 60*time.Second)
		defer cancel()
		cmd := exec.CommandContext(ctx, bin, args...)
		cmd.Env = []string{"HOME=" + dir, "LC_ALL=C", "TZ=UTC", "PATH=/usr/bin:/bin"}
		out, err := cmd.CombinedOutput()
		if err != nil {
			return fmt.Errorf("%v: %s", err, strings.TrimSpace(string(out)))
		}
		return nil
	}
	type caFile struct {
		name string
		k    *signerKey
		path string
		tArg []string
		fmt  string
	}
	mkKey := func(sk *signerKey) *kv.Key {
		switch p := sk.priv.(type) {
		case ed25519.PrivateKey:
			return &kv.Key{Type: sr.ED25519, Ed25519: p}
		case *rsa.PrivateKey:
			return &kv.Key{Type: sr.RSA, RSA: p}
		case *ecdsa.PrivateKey:
			return &kv.Key{Type: sk.pub.Type, ECDSA: p}
		}
		return nil
	}
	rsaCA := rsaSK(2048, seed+"rsaCA")
	var cas []caFile
	for _, x := range []struct {
		n    string
		k    *signerKey
		tArg []string
		f    string
	}{
		{"ed25519", e.ca, nil, sr.ED25519},
		{"rsa-sha2-512", rsaCA, []string{"-t", "rsa-sha2-512"}, sr.RSASHA512},
		{"rsa-sha2-256", rsaCA, []string{"-t", "rsa-sha2-256"}, sr.RSASHA256},
		{"ecdsa256", ecSK(elliptic.P256(), seed+"ca"), nil, sr.ECDSA256},
		{"ecdsa521", ecSK(elliptic.P521(), seed+"ca"), nil, sr.ECDSA521},
	} {
		p := filepath.Join(dir, "ca-"+x.n)
		os.WriteFile(p, kv.Armor(kv.Encode(mkKey(x.k), "ca", 7)), 0o600)
		cas = append(cas, caFile{x.n, x.k, p, x.tArg, x.f})
	}
	type optSet struct {
		name string
		args []string
		host bool
	}
	opts := []optSet{
		{"user defaults", []string{"-I", "id one", "-n", "alice,bob", "-V", "20240101:20300101", "-z", "77"}, false},
		{"user options", []string{"-I", "id2", "-n", "alice", "-V", "always:forever", "-z", "18446744073709551615", "-O", "clear", "-O", "permit-pty", "-O", "force-command=/bin/true",
			"-O", "source-address=10.0.0.0/8", "-O", "no-touch-required", "-O", "verify-required", "-O", "extension:foo@example.com=bar", "-O", "critical:xyz@example.com=v"}, false},
		{"host", []string{"-h", "-I", "host id", "-n", "host.example,*.example", "-V", "always:20380119", "-z", "1"}, true},
		{"no principals", []string{"-I", "", "-V", "19700101000001Z:forever", "-O", "clear"}, false},
	}
	type job struct {
		ca  caFile
		sub *signerKey
		os  optSet
	}
	var jobs []job
	for ci, ca := range cas {
		for si, s := range subs {
			for oi, o := range opts {
				// quick: a latin-square style subset (every CA, every subject, every option set appears several times)
				if !c.Thorough && (ci+si+oi)%4 != 0 {
					continue
				}
				jobs = append(jobs, job{ca, s, o})
			}
		}
	}
	c.Set("ssh_keygen_certificates", len(jobs))
	c.ParallelFor(len(jobs), func(i int) {
		j := jobs[i]
		det := map[string]any{"ca": j.ca.name, "subject": j.sub.name, "options": j.os.name}
		pubPath := filepath.Join(dir, fmt.Sprintf("s%d.pub", i))
		os.WriteFile(pubPath, []byte(j.sub.pub.Type+" "+base64.StdEncoding.EncodeToString(j.sub.pub.Blob())+" subject\n"), 0o644)
		args := append([]string{"-q", "-s", j.ca.path}, j.ca.tArg...)
		args = append(append(args, j.os.args...), pubPath)
		if err := runKG(args...); err != nil {
			c.Outcome("ssh-keygen -s failed: " + j.sub.name + "/" + j.os.name)
			c.Set("ssh_keygen_failure_"+j.sub.name, err.Error())
			return
		}
		certPath := filepath.Join(dir, fmt.Sprintf("s%d-cert.pub", i))
		line, err := os.ReadFile(certPath)
		os.Remove(certPath)
		os.Remove(pubPath)
		if err != nil {
			return
		}
		f := strings.Fields(string(line))
		b, err := base64.StdEncoding.DecodeString(f[1])
		if err != nil {
			return
		}
		rc, n, perr := cr.Parse(b)
		if perr != nil || !bytes.Equal(rc.Bytes(), b) {
			c.Violation("harness: reference model cannot reproduce an ssh-keygen certificate", map[string]any{"case": det, "err": fmt.Sprint(perr)})
			return
		}
		key, err := ssh.ParsePublicKey(b)
		c.Eval(1)
		if err != nil {
			c.Violation("ParsePublicKey rejects a certificate issued by ssh-keygen", map[string]any{"case": det, "err": err.Error(), "cert": f[1]})
			return
		}
		gc := key.(*ssh.Certificate)
		if !bytes.Equal(gc.Marshal(), b) {
			c.Violation("Marshal(ParsePublicKey(b)) != b for a certificate issued by ssh-keygen", map[string]any{"case": det, "cert": f[1]})
		}
		if d := sameFields(gc, rc); d != "" {
			c.Violation("certificate issued by ssh-keygen: parsed field differs from the reference: "+d, det)
		}
		if gc.Type() != f[0] {
			c.Violation("certificate issued by ssh-keygen: Type() differs from the file's type column", det)
		}
		sg, _ := sr.ParseSig(rc.Signature)
		if sg.Format != j.ca.fmt {
			c.Outcome("ssh-keygen used signature format " + sg.Format + " for CA " + j.ca.name)
		}
		// decision at the start of validity, for a listed principal, all its critical options supported
		var sup []string
		for _, o := range rc.Critical {
			sup = append(sup, o.Name)
		}
		p := "anyone"
		if len(rc.Principals) > 0 {
			p = rc.Principals[0]
		}
		now := rc.ValidAfter
		ch := &ssh.CertChecker{Clock: func() time.Time { return time.Unix(int64(now), 0) }, SupportedCriticalOptions: sup}
		cfg := cr.Config{Principal: p, Now: now, Supported: append(sup, "source-address")}
		for _, shift := range []int{0, 1} {
			if shift == 1 {
				if rc.ValidBefore == cr.Forever || rc.ValidBefore >= 1<<63 {
					continue
				}
				now = rc.ValidBefore // first second after expiry
				cfg.Now = now
			}
			err := ch.CheckCert(p, gc)
			d := cr.Decide(rc, b[:n], cfg)
			c.Eval(1)
			if (err == nil) != (d.Verdict == sr.Valid) {
				c.Violation("CheckCert and the reference disagree on a certificate issued by ssh-keygen", map[string]any{"case": det, "now": now, "go": fmt.Sprint(err), "reference": d.Reason})
			}
		}
		c.Nontrivial("B-keygen/" + j.ca.name + "/" + j.sub.name + "/" + j.os.name)
		c.Outcome("ssh-keygen certificate round-trips")
	})
}

// ---- part C: non-canonical re-encodings --------------------------------------------------

type variant struct {
	kind string // class of re-encoding (goes into the violation class)
	pos  string // where
	mod  func(ct *cr.Cert)
	// mustAccept: the re-signed form is explicitly legal per PROTOCOL.certkeys
	mustAccept bool
	// sigOnly: only the signature field changes (the signed bytes stay the same)
	sigOnly bool
}

func nonMinimal(body []byte, n int) []byte { return append(make([]byte, n), body...) }

// rsaFieldsNonMinimal re-encodes "mpint e, mpint n" with leading zero bytes on one of them.
func rsaFieldsNonMinimal(fields []byte, which, zeros int) []byte {
	r := &sr.Reader{B: fields}
	e := r.Str()
	n := r.Str()
	rest := r.B
	if which == 0 {
		e = nonMinimal(e, zeros)
	} else {
		n = nonMinimal(n, zeros)
	}
	return sr.Cat(sr.Str(e), sr.Str(n), rest)
}

func variantsFor(ct *cr.Cert, subjType, caType string) []variant {
	var vs []variant
	add := func(kind, pos string, mod func(ct *cr.Cert)) {
		vs = append(vs, variant{kind: kind, pos: pos, mod: mod})
	}
	cloneOpts := func(o []cr.Option) []cr.Option { return append([]cr.Option{}, o...) }
	emptyStr := sr.Str(nil) // 00 00 00 00: a string("") in the data field
	for i, o := range ct.Extensions {
		i := i
		if len(o.Data) == 0 {
			add("option data encoded as string(\"\") instead of empty", fmt.Sprintf("extension %q", o.Name), func(ct *cr.Cert) {
				ct.Extensions = cloneOpts(ct.Extensions)
				ct.Extensions[i].Data = emptyStr
			})
		} else {
			add("option data with bytes after the embedded string", fmt.Sprintf("extension %q", o.Name), func(ct *cr.Cert) {
				ct.Extensions = cloneOpts(ct.Extensions)
				ct.Extensions[i].Data = append(append([]byte{}, ct.Extensions[i].Data...), 0)
			})
			add("option data not wrapped in a string", fmt.Sprintf("extension %q", o.Name), func(ct *cr.Cert) {
				ct.Extensions = cloneOpts(ct.Extensions)
				v, _ := ct.Extensions[i].Value()
				ct.Extensions[i].Data = []byte(v)
			})
		}
	}
	for i, o := range ct.Critical {
		i := i
		if len(o.Data) == 0 {
			add("option data encoded as string(\"\") instead of empty", fmt.Sprintf("critical option %q", o.Name), func(ct *cr.Cert) {
				ct.Critical = cloneOpts(ct.Critical)
				ct.Critical[i].Data = emptyStr
			})
		} else {
			add("option data with bytes after the embedded string", fmt.Sprintf("critical option %q", o.Name), func(ct *cr.Cert) {
				ct.Critical = cloneOpts(ct.Critical)
				ct.Critical[i].Data = append(append([]byte{}, ct.Critical[i].Data...), 0, 0, 0, 0)
			})
		}
	}
	if len(ct.Extensions) >= 2 {
		add("options not sorted", "extensions: first two swapped", func(ct *cr.Cert) {
			ct.Extensions = cloneOpts(ct.Extensions)
			ct.Extensions[0], ct.Extensions[1] = ct.Extensions[1], ct.Extensions[0]
		})
		add("options not sorted", "extensions reversed", func(ct *cr.Cert) {
			x := cloneOpts(ct.Extensions)
			for i, j := 0, len(x)-1; i < j; i, j = i+1, j-1 {
				x[i], x[j] = x[j], x[i]
			}
			ct.Extensions = x
		})
	}
	if len(ct.Critical) >= 2 {
		add("options not sorted", "critical options: first two swapped", func(ct *cr.Cert) {
			ct.Critical = cloneOpts(ct.Critical)
			ct.Critical[0], ct.Critical[1] = ct.Critical[1], ct.Critical[0]
		})
	}
	for i := range ct.Extensions {
		i := i
		add("duplicated option", fmt.Sprintf("extension %d repeated next to itself", i), func(ct *cr.Cert) {
			x := cloneOpts(ct.Extensions[:i+1])
			x = append(x, ct.Extensions[i])
			ct.Extensions = append(x, ct.Extensions[i+1:]...)
		})
	}
	if len(ct.Extensions) > 0 {
		add("duplicated option", "first extension repeated at the end", func(ct *cr.Cert) {
			ct.Extensions = append(cloneOpts(ct.Extensions), ct.Extensions[0])
		})
	}
	for i := range ct.Critical {
		i := i
		add("duplicated option", fmt.Sprintf("critical option %d repeated next to itself", i), func(ct *cr.Cert) {
			x := cloneOpts(ct.Critical[:i+1])
			x = append(x, ct.Critical[i])
			ct.Critical = append(x, ct.Critical[i+1:]...)
		})
	}
	vs = append(vs, variant{kind: "reserved field not empty", pos: "reserved = 00", mod: func(ct *cr.Cert) { ct.Reserved = []byte{0} }, mustAccept: true})
	vs = append(vs, variant{kind: "reserved field not empty", pos: "reserved = 16 bytes", mod: func(ct *cr.Cert) { ct.Reserved = bytes.Repeat([]byte{0xAB}, 16) }, mustAccept: true})
	// trailing bytes at every nesting level
	for _, tail := range [][]byte{{0}, {0, 0, 0, 0}, {0, 0, 0, 0, 0, 0, 0, 0}} {
		tail := tail
		tn := fmt.Sprintf("%d zero bytes", len(tail))
		add("trailing bytes", "after the signature string: "+tn, func(ct *cr.Cert) { ct.Tail = tail })
		add("trailing bytes", "inside the principals string: "+tn, func(ct *cr.Cert) { ct.PrincipalsRaw = append(cr.EncodeStrings(ct.Principals), tail...) })
		add("trailing bytes", "inside the critical options string: "+tn, func(ct *cr.Cert) { ct.CriticalRaw = append(cr.EncodeOptions(ct.Critical), tail...) })
		add("trailing bytes", "inside the extensions string: "+tn, func(ct *cr.Cert) { ct.ExtensionsRaw = append(cr.EncodeOptions(ct.Extensions), tail...) })
		add("trailing bytes", "inside the signature key string: "+tn, func(ct *cr.Cert) { ct.SignatureKey = append(append([]byte{}, ct.SignatureKey...), tail...) })
		vs = append(vs, variant{kind: "trailing bytes", pos: "inside the signature string: " + tn, sigOnly: true, mod: func(ct *cr.Cert) { ct.Signature = append(append([]byte{}, ct.Signature...), tail...) }})
	}
	if subjType == sr.RSA {
		for _, z := range []int{1, 2} {
			z := z
			add("non-minimal mpint in the certified RSA key", fmt.Sprintf("e with %d leading zero bytes", z), func(ct *cr.Cert) { ct.KeyFields = rsaFieldsNonMinimal(ct.KeyFields, 0, z) })
			add("non-minimal mpint in the certified RSA key", fmt.Sprintf("n with %d extra leading zero bytes", z), func(ct *cr.Cert) { ct.KeyFields = rsaFieldsNonMinimal(ct.KeyFields, 1, z) })
		}
	}
	if caType == sr.RSA {
		for _, z := range []int{1, 3} {
			z := z
			for w, nm := range []string{"e", "n"} {
				w := w
				add("non-minimal mpint in the RSA signature key", fmt.Sprintf("%s with %d extra leading zero bytes", nm, z), func(ct *cr.Cert) {
					r := &sr.Reader{B: ct.SignatureKey}
					name := r.Str()
					ct.SignatureKey = sr.Cat(sr.Str(name), rsaFieldsNonMinimal(r.B, w, z))
				})
			}
		}
		vs = append(vs, variant{kind: "RSA signature blob with a leading zero byte", pos: "signature", sigOnly: true, mod: func(ct *cr.Cert) {
			s, _ := sr.ParseSig(ct.Signature)
			s.Blob = append([]byte{0}, s.Blob...)
			ct.Signature = s.Wire()
		}})
	}
	if strings.HasPrefix(caType, "ecdsa") {
		vs = append(vs, variant{kind: "non-minimal mpint in the ECDSA signature blob", pos: "r", sigOnly: true, mod: func(ct *cr.Cert) {
			s, _ := sr.ParseSig(ct.Signature)
			r := &sr.Reader{B: s.Blob}
			rb := r.Str()
			s.Blob = sr.Cat(sr.Str(nonMinimal(rb, 1)), r.B)
			ct.Signature = s.Wire()
		}})
	}
	if strings.HasPrefix(subjType, "ecdsa") {
		add("compressed point in the certified ECDSA key", "Q", func(ct *cr.Cert) {
			r := &sr.Reader{B: ct.KeyFields}
			id := r.Str()
			q := r.Str()
			w := (len(q) - 1) / 2
			comp := append([]byte{2 + q[len(q)-1]&1}, q[1:1+w]...)
			ct.KeyFields = sr.Cat(sr.Str(id), sr.Str(comp), r.B)
		})
	}
	return vs
}

var (
	cMu    sync.Mutex
	cNotes = map[string]int{} // what happened to each re-encoding kind (evidence only)
)

func noteC(s string) { cMu.Lock(); cNotes[s]++; cMu.Unlock() }

func partC(e *env, seed string) {
	c := e.c
	defer func() { c.Set("reencoding_outcomes", cNotes) }()
	rsaCA := rsaSK(2048, seed+"rsaCA")
	type baseCfg struct {
		name string
		sub  *signerKey
		ca   *signerKey
		ty   uint32
	}
	var bases []baseCfg
	for _, ty := range []uint32{cr.User, cr.Host} {
		bases = append(bases,
			baseCfg{"ed25519 subject, ed25519 CA", e.subj, e.ca, ty},
			baseCfg{"rsa subject, rsa CA", rsaSK(1024, seed+"subj"), rsaCA, ty},
			baseCfg{"p256 subject, p256 CA", ecSK(elliptic.P256(), seed+"subj"), ecSK(elliptic.P256(), seed+"ca"), ty})
	}
	type job struct {
		b  baseCfg
		v  variant
		rs bool // re-signed over the new bytes
	}
	var jobs []job
	for _, b := range bases {
		proto := &cr.Cert{Critical: []cr.Option{cr.Valued("force-command", "/bin/x"), cr.Valued("source-address", "10.0.0.0/8"), cr.Flag("verify-required")},
			Extensions: []cr.Option{cr.Flag("empty@example.com"), cr.Valued("foo@example.com", "bar"), cr.Flag("permit-pty")}}
		for _, v := range variantsFor(proto, b.sub.pub.Type, b.ca.pub.Type) {
			jobs = append(jobs, job{b, v, false})
			if !v.sigOnly {
				jobs = append(jobs, job{b, v, true})
			}
		}
	}
	c.Set("reencoding_cases", len(jobs))
	now := uint64(1_700_000_000)
	supported := []string{"force-command", "verify-required"}
	c.ParallelFor(len(jobs), func(i int) {
		j := jobs[i]
		ct := &cr.Cert{TypeName: sr.CertTypeOf(j.b.sub.pub.Type), Nonce: c.Bytes("nonceC", i, 32), KeyFields: j.b.sub.pub.KeyFields(), Serial: 9, CertType: j.b.ty, KeyID: "base",
			Principals: []string{"other", princ}, ValidAfter: now - 10, ValidBefore: now + 10,
			Critical:   []cr.Option{cr.Valued("force-command", "/bin/x"), cr.Valued("source-address", "10.0.0.0/8"), cr.Flag("verify-required")},
			Extensions: []cr.Option{cr.Flag("empty@example.com"), cr.Valued("foo@example.com", "bar"), cr.Flag("permit-pty")}}
		caBlob := j.b.ca.pub.Blob()
		ct.SignWith(caBlob, func(tbs []byte) sr.Sig { return j.b.ca.sign("", tbs) })
		canonical := ct.Bytes()
		// the unmodified certificate must be accepted (vacuity guard)
		trusted := func(blob []byte) bool { return bytes.Equal(blob, caBlob) }
		mkChecker := func() *ssh.CertChecker {
			return &ssh.CertChecker{SupportedCriticalOptions: supported, Clock: func() time.Time { return time.Unix(int64(now), 0) },
				IsUserAuthority: func(a ssh.PublicKey) bool { return trusted(a.Marshal()) },
				IsHostAuthority: func(a ssh.PublicKey, addr string) bool { return trusted(a.Marshal()) }}
		}
		en := 1
		if j.b.ty == cr.Host {
			en = 2
		}
		if k0, err := ssh.ParsePublicKey(canonical); err != nil {
			c.Violation("re-encoding base certificate rejected by ParsePublicKey", map[string]any{"base": j.b.name, "err": err.Error()})
			return
		} else if err, _, _ := call(mkChecker(), en, k0); err != nil {
			c.Violation("re-encoding base certificate rejected by "+entries[en], map[string]any{"base": j.b.name, "err": err.Error()})
			return
		}
		j.v.mod(ct)
		if j.rs {
			ct.Signature = j.b.ca.sign("", ct.TBS()).Wire()
		}
		b := ct.Bytes()
		tbs := ct.TBS()
		det := map[string]any{"base": j.b.name, "kind": j.v.kind, "where": j.v.pos, "resigned": j.rs, "cert": fmt.Sprintf("%x", b)}
		var key ssh.PublicKey
		var perr error
		if p, v, _ := vf.Protect(func() { key, perr = ssh.ParsePublicKey(b) }); p {
			det["panic"] = fmt.Sprint(v)
			c.Violation("ParsePublicKey panics on a re-encoded certificate", det)
			return
		}
		c.Eval(1)
		mode := map[bool]string{true: "re-signed", false: "signature kept"}[j.rs]
		if perr != nil {
			noteC(j.v.kind + " (" + mode + "): rejected by ParsePublicKey")
			if j.rs && j.v.mustAccept {
				det["err"] = perr.Error()
				c.Violation("rejects a certificate with a legal encoding that is signed over its bytes ["+j.v.kind+"]", det)
			}
			c.Nontrivial("C/" + j.b.name + "/" + j.v.kind + "/" + j.v.pos + "/" + mode)
			return
		}
		gc, isCert := key.(*ssh.Certificate)
		if !isCert {
			c.Violation("ParsePublicKey returns a non-certificate for certificate bytes", det)
			return
		}
		sameBytes := bytes.Equal(gc.Marshal(), b)
		// the reference: parse the RECEIVED bytes (to learn where the signed part ends) and verify over them
		sigV := sr.Invalid
		why := "reference cannot parse the received bytes"
		if rc, n, err := cr.Parse(b); err == nil {
			sigV, why = cr.VerifySignature(rc, b[:n], false)
		} else if len(ct.Tail) == 0 {
			// structure the strict reference parser refuses (e.g. compressed point): use the builder's own view
			sigV, why = cr.VerifySignature(ct, tbs, false)
		}
		accepted := 0
		for _, ent := range []int{0, en} {
			err, _, pan := call(mkChecker(), ent, key)
			c.Eval(1)
			if pan != nil {
				det["panic"] = fmt.Sprint(pan)
				c.Violation(entries[ent]+" panics on a re-encoded certificate", det)
				continue
			}
			if err == nil {
				accepted++
			}
			if err == nil && sigV == sr.Invalid {
				det["reference"] = why
				det["entry"] = entries[ent]
				det["marshal_equals_received"] = sameBytes
				c.Violation("accepts a certificate whose CA signature does not verify over the bytes that were received ["+j.v.kind+"]", det)
			}
			if err != nil && sigV == sr.Valid && j.v.mustAccept {
				det["err"] = err.Error()
				c.Violation("rejects a certificate with a legal encoding that is signed over its bytes ["+j.v.kind+"]", det)
			}
		}
		noteC(fmt.Sprintf("%s (%s): parsed, reference signature %s, accepted by %d of 2 entry points, Marshal()==received: %v", j.v.kind, mode, sigV, accepted, sameBytes))
		c.Nontrivial("C/" + j.b.name + "/" + j.v.kind + "/" + j.v.pos + "/" + mode)
		if c.WantSample() && j.v.kind == "options not sorted" {
			c.Sample(map[string]any{"part": "C", "base": j.b.name, "kind": j.v.kind, "where": j.v.pos, "mode": mode, "parse_error": fmt.Sprint(perr)})
		}
	})
}

// ---- part D: certificates cannot be CA keys ----------------------------------------------

func partD(e *env) {
	c := e.c
	// an intermediate certificate for key "mid", signed by the trusted CA; mid then signs a leaf
	mid := edSK(fmt.Sprint(c.Seed) + "mid")
	midCert := &cr.Cert{TypeName: sr.CertTypeOf(sr.ED25519), Nonce: c.Bytes("nD", 0, 32), KeyFields: mid.pub.KeyFields(), Serial: 1, CertType: cr.User, KeyID: "mid",
		ValidAfter: 0, ValidBefore: cr.Forever}
	midCert.SignWith(e.ca.pub.Blob(), func(tbs []byte) sr.Sig { return e.ca.sign("", tbs) })
	for _, ty := range []uint32{cr.User, cr.Host} {
		leaf := &cr.Cert{TypeName: sr.CertTypeOf(sr.ED25519), Nonce: c.Bytes("nD", 1, 32), KeyFields: e.subj.pub.KeyFields(), Serial: 2, CertType: ty, KeyID: "leaf",
			Principals: []string{princ}, ValidAfter: 0, ValidBefore: cr.Forever}
		leaf.SignWith(midCert.Bytes(), func(tbs []byte) sr.Sig { return mid.sign("", tbs) })
		b := leaf.Bytes()
		var key ssh.PublicKey
		var err error
		if p, v, _ := vf.Protect(func() { key, err = ssh.ParsePublicKey(b) }); p {
			c.Violation("ParsePublicKey panics on a certificate whose signature key is a certificate", fmt.Sprint(v))
			continue
		}
		c.Eval(1)
		if err != nil {
			c.Outcome("certificate-as-CA: rejected by ParsePublicKey")
			c.Nontrivial(fmt.Sprintf("D/wire/%d", ty))
			continue
		}
		// parsed after all: then no entry point may accept it, whatever the authority callback thinks of the intermediate
		ch := e.checker(1_700_000_000, true, 0, nil)
		ch.IsUserAuthority = func(ssh.PublicKey) bool { return true }
		ch.IsHostAuthority = func(ssh.PublicKey, string) bool { return true }
		for en := range entries {
			if err, _, _ := call(ch, en, key); err == nil {
				c.Violation("accepts a certificate signed by a certificate (chained certificates are not supported by PROTOCOL.certkeys)", map[string]any{"entry": entries[en], "cert": fmt.Sprintf("%x", b)})
			}
		}
	}
	// nesting depth: signature key = certificate whose signature key = certificate ... must not exhaust the stack
	inner := midCert.Bytes()
	for d := 0; d < 200; d++ {
		w := &cr.Cert{TypeName: sr.CertTypeOf(sr.ED25519), Nonce: []byte{1}, KeyFields: mid.pub.KeyFields(), CertType: cr.User, ValidBefore: cr.Forever, SignatureKey: inner,
			Signature: sr.Sig{Format: sr.ED25519, Blob: make([]byte, 64)}.Wire()}
		inner = w.Bytes()
	}
	if p, v, _ := vf.Protect(func() { _, _ = ssh.ParsePublicKey(inner) }); p {
		c.Violation("ParsePublicKey panics on deeply nested certificate signature keys", fmt.Sprint(v))
	}
	c.Eval(1)
	// SignCert refuses a certificate signer as authority
	midGo, _ := ssh.NewSignerFromKey(mid.priv)
	mk, _ := ssh.ParsePublicKey(midCert.Bytes())
	cs, err := ssh.NewCertSigner(mk.(*ssh.Certificate), midGo)
	if err != nil {
		c.Violation("NewCertSigner rejects a matching key", err.Error())
		return
	}
	subj, _ := ssh.ParsePublicKey(e.subj.pub.Blob())
	gc := &ssh.Certificate{Key: subj, CertType: ssh.UserCert, ValidBefore: ssh.CertTimeInfinity}
	if err := gc.SignCert(rand.Reader, cs); err == nil {
		c.Violation("SignCert accepts a certificate as authority", nil)
	}
	c.Eval(1)
	c.Nontrivial("D/SignCert")
}
