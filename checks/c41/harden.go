// C41 hardening pass (HARDEN.md): checkers reused over sequences of certificates, certificate
// structs reused for SignCert, long fields, security-key CAs whose key object must keep
// requiring user presence after CheckCert, and (in evalCert) every decision leaves the
// received bytes and the certificate object untouched.
package main

import (
	"bytes"
	"crypto/elliptic"
	"crypto/rand"
	"fmt"
	"reflect"
	"strings"
	"time"

	"golang.org/x/crypto/ssh"
	"verif/checks/c39/detkeys"
	cr "verif/ref/sshcertref"
	sr "verif/ref/sshsigref"
	"verif/vf"

	"crypto/ed25519"
)

func partH(e *env, seed string) {
	hardenCheckerSequences(e)
	hardenResign(e, seed)
	hardenLongFields(e)
	hardenSKCA(e, seed)
}

// hardenCheckerSequences: (B/D) ONE CertChecker per revocation setting decides a sequence of
// 144 certificates that all carry the same serial, key id and nonce and differ in one dimension from
// their neighbours (type, principal, window, critical option, CA, signature), forwards and then
// backwards, through all three entry points; every decision must be the reference decision,
// i.e. what a fresh checker gives.
func hardenCheckerSequences(e *env) {
	c := e.c
	const now = 1_700_000_000
	type item struct {
		ct  *cr.Cert
		b   []byte
		key ssh.PublicKey
		nt  string
	}
	var items []item
	windows := [][2]int{{0, 6}, {3, 6}, {0, 1}} // valid, not yet valid, expired
	idx := 0
	for _, ti := range []int{0, 1} {
		for _, pi := range []int{1, 2} {
			for wi, w := range windows {
				for _, ci := range []int{0, 1, 2} {
					for ca := 0; ca < 2; ca++ {
						for sg := 0; sg < 2; sg++ {
							ct, b := e.build(gridCert{ti, pi, w[0], w[1], ci, 1, ca, sg}, now, 900000+idx)
							// same serial, key id and nonce everywhere: nothing but the signed content tells them apart
							ct.Serial, ct.KeyID, ct.Nonce = 1, "same", bytes.Repeat([]byte{0x5a}, 32)
							signer := e.ca
							if ca == 1 {
								signer = e.ca2
							}
							ct.SignWith(signer.pub.Blob(), func(tbs []byte) sr.Sig { return signer.sign("", tbs) })
							if sg == 1 {
								ct.Signature = append([]byte{}, ct.Signature...)
								ct.Signature[len(ct.Signature)-7] ^= 0x20
							}
							b = ct.Bytes()
							key, err := ssh.ParsePublicKey(append([]byte(nil), b...))
							if err != nil {
								c.Violation("sequence: ParsePublicKey rejects a well-formed certificate", map[string]any{"cert": fmt.Sprintf("%x", b), "err": err.Error()})
								continue
							}
							items = append(items, item{ct, b, key, fmt.Sprintf("t%d/p%d/w%d/c%d/ca%d/sig%d", ti, pi, wi, ci, ca, sg)})
							idx++
						}
					}
				}
			}
		}
	}
	order := make([]int, 0, 2*len(items))
	for i := range items {
		order = append(order, i)
	}
	for i := len(items) - 1; i >= 0; i-- {
		order = append(order, i)
	}
	c.ParallelFor(3, func(rv int) {
		ch := e.checker(now, true, rv, supportedOpts) // lives for the whole sequence
		n := 0
		for step, ii := range order {
			it := items[ii]
			sigV, _ := cr.VerifySignature(it.ct, it.ct.TBS(), false)
			for en := range entries {
				err, _, pan := call(ch, en, it.key)
				n++
				okF, reason := cr.DecideFields(it.ct, refCfg(e, en, now, supportedOpts, rv == 2))
				want := okF && sigV != sr.Invalid
				det := map[string]any{"entry": entries[en], "step": step, "case": it.nt, "revocation": rv, "reference": reason, "go_err": fmt.Sprint(err)}
				switch {
				case pan != nil:
					det["panic"] = fmt.Sprint(pan)
					c.Violation("checker reused over a sequence of certificates: "+entries[en]+" panics", det)
				case err == nil && !want:
					c.Violation("checker reused over a sequence of certificates: "+entries[en]+" accepts a certificate the reference rejects", det)
				case err != nil && want && sigV == sr.Valid:
					c.Violation("checker reused over a sequence of certificates: "+entries[en]+" rejects a certificate the reference accepts", det)
				}
				c.Nontrivial(fmt.Sprintf("H/seq/%s/%s/%d/%v", entries[en], it.nt, rv, step >= len(items)))
			}
			if !bytes.Equal(it.key.Marshal(), it.b) {
				c.Violation("CertChecker modifies the certificate it checks", map[string]any{"case": it.nt, "step": step})
			}
		}
		c.Eval(n)
	})
}

// hardenResign: (B) SignCert on a Certificate struct that already holds nonce, signature key
// and signature from an earlier signing (by another CA), after the caller changed fields; and
// on a struct that came out of ParsePublicKey. The result must be the reference certificate of
// the NEW fields, byte for byte (deterministic CAs) resp. in its signed part with a signature
// that verifies over it.
func hardenResign(e *env, seed string) {
	c := e.c
	rsaCA := rsaSK(2048, seed+"rsaCA")
	ecCA := ecSK(elliptic.P256(), seed+"ca")
	cas := []*signerKey{e.ca, rsaCA, ecCA}
	subs := subjects(seed)[:5]
	type job struct {
		first, second *signerKey
		sub           *signerKey
		s1, s2        shape
		parsed        bool
	}
	var jobs []job
	for _, a := range cas {
		for _, b := range cas {
			for si, sub := range subs {
				for k := range shapes {
					jobs = append(jobs, job{a, b, sub, shapes[k], shapes[(k+1+si)%len(shapes)], (k+si)%2 == 0})
				}
			}
		}
	}
	c.ParallelFor(len(jobs), func(i int) {
		j := jobs[i]
		det := map[string]any{"first_ca": j.first.name, "second_ca": j.second.name, "subject": j.sub.name, "first_shape": j.s1.name, "second_shape": j.s2.name, "struct_from_parser": j.parsed}
		subjPub, err := ssh.ParsePublicKey(j.sub.pub.Blob())
		if err != nil {
			return
		}
		authA, errA := ssh.NewSignerFromKey(j.first.priv)
		authB, errB := ssh.NewSignerFromKey(j.second.priv)
		if errA != nil || errB != nil {
			return
		}
		cpm := func(m map[string]string) map[string]string {
			if m == nil {
				return nil
			}
			o := map[string]string{}
			for k, v := range m {
				o[k] = v
			}
			return o
		}
		gc := &ssh.Certificate{Key: subjPub, Serial: j.s1.serial, CertType: j.s1.certType, KeyId: j.s1.keyID, ValidPrincipals: append([]string(nil), j.s1.principals...),
			ValidAfter: j.s1.va, ValidBefore: j.s1.vb, Permissions: ssh.Permissions{CriticalOptions: cpm(j.s1.crit), Extensions: cpm(j.s1.ext)}}
		if err := gc.SignCert(detRand{vf.NewRand(fmt.Sprintf("resign1|%d|%d", c.Seed, i))}, authA); err != nil {
			c.Violation("SignCert fails", map[string]any{"case": det, "err": err.Error()})
			return
		}
		if j.parsed {
			k, err := ssh.ParsePublicKey(gc.Marshal())
			if err != nil {
				c.Violation("ParsePublicKey rejects SignCert output", map[string]any{"case": det, "err": err.Error()})
				return
			}
			gc = k.(*ssh.Certificate)
		}
		// the caller renews the certificate: new fields, other CA, same struct
		gc.Serial, gc.CertType, gc.KeyId, gc.ValidPrincipals = j.s2.serial, j.s2.certType, j.s2.keyID, append([]string(nil), j.s2.principals...)
		gc.ValidAfter, gc.ValidBefore = j.s2.va, j.s2.vb
		gc.CriticalOptions, gc.Extensions = cpm(j.s2.crit), cpm(j.s2.ext)
		label := fmt.Sprintf("resign2|%d|%d", c.Seed, i)
		var serr error
		if p, v, _ := vf.Protect(func() { serr = gc.SignCert(detRand{vf.NewRand(label)}, authB) }); p || serr != nil {
			c.Violation("SignCert fails on a certificate struct that was signed before", map[string]any{"case": det, "err": fmt.Sprint(v, serr)})
			return
		}
		c.Eval(1)
		b := gc.Marshal()
		nonce := make([]byte, 32)
		vf.NewRand(label).Read(nonce)
		rc := &cr.Cert{TypeName: sr.CertTypeOf(j.sub.pub.Type), Nonce: nonce, KeyFields: j.sub.pub.KeyFields(), Serial: j.s2.serial, CertType: j.s2.certType,
			KeyID: j.s2.keyID, Principals: j.s2.principals, ValidAfter: j.s2.va, ValidBefore: j.s2.vb, Critical: refOptions(j.s2.crit), Extensions: refOptions(j.s2.ext),
			SignatureKey: j.second.pub.Blob()}
		tbs := rc.TBS()
		if len(b) < len(tbs) || !bytes.Equal(b[:len(tbs)], tbs) {
			c.Violation("SignCert on a reused certificate struct: signed part differs from the reference encoding of the new fields", det)
			return
		}
		pc, n, perr := cr.Parse(b)
		if perr != nil || n != len(tbs) {
			c.Violation("SignCert on a reused certificate struct: reference cannot parse the certificate", map[string]any{"case": det, "err": fmt.Sprint(perr)})
			return
		}
		if v, why := cr.VerifySignature(pc, tbs, false); v != sr.Valid {
			c.Violation("SignCert on a reused certificate struct: CA signature does not verify over the certificate bytes", map[string]any{"case": det, "why": why})
			return
		}
		if j.second.det {
			sg, _ := sr.ParseSig(pc.Signature)
			rc.Signature = j.second.sign(sg.Format, tbs).Wire()
			if !bytes.Equal(rc.Bytes(), b) {
				c.Violation("SignCert on a reused certificate struct differs from the reference certificate (deterministic signature)", det)
			}
		}
		ch := &ssh.CertChecker{Clock: func() time.Time { return time.Unix(int64(j.s2.va), 0) }, SupportedCriticalOptions: []string{"force-command", "z", "a"}}
		p := "x"
		if len(j.s2.principals) > 0 {
			p = j.s2.principals[0]
		}
		k2, err := ssh.ParsePublicKey(b)
		if err != nil {
			c.Violation("ParsePublicKey rejects SignCert output", map[string]any{"case": det, "err": err.Error()})
			return
		}
		if err := ch.CheckCert(p, k2.(*ssh.Certificate)); err != nil {
			c.Violation("CheckCert rejects a re-signed certificate at its valid-after time", map[string]any{"case": det, "err": err.Error()})
		}
		c.Nontrivial(fmt.Sprintf("H/resign/%s/%s/%s/%s/%v", j.first.name, j.second.name, j.sub.name, j.s2.name, j.parsed))
	})
}

// hardenLongFields: (C/E) field sizes on both sides of 2^8 and 2^16 (thorough 2^20): number of
// principals (match first / last / absent), key id, one extension value, one critical option
// value, nonce, reserved; reference-built and decided through evalCert (parse, re-marshal byte
// for byte, fields, three entry points), and built by SignCert from the same fields.
func hardenLongFields(e *env) {
	c := e.c
	const now = 1_700_000_000
	sizes := []int{255, 256, 257, 65535, 65536, 65537}
	if c.Thorough {
		sizes = append(sizes, 1<<20-1, 1<<20, 1<<20+1)
	}
	type job struct {
		what string
		n    int
		mod  func(ct *cr.Cert, n int)
	}
	var jobs []job
	add := func(what string, mod func(ct *cr.Cert, n int)) {
		for _, n := range sizes {
			jobs = append(jobs, job{what, n, mod})
		}
	}
	many := func(n int, matchAt int) []string {
		out := make([]string, n)
		for i := range out {
			out[i] = fmt.Sprintf("p%d", i)
		}
		if matchAt >= 0 {
			out[matchAt] = princ
		}
		return out
	}
	add("principals, match last", func(ct *cr.Cert, n int) { ct.Principals = many(n, n-1) })
	add("principals, match first", func(ct *cr.Cert, n int) { ct.Principals = many(n, 0) })
	add("principals, no match", func(ct *cr.Cert, n int) { ct.Principals = many(n, -1) })
	add("key id", func(ct *cr.Cert, n int) { ct.KeyID = strings.Repeat("k", n) })
	add("extension value", func(ct *cr.Cert, n int) {
		ct.Extensions = []cr.Option{cr.Valued("foo@example.com", strings.Repeat("v", n)), cr.Flag("permit-pty")}
	})
	add("supported critical option value", func(ct *cr.Cert, n int) {
		ct.Critical = []cr.Option{cr.Valued("force-command", strings.Repeat("/", n))}
	})
	add("unsupported critical option with long name", func(ct *cr.Cert, n int) { ct.Critical = []cr.Option{cr.Flag(strings.Repeat("u", n))} })
	add("nonce", func(ct *cr.Cert, n int) { ct.Nonce = bytes.Repeat([]byte{7}, n) })
	add("reserved", func(ct *cr.Cert, n int) { ct.Reserved = bytes.Repeat([]byte{9}, n) })
	add("principal name", func(ct *cr.Cert, n int) { ct.Principals = []string{strings.Repeat("x", n), princ} })
	c.ParallelFor(len(jobs), func(i int) {
		j := jobs[i]
		for _, ty := range []uint32{cr.User, cr.Host} {
			ct := &cr.Cert{TypeName: sr.CertTypeOf(e.subj.pub.Type), Nonce: c.Bytes("nonceH", i, 32), KeyFields: e.subj.pub.KeyFields(), Serial: uint64(i), CertType: ty,
				KeyID: "long", Principals: []string{princ}, ValidAfter: 0, ValidBefore: cr.Forever}
			j.mod(ct, j.n)
			ct.SignWith(e.ca.pub.Blob(), func(tbs []byte) sr.Sig { return e.ca.sign("", tbs) })
			if len(ct.Principals) > 256 {
				// OpenSSH itself refuses more than 256 principals (SSHKEY_CERT_MAX_PRINCIPALS); a parser
				// that does the same is not at fault. If it parses, every decision is compared as usual.
				if _, err := ssh.ParsePublicKey(ct.Bytes()); err != nil {
					c.Outcome("certificate with more than 256 principals refused by the parser")
					continue
				}
			}
			e.evalCert("long field: "+j.what, ct, ct.Bytes(), now, true, []int{0}, fmt.Sprintf("%s/%d/%d", j.what, j.n, ty), true)
		}
	})
}

// hardenSKCA: (D/A) certificates signed by a security-key CA. OpenSSH (and CheckCert, through a
// clone of the CA key) does not enforce the user-presence flag on the CA signature. Whatever
// CheckCert decided, the CA key object inside the certificate must afterwards still refuse an
// ordinary signature without user presence: the opt-out must not stick to the shared object.
func hardenSKCA(e *env, seed string) {
	c := e.c
	const now = 1_700_000_000
	edPriv := detkeys.Ed25519(seed + "skCA")
	ecPriv := detkeys.ECDSA(elliptic.P256(), seed+"skCA")
	type skca struct {
		name string
		pub  *sr.PubKey
		sign func(flags byte, data []byte) sr.Sig
	}
	cas := []skca{
		{"sk-ed25519 CA", sr.FromSKEd25519(edPriv.Public().(ed25519.PublicKey), "ssh:"), func(fl byte, d []byte) sr.Sig { return sr.SignSKEd25519(edPriv, "ssh:", fl, 11, d) }},
		{"sk-ecdsa CA", sr.FromSKECDSA(&ecPriv.PublicKey, "ssh:"), func(fl byte, d []byte) sr.Sig { return sr.SignSKECDSA(rand.Reader, ecPriv, "ssh:", fl, 11, d) }},
	}
	idx := 0
	for _, ca := range cas {
		ca := ca
		env2 := &env{c: c, name: e.name + ", " + ca.name, ca: &signerKey{name: ca.name, pub: ca.pub}, ca2: e.ca2, subj: e.subj}
		for _, flags := range []byte{0x01, 0x05, 0x00, 0x04} {
			for _, ty := range []uint32{cr.User, cr.Host} {
				for _, bad := range []bool{false, true} {
					idx++
					ct := &cr.Cert{TypeName: sr.CertTypeOf(e.subj.pub.Type), Nonce: c.Bytes("nonceSK", idx, 32), KeyFields: e.subj.pub.KeyFields(), Serial: uint64(idx), CertType: ty,
						KeyID: "sk ca", Principals: []string{princ}, ValidAfter: 0, ValidBefore: cr.Forever, Extensions: []cr.Option{cr.Flag("permit-pty")}}
					ct.SignWith(ca.pub.Blob(), func(tbs []byte) sr.Sig { return ca.sign(flags, tbs) })
					if bad {
						ct.KeyID = "sk cb" // changed after signing
					}
					b := ct.Bytes()
					nt := fmt.Sprintf("%s/flags%02x/type%d/bad=%v", ca.name, flags, ty, bad)
					key, err := ssh.ParsePublicKey(append([]byte(nil), b...))
					c.Eval(1)
					if err != nil {
						c.Violation("sk CA: ParsePublicKey rejects a well-formed certificate", map[string]any{"case": nt, "err": err.Error()})
						continue
					}
					gc := key.(*ssh.Certificate)
					if flags&1 == 1 || bad {
						// decided like every other certificate (user presence asserted, or invalid anyway)
						env2.evalCert("sk CA", ct, b, now, true, []int{0}, nt, true)
					}
					ch := env2.checker(now, true, 0, supportedOpts)
					for en := range entries {
						err, _, pan := call(ch, en, gc)
						c.Eval(1)
						if pan != nil {
							c.Violation("sk CA: "+entries[en]+" panics", map[string]any{"case": nt, "panic": fmt.Sprint(pan)})
							continue
						}
						if bad && err == nil {
							c.Violation("sk CA: "+entries[en]+" accepts a certificate changed after signing", map[string]any{"case": nt})
						}
						c.Outcome(fmt.Sprintf("sk CA signature, user presence=%v, intact=%v: accepted=%v", flags&1 == 1, !bad, err == nil))
					}
					// the CA key object afterwards
					d := c.Bytes("dataSK", idx, 20)
					for _, obj := range []ssh.PublicKey{gc.SignatureKey} {
						noUP, withUP := ca.sign(flags&^1, d), ca.sign(flags|1, d)
						if err := obj.Verify(d, &ssh.Signature{Format: noUP.Format, Blob: noUP.Blob, Rest: noUP.Rest}); err == nil {
							c.Violation("after CheckCert the CA key object inside the certificate accepts an sk signature without user presence (the opt-out leaked onto the shared object)", map[string]any{"case": nt})
						}
						if err := obj.Verify(d, &ssh.Signature{Format: withUP.Format, Blob: withUP.Blob, Rest: withUP.Rest}); err != nil {
							c.Violation("after CheckCert the CA key object inside the certificate rejects a valid sk signature", map[string]any{"case": nt, "err": err.Error()})
						}
						c.Eval(2)
					}
					if !bytes.Equal(gc.Marshal(), b) || !reflect.DeepEqual(gc.SignatureKey.Marshal(), ca.pub.Blob()) {
						c.Violation("CertChecker modifies the certificate it checks", map[string]any{"case": nt})
					}
					c.Nontrivial("H/skca/" + nt)
				}
			}
		}
	}
}
