// C16: scrypt.Key returns exactly the RFC 7914 key (nil error) or (nil, error); it
// never panics for integer arguments that do not exhaust memory.
//
// The full product N x r x p x keyLen of boundary values (valid, invalid, negative,
// overflow-sized) is enumerated. Tuples whose magnitudes keep every possible
// allocation below 256 MiB run in-process against the RFC 7914 model; all others
// (overflow-sized values) run in a child process of this same binary under an
// address-space limit, so that an implementation that fails to reject them dies in
// the child (and is reported) instead of taking the driver down.
package main

import (
	"bufio"
	"bytes"
	"fmt"
	"math"
	"math/big"
	"os"
	"os/exec"
	"strconv"
	"strings"
	"sync"
	"syscall"
	"time"

	"golang.org/x/crypto/scrypt"
	"verif/ref/scryptref"
	"verif/vf"
)

const memCap = 256 << 20 // bytes; tuples needing more are never executed against the model

func main() {
	if len(os.Args) > 1 && os.Args[1] == "--c16-worker" {
		worker()
		return
	}
	vf.Main("C16", vf.Exploration, run)
}

type tuple struct{ N, r, p, keyLen int }

func (t tuple) String() string {
	return fmt.Sprintf("N=%d r=%d p=%d keyLen=%d", t.N, t.r, t.p, t.keyLen)
}

// describe which parameters RFC 7914 rejects (for violation classes)
func invalidPart(t tuple) string {
	var parts []string
	if t.N <= 1 || t.N&(t.N-1) != 0 {
		parts = append(parts, "N")
	}
	if t.r <= 0 {
		parts = append(parts, "r")
	}
	if t.p <= 0 {
		parts = append(parts, "p")
	}
	if t.r > 0 && t.p > 0 && new(big.Int).Mul(big.NewInt(int64(t.r)), big.NewInt(int64(t.p))).Cmp(big.NewInt(1<<30)) >= 0 {
		parts = append(parts, "r*p>=2^30")
	}
	if t.keyLen <= 0 {
		parts = append(parts, "keyLen<=0")
	}
	if u := unrepresentable(t); u != "" {
		parts = append(parts, u)
	}
	if len(parts) == 0 {
		return "keyLen too large"
	}
	return strings.Join(parts, ",")
}

func run(c *vf.Ctx) {
	c.RaceCompanion("scrypt.Key", "golang.org/x/crypto/scrypt.", "golang.org/x/crypto/pbkdf2.")
	const maxInt = math.MaxInt
	const minInt = math.MinInt
	Ns := []int{minInt, -4, -1, 0, 1, 2, 3, 4, 5, 6, 7, 8, 12, 16, 24, 32, 64, 128, 256, 512, 1024, 2048, 4096, 4097, 1 << 31, 1<<31 + 1, 1 << 62, maxInt}
	rps := []int{minInt, -2, -1, 0, 1, 2, 3, 4, 5, 6, 7, 8, 1 << 30, maxInt / 128, maxInt}
	kls := []int{minInt, -5, -4, -3, -2, -1, 0, 1, 31, 32, 33, 64, 65, 300}
	if c.Thorough {
		Ns = append(Ns, 8192, 16384, 65536, 65537, 1<<16-1)
		rps = append(rps, 9, 15, 16, 17)
		kls = append(kls, 2, 63, 96, 97, 1024, 4097)
	}
	var grid []tuple
	reduced := 0
	for _, n := range Ns {
		for _, r := range rps {
			for _, p := range rps {
				for _, k := range kls {
					// Where a whole scrypt is computed (valid N, r, p) the product is thinned for
					// the expensive N. quick: N in 1024..4096 only with p in {1,2,3,8} and keyLen
					// in {-1,0,1,32,65,300}. thorough: N in 1024..4096 with p in {1,2,3,8,17} and
					// every keyLen; N > 4096 with r in {1,2,8}, p in {1,2}, keyLen in {0,32,65}.
					// Everything else (N < 1024, all invalid r/p/N combinations) is the full product.
					if n >= 1024 && n&(n-1) == 0 && n <= 1<<20 && r >= 1 && r <= 1<<10 && p >= 1 && p <= 1<<10 {
						if n <= 4096 && !c.Thorough {
							if !(p <= 3 || p == 8) || !(k == -1 || k == 0 || k == 1 || k == 32 || k == 65 || k == 300) {
								reduced++
								continue
							}
						}
						if n <= 4096 && c.Thorough && !(p <= 3 || p == 8 || p == 17) {
							reduced++
							continue
						}
						if n > 4096 {
							if !(r == 1 || r == 2 || r == 8) || p > 2 || !(k == 0 || k == 32 || k == 65) {
								reduced++
								continue
							}
						}
					}
					grid = append(grid, tuple{n, r, p, k})
				}
			}
		}
	}
	// the r*p = 2^30 boundary of RFC 7914 (p <= (2^32-1)*32/(128 r)) and int-overflow neighbours
	for _, k := range []int{-1, 0, 1, 32} {
		grid = append(grid,
			tuple{2, 1 << 15, 1 << 15, k}, tuple{2, 1 << 15, 1<<15 - 1, k}, tuple{2, 1 << 29, 2, k}, tuple{2, 1<<30 - 1, 1, k},
			tuple{2, 1, 1<<30 - 1, k}, tuple{2, 1, 1 << 30, k}, tuple{2, 1<<30 + 1, 1, k}, tuple{16, 3, 1<<30/3 + 1, k}, tuple{16, 3, 1 << 30 / 3, k},
			tuple{2, maxInt/256 + 1, 1, k}, tuple{2, maxInt / 256, 1, k}, tuple{1 << 56, 1, 1, k}, tuple{1 << 57, 1, 1, k}, tuple{1 << 40, 7, 1, k})
	}
	fam := overflowFamily()
	grid = append(grid, fam...)
	c.Set("overflow_family_tuples", len(fam))
	c.Rule(fmt.Sprintf("full product N(%d values: minInt,-4..8,12,16,24,32..4096 powers of two,4097,2^31,2^31+1,2^62,maxInt) x r,p(%d values each: minInt,-2..8,2^30,maxInt/128,maxInt) x keyLen(%d values: minInt,-5..0,1,31,32,33,64,65,300) plus %d tuples around r*p=2^30 and the int-overflow guards; quick restricts p to {1,2,3,8} and keyLen to {-1,0,1,32,65,300} where N in 1024..4096 with valid r,p (a whole scrypt is computed there); thorough widens that to p in {1,2,3,8,17} with every keyLen and adds N in {8192,16384,65535,65536,65537} (valid ones with r in {1,2,8}, p in {1,2}, keyLen in {0,32,65}), r,p in {9,15,16,17}, keyLen in {2,63,96,97,1024,4097}; "+
		"every tuple is executed on the real scrypt.Key; non-trivial = distinct RFC-valid tuples compared byte for byte with the RFC 7914 model; "+
		"plus the overflow-product family (%d tuples: N=2^56..2^62 x r=1..256 x p{1,2}; N=2^k with r making N*r or 128*N*r equal 2^63/2^64 and r+-1; r*p and 128*r*p equal to 0, 1, 2, 3, 1024, 2^30-1 modulo 2^64 and 2^63; 256*r wrapping; keyLen{0,1,32}); "+
		"hardening: (C) password lengths and salt lengths 2^k+{-9,-8,-1,0,1,55,56,63,64,65} for k=5..22 and key lengths 2^k+{-1,0,1,31,32,33} for k=8..22 at N=2,r=1,p=1; (A) every call (grid and hardening) hands over password/salt as private copies in sentinel-framed buffers with spare capacity, which must stay intact and are wiped before the comparison, plus password length{0,1,2,3,55,56,63,64,65,119,120,127,128,129} x salt length{0,1,2,3,51,52,59,60,61,64} at (4,2,2,40); (E) r, p, keyLen in {255,256,257}, p, keyLen in {65535,65536,65537}, N in {65536,2^17}, r=4096, p=4099; (D) every history of 3 calls over 4 valid and 4 invalid tuples: own result at every position (also after error returns), earlier keys unchanged; "+
		"RFC-invalid tuples and tuples whose byte counts 128*N*r, 128*r*p, 256*r do not fit an int must give (nil, error); tuples whose magnitudes could allocate more than 256 MiB run in a child process under RLIMIT_AS",
		len(Ns), len(rps), len(kls), 14*4, len(fam)))
	c.Assume("crypto/hmac and crypto/sha256 are correct (PBKDF2 of the model is built on them)")
	c.Assume("RFC-valid tuples whose byte counts fit an int but need more than 256 MiB are executed but not judged (property excludes arguments that exhaust memory); the RFC bound N < 2^(16r) is treated as optional (key compared if one is returned, error accepted)")
	c.Assume("password/salt values come from the value alphabet; they only enter scrypt through PBKDF2-HMAC-SHA256")
	c.Set("grid_tuples", len(grid))
	c.Set("product_tuples_thinned_out", reduced)

	var small, large []int
	unjudged, unjudgedRun := 0, 0
	for i, t := range grid {
		if oversizedValidNrp(t) {
			// N, r, p are acceptable to the RFC but need more than the cap: outside the
			// property whatever keyLen is (the implementation may exhaust memory before it
			// looks at keyLen). A handful is executed in the child and tallied, never judged.
			unjudged++
			if t.r == 1 && t.p == 1 && (t.keyLen == 32 || t.keyLen == 0) || t.N == 2 {
				unjudgedRun++
				large = append(large, i)
			}
			continue
		}
		if scryptref.MemoryNeed(int64(t.N), int64(t.r), int64(t.p), int64(t.keyLen)).Cmp(big64(memCap)) <= 0 {
			small = append(small, i)
		} else {
			large = append(large, i)
		}
	}
	c.Set("oversized_valid_tuples_unjudged", unjudged)
	c.Set("oversized_valid_tuples_executed", unjudgedRun)
	c.Set("tuples_in_process", len(small))
	c.Set("tuples_in_limited_child", len(large))

	shapes := [][2]int{{0, 0}, {1, 1}, {8, 16}, {64, 64}, {65, 200}}
	c.ParallelFor(len(small), func(k int) {
		i := small[k]
		t := grid[i]
		valid := scryptref.ValidParams(int64(t.N), int64(t.r), int64(t.p), int64(t.keyLen))
		sh := shapes[i%len(shapes)]
		pws := c.ValueClasses("scrypt-pw", sh[0], c.V())
		salts := c.ValueClasses("scrypt-salt", sh[1], c.V())
		// one fixed class (cycled) and the seeded classes for valid tuples; invalid
		// tuples never look at the data
		classes := []int{i % 4}
		for v := 4; v < len(pws); v++ {
			classes = append(classes, v)
		}
		if !valid {
			classes = classes[:1]
		} else if !c.Thorough {
			// quick: fixed + one seeded class for N <= 64, one (alternating fixed/seeded) above
			if t.N <= 64 {
				classes = classes[:2]
			} else {
				classes = classes[i%2 : i%2+1]
			}
		} else {
			// thorough: every class for N <= 64, fixed + one seeded up to 512, one above
			switch {
			case t.N <= 64:
			case t.N <= 512:
				classes = classes[:2]
			default:
				classes = classes[i%2 : i%2+1]
			}
		}
		for _, v := range classes {
			pw, salt := pws[v], salts[v]
			judge(c, t, valid, callGuarded(c, t, pw, salt), pw, salt, sh, v)
		}
		if valid {
			c.Nontrivial(t.String())
			if t.N == 4096 && t.r == 8 && t.p == 3 && c.WantSample() {
				c.Sample(map[string]any{"tuple": t.String(), "pwLen": sh[0], "saltLen": sh[1], "classes": len(classes), "compared_with": "RFC 7914 model"})
			}
		} else if t.N == 3 && t.p == 8 && t.r == 8 && c.WantSample() {
			c.Sample(map[string]any{"tuple": t.String(), "expected": "(nil, error)", "invalid": invalidPart(t)})
		}
	})
	hardening(c)
	if !c.Expired() {
		runLimited(c, grid, large)
	}
}

// ---------------------------------------------------------------- hardening pass

// guard returns a private copy of b inside a larger buffer: 8 sentinel bytes in front, 24 sentinel
// bytes of spare capacity behind (reachable through append on the returned slice).
func guard(b []byte) (frame, s []byte) {
	frame = bytes.Repeat([]byte{0xA5}, 8+len(b)+24)
	copy(frame[8:], b)
	return frame, frame[8 : 8+len(b)]
}

func intact(frame, orig []byte) bool {
	for i, v := range frame {
		if i >= 8 && i < 8+len(orig) {
			if v != orig[i-8] {
				return false
			}
		} else if v != 0xA5 {
			return false
		}
	}
	return true
}

// callGuarded runs scrypt.Key on private, sentinel-framed copies of pw and salt, reports writes to
// them, wipes them and returns the outcome.
func callGuarded(c *vf.Ctx, t tuple, pw, salt []byte) outcome {
	fp, gpw := guard(pw)
	fs, gsalt := guard(salt)
	var key []byte
	var err error
	p, val, stack := vf.Protect(func() { key, err = scrypt.Key(gpw, gsalt, t.N, t.r, t.p, t.keyLen) })
	c.Eval(1)
	if !p && (!intact(fp, pw) || !intact(fs, salt)) {
		c.Violation("scrypt.Key writes to the caller's password/salt buffer or its spare capacity",
			map[string]any{"tuple": t.String(), "pwLen": len(pw), "saltLen": len(salt), "password_intact": intact(fp, pw), "salt_intact": intact(fs, salt)})
	}
	for i := range fp {
		fp[i] ^= 0xFF
	}
	for i := range fs {
		fs[i] ^= 0xFF
	}
	return outcome{panicked: p, panicVal: fmt.Sprint(val), stack: stack, key: key, keyNil: key == nil, err: err != nil}
}

func hardening(c *vf.Ctx) {
	type job struct {
		t      tuple
		pl, sl int
	}
	var jobs []job
	// C: long passwords / salts (HMAC key > block is pre-hashed; SHA-256 block and padding
	// boundaries) and long keys (PBKDF2 block counter), smallest cost parameters.
	kmax := 22
	for k := 5; k <= kmax; k++ {
		for _, d := range []int{-9, -8, -1, 0, 1, 55, 56, 63, 64, 65} {
			n := 1<<uint(k) + d
			jobs = append(jobs, job{tuple{2, 1, 1, 32}, n, 16}, job{tuple{2, 1, 1, 33}, 8, n})
		}
	}
	for k := 8; k <= kmax; k++ {
		for _, d := range []int{-1, 0, 1, 31, 32, 33} {
			jobs = append(jobs, job{tuple{2, 1, 1, 1<<uint(k) + d}, 8, 16})
		}
	}
	// A: every (password, salt) length shape 0..3 x 0..3 and the HMAC/SHA-256 boundary lengths
	for _, pl := range []int{0, 1, 2, 3, 55, 56, 63, 64, 65, 119, 120, 127, 128, 129} {
		for _, sl := range []int{0, 1, 2, 3, 51, 52, 59, 60, 61, 64} {
			jobs = append(jobs, job{tuple{4, 2, 2, 40}, pl, sl})
		}
	}
	// E: parameter values on each side of 2^8 and 2^16 (r, p, keyLen, N) with the other costs minimal
	for _, v := range []int{255, 256, 257, 65535, 65536, 65537} {
		jobs = append(jobs, job{tuple{2, 1, v, 32}, 8, 16}, job{tuple{2, 1, 1, v}, 8, 16})
		if v < 1000 {
			jobs = append(jobs, job{tuple{2, v, 1, 32}, 8, 16}, job{tuple{2, v, 2, 65}, 8, 16}, job{tuple{4, 3, v, 65}, 8, 16})
		}
	}
	jobs = append(jobs, job{tuple{65536, 1, 1, 32}, 8, 16}, job{tuple{1 << 17, 1, 2, 64}, 8, 16}, job{tuple{2, 4096, 1, 32}, 8, 16}, job{tuple{2, 1, 4099, 32}, 8, 16})
	maxLen := 1<<uint(kmax) + 100
	pwSrc := vf.DetBytes(fmt.Sprintf("%d|scrypt-long-pw", c.Seed), maxLen)
	saltSrc := vf.DetBytes(fmt.Sprintf("%d|scrypt-long-salt", c.Seed), maxLen)
	c.ParallelFor(len(jobs), func(i int) {
		j := jobs[i]
		pw, salt := pwSrc[:j.pl], saltSrc[:j.sl]
		o := callGuarded(c, j.t, pw, salt)
		judge(c, j.t, true, o, pw, salt, [2]int{j.pl, j.sl}, -2)
		c.Nontrivial(fmt.Sprintf("%s pw=%d salt=%d", j.t, j.pl, j.sl))
	})
	c.Set("hardening_jobs", len(jobs))

	// D: call histories. Every sequence of 3 calls over an alphabet of valid and invalid tuples:
	// the result at every position is the one the call gives on its own (model key or (nil, error)),
	// also after an error return, and keys returned earlier do not change afterwards.
	alpha := []tuple{{16, 2, 2, 48}, {2, 1, 1, 32}, {64, 1, 3, 20}, {8, 3, 1, 65}, {3, 1, 1, 32}, {16, 0, 1, 32}, {16, 1, 1 << 30, 32}, {16, 1, 1, 0}}
	hpw, hsalt := c.Bytes("scrypt-hist-pw", 0, 9), c.Bytes("scrypt-hist-salt", 0, 17)
	want := make([][]byte, len(alpha))
	for i, t := range alpha {
		if scryptref.ValidParams(int64(t.N), int64(t.r), int64(t.p), int64(t.keyLen)) {
			want[i] = scryptref.Key(hpw, hsalt, t.N, t.r, t.p, t.keyLen)
		}
	}
	n := len(alpha)
	c.ParallelFor(n*n*n, func(h int) {
		seq := []int{h / (n * n), h / n % n, h % n}
		var outs, saved [][]byte
		for pos, k := range seq {
			t := alpha[k]
			o := callGuarded(c, t, hpw, hsalt)
			d := map[string]any{"history": fmt.Sprint(alpha[seq[0]], " ; ", alpha[seq[1]], " ; ", alpha[seq[2]]), "position": pos}
			switch {
			case o.panicked:
				d["panic"] = o.panicVal
				c.Violation("scrypt.Key panics in a call history", d)
			case want[k] == nil && (!o.err || !o.keyNil):
				c.Violation("scrypt.Key accepts invalid parameters at a later position of a call history", d)
			case want[k] != nil && (o.err || !bytes.Equal(o.key, want[k])):
				d["got"], d["want"] = vf.Hex8(o.key), vf.Hex8(want[k])
				c.Violation("scrypt.Key result depends on earlier calls (!= RFC 7914 model at a later position of a call history)", d)
			}
			outs, saved = append(outs, o.key), append(saved, append([]byte(nil), o.key...))
			for q := 0; q < pos; q++ {
				if !bytes.Equal(outs[q], saved[q]) {
					d["earlier_position"] = q
					c.Violation("scrypt.Key: a key returned earlier changes when a later call runs", d)
				}
			}
		}
		c.Nontrivial(fmt.Sprintf("hist/%v", seq))
	})
	c.Outcome("call histories checked")
}

func big64(v int64) *big.Int { return big.NewInt(v) }

// unrepresentable names the first byte count of the algorithm (V = 128*N*r, B = 128*r*p,
// work area = 256*r), computed in unbounded integers, that does not fit the platform
// int. Such arguments cannot even be passed to make(); the only acceptable answer is
// (nil, error) - a panic or an allocation can only come from wrapped arithmetic, not
// from memory exhaustion. "" when N, r or p is not positive or everything fits.
func unrepresentable(t tuple) string {
	if t.N <= 0 || t.r <= 0 || t.p <= 0 {
		return ""
	}
	max := big64(math.MaxInt)
	N, r, p := big64(int64(t.N)), big64(int64(t.r)), big64(int64(t.p))
	mul := func(k int64, a, b *big.Int) *big.Int { return new(big.Int).Mul(big64(k), new(big.Int).Mul(a, b)) }
	switch {
	case mul(128, N, r).Cmp(max) > 0:
		return "128*N*r>maxInt"
	case mul(128, r, p).Cmp(max) > 0:
		return "128*r*p>maxInt"
	case mul(256, r, big64(1)).Cmp(max) > 0:
		return "256*r>maxInt"
	}
	return ""
}

// inv64 is the inverse of odd a modulo 2^64 (Newton iteration).
func inv64(a uint64) uint64 {
	x := a
	for i := 0; i < 6; i++ {
		x *= 2 - a*x
	}
	return x
}

// overflowFamily: arguments whose products wrap modulo 2^64 or 2^63 to 0, to 1 or to a
// small positive value when computed in machine integers. Every one of them is either
// RFC-invalid or unrepresentable, so every one must be rejected with (nil, error).
func overflowFamily() []tuple {
	var out []tuple
	seen := map[tuple]bool{}
	add := func(n, r, p uint64) {
		if n == 0 || r == 0 || p == 0 || n > math.MaxInt || r > math.MaxInt || p > math.MaxInt {
			return
		}
		for _, k := range []int{0, 1, 32} {
			t := tuple{int(n), int(r), int(p), k}
			if !seen[t] {
				seen[t] = true
				out = append(out, t)
			}
		}
	}
	// N = 2^56..2^62 x r = 1..256 (powers of two) x p in {1,2}: N*r from 2^56 to 2^70,
	// 128*N*r from 2^63 to 2^77 - wraps to 0 modulo 2^64 and 2^63, or to minInt
	for k := uint(56); k <= 62; k++ {
		for _, r := range []uint64{1, 2, 4, 8, 16, 32, 64, 128, 256} {
			for _, p := range []uint64{1, 2} {
				add(1<<k, r, p)
			}
		}
	}
	// smaller N with the r that makes N*r or 128*N*r exactly 2^63 / 2^64, and its
	// neighbours r+1, r-1 (wrapped value N resp. 128*N: small relative to 2^64)
	for k := uint(1); k <= 55; k++ {
		for _, e := range []uint{56, 57, 63, 64} { // N*r = 2^e
			if e <= k || e-k > 62 {
				continue
			}
			r := uint64(1) << (e - k)
			for _, p := range []uint64{1, 2} {
				add(1<<k, r, p)
				add(1<<k, r+1, p)
				add(1<<k, r-1, p)
			}
		}
	}
	// r*p (and 128*r*p) wrapping: powers of two ...
	for _, e := range []uint{56, 57, 63, 64} {
		for a := uint(1); a < e && a <= 62; a++ {
			if e-a > 62 || (a != 1 && a != 20 && a != 31 && a != 32 && a != e-2 && a != e-1 && a != 62) {
				continue
			}
			add(2, 1<<a, 1<<(e-a))
			add(1024, 1<<a, 1<<(e-a))
		}
	}
	// ... and r*p = s modulo 2^64 / 2^63 for s in {1,2,3,1024,2^30-1}: p = r^-1 * s
	for _, r := range []uint64{3, 5, 7, 9, 11, 13, 255} {
		for _, s := range []uint64{1, 2, 3, 1024, 1<<30 - 1} {
			p64 := inv64(r) * s
			add(2, r, p64)
			add(16, r, p64)
			add(2, r, p64&(1<<63-1)) // modulo 2^63
			add(16, r, p64&(1<<63-1))
		}
	}
	// 256*r and 64*r wrapping (work area), p = 1
	for _, a := range []uint{55, 56, 57, 58, 62} {
		add(2, 1<<a, 1)
		add(2, 1<<a+1, 1)
	}
	return out
}

// oversizedValidNrp: N, r, p alone satisfy RFC 7914 but V, B and the work area need
// more than memCap.
func oversizedValidNrp(t tuple) bool {
	return unrepresentable(t) == "" && scryptref.ValidParams(int64(t.N), int64(t.r), int64(t.p), 1) &&
		scryptref.MemoryNeed(int64(t.N), int64(t.r), int64(t.p), 0).Cmp(big64(memCap)) > 0
}

type outcome struct {
	panicked bool
	panicVal string
	stack    string
	key      []byte
	keyNil   bool
	err      bool
	died     string // child process died while evaluating (stderr tail)
}

func judge(c *vf.Ctx, t tuple, valid bool, o outcome, pw, salt []byte, sh [2]int, class int) {
	d := map[string]any{"N": t.N, "r": t.r, "p": t.p, "keyLen": t.keyLen, "pwLen": sh[0], "saltLen": sh[1], "class": class}
	if o.panicked {
		d["panic"] = o.panicVal
		d["stack"] = firstLines(o.stack, 14)
	}
	if o.died != "" {
		d["child_died"] = o.died
	}
	if !valid {
		inv := invalidPart(t)
		switch {
		case o.panicked:
			c.Outcome("invalid: panic")
			if inv == "keyLen<=0" {
				// N, r, p acceptable; only the key length is not
				if strings.Contains(o.stack, "pbkdf2.Key") {
					c.Violation("scrypt.Key(keyLen<=0, valid N r p) panics in pbkdf2.Key instead of returning an error", d)
				} else {
					c.Violation("scrypt.Key(keyLen<=0, valid N r p) panics outside pbkdf2.Key", d)
				}
			} else {
				c.Violation("scrypt.Key panics for invalid "+inv, d)
			}
		case o.died != "":
			c.Outcome("invalid: child died")
			c.Violation("scrypt.Key does not reject invalid "+inv+" before allocating (process died)", d)
		case !o.err:
			c.Outcome("invalid: key returned")
			c.Violation("scrypt.Key returns no error for invalid "+inv, d)
		case !o.keyNil:
			c.Outcome("invalid: error with non-nil slice")
			c.Violation("scrypt.Key returns a non-nil slice together with an error", d)
		default:
			c.Outcome("invalid: (nil, error)")
		}
		return
	}
	// RFC-valid, executable
	optional := !scryptref.NBoundOK(int64(t.N), int64(t.r))
	switch {
	case o.panicked:
		c.Outcome("valid: panic")
		c.Violation("scrypt.Key panics for valid parameters", d)
	case o.err:
		if optional {
			c.Outcome("valid except N >= 2^(16r): error")
			return
		}
		c.Outcome("valid: error")
		if !o.keyNil {
			c.Violation("scrypt.Key returns a non-nil slice together with an error", d)
		}
		c.Violation("scrypt.Key rejects valid parameters", d)
	default:
		want := scryptref.Key(pw, salt, t.N, t.r, t.p, t.keyLen)
		if len(o.key) != t.keyLen {
			d["got_len"] = len(o.key)
			c.Violation("scrypt.Key returns a key of the wrong length", d)
		} else if !bytes.Equal(o.key, want) {
			d["got"], d["want"] = vf.Hex8(o.key), vf.Hex8(want)
			cls := "scrypt.Key != RFC 7914 model"
			if class == -2 { // hardening grid: name the dimension
				switch {
				case sh[0] > 200 || sh[1] > 200:
					cls += " [long password/salt]"
				case t.keyLen > 4097:
					cls += " [long key]"
				case t.r >= 255 || t.p >= 255 || t.N >= 65536:
					cls += " [N, r or p around 2^8 / 2^16]"
				default:
					cls += " [password/salt length shapes]"
				}
			}
			c.Violation(cls, d)
		}
		c.Outcome("valid: key")
	}
}

func firstLines(s string, n int) string {
	l := strings.Split(s, "\n")
	if len(l) > n {
		l = l[:n]
	}
	return strings.Join(l, "\n")
}

// ---------------------------------------------------------------- limited child

// worker: reads "idx N r p keyLen" lines, answers "B idx" before and "E idx outcome"
// after each call. Runs under a 3 GiB address-space limit.
func worker() {
	lim := syscall.Rlimit{Cur: 3 << 30, Max: 3 << 30}
	if err := syscall.Setrlimit(syscall.RLIMIT_AS, &lim); err != nil {
		fmt.Println("X setrlimit failed:", err)
		os.Exit(3)
	}
	in := bufio.NewScanner(os.Stdin)
	out := bufio.NewWriter(os.Stdout)
	pw, salt := []byte("password"), []byte("NaCl")
	for in.Scan() {
		f := strings.Fields(in.Text())
		if len(f) != 5 {
			continue
		}
		var v [5]int
		for i := range f {
			v[i], _ = strconv.Atoi(f[i])
		}
		fmt.Fprintf(out, "B %d\n", v[0])
		out.Flush()
		var key []byte
		var err error
		p, val, stack := vf.Protect(func() { key, err = scrypt.Key(pw, salt, v[1], v[2], v[3], v[4]) })
		switch {
		case p:
			inPbkdf2 := 0
			if strings.Contains(stack, "pbkdf2.Key") {
				inPbkdf2 = 1
			}
			fmt.Fprintf(out, "E %d panic %d %s\n", v[0], inPbkdf2, strings.ReplaceAll(fmt.Sprint(val), "\n", " "))
		case err != nil && key == nil:
			fmt.Fprintf(out, "E %d err\n", v[0])
		case err != nil:
			fmt.Fprintf(out, "E %d errkey\n", v[0])
		default:
			fmt.Fprintf(out, "E %d key %d\n", v[0], len(key))
		}
		out.Flush()
	}
}

func runLimited(c *vf.Ctx, grid []tuple, idx []int) {
	exe, err := os.Executable()
	if err != nil {
		c.Capped("cannot locate own executable for the limited child: " + err.Error())
		return
	}
	pos := 0
	deaths := 0
	for pos < len(idx) {
		if c.Expired() {
			return
		}
		if deaths > 200 {
			c.Capped("limited child died more than 200 times; remaining overflow-sized tuples not executed")
			return
		}
		cmd := exec.Command(exe, "--c16-worker")
		cmd.Env = append(os.Environ(), "GOMAXPROCS=2", "GOTRACEBACK=none")
		var stderr bytes.Buffer
		cmd.Stderr = &stderr
		stdin, _ := cmd.StdinPipe()
		stdout, _ := cmd.StdoutPipe()
		if err := cmd.Start(); err != nil {
			c.Capped("cannot start limited child: " + err.Error())
			return
		}
		batch := idx[pos:]
		go func() {
			w := bufio.NewWriter(stdin)
			for _, i := range batch {
				t := grid[i]
				fmt.Fprintf(w, "%d %d %d %d %d\n", i, t.N, t.r, t.p, t.keyLen)
			}
			w.Flush()
			stdin.Close()
		}()
		// budget watchdog (not an oracle): a child still running when the budget ends is killed
		done := make(chan struct{})
		var killed bool
		var kmu sync.Mutex
		go func() {
			for {
				select {
				case <-done:
					return
				case <-time.After(500 * time.Millisecond):
					if c.Expired() {
						kmu.Lock()
						killed = true
						kmu.Unlock()
						cmd.Process.Kill()
						return
					}
				}
			}
		}()
		sc := bufio.NewScanner(stdout)
		begun := -1
		for sc.Scan() {
			f := strings.SplitN(sc.Text(), " ", 4)
			if len(f) < 2 {
				continue
			}
			if f[0] == "X" {
				c.Capped("limited child: " + sc.Text())
				continue
			}
			i, _ := strconv.Atoi(f[1])
			if f[0] == "B" {
				begun = i
				continue
			}
			// E idx kind ...
			begun = -1
			pos++
			o := outcome{keyNil: true}
			switch f[2] {
			case "err":
				o.err = true
			case "errkey":
				o.err, o.keyNil = true, false
			case "key":
				o.keyNil = false
			case "panic":
				o.panicked = true
				rest := strings.SplitN(f[3], " ", 2)
				if rest[0] == "1" {
					o.stack = "pbkdf2.Key"
				}
				if len(rest) > 1 {
					o.panicVal = rest[1]
				}
			}
			judgeLimited(c, grid[i], o)
		}
		cmd.Wait()
		close(done)
		kmu.Lock()
		k := killed
		kmu.Unlock()
		if k {
			return
		}
		if begun >= 0 {
			// died inside the call for tuple `begun`
			deaths++
			pos++
			msg := strings.TrimSpace(stderr.String())
			if len(msg) > 200 {
				msg = msg[:200]
			}
			if msg == "" {
				msg = cmd.ProcessState.String()
			}
			judgeLimited(c, grid[begun], outcome{died: msg, keyNil: true})
		} else if pos < len(idx) && cmd.ProcessState != nil && !cmd.ProcessState.Success() {
			c.Capped("limited child exited unexpectedly: " + cmd.ProcessState.String() + " " + strings.TrimSpace(stderr.String()))
			return
		}
	}
}

func judgeLimited(c *vf.Ctx, t tuple, o outcome) {
	c.Eval(1)
	valid := scryptref.ValidParams(int64(t.N), int64(t.r), int64(t.p), int64(t.keyLen))
	if (!valid || unrepresentable(t) != "") && !oversizedValidNrp(t) {
		judge(c, t, false, o, nil, nil, [2]int{8, 4}, -1)
		if t.r == 1<<30 && t.p == 1 && t.N == 2 && c.WantSample() {
			c.Sample(map[string]any{"tuple": t.String(), "where": "child under RLIMIT_AS", "expected": "(nil, error)", "invalid": invalidPart(t)})
		}
		return
	}
	// RFC-valid but needing more than the cap: outside the property ("arguments that
	// do not exhaust memory"); executed and tallied only.
	switch {
	case o.died != "":
		c.Outcome("oversized valid: memory exhausted (not judged)")
	case o.panicked:
		c.Outcome("oversized valid: panic (not judged)")
	case o.err:
		c.Outcome("oversized valid: error")
	default:
		c.Outcome("oversized valid: returned (not judged)")
	}
}
