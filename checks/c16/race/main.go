package main

import (
	"bytes"
	"fmt"
	"golang.org/x/crypto/scrypt"
	"sync"
)

func compute(g, i int) [][]byte {
	pw, salt := []byte(fmt.Sprint("pw", g, i)), []byte(fmt.Sprint("salt", i, g))
	k1, _ := scrypt.Key(pw, salt, 16, 1+i%3, 1+g%2, 33+i)
	k2, _ := scrypt.Key(pw, salt, 2, 3, 2, 64)
	return [][]byte{k1, k2}
}

func main() {
	const G, N = 4, 12
	want := make([][][][]byte, G)
	for g := 0; g < G; g++ {
		for i := 0; i < N; i++ {
			want[g] = append(want[g], compute(g, i))
		}
	}
	var wg sync.WaitGroup
	var mu sync.Mutex
	bad := ""
	for g := 0; g < G; g++ {
		wg.Add(1)
		go func(g int) {
			defer wg.Done()
			for i := 0; i < N; i++ {
				got := compute(g, i)
				for k := range got {
					if !bytes.Equal(got[k], want[g][i][k]) {
						mu.Lock()
						if bad == "" {
							bad = fmt.Sprintf("goroutine %d call %d result %d differs from the same call made alone", g, i, k)
						}
						mu.Unlock()
						return
					}
				}
			}
		}(g)
	}
	wg.Wait()
	if bad != "" {
		fmt.Println("COMPANION-MISMATCH:", bad)
	}
	fmt.Println("race companion: rounds completed:", 1)
}
