package main

// Concurrent use of one Client (its nonce pool is guarded by a mutex; the package documents
// Client as safe for concurrent use): with package acme instrumented, 2-3 goroutines issue
// signed requests at the same time against the synchronous in-process model CA. Every
// schedule with <= 2 deviations is run; every signed request the CA receives must carry a
// nonce the CA issued and that was not presented before, and a caller whose exchanges were all
// answered normally must get no error. Retries are switched off (RetryBackoff returns 0), so
// that a request without a fresh nonce surfaces instead of being papered over by a retry,
// and no real-time timer is involved.

import (
	"context"
	"fmt"
	"net/http"
	"time"

	"golang.org/x/crypto/acme"
	"verif/ref/acmesrv"
	"verif/sched"
	"verif/schedx"
	"verif/vf"
)

type nonceObs struct {
	Bad      []string // signed requests without a fresh, server-issued nonce
	Errs     []string // per caller
	Posts    int
	Heads    int
	Problems int // error replies sent by the CA
}

type nonceScenario struct {
	name     string
	callers  int
	perCall  int   // requests per caller
	warm     []int // answers to the warm-up POSTs: 0 = normal, 1 = reply without Replay-Nonce
	badNonce int   // the k-th concurrent POST (1-based) is answered with badNonce (0: none)
	noNonce  int   // the k-th concurrent POST is answered without Replay-Nonce (0: none)
}

func runNonceScenario(w *world, sc nonceScenario) *nonceObs {
	srv := acmesrv.New("https://ca.test")
	srv.Horizon = 200
	srv.Accounts[srv.AcctURL()] = &w.key.PublicKey
	phase, posts := 0, 0
	warmIdx := 0
	srv.Decide = func(x *acmesrv.Exchange) acmesrv.Answer {
		if x.Method != "POST" {
			return acmesrv.Default
		}
		if phase == 0 {
			a := acmesrv.Default
			if warmIdx < len(sc.warm) && sc.warm[warmIdx] == 1 {
				a = acmesrv.OKNoNonce
			}
			warmIdx++
			return a
		}
		posts++
		switch {
		case posts == sc.badNonce:
			return acmesrv.BadNonceFresh
		case posts == sc.noNonce:
			return acmesrv.OKNoNonce
		}
		return acmesrv.Default
	}
	cl := &acme.Client{Key: w.key, HTTPClient: &http.Client{Transport: srv}, DirectoryURL: srv.DirURL(), KID: acme.KeyID(srv.AcctURL())}
	cl.RetryBackoff = func(int, *http.Request, *http.Response) time.Duration { return 0 }
	ctx := context.Background()
	srv.BeginCall(0, []string{"pending"}, nil)
	obs := &nonceObs{Errs: make([]string, sc.callers)}
	if _, err := cl.Discover(ctx); err != nil {
		obs.Bad = append(obs.Bad, "warm-up Discover: "+err.Error())
		return obs
	}
	for range sc.warm {
		if _, err := cl.GetOrder(ctx, srv.OrderURL()); err != nil {
			obs.Bad = append(obs.Bad, "warm-up GetOrder: "+err.Error())
			return obs
		}
	}
	phase = 1
	start := len(srv.Log)
	var wg sched.WaitGroup
	for i := 0; i < sc.callers; i++ {
		i := i
		wg.Add(1)
		sched.Go(func() {
			defer wg.Done()
			for k := 0; k < sc.perCall; k++ {
				if _, err := cl.GetOrder(ctx, srv.OrderURL()); err != nil {
					obs.Errs[i] = err.Error()
					return
				}
			}
		})
	}
	wg.Wait()
	for _, x := range srv.Log[start:] {
		switch x.Method {
		case "HEAD":
			obs.Heads++
		case "POST":
			obs.Posts++
			if x.Nonce == "" || x.NonceIssued == 0 || x.NonceSeen > 0 {
				obs.Bad = append(obs.Bad, fmt.Sprintf("POST %s nonce=%q issued=%d seen-before=%d", x.Endpoint, x.Nonce, x.NonceIssued, x.NonceSeen))
			}
		}
		if x.Problem != "" {
			obs.Problems++
		}
	}
	return obs
}

func nonceScenarios(c *vf.Ctx, w *world) []schedx.Scenario {
	bound := 2
	if c.Thorough {
		bound = 3
	}
	list := []nonceScenario{
		{name: "2 callers, pool holds 1 nonce", callers: 2, perCall: 1, warm: []int{0}},
		{name: "2 callers x 2 requests, pool holds 1 nonce", callers: 2, perCall: 2, warm: []int{0}},
		{name: "3 callers, pool holds 1 nonce", callers: 3, perCall: 1, warm: []int{0}},
		{name: "3 callers, pool holds 2 nonces", callers: 3, perCall: 1, warm: []int{0, 0}},
		{name: "2 callers, pool empty", callers: 2, perCall: 1, warm: []int{1}},
		{name: "2 callers x 2, first concurrent reply without Replay-Nonce", callers: 2, perCall: 2, warm: []int{0}, noNonce: 1},
		{name: "3 callers, first concurrent request answered badNonce (pool cleared)", callers: 3, perCall: 1, warm: []int{0, 0}, badNonce: 1},
	}
	var scs []schedx.Scenario
	for _, sc := range list {
		sc := sc
		b := bound
		if sc.callers*sc.perCall >= 4 && !c.Thorough {
			b = 2
		}
		scs = append(scs, schedx.Scenario{Name: "concurrent Client: " + sc.name, Group: "concurrent use of one Client", Bound: b,
			Body: func() any { return runNonceScenario(w, sc) },
			Check: func(o any) (string, string) {
				r, _ := o.(*nonceObs)
				if r == nil {
					return "", ""
				}
				if len(r.Bad) > 0 {
					return "concurrent requests on one Client: a signed request was sent without a fresh server-issued nonce", fmt.Sprint(r.Bad)
				}
				if r.Posts != sc.callers*sc.perCall && sc.badNonce == 0 {
					return "concurrent requests on one Client: number of signed requests differs from the number of calls", fmt.Sprintf("posts=%d calls=%d errs=%v", r.Posts, sc.callers*sc.perCall, r.Errs)
				}
				if r.Problems == 0 {
					for i, e := range r.Errs {
						if e != "" {
							return "concurrent requests on one Client: a call fails although the CA answered every request normally", fmt.Sprintf("caller %d: %s", i, e)
						}
					}
				}
				return "", ""
			},
			Outcome: func(o any) string {
				r, _ := o.(*nonceObs)
				if r == nil {
					return "<nil>"
				}
				ne := 0
				for _, e := range r.Errs {
					if e != "" {
						ne++
					}
				}
				return fmt.Sprintf("posts=%d heads=%d problems=%d errs=%d", r.Posts, r.Heads, r.Problems, ne)
			}})
	}
	return scs
}

// runNonceSchedules is called first by run(): scheduler worker processes end inside Explore.
func runNonceSchedules(c *vf.Ctx, w *world) bool {
	scs := nonceScenarios(c, w)
	isSched := false
	if c.Replay != nil {
		det, _ := c.Replay["detail"].(map[string]any)
		_, isSched = det["scenario"]
		if !isSched {
			return false
		}
	}
	schedx.Explore(c, scs)
	return isSched
}

// longRetries: "retries are limited as documented" for limits that a bounded number of
// non-default answers never reaches: the CA answers EVERY request to the order endpoint with a
// retriable error; RetryBackoff stops at n > limit for limits on both sides of 30 (the bound the
// package's default backoff mentions); the client must have sent exactly limit+1 signed requests,
// have called RetryBackoff with n = 1, 2, ..., limit+1 and return an error.
func longRetries(c *vf.Ctx, w *world) {
	answers := []acmesrv.Answer{acmesrv.Unavail503, acmesrv.BadNonceFresh, acmesrv.Rate429RA0, acmesrv.ISE500}
	limits := []int{0, 1, 2, 29, 30, 31, 32, 35, 64, 100}
	c.ParallelFor(len(answers)*len(limits), func(i int) {
		ans, limit := answers[i/len(limits)], limits[i%len(limits)]
		srv := acmesrv.New("https://ca.test")
		srv.Horizon = 1000
		srv.Accounts[srv.AcctURL()] = &w.key.PublicKey
		srv.Decide = func(x *acmesrv.Exchange) acmesrv.Answer {
			if x.Method == "POST" && x.Endpoint == "order" {
				return ans
			}
			return acmesrv.Default
		}
		cl := &acme.Client{Key: w.key, HTTPClient: &http.Client{Transport: srv}, DirectoryURL: srv.DirURL(), KID: acme.KeyID(srv.AcctURL())}
		var ns []int
		cl.RetryBackoff = func(n int, _ *http.Request, _ *http.Response) time.Duration {
			ns = append(ns, n)
			if n > limit || len(ns) > 500 {
				return 0
			}
			return time.Nanosecond
		}
		srv.BeginCall(1, []string{"pending"}, nil)
		_, err := cl.GetOrder(context.Background(), srv.OrderURL())
		posts := 0
		for _, x := range srv.Log {
			if x.Method == "POST" && x.Endpoint == "order" {
				posts++
			}
		}
		c.Eval(1)
		c.Nontrivial(fmt.Sprintf("longretry/%d/%d", ans, limit))
		det := map[string]any{"answer": fmt.Sprint(ans), "limit": limit, "signed_requests": posts, "backoff_calls": len(ns), "err": fmt.Sprint(err)}
		okSeq := len(ns) == limit+1
		for k, n := range ns {
			okSeq = okSeq && n == k+1
		}
		switch {
		case err == nil:
			c.Violation("a call succeeds although the CA answered every request with an error", det)
		case posts != limit+1 || !okSeq:
			if len(ns) > 12 {
				det["backoff_n_tail"] = ns[len(ns)-6:]
			} else {
				det["backoff_n"] = ns
			}
			c.Violation("retries are not limited as RetryBackoff says: with a stop at n > limit the client must send exactly limit+1 requests and pass n = 1..limit+1", det)
		}
	})
}
