// C50: the ACME client never reuses a nonce and bounds its retries.
//
// Environment-answer exploration (vf.ExploreChoices): the real acme.Client runs on an
// in-process http.RoundTripper (verif/ref/acmesrv, no sockets, no timers) in front of a
// minimal RFC 8555 server model. At every HTTP exchange the environment picks an answer
// from a menu whose entry 0 is what a conforming server does; ALL executions with at most
// k non-default answers are run for every scenario (one or two API calls on one client).
//
// Oracle (see judge): server-side nonce log (every POSTed nonce was issued to this client
// and is presented no more often than it was issued); retry discipline as documented for
// Client.RetryBackoff (every repetition of a failed request follows a retriable reply and a
// RetryBackoff consultation with n = 1, 2, ... and the request/response of the last failed
// attempt, nothing is repeated once RetryBackoff returns <= 0, 4xx other than badNonce/429
// is never retried); cancellation (ctx.Err() or the reply delivered together with the
// cancellation, no further request); the returned value / error corresponds to the final
// server reply.
package main

import (
	"context"
	"crypto"
	"crypto/ecdsa"
	"crypto/elliptic"
	"encoding/json"
	"errors"
	"fmt"
	"net/http"
	"os"
	"reflect"
	"runtime"
	"runtime/pprof"
	"sort"
	"strings"
	"sync"
	"sync/atomic"
	"time"

	"golang.org/x/crypto/acme"

	"verif/ref/acmesrv"
	"verif/vf"
)

func main() {
	if p := os.Getenv("C50_CPUPROFILE"); p != "" { // development aid only
		f, _ := os.Create(p)
		pprof.StartCPUProfile(f)
		vf.Main("C50", vf.ModelChecking, func(c *vf.Ctx) { run(c); pprof.StopCPUProfile(); f.Close() })
	}
	vf.Main("C50", vf.ModelChecking, run)
}

// ---------------------------------------------------------------------------
// operations
// ---------------------------------------------------------------------------

type result struct {
	err    error
	status string   // status of the decoded object
	uri    string   // URI / Location of the decoded object
	chain  [][]byte // certificate chain
	url    string   // certificate URL (CreateOrderCert)
	extra  string
}

type opSpec struct {
	name   string
	main   string   // endpoint of the request that produces the result
	order  []string // order status script for polls during this call
	authz  []string
	noAcct bool // wants a server without the account (Register)
	run    func(e *env, ctx context.Context) result
}

var (
	scriptOK      = []string{"processing", "valid"}
	scriptInvalid = []string{"processing", "invalid"}
	authzOK       = []string{"pending", "valid"}
	authzInvalid  = []string{"pending", "invalid"}
)

func ops() []*opSpec {
	return []*opSpec{
		{name: "Register", main: "newAccount", noAcct: true, run: func(e *env, ctx context.Context) result {
			a, err := e.cl.Register(ctx, &acme.Account{Contact: []string{"mailto:admin@example.org"}}, acme.AcceptTOS)
			if a == nil {
				return result{err: err}
			}
			return result{err: err, status: a.Status, uri: a.URI}
		}},
		{name: "GetReg", main: "newAccount", run: func(e *env, ctx context.Context) result {
			a, err := e.cl.GetReg(ctx, "")
			if a == nil {
				return result{err: err}
			}
			return result{err: err, status: a.Status, uri: a.URI}
		}},
		{name: "AuthorizeOrder", main: "newOrder", run: func(e *env, ctx context.Context) result {
			o, err := e.cl.AuthorizeOrder(ctx, acme.DomainIDs("example.org"))
			return orderResult(o, err)
		}},
		{name: "GetOrder", main: "order", order: []string{"pending"}, run: func(e *env, ctx context.Context) result {
			o, err := e.cl.GetOrder(ctx, e.srv.OrderURL())
			return orderResult(o, err)
		}},
		{name: "WaitOrder", main: "order", order: scriptOK, run: func(e *env, ctx context.Context) result {
			o, err := e.cl.WaitOrder(ctx, e.srv.OrderURL())
			return orderResult(o, err)
		}},
		{name: "WaitOrder(invalid)", main: "order", order: scriptInvalid, run: func(e *env, ctx context.Context) result {
			o, err := e.cl.WaitOrder(ctx, e.srv.OrderURL())
			return orderResult(o, err)
		}},
		{name: "GetAuthorization", main: "authz", authz: []string{"pending"}, run: func(e *env, ctx context.Context) result {
			a, err := e.cl.GetAuthorization(ctx, e.srv.AuthzURL())
			return authzResult(a, err)
		}},
		{name: "Accept", main: "challenge", run: func(e *env, ctx context.Context) result {
			ch, err := e.cl.Accept(ctx, &acme.Challenge{Type: "http-01", URI: e.srv.ChalURL(), Token: "token-1"})
			if ch == nil {
				return result{err: err}
			}
			return result{err: err, status: ch.Status, uri: ch.URI}
		}},
		{name: "WaitAuthorization", main: "authz", authz: authzOK, run: func(e *env, ctx context.Context) result {
			a, err := e.cl.WaitAuthorization(ctx, e.srv.AuthzURL())
			return authzResult(a, err)
		}},
		{name: "WaitAuthorization(invalid)", main: "authz", authz: authzInvalid, run: func(e *env, ctx context.Context) result {
			a, err := e.cl.WaitAuthorization(ctx, e.srv.AuthzURL())
			return authzResult(a, err)
		}},
		{name: "CreateOrderCert", main: "cert", order: scriptOK, run: func(e *env, ctx context.Context) result {
			der, u, err := e.cl.CreateOrderCert(ctx, e.srv.FinalizeURL(), []byte("certificate signing request stand-in"), true)
			return result{err: err, chain: der, url: u}
		}},
		{name: "FetchCert", main: "cert", run: func(e *env, ctx context.Context) result {
			der, err := e.cl.FetchCert(ctx, e.srv.CertURL(), true)
			return result{err: err, chain: der, url: e.srv.CertURL()}
		}},
		{name: "RevokeCert", main: "revoke", run: func(e *env, ctx context.Context) result {
			return result{err: e.cl.RevokeCert(ctx, nil, []byte("certificate stand-in"), acme.CRLReasonSuperseded)}
		}},
		{name: "RevokeCert(cert key)", main: "revoke", run: func(e *env, ctx context.Context) result {
			return result{err: e.cl.RevokeCert(ctx, e.w.certKey, []byte("certificate stand-in"), acme.CRLReasonKeyCompromise)}
		}},
		{name: "DeactivateReg", main: "account", run: func(e *env, ctx context.Context) result {
			return result{err: e.cl.DeactivateReg(ctx)}
		}},
		{name: "AccountKeyRollover", main: "keyChange", run: func(e *env, ctx context.Context) result {
			nk := e.w.newKey
			if e.cl.Key == crypto.Signer(e.w.newKey) {
				nk = e.w.key // roll back in a second rollover
			}
			err := e.cl.AccountKeyRollover(ctx, nk)
			x := "kept"
			if e.cl.Key == crypto.Signer(nk) {
				x = "switched"
			}
			return result{err: err, extra: x}
		}},
	}
}

func orderResult(o *acme.Order, err error) result {
	if o == nil {
		return result{err: err}
	}
	return result{err: err, status: o.Status, uri: o.URI, url: o.CertURL}
}

func authzResult(a *acme.Authorization, err error) result {
	if a == nil {
		return result{err: err}
	}
	return result{err: err, status: a.Status, uri: a.URI, extra: authzSummary(a)}
}

// authzSummary / authzSummaryJSON render what an Authorization says, from the decoded Go
// value and from the JSON object the server sent last; they must agree (a value decoded
// from the final reply must not carry members of an earlier poll reply).
func authzSummary(a *acme.Authorization) string {
	s := fmt.Sprintf("status=%s id=%s/%s wildcard=%v expires=%v chals=%d", a.Status, a.Identifier.Type, a.Identifier.Value, a.Wildcard, !a.Expires.IsZero(), len(a.Challenges))
	for _, ch := range a.Challenges {
		e := "-"
		if ch.Error != nil {
			e = "?"
			var ae *acme.Error
			if errors.As(ch.Error, &ae) {
				e = fmt.Sprintf("%s/%d/sub%d", ae.ProblemType, ae.StatusCode, len(ae.Subproblems))
			}
		}
		s += fmt.Sprintf(" [%s %s %s %s err=%s]", ch.Type, ch.URI, ch.Token, ch.Status, e)
	}
	return s
}

func authzSummaryJSON(body []byte) string {
	var o struct {
		Status     string
		Expires    string
		Wildcard   bool
		Identifier struct{ Type, Value string }
		Challenges []struct {
			Type, URL, Token, Status, Validated string
			Error                               *struct {
				Type        string
				Status      int
				Subproblems []any
			}
		}
	}
	if json.Unmarshal(body, &o) != nil {
		return "unparseable"
	}
	s := fmt.Sprintf("status=%s id=%s/%s wildcard=%v expires=%v chals=%d", o.Status, o.Identifier.Type, o.Identifier.Value, o.Wildcard, o.Expires != "", len(o.Challenges))
	for _, ch := range o.Challenges {
		e := "-"
		if ch.Error != nil {
			e = fmt.Sprintf("%s/%d/sub%d", ch.Error.Type, ch.Error.Status, len(ch.Error.Subproblems))
		}
		s += fmt.Sprintf(" [%s %s %s %s err=%s]", ch.Type, ch.URL, ch.Token, ch.Status, e)
	}
	return s
}

// ---------------------------------------------------------------------------
// scenarios and executions
// ---------------------------------------------------------------------------

type world struct {
	key, newKey, certKey *ecdsa.PrivateKey
}

type scenario struct {
	name   string
	kid    bool // client created with the account URL as KID
	limit  int  // RetryBackoff returns <= 0 for n > limit
	ops    []*opSpec
	bound  int
	weight int
}

type backoffRec struct {
	n       int
	url     string
	status  int
	after   int // number of exchanges logged when RetryBackoff was called
	ret     time.Duration
	ctxDead bool
	call    int
}

type env struct {
	c        *vf.Ctx
	w        *world
	sc       *scenario
	srv      *acmesrv.Server
	cl       *acme.Client
	choose   func(n int) int
	choices  []string
	backoffs []backoffRec
	call     int
	ctx      context.Context
	kidKnown bool
	dirKnown bool
	pending  *backoffRec
	gid      atomic.Int64
}

var menuGET = []acmesrv.Answer{acmesrv.Default, acmesrv.OKNoNonce, acmesrv.ISE500, acmesrv.Unavail503, acmesrv.Rate429RA0, acmesrv.Rate429RA1,
	acmesrv.Rate429Date, acmesrv.Forbidden403, acmesrv.TransportError, acmesrv.CancelBefore, acmesrv.CancelWith503}
var menuHEAD = []acmesrv.Answer{acmesrv.Default, acmesrv.OKNoNonce, acmesrv.ISE500, acmesrv.Unavail503, acmesrv.Forbidden403,
	acmesrv.TransportError, acmesrv.CancelBefore, acmesrv.DupNonce}
var menuPOST = []acmesrv.Answer{acmesrv.Default, acmesrv.OKNoNonce, acmesrv.BadNonceFresh, acmesrv.BadNonceBare, acmesrv.ISE500, acmesrv.Unavail503,
	acmesrv.Rate429RA0, acmesrv.Rate429RA1, acmesrv.Rate429Date, acmesrv.Forbidden403, acmesrv.TransportError, acmesrv.CancelBefore,
	acmesrv.DupNonce, acmesrv.CancelWith503, acmesrv.CancelWithReply}

const horizon = 80

func newEnv(c *vf.Ctx, w *world, sc *scenario, choose func(n int) int) *env {
	e := &env{c: c, w: w, sc: sc, choose: choose}
	e.srv = acmesrv.New("https://ca.test")
	e.srv.Horizon = horizon
	if !sc.ops[0].noAcct {
		e.srv.Accounts[e.srv.AcctURL()] = &w.key.PublicKey
	}
	e.srv.Decide = func(x *acmesrv.Exchange) acmesrv.Answer {
		menu := menuPOST
		switch x.Method {
		case "GET":
			menu = menuGET
		case "HEAD":
			menu = menuHEAD
		}
		a := menu[e.choose(len(menu))]
		return a
	}
	e.cl = &acme.Client{Key: w.key, HTTPClient: &http.Client{Transport: e.srv}, DirectoryURL: e.srv.DirURL()}
	if sc.kid {
		e.cl.KID = acme.KeyID(e.srv.AcctURL())
		e.kidKnown = true
	}
	e.cl.RetryBackoff = func(n int, r *http.Request, res *http.Response) time.Duration {
		b := backoffRec{n: n, after: len(e.srv.Log), call: e.call}
		if r != nil && r.URL != nil {
			b.url = r.URL.String()
		}
		if res != nil {
			b.status = res.StatusCode
		}
		switch {
		case e.ctx.Err() != nil:
			// A caller that honours cancellation never waits for this.
			b.ctxDead = true
			b.ret = time.Hour
		case n > sc.limit:
			b.ret = 0 // documented: no more retries
		default:
			b.ret = time.Nanosecond
		}
		e.backoffs = append(e.backoffs, b)
		return b.ret
	}
	return e
}

// goid returns the id of the calling goroutine (for the hang watchdog only).
func goid() int64 {
	var buf [64]byte
	n := runtime.Stack(buf[:], false)
	var id int64
	fmt.Sscanf(string(buf[:n]), "goroutine %d ", &id)
	return id
}

var watch = struct {
	first, after, step, max time.Duration
}{5 * time.Second, 300 * time.Millisecond, time.Second, 180 * time.Second}

var hangs atomic.Int64

// blockedInACME inspects a full goroutine dump: is goroutine id parked in a select /
// channel receive inside package acme? It returns the acme function.
func blockedInACME(id int64) string {
	buf := make([]byte, 1<<22)
	buf = buf[:runtime.Stack(buf, true)]
	for _, blk := range strings.Split(string(buf), "\n\n") {
		if !strings.HasPrefix(blk, fmt.Sprintf("goroutine %d [", id)) {
			continue
		}
		head, _, _ := strings.Cut(blk, "\n")
		if !strings.Contains(head, "[select") && !strings.Contains(head, "[chan receive") && !strings.Contains(head, "[sleep") {
			return ""
		}
		for _, ln := range strings.Split(blk, "\n") {
			if strings.HasPrefix(ln, "golang.org/x/crypto/acme.") {
				fn, _, _ := strings.Cut(strings.TrimPrefix(ln, "golang.org/x/crypto/acme."), "(0x")
				if i := strings.LastIndex(ln, "("); i > 0 {
					fn = strings.TrimPrefix(ln[:i], "golang.org/x/crypto/acme.")
				}
				return fn
			}
		}
	}
	return ""
}

// execute runs one execution (all calls of the scenario) and judges it.
func (e *env) execute() {
	for i, op := range e.sc.ops {
		e.call = i + 1
		e.srv.BeginCall(e.call, op.order, op.authz)
		ctx, cancel := context.WithCancel(context.Background())
		e.ctx = ctx
		e.srv.Cancel = cancel
		from := len(e.srv.Log)
		var res result
		var pan any
		var stack string
		done := make(chan struct{})
		go func() {
			defer close(done)
			e.gid.Store(goid())
			_, pan, stack = vf.Protect(func() { res = op.run(e, ctx) })
		}()
		hung := ""
		if hangs.Load() > 40 {
			e.c.Capped("more than 40 executions hung after a cancellation: remaining executions skipped")
			return
		}
		wf := watch.first
		if hangs.Load() > 0 {
			wf = watch.after // a hang was already confirmed once: do not spend 5 s on each further one
		}
		first := time.NewTimer(wf)
		select {
		case <-done:
			first.Stop()
		case <-first.C:
			waited := wf
		poll:
			for {
				if fn := blockedInACME(e.gid.Load()); fn != "" && ctx.Err() != nil {
					// parked although its context is done: the only things it can be waiting
					// for are the 1 h RetryBackoff / far-future Retry-After timers
					hung = fn
					break poll
				}
				select {
				case <-done:
					break poll
				case <-time.After(watch.step):
					waited += watch.step
				}
				if waited > watch.max {
					hung = "?"
					break poll
				}
			}
		}
		cancel()
		if hung == "?" {
			e.c.Capped("an execution did not finish within the containment time and was abandoned")
			return
		}
		if hung != "" {
			hangs.Add(1)
			e.violation("call stays blocked in "+hung+" after its context was cancelled", op, nil)
			return
		}
		if pan != nil {
			e.violation("panic in "+op.name, op, map[string]any{"panic": fmt.Sprint(pan), "stack": stack})
			return
		}
		if !e.judge(op, from, res) {
			return
		}
	}
}

func (e *env) transcript() []string {
	var out []string
	bi := 0
	for i, x := range e.srv.Log {
		for bi < len(e.backoffs) && e.backoffs[bi].after <= i {
			out = append(out, e.backoffs[bi].String())
			bi++
		}
		out = append(out, x.String())
	}
	for ; bi < len(e.backoffs); bi++ {
		out = append(out, e.backoffs[bi].String())
	}
	return out
}

func (b backoffRec) String() string {
	s := fmt.Sprintf("   RetryBackoff(n=%d, %s, status %d) = %v", b.n, b.url, b.status, b.ret)
	if b.ctxDead {
		s += " [context already cancelled]"
	}
	return s
}

func (e *env) violation(class string, op *opSpec, extra map[string]any) {
	d := map[string]any{"scenario": e.sc.name, "kid_preset": e.sc.kid, "retry_limit": e.sc.limit, "call": op.name,
		"answers": e.choices, "transcript": e.transcript()}
	for k, v := range extra {
		d[k] = v
	}
	e.c.Violation(class, d)
}

// ---------------------------------------------------------------------------
// oracle
// ---------------------------------------------------------------------------

func failed(x *acmesrv.Exchange) bool { return x.Status == 0 || x.Status >= 400 }

// retriable is the documented rule: 5xx, 429, and 400 badNonce; no other 4xx.
func retriable(x *acmesrv.Exchange) bool {
	return x.Status >= 500 || x.Status == 429 || x.Problem == acmesrv.ProblemBadNonce
}

func reqKey(x *acmesrv.Exchange) string {
	k := x.Method + " " + x.URL
	if x.JWS != nil {
		k += " " + x.JWS.Payload
	}
	if x.Req != nil {
		k += " " + x.Req.Mode
	}
	return k
}

func describeErr(err error) string {
	if err == nil {
		return "nil"
	}
	var ae *acme.Error
	switch {
	case errors.Is(err, context.Canceled):
		return "context.Canceled"
	case errors.Is(err, acmesrv.ErrTransport):
		return "transport error"
	case errors.As(err, &ae):
		return fmt.Sprintf("*acme.Error{%d %s}", ae.StatusCode, strings.TrimPrefix(ae.ProblemType, "urn:ietf:params:acme:error:"))
	case errors.Is(err, acme.ErrNoAccount):
		return "ErrNoAccount"
	case errors.Is(err, acme.ErrAccountAlreadyExists):
		return "ErrAccountAlreadyExists"
	}
	var oe *acme.OrderError
	var aze *acme.AuthorizationError
	if errors.As(err, &oe) {
		return "*acme.OrderError{" + oe.Status + "}"
	}
	if errors.As(err, &aze) {
		return "*acme.AuthorizationError"
	}
	return "other error"
}

// judge checks one finished API call; it reports at most one violation and returns false
// if the execution should not be continued.
func (e *env) judge(op *opSpec, from int, res result) bool {
	c := e.c
	xs := e.srv.Log[from:]
	viol := func(class string, extra map[string]any) bool {
		if extra == nil {
			extra = map[string]any{}
		}
		extra["returned"] = describeErr(res.err)
		if res.err != nil {
			extra["error_text"] = res.err.Error()
		}
		e.violation(class, op, extra)
		return false
	}
	if e.srv.HorizonHit {
		c.Capped("step horizon reached in an execution")
	}

	// ---- 1. nonces, request well-formedness, bookkeeping --------------------------------
	hasLookup, mainSeen, cancelled := false, false, false
	var cx *acmesrv.Exchange // the exchange that cancelled the context
	var fx *acmesrv.Exchange // the final live exchange
	dead := 0
	for _, x := range xs {
		if x.DeadCtx {
			dead++
			continue
		}
		if cancelled {
			return viol("request sent after the context was cancelled", nil)
		}
		fx = x
		c.Transition(1)
		c.State(fmt.Sprintf("%s|%s %s|%s|%d", op.name, x.Method, x.Endpoint, x.Answer, x.Status))
		if x.Cancelled {
			cancelled, cx = true, x
		}
		if x.Method == "GET" && x.Endpoint == "directory" && x.Status == 200 {
			e.dirKnown = true
		}
		if x.Method != "POST" {
			continue
		}
		if x.Malformed != "" {
			return viol("request unacceptable to the reference server: "+classify(x.Malformed), map[string]any{"exchange": x.String()})
		}
		if x.Nonce == "" || x.NonceIssued == 0 {
			return viol("POST with a nonce the server never issued", map[string]any{"exchange": x.String()})
		}
		if x.NonceSeen >= x.NonceIssued {
			return viol("nonce reused: presented more often than the server issued it", map[string]any{"exchange": x.String()})
		}
		if x.NonceSeen > 0 {
			c.Outcome("nonce presented twice after the SERVER issued it twice (client not to blame)")
		}
		if x.Lookup && op.name != "GetReg" {
			hasLookup = true
		}
		if x.Endpoint == op.main && !(x.Lookup && op.name != "GetReg") {
			mainSeen = true
		}
		if x.Endpoint == "newAccount" && x.Status >= 200 && x.Status < 300 && x.Location != "" {
			e.kidKnown = true
		}
		if x.JWKNotKID {
			c.Outcome("jwk-form request to a kid-only resource after a failed account lookup (documented fallback)")
		}
	}
	if fx == nil {
		return viol("call returned without any request", nil)
	}

	// ---- 2. retry discipline -------------------------------------------------------------
	var prev *acmesrv.Exchange
	chain := 0                  // position of prev in its chain of adjacent attempts of one request
	failsAt := map[string]int{} // failed replied exchanges per URL since the last success there
	bi := 0
	for bi < len(e.backoffs) && e.backoffs[bi].call != e.call {
		bi++
	}
	var bad string
	consume := func(upTo int) *backoffRec {
		var granted *backoffRec
		for bi < len(e.backoffs) && e.backoffs[bi].call == e.call && e.backoffs[bi].after <= upTo {
			b := &e.backoffs[bi]
			bi++
			switch {
			case prev == nil || prev.Status == 0:
				bad = "RetryBackoff consulted without a failed reply"
			case b.url != prev.URL || b.status != prev.Status:
				bad = "RetryBackoff arguments are not the request/response of the last failed attempt"
			case granted != nil:
				bad = "RetryBackoff consulted twice for one failure"
			case !hasLookup && b.n != chain:
				bad = fmt.Sprintf("RetryBackoff called with n=%d after failure number %d of the request", b.n, chain)
			case hasLookup && (b.n < 1 || b.n > failsAt[prev.URL]):
				bad = fmt.Sprintf("RetryBackoff called with n=%d after %d failures of the request", b.n, failsAt[prev.URL])
			}
			if bad != "" {
				return nil
			}
			granted = b
		}
		return granted
	}
	for i, x := range xs {
		idx := from + i
		// RetryBackoff consultations that happened before this exchange
		granted := consume(idx)
		if bad != "" {
			return viol(bad, nil)
		}
		if x.DeadCtx || x.Method == "HEAD" {
			if granted != nil && !x.DeadCtx {
				// the consultation belongs to the retry that starts with this nonce fetch
				e.pending = granted
			}
			continue
		}
		if granted == nil {
			granted = e.pending
		}
		e.pending = nil
		if prev != nil && reqKey(prev) == reqKey(x) && failed(prev) {
			switch {
			case prev.Status == 0:
				return viol("request repeated after a transport error without consulting RetryBackoff", nil)
			case !retriable(prev):
				return viol(fmt.Sprintf("non-retriable %d reply retried", prev.Status), nil)
			case granted == nil:
				return viol("failed request repeated without consulting RetryBackoff", nil)
			case granted.ret <= 0:
				return viol("request repeated although RetryBackoff returned <= 0 (no more retries)", nil)
			}
			chain++
			if chain > e.sc.limit+1 {
				return viol("more attempts of one request than RetryBackoff allows", nil)
			}
			c.Outcome("retry after " + answerClass(prev))
		} else {
			chain = 1
		}
		if x.Status != 0 {
			if failed(x) {
				failsAt[x.URL]++
			} else {
				failsAt[x.URL] = 0
			}
		}
		prev = x
	}
	e.pending = nil
	if consume(len(e.srv.Log)); bad != "" {
		return viol(bad, nil)
	}

	// ---- 3. cancellation and correspondence of the result --------------------------------
	out := describeErr(res.err)
	if cancelled {
		c.Outcome(fmt.Sprintf("cancelled(%s) -> %s, %d refused attempt(s) afterwards", cx.Answer, out, min(dead, 2)))
		if errors.Is(res.err, context.Canceled) {
			c.Nontrivial(op.name + "|cancel|" + cx.Endpoint + "|" + cx.Answer.String())
			return true
		}
		if why := e.swallowedLookup(op, mainSeen, fx, res); why != "" {
			e.violation(why, op, map[string]any{"returned": out})
			return true
		}
		if cx.Answer == acmesrv.CancelBefore {
			return viol("context cancelled before the reply, but the call does not return ctx.Err()", nil)
		}
		// reply and cancellation arrived together: the reply may win
		if why := e.corresponds(op, cx, res); why != "" {
			return viol("cancelled call returns neither ctx.Err() nor the reply delivered with the cancellation: "+why, nil)
		}
		c.Nontrivial(op.name + "|cancel-with-reply|" + cx.Endpoint + "|" + cx.Answer.String() + "|" + out)
		return true
	}
	if dead > 0 {
		return viol("context reported done without a cancellation", nil)
	}
	if e.srv.HorizonHit {
		return false
	}
	if why := e.swallowedLookup(op, mainSeen, fx, res); why != "" {
		e.violation(why, op, map[string]any{"returned": out})
		return true
	}
	if why := e.corresponds(op, fx, res); why != "" {
		return viol("result does not correspond to the final server reply: "+why, map[string]any{"final": fx.String()})
	}
	c.Nontrivial(op.name + "|" + fx.Endpoint + "|" + fx.Answer.String() + "|" + out)
	c.Outcome(op.name + " -> " + out)
	return true
}

func answerClass(x *acmesrv.Exchange) string {
	if x.Problem == acmesrv.ProblemBadNonce {
		return "badNonce"
	}
	return fmt.Sprint(x.Status)
}

// swallowedLookup recognises the one place where the unchanged client reports something
// other than the final reply: DeactivateReg and AccountKeyRollover turn ANY failure of the
// account lookup (accountKID) into ErrNoAccount.
func (e *env) swallowedLookup(op *opSpec, mainSeen bool, fx *acmesrv.Exchange, res result) string {
	if op.name != "DeactivateReg" && op.name != "AccountKeyRollover" {
		return ""
	}
	if mainSeen || !e.dirKnown || !errors.Is(res.err, acme.ErrNoAccount) {
		return ""
	}
	if fx.Lookup && fx.Problem == acmesrv.ProblemNoAccount {
		return "" // the server really said so
	}
	if fx.Cancelled {
		return "ErrNoAccount returned instead of ctx.Err(): context cancelled during the account lookup of DeactivateReg/AccountKeyRollover"
	}
	return "ErrNoAccount returned although the account lookup of DeactivateReg/AccountKeyRollover failed for another reason (5xx, 429, 403, transport error, no nonce)"
}

func sameChain(a, b [][]byte) bool { return len(a) == len(b) && reflect.DeepEqual(a, b) }

// corresponds decides whether res is what the final exchange fx entitles the caller to.
func (e *env) corresponds(op *opSpec, fx *acmesrv.Exchange, res result) string {
	err := res.err
	var ae *acme.Error
	isAE := errors.As(err, &ae)
	wantAE := func() string {
		if !isAE {
			return fmt.Sprintf("want *acme.Error{%d %s}, got %s", fx.Status, fx.Problem, describeErr(err))
		}
		if ae.StatusCode != fx.Status || ae.ProblemType != fx.Problem {
			return fmt.Sprintf("want *acme.Error{%d %s}, got {%d %s}", fx.Status, fx.Problem, ae.StatusCode, ae.ProblemType)
		}
		return ""
	}
	switch {
	case fx.Status == 0:
		if fx.Answer == acmesrv.TransportError {
			if err == nil || !errors.Is(err, acmesrv.ErrTransport) {
				return "final exchange was a transport error, got " + describeErr(err)
			}
			return ""
		}
		return "" // horizon
	case fx.Method == "HEAD":
		if fx.Issued != "" {
			return "call ended right after it obtained a fresh nonce"
		}
		if fx.Status > 299 {
			return wantAE()
		}
		if err == nil {
			return "newNonce reply without Replay-Nonce, but no error"
		}
		return ""
	case fx.Status >= 400:
		if fx.Lookup && fx.Problem == acmesrv.ProblemNoAccount && (op.name == "GetReg" || op.name == "DeactivateReg" || op.name == "AccountKeyRollover") {
			if !errors.Is(err, acme.ErrNoAccount) {
				return "want ErrNoAccount, got " + describeErr(err)
			}
			return ""
		}
		return wantAE()
	}
	// success reply
	if fx.Endpoint != op.main || (fx.Lookup && op.name != "GetReg") {
		return "call ended after a successful intermediate reply from " + fx.Endpoint + " (" + describeErr(err) + ")"
	}
	if !fx.Final && strings.HasPrefix(op.name, "Wait") {
		return "call ended after a poll reply in the non-final state " + fx.ObjStatus + " (" + describeErr(err) + ")"
	}
	nilErr := func() string {
		if err != nil {
			return "final reply was a success, got " + describeErr(err) + ": " + err.Error()
		}
		return ""
	}
	switch op.name {
	case "Register":
		if fx.Status == 200 {
			if !errors.Is(err, acme.ErrAccountAlreadyExists) {
				return "200 from newAccount: want ErrAccountAlreadyExists, got " + describeErr(err)
			}
			return ""
		}
		if why := nilErr(); why != "" {
			return why
		}
		if res.uri != fx.Location || res.status != fx.ObjStatus {
			return fmt.Sprintf("account {%s %s}, server sent {%s %s}", res.uri, res.status, fx.Location, fx.ObjStatus)
		}
	case "GetReg":
		if why := nilErr(); why != "" {
			return why
		}
		if res.uri != fx.Location || res.status != fx.ObjStatus {
			return fmt.Sprintf("account {%s %s}, server sent {%s %s}", res.uri, res.status, fx.Location, fx.ObjStatus)
		}
	case "AuthorizeOrder", "GetOrder", "WaitOrder", "WaitOrder(invalid)":
		if fx.ObjStatus == "invalid" && strings.HasPrefix(op.name, "WaitOrder") {
			var oe *acme.OrderError
			if !errors.As(err, &oe) || oe.Status != "invalid" {
				return "final order state invalid: want *acme.OrderError, got " + describeErr(err)
			}
			return ""
		}
		if why := nilErr(); why != "" {
			return why
		}
		if res.status != fx.ObjStatus || res.uri != fx.Location {
			return fmt.Sprintf("order {%s %s}, server sent {%s %s}", res.uri, res.status, fx.Location, fx.ObjStatus)
		}
	case "GetAuthorization", "WaitAuthorization", "WaitAuthorization(invalid)":
		if fx.ObjStatus == "invalid" && strings.HasPrefix(op.name, "WaitAuthorization") {
			var aze *acme.AuthorizationError
			if !errors.As(err, &aze) {
				return "final authorization state invalid: want *acme.AuthorizationError, got " + describeErr(err)
			}
			return ""
		}
		if why := nilErr(); why != "" {
			return why
		}
		if res.status != fx.ObjStatus || res.uri != e.srv.AuthzURL() {
			return fmt.Sprintf("authorization {%s %s}, server sent {%s %s}", res.uri, res.status, e.srv.AuthzURL(), fx.ObjStatus)
		}
		if want := authzSummaryJSON(fx.ReplyBody); res.extra != want {
			return fmt.Sprintf("authorization returned differs from the object the server sent last: got {%s}, sent {%s}", res.extra, want)
		}
	case "Accept":
		if why := nilErr(); why != "" {
			return why
		}
		if res.status != fx.ObjStatus || res.uri != e.srv.ChalURL() {
			return fmt.Sprintf("challenge {%s %s}, server sent {%s %s}", res.uri, res.status, e.srv.ChalURL(), fx.ObjStatus)
		}
	case "CreateOrderCert", "FetchCert":
		if why := nilErr(); why != "" {
			return why
		}
		if !sameChain(res.chain, e.srv.CertChain) || res.url != e.srv.CertURL() {
			return "certificate chain / URL differ from what the server sent"
		}
	case "AccountKeyRollover":
		if why := nilErr(); why != "" {
			return why
		}
		if res.extra != "switched" {
			return "server accepted the key change but Client.Key was not updated"
		}
	default:
		return nilErr()
	}
	return ""
}

// ---------------------------------------------------------------------------
// driver
// ---------------------------------------------------------------------------

func classify(s string) string {
	var sb strings.Builder
	inq := false
	for _, r := range s {
		switch {
		case r == '"':
			inq = !inq
			if inq {
				sb.WriteByte('_')
			}
		case inq:
		case r >= '0' && r <= '9':
			sb.WriteByte('#')
		default:
			sb.WriteRune(r)
		}
	}
	out := sb.String()
	if len(out) > 100 {
		out = out[:100]
	}
	return out
}

func mkKey(c *vf.Ctx, label string) *ecdsa.PrivateKey {
	for i := 0; ; i++ {
		k, err := ecdsa.ParseRawPrivateKey(elliptic.P256(), c.Bytes("c50-key-"+label, i, 32))
		if err == nil {
			return k
		}
	}
}

func run(c *vf.Ctx) {
	c.Rule("execution = (scenario: 1 or 2 API calls on one client, client with/without preset KID, RetryBackoff limit) x sequence of environment answers with <=k non-default ones; " +
		"state = (call, request kind, answer, status); distinct non-trivial = distinct (call, final endpoint, final answer, returned result class)")
	c.Assume("net/http.Client with a synchronous in-process RoundTripper behaves like the real transport (a request whose context is already done is refused before it is sent)")
	c.Assume("the nonce pool is a Go map: only order-independent facts are checked (multiset of presented vs. issued nonces)")
	c.Assume("Client.RetryBackoff is set (1 ns up to the limit, then 0 = documented stop; 1 h once the context is cancelled), so Retry-After on 429 replies is never slept on; poll replies in a non-final state carry a Retry-After date in the past")

	w := &world{key: mkKey(c, "account"), newKey: mkKey(c, "new"), certKey: mkKey(c, "cert")}
	if runNonceSchedules(c, w) {
		return
	}
	longRetries(c, w)
	all := ops()
	byName := map[string]*opSpec{}
	for _, o := range all {
		byName[o.name] = o
	}
	var scs []*scenario
	add := func(kid bool, limit, bound int, os ...*opSpec) {
		var names []string
		for _, o := range os {
			names = append(names, o.name)
		}
		sc := &scenario{name: strings.Join(names, " ; "), kid: kid, limit: limit, ops: os, bound: bound}
		sc.weight = len(os) * 10
		for i := 0; i < bound; i++ {
			sc.weight *= 14
		}
		scs = append(scs, sc)
	}
	single := 2
	if c.Thorough {
		single = 3
	}
	for _, o := range all {
		for _, kid := range []bool{false, true} {
			if o.noAcct && kid {
				continue
			}
			add(kid, 1, single, o)
			add(kid, 3, 2, o)
			if c.Thorough && kid {
				add(kid, 2, 3, o) // fail, fail, fail -> RetryBackoff(3) stops the third retry
			}
		}
	}
	// two calls on one client: the nonce pool, the directory and the key id carry over
	deep := map[string]bool{}
	for _, p := range [][2]string{
		{"Register", "AuthorizeOrder"}, {"AuthorizeOrder", "GetOrder"}, {"GetOrder", "GetOrder"}, {"WaitOrder", "CreateOrderCert"},
		{"AccountKeyRollover", "GetOrder"}, {"RevokeCert(cert key)", "DeactivateReg"}, {"GetReg", "AccountKeyRollover"}, {"Accept", "WaitAuthorization"},
		{"FetchCert", "RevokeCert"}, {"DeactivateReg", "GetReg"}, {"AccountKeyRollover", "AccountKeyRollover"}, {"GetAuthorization", "Accept"},
	} {
		deep[p[0]+";"+p[1]] = true
	}
	pairIdx := 0
	for _, a := range all {
		for _, b := range all {
			if b.noAcct {
				continue // Register as a second call needs a server without the account
			}
			b2 := 1
			if c.Thorough || deep[a.name+";"+b.name] {
				b2 = 2
			}
			pairIdx++
			add(!a.noAcct && pairIdx%2 == 0, 1, b2, a, b)
		}
	}
	sort.SliceStable(scs, func(i, j int) bool { return scs[i].weight > scs[j].weight })
	c.Set("scenarios", len(scs))

	if c.Replay != nil {
		replay(c, w, scs)
		return
	}

	var mu sync.Mutex
	perBound := map[int]int64{}
	var execs atomic.Int64
	c.ParallelFor(len(scs), func(i int) {
		sc := scs[i]
		n := vf.ExploreChoices(c, sc.bound, false, func(ch *vf.Chooser) {
			e := newEnv(c, w, sc, nil)
			e.choose = func(n int) (k int) {
				// A replayed prefix can only stop fitting if the code under test is not
				// deterministic (e.g. two nonces in the pool map): keep going with the
				// default answer, the execution is still a real one and is judged.
				defer func() {
					if r := recover(); r != nil {
						k = 0
						c.Add("nondeterministic_replays", 1)
					}
				}()
				return ch.Choose(n)
			}
			dec := e.srv.Decide
			e.srv.Decide = func(x *acmesrv.Exchange) acmesrv.Answer {
				a := dec(x)
				if a != acmesrv.Default {
					e.choices = append(e.choices, fmt.Sprintf("#%d:%s", x.Seq, a))
				}
				return a
			}
			e.execute()
			if c.WantSample() && ch.Deviations() == sc.bound && len(e.srv.Log) > 5 {
				c.Sample(map[string]any{"scenario": sc.name, "kid_preset": sc.kid, "retry_limit": sc.limit, "answers": e.choices, "transcript": e.transcript()})
			}
		})
		execs.Add(n)
		mu.Lock()
		perBound[sc.bound] += n
		mu.Unlock()
	})
	c.Set("executions", execs.Load())
	c.Set("executions_by_bound", map[string]int64{"<=1": perBound[1], "<=2": perBound[2], "<=3": perBound[3]})
}

// replay re-runs the execution recorded in a violation's detail.
func replay(c *vf.Ctx, w *world, scs []*scenario) {
	d, _ := c.Replay["detail"].(map[string]any)
	name, _ := d["scenario"].(string)
	kid, _ := d["kid_preset"].(bool)
	limit, _ := d["retry_limit"].(float64)
	ans, _ := d["answers"].([]any)
	want := map[int]string{}
	for _, a := range ans {
		var seq int
		var nm string
		s, _ := a.(string)
		if i := strings.Index(s, ":"); i > 0 {
			fmt.Sscanf(s[1:i], "%d", &seq)
			nm = s[i+1:]
		}
		want[seq] = nm
	}
	for _, sc := range scs {
		if sc.name != name || sc.kid != kid || sc.limit != int(limit) {
			continue
		}
		e := newEnv(c, w, sc, nil)
		e.srv.Decide = func(x *acmesrv.Exchange) acmesrv.Answer {
			for a := acmesrv.Default; a < acmesrv.NumAnswers; a++ {
				if a.String() == want[x.Seq] {
					e.choices = append(e.choices, fmt.Sprintf("#%d:%s", x.Seq, a))
					return a
				}
			}
			return acmesrv.Default
		}
		e.execute()
		c.Eval(1)
		for _, l := range e.transcript() {
			fmt.Println(l)
		}
		return
	}
	fmt.Println("replay: scenario not found")
}
