package main

// Part H: hardening dimensions (HARDEN.md A-E) for C49.
//
//	H1 (C/E) payload lengths: every length 0..130 (all base64url remainder classes, the SHA-256/512
//	         block boundaries of the signing input) and 2^k + {-1,0,1} up to 2^16 (thorough 2^20),
//	         as pre-encoded string claim set and inside a JSON struct, x {RS256, ES256, ES384, ES512}
//	         x {jwk, kid}; url / kid / nonce lengths 0..12 past a fixed prefix (every remainder class
//	         of the protected header)
//	H2 (E)   RSA moduli whose octet length is not a multiple of 3 or 4 and not 256 (2040- and
//	         2056-bit keys generated at run time): n in the JWK, thumbprint, signature length
//	H3 (A/B) the caller's objects: the MAC key, the payload and the public key handed to jwsWithMAC /
//	         jwkEncode / JWKThumbprint / jwsEncodeJSON are unchanged afterwards; a second call with
//	         the same (reused) objects gives the same MAC / JWK / thumbprint / RS256 JWS; the MAC key
//	         slice is overwritten by the caller between calls and restored
//	H4 (E)   MAC keys whose first or last octet is a special value (NUL, TAB, LF, VT, FF, CR, SP,
//	         0x85, 0xA0, 0xFF, '=' , '"') x key lengths {1, 2, 32, 64, 65}; MAC payload lengths 0..130
//	         and 2^k + {-1,0,1}
//	H5 (E)   keys the property does not cover (ECDSA P-224, Ed25519): an error, never a panic

import (
	"bytes"
	"crypto"
	"crypto/ecdsa"
	"crypto/ed25519"
	"crypto/elliptic"
	"crypto/rand"
	"crypto/rsa"
	"encoding/json"
	"fmt"
	"strings"

	"golang.org/x/crypto/acme"
	jose "verif/ref/joseref"
	"verif/vf"
)

func pubSnapshot(pub crypto.PublicKey) string {
	switch k := pub.(type) {
	case *rsa.PublicKey:
		return fmt.Sprintf("rsa %x %d", k.N, k.E)
	case *ecdsa.PublicKey:
		return fmt.Sprintf("ec %s %x %x", k.Curve.Params().Name, k.X, k.Y)
	}
	return fmt.Sprint(pub)
}

func hardLens(c *vf.Ctx) []int {
	var lens []int
	for n := 0; n <= 130; n++ {
		lens = append(lens, n)
	}
	top := 16
	if c.Thorough {
		top = 20
	}
	for k := 8; k <= top; k++ {
		lens = append(lens, 1<<k-1, 1<<k, 1<<k+1)
	}
	return lens
}

func partHarden(c *vf.Ctx, signers []*signerCase) {
	// one standard signer per algorithm, plus run-time RSA keys of unusual modulus length
	var base []*signerCase
	seenAlg := map[string]bool{}
	for _, s := range signers {
		if s.det == nil && !seenAlg[s.alg] && (s.ec == nil || s.ec.class == "full") {
			seenAlg[s.alg] = true
			base = append(base, s)
		}
	}
	var odd []*signerCase
	for _, bits := range []int{2040, 2056} {
		k, err := rsa.GenerateKey(rand.Reader, bits)
		if err != nil {
			c.Capped(fmt.Sprintf("RSA-%d key generation failed: %v", bits, err))
			continue
		}
		odd = append(odd, &signerCase{name: fmt.Sprintf("rsa%d", bits), alg: "RS256", signer: k})
	}
	c.Set("harden_base_signers", len(base)+len(odd))

	// ---- H1 / H2: lengths ----
	type unit struct {
		s    *signerCase
		p    payloadCase
		kid  string
		url  string
		nonc string
	}
	var units []unit
	long := c.Bytes("c49-h-payload", 0, 1<<20+2)
	for _, s := range append(append([]*signerCase{}, base...), odd...) {
		for li, n := range hardLens(c) {
			if n > 200 && s.alg == "RS256" && s.name != "rsa2048" && !c.Thorough {
				continue
			}
			raw := long[:n]
			kid := []string{"", "https://ca.test/acme/acct/7"}[li%2]
			units = append(units, unit{s, payloadCase{name: fmt.Sprintf("string-%dB", n), claim: jose.B64Encode(raw), raw: raw}, kid, "https://ca.test/acme/new-order", "bm9uY2U"})
			if n <= 130 || li%3 == 0 {
				csr := struct {
					CSR string `json:"csr"`
				}{jose.B64Encode(raw)}
				units = append(units, unit{s, payloadCase{name: fmt.Sprintf("struct-%dB", n), claim: csr, json: true}, []string{"https://ca.test/acme/acct/7", ""}[li%2], "https://ca.test/acme/finalize/1", "bm9uY2U"})
			}
		}
		for n := 0; n <= 12; n++ {
			pad := strings.Repeat("u", n)
			units = append(units, unit{s, payloadCase{name: "empty", claim: acme.VerifC49NoPayload, raw: []byte{}}, "https://ca.test/a/" + pad, "https://ca.test/o/" + pad, "N" + pad})
			units = append(units, unit{s, payloadCase{name: "empty", claim: acme.VerifC49NoPayload, raw: []byte{}}, "", "https://ca.test/o/" + pad, ""})
		}
	}
	c.Set("harden_length_points", len(units))
	c.ParallelFor(len(units), func(i int) {
		u := units[i]
		desc := map[string]any{"part": "H1", "signer": u.s.name, "payload": u.p.name, "form": formName(u.kid), "url_len": len(u.url), "nonce_len": len(u.nonc)}
		snap := pubSnapshot(u.s.pub())
		var rawBefore []byte
		if rm, ok := u.p.claim.(json.RawMessage); ok {
			rawBefore = append([]byte(nil), rm...)
		}
		var body []byte
		var err error
		pan, val, stack := vf.Protect(func() {
			body, err = acme.VerifC49JWSEncodeJSON(u.p.claim, u.s.signer, acme.KeyID(u.kid), u.nonc, u.url)
		})
		c.Eval(1)
		if pan {
			c.Violation("jwsEncodeJSON panics ("+u.s.alg+")", map[string]any{"case": desc, "panic": fmt.Sprint(val), "stack": stack})
			return
		}
		if err != nil {
			c.Violation("jwsEncodeJSON: error for a supported key ("+u.s.alg+"): "+classify(err.Error()), map[string]any{"case": desc, "err": err.Error()})
			return
		}
		if cls, detail := verifyRequestJWS(body, u.s.pub(), u.s.alg, u.kid, u.nonc, u.url, u.p); cls != "" {
			desc["reason"] = detail
			if len(body) < 4000 {
				desc["jws"] = string(body)
			}
			c.Violation("jws "+u.s.alg+" "+formName(u.kid)+": "+cls, desc)
			return
		}
		if pubSnapshot(u.s.pub()) != snap {
			c.Violation("jwsEncodeJSON modifies the caller's public key", desc)
		}
		if rm, ok := u.p.claim.(json.RawMessage); ok && !bytes.Equal(rm, rawBefore) {
			c.Violation("jwsEncodeJSON modifies the caller's claim set", desc)
		}
		if u.s.alg == "RS256" && i%4 == 0 { // PKCS#1 v1.5 is deterministic: a second call with the same objects gives the same bytes
			again, err2 := acme.VerifC49JWSEncodeJSON(u.p.claim, u.s.signer, acme.KeyID(u.kid), u.nonc, u.url)
			c.Eval(1)
			if err2 != nil || !bytes.Equal(again, body) {
				c.Violation("jwsEncodeJSON: a second call with the same arguments gives a different RS256 JWS", desc)
			}
		}
		c.Nontrivial(strings.Join([]string{"H1", u.s.name, u.p.name, formName(u.kid), fmt.Sprint(len(u.url)), fmt.Sprint(len(u.nonc))}, "|"))
		c.Outcome("H1 " + u.s.alg + " verified")
	})

	// ---- H2: JWK and thumbprint of the unusual RSA keys; H3: objects unchanged, calls repeatable ----
	for _, s := range append(append([]*signerCase{}, signers...), odd...) {
		if s.det != nil {
			continue
		}
		pub := s.pub()
		snap := pubSnapshot(pub)
		desc := map[string]any{"part": "H3", "key": s.name}
		var jwk1, jwk2, th1, th2 string
		var e1, e2, e3, e4 error
		pan, val, stack := vf.Protect(func() {
			jwk1, e1 = acme.VerifC49JWKEncode(pub)
			th1, e2 = acme.JWKThumbprint(pub)
			jwk2, e3 = acme.VerifC49JWKEncode(pub)
			th2, e4 = acme.JWKThumbprint(pub)
		})
		c.Eval(4)
		if pan {
			c.Violation("jwkEncode / JWKThumbprint panics", map[string]any{"case": desc, "panic": fmt.Sprint(val), "stack": stack})
			continue
		}
		if e1 != nil || e2 != nil || e3 != nil || e4 != nil {
			c.Violation("jwkEncode / JWKThumbprint: error for a supported key", map[string]any{"case": desc, "err": fmt.Sprint(e1, e2, e3, e4)})
			continue
		}
		if jwk1 != jwk2 || th1 != th2 {
			c.Violation("jwkEncode / JWKThumbprint: a second call with the same key gives a different result", desc)
		}
		if pubSnapshot(pub) != snap {
			c.Violation("jwkEncode / JWKThumbprint modifies the caller's public key", desc)
		}
		want, err := jose.CanonicalJWK(pub)
		wantTh, err2 := jose.Thumbprint(pub)
		if err != nil || err2 != nil {
			c.Violation("harness: reference cannot canonicalise the key", desc)
			continue
		}
		got, perr := jose.ParsePublicJWK([]byte(jwk1))
		switch {
		case perr != nil:
			c.Violation("jwkEncode: rejected by the reference JWK parser ("+s.alg+"): "+classify(perr.Error()), map[string]any{"case": desc, "jwk": jwk1})
		case !jose.SamePublicKey(got, pub):
			c.Violation("jwkEncode: the JWK is not the key", map[string]any{"case": desc, "jwk": jwk1})
		case jwk1 != want:
			c.Violation("jwkEncode: not the RFC 7638 canonical form of the key", map[string]any{"case": desc, "jwk": jwk1, "want": want})
		case th1 != wantTh:
			c.Violation("thumbprint: differs from RFC 7638 for "+s.alg+" key", map[string]any{"case": desc, "got": th1, "want": wantTh})
		default:
			c.Nontrivial("H3 " + s.name)
		}
	}

	// ---- H3 / H4: jwsWithMAC ----
	type macUnit struct {
		name    string
		key     []byte
		payload []byte
		kid     string
		url     string
	}
	var mus []macUnit
	special := []byte{0x00, 0x09, 0x0a, 0x0b, 0x0c, 0x0d, 0x20, 0x85, 0xa0, 0xff, '=', '"'}
	for _, kl := range []int{1, 2, 32, 64, 65} {
		for _, b := range special {
			for pos := 0; pos < 3; pos++ { // first, last, both
				key := c.Bytes("c49-h-mac", kl, kl)
				for j := range key { // keep the interior free of accidental specials
					if bytes.IndexByte(special, key[j]) >= 0 {
						key[j] = 'k'
					}
				}
				if pos != 1 {
					key[0] = b
				}
				if pos != 0 {
					key[kl-1] = b
				}
				mus = append(mus, macUnit{fmt.Sprintf("key of %d octets with 0x%02x at %s", kl, b, []string{"the start", "the end", "both ends"}[pos]), key, []byte(`{"kty":"x"}`), "kid-1", "https://ca.test/acme/new-acct"})
			}
		}
	}
	for li, n := range hardLens(c) {
		mus = append(mus, macUnit{fmt.Sprintf("payload of %d octets", n), c.Bytes("c49-h-mac", 1000+li%7, 1+li%70), long[:n], []string{"kid-1", "k\"<&>ü", ""}[li%3], []string{"https://ca.test/acme/new-acct", ""}[li%2]})
	}
	c.Set("harden_mac_points", len(mus))
	c.ParallelFor(len(mus), func(i int) {
		u := mus[i]
		desc := map[string]any{"part": "H4", "case": u.name, "mac_key": fmt.Sprintf("%x", u.key)}
		key := append([]byte(nil), u.key...)
		pay := append([]byte(nil), u.payload...)
		var prot, p64, sig string
		var err error
		pan, val, stack := vf.Protect(func() { prot, p64, sig, err = acme.VerifC49JWSWithMAC(key, u.kid, u.url, pay) })
		c.Eval(1)
		if pan {
			c.Violation("jwsWithMAC panics", map[string]any{"case": desc, "panic": fmt.Sprint(val), "stack": stack})
			return
		}
		if err != nil {
			c.Violation("jwsWithMAC: error: "+classify(err.Error()), desc)
			return
		}
		if !bytes.Equal(key, u.key) || !bytes.Equal(pay, u.payload) {
			c.Violation("jwsWithMAC modifies the caller's MAC key or payload", desc)
			return
		}
		j, err := jose.FromParts(prot, p64, sig)
		if err == nil {
			err = j.VerifyHS256(u.key)
		}
		if err != nil {
			desc["protected"], desc["signature"], desc["reason"] = prot, sig, err.Error()
			c.Violation("eab: "+classify(err.Error()), desc)
			return
		}
		if !bytes.Equal(j.PayloadBytes, u.payload) {
			c.Violation("eab: payload octets differ", desc)
			return
		}
		alg, _, _ := j.HeaderString("alg")
		kid, hasKid, _ := j.HeaderString("kid")
		url, hasURL, _ := j.HeaderString("url")
		if alg != "HS256" || !hasKid || kid != u.kid || url != u.url || hasURL != (u.url != "") || len(j.HeaderNames) != 2+map[bool]int{true: 1, false: 0}[u.url != ""] {
			desc["header"] = string(j.HeaderJSON)
			c.Violation("eab: protected header is not {alg: HS256, kid, url}", desc)
			return
		}
		// the caller reuses its key buffer for something else and then restores it: the next call must not be affected by what the first one saw
		for k := range key {
			key[k] ^= 0xFF
		}
		copy(key, u.key)
		prot2, p642, sig2, err2 := acme.VerifC49JWSWithMAC(key, u.kid, u.url, pay)
		c.Eval(1)
		if err2 != nil || prot2 != prot || p642 != p64 || sig2 != sig {
			c.Violation("jwsWithMAC: a second call with the same key and payload gives a different JWS", desc)
			return
		}
		c.Nontrivial("H4 " + u.name)
		c.Outcome("H4 MAC verified")
	})

	// ---- H5: keys outside the property: refused with an error ----
	p224, _ := ecdsa.GenerateKey(elliptic.P224(), rand.Reader)
	_, ed, _ := ed25519.GenerateKey(rand.Reader)
	for name, k := range map[string]crypto.Signer{"ECDSA P-224": p224, "Ed25519": ed} {
		var err error
		pan, val, stack := vf.Protect(func() {
			_, err = acme.VerifC49JWSEncodeJSON(json.RawMessage(`{}`), k, "", "n", "https://ca.test/x")
		})
		c.Eval(1)
		if pan {
			c.Violation("jwsEncodeJSON panics (unsupported key)", map[string]any{"key": name, "panic": fmt.Sprint(val), "stack": stack})
		} else if err == nil {
			c.Violation("jwsEncodeJSON: a key without a JWS algorithm in RFC 8555 / RFC 7518 is accepted", map[string]any{"key": name})
		} else {
			c.Outcome("H5 unsupported key refused")
		}
	}
}
