// C49: ACME request signing is standards-conformant.
//
// Part A (grid, through the hook acme/verif_c49.go): jwsEncodeJSON for every account key
// (RSA-2048 e=65537, RSA-2048 e=3, RSA-3072; P-256/P-384/P-521 keys whose scalars come from a
// deterministic search so that X and/or Y start with zero octets) x signer variant (the
// standard *ecdsa.PrivateKey with random nonces; a textbook-ECDSA crypto.Signer whose nonce
// is searched so that R and/or S start with a zero octet) x payload class x {jwk, 3 kid
// classes} x nonce class (incl. absent) x URL class. Every JWS is parsed and verified by
// the independent verifier verif/ref/joseref.
// Part B: jwkEncode / JWKThumbprint against RFC 7638 (own canonical JSON), RFC 7638 3.1 KAT.
// Part C: jwsWithMAC against RFC 7515/7518 HS256 with an own HMAC, EAB rules of RFC 8555 7.3.4.
// Part D: the public Client driven through a whole account/order/certificate life cycle
// on an in-process RoundTripper (verif/ref/acmesrv); every POST body actually sent is
// verified the same way (jwk form for newAccount and certificate-key revocation, kid form
// otherwise, inner key-change JWS, externalAccountBinding).
package main

import (
	"bytes"
	"context"
	"crypto"
	"crypto/ecdh"
	"crypto/ecdsa"
	"crypto/elliptic"
	"crypto/rsa"
	"encoding/json"
	"errors"
	"fmt"
	"net/http"
	"reflect"
	"regexp"
	"strings"
	"sync"
	"time"

	"golang.org/x/crypto/acme"

	"verif/ref/acmesrv"
	jose "verif/ref/joseref"
	"verif/vf"
)

func main() { vf.Main("C49", vf.Exploration, run) }

// signerCase is one way of signing with one account key.
type signerCase struct {
	name   string
	alg    string
	signer crypto.Signer
	det    *detSigner // nil for standard-library keys
	ec     *ecKey
	hunt   bool // the wanted signature class needs a search over message variants
}

func (s *signerCase) pub() crypto.PublicKey { return s.signer.Public() }

var quoted = regexp.MustCompile(`"[^"]*"|[0-9]+`)

// classify turns an error text into a stable violation class fragment.
func classify(reason string) string {
	r := quoted.ReplaceAllString(reason, "_")
	if len(r) > 100 {
		r = r[:100]
	}
	return r
}

type payloadCase struct {
	name  string
	claim interface{}
	raw   []byte // expected payload octets when exact
	json  bool   // compare as JSON values with json.Marshal(claim)
}

func jsonEqual(a, b []byte) bool {
	var x, y interface{}
	if json.Unmarshal(a, &x) != nil || json.Unmarshal(b, &y) != nil {
		return false
	}
	return reflect.DeepEqual(x, y)
}

func sigWidthClass(pub crypto.PublicKey, sig []byte) string {
	ep, ok := pub.(*ecdsa.PublicKey)
	if !ok {
		return "rsa"
	}
	n := jose.CoordLen(ep.Curve)
	if len(sig) != 2*n {
		return "badlen"
	}
	r0, s0 := sig[0] == 0, sig[n] == 0
	switch {
	case r0 && s0:
		return sigClassNames[sigR0S0]
	case r0:
		return sigClassNames[sigR0]
	case s0:
		return sigClassNames[sigS0]
	}
	return sigClassNames[sigFull]
}

func run(c *vf.Ctx) {
	c.Rule("grid point = (account key incl. coordinate-width class, signer variant incl. wanted R/S width class, payload class, jwk or kid class, nonce class, url class); " +
		"distinct non-trivial = distinct (alg, key class, OBSERVED R/S width class, payload, form, nonce class, url class) whose JWS was verified by the reference; " +
		"client part: one case per (account key, operation) whose captured POST body was verified; " +
		"part H: payload of EVERY length 0..130 and 2^k+{-1,0,1} (k=8..16, thorough ..20) as string claim set and inside a struct x {RS256, ES256, ES384, ES512, RSA-2040, RSA-2056} x {jwk, kid}, url/kid/nonce lengths 0..12 past a prefix; " +
		"MAC keys with a special octet {NUL,TAB,LF,VT,FF,CR,SP,0x85,0xA0,0xFF,'=','\"'} first/last/both x key length {1,2,32,64,65}, MAC payload lengths as above; arguments unchanged by the calls, second call with the same objects identical")
	c.Assume("crypto/rsa, crypto/ecdsa (verification), crypto/ecdh (scalar multiplication for the key/nonce search), crypto/sha256/512, encoding/json, math/big are trusted")
	c.Assume("values (scalars, payload bytes, MAC keys) come from a fixed alphabet plus the seed; the statement is about every enumerated shape, not every key")

	tabs := []*curveTab{
		buildTab(c, "P-256", elliptic.P256(), ecdh.P256()),
		buildTab(c, "P-384", elliptic.P384(), ecdh.P384()),
		buildTab(c, "P-521", elliptic.P521(), ecdh.P521()),
	}
	rsaKeys := map[string]*rsa.PrivateKey{"rsa2048": loadRSA("rsa2048"), "rsa2048e3": loadRSA("rsa2048e3"), "rsa3072": loadRSA("rsa3072")}

	var signers []*signerCase
	for _, n := range []string{"rsa2048", "rsa2048e3", "rsa3072"} {
		signers = append(signers, &signerCase{name: n, alg: "RS256", signer: rsaKeys[n]})
	}
	keyClassSeen := map[string]bool{}
	var ecKeys []*ecKey
	for _, t := range tabs {
		for _, k := range t.findKeys() {
			ecKeys = append(ecKeys, k)
			keyClassSeen[t.name+"/"+k.class] = true
			alg := jose.AlgFor(k.pub)
			base := fmt.Sprintf("%s/%s", t.name, k.class)
			signers = append(signers, &signerCase{name: base + "/std", alg: alg, signer: k.realKey(), ec: k})
			classes := []sigClass{sigFull, sigR0, sigS0, sigR0S0}
			if k.class != "full" && k.class != "x0" && k.class != "y0" {
				classes = []sigClass{sigFull}
			}
			for _, sc := range classes {
				d := &detSigner{key: k, class: sc}
				signers = append(signers, &signerCase{name: base + "/det-" + sigClassNames[sc], alg: alg, signer: d, det: d, ec: k, hunt: sc == sigR0S0})
			}
		}
	}
	for _, t := range tabs {
		for _, cl := range []string{"full", "x0", "y0"} {
			if !keyClassSeen[t.name+"/"+cl] {
				c.Capped("key search: no " + t.name + " scalar of class " + cl + " in the window")
			}
		}
		if len(t.rShort) == 0 {
			c.Capped("nonce search: no " + t.name + " nonce with a short R in the window")
		}
	}
	c.Set("ec_keys", len(ecKeys))
	c.Set("signer_cases", len(signers))

	partThumbprint(c, signers)
	partGrid(c, signers)
	partEAB(c, signers)
	partHarden(c, signers)
	partClient(c, signers, rsaKeys)
}

// ---------------------------------------------------------------------------
// Part B
// ---------------------------------------------------------------------------

func partThumbprint(c *vf.Ctx, signers []*signerCase) {
	// RFC 7638 section 3.1 through the real code
	const n = "0vx7agoebGcQSuuPiLJXZptN9nndrQmbXEps2aiAFbWhM78LhWx4cbbfAAt" +
		"VT86zwu1RK7aPFFxuhDR1L6tSoc_BJECPebWKRXjBZCiFV4n3oknjhMstn6" +
		"4tZ_2W-5JsGY4Hc5n9yBXArwl93lqt7_RN5w6Cf0h4QyQ5v-65YGjQR0_FD" +
		"W2QvzqY368QQMicAtaSqzs8KJZgnYb9c7d0zgdAZHzu6qMQvRL5hajrn1n9" +
		"1CbOpbISD08qNLyrdkt-bFTWhAI4vMQFh6WeZu0fM4lFd2NcRwr3XPksINH" +
		"aQ-G_xBniIqbw0Ls1jF44-csFCur-kEgU8awapJzKnqDKgw"
	pub, err := jose.ParsePublicJWK([]byte(`{"kty":"RSA","e":"AQAB","n":"` + n + `"}`))
	if err != nil {
		panic(err)
	}
	c.Eval(1)
	if th, err := acme.JWKThumbprint(pub); err != nil || th != "NzbLsXh8uDCcd-6MNwXF4W_7noWXFZAfHkxZsRGC9Xs" {
		c.Violation("thumbprint: RFC 7638 section 3.1 example", map[string]any{"got": th, "err": fmt.Sprint(err)})
	}
	seen := map[string]bool{}
	for _, s := range signers {
		p := s.pub()
		want, err := jose.Thumbprint(p)
		if err != nil {
			panic(err)
		}
		if seen[want] {
			continue
		}
		seen[want] = true
		kname := keyClass(s)
		c.Eval(2)
		got, err := acme.JWKThumbprint(p)
		if err != nil || got != want {
			canon, _ := jose.CanonicalJWK(p)
			c.Violation("thumbprint: differs from RFC 7638 for "+s.alg+" key", map[string]any{"key": kname, "got": got, "want": want, "err": fmt.Sprint(err), "canonical": canon})
		}
		viaHook, err2 := acme.VerifC49JWKThumbprint(p)
		if err2 != nil || viaHook != got {
			c.Violation("thumbprint: hook disagrees with JWKThumbprint", kname)
		}
		// jwkEncode must be a JWK of exactly this public key with fixed-width coordinates
		enc, err := acme.VerifC49JWKEncode(p)
		if err != nil {
			c.Violation("jwkEncode: error for "+s.alg+" key", map[string]any{"key": kname, "err": err.Error()})
			continue
		}
		back, err := jose.ParsePublicJWK([]byte(enc))
		if err != nil {
			c.Violation("jwkEncode: rejected by the reference JWK parser ("+s.alg+"): "+classify(err.Error()), map[string]any{"key": kname, "jwk": enc, "err": err.Error()})
			continue
		}
		if !jose.SamePublicKey(back, p) {
			c.Violation("jwkEncode: encodes a different key ("+s.alg+")", map[string]any{"key": kname, "jwk": enc})
		}
		c.Nontrivial("thumbprint|" + kname)
	}
	// unsupported keys must be refused, not mis-encoded
	if _, err := acme.JWKThumbprint(struct{}{}); err == nil {
		c.Violation("thumbprint: accepts an unsupported key type", nil)
	}
}

// ---------------------------------------------------------------------------
// Part A
// ---------------------------------------------------------------------------

type strClass struct{ name, val string }

func partGrid(c *vf.Ctx, signers []*signerCase) {
	raw200 := c.Bytes("c49-payload-200", 0, 200)
	csr := struct {
		CSR string `json:"csr"`
	}{jose.B64Encode(c.Bytes("c49-csr", 0, 200))}
	payloads := []payloadCase{
		{name: "empty", claim: acme.VerifC49NoPayload, raw: []byte{}},
		{name: "rawobject", claim: json.RawMessage(`{"status": "deactivated", "n": [1, 2, {"a": null}]}`), json: true},
		{name: "struct-200B", claim: csr, json: true},
		{name: "string-200B", claim: jose.B64Encode(raw200), raw: raw200},
		{name: "escapes", claim: map[string]interface{}{"a<b>&c": "\u00fc\u2028\"\\/", "t": true}, json: true},
	}
	long := func(prefix string, n int) string {
		return prefix + jose.B64Encode(c.Bytes("c49-long-"+prefix, 0, n))
	}
	kids := []strClass{
		{"jwk", ""},
		{"kid-plain", "https://ca.test/acme/acct/1"},
		{"kid-escapes", "https://ca.test/acct/\"q\"\\?a=1&b=<\u00fc\u2028>"},
		{"kid-long", long("https://ca.test/acct/", 240)},
		{"kid-control", "https://ca.test/acct/\x01\a\v\x7f\x1f\t\r\n"},
	}
	nonces := []strClass{
		{"absent", ""},
		{"short", "A"},
		{"typical", jose.B64Encode(c.Bytes("c49-nonce", 0, 32))},
		{"long", long("", 300)},
		{"escapes", "n\"o\\n<c>&e \u00e9\u2029"},
		{"control", "n\x00\x01\a\b\f\v\x1b\x7f"}, // control characters and DEL: strings the header must carry as valid JSON (invalid UTF-8 is left out: JSON cannot carry it)
	}
	urls := []strClass{
		{"plain", "https://ca.test/acme/new-order"},
		{"escapes", "https://ca.test:14000/a/b?x=1&y=<2>\"\\#frag \u00fc"},
		{"long", long("https://ca.test/acme/order/", 400)},
		{"control", "https://ca.test/o/\x01\a\v\x7f"},
	}
	// quick: the full key x signer x payload x form grid with the nonce/url cross product
	// thinned to every value of each against the plain value of the other; thorough: full.
	type unit struct {
		s  *signerCase
		p  payloadCase
		k  strClass
		nc strClass
		u  strClass
	}
	var units []unit
	for _, s := range signers {
		for _, p := range payloads {
			for _, k := range kids {
				for ni, nc := range nonces {
					for ui, u := range urls {
						if !c.Thorough && ni != 2 && ui != 0 {
							continue
						}
						units = append(units, unit{s, p, k, nc, u})
					}
				}
			}
		}
	}
	c.Set("grid_points", len(units))
	sigSeen := map[string]bool{}
	var sigMu sync.Mutex
	c.ParallelFor(len(units), func(i int) {
		u := units[i]
		desc := map[string]any{"signer": u.s.name, "payload": u.p.name, "form": u.k.name, "nonce": u.nc.name, "url": u.u.name}
		var body []byte
		var err error
		nonce := u.nc.val
		tries := 1
		if u.s.hunt && nonce != "" {
			tries = 4096
		}
		for v := 0; v < tries; v++ {
			if v > 0 {
				nonce = fmt.Sprintf("%s.%d", u.nc.val, v) // search over message variants
			}
			pan, val, stack := vf.Protect(func() {
				body, err = acme.VerifC49JWSEncodeJSON(u.p.claim, u.s.signer, acme.KeyID(u.k.val), nonce, u.u.val)
			})
			if pan {
				c.Violation("jwsEncodeJSON panics ("+u.s.alg+")", map[string]any{"case": desc, "panic": fmt.Sprint(val), "stack": stack})
				return
			}
			if !errors.Is(err, errNoNonce) {
				break
			}
		}
		c.Eval(1)
		if errors.Is(err, errNoNonce) {
			// the deterministic search did not reach the R/S class for this message: not a verdict
			c.Add("sig_class_not_reached", 1)
			return
		}
		if err != nil {
			c.Violation("jwsEncodeJSON: error for a supported key ("+u.s.alg+"): "+classify(err.Error()), map[string]any{"case": desc, "err": err.Error()})
			return
		}
		cls, detail := verifyRequestJWS(body, u.s.pub(), u.s.alg, u.k.val, nonce, u.u.val, u.p)
		if cls != "" {
			desc["jws"] = string(body)
			desc["reason"] = detail
			c.Violation("jws "+u.s.alg+" "+formName(u.k.val)+": "+cls, desc)
			return
		}
		j, _ := jose.ParseFlattened(body)
		w := sigWidthClass(u.s.pub(), j.SigBytes)
		kc := "rsa"
		if u.s.ec != nil {
			kc = u.s.ec.class
		}
		c.Nontrivial(strings.Join([]string{"jws", u.s.alg, kc, w, u.p.name, u.k.name, u.nc.name, u.u.name}, "|"))
		c.Outcome(u.s.alg + " " + w)
		sigMu.Lock()
		sigSeen[u.s.alg+" "+w] = true
		sigMu.Unlock()
		if c.WantSample() && i%997 == 0 {
			c.Sample(map[string]any{"case": desc, "sig_width_class": w, "jws_len": len(body)})
		}
	})
	for _, alg := range []string{"ES256", "ES384", "ES512"} {
		for _, w := range []string{sigClassNames[sigR0], sigClassNames[sigS0], sigClassNames[sigFull]} {
			if !sigSeen[alg+" "+w] {
				c.Capped("signature width class never produced: " + alg + " " + w)
			}
		}
	}
	// unsupported key: refused
	if _, err := acme.VerifC49JWSEncodeJSON("", nil, "", "n", "u"); err == nil {
		c.Violation("jwsEncodeJSON: nil key accepted", nil)
	}
}

func formName(kid string) string {
	if kid == "" {
		return "jwk-form"
	}
	return "kid-form"
}

// verifyRequestJWS is the oracle for one request JWS; it returns a violation class
// fragment and detail, or "".
func verifyRequestJWS(body []byte, pub crypto.PublicKey, alg, kid, nonce, url string, p payloadCase) (string, string) {
	j, err := jose.ParseFlattened(body)
	if err != nil {
		return "not a flattened JWS: " + classify(err.Error()), err.Error()
	}
	req, err := j.CheckACME(nonce != "", func(k string) crypto.PublicKey {
		if k == kid {
			return pub
		}
		return nil
	})
	if err != nil {
		return classify(err.Error()), err.Error()
	}
	if req.Alg != alg {
		return "alg is not the one of the key", req.Alg
	}
	if kid == "" {
		if req.Mode != "jwk" {
			return "kid form where jwk form was requested", ""
		}
		if !jose.SamePublicKey(req.JWK, pub) {
			return "embedded jwk is not the signing key", string(req.JWKRaw)
		}
	} else {
		if req.Mode != "kid" || req.KID != kid {
			return "kid differs from the requested key id", req.KID
		}
	}
	if req.Nonce != nonce {
		return "nonce value altered", req.Nonce
	}
	if req.URL != url {
		return "url value altered", req.URL
	}
	switch {
	case p.json:
		want, err := json.Marshal(p.claim)
		if err != nil {
			panic(err)
		}
		if !jsonEqual(want, req.Payload) {
			return "payload is not the JSON encoding of the claim set", string(req.Payload)
		}
	case p.raw != nil:
		if !bytes.Equal(req.Payload, p.raw) {
			return "payload octets differ", fmt.Sprintf("%x", req.Payload)
		}
		if len(p.raw) == 0 && j.Payload != "" {
			return "POST-as-GET payload is not the empty string", j.Payload
		}
	}
	return "", ""
}

// ---------------------------------------------------------------------------
// Part C
// ---------------------------------------------------------------------------

func partEAB(c *vf.Ctx, signers []*signerCase) {
	keyLens := []int{1, 31, 32, 33, 63, 64, 65, 100, 200}
	kids := []strClass{{"plain", "eab-kid-1"}, {"escapes", "k\"i\\d<&>\u00fc"}, {"long", strings.Repeat("K", 300)}}
	urls := []strClass{{"plain", "https://ca.test/acme/new-acct"}, {"escapes", "https://ca.test/new-acct?x=\"<&>\u00fc"}}
	seen := map[string]bool{}
	for _, s := range signers {
		pub := s.pub()
		th, _ := jose.Thumbprint(pub)
		if seen[th] {
			continue
		}
		seen[th] = true
		kname := keyClass(s)
		jwk, err := acme.VerifC49JWKEncode(pub)
		if err != nil {
			continue // reported by part B
		}
		for li, kl := range keyLens {
			mac := c.Bytes("c49-mac-key", li, kl)
			for _, kid := range kids {
				for _, u := range urls {
					c.Eval(1)
					prot, pay, sig, err := acme.VerifC49JWSWithMAC(mac, kid.val, u.val, []byte(jwk))
					desc := map[string]any{"key": kname, "mac_key_len": kl, "kid": kid.name, "url": u.name}
					if err != nil {
						c.Violation("jwsWithMAC: error: "+classify(err.Error()), desc)
						continue
					}
					j, err := jose.FromParts(prot, pay, sig)
					if err == nil {
						err = j.CheckEAB(mac, kid.val, u.val, pub)
					}
					if err != nil {
						desc["protected"], desc["payload"], desc["signature"], desc["reason"] = prot, pay, sig, err.Error()
						c.Violation("eab: "+classify(err.Error()), desc)
						continue
					}
					// a different key must not verify (guards against a vacuous verifier)
					other := append([]byte(nil), mac...)
					other[0] ^= 0x80
					if j.VerifyHS256(other) == nil {
						panic("reference HS256 verifier accepts a wrong key")
					}
					c.Nontrivial(fmt.Sprintf("eab|%s|%d|%s|%s", s.alg, kl, kid.name, u.name))
				}
			}
		}
	}
	c.Eval(1)
	if _, _, _, err := acme.VerifC49JWSWithMAC(nil, "k", "u", []byte("{}")); err == nil {
		c.Outcome("jwsWithMAC accepts an empty key")
	}
}

// ---------------------------------------------------------------------------
// Part D: the requests the Client actually sends
// ---------------------------------------------------------------------------

type clientUnit struct {
	acct    *signerCase
	newKey  *signerCase
	certKey *signerCase
	macLen  int
}

func partClient(c *vf.Ctx, signers []*signerCase, rsaKeys map[string]*rsa.PrivateKey) {
	byName := map[string]*signerCase{}
	var ecFullDet []*signerCase
	for _, s := range signers {
		byName[s.name] = s
		if s.det != nil && s.det.class == sigFull && s.ec.class == "full" {
			ecFullDet = append(ecFullDet, s)
		}
	}
	var units []clientUnit
	macLens := []int{1, 32, 64, 65, 100}
	i := 0
	for _, s := range signers {
		if s.hunt {
			continue // RS-short needs a message search; the messages are fixed here
		}
		// roll over to / revoke with keys of other types so that every alg also occurs as
		// inner key-change signer and as certificate key
		nk := signers[(i*7+3)%len(signers)]
		for nk.hunt || nk == s {
			nk = ecFullDet[i%len(ecFullDet)]
			if nk == s {
				nk = byName["rsa2048"]
			}
		}
		ck := signers[(i*5+11)%len(signers)]
		for ck.hunt || ck == s {
			ck = ecFullDet[(i+1)%len(ecFullDet)]
			if ck == s {
				ck = byName["rsa2048e3"]
			}
		}
		units = append(units, clientUnit{acct: s, newKey: nk, certKey: ck, macLen: macLens[i%len(macLens)]})
		i++
	}
	c.Set("client_life_cycles", len(units))
	c.ParallelFor(len(units), func(i int) { clientFlow(c, i, units[i]) })
}

func clientFlow(c *vf.Ctx, idx int, u clientUnit) {
	srv := acmesrv.New("https://ca.test")
	srv.Terms = "https://ca.test/terms"
	mac := c.Bytes("c49-client-mac", idx, u.macLen)
	srv.EABKeys = map[string][]byte{"eab-kid-7": mac}
	nonceShapes := []int{1, 16, 32, 192}
	srv.NonceFor = func(n int) string {
		return fmt.Sprintf("%s-_%d", jose.B64Encode(c.Bytes(fmt.Sprintf("c49-srv-nonce-%d", idx), n, nonceShapes[n%len(nonceShapes)])), n)
	}
	mk := func(key crypto.Signer, kid acme.KeyID) *acme.Client {
		return &acme.Client{Key: key, KID: kid, HTTPClient: &http.Client{Transport: srv}, DirectoryURL: srv.DirURL(),
			RetryBackoff: func(int, *http.Request, *http.Response) time.Duration { return 0 }}
	}
	cl := mk(u.acct.signer, "")
	ctx := context.Background()
	csr := c.Bytes("c49-client-csr", idx, 200)
	cert := c.Bytes("c49-client-cert", idx, 200)

	type sent struct {
		op      string
		from    int // first log index of the call
		signer  *signerCase
		form    string // expected form of the main request
		payload func(p []byte) string
	}
	var calls []sent
	call := 0
	fail := func(op string, err error) {
		var tr []string
		for _, x := range srv.Log {
			tr = append(tr, x.String())
		}
		c.Violation("client "+u.acct.alg+": "+op+" fails against the conforming server: "+classify(err.Error()),
			map[string]any{"account_key": u.acct.name, "err": err.Error(), "transcript": tr})
	}
	begin := func(op string, signer *signerCase, form string) {
		call++
		srv.BeginCall(call, []string{"processing", "valid"}, []string{"pending", "valid"})
		calls = append(calls, sent{op: op, from: len(srv.Log), signer: signer, form: form})
	}
	acctKey := u.acct

	begin("Register", acctKey, "jwk")
	acct, err := cl.Register(ctx, &acme.Account{Contact: []string{"mailto:admin@example.org"},
		ExternalAccountBinding: &acme.ExternalAccountBinding{KID: "eab-kid-7", Key: mac}}, acme.AcceptTOS)
	if err != nil {
		fail("Register", err)
		return
	}
	if acct.URI != srv.AcctURL() {
		fail("Register", fmt.Errorf("account URI %q", acct.URI))
		return
	}
	// a second client without a key id: GetReg (jwk form) and a lookup-then-kid operation
	cl2 := mk(u.acct.signer, "")
	begin("GetReg", acctKey, "jwk")
	if _, err := cl2.GetReg(ctx, ""); err != nil {
		fail("GetReg", err)
		return
	}
	cl3 := mk(u.acct.signer, "")
	begin("GetOrder(no KID)", acctKey, "kid")
	if _, err := cl3.GetOrder(ctx, srv.OrderURL()); err != nil {
		fail("GetOrder without KID", err)
		return
	}

	begin("AuthorizeOrder", acctKey, "kid")
	o, err := cl.AuthorizeOrder(ctx, acme.DomainIDs("example.org"))
	if err != nil {
		fail("AuthorizeOrder", err)
		return
	}
	begin("GetOrder", acctKey, "kid")
	if _, err := cl.GetOrder(ctx, o.URI); err != nil {
		fail("GetOrder", err)
		return
	}
	begin("GetAuthorization", acctKey, "kid")
	az, err := cl.GetAuthorization(ctx, o.AuthzURLs[0])
	if err != nil || len(az.Challenges) == 0 {
		fail("GetAuthorization", fmt.Errorf("%v", err))
		return
	}
	begin("GetChallenge", acctKey, "kid")
	if _, err := cl.GetChallenge(ctx, az.Challenges[0].URI); err != nil {
		fail("GetChallenge", err)
		return
	}
	begin("Accept", acctKey, "kid")
	if _, err := cl.Accept(ctx, az.Challenges[0]); err != nil {
		fail("Accept", err)
		return
	}
	begin("WaitAuthorization", acctKey, "kid")
	if _, err := cl.WaitAuthorization(ctx, az.URI); err != nil {
		fail("WaitAuthorization", err)
		return
	}
	begin("WaitOrder", acctKey, "kid")
	if _, err := cl.WaitOrder(ctx, o.URI); err != nil {
		fail("WaitOrder", err)
		return
	}
	begin("CreateOrderCert", acctKey, "kid")
	der, certURL, err := cl.CreateOrderCert(ctx, o.FinalizeURL, csr, true)
	if err != nil || len(der) != len(srv.CertChain) {
		fail("CreateOrderCert", fmt.Errorf("%v (chain %d)", err, len(der)))
		return
	}
	begin("FetchCert", acctKey, "kid")
	if _, err := cl.FetchCert(ctx, certURL, false); err != nil {
		fail("FetchCert", err)
		return
	}
	begin("ListCertAlternates", acctKey, "kid")
	if _, err := cl.ListCertAlternates(ctx, certURL); err != nil {
		fail("ListCertAlternates", err)
		return
	}
	begin("UpdateReg", acctKey, "kid")
	if _, err := cl.UpdateReg(ctx, &acme.Account{Contact: []string{"mailto:b@example.org"}}); err != nil {
		fail("UpdateReg", err)
		return
	}
	begin("RevokeCert(account key)", acctKey, "kid")
	if err := cl.RevokeCert(ctx, nil, cert, acme.CRLReasonKeyCompromise); err != nil {
		fail("RevokeCert", err)
		return
	}
	begin("RevokeCert(certificate key)", u.certKey, "jwk")
	if err := cl.RevokeCert(ctx, u.certKey.signer, cert, acme.CRLReasonSuperseded); err != nil {
		fail("RevokeCert with the certificate key", err)
		return
	}
	begin("AccountKeyRollover", acctKey, "kid")
	if err := cl.AccountKeyRollover(ctx, u.newKey.signer); err != nil {
		fail("AccountKeyRollover", err)
		return
	}
	acctKey = u.newKey
	begin("GetOrder(after rollover)", acctKey, "kid")
	if _, err := cl.GetOrder(ctx, o.URI); err != nil {
		fail("GetOrder after key rollover", err)
		return
	}
	begin("DeactivateReg", acctKey, "kid")
	if err := cl.DeactivateReg(ctx); err != nil {
		fail("DeactivateReg", err)
		return
	}

	// Oracle over everything that was actually sent.
	for ci, cs := range calls {
		to := len(srv.Log)
		if ci+1 < len(calls) {
			to = calls[ci+1].from
		}
		posts := 0
		for _, x := range srv.Log[cs.from:to] {
			if x.Method != "POST" {
				continue
			}
			posts++
			c.Eval(1)
			detail := map[string]any{"account_key": u.acct.name, "op": cs.op, "exchange": x.String(), "body": string(x.Body)}
			alg := cs.signer.alg
			if x.Malformed != "" {
				c.Violation("client "+alg+" "+x.Endpoint+": request unacceptable to the reference server: "+classify(x.Malformed), detail)
				continue
			}
			if x.Status >= 400 || x.NonceIssued-x.NonceSeen <= 0 {
				c.Violation("client "+alg+" "+x.Endpoint+": request refused by the conforming server", detail)
				continue
			}
			// which key and form must this request use?
			wantForm, wantKey := "kid", cs.signer.pub()
			switch {
			case x.Endpoint == "newAccount":
				wantForm = "jwk"
				wantKey = u.acct.pub()
			case x.Endpoint == "revoke" && cs.form == "jwk":
				wantForm = "jwk"
			default:
				if cs.form == "jwk" {
					wantKey = u.acct.pub()
				}
			}
			if x.Req.Mode != wantForm {
				c.Violation("client "+alg+" "+x.Endpoint+": "+x.Req.Mode+" form where "+wantForm+" form is required", detail)
				continue
			}
			if wantForm == "jwk" && !jose.SamePublicKey(x.Req.JWK, wantKey) {
				c.Violation("client "+alg+" "+x.Endpoint+": embedded jwk is not the signing key", detail)
				continue
			}
			if wantForm == "kid" && x.Req.KID != srv.AcctURL() {
				c.Violation("client "+alg+" "+x.Endpoint+": kid is not the account URL", detail)
				continue
			}
			if want := jose.AlgFor(wantKey); x.Req.Alg != want {
				c.Violation("client "+alg+" "+x.Endpoint+": alg "+x.Req.Alg+" for a "+want+" key", detail)
				continue
			}
			switch x.Endpoint {
			case "newAccount":
				if cs.op == "Register" && x.EAB == nil {
					c.Violation("client "+alg+": newAccount without a valid externalAccountBinding", detail)
					continue
				}
			case "keyChange":
				if x.Inner == nil || !jose.SamePublicKey(x.Inner.JWK, u.newKey.pub()) {
					c.Violation("client "+alg+": keyChange inner JWS not signed by the new key", detail)
					continue
				}
				c.Nontrivial("client|inner|" + u.newKey.alg + "|" + u.acct.alg)
			case "finalize":
				var p struct{ CSR string }
				json.Unmarshal(x.Req.Payload, &p)
				if b, err := jose.B64Decode(p.CSR); err != nil || !bytes.Equal(b, csr) {
					c.Violation("client "+alg+": finalize payload does not carry the CSR", detail)
					continue
				}
			case "order", "authz", "cert":
				if x.JWS.Payload != "" {
					c.Violation("client "+alg+": POST-as-GET with a non-empty payload", detail)
					continue
				}
			}
			w := sigWidthClass(wantKey, x.JWS.SigBytes)
			c.Nontrivial(strings.Join([]string{"client", cs.op, x.Endpoint, x.Req.Alg, x.Req.Mode, keyClass(cs.signer), w}, "|"))
			c.Outcome("client " + x.Req.Alg + " " + x.Req.Mode)
		}
		if posts == 0 {
			c.Violation("harness: operation sent no POST", cs.op)
		}
	}
	if c.WantSample() && idx == 0 {
		var tr []string
		for _, x := range srv.Log {
			tr = append(tr, x.String())
		}
		c.Sample(map[string]any{"client_life_cycle": u.acct.name, "exchanges": len(tr), "first": tr[:4]})
	}
}

func keyClass(s *signerCase) string {
	if s.ec == nil {
		return s.name
	}
	return s.ec.tab.name + "/" + s.ec.class
}
