package main

import (
	"crypto"
	"crypto/ecdh"
	"crypto/ecdsa"
	"crypto/elliptic"
	"crypto/rsa"
	"crypto/x509"
	"embed"
	"encoding/asn1"
	"encoding/pem"
	"errors"
	"fmt"
	"io"
	"math/big"
	"sync"

	"verif/vf"
)

//go:embed keys/*.pem
var keyFS embed.FS

func loadRSA(name string) *rsa.PrivateKey {
	b, err := keyFS.ReadFile("keys/" + name + ".pem")
	if err != nil {
		panic(err)
	}
	p, _ := pem.Decode(b)
	k, err := x509.ParsePKCS8PrivateKey(p.Bytes)
	if err != nil {
		panic(err)
	}
	return k.(*rsa.PrivateKey)
}

// ---------------------------------------------------------------------------
// Deterministic search over scalars: table[i] = (base+i)·G for i < tableSize.
// Keys take their private scalar d from the first half, signatures their nonce k
// from the second half.
// ---------------------------------------------------------------------------

const tableSize = 8192 // 2^12 key scalars + 2^12 nonce scalars

type point struct{ x, y *big.Int }

type curveTab struct {
	name   string
	curve  elliptic.Curve
	ecdh   ecdh.Curve
	n      int // coordinate length in octets
	base   *big.Int
	pts    []point
	rShort []int // indices (second half) whose x has a leading zero octet
	rFull  []int // indices (second half) whose x has no leading zero octet
}

func (t *curveTab) scalar(i int) *big.Int { return new(big.Int).Add(t.base, big.NewInt(int64(i))) }

// leadingZeros is the number of leading zero octets of v written in n octets.
func leadingZeros(v *big.Int, n int) int { return n - (v.BitLen()+7)/8 }

func buildTab(c *vf.Ctx, name string, curve elliptic.Curve, ec ecdh.Curve) *curveTab {
	t := &curveTab{name: name, curve: curve, ecdh: ec, n: (curve.Params().BitSize + 7) / 8}
	// the seed moves the window of scalars, never the size of the search
	t.base = new(big.Int).SetBytes(c.Bytes("c49-scalar-base-"+name, 0, 24))
	t.base.Add(t.base, big.NewInt(1))
	t.pts = make([]point, tableSize)
	c.ParallelFor(tableSize, func(i int) {
		d := t.scalar(i)
		db := d.FillBytes(make([]byte, t.n))
		priv, err := ec.NewPrivateKey(db)
		if err != nil {
			panic(fmt.Sprintf("scalar %v rejected: %v", d, err))
		}
		pb := priv.PublicKey().Bytes() // 0x04 || X || Y
		t.pts[i] = point{new(big.Int).SetBytes(pb[1 : 1+t.n]), new(big.Int).SetBytes(pb[1+t.n:])}
	})
	for i := tableSize / 2; i < tableSize; i++ {
		if t.pts[i].x == nil {
			continue
		}
		if leadingZeros(t.pts[i].x, t.n) > 0 {
			t.rShort = append(t.rShort, i)
		} else {
			t.rFull = append(t.rFull, i)
		}
	}
	return t
}

// ecKey is one account key found by the search.
type ecKey struct {
	tab   *curveTab
	class string // full | x0 | y0 | x0y0 | x00
	idx   int
	pub   *ecdsa.PublicKey
	d     *big.Int
}

// findKeys returns the first scalar of each coordinate class in the first half of
// the table: both coordinates full width; X (only) with a leading zero octet; Y
// (only); both; X with two leading zero octets.
func (t *curveTab) findKeys() []*ecKey {
	want := []string{"full", "x0", "y0", "x0y0", "x00", "y00"}
	found := map[string]*ecKey{}
	for i := 0; i < tableSize/2; i++ {
		p := t.pts[i]
		if p.x == nil {
			continue
		}
		zx, zy := leadingZeros(p.x, t.n), leadingZeros(p.y, t.n)
		var cls []string
		switch {
		case zx == 0 && zy == 0:
			cls = []string{"full"}
		case zx > 0 && zy == 0:
			cls = []string{"x0"}
		case zx == 0 && zy > 0:
			cls = []string{"y0"}
		default:
			cls = []string{"x0y0"}
		}
		if zx >= 2 {
			cls = append(cls, "x00")
		}
		if zy >= 2 {
			cls = append(cls, "y00")
		}
		for _, cl := range cls {
			if found[cl] == nil {
				found[cl] = &ecKey{tab: t, class: cl, idx: i, d: t.scalar(i),
					pub: &ecdsa.PublicKey{Curve: t.curve, X: p.x, Y: p.y}}
			}
		}
	}
	var out []*ecKey
	for _, w := range want {
		if k := found[w]; k != nil {
			out = append(out, k)
		}
	}
	return out
}

// realKey is the standard-library private key for an ecKey (random nonces).
func (k *ecKey) realKey() *ecdsa.PrivateKey {
	priv, err := ecdsa.ParseRawPrivateKey(k.tab.curve, k.d.FillBytes(make([]byte, k.tab.n)))
	if err != nil {
		panic(err)
	}
	return priv
}

// ---------------------------------------------------------------------------
// detSigner: a crypto.Signer that performs textbook ECDSA (FIPS 186-4 section 6.4)
// with a nonce k taken from the table so that R and/or S fall into a wanted width
// class. Public() is an *ecdsa.PublicKey and Sign returns the usual ASN.1 DER
// ECDSA-Sig-Value, so the package under test treats it like any ECDSA key.
// ---------------------------------------------------------------------------

type sigClass int

const (
	sigFull sigClass = iota // R and S full width
	sigR0                   // R has a leading zero octet, S has not
	sigS0                   // S has a leading zero octet, R has not
	sigR0S0                 // both
	numSigClasses
)

var sigClassNames = [...]string{"RS-full", "R-short", "S-short", "RS-short"}

type detSigner struct {
	key   *ecKey
	class sigClass
	mu    sync.Mutex
	calls int
	miss  int // Sign calls for which no nonce of the table produced the class
}

func (s *detSigner) Public() crypto.PublicKey { return s.key.pub }

var errNoNonce = errors.New("detSigner: no nonce in the table yields the wanted class")

func (s *detSigner) Sign(_ io.Reader, digest []byte, _ crypto.SignerOpts) ([]byte, error) {
	t := s.key.tab
	N := t.curve.Params().N
	// bits2int: leftmost min(bitlen(N), 8*len(digest)) bits of the digest
	z := new(big.Int).SetBytes(digest)
	if ex := 8*len(digest) - N.BitLen(); ex > 0 {
		z.Rsh(z, uint(ex))
	}
	cands := t.rFull
	if s.class == sigR0 || s.class == sigR0S0 {
		cands = t.rShort
	}
	wantS0 := s.class == sigS0 || s.class == sigR0S0
	s.mu.Lock()
	s.calls++
	start := s.calls
	s.mu.Unlock()
	for j := 0; j < len(cands); j++ {
		i := cands[(start+j)%len(cands)]
		r := new(big.Int).Mod(t.pts[i].x, N)
		if r.Sign() == 0 {
			continue
		}
		if (leadingZeros(r, t.n) > 0) != (s.class == sigR0 || s.class == sigR0S0) {
			continue
		}
		k := t.scalar(i)
		kinv := new(big.Int).ModInverse(k, N)
		sv := new(big.Int).Mul(r, s.key.d)
		sv.Add(sv, z)
		sv.Mul(sv, kinv)
		sv.Mod(sv, N)
		if sv.Sign() == 0 {
			continue
		}
		if (leadingZeros(sv, t.n) > 0) != wantS0 {
			continue
		}
		return asn1.Marshal(struct{ R, S *big.Int }{r, sv})
	}
	s.mu.Lock()
	s.miss++
	s.mu.Unlock()
	return nil, errNoNonce
}
