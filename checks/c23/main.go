// C23: cryptobyte ASN.1 readers accept exactly DER and agree with encoding/asn1;
// the Add* builders emit DER.
//
// Inputs (all exhaustive, nothing sampled):
//
//	S  every byte string of length 0..3 (16 843 009 strings) into every reader
//	   (quick: length 3 only into the generic and typed readers; the explicit-tag
//	   optional readers see every string of length 0..2 and the grids),
//	   thorough adds every 2-byte tail under 16 identifier octets x 9 length octets
//	   and every 3-byte content of INTEGER/ENUMERATED/OID/BIT STRING/BOOLEAN,
//	G1 the TLV grid: every identifier octet 0..255 x 10 length-octet forms (short,
//	   0x81..0x85 wide, 0x88 wide, indefinite 0x80, reserved 0xff) x 3 tails (exact,
//	   one trailing byte, last content byte missing) x the content classes of every
//	   type (INTEGER at every Go-type boundary +-1 minimal and padded, BOOLEAN,
//	   OID arcs, BIT STRING padding counts/bits, OCTET STRINGs at every length-form
//	   boundary, time strings), each into every reader (quick: the 256-octet cross
//	   uses the INTEGER contents at the Go-type boundaries +-1; the complete INTEGER
//	   alphabet is crossed with the 16 identifier octets some reader looks for),
//	   plus length octets at the 32-bit limits,
//	G2 the time grammars (UTCTime 6x12x6x4x13 and GeneralizedTime 9x12x6x5x13 field
//	   combinations) under both time tags,
//	G3 explicit-tag wrappers around the inner elements for the Optional readers,
//	B  the Add* builders over the same value alphabets; the two time builders also
//	   over 8 zones x year boundaries {0,1,1950,2000,2050,9999,10000} (UTC and
//	   local midnight) +-{0,1s,30min,1h,offset,offset+-1s} (read-back instant and
//	   agreement with encoding/asn1's marshaller).
//
// Oracle: verif/ref/derref (X.690 grammar) decides acceptance and the value;
// encoding/asn1 is consulted only when cryptobyte accepts: if it accepts too, the
// values must agree.
package main

import (
	"bytes"
	encoding_asn1 "encoding/asn1"
	"encoding/hex"
	"fmt"
	"math/big"
	"os"
	"reflect"
	"runtime/pprof"
	"strconv"
	"sync"
	"time"

	"golang.org/x/crypto/cryptobyte"
	"golang.org/x/crypto/cryptobyte/asn1"
	"verif/ref/derref"
	"verif/vf"
)

func main() { vf.Main("C23", vf.Exploration, run) }

// ---------------------------------------------------------------------------
// per-input context and the model side
// ---------------------------------------------------------------------------

type input struct {
	b    []byte
	tlv  derref.TLV
	perr string // "" when b starts with a DER TLV
}

// verdicts of the model
const (
	mustReject = iota
	mustAccept
	mayAccept // documented leniency: if accepted the value is checked
	dontCare
)

type expect struct {
	verdict  int
	val      any
	consumed int    // bytes consumed on acceptance
	reason   string // why rejected / which class
}

func rej(reason string) expect { return expect{verdict: mustReject, reason: reason} }

func (x *input) typed(tag byte, name string) (c []byte, e expect, ok bool) {
	if x.perr != "" {
		return nil, rej(x.perr), false
	}
	if x.tlv.Tag != tag {
		return nil, rej("identifier octet is not that of the type"), false
	}
	return x.tlv.Content, expect{}, true
}

type intModel struct {
	reason string
	big    bool // more than 8 content octets
	v      int64
	bv     *big.Int
	c      []byte
}

func modelInt(c []byte) intModel {
	v, isBig, why := derref.Int64(c)
	m := intModel{reason: why, big: isBig, v: v, c: c}
	return m
}

func (m *intModel) bigInt() *big.Int {
	if m.bv == nil {
		m.bv, _ = derref.Integer(m.c)
	}
	return m.bv
}

func fitsSigned(v int64, bits int) bool {
	if bits == 64 {
		return true
	}
	return v >= -(int64(1)<<(bits-1)) && v < int64(1)<<(bits-1)
}

func kindBits(kind string) int {
	switch kind {
	case "int8", "uint8":
		return 8
	case "int16", "uint16":
		return 16
	case "int32", "uint32":
		return 32
	case "int64", "uint64":
		return 64
	}
	return strconv.IntSize
}

// expectInt is the model for an INTEGER-like content read into a Go integer kind.
func expectInt(c []byte, kind string, consumed int) expect {
	m := modelInt(c)
	if m.reason != "" {
		return rej(m.reason)
	}
	e := expect{verdict: mustAccept, consumed: consumed}
	switch kind {
	case "int8", "int16", "int32", "int64", "int":
		bits := kindBits(kind)
		if m.big || !fitsSigned(m.v, bits) {
			return rej("value does not fit the destination type")
		}
		e.val = m.v
	case "uint8", "uint16", "uint32", "uint64", "uint":
		bits := kindBits(kind)
		if m.big {
			bv := m.bigInt()
			if bv.Sign() < 0 || bv.BitLen() > bits {
				return rej("value does not fit the destination type")
			}
			e.val = bv.Uint64()
		} else {
			if m.v < 0 || (bits < 64 && m.v >= int64(1)<<bits) {
				return rej("value does not fit the destination type")
			}
			e.val = uint64(m.v)
		}
	case "big":
		e.val = m.bigInt()
	case "bytes":
		if c[0]&0x80 != 0 {
			return rej("negative value into []byte")
		}
		d := c
		for len(d) > 1 && d[0] == 0 {
			d = d[1:]
		}
		e.val = d
	}
	return e
}

type timeExp struct {
	unix   int64
	offset int
}

func expectTime(cl derref.TimeClass, v derref.TimeVal, consumed int) expect {
	e := expect{val: timeExp{v.Unix, v.Offset}, consumed: consumed}
	switch cl {
	case derref.TimeInvalid:
		return rej("not a valid time string")
	case derref.TimeDER:
		e.verdict = mustAccept
	case derref.TimeLenient:
		e.verdict, e.reason = mayAccept, "BER time form outside DER"
	default:
		e.verdict, e.reason = dontCare, "seconds fraction or differential hour 24"
	}
	return e
}

// ---------------------------------------------------------------------------
// readers: real call + model
// ---------------------------------------------------------------------------

type reader struct {
	cls   string // name used in violation classes (default: name)
	light bool   // variant of another reader (nil optional parameter, other pre-load): left out of the quick length-3 sweep
	name  string
	group int // 0 generic, 1 typed, 2 explicit-tag optional
	// real runs the reader on s; p is the tag parameter (when the reader has one)
	real  func(s *cryptobyte.String, p asn1.Tag) (bool, any)
	model func(x *input, p byte) expect
	param bool
	// std parses the element with encoding/asn1 (nil: no counterpart); only called on acceptance
	std func(elem []byte) (any, bool)
}

func eqVal(a, b any) bool {
	switch x := a.(type) {
	case []byte:
		y, ok := b.([]byte)
		return ok && bytes.Equal(x, y)
	case *big.Int:
		y, ok := b.(*big.Int)
		return ok && x.Cmp(y) == 0
	case time.Time:
		switch y := b.(type) {
		case timeExp:
			_, off := x.Zone()
			return x.Unix() == y.unix && x.Nanosecond() == 0 && off == y.offset
		case time.Time:
			return x.Equal(y)
		}
		return false
	}
	return reflect.DeepEqual(a, b)
}

var seedByte byte // varies the OCTET STRING contents with VERIF_SEED

var defBig = big.NewInt(7777)

// preBig is a destination that already holds a long negative value.
func preBig() *big.Int { return new(big.Int).Set(preBigVal) }

// Old values of the destinations (B). The readers only ever assign to their destination, so
// the slices can be shared between calls.
var (
	preBigVal = new(big.Int).Lsh(big.NewInt(-3), 300)
	preString = cryptobyte.String{1, 2, 3}
	preBytes  = []byte{9, 9, 9}
	preOID    = encoding_asn1.ObjectIdentifier{9, 9, 9, 9, 9, 9, 9, 9}
	preTime   = time.Unix(1234567, 89).In(time.FixedZone("PRE", 5*3600))
	preBits   = encoding_asn1.BitString{Bytes: []byte{1, 2, 3}, BitLength: 21}
)
var sentinel = []byte{1, 2, 3}
var absentOpt any = optOut{nil, false}
var boxTrue, boxFalse any = true, false

type anyOut struct {
	out []byte
	tag byte
}
type optOut struct {
	out     []byte
	present bool
}
type bitOut struct {
	data []byte
	bits int
}

func intReader(kind string) reader {
	r := reader{name: "ReadASN1Integer(*" + kind + ")", group: 1}
	switch kind {
	case "big":
		r.name = "ReadASN1Integer(*big.Int)"
	case "bytes":
		r.name = "ReadASN1Integer(*[]byte)"
	}
	r.real = func(s *cryptobyte.String, _ asn1.Tag) (bool, any) {
		switch kind {
		case "int8":
			v := int8(-1)
			if !s.ReadASN1Integer(&v) {
				return false, nil
			}
			return true, int64(v)
		case "int16":
			v := int16(-1)
			if !s.ReadASN1Integer(&v) {
				return false, nil
			}
			return true, int64(v)
		case "int32":
			v := int32(-1)
			if !s.ReadASN1Integer(&v) {
				return false, nil
			}
			return true, int64(v)
		case "int64":
			v := int64(-1)
			if !s.ReadASN1Integer(&v) {
				return false, nil
			}
			return true, v
		case "int":
			v := int(-1)
			if !s.ReadASN1Integer(&v) {
				return false, nil
			}
			return true, int64(v)
		case "uint8":
			v := ^uint8(0)
			if !s.ReadASN1Integer(&v) {
				return false, nil
			}
			return true, uint64(v)
		case "uint16":
			v := ^uint16(0)
			if !s.ReadASN1Integer(&v) {
				return false, nil
			}
			return true, uint64(v)
		case "uint32":
			v := ^uint32(0)
			if !s.ReadASN1Integer(&v) {
				return false, nil
			}
			return true, uint64(v)
		case "uint64":
			v := ^uint64(0)
			if !s.ReadASN1Integer(&v) {
				return false, nil
			}
			return true, v
		case "uint":
			v := ^uint(0)
			if !s.ReadASN1Integer(&v) {
				return false, nil
			}
			return true, uint64(v)
		case "big":
			v := preBig()
			if !s.ReadASN1Integer(v) {
				return false, nil
			}
			return true, v
		default:
			v := preBytes
			if !s.ReadASN1Integer(&v) {
				return false, nil
			}
			return true, v
		}
	}
	r.model = func(x *input, _ byte) expect {
		c, e, ok := x.typed(0x02, "INTEGER")
		if !ok {
			return e
		}
		return expectInt(c, kind, x.tlv.Total)
	}
	switch kind {
	case "int8", "int16":
		r.std = func(el []byte) (any, bool) {
			var v *big.Int
			rest, err := encoding_asn1.Unmarshal(el, &v)
			if err != nil || len(rest) != 0 || !v.IsInt64() {
				return nil, false
			}
			return v.Int64(), true
		}
	case "uint8", "uint16", "uint32", "uint64", "uint":
		r.std = func(el []byte) (any, bool) {
			var v *big.Int
			rest, err := encoding_asn1.Unmarshal(el, &v)
			if err != nil || len(rest) != 0 || !v.IsUint64() {
				return nil, false
			}
			return v.Uint64(), true
		}
	case "bytes":
		r.std = func(el []byte) (any, bool) {
			var v *big.Int
			rest, err := encoding_asn1.Unmarshal(el, &v)
			if err != nil || len(rest) != 0 || v.Sign() < 0 {
				return nil, false
			}
			if v.Sign() == 0 {
				return []byte{0}, true
			}
			return v.Bytes(), true
		}
	case "int64", "int":
		r.std = func(el []byte) (any, bool) {
			var v int64
			rest, err := encoding_asn1.Unmarshal(el, &v)
			return v, err == nil && len(rest) == 0
		}
	case "int32":
		r.std = func(el []byte) (any, bool) {
			var v int32
			rest, err := encoding_asn1.Unmarshal(el, &v)
			return int64(v), err == nil && len(rest) == 0
		}
	case "big":
		r.std = func(el []byte) (any, bool) {
			var v *big.Int
			rest, err := encoding_asn1.Unmarshal(el, &v)
			return v, err == nil && len(rest) == 0
		}
	}
	return r
}

// explicit-tag optional INTEGER: kinds with their default values
func optIntReader(kind string) reader {
	r := reader{name: "ReadOptionalASN1Integer(*" + kind + ")", group: 2, param: true}
	var def any
	switch kind {
	case "int64":
		def = int64(-42)
	case "uint8":
		def = uint64(200)
	case "big":
		def = big.NewInt(7777)
	case "bytes":
		def = []byte{9, 9}
	}
	r.real = func(s *cryptobyte.String, p asn1.Tag) (bool, any) {
		switch kind {
		case "int64":
			v := int64(0x5555555555555555)
			if !s.ReadOptionalASN1Integer(&v, p, int64(-42)) {
				return false, nil
			}
			return true, v
		case "uint8":
			v := uint8(0x55)
			if !s.ReadOptionalASN1Integer(&v, p, uint8(200)) {
				return false, nil
			}
			return true, uint64(v)
		case "big":
			// the default value stays the caller's: the result is scribbled over afterwards
			// and the default must still be 7777 (A), the destination holds an old value (B)
			v, def := preBig(), big.NewInt(7777)
			if !s.ReadOptionalASN1Integer(v, p, def) {
				return false, nil
			}
			res := new(big.Int).Set(v)
			for i, w := range v.Bits() {
				v.Bits()[i] = ^w
			}
			if def.Cmp(defBig) != 0 {
				return true, "the *big.Int result shares memory with defaultValue"
			}
			return true, res
		default:
			v := preBytes
			if !s.ReadOptionalASN1Integer(&v, p, []byte{9, 9}) {
				return false, nil
			}
			return true, v
		}
	}
	r.model = func(x *input, p byte) expect {
		inner, e, present := explicit(x, p, 0x02, "INTEGER")
		if !present {
			if e.verdict == mustAccept {
				e.val = def
			}
			return e
		}
		return expectInt(inner, kind, x.tlv.Total)
	}
	return r
}

// explicit models the wrapper of the ReadOptionalASN1{Integer,OctetString,Boolean}
// family: absent (first octet differs from p) -> accept consuming nothing; present
// -> the wrapper must be a DER TLV whose content is exactly one DER TLV with the
// inner identifier.
func explicit(x *input, p, innerTag byte, innerName string) (inner []byte, e expect, present bool) {
	if len(x.b) == 0 || x.b[0] != p {
		return nil, expect{verdict: mustAccept, consumed: 0, reason: "absent"}, false
	}
	if x.perr != "" {
		return nil, rej("explicit tag present but no DER TLV"), false
	}
	in, why := derref.Parse(x.tlv.Content)
	if why != "" {
		return nil, rej("content of the explicit tag is no DER TLV"), false
	}
	if in.Tag != innerTag {
		return nil, rej("inner identifier octet is not that of the type"), false
	}
	if in.Total != len(x.tlv.Content) {
		return nil, rej("trailing bytes after the inner element inside the explicit tag"), false
	}
	return in.Content, expect{}, true
}

func readers() []reader {
	rs := []reader{
		{name: "ReadAnyASN1", group: 0,
			real: func(s *cryptobyte.String, _ asn1.Tag) (bool, any) {
				out := preString
				t := asn1.Tag(0xEE)
				ok := s.ReadAnyASN1(&out, &t)
				if !ok {
					return false, nil
				}
				return true, anyOut{out, byte(t)}
			},
			model: func(x *input, _ byte) expect {
				if x.perr != "" {
					return rej(x.perr)
				}
				return expect{verdict: mustAccept, val: anyOut{x.tlv.Content, x.tlv.Tag}, consumed: x.tlv.Total}
			}},
		{name: "ReadAnyASN1Element", group: 0,
			real: func(s *cryptobyte.String, _ asn1.Tag) (bool, any) {
				out := preString
				t := asn1.Tag(0xEE)
				ok := s.ReadAnyASN1Element(&out, &t)
				if !ok {
					return false, nil
				}
				return true, anyOut{out, byte(t)}
			},
			model: func(x *input, _ byte) expect {
				if x.perr != "" {
					return rej(x.perr)
				}
				return expect{verdict: mustAccept, val: anyOut{x.b[:x.tlv.Total], x.tlv.Tag}, consumed: x.tlv.Total}
			}},
	}
	// E: the optional output parameters left out (nil outTag / nil outPresent)
	rs = append(rs,
		reader{name: "ReadAnyASN1(nil outTag)", cls: "ReadAnyASN1", light: true, group: 0,
			real: func(s *cryptobyte.String, _ asn1.Tag) (bool, any) {
				out := preString
				if !s.ReadAnyASN1(&out, nil) {
					return false, nil
				}
				return true, []byte(out)
			},
			model: func(x *input, _ byte) expect {
				if x.perr != "" {
					return rej(x.perr)
				}
				return expect{verdict: mustAccept, val: x.tlv.Content, consumed: x.tlv.Total}
			}},
		reader{name: "ReadAnyASN1Element(nil outTag)", cls: "ReadAnyASN1Element", light: true, group: 0,
			real: func(s *cryptobyte.String, _ asn1.Tag) (bool, any) {
				out := preString
				if !s.ReadAnyASN1Element(&out, nil) {
					return false, nil
				}
				return true, []byte(out)
			},
			model: func(x *input, _ byte) expect {
				if x.perr != "" {
					return rej(x.perr)
				}
				return expect{verdict: mustAccept, val: x.b[:x.tlv.Total], consumed: x.tlv.Total}
			}},
		reader{name: "ReadOptionalASN1(nil outPresent)", cls: "ReadOptionalASN1", light: true, group: 0, param: true,
			real: func(s *cryptobyte.String, p asn1.Tag) (bool, any) {
				out := preString
				before := len(*s)
				if !s.ReadOptionalASN1(&out, nil, p) {
					return false, nil
				}
				if len(*s) == before {
					return true, absentOpt
				}
				return true, optOut{out, true}
			},
			model: func(x *input, p byte) expect {
				if len(x.b) == 0 || x.b[0] != p {
					return expect{verdict: mustAccept, val: absentOpt, consumed: 0, reason: "absent"}
				}
				if x.perr != "" {
					return rej("tag present but no DER TLV")
				}
				return expect{verdict: mustAccept, val: optOut{x.tlv.Content, true}, consumed: x.tlv.Total}
			}},
	)
	tagged := func(name string, element bool, real func(s *cryptobyte.String, p asn1.Tag) (bool, any)) reader {
		return reader{name: name, group: 0, param: true, real: real,
			model: func(x *input, p byte) expect {
				if x.perr != "" {
					return rej(x.perr)
				}
				if x.tlv.Tag != p {
					return rej("identifier octet differs from the requested tag")
				}
				v := x.tlv.Content
				if element {
					v = x.b[:x.tlv.Total]
				}
				return expect{verdict: mustAccept, val: v, consumed: x.tlv.Total}
			}}
	}
	rs = append(rs,
		tagged("ReadASN1", false, func(s *cryptobyte.String, p asn1.Tag) (bool, any) {
			out := preString
			if !s.ReadASN1(&out, p) {
				return false, nil
			}
			return true, []byte(out)
		}),
		tagged("ReadASN1Element", true, func(s *cryptobyte.String, p asn1.Tag) (bool, any) {
			out := preString
			if !s.ReadASN1Element(&out, p) {
				return false, nil
			}
			return true, []byte(out)
		}),
		tagged("ReadASN1Bytes", false, func(s *cryptobyte.String, p asn1.Tag) (bool, any) {
			out := preBytes
			if !s.ReadASN1Bytes(&out, p) {
				return false, nil
			}
			return true, out
		}),
	)
	rs = append(rs,
		reader{name: "SkipASN1", group: 0, param: true,
			real: func(s *cryptobyte.String, p asn1.Tag) (bool, any) { return s.SkipASN1(p), nil },
			model: func(x *input, p byte) expect {
				if x.perr != "" {
					return rej(x.perr)
				}
				if x.tlv.Tag != p {
					return rej("identifier octet differs from the requested tag")
				}
				return expect{verdict: mustAccept, consumed: x.tlv.Total}
			}},
		reader{name: "ReadOptionalASN1", group: 0, param: true,
			real: func(s *cryptobyte.String, p asn1.Tag) (bool, any) {
				out := preString
				present := len(*s)&1 == 0 // old value: either
				ok := s.ReadOptionalASN1(&out, &present, p)
				if !ok {
					return false, nil
				}
				if !present {
					return true, absentOpt // out is not specified when the element is absent
				}
				return true, optOut{out, present}
			},
			model: func(x *input, p byte) expect {
				if len(x.b) == 0 || x.b[0] != p {
					return expect{verdict: mustAccept, val: absentOpt, consumed: 0, reason: "absent"}
				}
				if x.perr != "" {
					return rej("tag present but no DER TLV")
				}
				return expect{verdict: mustAccept, val: optOut{x.tlv.Content, true}, consumed: x.tlv.Total}
			}},
		reader{name: "SkipOptionalASN1", group: 0, param: true,
			real: func(s *cryptobyte.String, p asn1.Tag) (bool, any) { return s.SkipOptionalASN1(p), nil },
			model: func(x *input, p byte) expect {
				if len(x.b) == 0 || x.b[0] != p {
					return expect{verdict: mustAccept, consumed: 0, reason: "absent"}
				}
				if x.perr != "" {
					return rej("tag present but no DER TLV")
				}
				return expect{verdict: mustAccept, consumed: x.tlv.Total}
			}},
		reader{name: "PeekASN1Tag", group: 0, param: true,
			real: func(s *cryptobyte.String, p asn1.Tag) (bool, any) { return s.PeekASN1Tag(p), nil },
			model: func(x *input, p byte) expect {
				if len(x.b) == 0 || x.b[0] != p {
					return rej("first octet differs")
				}
				return expect{verdict: mustAccept, consumed: 0}
			}},
	)
	// typed readers
	for _, pre := range []bool{false, true} {
		pre := pre
		rs = append(rs, reader{name: fmt.Sprintf("ReadASN1Boolean(out holds %v)", pre), cls: "ReadASN1Boolean", light: pre, group: 1,
			real: func(s *cryptobyte.String, _ asn1.Tag) (bool, any) {
				v := pre
				if !s.ReadASN1Boolean(&v) {
					return false, nil
				}
				return true, v
			},
			model: func(x *input, _ byte) expect {
				c, e, ok := x.typed(0x01, "BOOLEAN")
				if !ok {
					return e
				}
				v, why := derref.Boolean(c)
				if why != "" {
					return rej(why)
				}
				return expect{verdict: mustAccept, val: v, consumed: x.tlv.Total}
			},
			std: func(el []byte) (any, bool) {
				var v bool
				rest, err := encoding_asn1.Unmarshal(el, &v)
				return v, err == nil && len(rest) == 0
			}})
	}
	for _, k := range []string{"int8", "int16", "int32", "int64", "int", "uint8", "uint16", "uint32", "uint64", "uint", "big", "bytes"} {
		rs = append(rs, intReader(k))
	}
	rs = append(rs,
		reader{name: "ReadASN1Int64WithTag", group: 1, param: true,
			real: func(s *cryptobyte.String, p asn1.Tag) (bool, any) {
				v := int64(-1)
				if !s.ReadASN1Int64WithTag(&v, p) {
					return false, nil
				}
				return true, v
			},
			model: func(x *input, p byte) expect {
				if x.perr != "" {
					return rej(x.perr)
				}
				if x.tlv.Tag != p {
					return rej("identifier octet differs from the requested tag")
				}
				return expectInt(x.tlv.Content, "int64", x.tlv.Total)
			}},
		reader{name: "ReadASN1Enum", group: 1,
			real: func(s *cryptobyte.String, _ asn1.Tag) (bool, any) {
				v := int(-1)
				if !s.ReadASN1Enum(&v) {
					return false, nil
				}
				return true, int64(v)
			},
			model: func(x *input, _ byte) expect {
				c, e, ok := x.typed(0x0a, "ENUMERATED")
				if !ok {
					return e
				}
				return expectInt(c, "int", x.tlv.Total)
			},
			std: func(el []byte) (any, bool) {
				var v encoding_asn1.Enumerated
				rest, err := encoding_asn1.Unmarshal(el, &v)
				return int64(v), err == nil && len(rest) == 0
			}},
		reader{name: "ReadASN1ObjectIdentifier", group: 1,
			real: func(s *cryptobyte.String, _ asn1.Tag) (bool, any) {
				v := preOID
				if !s.ReadASN1ObjectIdentifier(&v) {
					return false, nil
				}
				return true, []int(v)
			},
			model: func(x *input, _ byte) expect {
				c, e, ok := x.typed(0x06, "OBJECT IDENTIFIER")
				if !ok {
					return e
				}
				arcs, why := derref.OID(c)
				if why != "" {
					return rej(why)
				}
				return expect{verdict: mustAccept, val: arcs, consumed: x.tlv.Total}
			},
			std: func(el []byte) (any, bool) {
				v := preOID
				rest, err := encoding_asn1.Unmarshal(el, &v)
				return []int(v), err == nil && len(rest) == 0
			}},
		reader{name: "ReadASN1GeneralizedTime", group: 1,
			real: func(s *cryptobyte.String, _ asn1.Tag) (bool, any) {
				v := preTime
				if !s.ReadASN1GeneralizedTime(&v) {
					return false, nil
				}
				return true, v
			},
			model: func(x *input, _ byte) expect {
				c, e, ok := x.typed(0x18, "GeneralizedTime")
				if !ok {
					return e
				}
				cl, v := derref.GeneralizedTime(c)
				return expectTime(cl, v, x.tlv.Total)
			},
			std: stdTime},
		reader{name: "ReadASN1UTCTime", group: 1,
			real: func(s *cryptobyte.String, _ asn1.Tag) (bool, any) {
				v := preTime
				if !s.ReadASN1UTCTime(&v) {
					return false, nil
				}
				return true, v
			},
			model: func(x *input, _ byte) expect {
				c, e, ok := x.typed(0x17, "UTCTime")
				if !ok {
					return e
				}
				cl, v := derref.UTCTime(c)
				return expectTime(cl, v, x.tlv.Total)
			},
			std: stdTime},
		reader{name: "ReadASN1BitString", group: 1,
			real: func(s *cryptobyte.String, _ asn1.Tag) (bool, any) {
				v := preBits
				if !s.ReadASN1BitString(&v) {
					return false, nil
				}
				return true, bitOut{v.Bytes, v.BitLength}
			},
			model: func(x *input, _ byte) expect {
				c, e, ok := x.typed(0x03, "BIT STRING")
				if !ok {
					return e
				}
				d, n, why := derref.BitString(c)
				if why != "" {
					return rej(why)
				}
				return expect{verdict: mustAccept, val: bitOut{d, n}, consumed: x.tlv.Total}
			},
			std: func(el []byte) (any, bool) {
				v := preBits
				rest, err := encoding_asn1.Unmarshal(el, &v)
				return bitOut{v.Bytes, v.BitLength}, err == nil && len(rest) == 0
			}},
		reader{name: "ReadASN1BitStringAsBytes", group: 1,
			real: func(s *cryptobyte.String, _ asn1.Tag) (bool, any) {
				v := preBytes
				if !s.ReadASN1BitStringAsBytes(&v) {
					return false, nil
				}
				return true, v
			},
			model: func(x *input, _ byte) expect {
				c, e, ok := x.typed(0x03, "BIT STRING")
				if !ok {
					return e
				}
				d, n, why := derref.BitString(c)
				if why != "" {
					return rej(why)
				}
				if n != 8*len(d) {
					return rej("BIT STRING is not a whole number of bytes")
				}
				return expect{verdict: mustAccept, val: d, consumed: x.tlv.Total}
			}},
		reader{name: "ReadASN1Bytes(OCTET STRING)", group: 1,
			real: func(s *cryptobyte.String, _ asn1.Tag) (bool, any) {
				v := preBytes
				if !s.ReadASN1Bytes(&v, asn1.OCTET_STRING) {
					return false, nil
				}
				return true, v
			},
			model: func(x *input, _ byte) expect {
				c, e, ok := x.typed(0x04, "OCTET STRING")
				if !ok {
					return e
				}
				return expect{verdict: mustAccept, val: c, consumed: x.tlv.Total}
			},
			std: func(el []byte) (any, bool) {
				v := preBytes
				rest, err := encoding_asn1.Unmarshal(el, &v)
				return v, err == nil && len(rest) == 0
			}},
	)
	// explicit-tag optional readers
	for _, k := range []string{"int64", "uint8", "big", "bytes"} {
		rs = append(rs, optIntReader(k))
	}
	rs = append(rs,
		reader{name: "ReadOptionalASN1OctetString", group: 2, param: true,
			real: func(s *cryptobyte.String, p asn1.Tag) (bool, any) {
				v := sentinel
				present := len(*s)&1 == 0 // old value: either
				ok := s.ReadOptionalASN1OctetString(&v, &present, p)
				if !ok {
					return false, nil
				}
				if !present && v == nil {
					return true, absentOpt
				}
				return true, optOut{v, present}
			},
			model: func(x *input, p byte) expect {
				inner, e, present := explicit(x, p, 0x04, "OCTET STRING")
				if !present {
					if e.verdict == mustAccept {
						e.val = absentOpt
					}
					return e
				}
				return expect{verdict: mustAccept, val: optOut{inner, true}, consumed: x.tlv.Total}
			}},
	)
	rs = append(rs,
		reader{name: "ReadOptionalASN1OctetString(nil outPresent)", cls: "ReadOptionalASN1OctetString", light: true, group: 2, param: true,
			real: func(s *cryptobyte.String, p asn1.Tag) (bool, any) {
				v := sentinel
				before := len(*s)
				if !s.ReadOptionalASN1OctetString(&v, nil, p) {
					return false, nil
				}
				if len(*s) == before {
					if v != nil {
						return true, "out is not nil although the element is absent"
					}
					return true, absentOpt
				}
				return true, optOut{v, true}
			},
			model: func(x *input, p byte) expect {
				inner, e, present := explicit(x, p, 0x04, "OCTET STRING")
				if !present {
					if e.verdict == mustAccept {
						e.val = absentOpt
					}
					return e
				}
				return expect{verdict: mustAccept, val: optOut{inner, true}, consumed: x.tlv.Total}
			}},
	)
	for _, def := range []bool{false, true} {
		def := def
		rs = append(rs, reader{name: fmt.Sprintf("ReadOptionalASN1Boolean(default %v)", def), cls: "ReadOptionalASN1Boolean", group: 2, param: true,
			real: func(s *cryptobyte.String, p asn1.Tag) (bool, any) {
				v := !def
				if !s.ReadOptionalASN1Boolean(&v, p, def) {
					return false, nil
				}
				return true, v
			},
			model: func(x *input, p byte) expect {
				inner, e, present := explicit(x, p, 0x01, "BOOLEAN")
				if !present {
					if e.verdict == mustAccept {
						e.val = def
					}
					return e
				}
				v, why := derref.Boolean(inner)
				if why != "" {
					return rej(why)
				}
				return expect{verdict: mustAccept, val: v, consumed: x.tlv.Total}
			}})
	}
	return rs
}

func stdTime(el []byte) (any, bool) {
	var v time.Time
	rest, err := encoding_asn1.Unmarshal(el, &v)
	return v, err == nil && len(rest) == 0
}

// ---------------------------------------------------------------------------
// the checker
// ---------------------------------------------------------------------------

type checker struct {
	c       *vf.Ctx
	rs      []reader
	mu      sync.Mutex
	accepts []int64
	rejects []int64
	stdCmp  int64
	lenient map[string]int64
}

type nkey struct {
	ri     int
	reason string
	n      int
}

type stats struct {
	skipLight bool
	orig      []byte
	s         cryptobyte.String
	nkeys     map[nkey]struct{}
	cur       int // reader being run (for the panic report)
	curP      byte
	evals     int
	accepts   []int64
	rejects   []int64
	stdCmp    int64
	keys      map[string]struct{}
	lenient   map[string]int64
}

func (k *checker) newStats() *stats {
	return &stats{accepts: make([]int64, len(k.rs)), rejects: make([]int64, len(k.rs)), keys: map[string]struct{}{}, lenient: map[string]int64{}, nkeys: map[nkey]struct{}{}}
}

func (k *checker) merge(st *stats) {
	k.c.Eval(st.evals)
	for key := range st.keys {
		k.c.Nontrivial(key)
	}
	for key := range st.nkeys {
		k.c.Nontrivial(k.rs[key.ri].name + "|accept|" + key.reason + "|len" + strconv.Itoa(key.n))
	}
	k.mu.Lock()
	for i := range st.accepts {
		k.accepts[i] += st.accepts[i]
		k.rejects[i] += st.rejects[i]
	}
	k.stdCmp += st.stdCmp
	for a, n := range st.lenient {
		k.lenient[a] += n
	}
	k.mu.Unlock()
}

func hexN(b []byte) string {
	if len(b) <= 48 {
		return hex.EncodeToString(b)
	}
	return fmt.Sprintf("%s..(%d bytes)..%s", hex.EncodeToString(b[:24]), len(b), hex.EncodeToString(b[len(b)-8:]))
}

func (r *reader) class() string {
	if r.cls != "" {
		return r.cls
	}
	return r.name
}

func (k *checker) report(class string, r *reader, b []byte, p byte, extra map[string]any) {
	d := map[string]any{"reader": r.name, "input": hexN(b)}
	if len(b) <= 4096 {
		d["input_hex"] = hex.EncodeToString(b)
	}
	if r.param {
		d["tag_param"] = fmt.Sprintf("0x%02x", p)
	}
	for a, v := range extra {
		d[a] = v
	}
	k.c.Violation(class, d)
}

// one runs reader ri with tag parameter p on x.
func (k *checker) one(ri int, x *input, p byte, st *stats) {
	r := &k.rs[ri]
	st.s = cryptobyte.String(x.b)
	st.cur, st.curP = ri, p
	ok, val := r.real(&st.s, asn1.Tag(p))
	s := st.s
	e := r.model(x, p)
	st.evals++
	if ok {
		st.accepts[ri]++
	} else {
		st.rejects[ri]++
	}
	switch e.verdict {
	case mustReject:
		if ok {
			k.report(r.class()+" accepts: "+e.reason, r, x.b, p, map[string]any{"value": fmt.Sprint(val)})
		}
		return
	case mustAccept:
		if !ok {
			k.report(r.class()+" rejects a DER encoding of a representable value", r, x.b, p, map[string]any{"expected": fmt.Sprint(e.val)})
			return
		}
	case mayAccept:
		st.lenient[r.name+"|"+e.reason+"|accepted="+strconv.FormatBool(ok)]++ // rare: time strings only
		if !ok {
			return
		}
	case dontCare:
		st.lenient[r.name+"|"+e.reason+"|accepted="+strconv.FormatBool(ok)]++
		return
	}
	// accepted and allowed: value, consumption, encoding/asn1
	if e.val != nil && !eqVal(val, e.val) {
		k.report(r.class()+" returns a value different from the DER grammar's", r, x.b, p, map[string]any{"got": fmt.Sprint(val), "want": fmt.Sprint(e.val)})
	}
	if len(s) != len(x.b)-e.consumed || (len(s) > 0 && &s[0] != &x.b[e.consumed]) {
		k.report(r.class()+" leaves the wrong remainder", r, x.b, p, map[string]any{"left": len(s), "want_left": len(x.b) - e.consumed})
	}
	if e.consumed > 0 {
		st.nkeys[nkey{ri, e.reason, min(len(x.tlv.Content), 12)}] = struct{}{}
	}
	if r.std != nil && x.perr == "" {
		if sv, sok := r.std(x.b[:x.tlv.Total]); sok {
			st.stdCmp++
			if !eqVal(val, sv) {
				k.report(r.class()+" and encoding/asn1 both accept but return different values", r, x.b, p, map[string]any{"cryptobyte": fmt.Sprint(val), "encoding/asn1": fmt.Sprint(sv)})
			}
		}
	}
}

// checkInput runs every reader of the selected groups on b.
func (k *checker) checkInput(b []byte, groups [3]bool, st *stats) {
	defer func() {
		if rec := recover(); rec != nil {
			r := &k.rs[st.cur]
			k.report(r.class()+": panic", r, b, st.curP, map[string]any{"panic": fmt.Sprint(rec)})
		}
	}()
	// A: parsing never writes to the input (pristine copy compared after all readers ran)
	st.orig = append(st.orig[:0], b...)
	defer func() {
		if !bytes.Equal(st.orig, b) {
			k.blameWriter(append([]byte(nil), st.orig...), groups)
			copy(b, st.orig)
		}
	}()
	x := &input{b: b}
	x.tlv, x.perr = derref.Parse(b)
	var own byte
	if len(b) > 0 {
		own = b[0]
	}
	for ri := range k.rs {
		r := &k.rs[ri]
		if !groups[r.group] || r.light && st.skipLight {
			continue
		}
		if !r.param {
			k.one(ri, x, 0, st)
			continue
		}
		// tag parameters: the input's own identifier octet (the accepting path), the same
		// with the constructed bit flipped, and one fixed tag
		k.one(ri, x, own, st)
		k.one(ri, x, own^0x20, st)
		if r.group == 2 {
			if own != 0xA0 && own^0x20 != 0xA0 {
				k.one(ri, x, 0xA0, st)
			}
		} else if own != 0x04 && own^0x20 != 0x04 {
			k.one(ri, x, 0x04, st)
		}
	}
	if x.perr != "" && len(st.keys) < 4096 {
		st.keys["reject|"+x.perr] = struct{}{}
	}
}

// blameWriter finds the reader that modified the input orig (slow path, only after a
// modification was seen).
func (k *checker) blameWriter(orig []byte, groups [3]bool) {
	var own byte
	if len(orig) > 0 {
		own = orig[0]
	}
	for ri := range k.rs {
		r := &k.rs[ri]
		if !groups[r.group] {
			continue
		}
		for _, p := range []byte{own, own ^ 0x20, 0xA0, 0x04} {
			b := append([]byte(nil), orig...)
			s := cryptobyte.String(b)
			vf.Protect(func() { r.real(&s, asn1.Tag(p)) })
			if !bytes.Equal(b, orig) {
				k.report(r.class()+" writes to its input", r, orig, p, map[string]any{"input_after": hexN(b)})
				return
			}
			if !r.param {
				break
			}
		}
	}
	k.c.Violation("some reader writes to its input", map[string]any{"input": hexN(orig)})
}

// ---------------------------------------------------------------------------
// S: all strings of length <= 3
// ---------------------------------------------------------------------------

func (k *checker) sweep(maxLen int, groups [3]bool, label string) {
	c := k.c
	all := [3]bool{true, true, true}
	// lengths 0..2: everything
	if maxLen >= 2 {
		c.ParallelFor(257, func(i int) {
			st := k.newStats()
			defer k.merge(st)
			if i == 256 {
				k.checkInput([]byte{}, all, st)
				k.checkInput(nil, all, st)
				return
			}
			k.checkInput([]byte{byte(i)}, all, st)
			for j := 0; j < 256; j++ {
				k.checkInput([]byte{byte(i), byte(j)}, all, st)
			}
		})
	}
	if maxLen >= 3 {
		c.ParallelFor(65536, func(i int) {
			st := k.newStats()
			st.skipLight = !k.c.Thorough
			defer k.merge(st)
			for j := 0; j < 256; j++ {
				k.checkInput([]byte{byte(i >> 8), byte(i), byte(j)}, groups, st)
			}
		})
	}
	c.Set("sweep_"+label, map[string]any{"max_len": maxLen, "groups_generic_typed_optional": groups})
}

// sweep4 (thorough): every 2-byte tail under 16 identifier octets x 9 length octets into
// every reader, and every 3-byte content of INTEGER/ENUMERATED/OID/BIT STRING/BOOLEAN
// into the typed readers.
func (k *checker) sweep4() {
	c := k.c
	tags := []byte{0x01, 0x02, 0x03, 0x04, 0x05, 0x06, 0x0a, 0x17, 0x18, 0x1f, 0x22, 0x30, 0x42, 0x82, 0xa0, 0xa2}
	lens := []byte{0x00, 0x01, 0x02, 0x03, 0x7f, 0x80, 0x81, 0x82, 0xff}
	all := [3]bool{true, true, true}
	c.ParallelFor(len(tags)*len(lens)*256, func(i int) {
		st := k.newStats()
		defer k.merge(st)
		t, l, hi := tags[i/(len(lens)*256)], lens[(i/256)%len(lens)], byte(i)
		for lo := 0; lo < 256; lo++ {
			k.checkInput([]byte{t, l, hi, byte(lo)}, all, st)
		}
	})
	typed := [3]bool{false, true, false}
	tags3 := []byte{0x02, 0x0a, 0x06, 0x03, 0x01}
	c.ParallelFor(len(tags3)*65536, func(i int) {
		st := k.newStats()
		defer k.merge(st)
		t := tags3[i>>16]
		for lo := 0; lo < 256; lo++ {
			k.checkInput([]byte{t, 0x03, byte(i >> 8), byte(i), byte(lo)}, typed, st)
		}
	})
	c.Set("sweep_structured_len4_5", map[string]any{"two_byte_tails": len(tags) * len(lens) * 65536, "three_byte_contents": len(tags3) << 24})
}

// ---------------------------------------------------------------------------
// content classes
// ---------------------------------------------------------------------------

type content struct {
	typ  string
	data []byte
}

func intContents(full bool) [][]byte {
	var out [][]byte
	seen := map[string]bool{}
	add := func(b []byte) {
		if !seen[string(b)] {
			seen[string(b)] = true
			out = append(out, b)
		}
	}
	var vals []*big.Int
	bitsList := []uint{0, 1, 6, 7, 8, 9, 14, 15, 16, 17, 23, 24, 30, 31, 32, 33, 47, 55, 56, 62, 63, 64, 65, 71, 72, 127, 128}
	deltas := []int64{-2, -1, 0, 1, 2}
	if !full {
		bitsList = []uint{0, 7, 8, 15, 16, 31, 32, 63, 64}
		deltas = []int64{-1, 0, 1}
	}
	for _, bits := range bitsList {
		p := new(big.Int).Lsh(big.NewInt(1), bits)
		for _, d := range deltas {
			v := new(big.Int).Add(p, big.NewInt(d))
			vals = append(vals, v, new(big.Int).Neg(v))
		}
	}
	for _, v := range vals {
		c := derref.IntegerContent(v)
		add(c)
		// redundant leading octet (non-minimal)
		if v.Sign() < 0 {
			add(append([]byte{0xff}, c...))
		} else {
			add(append([]byte{0x00}, c...))
		}
	}
	add([]byte{})
	add([]byte{0x00, 0x00, 0x00})
	add([]byte{0xff, 0xff, 0xff})
	add(append([]byte{0x01}, make([]byte, 8)...)) // 2^64
	add(append([]byte{0x00, 0xff}, make([]byte, 7)...))
	add(append([]byte{0x7f}, bytes.Repeat([]byte{0xff}, 19)...))
	if full {
		// E: content lengths around 32 and 256 octets (8*len wraps in 8 bits at 32, len in 8 bits at 256)
		for _, n := range []int{31, 32, 33, 255, 256, 257} {
			for _, head := range [][2]byte{{0x80, 0x5a}, {0xff, 0x5a}, {0xff, 0xda}, {0x7f, 0x5a}, {0x00, 0xda}, {0x00, 0x5a}} {
				b := bytes.Repeat([]byte{0x5a}, n)
				b[0], b[1] = head[0], head[1] // ff da.. and 00 5a.. are the non-minimal ones
				b[n-1] = 0x01
				add(b)
			}
		}
	}
	return out
}

func boolContents() [][]byte {
	return [][]byte{{}, {0x00}, {0x01}, {0x7f}, {0x80}, {0xfe}, {0xff}, {0x00, 0x00}, {0xff, 0xff}, {0xff, 0x00}, {0x00, 0xff}}
}

func oidContents() [][]byte {
	hx := []string{"", "00", "27", "28", "2a", "4f", "50", "7f", "80", "8001", "8100", "8101", "ff7f", "813403", "2a864886f70d", "2a864886f70d010101",
		"2a8001", "2a80", "2a81", "2aff", "2a8180", "2a818000", "2a87ffffff7f", "2a8880808000", "2a8fffffff7f", "2a90808000", "2a8f808000",
		"2a8180808080808080808000", "87ffffff7f", "8880808000", "87ffffff7f01", "8880808000" + "01", "2a00", "2a0000", "2a7f8100ff7f", "2a8180808000", "2affffffff7f",
		"0080", "5000", "2b0e03021a", "6086480165030402018001"}
	var out [][]byte
	for _, s := range hx {
		b, _ := hex.DecodeString(s)
		out = append(out, b)
	}
	long := []byte{0x2a}
	for i := 0; i < 40; i++ {
		long = append(long, 0x81, byte(i))
	}
	return append(out, long)
}

func bitContents() [][]byte {
	var out [][]byte
	for _, pad := range []int{0, 1, 2, 3, 4, 5, 6, 7, 8, 9, 0x7f, 0x80, 0xff} {
		out = append(out, []byte{byte(pad)})
		var lasts []byte
		lasts = append(lasts, 0x00, 0xff, 0x01, 0x80)
		if pad < 8 {
			lasts = append(lasts, 1<<uint(pad)) // lowest used bit set, unused bits clear
			if pad > 0 {
				lasts = append(lasts, 1<<uint(pad-1), byte(0xff)<<uint(pad)) // highest unused bit set; all used bits set
			}
		}
		for _, l := range lasts {
			out = append(out, []byte{byte(pad), l}, []byte{byte(pad), 0xa5, l}, []byte{byte(pad), l, 0x00})
		}
	}
	return append(out, []byte{})
}

func octetContents() [][]byte {
	var out [][]byte
	// E: 0x180 / 0x7fff / 0x8000 / 0xff00 / 0x10080: lengths whose low octet is >= 0x80 or zero
	// away from the 2^8 / 2^16 boundaries, and either side of bit 15
	for _, n := range []int{0, 1, 2, 126, 127, 128, 129, 255, 256, 257, 0x180, 0x7fff, 0x8000, 0xff00, 65535, 65536, 0x10080} {
		b := make([]byte, n)
		for i := range b {
			b[i] = byte(i*13+1) + seedByte
		}
		out = append(out, b)
	}
	return out
}

var coreTimes = []string{
	"910506234540Z", "500101000000Z", "491231235959Z", "000229120000Z", "010229120000Z", "9105062345Z", "9105062345+0100", "910506234540-0730",
	"910506234540+0000", "910506234540-0000", "910506234540+2400", "910506234540+0060", "910506234540", "910506234540z", "910506234540.5Z", "910506234560Z",
	"910506246000Z", "911306234540Z", "910532234540Z", "91050623454Z", "9105062345400Z", " 10506234540Z", "910506234540Z ", "",
	"19920521000000Z", "19920622123421Z", "19920722132100.3Z", "19920722132100.30Z", "199205210000Z", "1992052100Z", "19920521000000", "19920521000000+0130",
	"19920521000000-2400", "19920521000000+0000", "00000101000000Z", "99991231235959Z", "19000229000000Z", "20000229000000Z", "20240229235959Z", "19920521000060Z",
	"19920521240000Z", "19921321000000Z", "1992052100000Z", "199205210000000Z", "19920521000000,5Z", "-9920521000000Z", "+9920521000000Z", "1992052100000 Z",
}

func coreContents(fullInts bool) []content {
	var out []content
	for _, b := range intContents(fullInts) {
		out = append(out, content{"INTEGER", b})
	}
	for _, b := range boolContents() {
		out = append(out, content{"BOOLEAN", b})
	}
	for _, b := range oidContents() {
		out = append(out, content{"OID", b})
	}
	for _, b := range bitContents() {
		out = append(out, content{"BIT STRING", b})
	}
	for _, b := range octetContents() {
		out = append(out, content{"OCTET STRING", b})
	}
	for _, s := range coreTimes {
		out = append(out, content{"time", []byte(s)})
	}
	return out
}

var readerTag = map[byte]bool{0x01: true, 0x02: true, 0x03: true, 0x04: true, 0x06: true, 0x0a: true, 0x17: true, 0x18: true, 0x30: true, 0xa0: true, 0x24: true, 0x84: true}

// length-octet forms for a content of n bytes; nil = form not applicable
func lengthForms(n int) (names []string, forms [][]byte) {
	add := func(name string, b []byte) { names = append(names, name); forms = append(forms, b) }
	if n < 128 {
		add("short", []byte{byte(n)})
	}
	if n < 1<<8 {
		add("81", []byte{0x81, byte(n)})
	}
	if n < 1<<16 {
		add("82", []byte{0x82, byte(n >> 8), byte(n)})
	}
	add("83", []byte{0x83, byte(n >> 16), byte(n >> 8), byte(n)})
	add("84", []byte{0x84, byte(n >> 24), byte(n >> 16), byte(n >> 8), byte(n)})
	add("85", []byte{0x85, 0, byte(n >> 24), byte(n >> 16), byte(n >> 8), byte(n)})
	add("88", []byte{0x88, 0, 0, 0, 0, byte(n >> 24), byte(n >> 16), byte(n >> 8), byte(n)})
	add("80-indefinite", []byte{0x80})
	add("ff-reserved", []byte{0xff})
	if n < 127 {
		add("short+1", []byte{byte(n + 1)}) // claims one byte more than the content
	}
	return
}

// ---------------------------------------------------------------------------
// G1: the TLV grid
// ---------------------------------------------------------------------------

func (k *checker) gridG1(contents []content, tags []int, label string) {
	c := k.c
	all := [3]bool{true, true, true}
	var inputs int64
	var mu sync.Mutex
	c.ParallelFor(len(contents), func(ci int) {
		ct := contents[ci]
		st := k.newStats()
		defer k.merge(st)
		names, forms := lengthForms(len(ct.data))
		n := int64(0)
		for _, tag := range tags {
			if len(ct.data) > 4096 && tag&0x0f > 4 && tag != 0x30 {
				continue // the two 64K contents only under 5/16 of the identifier octets + SEQUENCE
			}
			if n := len(ct.data); n > 4096 && n != 65535 && n != 65536 && !readerTag[byte(tag)] {
				continue // the other long contents under the identifier octets some reader looks for
			}
			for fi, form := range forms {
				for tail := 0; tail < 3; tail++ {
					b := make([]byte, 0, 1+len(form)+len(ct.data)+3)
					b = append(b, byte(tag))
					b = append(b, form...)
					b = append(b, ct.data...)
					if names[fi] == "80-indefinite" {
						b = append(b, 0, 0)
					}
					switch tail {
					case 1:
						b = append(b, 0xAA)
					case 2:
						if len(ct.data) == 0 {
							continue
						}
						b = b[:len(b)-1]
					}
					k.checkInput(b, all, st)
					n++
				}
			}
			if c.Expired() {
				break
			}
		}
		mu.Lock()
		inputs += n
		mu.Unlock()
	})
	c.Set("grid_"+label, map[string]any{"contents": len(contents), "identifier_octets": len(tags), "length_forms": 10, "tails": 3, "inputs": inputs})
}

// special: length octets at the 32-bit limits (header+length arithmetic must not wrap)
func (k *checker) special() {
	st := k.newStats()
	defer k.merge(st)
	n := 0
	for _, tag := range []byte{0x02, 0x04, 0x30, 0xa0} {
		for _, l := range []uint32{0xffffffff, 0xfffffffe, 0xfffffffd, 0xfffffffc, 0xfffffffb, 0xfffffffa, 0xfffffff9, 0xfffffff0, 0x80000000, 0x7fffffff, 0x7ffffffa, 0x01000000, 0x00ffffff} {
			for _, body := range []int{0, 1, 4, 5, 6, 7, 16} {
				b := []byte{tag, 0x84, byte(l >> 24), byte(l >> 16), byte(l >> 8), byte(l)}
				for i := 0; i < body; i++ {
					b = append(b, byte(i+1))
				}
				k.checkInput(b, [3]bool{true, true, true}, st)
				n++
			}
		}
	}
	k.c.Set("special_32bit_length_inputs", n)
}

// huge (C): elements around 2^24 content octets - the only inputs on which the four-octet
// long form is the minimal one, i.e. on which the 0x84 path accepts. Under OCTET STRING and
// SEQUENCE: 2^24-1 octets with 83 ffffff (DER) and with 84 00ffffff (not minimal); 2^24 and
// 2^24+1 octets with 84 01000000 / 84 01000001; one octet missing; one octet trailing.
// Run one after the other (each input is 16 MiB; every reader sub-slices).
func (k *checker) huge() {
	const B = 1 << 24
	const room = 8 // header octets are written in front of the one content buffer
	whole := make([]byte, room+B+1)
	content := whole[room:]
	for i := range content {
		content[i] = byte(i*7+3) + seedByte
	}
	type in struct {
		hdr []byte
		n   int
	}
	ins := []in{
		{[]byte{0x83, 0xff, 0xff, 0xff}, B - 1},
		{[]byte{0x84, 0x00, 0xff, 0xff, 0xff}, B - 1},
		{[]byte{0x84, 0x01, 0x00, 0x00, 0x00}, B},
		{[]byte{0x84, 0x01, 0x00, 0x00, 0x00}, B - 1},
		{[]byte{0x84, 0x01, 0x00, 0x00, 0x00}, B + 1},
		{[]byte{0x84, 0x01, 0x00, 0x00, 0x01}, B + 1},
		{[]byte{0x83, 0xff, 0xff, 0xff}, B - 2},
	}
	st := k.newStats()
	defer k.merge(st)
	n := 0
	for _, tag := range []byte{0x04, 0x30} {
		for xi, x := range ins {
			if tag == 0x30 && xi > 2 && !k.c.Thorough {
				continue
			}
			start := room - 1 - len(x.hdr)
			whole[start] = tag
			copy(whole[start+1:], x.hdr)
			b := whole[start : room+x.n : room+x.n]
			k.checkInput(b, [3]bool{true, true, true}, st)
			n++
			if k.c.Expired() {
				return
			}
		}
	}
	st.orig = nil
	k.c.Set("huge_2^24_inputs", n)
	// builders at the same boundary
	for _, m := range []int{B - 1, B} {
		data := content[:m]
		d := fmt.Sprintf("%d bytes", m)
		k.build("AddASN1OctetString", derref.Element(0x04, data), false, func(b *cryptobyte.Builder) { b.AddASN1OctetString(data) }, d)
		if k.c.Thorough {
			k.build("AddASN1BitString", derref.Element(0x03, append([]byte{0}, data[:m-1]...)), false, func(b *cryptobyte.Builder) { b.AddASN1BitString(data[:m-1]) }, d)
		}
	}
}

// ---------------------------------------------------------------------------
// G2: time grammars
// ---------------------------------------------------------------------------

func timeStrings(generalized bool) []string {
	years := []string{"00", "49", "50", "68", "69", "99"}
	if generalized {
		years = []string{"0000", "0001", "1900", "1949", "1950", "2000", "2049", "2050", "9999"}
	}
	mmdd := []string{"0101", "0131", "0132", "0228", "0229", "0230", "0430", "0431", "1231", "1301", "0001", "0100"}
	hhmm := []string{"0000", "2359", "2400", "0060", "1230", "9999"}
	secs := []string{"", "00", "59", "60"}
	if generalized {
		secs = append(secs, "30.5")
	}
	zones := []string{"Z", "", "+0000", "-0000", "+0100", "-0130", "+2359", "-2359", "+2400", "+2430", "+0060", "z", "+01"}
	var out []string
	for _, y := range years {
		for _, md := range mmdd {
			for _, hm := range hhmm {
				for _, s := range secs {
					for _, z := range zones {
						out = append(out, y+md+hm+s+z)
					}
				}
			}
		}
	}
	return out
}

func (k *checker) gridG2() {
	c := k.c
	strs := append(timeStrings(false), timeStrings(true)...)
	groups := [3]bool{false, true, false}
	const chunk = 256
	c.ParallelFor((len(strs)+chunk-1)/chunk, func(ci int) {
		st := k.newStats()
		defer k.merge(st)
		for i := ci * chunk; i < len(strs) && i < (ci+1)*chunk; i++ {
			for _, tag := range []byte{0x17, 0x18} {
				k.checkInput(derref.Element(tag, []byte(strs[i])), groups, st)
			}
		}
	})
	c.Set("grid_time_grammar", map[string]any{"strings": len(strs), "tags": 2})
}

// ---------------------------------------------------------------------------
// G3: explicit-tag wrappers
// ---------------------------------------------------------------------------

func (k *checker) gridG3(contents []content) {
	c := k.c
	groups := [3]bool{true, false, true}
	ownTag := map[string][]byte{"INTEGER": {0x02}, "BOOLEAN": {0x01}, "OCTET STRING": {0x04}, "OID": {0x06, 0x04}, "BIT STRING": {0x03, 0x04}, "time": {0x17, 0x04}}
	var inputs int64
	var mu sync.Mutex
	c.ParallelFor(len(contents), func(ci int) {
		ct := contents[ci]
		if len(ct.data) > 300 {
			return
		}
		st := k.newStats()
		defer k.merge(st)
		n := int64(0)
		innerTags := append([]byte{}, ownTag[ct.typ]...)
		for _, t := range []byte{0x01, 0x02, 0x04, 0x22} {
			if !bytes.Contains(innerTags, []byte{t}) {
				innerTags = append(innerTags, t)
			}
		}
		for _, it := range innerTags {
			inners := [][]byte{derref.Element(it, ct.data)}
			if len(ct.data) < 128 {
				inners = append(inners, append([]byte{it, 0x81, byte(len(ct.data))}, ct.data...)) // non-minimal inner length
			}
			for _, inner := range inners {
				for _, junk := range [][]byte{nil, {0x00}, {0x05, 0x00}, inner} {
					body := append(append([]byte{}, inner...), junk...)
					for _, w := range []byte{0xA0, 0xA3, 0x30, 0x80, 0xBF} {
						wrappers := [][]byte{derref.Element(w, body)}
						if len(body) < 128 {
							wrappers = append(wrappers, append([]byte{w, 0x81, byte(len(body))}, body...))
						}
						for _, wr := range wrappers {
							for _, outer := range [][]byte{nil, {0x00}} {
								b := append(append([]byte{}, wr...), outer...)
								k.checkInput(b, groups, st)
								n++
							}
						}
					}
				}
			}
		}
		mu.Lock()
		inputs += n
		mu.Unlock()
	})
	c.Set("grid_explicit_wrappers", map[string]any{"inputs": inputs, "wrapper_tags": 5, "inner_tails": 4})
}

// ---------------------------------------------------------------------------
// B: builders
// ---------------------------------------------------------------------------

// build runs one builder call f in three contexts (D): on a fresh zero Builder; as the
// middle element of a SEQUENCE (child builder that already holds a sibling, another sibling
// after it); and on a fixed-size Builder whose capacity is exactly the encoding's length and
// whose buffer holds old bytes. The encoding must be the same DER in all of them.
func (k *checker) build(name string, want []byte, wantErr bool, f func(b *cryptobyte.Builder), detail string) []byte {
	c := k.c
	var first []byte
	for ctx, cname := range []string{"", " (as the middle element of a SEQUENCE)", " (fixed-size builder of exact capacity)"} {
		var b *cryptobyte.Builder
		wantCtx := want
		run := f
		switch ctx {
		case 0:
			b = new(cryptobyte.Builder)
		case 1:
			b = new(cryptobyte.Builder)
			if !wantErr {
				body := append(append([]byte{0x02, 0x01, 0x05}, want...), 0x05, 0x00)
				wantCtx = derref.Element(0x30, body)
			}
			run = func(b *cryptobyte.Builder) {
				b.AddASN1(asn1.SEQUENCE, func(ch *cryptobyte.Builder) {
					ch.AddASN1Int64(5)
					f(ch)
					ch.AddASN1NULL()
				})
			}
		case 2:
			if wantErr {
				continue
			}
			buf := bytes.Repeat([]byte{0xEE}, len(want))
			b = cryptobyte.NewFixedBuilder(buf[:0])
		}
		var out []byte
		var err error
		if p, v, _ := vf.Protect(func() { run(b); out, err = b.Bytes() }); p {
			c.Violation(name+" panics", map[string]any{"value": detail, "panic": fmt.Sprint(v), "context": cname})
			return nil
		}
		c.Eval(1)
		if wantErr {
			if err == nil {
				c.Violation(name+" encodes a value that has no DER encoding", map[string]any{"value": detail, "output": hexN(out), "context": cname})
			}
			c.Nontrivial(name + "|error")
			continue
		}
		if err != nil {
			c.Violation(name+" fails on a representable value"+cname, map[string]any{"value": detail, "err": err.Error()})
			return nil
		}
		if !bytes.Equal(out, wantCtx) {
			c.Violation(name+" does not emit the DER encoding"+cname, map[string]any{"value": detail, "got": hexN(out), "want": hexN(wantCtx)})
			return nil
		}
		if ctx == 0 {
			first = out
		}
	}
	if wantErr {
		return nil
	}
	c.Nontrivial(fmt.Sprintf("%s|len%d", name, min(len(first), 12)))
	return first
}

func (k *checker) stdAgree(name string, enc []byte, ptr any, want any, detail string) {
	if enc == nil {
		return
	}
	rest, err := encoding_asn1.Unmarshal(enc, ptr)
	if err != nil || len(rest) != 0 {
		k.c.Violation(name+" output is rejected by encoding/asn1", map[string]any{"value": detail, "output": hexN(enc), "err": fmt.Sprint(err)})
		return
	}
	got := reflect.ValueOf(ptr).Elem().Interface()
	if !eqVal(got, want) && !reflect.DeepEqual(got, want) {
		k.c.Violation(name+" output decodes to a different value in encoding/asn1", map[string]any{"value": detail, "output": hexN(enc), "decoded": fmt.Sprint(got)})
	}
}

// timeBuilders exercises AddASN1UTCTime / AddASN1GeneralizedTime with times in seven
// zones around the year boundaries. Oracle (no more than the property and the two
// libraries' documentation): (a) an emitted element must be read back by the
// cryptobyte reader and by encoding/asn1 to the same instant; (b) the builder emits
// exactly when encoding/asn1's marshaller emits the same type for the same value
// (UTCTime: calendar year of the time in its own zone within 1950..2049 - outside
// encoding/asn1 switches to GeneralizedTime; GeneralizedTime: year 0..9999), and then
// the bytes are identical.
func (k *checker) timeBuilders() {
	c := k.c
	zones := []*time.Location{time.UTC, time.FixedZone("", 3600), time.FixedZone("", -3600), time.FixedZone("", 14*3600), time.FixedZone("", -12*3600),
		time.FixedZone("", 5*3600+45*60), time.FixedZone("CET", 3600), time.FixedZone("NST", -(3*3600 + 30*60))}
	var instants []time.Time
	for _, z := range zones {
		_, off := time.Date(2000, 1, 1, 0, 0, 0, 0, z).Zone()
		if off < 0 {
			off = -off
		}
		var deltas []time.Duration
		for _, d := range []int{0, 1, 1800, 3600, off, off + 1, off - 1} {
			deltas = append(deltas, time.Duration(d)*time.Second, -time.Duration(d)*time.Second)
		}
		for _, y := range []int{0, 1, 1950, 2000, 2050, 9999, 10000} {
			for _, base := range []time.Time{time.Date(y, 1, 1, 0, 0, 0, 0, time.UTC), time.Date(y, 1, 1, 0, 0, 0, 0, z)} {
				for _, d := range deltas {
					instants = append(instants, base.Add(d).In(z))
				}
			}
		}
		for _, o := range []time.Time{time.Date(1970, 1, 1, 0, 0, 0, 0, time.UTC), time.Date(1999, 12, 31, 23, 59, 59, 0, time.UTC),
			time.Date(2024, 2, 29, 12, 0, 0, 0, time.UTC), time.Date(2038, 1, 19, 3, 14, 7, 0, time.UTC), time.Date(1969, 7, 20, 20, 17, 40, 0, time.UTC)} {
			instants = append(instants, o.In(z))
		}
	}
	type kind struct {
		name   string
		tag    byte
		params string
		add    func(b *cryptobyte.Builder, t time.Time)
		read   func(s *cryptobyte.String, out *time.Time) bool
	}
	kinds := []kind{
		{"AddASN1UTCTime", 0x17, "utc", func(b *cryptobyte.Builder, t time.Time) { b.AddASN1UTCTime(t) }, func(s *cryptobyte.String, out *time.Time) bool { return s.ReadASN1UTCTime(out) }},
		{"AddASN1GeneralizedTime", 0x18, "generalized", func(b *cryptobyte.Builder, t time.Time) { b.AddASN1GeneralizedTime(t) }, func(s *cryptobyte.String, out *time.Time) bool { return s.ReadASN1GeneralizedTime(out) }},
	}
	n := 0
	for _, t := range instants {
		t := t
		_, off := t.Zone()
		d := fmt.Sprintf("%s (zone offset %ds)", t.Format("2006-01-02T15:04:05Z07:00"), off)
		for _, kd := range kinds {
			var b cryptobyte.Builder
			var out []byte
			var err error
			if p, v, _ := vf.Protect(func() { kd.add(&b, t); out, err = b.Bytes() }); p {
				c.Violation(kd.name+" panics", map[string]any{"value": d, "panic": fmt.Sprint(v)})
				continue
			}
			c.Eval(1)
			n++
			std, serr := encoding_asn1.MarshalWithParams(t, kd.params)
			stdEmits := serr == nil && len(std) > 0 && std[0] == kd.tag
			c.Nontrivial(fmt.Sprintf("%s|zone%d|emits=%v", kd.name, off, err == nil))
			if err == nil {
				var back time.Time
				s := cryptobyte.String(out)
				if !kd.read(&s, &back) || !s.Empty() {
					c.Violation(kd.name+" emits an element its own reader rejects", map[string]any{"value": d, "output": hexN(out)})
				} else if !back.Equal(t) {
					c.Violation(kd.name+" output reads back as a different instant", map[string]any{"value": d, "output": hexN(out), "read_back": back.Format(time.RFC3339)})
				}
				var sb time.Time
				if rest, uerr := encoding_asn1.Unmarshal(out, &sb); uerr != nil || len(rest) != 0 {
					c.Violation(kd.name+" output is rejected by encoding/asn1", map[string]any{"value": d, "output": hexN(out), "err": fmt.Sprint(uerr)})
				} else if !sb.Equal(t) {
					c.Violation(kd.name+" output decodes to a different instant in encoding/asn1", map[string]any{"value": d, "output": hexN(out), "decoded": sb.Format(time.RFC3339)})
				}
			}
			switch {
			case err == nil && !stdEmits:
				c.Violation(kd.name+" encodes a time for which encoding/asn1 does not emit this type", map[string]any{"value": d, "output": hexN(out), "encoding/asn1": hexN(std), "err": fmt.Sprint(serr)})
			case err != nil && stdEmits:
				c.Violation(kd.name+" refuses a time that encoding/asn1 encodes as this type", map[string]any{"value": d, "err": err.Error(), "encoding/asn1": hexN(std)})
			case err == nil && !bytes.Equal(out, std):
				c.Violation(kd.name+" output differs from encoding/asn1's for the same time", map[string]any{"value": d, "output": hexN(out), "encoding/asn1": hexN(std)})
			}
		}
	}
	c.Set("time_builder_grid", map[string]any{"zones": len(zones), "instants": len(instants), "builder_calls": n})
}

func (k *checker) builders() {
	k.timeBuilders()
	c := k.c
	// integers: +-(2^bits) + {-2..2}
	var vals []*big.Int
	for bits := uint(0); bits <= 130; bits++ {
		p := new(big.Int).Lsh(big.NewInt(1), bits)
		for _, d := range []int64{-2, -1, 0, 1, 2} {
			v := new(big.Int).Add(p, big.NewInt(d))
			vals = append(vals, v, new(big.Int).Neg(v))
		}
	}
	vals = append(vals, new(big.Int).Lsh(big.NewInt(1), 1024), new(big.Int).Neg(new(big.Int).Lsh(big.NewInt(1), 1024)), new(big.Int).Sub(new(big.Int).Lsh(big.NewInt(1), 1023), big.NewInt(1)))
	for _, v := range vals {
		v := v
		d := v.String()
		want := derref.Element(0x02, derref.IntegerContent(v))
		out := k.build("AddASN1BigInt", want, false, func(b *cryptobyte.Builder) {
			// A: the argument stays the caller's - unchanged by the call, and overwritten right after it
			arg := new(big.Int).Set(v)
			b.AddASN1BigInt(arg)
			if arg.Cmp(v) != 0 {
				c.Violation("AddASN1BigInt modifies its argument", map[string]any{"value": d, "after": arg.String()})
			}
			for i, w := range arg.Bits() {
				arg.Bits()[i] = ^w
			}
			arg.SetInt64(0x5a5a)
		}, d)
		var sb *big.Int
		k.stdAgree("AddASN1BigInt", out, &sb, v, d)
		if out != nil {
			back := new(big.Int)
			s := cryptobyte.String(out)
			if !s.ReadASN1Integer(back) || back.Cmp(v) != 0 || !s.Empty() {
				c.Violation("AddASN1BigInt output does not read back", map[string]any{"value": d})
			}
		}
		if v.IsInt64() {
			i := v.Int64()
			out := k.build("AddASN1Int64", want, false, func(b *cryptobyte.Builder) { b.AddASN1Int64(i) }, d)
			var si int64
			k.stdAgree("AddASN1Int64", out, &si, i, d)
			k.build("AddASN1Enum", derref.Element(0x0a, derref.IntegerContent(v)), false, func(b *cryptobyte.Builder) { b.AddASN1Enum(i) }, d)
			for _, tag := range []int{0x02, 0x80, 0x9e, 0xa5, 0x00, 0x1f, 0x3f, 0xff} {
				tag := tag
				k.build(fmt.Sprintf("AddASN1Int64WithTag(0x%02x)", tag), derref.Element(byte(tag), derref.IntegerContent(v)), tag&0x1f == 0x1f,
					func(b *cryptobyte.Builder) { b.AddASN1Int64WithTag(i, asn1.Tag(tag)) }, d)
			}
		}
		if v.IsUint64() {
			u := v.Uint64()
			k.build("AddASN1Uint64", want, false, func(b *cryptobyte.Builder) { b.AddASN1Uint64(u) }, d)
		}
	}
	// every identifier octet for the tagged integer builder
	for tag := 0; tag < 256; tag++ {
		tag := tag
		k.build(fmt.Sprintf("AddASN1Int64WithTag(0x%02x)", tag), derref.Element(byte(tag), []byte{0x00, 0x80}), tag&0x1f == 0x1f,
			func(b *cryptobyte.Builder) { b.AddASN1Int64WithTag(128, asn1.Tag(tag)) }, "128")
	}
	// booleans, NULL
	for _, v := range []bool{false, true} {
		v := v
		want := []byte{0x01, 0x01, 0x00}
		if v {
			want[2] = 0xff
		}
		out := k.build("AddASN1Boolean", want, false, func(b *cryptobyte.Builder) { b.AddASN1Boolean(v) }, fmt.Sprint(v))
		var sb bool
		k.stdAgree("AddASN1Boolean", out, &sb, v, fmt.Sprint(v))
	}
	out := k.build("AddASN1NULL", []byte{0x05, 0x00}, false, func(b *cryptobyte.Builder) { b.AddASN1NULL() }, "NULL")
	var raw encoding_asn1.RawValue
	if rest, err := encoding_asn1.Unmarshal(out, &raw); err != nil || len(rest) != 0 || raw.Tag != 5 || len(raw.Bytes) != 0 {
		c.Violation("AddASN1NULL output is rejected by encoding/asn1", fmt.Sprint(err))
	}
	// octet and bit strings at the length-form boundaries
	for _, data := range octetContents() {
		data := data
		d := fmt.Sprintf("%d bytes", len(data))
		owned := func(add func(p []byte)) { // A: private copy, wiped as soon as the call has returned
			p := append(make([]byte, 0, len(data)+8), data...)
			add(p)
			for i := range p {
				p[i] ^= 0xFF
			}
		}
		out := k.build("AddASN1OctetString", derref.Element(0x04, data), false, func(b *cryptobyte.Builder) { owned(b.AddASN1OctetString) }, d)
		var sb []byte
		k.stdAgree("AddASN1OctetString", out, &sb, data, d)
		out = k.build("AddASN1BitString", derref.Element(0x03, append([]byte{0}, data...)), false, func(b *cryptobyte.Builder) { owned(b.AddASN1BitString) }, d)
		var bs encoding_asn1.BitString
		if out != nil {
			if rest, err := encoding_asn1.Unmarshal(out, &bs); err != nil || len(rest) != 0 || !bytes.Equal(bs.Bytes, data) || bs.BitLength != 8*len(data) {
				c.Violation("AddASN1BitString output decodes to a different value in encoding/asn1", d)
			}
		}
	}
	// object identifiers
	arcVals := []int{0, 1, 2, 39, 40, 47, 48, 127, 128, 16383, 16384, 2097151, 2097152, 268435455, 268435456, 1<<31 - 1 - 80, 1<<31 - 1, -1}
	var oids [][]int
	oids = append(oids, []int{}, []int{0}, []int{1}, []int{2}, []int{3, 1}, []int{-1, 1})
	for _, a := range []int{0, 1, 2, 3} {
		for _, b := range arcVals {
			oids = append(oids, []int{a, b})
			for _, cc := range arcVals {
				oids = append(oids, []int{a, b, cc}, []int{a, b, cc, 5}, []int{a, b, 840, cc})
			}
		}
	}
	for _, o := range oids {
		o := o
		d := fmt.Sprint(o)
		content, ok := derref.OIDContent(o)
		if ok && o[0] == 2 && o[1] > derref.MaxArc-80 {
			continue // 2.x with 80+x above 2^31-1: readers cannot represent it; the builder's behaviour is not specified
		}
		out := k.build("AddASN1ObjectIdentifier", derref.Element(0x06, content), !ok, func(b *cryptobyte.Builder) {
			arg := append(encoding_asn1.ObjectIdentifier(nil), o...)
			b.AddASN1ObjectIdentifier(arg)
			if !arg.Equal(o) {
				c.Violation("AddASN1ObjectIdentifier modifies its argument", map[string]any{"value": d})
			}
			for i := range arg {
				arg[i] = 1
			}
		}, d)
		var so encoding_asn1.ObjectIdentifier
		k.stdAgree("AddASN1ObjectIdentifier", out, &so, encoding_asn1.ObjectIdentifier(o), d)
		if out != nil {
			var back encoding_asn1.ObjectIdentifier
			s := cryptobyte.String(out)
			if !s.ReadASN1ObjectIdentifier(&back) || !back.Equal(o) || !s.Empty() {
				c.Violation("AddASN1ObjectIdentifier output does not read back", d)
			}
		}
	}
	// times in UTC against the reference DER strings (other zones: timeBuilders)
	two := func(v int) string { return fmt.Sprintf("%02d", v) }
	for _, y := range []int{-1, 0, 1, 999, 1949, 1950, 1969, 1970, 1999, 2000, 2024, 2049, 2050, 2051, 9999, 10000} {
		for _, md := range [][2]int{{1, 1}, {2, 28}, {2, 29}, {12, 31}, {6, 30}} {
			for _, hms := range [][3]int{{0, 0, 0}, {23, 59, 59}, {12, 30, 1}} {
				t := time.Date(y, time.Month(md[0]), md[1], hms[0], hms[1], hms[2], 0, time.UTC)
				if t.Day() != md[1] {
					continue // Feb 29 in a non-leap year normalises to Mar 1
				}
				d := t.Format(time.RFC3339)
				body := two(md[0]) + two(md[1]) + two(hms[0]) + two(hms[1]) + two(hms[2]) + "Z"
				gen := derref.Element(0x18, []byte(fmt.Sprintf("%04d", y)+body))
				out := k.build("AddASN1GeneralizedTime", gen, y < 0 || y > 9999, func(b *cryptobyte.Builder) { b.AddASN1GeneralizedTime(t) }, d)
				if out != nil {
					var st time.Time
					k.stdAgree("AddASN1GeneralizedTime", out, &st, t, d)
					var back time.Time
					s := cryptobyte.String(out)
					if !s.ReadASN1GeneralizedTime(&back) || !back.Equal(t) {
						c.Violation("AddASN1GeneralizedTime output does not read back", d)
					}
				}
				utc := derref.Element(0x17, []byte(two(((y%100)+100)%100)+body))
				out = k.build("AddASN1UTCTime", utc, y < 1950 || y > 2049, func(b *cryptobyte.Builder) { b.AddASN1UTCTime(t) }, d)
				if out != nil {
					var st time.Time
					k.stdAgree("AddASN1UTCTime", out, &st, t, d)
					var back time.Time
					s := cryptobyte.String(out)
					if !s.ReadASN1UTCTime(&back) || !back.Equal(t) {
						c.Violation("AddASN1UTCTime output does not read back", d)
					}
				}
			}
		}
	}
	// MarshalASN1 delegates to encoding/asn1: only the plumbing
	k.build("MarshalASN1", []byte{0x02, 0x02, 0x00, 0x80}, false, func(b *cryptobyte.Builder) { b.MarshalASN1(128) }, "128")
	k.build("MarshalASN1", nil, true, func(b *cryptobyte.Builder) { b.MarshalASN1(make(chan int)) }, "chan")
	// documented panic: ReadASN1Integer with an unsupported destination
	s := cryptobyte.String([]byte{2, 1, 5})
	var str string
	if !vf.Panics(func() { s.ReadASN1Integer(&str) }) {
		c.Violation("ReadASN1Integer(*string) does not panic as documented", nil)
	}
}

// ---------------------------------------------------------------------------

func run(c *vf.Ctx) {
	c.Rule("inputs: every byte string of length <=3, the TLV grid (256 identifier octets x 10 length-octet forms x 3 tails x per-type content classes), the UTCTime/GeneralizedTime field grammars, " +
		"explicit-tag wrappers; each input into every reader (tagged readers with the input's own identifier octet, its constructed-bit twin and one fixed tag); builders over the integer/OID/time/string value alphabets; " +
		"non-trivial = distinct (reader, accepted, model class, content length) and distinct rejection reasons of the DER grammar; oracle = X.690 reference grammar verif/ref/derref; encoding/asn1 only for value agreement when both accept; " +
		"hardening dimensions: (A) no reader writes to its input (pristine copy compared after every input), the *big.Int default of ReadOptionalASN1Integer stays the caller's, builder arguments (*big.Int, OID, byte slices) are private copies checked for modification and overwritten right after the call; " +
		"(B) every reader destination holds an old non-zero value of another length (integers all-ones, *big.Int a 300-bit negative, slices/OID/BitString/time non-empty; BOOLEAN with both old values); " +
		"(C) elements of 2^24-1, 2^24 and 2^24+1 content octets under OCTET STRING and SEQUENCE (the only inputs on which the four-octet long form is minimal) incl. the non-minimal 84 00ffffff form, one octet missing / trailing, and AddASN1OctetString at 2^24-1 / 2^24; " +
		"(D) every builder call also as the middle element of a SEQUENCE and on a fixed-size builder of exact capacity; (E) nil outTag / nil outPresent variants of ReadAnyASN1(Element) / ReadOptionalASN1 / ReadOptionalASN1OctetString, INTEGER contents of 31/32/33/255/256/257 octets (minimal and padded, both signs), OCTET STRING lengths 0x180/0x7fff/0x8000/0xff00/0x10080")
	c.Assume("cryptobyte's documented deviations are not alarmed on: high-tag-number identifiers rejected, UTCTime with minute precision and time differentials (+-hhmm) tolerated, GeneralizedTime with a seconds fraction unsupported; arcs above 2^31-1 not representable")
	c.Assume("time differentials with hour 24 (accepted via time.Parse) are classified as don't-care")

	seedByte = byte(c.Seed)
	k := &checker{c: c, rs: readers(), lenient: map[string]int64{}}
	k.accepts = make([]int64, len(k.rs))
	k.rejects = make([]int64, len(k.rs))
	defer func() {
		per := map[string]any{}
		for i, r := range k.rs {
			per[r.name] = map[string]int64{"accepted": k.accepts[i], "rejected": k.rejects[i]}
			c.Outcome(r.name + "|accepts")
			if k.accepts[i] == 0 && c.Replay == nil {
				c.Violation("harness: reader "+r.name+" never accepted anything (vacuous)", nil)
			}
		}
		c.Set("reader_calls", per)
		c.Set("compared_with_encoding_asn1", k.stdCmp)
		c.Set("documented_leniency_inputs", k.lenient)
	}()

	if c.Replay != nil {
		d, _ := c.Replay["detail"].(map[string]any)
		hx, _ := d["input_hex"].(string)
		b, err := hex.DecodeString(hx)
		if err != nil || d["input_hex"] == nil {
			fmt.Println("replay file has no input_hex (builder violation?): rerun the tier instead")
			k.builders()
			return
		}
		st := k.newStats()
		k.checkInput(b, [3]bool{true, true, true}, st)
		k.merge(st)
		return
	}

	if f := os.Getenv("C23_PPROF"); f != "" {
		w, _ := os.Create(f)
		pprof.StartCPUProfile(w)
		defer pprof.StopCPUProfile()
	}
	phases := map[string]float64{}
	last := time.Now()
	phase := func(name string) {
		phases[name] = time.Since(last).Seconds()
		last = time.Now()
		c.Set("phase_seconds", phases)
	}
	core := coreContents(true)
	var tags []int
	for t := 0; t < 256; t++ {
		tags = append(tags, t)
	}
	c.Sample(map[string]any{"grid_input_example": "02 81 01 7f (INTEGER content 7f under the non-minimal 0x81 length form) -> every reader must reject"})
	c.Sample(map[string]any{"content_classes": map[string]int{"INTEGER": len(intContents(true)), "BOOLEAN": len(boolContents()), "OID": len(oidContents()), "BIT STRING": len(bitContents()), "OCTET STRING": len(octetContents()), "time": len(coreTimes)}})
	k.builders()
	phase("builders")
	k.special()
	k.huge()
	phase("huge_2^24")
	k.gridG2()
	phase("G2_time_grammar")
	k.gridG3(core)
	phase("G3_explicit_wrappers")
	if c.Thorough {
		k.gridG1(core, tags, "tlv")
	} else {
		// quick: the 256-octet cross with the integer contents at the Go-type boundaries only;
		// the complete integer alphabet under the identifier octets that some reader looks for
		k.gridG1(coreContents(false), tags, "tlv")
		var ints []content
		for _, b := range intContents(true) {
			ints = append(ints, content{"INTEGER", b})
		}
		k.gridG1(ints, []int{0x01, 0x02, 0x03, 0x04, 0x05, 0x06, 0x0a, 0x17, 0x18, 0x1f, 0x22, 0x30, 0x42, 0x82, 0xa0, 0xa2}, "tlv_all_integers")
	}
	phase("G1_tlv_grid")
	if c.Thorough || os.Getenv("C23_FULL_SWEEP") != "" {
		k.sweep(3, [3]bool{true, true, true}, "all_readers")
		phase("S_sweep")
		k.sweep4()
		phase("S_structured_len4_5")
		return
	} else {
		k.sweep(3, [3]bool{true, true, false}, "len3_generic_and_typed")
	}
	phase("S_sweep")
}
