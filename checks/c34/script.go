package main

import (
	"bytes"
	"errors"
	"fmt"
	"io"
	"strings"
	"sync"

	"golang.org/x/crypto/ssh"
	ref "verif/ref/sshclientauth"
	"verif/vf"
)

// ---------------------------------------------------------------------------
// Client configurations
// ---------------------------------------------------------------------------

const (
	mPassword = iota
	mKI
	mPK
)

var methodName = [...]string{ref.Password, ref.KeyboardInteractive, ref.PublicKey}
var methodBit = map[string]int{ref.Password: 1, ref.PublicKey: 2, ref.KeyboardInteractive: 4}

type methodSpec struct {
	kind    int
	signers []*signerSpec
	retry   int // >0: wrapped in RetryableAuthMethod(m, retry)
}

func (m methodSpec) String() string {
	s := [...]string{"pw", "ki", "pk"}[m.kind]
	if m.kind == mPK {
		var n []string
		for _, sp := range m.signers {
			n = append(n, sp.name)
		}
		s += "(" + strings.Join(n, ",") + ")"
	}
	if m.retry > 0 {
		s = fmt.Sprintf("retry%d[%s]", m.retry, s)
	}
	return s
}

const (
	cbNone        = iota
	cbFallback    // AuthCallback returns (nil, nil): selection from Auth
	cbPwIfAllowed // returns Password while AllowedMethods names it and it failed <3 times, else (nil, nil)
	cbAlwaysPw    // returns Password whatever the server says (the application's decision)
)

type clientSpec struct {
	name     string
	methods  []methodSpec
	callback int
	signers  []*signerSpec // all signers of all publickey methods
	hasRSA   bool
	core     bool // explored one level deeper in the thorough tier
	skeleton int  // signer-kind configurations: index of the method skeleton
}

func newClient(callback int, ms ...methodSpec) *clientSpec {
	cs := &clientSpec{methods: ms, callback: callback}
	var n []string
	for _, m := range ms {
		n = append(n, m.String())
		for _, sp := range m.signers {
			cs.signers = append(cs.signers, sp)
			if sp.key.format == ref.RSA {
				cs.hasRSA = true
			}
		}
	}
	cs.name = "[" + strings.Join(n, " ") + "]"
	switch callback {
	case cbFallback:
		cs.name += "+AuthCallback(nil)"
	case cbPwIfAllowed:
		cs.name += "+AuthCallback(password if allowed)"
	case cbAlwaysPw:
		cs.name += "+AuthCallback(always password)"
	}
	return cs
}

// requestBound is the documented ceiling on USERAUTH_REQUEST messages: the client
// "caps the total number of authentication attempts (failures and partial successes
// combined) at 64. If the cap is exceeded the handshake aborts", i.e. at most 65
// method attempts after "none"; one attempt sends at most: password 1, keyboard-
// interactive 1, publickey 2 per signer (query + signature) plus 2 for the ssh-rsa
// retry of an RSA certificate; a RetryableAuthMethod multiplies by maxTries.
func (cs *clientSpec) requestBound() int {
	per := 1
	for _, m := range cs.methods {
		p := 1
		if m.kind == mPK {
			p = 0
			for _, sp := range m.signers {
				p += 2
				if sp.format == ref.CertOf(ref.RSA) {
					p += 2
				}
			}
		}
		if m.retry > 0 {
			p *= m.retry
		}
		if p > per {
			per = p
		}
	}
	return 1 + 65*per
}

// ---------------------------------------------------------------------------
// Server answers
// ---------------------------------------------------------------------------

const (
	qService = iota
	qNone
	qPassword
	qPKQuery
	qPKSigned
	qKIInit
	qKIResponse
	qOther
)

var qName = [...]string{"the service request", "none", "password", "a publickey query", "a signed publickey request", "the keyboard-interactive request", "an INFO_RESPONSE", "an unknown method"}

const (
	rAccept = iota
	rFail
	rSuccess
	rPKOK
	rInfo
	rBanner
	rExtInfo
	rDisconnect
	rEOF
	rUnexpected
	rMalformed
)

// PK_OK answers: v = 4*algorithm + blob, the full product of
// {queried algorithm, another algorithm of the key's family, an algorithm of another
// key type, an unknown name} x {queried key blob, another key of the same type, a blob
// of another type, a truncated blob}. Only (queried or family algorithm, queried blob)
// acknowledges the key. Keys whose family has a single algorithm have no second row.
const (
	pkMatch = 0

	pkAlgoQueried = 0
	pkAlgoFamily  = 1
	pkAlgoForeign = 2
	pkAlgoUnknown = 3

	pkBlobQueried   = 0
	pkBlobOtherSame = 1
	pkBlobOtherType = 2
	pkBlobMalformed = 3
)

var pkAlgoName = [...]string{"queried algorithm", "other algorithm of the family", "algorithm of another key type", "unknown algorithm"}
var pkBlobName = [...]string{"queried key", "another key of the same type", "a key blob of another type", "truncated key blob"}

type reply struct {
	kind    int
	mask    int
	partial bool
	v       int
}

func (r reply) String() string {
	switch r.kind {
	case rAccept:
		return "SERVICE_ACCEPT"
	case rFail:
		return fmt.Sprintf("FAILURE%v partial=%v", maskList(r.mask), r.partial)
	case rSuccess:
		return "SUCCESS"
	case rPKOK:
		if r.v == pkMatch {
			return "PK_OK(matching)"
		}
		return "PK_OK(" + pkAlgoName[r.v/4] + ", " + pkBlobName[r.v%4] + ")"
	case rInfo:
		return fmt.Sprintf("INFO_REQUEST(%d prompts)", r.v)
	case rBanner:
		return "BANNER"
	case rExtInfo:
		return "EXT_INFO"
	case rDisconnect:
		return "DISCONNECT"
	case rEOF:
		return "EOF"
	case rUnexpected:
		return "unexpected message type 80"
	case rMalformed:
		return "truncated message"
	}
	return "?"
}

func maskList(mask int) []string {
	var l []string
	for _, m := range []string{ref.Password, ref.PublicKey, ref.KeyboardInteractive} {
		if mask&methodBit[m] != 0 {
			l = append(l, m)
		}
	}
	return l
}

// Personas: what the scripted server answers by default (menu entry 0).
const (
	pAccept  = iota // accepts the first real attempt
	pReject         // rejects everything, always listing all three methods
	pPartial        // answers every completed attempt with partial success, listing all three
)

var personaName = [...]string{"accepting", "rejecting", "partial-success-forever"}

func defaultReply(persona, q int) reply {
	all := reply{kind: rFail, mask: 7}
	switch q {
	case qService:
		return reply{kind: rAccept}
	case qNone, qOther:
		return all
	case qKIInit:
		return reply{kind: rInfo, v: 1}
	case qPKQuery:
		if persona == pReject {
			return all
		}
		return reply{kind: rPKOK, v: pkMatch}
	}
	switch persona {
	case pAccept:
		return reply{kind: rSuccess}
	case pReject:
		return all
	}
	return reply{kind: rFail, mask: 7, partial: true}
}

// menu lists the answers to a request of kind q; entry 0 is the persona's default.
func menu(persona, q int, bannerLeft, extLeft int, slim, family bool) []reply {
	def := defaultReply(persona, q)
	out := []reply{def}
	add := func(r reply) {
		if r != def {
			out = append(out, r)
		}
	}
	if q == qService {
		add(reply{kind: rDisconnect})
		add(reply{kind: rEOF})
		add(reply{kind: rUnexpected})
		add(reply{kind: rMalformed})
		return out
	}
	for _, partial := range []bool{false, true} {
		for mask := 7; mask >= 0; mask-- {
			if slim && mask != 7 && mask != 5 && mask != 2 && mask != 0 {
				continue // all, all but publickey, publickey only, none
			}
			add(reply{kind: rFail, mask: mask, partial: partial})
		}
	}
	if q != qPKQuery {
		add(reply{kind: rSuccess})
	}
	if q == qPKQuery {
		for a := pkAlgoQueried; a <= pkAlgoUnknown; a++ {
			if a == pkAlgoFamily && !family {
				continue
			}
			for b := pkBlobQueried; b <= pkBlobMalformed; b++ {
				add(reply{kind: rPKOK, v: 4*a + b})
			}
		}
	}
	if q == qKIInit || q == qKIResponse {
		for _, n := range []int{1, 0, 2} {
			add(reply{kind: rInfo, v: n})
		}
	}
	if bannerLeft > 0 {
		add(reply{kind: rBanner})
	}
	if extLeft > 0 {
		add(reply{kind: rExtInfo})
	}
	add(reply{kind: rDisconnect})
	add(reply{kind: rEOF})
	add(reply{kind: rUnexpected})
	add(reply{kind: rMalformed})
	return out
}

var menuCache [2][2][3][8][2][3][]reply

func init() {
	for p := 0; p < 3; p++ {
		for q := 0; q < 8; q++ {
			for b := 0; b < 2; b++ {
				for x := 0; x < 3; x++ {
					for f := 0; f < 2; f++ {
						menuCache[f][0][p][q][b][x] = menu(p, q, b, x, false, f == 1)
						menuCache[f][1][p][q][b][x] = menu(p, q, b, x, true, f == 1)
					}
				}
			}
		}
	}
}

func cachedMenu(persona, q, bannerLeft, extLeft int, slim, family bool) []reply {
	f, sl := 0, 0
	if family {
		f = 1
	}
	if slim {
		sl = 1
	}
	return menuCache[f][sl][persona][q][bannerLeft][extLeft]
}

// EXT_INFO variants delivered before SERVICE_ACCEPT (outer dimension).
type extVariant struct {
	name    string
	send    bool
	exts    []ref.Ext
	present bool // server-sig-algs present
	algs    []string
}

func sigAlgsVariant(name, value string) extVariant {
	return extVariant{name: name, send: true, exts: []ref.Ext{{Name: "server-sig-algs", Value: value}}, present: true, algs: strings.Split(value, ",")}
}

var extVariants = []extVariant{
	{name: "no EXT_INFO"},
	sigAlgsVariant("server-sig-algs=rsa-sha2-256,rsa-sha2-512", "rsa-sha2-256,rsa-sha2-512"),
	sigAlgsVariant("server-sig-algs=ssh-rsa", "ssh-rsa"),
	sigAlgsVariant("server-sig-algs=(empty)", ""),
	sigAlgsVariant("server-sig-algs=unknown names", "x25519-foo,bar@example.com"),
	sigAlgsVariant("server-sig-algs=ssh-ed25519,rsa-sha2-512", "ssh-ed25519,rsa-sha2-512"),
	sigAlgsVariant("server-sig-algs=ssh-rsa,rsa-sha2-512,rsa-sha2-256", "ssh-rsa,rsa-sha2-512,rsa-sha2-256"),
	{name: "EXT_INFO without server-sig-algs", send: true, exts: []ref.Ext{{Name: "no-flow-control", Value: "p"}, {Name: "delay-compression", Value: ""}}},
}

// ---------------------------------------------------------------------------
// One execution: scripted server + oracle
// ---------------------------------------------------------------------------

type event struct {
	c2s bool
	s   string
	r   *reply         // lazily rendered server answer
	m   *ref.ClientMsg // lazily rendered client request
	sp  *signerSpec
}

func (ev event) String() string {
	switch {
	case ev.r != nil:
		return ev.r.String() + ev.s
	case ev.m != nil && ev.m.Kind == ref.CInfoResponse:
		return fmt.Sprintf("INFO_RESPONSE %q", ev.m.Responses)
	case ev.m != nil:
		if ev.sp != nil {
			return fmt.Sprintf("REQUEST %s key=%s algo=%s", ev.s, ev.sp.name, ev.m.Algo)
		}
		return "REQUEST " + ev.s
	}
	return ev.s
}

type ackState struct {
	spec    *signerSpec
	algo    string // algorithm of the query that was acknowledged
	dubious bool   // PK_OK echoed another algorithm of the same key (leniency documented in the client)
}

type qitem struct {
	pkt    []byte
	effect func()
}

type viol struct {
	class  string
	detail string
}

type execution struct {
	cs      *clientSpec
	persona int
	ext     int
	ch      *vf.Chooser
	window  int  // choice points open to deviations
	slim    bool // reduced set of method lists in the FAILURE answers

	queue  []qitem
	pend   *ref.ClientMsg
	pendQ  int
	pendSp *signerSpec
	banner int
	extra  int

	started   bool
	accepted  bool
	haveList  bool
	lastMask  int
	lastExtra bool // latest list is from a partial success
	lastCtx   int
	// the same, ignoring FAILUREs that answer a publickey query (see knownQueryList)
	haveDone    bool
	doneMask    int
	doneExtra   bool
	doneCtx     int
	prevErr     bool // the previous request was answered by something the client treats as an error
	runMask     int  // list in force when the current run of requests of one method began
	haveRun     bool
	sameFinding bool
	everMask    int  // union of all lists received so far
	trigErr     bool // some reply so far was one the client treats as an error (it then reports no list)
	trigRetry   bool // a RetryableAuthMethod went into a second try (it reports the list of its last try only)
	trigQuery   bool // some FAILURE answering a publickey query carried a list different from the one before
	ack         *ackState
	nack        string // why the latest query was not acknowledged
	kiPrompts   int    // >=0: INFO_REQUEST outstanding with that many prompts
	success     bool
	dead        bool
	deadErr     error
	nReq        int
	ios         int
	points      int
	bound       int
	prevMethod  string
	prevPlain   bool // previous request was answered by a plain (non partial) FAILURE
	runLen      int
	refused     map[*signerSpec]bool
	queried     map[string]int
	pwCallbacks int
	kiCalls     int
	signCalls   int

	devs   []string
	events []event
	viols  []viol
	states []string
	trans  int
}

type runaway struct{}

func (e *execution) violate(class, detail string) {
	for _, v := range e.viols {
		if v.class == class {
			return
		}
	}
	e.viols = append(e.viols, viol{class, detail})
}

func (e *execution) log(c2s bool, s string) { e.events = append(e.events, event{c2s: c2s, s: s}) }
func (e *execution) logReply(r reply, extra string) {
	e.events = append(e.events, event{r: &r, s: extra})
}

func (e *execution) transcript() []string {
	var out []string
	for _, ev := range e.events {
		if ev.c2s {
			out = append(out, "C: "+ev.String())
		} else {
			out = append(out, "S: "+ev.String())
		}
	}
	return out
}

func (e *execution) io() {
	e.ios++
	if e.ios > 8*e.bound+200 {
		panic(runaway{})
	}
}

func (e *execution) kill(err error) {
	e.dead = true
	e.deadErr = err
	e.pend = nil
	e.queue = nil
}

// ---- reads ----------------------------------------------------------------

func (e *execution) NextPacket() ([]byte, error) {
	e.io()
	for {
		if e.success {
			e.violate("client keeps reading after SSH_MSG_USERAUTH_SUCCESS", "")
			return nil, io.EOF
		}
		if e.dead {
			return nil, e.deadErr
		}
		if len(e.queue) > 0 {
			it := e.queue[0]
			e.queue = e.queue[1:]
			if it.effect != nil {
				it.effect()
			}
			if it.pkt == nil {
				return nil, e.deadErr
			}
			return it.pkt, nil
		}
		if e.pend == nil {
			e.violate("client waits for a packet although none of its requests is outstanding (it would block forever)", "")
			e.kill(io.EOF)
			return nil, io.EOF
		}
		e.decide()
	}
}

func (e *execution) choose(n int) int {
	e.points++
	if e.points > e.window {
		return e.ch.Choose(1)
	}
	return e.ch.Choose(n)
}

func (e *execution) push(pkt []byte, effect func()) { e.queue = append(e.queue, qitem{pkt, effect}) }

// decide picks the answer to the pending request and queues its packets.
func (e *execution) decide() {
	q, m, sp := e.pendQ, e.pend, e.pendSp
	family := q == qPKQuery && sp != nil && otherAlgoSameKey(sp, m.Algo) != ""
	mn := cachedMenu(e.persona, q, e.banner, e.extra, e.slim, family)
	ci := e.choose(len(mn))
	r := mn[ci]
	if ci != 0 {
		e.devs = append(e.devs, r.String()+" to "+qName[q])
	}
	if r.kind == rPKOK && sp == nil {
		r = reply{kind: rFail, mask: 7}
	}
	done := func() { e.pend = nil }
	switch r.kind {
	case rAccept:
		v := extVariants[e.ext]
		if v.send {
			e.push(ref.ExtInfo(v.exts), func() { e.log(false, "EXT_INFO "+v.name) })
		}
		e.push(ref.ServiceAccept(ref.ServiceUserAuth), func() { e.log(false, "SERVICE_ACCEPT"); e.accepted = true; done() })
	case rFail:
		e.push(ref.Failure(maskList(r.mask), r.partial), func() {
			e.logReply(r, "")
			e.haveList, e.lastMask, e.lastExtra, e.lastCtx = true, r.mask, r.partial, q
			e.everMask |= r.mask
			// the list of a FAILURE that answers a query is not recorded by the client; its
			// view differs from the server's if this list is new, or if the publickey call
			// that now may end without reporting a list received one earlier (signed request)
			if q == qPKQuery && (!e.haveDone || r.mask != e.doneMask || (e.haveRun && e.runMask != e.doneMask)) {
				e.trigQuery = true
			}
			if q != qPKQuery {
				e.haveDone, e.doneMask, e.doneExtra, e.doneCtx = true, r.mask, r.partial, q
			}
			e.prevPlain = !r.partial
			e.prevErr = false
			if q == qPKQuery {
				e.refused[sp] = true
				e.nack = "the query was answered with FAILURE"
			}
			if r.partial {
				e.queried = map[string]int{}
			}
			done()
		})
	case rSuccess:
		e.push(ref.Success(), func() { e.log(false, "SUCCESS"); e.success = true; done() })
	case rPKOK:
		algo, blob := m.Algo, m.KeyBlob
		switch r.v / 4 {
		case pkAlgoFamily:
			algo = otherAlgoSameKey(sp, m.Algo)
		case pkAlgoForeign:
			algo = ref.ED25519
			if ref.PlainOf(sp.format) == ref.ED25519 {
				algo = ref.RSASHA256
			}
			if sp.cert {
				algo = ref.CertOf(algo)
			}
		case pkAlgoUnknown:
			algo = "c34-unknown@verif.example"
		}
		switch r.v % 4 {
		case pkBlobOtherSame:
			blob = sp.otherSame
		case pkBlobOtherType:
			blob = sp.otherType
		case pkBlobMalformed:
			blob = m.KeyBlob[:len(m.KeyBlob)-3]
		}
		e.push(ref.PKOK(algo, blob), func() {
			e.logReply(r, " algo="+algo)
			e.prevErr = false
			switch {
			case !bytes.Equal(blob, m.KeyBlob) && !ref.AlgoFitsKey(sp.format, algo):
				e.refused[sp] = true
				e.nack = "the PK_OK named another key and an algorithm of another key type"
			case !bytes.Equal(blob, m.KeyBlob) && algo != m.Algo:
				e.refused[sp] = true
				e.nack = "the PK_OK named another key (with another algorithm of the key's family)"
			case !bytes.Equal(blob, m.KeyBlob):
				e.refused[sp] = true
				e.nack = "the PK_OK named another key"
			case !ref.AlgoFitsKey(sp.format, algo):
				e.refused[sp] = true
				e.nack = "the PK_OK named an algorithm of another key type"
			default:
				e.ack = &ackState{spec: sp, algo: m.Algo, dubious: algo != m.Algo}
			}
			done()
		})
	case rInfo:
		var prompts []ref.Prompt
		for i := 0; i < r.v; i++ {
			prompts = append(prompts, ref.Prompt{Text: fmt.Sprintf("prompt %d: ", i), Echo: i%2 == 1})
		}
		e.push(ref.InfoRequest("c34", "answer", "", prompts), func() { e.logReply(r, ""); e.kiPrompts = r.v; e.prevErr = false; done() })
	case rBanner:
		e.banner--
		e.push(ref.Banner("banner text\n", "en"), func() { e.log(false, "BANNER") })
	case rExtInfo:
		e.extra--
		e.push(ref.ExtInfo([]ref.Ext{{Name: "server-sig-algs", Value: "ssh-ed25519"}}), func() {
			e.log(false, "EXT_INFO (during authentication)")
			e.prevErr = true
			if q == qPKQuery || e.extra == 0 { // not tolerated there / the second one
				e.trigErr = true
			}
		})
	case rDisconnect:
		e.push(ref.Disconnect(2, "scripted disconnect", ""), func() { e.log(false, "DISCONNECT"); e.kill(io.EOF) })
	case rEOF:
		e.log(false, "EOF")
		e.kill(io.EOF)
	case rUnexpected:
		e.push(ref.Cat([]byte{80}, ref.S("c34@verif"), ref.Bool(true)), func() { e.logReply(r, ""); e.prevPlain = false; e.prevErr, e.trigErr = true, true; done() })
	case rMalformed:
		pkt := []byte{ref.MsgAuthFailure, 0, 0}
		if q == qService {
			// EXT_INFO announcing more extensions than it carries
			pkt = ref.Cat([]byte{ref.MsgExtInfo}, ref.U32(3), ref.S("server-sig-algs"), ref.S("ssh-ed25519"))
		}
		e.push(pkt, func() {
			e.logReply(r, "")
			e.prevPlain = false
			e.prevErr = q != qPKQuery
			e.trigErr = e.trigErr || e.prevErr
			if q == qPKQuery {
				// a FAILURE message, if a truncated one: the key was not accepted
				e.refused[sp] = true
				e.nack = "the query was answered with a (truncated) FAILURE"
			}
			done()
		})
	}
}

var strangerBlob []byte

func otherAlgoSameKey(sp *signerSpec, algo string) string {
	for _, a := range ref.SigAlgos(ref.PlainOf(sp.format)) {
		if sp.cert {
			a = ref.CertOf(a)
		}
		if a != algo {
			return a
		}
	}
	return ""
}

// ---- writes ---------------------------------------------------------------

func (e *execution) ClientWrote(p []byte) error {
	e.io()
	e.trans++
	if e.success {
		e.violate("packet sent after SSH_MSG_USERAUTH_SUCCESS", fmt.Sprintf("type %d", p[0]))
		return nil
	}
	if e.dead {
		return e.deadErr
	}
	ack := e.ack
	e.ack = nil
	m, err := ref.ParseClient(p)
	if err != nil {
		e.violate("client packet is not well-formed per RFC 4252/4256", err.Error())
		e.kill(io.EOF)
		return io.EOF
	}
	switch m.Kind {
	case ref.CServiceRequest:
		e.log(true, "SERVICE_REQUEST "+m.Service)
		if e.started || m.Service != ref.ServiceUserAuth {
			e.violate("service request out of place or for the wrong service", m.Service)
		}
		e.started = true
		e.setPending(m, qService, nil)
	case ref.CInfoResponse:
		e.events = append(e.events, event{c2s: true, m: m})
		if e.kiPrompts < 0 {
			e.violate("INFO_RESPONSE sent without an outstanding INFO_REQUEST", "")
		} else if len(m.Responses) != e.kiPrompts {
			e.violate("INFO_RESPONSE carries a number of responses different from the number of prompts", fmt.Sprintf("%d vs %d", len(m.Responses), e.kiPrompts))
		} else {
			for i, a := range m.Responses {
				if a != fmt.Sprintf("answer %d", i) {
					e.violate("INFO_RESPONSE does not carry the callback's answers", fmt.Sprintf("%q", m.Responses))
				}
			}
		}
		e.kiPrompts = -1
		e.setPending(m, qKIResponse, nil)
	case ref.CAuthRequest:
		e.kiPrompts = -1
		e.request(m, ack)
	default:
		e.log(true, fmt.Sprintf("message type %d", m.Type))
		e.violate("unexpected client message type during authentication", fmt.Sprint(m.Type))
		e.kill(io.EOF)
		return io.EOF
	}
	e.noteState()
	if e.dead {
		return e.deadErr
	}
	return nil
}

// knownQueryList is the class of the one deviation the unchanged client shows: the
// name-list of a SSH_MSG_USERAUTH_FAILURE that answers a public key query (RFC 4252
// section 7) is thrown away.
const knownQueryList = "method list of a FAILURE that answers a publickey query is ignored: the client goes on (next key, or next method chosen from the previous list) although the server's latest list does not name that method"

// knownRetryUnlisted: RetryableAuthMethod repeats its method after a plain FAILURE
// whatever that FAILURE lists.
const knownRetryUnlisted = "RetryableAuthMethod tries its method again although the FAILURE that ended the previous try no longer lists it"

// knownErrStale: an AuthMethod call that ends with an error reports no list, and
// clientAuthenticate then falls back to the list it had before the call, although the
// server sent a newer list earlier within the same call (previous try of a
// RetryableAuthMethod, previous key of PublicKeys).
const knownErrStale = "method list received earlier within one AuthMethod call (earlier try of RetryableAuthMethod, earlier key of PublicKeys) is dropped when the call finally reports no list (its last step ended with an error or with refused key queries): the next method is chosen from the list that preceded the call"

var seenStates sync.Map

// noteState records the abstract state reached after a client packet.
func (e *execution) noteState() {
	px := 0
	if e.lastExtra {
		px = 1
	}
	key := e.persona | e.pendQ<<2 | e.lastMask<<6 | px<<9 | min(e.nReq, 8)<<10 | min(e.ch.Deviations(), 3)<<14 | e.cs.callback<<16
	if _, dup := seenStates.LoadOrStore(key, true); !dup {
		e.states = append(e.states, fmt.Sprintf("%s|callback%d|pending=%s|list=%v/partial=%v|requests=%d|deviations=%d", personaName[e.persona], e.cs.callback, qName[e.pendQ], maskList(e.lastMask), e.lastExtra, min(e.nReq, 8), min(e.ch.Deviations(), 3)))
	}
}

func (e *execution) setPending(m *ref.ClientMsg, q int, sp *signerSpec) {
	e.pend, e.pendQ, e.pendSp = m, q, sp
	e.banner, e.extra = 1, 2
	e.queue = nil
}

func (e *execution) retryOf(method string) int {
	for _, ms := range e.cs.methods {
		if methodName[ms.kind] == method {
			return ms.retry // first instance only is ever used
		}
	}
	return 0
}

func (e *execution) request(m *ref.ClientMsg, ack *ackState) {
	e.nReq++
	if !e.accepted {
		e.violate("authentication request sent before SERVICE_ACCEPT", m.Method)
	}
	if m.User != userName || m.Service != ref.ServiceConnection {
		e.violate("request names another user or service", m.User+"/"+m.Service)
	}
	first := e.nReq == 1
	q := qOther
	var sp *signerSpec
	desc := m.Method
	switch m.Method {
	case ref.None:
		q = qNone
	case ref.Password:
		q = qPassword
		if m.ChangeFlag || m.Password != password {
			e.violate("password request does not carry FALSE and the configured password", "")
		}
	case ref.KeyboardInteractive:
		q = qKIInit
	case ref.PublicKey:
		q = qPKQuery
		desc = "publickey query"
		if m.HasSig {
			q = qPKSigned
			desc = "publickey signature"
		}
		for _, s := range e.cs.signers {
			if bytes.Equal(s.blob, m.KeyBlob) {
				sp = s
			}
		}
	}
	e.events = append(e.events, event{c2s: true, m: m, sp: sp, s: desc})

	// the documented ceiling on the number of requests
	if e.nReq > e.bound {
		e.violate("number of authentication requests exceeds the documented bound (64 attempts)", fmt.Sprintf("%d requests, bound %d", e.nReq, e.bound))
		e.kill(errors.New("c34: horizon"))
		return
	}

	if m.Method == e.prevMethod && e.retryOf(m.Method) > 0 && e.prevPlain {
		e.trigRetry = true
	}
	// (1) after the initial none only methods of the server's latest list
	if first {
		if q != qNone {
			e.violate("first authentication request is not \"none\"", m.Method)
		}
	} else if q == qPKSigned && ack != nil && ack.spec == sp && ack.algo == m.Algo {
		// the server has just invited this very signature with PK_OK: rule (3) below
	} else if e.sameFinding && m.Method == e.prevMethod {
		// further requests of a RetryableAuthMethod run already reported
	} else if !(e.cs.callback == cbAlwaysPw && q == qPassword) {
		bit := methodBit[m.Method]
		listed := e.haveList && e.lastMask&bit != 0
		switch {
		case listed:
		case m.Method == e.prevMethod && e.retryOf(m.Method) > 0 && e.prevPlain && e.lastCtx != qPKQuery:
			e.sameFinding = true
			// the previous try of a RetryableAuthMethod ended with a FAILURE that does not
			// name the method any more, and the wrapper tries again
			e.violate(knownRetryUnlisted, fmt.Sprintf("%s sent; latest list %v", desc, maskList(e.lastMask)))
		case m.Method != e.prevMethod && e.prevErr && e.haveRun && e.runMask&bit != 0:
			e.violate(knownErrStale, fmt.Sprintf("%s sent; latest list %v, list before %s was tried %v", desc, maskList(e.lastMask), e.prevMethod, maskList(e.runMask)))
		case e.lastCtx == qPKQuery && e.haveDone && e.doneMask&bit != 0:
			// the only list that does not name the method is one carried by a FAILURE
			// that answered a publickey query
			e.violate(knownQueryList, fmt.Sprintf("%s sent; latest list %v, list before the query was answered %v", desc, maskList(e.lastMask), maskList(e.doneMask)))
		case (e.trigErr || e.trigRetry) && e.everMask&bit != 0:
			// an earlier AuthMethod call of this execution ended with an error, so the client
			// may have fallen back to any older list; an older list named the method
			e.violate(knownErrStale, fmt.Sprintf("%s sent; latest list %v, lists so far named %v", desc, maskList(e.lastMask), maskList(e.everMask)))
		case e.trigQuery && e.everMask&bit != 0:
			e.violate(knownQueryList, fmt.Sprintf("%s sent; latest list %v, lists so far named %v", desc, maskList(e.lastMask), maskList(e.everMask)))
		default:
			how := "failure"
			if e.doneExtra {
				how = "partial success"
			}
			ctx := "no FAILURE received yet"
			if e.haveDone {
				ctx = how + " answering " + qName[e.doneCtx]
			}
			note := ""
			if e.prevMethod == m.Method && e.retryOf(m.Method) > 0 && e.prevPlain && q != qPKSigned {
				note = " [RetryableAuthMethod retry]"
			}
			e.violate(fmt.Sprintf("method not named in the server's latest list: %s%s; list from a %s", desc, note, ctx),
				fmt.Sprintf("latest list %v", maskList(e.lastMask)))
		}
	}

	// (2) a method instance is not repeated beyond its documented number of tries
	if q == qPassword || q == qKIInit {
		if e.prevMethod == m.Method && e.prevPlain {
			e.runLen++
		} else {
			e.runLen = 1
		}
		limit := 1
		if n := e.retryOf(m.Method); n > 0 {
			limit = n
		}
		if e.cs.callback == cbNone || e.cs.callback == cbFallback {
			if e.runLen > limit {
				e.violate(fmt.Sprintf("%s retried after a plain FAILURE more often than configured", m.Method), fmt.Sprintf("%d consecutive tries, limit %d", e.runLen, limit))
			}
		}
	}

	// (3) publickey: configured key, reference algorithm, signature only after a matching PK_OK
	if q == qPKQuery || q == qPKSigned {
		if sp == nil {
			e.violate("publickey request for a key that is not configured", vf.Hex8(m.KeyBlob))
		} else {
			e.checkPK(m, sp, q, ack)
		}
	}
	if m.Method != e.prevMethod {
		e.haveRun, e.runMask = e.haveDone, e.doneMask
		e.sameFinding = false
	}
	e.prevPlain = false
	e.prevErr = false
	e.nack = ""
	e.prevMethod = m.Method
	e.setPending(m, q, sp)
}

var verifyMemo sync.Map

func (e *execution) checkPK(m *ref.ClientMsg, sp *signerSpec, q int, ack *ackState) {
	v := extVariants[e.ext]
	want, ok := ref.Pick(sp.format, sp.refAlgos, v.present, v.algs)
	compat, compatOK := ref.CompatRetry(sp.format, sp.refAlgos, want)
	where := fmt.Sprintf("signer=%s, %s", sp.kindName(), v.name)
	switch {
	case !ok:
		e.violate("key offered although signer and server have no usable signature algorithm: "+where, "sent "+m.Algo)
	case m.Algo == want:
	case compatOK && m.Algo == compat && e.refused[sp]:
		// documented ssh-rsa-cert retry after the sha2 certificate algorithm was refused
	default:
		e.violate(fmt.Sprintf("public key algorithm differs from the documented server-sig-algs preference: %s, sent %s, expected %s", where, m.Algo, want), "")
	}
	if q == qPKQuery {
		k := sp.name + "|" + m.Algo
		e.queried[k]++
		limit := 1
		if n := e.retryOf(ref.PublicKey); n > 0 {
			limit = n
		}
		if e.queried[k] > limit {
			e.violate("the same key and algorithm is offered again without any progress", fmt.Sprintf("%s x%d", k, e.queried[k]))
		}
		return
	}
	// signed request
	switch {
	case ack == nil:
		why := e.nack
		if why == "" || e.pendQ != qPKQuery {
			why = "no query preceded it"
		}
		e.violate("signature sent for a key the server did not accept: "+why, sp.name)
	case ack.spec != sp || ack.algo != m.Algo:
		e.violate("signature sent for a key/algorithm other than the one acknowledged by PK_OK", fmt.Sprintf("acknowledged %s/%s, signed %s/%s", ack.spec.name, ack.algo, sp.name, m.Algo))
	}
	if m.SigFormat != ref.PlainOf(m.Algo) {
		e.violate("signature format does not match the algorithm name of the request", fmt.Sprintf("algo %s, signature format %s", m.Algo, m.SigFormat))
	}
	data := ref.SignedData(sessionID, userName, ref.ServiceConnection, m.Algo, m.KeyBlob)
	mk := sp.key.name + "|" + m.SigFormat + "|" + string(m.SigBlob) + "|" + string(data)
	res, hit := verifyMemo.Load(mk)
	if !hit {
		res = ref.Verify(sp.key.stdPub, m.SigFormat, m.SigBlob, data) == nil
		verifyMemo.Store(mk, res)
	}
	if !res.(bool) {
		e.violate("signature does not verify under the key over the RFC 4252 section 7 data with the session identifier", fmt.Sprintf("key %s algo %s", sp.name, m.Algo))
	}
}

// onSign: the client may invoke a signer only for the key and algorithm a matching
// PK_OK has just acknowledged, over exactly the RFC 4252 section 7 data.
func (e *execution) onSign(sp *signerSpec, algo string, data []byte) {
	e.signCalls++
	a := e.ack
	if a == nil || a.spec != sp {
		why := e.nack
		if why == "" {
			why = "no query preceded"
		}
		e.violate("signer invoked for a key the server did not accept: "+why, sp.name)
		return
	}
	wantAlgo := ref.PlainOf(a.algo)
	if algo == "" {
		algo = ref.PlainOf(sp.format)
	}
	if algo != wantAlgo {
		e.violate("signer invoked with an algorithm other than the acknowledged one", fmt.Sprintf("%s: %s vs %s", sp.name, algo, wantAlgo))
	}
	if !bytes.Equal(data, ref.SignedData(sessionID, userName, ref.ServiceConnection, a.algo, sp.blob)) {
		e.violate("signer asked to sign something other than the RFC 4252 section 7 data", sp.name)
	}
}

// ---- the client -------------------------------------------------------------

func (e *execution) config() *ssh.ClientConfig {
	cfg := &ssh.ClientConfig{User: userName}
	cfg.Rand = zeroReader{}
	mk := func(ms methodSpec) ssh.AuthMethod {
		var a ssh.AuthMethod
		switch ms.kind {
		case mPassword:
			a = ssh.PasswordCallback(func() (string, error) { e.pwCallbacks++; return password, nil })
		case mKI:
			a = ssh.KeyboardInteractive(func(name, instruction string, questions []string, echos []bool) ([]string, error) {
				e.kiCalls++
				var out []string
				for i := range questions {
					out = append(out, fmt.Sprintf("answer %d", i))
				}
				return out, nil
			})
		case mPK:
			var ss []ssh.Signer
			for _, sp := range ms.signers {
				ss = append(ss, sp.build(e))
			}
			a = ssh.PublicKeys(ss...)
		}
		if ms.retry > 0 {
			a = ssh.RetryableAuthMethod(a, ms.retry)
		}
		return a
	}
	for _, ms := range e.cs.methods {
		cfg.Auth = append(cfg.Auth, mk(ms))
	}
	pw := mk(methodSpec{kind: mPassword})
	switch e.cs.callback {
	case cbFallback:
		cfg.AuthCallback = func(*ssh.ClientAuthContext) (ssh.AuthMethod, error) { return nil, nil }
	case cbPwIfAllowed:
		cfg.AuthCallback = func(ctx *ssh.ClientAuthContext) (ssh.AuthMethod, error) {
			failed := 0
			for _, t := range ctx.TriedMethods {
				if t == ref.Password {
					failed++
				}
			}
			for _, m := range ctx.AllowedMethods {
				if m == ref.Password && failed < 3 {
					return pw, nil
				}
			}
			return nil, nil
		}
	case cbAlwaysPw:
		cfg.AuthCallback = func(*ssh.ClientAuthContext) (ssh.AuthMethod, error) { return pw, nil }
	}
	return cfg
}

func errClass(err error) string {
	if err == nil {
		return "nil"
	}
	s := err.Error()
	for _, k := range []string{"no supported methods remain", "too many authentication attempts", "disconnect", "EOF", "unexpected message type", "parse error", "no common public key signature algorithm", "extra data", "prompt format"} {
		if strings.Contains(s, k) {
			return k
		}
	}
	if len(s) > 50 {
		s = s[:50]
	}
	return s
}

// run performs one execution and returns the client's result.
func (e *execution) run() (err error, panicked bool, pval any, stack string) {
	e.kiPrompts = -1
	e.refused = map[*signerSpec]bool{}
	e.queried = map[string]int{}
	e.bound = e.cs.requestBound()
	cfg := e.config()
	panicked, pval, stack = vf.Protect(func() {
		err = ssh.VerifC34ClientAuthenticate(cfg, sessionID, e)
	})
	return
}
