// C34: SSH client authentication follows the server's method list and signs only
// accepted keys.
//
// Part 1 (environment-answer mode): the real (*connection).clientAuthenticate runs
// over a scripted transport (hook ssh/verif_c34.go). Every packet the client writes is
// decoded by the reference codec (ref/sshclientauth) and checked against trace
// invariants and the reference model of the algorithm choice; every packet the client
// reads is chosen by the harness from a finite menu whose entry 0 is the default
// answer of the server persona. All executions with <=k non-default answers are
// enumerated for every (client configuration, persona, EXT_INFO variant).
//
// Part 2 (bridging): real NewClientConn against real NewServerConn over net.Pipe
// for every compatible combination of client method set and server configuration.
package main

import (
	"bytes"
	"fmt"
	"sort"
	"strings"
	"sync"

	ref "verif/ref/sshclientauth"
	"verif/vf"
)

func main() { vf.Main("C34", vf.ModelChecking, run) }

type unit struct {
	cs      *clientSpec
	persona int
	ext     int
	bound   int
	window  int
	slim    bool
}

func (u unit) name() string {
	return fmt.Sprintf("%s persona=%s %s", u.cs.name, personaName[u.persona], extVariants[u.ext].name)
}

type world struct {
	sp map[string]*signerSpec
}

func buildSigners(c *vf.Ctx) map[string]*signerSpec {
	ed1, ed2, ed3, edCA := edKey(c, "ed#1", 1), edKey(c, "ed#2", 2), edKey(c, "ed#3", 3), edKey(c, "ed-ca", 4)
	r1, r2 := rsaKey("rsa#1", "rsa"), rsaKey("rsa#2", "ca")
	all := ref.SigAlgos(ref.RSA)
	list := []*signerSpec{
		{name: "ed1", key: ed1, kind: ref.AlgoSigner},
		{name: "ed2", key: ed2, kind: ref.AlgoSigner},
		{name: "edPlain", key: ed2, kind: ref.PlainSigner},
		{name: "edNative", key: ed3, native: true},
		{name: "edCert", key: ed1, kind: ref.AlgoSigner, cert: true},
		{name: "rsaA", key: r1, kind: ref.AlgoSigner},
		{name: "rsaM(all)", key: r1, kind: ref.MultiSigner, advertised: all},
		{name: "rsaM(512,256)", key: r1, kind: ref.MultiSigner, advertised: []string{ref.RSASHA512, ref.RSASHA256}},
		{name: "rsaM(512)", key: r1, kind: ref.MultiSigner, advertised: []string{ref.RSASHA512}},
		{name: "rsaM(ssh-rsa)", key: r1, kind: ref.MultiSigner, advertised: []string{ref.RSA}},
		{name: "rsaM(ssh-rsa,512)", key: r1, kind: ref.MultiSigner, advertised: []string{ref.RSA, ref.RSASHA512}},
		{name: "rsaCert", key: r1, kind: ref.AlgoSigner, cert: true},
		{name: "rsaCertM(512)", key: r1, kind: ref.MultiSigner, advertised: []string{ref.RSASHA512}, cert: true},
		{name: "rsaCertM(512,ssh-rsa)", key: r1, kind: ref.MultiSigner, advertised: []string{ref.RSASHA512, ref.RSA}, cert: true},
		{name: "rsaCertPlain", key: r1, kind: ref.PlainSigner, cert: true},
		{name: "rsa2Plain", key: r2, kind: ref.PlainSigner},
		{name: "rsa2A", key: r2, kind: ref.AlgoSigner},
	}
	m := map[string]*signerSpec{}
	for i, sp := range list {
		m[sp.name] = sp.finish(edCA.native, uint64(i+1))
	}
	strangerBlob = edKey(c, "stranger", 9).blob
	otherCert := map[string][]byte{
		ref.RSA:     makeCert(r2, edCA.native, 900).Marshal(),
		ref.ED25519: makeCert(ed3, edCA.native, 901).Marshal(),
	}
	for _, sp := range list {
		switch {
		case sp.cert:
			sp.otherSame, sp.otherType = otherCert[sp.key.format], sp.key.blob
		case sp.key.format == ref.RSA:
			sp.otherSame, sp.otherType = r2.blob, strangerBlob
			if sp.key == r2 {
				sp.otherSame = r1.blob
			}
		default:
			sp.otherSame, sp.otherType = strangerBlob, r2.blob
		}
		if bytes.Equal(sp.otherSame, sp.blob) || bytes.Equal(sp.otherType, sp.blob) {
			panic("harness: substitute key blob equals the key of " + sp.name)
		}
	}
	return m
}

func pw() methodSpec { return methodSpec{kind: mPassword} }
func ki() methodSpec { return methodSpec{kind: mKI} }
func pk(s ...*signerSpec) methodSpec {
	return methodSpec{kind: mPK, signers: s}
}
func retry(m methodSpec, n int) methodSpec { m.retry = n; return m }

// orderedSubsets returns every non-empty ordered subset of items.
func orderedSubsets(items []methodSpec) [][]methodSpec {
	var out [][]methodSpec
	var rec func(cur []methodSpec, used int)
	rec = func(cur []methodSpec, used int) {
		if len(cur) > 0 {
			out = append(out, append([]methodSpec(nil), cur...))
		}
		for i := range items {
			if used&(1<<i) == 0 {
				rec(append(cur, items[i]), used|1<<i)
			}
		}
	}
	rec(nil, 0)
	return out
}

func clients(c *vf.Ctx, sp map[string]*signerSpec) (full, narrow []*clientSpec) {
	// every ordered subset of {Password, KeyboardInteractive, PublicKeys(k1), PublicKeys(k1,k2)}
	k1, k2 := sp["ed1"], sp["ed2"]
	for _, ms := range orderedSubsets([]methodSpec{pw(), ki(), pk(k1), pk(k1, k2)}) {
		cs := newClient(cbNone, ms...)
		cs.core = true
		cs.skeleton = -1
		for _, m := range ms {
			if m.kind == mPK && len(m.signers) == 1 {
				cs.core = false
			}
		}
		full = append(full, cs)
	}
	nsub := len(full)
	// RetryableAuthMethod and AuthCallback
	full = append(full,
		newClient(cbNone, retry(pw(), 2)),
		newClient(cbNone, retry(pw(), 3), pk(k1, k2)),
		newClient(cbNone, retry(ki(), 2), pw()),
		newClient(cbNone, pk(k1), retry(ki(), 2)),
		newClient(cbNone, retry(pk(k1, k2), 2), pw()),
		newClient(cbFallback, pw(), pk(k1, k2), ki()),
		newClient(cbFallback, retry(pw(), 2), ki()),
		newClient(cbPwIfAllowed, pk(k1, k2), ki()),
		newClient(cbAlwaysPw, ki()),
	)
	for _, cs := range full[nsub:] {
		cs.core = true
		cs.skeleton = -1
	}
	// key kinds: the same method skeletons with every pair of signer kinds
	pairs := [][2]string{
		{"edCert", "edNative"}, {"ed1", "edPlain"},
		{"rsaA", "ed2"}, {"ed1", "rsa2A"}, {"rsaM(all)", "rsa2Plain"}, {"rsaM(512,256)", "rsa2Plain"},
		{"rsaM(512)", "rsa2A"}, {"rsaM(ssh-rsa)", "rsaCert"}, {"rsaM(ssh-rsa,512)", "ed2"}, {"rsaCert", "ed2"},
		{"rsaCertM(512)", "rsa2Plain"}, {"rsaCertM(512,ssh-rsa)", "rsaCert"}, {"rsaCertPlain", "rsa2A"}, {"rsa2Plain", "rsaCert"},
	}
	for _, p := range pairs {
		a, b := sp[p[0]], sp[p[1]]
		sk := []*clientSpec{
			newClient(cbNone, pk(a)),
			newClient(cbNone, pk(a, b)),
			newClient(cbNone, pw(), pk(a, b)),
			newClient(cbNone, pk(b, a), ki()),
			newClient(cbNone, ki(), pk(a), pw()),
			newClient(cbNone, retry(pk(a, b), 2), pw()),
			newClient(cbFallback, pk(b, a), pw()),
		}
		for i, cs := range sk {
			cs.skeleton = i
		}
		narrow = append(narrow, sk...)
	}
	return
}

func run(c *vf.Ctx) {
	sessionID = c.Bytes("c34-session-id", 0, 32)
	userName = fmt.Sprintf("user%x", c.Bytes("c34-user", 0, 3))
	password = fmt.Sprintf("pw-%x", c.Bytes("c34-password", 0, 6))
	sp := buildSigners(c)

	k := 2
	if c.Thorough {
		k = 3
	}
	tierNote := "quick tier: signer-kind configurations use skeletons 2-4, 6 EXT_INFO variants and 4 of the 8 method lists {all, all but publickey, publickey only, empty} in FAILURE answers (the 73 method-structure configurations use all 8); executions that run to the 64-attempt cap (partial-success-forever persona, looping AuthCallback) take <=1 deviation within their first 6 choice points"
	if c.Thorough {
		tierNote = "thorough tier: all skeletons, EXT_INFO variants and method lists at <=2 deviations; <=3 deviations for the 24 core configurations (ordered subsets of {Password, KeyboardInteractive, PublicKeys(k1,k2)}, RetryableAuthMethod/AuthCallback variants; accepting and rejecting persona, no EXT_INFO) and for PublicKeys(a,b) of every signer pair (accepting persona, server-sig-algs=rsa-sha2-256,rsa-sha2-512); cap-reaching executions <=2 (signer-kind configurations <=1) deviations within their first 8 choice points"
	}
	c.Rule("part 1: for every client configuration (all 64 ordered subsets of {Password, KeyboardInteractive, PublicKeys(k1), PublicKeys(k1,k2)}; 9 RetryableAuthMethod and AuthCallback variants; 14 pairs of signer kinds {ed25519, RSA AlgorithmSigner, RSA MultiAlgorithmSigner with 5 algorithm lists, RSA/ed25519 certificates over each, plain Signer, the package's own signer} in 7 method skeletons) x server persona {accepting, rejecting, partial-success-forever} x EXT_INFO variant (8 for RSA configurations, 2 otherwise): ALL executions of the real clientAuthenticate in which the scripted server deviates from the persona's default answer at <=2 points (menu per request: FAILURE with each of the 8 method lists x partial success yes/no, SUCCESS, PK_OK with every combination of {queried algorithm, other algorithm of the key's family, algorithm of another key type, unknown name} x {queried key blob, another key of the same type, blob of another type, truncated blob}, INFO_REQUEST with 0/1/2 prompts, banner, EXT_INFO, DISCONNECT, EOF, unexpected type, truncated message); " + tierNote + "; non-trivial = distinct (persona, EXT_INFO variant, multiset of (deviating answer, request kind it answers)) with >=1 deviation; states = distinct abstract (persona, callback kind, pending request kind, latest list, requests so far, deviations) tuples; oracle = trace invariants + reference model ref/sshclientauth (RFC 4252/4256/8308/8332 codec, algorithm choice, signed data, standard library signature verification). part 2: real NewClientConn x real NewServerConn over a buffered in-memory connection for every client method set x server configuration (single stage and partial-success chains; every key type, signer kind and certificate x server algorithm lists); compatible pairs must authenticate")
	c.Assume("the scripted transport stands for handshakeTransport: packets are delivered in order, DISCONNECT is turned into an error by the transport layer; BannerCallback is exercised in part 2 only")
	c.Assume("crypto/rsa, crypto/ed25519, crypto/sha* of the standard library verify signatures correctly")
	c.Assume("default RSA algorithm preference of a signer that states none is rsa-sha2-256, rsa-sha2-512, ssh-rsa as documented by the package (signers that state one: their order)")

	full, narrow := clients(c, sp)
	var units []unit
	exts := func(cs *clientSpec, all bool) []int {
		switch {
		case cs.hasRSA && all:
			return []int{0, 1, 2, 3, 4, 5, 6, 7}
		case cs.hasRSA:
			return []int{0, 1, 2, 4, 5, 6}
		case len(cs.signers) > 0:
			return []int{0, 1}
		}
		return []int{0, 7}
	}
	// executions that run up to the documented cap of 64 attempts are long: there,
	// deviations are explored at the first points only and one level less deep
	long := func(cs *clientSpec, persona int) bool {
		return persona == pPartial || cs.callback == cbAlwaysPw || (cs.callback == cbPwIfAllowed && persona != pAccept)
	}
	add := func(cs *clientSpec, persona, x, bound int) {
		u := unit{cs: cs, persona: persona, ext: x, bound: bound, window: 1 << 30}
		if long(cs, persona) {
			u.window, u.bound = 6, min(bound, 2)-1
			if c.Thorough {
				u.window, u.bound = 8, 1
				if cs.skeleton < 0 {
					u.bound = 2
				}
			}
		}
		u.slim = cs.skeleton >= 0 && !c.Thorough
		units = append(units, u)
	}
	for _, cs := range full {
		for _, persona := range []int{pAccept, pReject, pPartial} {
			for xi, x := range exts(cs, c.Thorough) {
				b := 2
				if c.Thorough && cs.core && xi == 0 && persona != pPartial {
					b = 3
				}
				if persona == pPartial && xi != 0 && !c.Thorough {
					continue
				}
				add(cs, persona, x, b)
			}
		}
	}
	for _, cs := range narrow {
		if !c.Thorough && (cs.skeleton == 0 || cs.skeleton > 3) {
			continue
		}
		for _, persona := range []int{pAccept, pReject, pPartial} {
			for xi, x := range exts(cs, c.Thorough) {
				b := 2
				if c.Thorough && cs.skeleton == 1 && xi == 1 && persona == pAccept {
					b = 3
				}
				if persona == pPartial && !c.Thorough && (cs.skeleton != 1 || xi != 1) {
					continue
				}
				add(cs, persona, x, b)
			}
		}
	}
	if r := c.Replay; r != nil {
		// replay: re-run the exploration unit named in the artefact
		want := ""
		if d, ok := r["detail"].(map[string]any); ok {
			want, _ = d["unit"].(string)
		}
		var sel []unit
		for _, u := range units {
			if u.name() == want {
				sel = append(sel, u)
			}
		}
		if len(sel) > 0 {
			units = sel
		}
	}
	// long units first
	sort.SliceStable(units, func(i, j int) bool { return units[i].window < units[j].window })

	var mu sync.Mutex
	maxReq := 0
	capRuns := 0
	outcomeCounts := map[string]int{}
	c.ParallelFor(len(units), func(i int) {
		u := units[i]
		outcomes := map[string]int{}
		nontriv := map[string]bool{}
		uMax, uCap := 0, 0
		vf.ExploreChoices(c, u.bound, false, func(ch *vf.Chooser) {
			e := &execution{cs: u.cs, persona: u.persona, ext: u.ext, ch: ch, window: u.window, slim: u.slim}
			err, panicked, pval, stack := e.run()
			c.Transition(e.trans)
			for _, s := range e.states {
				c.State(s)
			}
			detail := func(extra string) map[string]any {
				t := e.transcript()
				if len(t) > 60 {
					t = append(append(t[:40:40], fmt.Sprintf("... %d lines ...", len(t)-50)), t[len(t)-10:]...)
				}
				return map[string]any{"unit": u.name(), "choices": fmt.Sprint(ch.C[:min(len(ch.C), 24)]), "transcript": t, "client_error": fmt.Sprint(err), "info": extra}
			}
			if panicked {
				if _, ok := pval.(runaway); ok {
					c.Violation("client does not terminate: it keeps calling the transport after the transport failed for good", detail(""))
				} else {
					c.Violation("panic in clientAuthenticate", detail(fmt.Sprint(pval)+"\n"+stack))
				}
				return
			}
			if (err == nil) != e.success {
				if e.success {
					c.Violation("client reports an error although SSH_MSG_USERAUTH_SUCCESS was the final reply", detail(""))
				} else {
					c.Violation("client reports success without SSH_MSG_USERAUTH_SUCCESS", detail(""))
				}
			}
			for _, v := range e.viols {
				c.Violation(v.class, detail(v.detail))
			}
			if len(e.devs) > 0 {
				d := append([]string(nil), e.devs...)
				sort.Strings(d)
				nontriv[fmt.Sprintf("%s|%d|%s", personaName[u.persona], u.ext, strings.Join(d, " & "))] = true
			}
			outcomes[errClass(err)]++
			if e.nReq >= 65 {
				uCap++
			}
			if e.nReq > uMax {
				uMax = e.nReq
			}
			if len(e.devs) == u.bound && len(e.events) > 8 && len(e.events) < 30 && c.WantSample() {
				c.Sample(map[string]any{"unit": u.name(), "choices": fmt.Sprint(ch.C), "transcript": e.transcript(), "client_error": fmt.Sprint(err)})
			}
		})
		for k := range nontriv {
			c.Nontrivial(k)
		}
		mu.Lock()
		for k, n := range outcomes {
			c.Outcome(k)
			outcomeCounts[k] += n
		}
		capRuns += uCap
		if uMax > maxReq {
			maxReq = uMax
		}
		mu.Unlock()
	})
	c.Set("script_client_results", outcomeCounts)
	c.Set("script_units", len(units))
	c.Set("script_client_configurations", len(full)+len(narrow))
	c.Set("script_deviation_bound", k)
	c.Set("script_max_requests_in_one_execution", maxReq)
	c.Set("script_executions_reaching_the_attempt_cap", capRuns)
	if c.Replay != nil {
		return
	}
	bridge(c, sp)
}

func joinNames(cs []*clientSpec) string {
	var n []string
	for _, x := range cs {
		n = append(n, x.name)
	}
	return strings.Join(n, "; ")
}
