package main

import (
	"io"
	"net"
	"sync"
	"time"
)

// memPipe is an in-memory full-duplex connection with unbounded buffering in each
// direction (net.Pipe is unbuffered: both SSH ends write their version line before
// reading, which deadlocks on it).
type halfPipe struct {
	mu     sync.Mutex
	cond   *sync.Cond
	buf    []byte
	closed bool
}

func newHalf() *halfPipe { h := &halfPipe{}; h.cond = sync.NewCond(&h.mu); return h }

func (h *halfPipe) write(p []byte) (int, error) {
	h.mu.Lock()
	defer h.mu.Unlock()
	if h.closed {
		return 0, io.ErrClosedPipe
	}
	h.buf = append(h.buf, p...)
	h.cond.Broadcast()
	return len(p), nil
}

func (h *halfPipe) read(p []byte) (int, error) {
	h.mu.Lock()
	defer h.mu.Unlock()
	for len(h.buf) == 0 {
		if h.closed {
			return 0, io.EOF
		}
		h.cond.Wait()
	}
	n := copy(p, h.buf)
	h.buf = h.buf[n:]
	return n, nil
}

func (h *halfPipe) close() {
	h.mu.Lock()
	h.closed = true
	h.cond.Broadcast()
	h.mu.Unlock()
}

type memConn struct {
	in, out *halfPipe
	local   net.Addr
	remote  net.Addr
}

func (c *memConn) Read(p []byte) (int, error)       { return c.in.read(p) }
func (c *memConn) Write(p []byte) (int, error)      { return c.out.write(p) }
func (c *memConn) Close() error                     { c.in.close(); c.out.close(); return nil }
func (c *memConn) LocalAddr() net.Addr              { return c.local }
func (c *memConn) RemoteAddr() net.Addr             { return c.remote }
func (c *memConn) SetDeadline(time.Time) error      { return nil }
func (c *memConn) SetReadDeadline(time.Time) error  { return nil }
func (c *memConn) SetWriteDeadline(time.Time) error { return nil }

func memPipe() (*memConn, *memConn) {
	a, b := newHalf(), newHalf()
	ca := &net.TCPAddr{IP: net.IPv4(192, 0, 2, 1), Port: 40000}
	sa := &net.TCPAddr{IP: net.IPv4(192, 0, 2, 2), Port: 22}
	return &memConn{in: a, out: b, local: ca, remote: sa}, &memConn{in: b, out: a, local: sa, remote: ca}
}
