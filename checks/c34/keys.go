package main

import (
	"bytes"
	"crypto"
	"crypto/ed25519"
	"crypto/rsa"
	"fmt"
	"io"
	"math/big"
	"sync"

	"golang.org/x/crypto/ssh"
	"golang.org/x/crypto/ssh/testdata"
	ref "verif/ref/sshclientauth"
	"verif/vf"
)

// keyMat is one fixed test key: the standard library key (used by the oracle to
// verify) and the x/crypto signer built from it (used by the client under test).
type keyMat struct {
	name   string
	stdPub crypto.PublicKey
	native ssh.Signer // ssh.NewSignerFromKey: the package's own signer type
	format string     // plain key format name
	blob   []byte     // public key blob, built here from RFC 4253 6.6 / RFC 8709 4
}

func mpint(n *big.Int) []byte {
	b := n.Bytes()
	if len(b) > 0 && b[0]&0x80 != 0 {
		b = append([]byte{0}, b...)
	}
	return ref.Str(b)
}

func newKey(name string, priv crypto.Signer) *keyMat {
	s, err := ssh.NewSignerFromKey(priv)
	if err != nil {
		panic(err)
	}
	k := &keyMat{name: name, stdPub: priv.Public(), native: s}
	switch p := priv.Public().(type) {
	case *rsa.PublicKey:
		k.format = ref.RSA
		k.blob = ref.Cat(ref.S(ref.RSA), mpint(big.NewInt(int64(p.E))), mpint(p.N))
	case ed25519.PublicKey:
		k.format = ref.ED25519
		k.blob = ref.Cat(ref.S(ref.ED25519), ref.Str(p))
	default:
		panic("unsupported test key")
	}
	if !bytes.Equal(k.blob, s.PublicKey().Marshal()) {
		panic("harness: public key blob of " + name + " differs from the RFC layout")
	}
	return k
}

func edKey(c *vf.Ctx, name string, i int) *keyMat {
	return newKey(name, ed25519.NewKeyFromSeed(c.Bytes("c34-ed25519-seed", i, 32)))
}

func rsaKey(name, pemName string) *keyMat {
	raw, err := ssh.ParseRawPrivateKey(testdata.PEMBytes[pemName])
	if err != nil {
		panic(err)
	}
	priv, ok := raw.(*rsa.PrivateKey)
	if !ok {
		panic("testdata key " + pemName + " is not RSA")
	}
	return newKey(name, priv)
}

// signerSpec describes one client signer: which key, what the signer lets the
// client know about its algorithms, and whether it presents a certificate.
type signerSpec struct {
	name       string
	key        *keyMat
	kind       ref.SignerKind
	advertised []string // MultiSigner: NewSignerWithAlgorithms list
	cert       bool
	native     bool // use the package's own signer object (no call log)

	format   string   // key format name on the wire
	blob     []byte   // key blob on the wire
	refAlgos []string // reference: algorithms the client may assume
	certObj  *ssh.Certificate

	otherSame []byte // blob of another key of the same format
	otherType []byte // blob of another format (certificates: the bare key of the certificate)
}

var sessionID []byte
var userName, password string

var sigMemo sync.Map // key name|algo|data -> *ssh.Signature

// signHook is told about every invocation of a signer of the running execution.
type signHook interface {
	onSign(spec *signerSpec, algo string, data []byte)
}

// algSigner implements ssh.AlgorithmSigner (and nothing more) over a test key.
type algSigner struct {
	spec *signerSpec
	hook signHook
}

func (s *algSigner) PublicKey() ssh.PublicKey { return s.spec.key.native.PublicKey() }

func (s *algSigner) Sign(rand io.Reader, data []byte) (*ssh.Signature, error) {
	return s.sign(rand, data, "")
}

func (s *algSigner) SignWithAlgorithm(rand io.Reader, data []byte, algo string) (*ssh.Signature, error) {
	return s.sign(rand, data, algo)
}

func (s *algSigner) sign(rand io.Reader, data []byte, algo string) (*ssh.Signature, error) {
	if s.hook != nil {
		s.hook.onSign(s.spec, algo, data)
	}
	mk := s.spec.key.name + "|" + algo + "|" + string(data)
	if v, ok := sigMemo.Load(mk); ok {
		sig := *v.(*ssh.Signature)
		return &sig, nil
	}
	var sig *ssh.Signature
	var err error
	if algo == "" {
		sig, err = s.spec.key.native.Sign(rand, data)
	} else {
		sig, err = s.spec.key.native.(ssh.AlgorithmSigner).SignWithAlgorithm(rand, data, algo)
	}
	if err == nil {
		cp := *sig
		sigMemo.Store(mk, &cp)
	}
	return sig, err
}

// plainSigner implements ssh.Signer only.
type plainSigner struct{ a *algSigner }

func (s plainSigner) PublicKey() ssh.PublicKey { return s.a.PublicKey() }
func (s plainSigner) Sign(rand io.Reader, data []byte) (*ssh.Signature, error) {
	return s.a.sign(rand, data, "")
}

// build returns a fresh ssh.Signer for one execution.
func (sp *signerSpec) build(hook signHook) ssh.Signer {
	if sp.native {
		return sp.key.native
	}
	base := &algSigner{spec: sp, hook: hook}
	var s ssh.Signer = base
	switch sp.kind {
	case ref.PlainSigner:
		s = plainSigner{base}
	case ref.MultiSigner:
		m, err := ssh.NewSignerWithAlgorithms(base, sp.advertised)
		if err != nil {
			panic(fmt.Sprintf("harness: NewSignerWithAlgorithms(%v): %v", sp.advertised, err))
		}
		s = m
	}
	if sp.cert {
		cs, err := ssh.NewCertSigner(sp.certObj, s)
		if err != nil {
			panic("harness: NewCertSigner: " + err.Error())
		}
		s = cs
	}
	return s
}

func makeCert(key *keyMat, ca ssh.Signer, serial uint64) *ssh.Certificate {
	cert := &ssh.Certificate{
		Key:             key.native.PublicKey(),
		Serial:          serial,
		CertType:        ssh.UserCert,
		KeyId:           "c34-" + key.name,
		ValidPrincipals: []string{userName},
		ValidAfter:      0,
		ValidBefore:     ssh.CertTimeInfinity,
	}
	if err := cert.SignCert(vf.NewRand("c34-cert"), ca); err != nil {
		panic(err)
	}
	return cert
}

func (sp *signerSpec) finish(ca ssh.Signer, serial uint64) *signerSpec {
	sp.format = sp.key.format
	sp.blob = sp.key.blob
	if sp.cert {
		sp.certObj = makeCert(sp.key, ca, serial)
		sp.format = ref.CertOf(sp.key.format)
		sp.blob = sp.certObj.Marshal()
	}
	if sp.native {
		// the package's own signers report every algorithm of the key format
		sp.kind = ref.MultiSigner
		sp.advertised = ref.SigAlgos(sp.key.format)
	}
	sp.refAlgos = ref.SignerAlgos(sp.kind, sp.format, sp.advertised)
	return sp
}

func (sp *signerSpec) kindName() string {
	k := [...]string{"Signer", "AlgorithmSigner", "MultiAlgorithmSigner"}[sp.kind]
	if sp.kind == ref.MultiSigner {
		k += fmt.Sprint(sp.advertised)
	}
	if sp.cert {
		k += "+certificate"
	}
	return sp.key.format + "/" + k
}

type zeroReader struct{}

func (zeroReader) Read(p []byte) (int, error) {
	for i := range p {
		p[i] = 0
	}
	return len(p), nil
}
