package main

import (
	"bytes"
	"crypto"
	"crypto/ecdsa"
	"crypto/ed25519"
	"crypto/elliptic"
	"crypto/sha256"
	"errors"
	"fmt"
	"io"
	"math/big"
	"strings"
	"sync"
	"time"

	"golang.org/x/crypto/ssh"
	"golang.org/x/crypto/ssh/testdata"
	ref "verif/ref/sshclientauth"
	"verif/vf"
)

// ---------------------------------------------------------------------------
// Part 2: real client against real server
// ---------------------------------------------------------------------------

// bkey is one client credential of the bridging part.
type bkey struct {
	name       string
	signer     ssh.Signer
	format     string // key format on the wire (certificate format for certificates)
	kind       ref.SignerKind
	advertised []string
}

func (k *bkey) blob() []byte { return k.signer.PublicKey().Marshal() }

func (k *bkey) refAlgos() []string { return ref.SignerAlgos(k.kind, k.format, k.advertised) }

// onlySign hides everything but Signer.
type onlySign struct{ s ssh.Signer }

func (o onlySign) PublicKey() ssh.PublicKey { return o.s.PublicKey() }
func (o onlySign) Sign(r io.Reader, d []byte) (*ssh.Signature, error) {
	return o.s.Sign(r, d)
}

// onlyAlgo hides Algorithms().
type onlyAlgo struct{ s ssh.AlgorithmSigner }

func (o onlyAlgo) PublicKey() ssh.PublicKey { return o.s.PublicKey() }
func (o onlyAlgo) Sign(r io.Reader, d []byte) (*ssh.Signature, error) {
	return o.s.Sign(r, d)
}
func (o onlyAlgo) SignWithAlgorithm(r io.Reader, d []byte, a string) (*ssh.Signature, error) {
	return o.s.SignWithAlgorithm(r, d, a)
}

// skSigner is a software FIDO/U2F authenticator (OpenSSH PROTOCOL.u2f): the
// signature covers sha256(application) || flags || counter || sha256(message).
type skSigner struct {
	pub  ssh.PublicKey
	app  string
	priv crypto.Signer
}

func (s *skSigner) PublicKey() ssh.PublicKey { return s.pub }

func (s *skSigner) Sign(rand io.Reader, data []byte) (*ssh.Signature, error) {
	ah, dh := sha256.Sum256([]byte(s.app)), sha256.Sum256(data)
	flags, counter := byte(1), uint32(7)
	msg := ref.Cat(ah[:], []byte{flags}, ref.U32(counter), dh[:])
	sig := &ssh.Signature{Format: s.pub.Type(), Rest: ref.Cat([]byte{flags}, ref.U32(counter))}
	switch p := s.priv.(type) {
	case ed25519.PrivateKey:
		sig.Blob = ed25519.Sign(p, msg)
	case *ecdsa.PrivateKey:
		h := sha256.Sum256(msg)
		r, t, err := ecdsa.Sign(vf.NewRand("c34-sk-ecdsa"), p, h[:])
		if err != nil {
			return nil, err
		}
		sig.Blob = ref.Cat(mpint(r), mpint(t))
	}
	return sig, nil
}

func mustParsePub(wire []byte) ssh.PublicKey {
	k, err := ssh.ParsePublicKey(wire)
	if err != nil {
		panic("harness: " + err.Error())
	}
	return k
}

func pemSigner(name string) ssh.Signer {
	s, err := ssh.ParsePrivateKey(testdata.PEMBytes[name])
	if err != nil {
		panic("harness: testdata key " + name + ": " + err.Error())
	}
	return s
}

func bridgeKeys(c *vf.Ctx, ca ssh.Signer) (keys []*bkey, skipped []string) {
	add := func(name string, s ssh.Signer, kind ref.SignerKind, adv []string) *bkey {
		k := &bkey{name: name, signer: s, format: s.PublicKey().Type(), kind: kind, advertised: adv}
		keys = append(keys, k)
		return k
	}
	native := func(name string, s ssh.Signer) *bkey {
		return add(name, s, ref.MultiSigner, ref.SigAlgos(ref.PlainOf(s.PublicKey().Type())))
	}
	ed := edKey(c, "bridge-ed", 20).native
	native("ed25519", ed)
	add("ed25519 plain Signer", onlySign{ed}, ref.PlainSigner, nil)
	for _, n := range []string{"ecdsap256", "ecdsap384", "ecdsap521"} {
		native(n, pemSigner(n))
	}
	rsa := pemSigner("rsa")
	rsaAS := rsa.(ssh.AlgorithmSigner)
	native("rsa", rsa)
	add("rsa AlgorithmSigner", onlyAlgo{rsaAS}, ref.AlgoSigner, nil)
	add("rsa plain Signer", onlySign{rsa}, ref.PlainSigner, nil)
	for _, adv := range [][]string{{ref.RSASHA512}, {ref.RSASHA256}, {ref.RSA}, {ref.RSASHA512, ref.RSASHA256}, {ref.RSA, ref.RSASHA512}} {
		m, err := ssh.NewSignerWithAlgorithms(rsaAS, adv)
		if err != nil {
			panic(err)
		}
		add("rsa restricted to "+strings.Join(adv, ","), m, ref.MultiSigner, adv)
	}
	if p, _, v := vf.Protect(func() { native("dsa", pemSigner("dsa")) }); p {
		skipped = append(skipped, fmt.Sprint("dsa: ", v))
	}
	// security keys
	skEd := ed25519.NewKeyFromSeed(c.Bytes("c34-sk-ed", 0, 32))
	app := "ssh:c34"
	add("sk-ed25519", &skSigner{app: app, priv: skEd,
		pub: mustParsePub(ref.Cat(ref.S("sk-ssh-ed25519@openssh.com"), ref.Str(skEd.Public().(ed25519.PublicKey)), ref.S(app)))}, ref.PlainSigner, nil)
	d := new(big.Int).SetBytes(c.Bytes("c34-sk-ecdsa", 0, 31))
	d.Add(d, big.NewInt(1))
	skEc := &ecdsa.PrivateKey{D: d}
	skEc.Curve = elliptic.P256()
	skEc.X, skEc.Y = elliptic.P256().ScalarBaseMult(d.Bytes())
	add("sk-ecdsa", &skSigner{app: app, priv: skEc,
		pub: mustParsePub(ref.Cat(ref.S("sk-ecdsa-sha2-nistp256@openssh.com"), ref.S("nistp256"), ref.Str(elliptic.Marshal(elliptic.P256(), skEc.X, skEc.Y)), ref.S(app)))}, ref.PlainSigner, nil)

	// a certificate over every key above, each wrapped the same way as the key itself
	plain := append([]*bkey(nil), keys...)
	for i, k := range plain {
		cert := &ssh.Certificate{Key: k.signer.PublicKey(), Serial: uint64(100 + i), CertType: ssh.UserCert, KeyId: "c34 " + k.name,
			ValidPrincipals: []string{userName}, ValidBefore: ssh.CertTimeInfinity}
		if err := cert.SignCert(vf.NewRand("c34-bridge-cert"), ca); err != nil {
			skipped = append(skipped, "certificate for "+k.name+": "+err.Error())
			continue
		}
		cs, err := ssh.NewCertSigner(cert, k.signer)
		if err != nil {
			skipped = append(skipped, "cert signer for "+k.name+": "+err.Error())
			continue
		}
		add(k.name+" certificate", cs, k.kind, k.advertised)
	}
	return
}

// stage: the methods that pass one step of the server's authentication chain.
type stage struct {
	pw, ki bool
	pk     bool
	accept [][]byte // accepted public key blobs (certificates: accepted through the CA)
}

type serverSpec struct {
	name   string
	stages []stage
	algos  []string // PublicKeyAuthAlgorithms (nil: package default)
	banner bool
}

type clientSide struct {
	name    string
	methods []ssh.AuthMethod
	has     map[string]bool
}

type bridgeResult struct {
	cerr, serr error
	passed     []string // methods that passed a stage, in order
	requests   int
	banners    int
	timeout    bool
}

var hostKey ssh.Signer

func handshake(cl clientSide, sv serverSpec, ca ssh.PublicKey) bridgeResult {
	var res bridgeResult
	var mu sync.Mutex
	checker := &ssh.CertChecker{
		IsUserAuthority: func(k ssh.PublicKey) bool { return bytes.Equal(k.Marshal(), ca.Marshal()) },
	}
	var callbacks func(i int) ssh.ServerAuthCallbacks
	pass := func(i int, method string) (*ssh.Permissions, error) {
		mu.Lock()
		res.passed = append(res.passed, method)
		mu.Unlock()
		if i == len(sv.stages)-1 {
			return &ssh.Permissions{Extensions: map[string]string{"c34": method}}, nil
		}
		return nil, &ssh.PartialSuccessError{Next: callbacks(i + 1)}
	}
	callbacks = func(i int) ssh.ServerAuthCallbacks {
		st := sv.stages[i]
		var cb ssh.ServerAuthCallbacks
		if st.pw {
			cb.PasswordCallback = func(conn ssh.ConnMetadata, p []byte) (*ssh.Permissions, error) {
				if conn.User() == userName && string(p) == password {
					return pass(i, ref.Password)
				}
				return nil, errors.New("wrong password")
			}
		}
		if st.ki {
			cb.KeyboardInteractiveCallback = func(conn ssh.ConnMetadata, ch ssh.KeyboardInteractiveChallenge) (*ssh.Permissions, error) {
				ans, err := ch("c34", "two questions", []string{"first: ", "second: "}, []bool{true, false})
				if err != nil {
					return nil, err
				}
				if len(ans) != 2 || ans[0] != "answer 0" || ans[1] != "answer 1" {
					return nil, errors.New("wrong answers")
				}
				// a second, empty round (RFC 4256 3.3 allows it)
				if _, err := ch("c34", "done", nil, nil); err != nil {
					return nil, err
				}
				return pass(i, ref.KeyboardInteractive)
			}
		}
		if st.pk {
			// the decision for a key is made when it is offered; the chain advances only
			// after the signature was verified, which the server signals by asking again
			// with the same result - passing is recorded through AuthLogCallback below.
			cb.PublicKeyCallback = func(conn ssh.ConnMetadata, key ssh.PublicKey) (*ssh.Permissions, error) {
				ok := false
				for _, b := range st.accept {
					if bytes.Equal(b, key.Marshal()) {
						ok = true
					}
				}
				if !ok {
					return nil, errors.New("unknown key")
				}
				if _, isCert := key.(*ssh.Certificate); isCert {
					if _, err := checker.Authenticate(conn, key); err != nil {
						return nil, err
					}
				}
				if i == len(sv.stages)-1 {
					return &ssh.Permissions{Extensions: map[string]string{"c34": ref.PublicKey}}, nil
				}
				return nil, &ssh.PartialSuccessError{Next: callbacks(i + 1)}
			}
		}
		return cb
	}
	first := callbacks(0)
	scfg := &ssh.ServerConfig{
		PasswordCallback:            first.PasswordCallback,
		KeyboardInteractiveCallback: first.KeyboardInteractiveCallback,
		PublicKeyCallback:           first.PublicKeyCallback,
		PublicKeyAuthAlgorithms:     sv.algos,
		AuthLogCallback: func(conn ssh.ConnMetadata, method string, err error) {
			mu.Lock()
			res.requests++
			var ps *ssh.PartialSuccessError
			if method == ref.PublicKey && (err == nil || errors.As(err, &ps)) {
				res.passed = append(res.passed, method)
			}
			mu.Unlock()
		},
	}
	if sv.banner {
		scfg.BannerCallback = func(ssh.ConnMetadata) string { return "c34 banner\n" }
	}
	scfg.KeyExchanges = []string{"curve25519-sha256"}
	scfg.AddHostKey(hostKey)
	ccfg := &ssh.ClientConfig{User: userName, Auth: cl.methods, HostKeyCallback: ssh.FixedHostKey(hostKey.PublicKey()),
		BannerCallback: func(string) error { mu.Lock(); res.banners++; mu.Unlock(); return nil }}
	ccfg.KeyExchanges = []string{"curve25519-sha256"}

	c1, c2 := memPipe()
	// a budget against hangs, not an oracle: a handshake takes about a millisecond
	watchdog := time.AfterFunc(120*time.Second, func() {
		mu.Lock()
		res.timeout = true
		mu.Unlock()
		c1.Close()
		c2.Close()
	})
	defer watchdog.Stop()
	done := make(chan struct{})
	go func() {
		defer close(done)
		conn, chans, reqs, err := ssh.NewServerConn(c2, scfg)
		res.serr = err
		if err == nil {
			go ssh.DiscardRequests(reqs)
			go func() {
				for ch := range chans {
					ch.Reject(ssh.Prohibited, "")
				}
			}()
			conn.Wait()
		}
		c2.Close()
	}()
	conn, _, _, err := ssh.NewClientConn(c1, "c34.pipe", ccfg)
	res.cerr = err
	if err == nil {
		conn.Close()
	}
	c1.Close()
	<-done
	mu.Lock()
	defer mu.Unlock()
	return res
}

func bridge(c *vf.Ctx, _ map[string]*signerSpec) {
	caKey := edKey(c, "bridge-ca", 21)
	hostKey = edKey(c, "bridge-host", 22).native
	keys, skipped := bridgeKeys(c, caKey.native)
	c.Set("bridge_key_types", len(keys))
	if len(skipped) > 0 {
		c.Set("bridge_skipped", skipped)
	}
	byName := map[string]*bkey{}
	for _, k := range keys {
		byName[k.name] = k
	}
	k1, k2 := byName["ed25519"], byName["ecdsap256"]
	stranger := edKey(c, "bridge-stranger", 23).native

	pwOK := ssh.Password(password)
	kiOK := ssh.KeyboardInteractive(func(name, instruction string, questions []string, echos []bool) ([]string, error) {
		var out []string
		for i := range questions {
			out = append(out, fmt.Sprintf("answer %d", i))
		}
		return out, nil
	})

	type job struct {
		cl     clientSide
		sv     serverSpec
		expect bool // compatible: must authenticate
		group  string
	}
	var jobs []job

	mkClient := func(order []string, pkm ssh.AuthMethod, pkName string) clientSide {
		cl := clientSide{has: map[string]bool{}}
		var n []string
		for _, m := range order {
			cl.has[m] = true
			switch m {
			case ref.Password:
				cl.methods = append(cl.methods, pwOK)
				n = append(n, "pw")
			case ref.KeyboardInteractive:
				cl.methods = append(cl.methods, kiOK)
				n = append(n, "ki")
			case ref.PublicKey:
				cl.methods = append(cl.methods, pkm)
				n = append(n, pkName)
			}
		}
		cl.name = "[" + strings.Join(n, " ") + "]"
		return cl
	}
	allOrders := func() [][]string {
		var out [][]string
		for _, ms := range orderedSubsets([]methodSpec{pw(), ki(), pk()}) {
			var o []string
			for _, m := range ms {
				o = append(o, methodName[m.kind])
			}
			out = append(out, o)
		}
		return out
	}()

	stageOf := func(ms string, accept ...*bkey) stage {
		var st stage
		for _, m := range strings.Split(ms, "+") {
			switch m {
			case "pw":
				st.pw = true
			case "ki":
				st.ki = true
			case "pk":
				st.pk = true
				for _, k := range accept {
					st.accept = append(st.accept, k.blob())
				}
			}
		}
		return st
	}
	stageHas := func(st stage, cl clientSide) bool {
		return st.pw && cl.has[ref.Password] || st.ki && cl.has[ref.KeyboardInteractive] || st.pk && cl.has[ref.PublicKey]
	}

	// (A) every server method structure x every ordered client method subset (ed25519/ecdsa keys)
	singles := []string{"pw", "ki", "pk", "pw+ki", "pw+pk", "ki+pk", "pw+ki+pk"}
	var structures []serverSpec
	for _, s := range singles {
		structures = append(structures, serverSpec{name: "{" + s + "}", stages: []stage{stageOf(s, k1, k2)}})
	}
	for _, a := range []string{"pw", "ki", "pk"} {
		for _, b := range []string{"pw", "ki", "pk", "pw+ki+pk"} {
			structures = append(structures, serverSpec{name: "{" + a + "}->{" + b + "}", stages: []stage{stageOf(a, k1, k2), stageOf(b, k1, k2)}})
		}
	}
	structures = append(structures,
		serverSpec{name: "{pk:k1}->{pk:k2}", stages: []stage{stageOf("pk", k1), stageOf("pk", k2)}},
		serverSpec{name: "{pw}->{ki}->{pk}", stages: []stage{stageOf("pw"), stageOf("ki"), stageOf("pk", k1, k2)}},
		serverSpec{name: "{pk:k2}->{pw+ki}", stages: []stage{stageOf("pk", k2), stageOf("pw+ki")}},
	)
	for bi, banner := range []bool{false, true} {
		for _, sv := range structures {
			sv.banner = banner
			if banner {
				sv.name += "+banner"
			}
			for _, order := range allOrders {
				cl := mkClient(order, ssh.PublicKeys(k1.signer, k2.signer), "pk(ed25519,ecdsap256)")
				compatible := true
				for _, st := range sv.stages {
					if !stageHas(st, cl) {
						compatible = false
					}
				}
				if bi == 1 && !compatible {
					continue
				}
				jobs = append(jobs, job{cl, sv, compatible, "method structures"})
			}
		}
	}
	// wrong credential first, right one second
	tries := 0
	wrongFirst := ssh.RetryableAuthMethod(ssh.PasswordCallback(func() (string, error) {
		tries++
		if tries%2 == 1 {
			return "wrong " + password, nil
		}
		return password, nil
	}), 2)
	jobs = append(jobs,
		job{clientSide{name: "[retry2(pw wrong,right)]", methods: []ssh.AuthMethod{wrongFirst}, has: map[string]bool{ref.Password: true}},
			serverSpec{name: "{pw}", stages: []stage{stageOf("pw")}}, true, "wrong credential first"},
		job{mkClient([]string{ref.PublicKey}, ssh.PublicKeys(stranger, k2.signer, k1.signer), "pk(stranger,ecdsap256,ed25519)"),
			serverSpec{name: "{pk:k1}", stages: []stage{stageOf("pk", k1)}}, true, "wrong credential first"},
		job{mkClient([]string{ref.PublicKey, ref.Password}, ssh.PublicKeys(stranger), "pk(stranger)"),
			serverSpec{name: "{pw+pk}", stages: []stage{stageOf("pw+pk", k1)}}, true, "wrong credential first"},
		job{mkClient([]string{ref.PublicKey, ref.KeyboardInteractive}, ssh.PublicKeys(stranger, k1.signer), "pk(stranger,ed25519)"),
			serverSpec{name: "{pk:k1}->{ki}", stages: []stage{stageOf("pk", k1), stageOf("ki")}}, true, "wrong credential first"},
	)

	// (B) every key type and signer kind x server algorithm lists x method skeletons
	nonRSA := []string{"ssh-ed25519", "ecdsa-sha2-nistp256", "ecdsa-sha2-nistp384", "ecdsa-sha2-nistp521",
		"sk-ssh-ed25519@openssh.com", "sk-ecdsa-sha2-nistp256@openssh.com", "ssh-dss"}
	rsaLists := [][]string{{ref.RSASHA256, ref.RSASHA512}, {ref.RSASHA256}, {ref.RSASHA512}, {ref.RSA}, {ref.RSASHA512, ref.RSA}, {}}
	for _, k := range keys {
		lists := rsaLists
		if ref.PlainOf(k.format) != ref.RSA {
			lists = rsaLists[:1]
		}
		for _, rl := range lists {
			algos := append(append([]string(nil), nonRSA...), rl...)
			picked, ok := ref.Pick(k.format, k.refAlgos(), true, algos)
			compatible := ok && has(algos, ref.PlainOf(picked))
			an := "algos=" + strings.Join(rl, ",")
			pkm := ssh.PublicKeys(k.signer)
			pkn := "pk(" + k.name + ")"
			jobs = append(jobs,
				job{mkClient([]string{ref.PublicKey}, pkm, pkn), serverSpec{name: "{pk} " + an, stages: []stage{stageOf("pk", k)}, algos: algos}, compatible, "key types"},
				job{mkClient([]string{ref.PublicKey, ref.Password}, pkm, pkn), serverSpec{name: "{pw}->{pk} " + an, stages: []stage{stageOf("pw"), stageOf("pk", k)}, algos: algos}, compatible, "key types"},
				job{mkClient([]string{ref.KeyboardInteractive, ref.PublicKey}, pkm, pkn), serverSpec{name: "{pk}->{ki} " + an, stages: []stage{stageOf("pk", k), stageOf("ki")}, algos: algos, banner: true}, compatible, "key types"},
				job{mkClient([]string{ref.PublicKey}, ssh.PublicKeys(stranger, k.signer), "pk(stranger,"+k.name+")"), serverSpec{name: "{pk} " + an, stages: []stage{stageOf("pk", k)}, algos: algos}, compatible, "key types"},
			)
		}
		// package default algorithm list: keys whose compatibility does not depend on it
		pf := ref.PlainOf(k.format)
		if pf != ref.RSA && pf != "ssh-dss" || strings.HasPrefix(k.name, "rsa AlgorithmSigner") || k.name == "rsa" || k.name == "rsa certificate" {
			jobs = append(jobs, job{mkClient([]string{ref.PublicKey}, ssh.PublicKeys(k.signer), "pk("+k.name+")"),
				serverSpec{name: "{pk} default algos", stages: []stage{stageOf("pk", k)}}, true, "key types"})
		}
	}

	counts := map[string]int{}
	c.ParallelFor(len(jobs), func(i int) {
		j := jobs[i]
		res := handshake(j.cl, j.sv, caKey.native.PublicKey())
		c.Eval(1)
		c.TraceValidated(1)
		c.Transition(res.requests)
		name := "client " + j.cl.name + " x server " + j.sv.name
		detail := map[string]any{"case": name, "client_error": fmt.Sprint(res.cerr), "server_error": fmt.Sprint(res.serr), "passed": res.passed, "requests": res.requests}
		c.State("bridge|" + j.sv.name + "|" + fmt.Sprint(res.passed))
		if j.expect {
			c.Nontrivial("bridge|" + name)
		}
		switch {
		case res.timeout:
			c.Violation("bridging: handshake did not finish: "+j.group, detail)
		case j.expect && (res.cerr != nil || res.serr != nil):
			c.Violation("bridging: compatible client and Go server fail to authenticate: "+j.group, detail)
		case j.expect && len(res.passed) != len(j.sv.stages):
			c.Violation("bridging: authenticated without passing every stage of the server's chain", detail)
		case res.cerr == nil && j.sv.banner && res.banners != 1:
			c.Violation("bridging: BannerCallback not invoked exactly once for the server's banner", detail)
		case (res.cerr == nil) != (res.serr == nil):
			c.Violation("bridging: client and server disagree about the outcome", detail)
		}
		mu2.Lock()
		if res.cerr == nil {
			counts[j.group+": authenticated"]++
		} else {
			counts[j.group+": refused (incompatible)"]++
		}
		mu2.Unlock()
		c.Outcome("bridge: " + errClass(res.cerr))
	})
	c.Set("bridge_handshakes", len(jobs))
	c.Set("bridge_results", counts)
}

var mu2 sync.Mutex

func has(list []string, s string) bool {
	for _, x := range list {
		if x == s {
			return true
		}
	}
	return false
}
