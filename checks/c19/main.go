// C19: ssh/internal/bcrypt_pbkdf.Key equals OpenBSD's bcrypt_pbkdf and returns an error
// exactly for the documented invalid arguments.
//
// Grid: password length {1,2,72,73,100} x salt length {1,16,64} x rounds {1,2,3,16,32} x key
// length (every 1..70 and 96,97 for rounds 1 and, on a diagonal of shapes, rounds 2;
// block-boundary lengths {1,31,32,33,63,64,65,96,97} for rounds 2,3; {1,32,33,65} for 16;
// {1,33} for 32; thorough: every 1..200 for rounds 1..3, every 1..70 and 96,97,128,129 for 16 and 32) + the maximal corner
// (salt 2^20, key length 1024, 200) + the full product of valid/invalid argument classes.
// Oracle: /verif/ref/bcryptpbkdfref (OpenBSD's algorithm incl. the strided output loop, on
// pi-computed Blowfish tables; validated by decrypting seven ssh-keygen 9.2 keys).
// Reached through the verif-tagged hook ssh.VerifC19BcryptPBKDFKey.
package main

import (
	"bytes"
	"fmt"
	"sync"

	"golang.org/x/crypto/ssh"
	"verif/ref/bcryptpbkdfref"
	"verif/vf"
)

func main() { vf.Main("C19", vf.Exploration, run) }

// blockCache memoises the expensive per-count 32-byte blocks of the model for one
// (password, salt, rounds); the OpenBSD output loop itself is re-run for every key length.
type blockCache struct {
	mu     sync.Mutex
	pass   []byte
	salt   []byte
	rounds int
	blocks map[int][]byte
}

func (b *blockCache) get(count int) []byte {
	b.mu.Lock()
	defer b.mu.Unlock()
	if v, ok := b.blocks[count]; ok {
		return v
	}
	v := bcryptpbkdfref.Block(b.pass, b.salt, b.rounds, count)
	b.blocks[count] = v
	return v
}

func run(c *vf.Ctx) {
	c.Rule("pwlen{1,2,72,73,100} x saltlen{1,16,64} x rounds{1,2,3,16,32} x keylen (1..70,96,97 at rounds 1 and on a shape diagonal at rounds 2; {1,31,32,33,63,64,65,96,97} at rounds 2,3; {1,32,33,65} at 16; {1,33} at 32; thorough: 1..200 at rounds 1..3, 1..70,96,97,128,129 at 16,32) " +
		"+ corners (saltlen 2^20, keylen 200/1024) + product of argument classes pwlen{0,1} x saltlen{0,1,2^20,2^20+1} x rounds{-1,0,1} x keylen{1,1024,1025,4096}: error iff OpenBSD rejects; " +
		"hardening: (A) every valid call hands over password and salt as private copies in sentinel-framed buffers (spare capacity or cap == len, alternating), intact after the call and wiped before the comparison; (C) password length 2^k+{-1,0,1,111,112,127,128,129}, k=7..22, salt length 2^k+{-5,-4,-1,0,1,107,108,123,124,127,128}, k=7..19 and 2^20-{133,132,129,128,5,4,3,1}; (E) rounds{255,256,257} (thorough +1023,1024,1025), keylen{255,256,257,511,512,513,767,768,769,1000} x 2 shapes; (D) every history of 3 calls over 3 valid + 4 invalid argument sets; " +
		"non-trivial = distinct (pwlen, saltlen, rounds, keylen) compared byte for byte with the model, keylen > 32 (strided interleave of several blocks) counted separately in 'multi_block_points'")
	c.Assume("password/salt values: one seeded class per shape plus boundary classes on a sub-grid (both are collapsed by SHA-512 before use); values outside are not enumerated")
	c.Assume("reference model trusted: crypto/sha512, pi-computed Blowfish; validated by OpenBSD known answers and by decrypting 7 keys written by ssh-keygen 9.2 (aes128/192/256-ctr, aes256-cbc, 3des-cbc; rounds 1..16)")
	c.Assume("keyLen <= 0 is outside the property's domain (key length 1..1024): OpenBSD rejects 0, the Go package returns an empty key for 0 and panics for negative values; tallied, not alarmed")

	type pt struct {
		pl, sl, rounds int
	}
	var grid []pt
	for _, pl := range []int{1, 2, 72, 73, 100} {
		for _, sl := range []int{1, 16, 64} {
			for _, r := range []int{1, 2, 3, 16, 32} {
				grid = append(grid, pt{pl, sl, r})
			}
		}
	}
	menu := []int{1, 31, 32, 33, 63, 64, 65, 96, 97}
	keyLens := func(gi, rounds int) []int {
		var out []int
		switch {
		case c.Thorough && rounds <= 3:
			for k := 1; k <= 200; k++ {
				out = append(out, k)
			}
		case c.Thorough:
			for k := 1; k <= 70; k++ {
				out = append(out, k)
			}
			out = append(out, 96, 97, 128, 129)
		case rounds == 1 || (rounds == 2 && (gi/5)%3 == (gi/15)%3): // rounds 2: full sweep on a diagonal of (pwlen, saltlen)
			for k := 1; k <= 70; k++ {
				out = append(out, k)
			}
			out = append(out, 96, 97)
		case rounds <= 3:
			out = menu
		case rounds == 16:
			out = []int{1, 32, 33, 65}
		default:
			out = []int{1, 33}
		}
		return out
	}
	// unit of parallel work: one (shape, keylen)
	type job struct {
		g     pt
		k     int
		cache *blockCache
		pass  []byte
		salt  []byte
	}
	var jobs []job
	for gi, g := range grid {
		pass := c.Bytes("pbkdf-pass", gi, g.pl)
		salt := c.Bytes("pbkdf-salt", gi, g.sl)
		switch gi % 5 { // boundary value classes on part of the grid
		case 1:
			pass = bytes.Repeat([]byte{0xff}, g.pl)
		case 2:
			salt = make([]byte, g.sl)
		case 3:
			pass = make([]byte, g.pl) // NUL bytes are ordinary password bytes here
		}
		bc := &blockCache{pass: pass, salt: salt, rounds: g.rounds, blocks: map[int][]byte{}}
		for _, k := range keyLens(gi, g.rounds) {
			jobs = append(jobs, job{g, k, bc, pass, salt})
		}
	}
	var multi sync.Map
	compare := func(pass, salt []byte, rounds, k int, want []byte) {
		var got []byte
		var err error
		// hardening A: private sentinel-framed copies (spare capacity behind the slice or cap == len,
		// alternating), intact after the call, wiped before the key is compared
		fpass, gpass := guard(pass, (len(pass)+k)%2 == 0)
		fsalt, gsalt := guard(salt, (len(salt)+k+rounds)%2 == 0)
		if p, v, st := vf.Protect(func() { got, err = ssh.VerifC19BcryptPBKDFKey(gpass, gsalt, rounds, k) }); p {
			c.Violation("bcrypt_pbkdf.Key panics on valid arguments", map[string]any{"pwlen": len(pass), "saltlen": len(salt), "rounds": rounds, "keylen": k, "panic": fmt.Sprint(v), "stack": st})
			return
		}
		c.Eval(1)
		d := map[string]any{"pwlen": len(pass), "saltlen": len(salt), "rounds": rounds, "keylen": k, "pass": vf.Hex8(pass), "salt": vf.Hex8(salt)}
		if !intact(fpass, pass) || !intact(fsalt, salt) {
			c.Violation("bcrypt_pbkdf.Key writes to the caller's password/salt buffer or its spare capacity", d)
		}
		wipe(fpass)
		wipe(fsalt)
		if err != nil {
			d["err"] = err.Error()
			c.Violation("bcrypt_pbkdf.Key rejects valid arguments", d)
			return
		}
		if len(got) != k {
			d["got_len"] = len(got)
			c.Violation("bcrypt_pbkdf.Key returns a key of the wrong length", d)
			return
		}
		if !bytes.Equal(got, want) {
			d["got"] = fmt.Sprintf("%x", got)
			d["want"] = fmt.Sprintf("%x", want)
			first := 0
			for first < k && got[first] == want[first] {
				first++
			}
			d["first_difference_at"] = first
			cls := "bcrypt_pbkdf.Key differs from OpenBSD bcrypt_pbkdf"
			switch {
			case len(pass) > 100:
				cls += " [long password]"
			case len(salt) > 64:
				cls += " [long salt]"
			case rounds >= 255:
				cls += " [rounds >= 255]"
			}
			c.Violation(cls, d)
		}
		c.Outcome("valid: equal to model")
		c.Nontrivial(fmt.Sprintf("%d/%d/%d/%d", len(pass), len(salt), rounds, k))
		if k > 32 {
			multi.Store(fmt.Sprintf("%d/%d/%d/%d", len(pass), len(salt), rounds, k), true)
		}
	}
	c.ParallelFor(len(jobs), func(i int) {
		j := jobs[i]
		want := bcryptpbkdfref.Assemble(j.k, j.cache.get)
		compare(j.pass, j.salt, j.g.rounds, j.k, want)
		if c.WantSample() && j.k == 65 && j.g.rounds == 3 {
			c.Sample(map[string]any{"pwlen": j.g.pl, "saltlen": j.g.sl, "rounds": j.g.rounds, "keylen": j.k, "key": fmt.Sprintf("%x", want)})
		}
	})

	// corners: maximal salt, maximal key length, 200
	type corner struct{ pl, sl, rounds, k int }
	corners := []corner{{8, 1 << 20, 1, 48}, {8, 1<<20 - 1, 2, 33}, {1, 16, 1, 1024}, {9, 16, 2, 1023}, {9, 3, 1, 200}, {100, 64, 1, 993}, {5, 16, 1, 992}}
	if c.Thorough {
		corners = append(corners, corner{8, 16, 16, 1024}, corner{8, 1 << 20, 3, 1024}, corner{8, 16, 64, 48}, corner{8, 16, 100, 65})
	}
	c.ParallelFor(len(corners), func(i int) {
		g := corners[i]
		pass := c.Bytes("pbkdf-cpass", i, g.pl)
		salt := c.Bytes("pbkdf-csalt", i, g.sl)
		want, err := bcryptpbkdfref.Key(pass, salt, g.rounds, g.k)
		if err != nil {
			c.Violation("harness: model rejects a corner", fmt.Sprint(g))
			return
		}
		compare(pass, salt, g.rounds, g.k, want)
	})

	hardening(c, compare)

	// argument classes: error iff OpenBSD rejects (key length <= 0 left out, see assumptions)
	type arg struct{ pl, sl, rounds, k int }
	var args []arg
	for _, pl := range []int{0, 1} {
		for _, sl := range []int{0, 1, 1 << 20, 1<<20 + 1} {
			for _, r := range []int{-1, 0, 1} {
				for _, k := range []int{1, 1024, 1025, 4096} {
					args = append(args, arg{pl, sl, r, k})
				}
			}
		}
	}
	// more values of each invalid class on an otherwise valid call
	for _, r := range []int{-1 << 31, -2, 0} {
		args = append(args, arg{3, 16, r, 32})
	}
	for _, k := range []int{1025, 1026, 2048, 1 << 20, 1 << 30} {
		args = append(args, arg{3, 16, 1, k})
	}
	for _, sl := range []int{1<<20 + 1, 1<<20 + 2, 1 << 21} {
		args = append(args, arg{3, sl, 1, 32})
	}
	bigSalt := c.Bytes("pbkdf-bigsalt", 0, 1<<21)
	c.ParallelFor(len(args), func(i int) {
		a := args[i]
		valid := bcryptpbkdfref.Valid(a.pl, a.sl, a.rounds, a.k)
		passes := [][]byte{bytes.Repeat([]byte{'p'}, a.pl)}
		if a.pl == 0 {
			passes = append(passes, nil)
		}
		for _, pass := range passes {
			salt := bigSalt[:a.sl:a.sl]
			if a.sl == 0 && pass == nil {
				salt = nil
			}
			var got []byte
			var err error
			if p, v, st := vf.Protect(func() { got, err = ssh.VerifC19BcryptPBKDFKey(pass, salt, a.rounds, a.k) }); p {
				c.Violation("bcrypt_pbkdf.Key panics instead of returning an error", map[string]any{"args": fmt.Sprint(a), "panic": fmt.Sprint(v), "stack": st})
				return
			}
			c.Eval(1)
			if valid {
				if err != nil {
					c.Violation("bcrypt_pbkdf.Key rejects valid arguments", map[string]any{"pwlen": a.pl, "saltlen": a.sl, "rounds": a.rounds, "keylen": a.k, "err": err.Error()})
					return
				}
				want, _ := bcryptpbkdfref.Key(pass, salt, a.rounds, a.k)
				if !bytes.Equal(got, want) {
					c.Violation("bcrypt_pbkdf.Key differs from OpenBSD bcrypt_pbkdf", map[string]any{"pwlen": a.pl, "saltlen": a.sl, "rounds": a.rounds, "keylen": a.k})
				}
				c.Outcome("valid: equal to model")
			} else {
				if err == nil {
					c.Violation("bcrypt_pbkdf.Key accepts arguments that OpenBSD rejects", map[string]any{"pwlen": a.pl, "saltlen": a.sl, "rounds": a.rounds, "keylen": a.k})
					return
				}
				if got != nil {
					c.Violation("bcrypt_pbkdf.Key returns key material together with an error", fmt.Sprint(a))
				}
				c.Outcome("invalid: error")
			}
		}
		c.Nontrivial(fmt.Sprintf("args/%d/%d/%d/%d", a.pl, a.sl, a.rounds, a.k))
	})

	// key length 0 / negative: observation only
	if p, _, _ := vf.Protect(func() {
		k, err := ssh.VerifC19BcryptPBKDFKey([]byte("p"), []byte("s"), 1, 0)
		c.Outcome(fmt.Sprintf("keyLen=0 -> len %d err %v (OpenBSD: error)", len(k), err))
	}); p {
		c.Outcome("keyLen=0 -> panic")
	}
	n := 0
	multi.Range(func(_, _ any) bool { n++; return true })
	c.Set("multi_block_points", n)
}

// ---------------------------------------------------------------- hardening pass

func guard(b []byte, spare bool) (frame, s []byte) {
	frame = bytes.Repeat([]byte{0xA5}, 8+len(b)+24)
	copy(frame[8:], b)
	if spare {
		return frame, frame[8 : 8+len(b)]
	}
	return frame, frame[8 : 8+len(b) : 8+len(b)]
}

func intact(frame, orig []byte) bool {
	for i, v := range frame {
		if i >= 8 && i < 8+len(orig) {
			if v != orig[i-8] {
				return false
			}
		} else if v != 0xA5 {
			return false
		}
	}
	return true
}

func wipe(frame []byte) {
	for i := range frame {
		frame[i] ^= 0xFF
	}
}

func hardening(c *vf.Ctx, compare func(pass, salt []byte, rounds, k int, want []byte)) {
	type job struct{ pl, sl, rounds, k int }
	var jobs []job
	// C: long passwords (SHA-512 block 128, padding boundary 111/112) and long salts (salt || 4-octet
	// block count is hashed: -4 puts the count on the block boundary) up to the documented maximum 2^20
	for k := 7; k <= 22; k++ {
		for _, d := range []int{-1, 0, 1, 111, 112, 127, 128, 129} {
			jobs = append(jobs, job{1<<uint(k) + d, 16, 1, 33})
		}
	}
	for k := 7; k <= 19; k++ {
		for _, d := range []int{-5, -4, -1, 0, 1, 107, 108, 123, 124, 127, 128} {
			jobs = append(jobs, job{9, 1<<uint(k) + d, 1, 33})
		}
	}
	for _, d := range []int{-133, -132, -129, -128, -5, -4, -3, -1} {
		jobs = append(jobs, job{9, 1<<20 + d, 2, 65})
	}
	// E: rounds and key lengths on each side of 2^8 (rounds around 2^10 in thorough)
	rs := []int{255, 256, 257} // one round = one bcryptHash (~5 ms): 2^10 only in thorough, 2^16 would take minutes per point
	if c.Thorough {
		rs = append(rs, 1023, 1024, 1025)
	}
	for _, r := range rs {
		jobs = append(jobs, job{8, 16, r, 32})
		if r < 1000 {
			jobs = append(jobs, job{8, 16, r, 33})
		}
	}
	for _, k := range []int{255, 256, 257, 511, 512, 513, 767, 768, 769, 1000} {
		jobs = append(jobs, job{8, 16, 1, k}, job{73, 5, 2, k})
	}
	src := vf.DetBytes(fmt.Sprintf("%d|bcrypt-pbkdf-long", c.Seed), 1<<22+200)
	c.ParallelFor(len(jobs), func(i int) {
		j := jobs[i]
		pass, salt := src[3:3+j.pl], src[77:77+j.sl]
		want, err := bcryptpbkdfref.Key(pass, salt, j.rounds, j.k)
		if err != nil {
			c.Violation("harness: model rejects a hardening point", fmt.Sprint(j))
			return
		}
		compare(pass, salt, j.rounds, j.k, want)
	})
	c.Set("hardening_points", len(jobs))

	// D: every history of 3 calls over valid and invalid argument sets: each call gives its own
	// result (model key, or error without key material), also after error returns; keys returned
	// earlier stay unchanged.
	type as struct{ pl, sl, rounds, k int }
	alpha := []as{{5, 16, 1, 32}, {73, 3, 2, 65}, {1, 1, 3, 1}, {5, 16, 0, 32}, {0, 16, 1, 32}, {5, 0, 1, 32}, {5, 16, 1, 1025}}
	want := make([][]byte, len(alpha))
	for i, a := range alpha {
		if bcryptpbkdfref.Valid(a.pl, a.sl, a.rounds, a.k) {
			want[i], _ = bcryptpbkdfref.Key(src[:a.pl], src[200:200+a.sl], a.rounds, a.k)
		}
	}
	n := len(alpha)
	c.ParallelFor(n*n*n, func(h int) {
		seq := []int{h / (n * n), h / n % n, h % n}
		var outs, saved [][]byte
		for pos, x := range seq {
			a := alpha[x]
			_, pass := guard(src[:a.pl], pos%2 == 0)
			_, salt := guard(src[200:200+a.sl], pos%2 == 1)
			var got []byte
			var err error
			d := map[string]any{"history": fmt.Sprint(alpha[seq[0]], alpha[seq[1]], alpha[seq[2]]), "position": pos}
			if p, v, _ := vf.Protect(func() { got, err = ssh.VerifC19BcryptPBKDFKey(pass, salt, a.rounds, a.k) }); p {
				d["panic"] = fmt.Sprint(v)
				c.Violation("bcrypt_pbkdf.Key panics in a call history", d)
				return
			}
			c.Eval(1)
			switch {
			case want[x] == nil && (err == nil || got != nil):
				c.Violation("bcrypt_pbkdf.Key accepts invalid arguments at a later position of a call history", d)
			case want[x] != nil && (err != nil || !bytes.Equal(got, want[x])):
				c.Violation("bcrypt_pbkdf.Key result depends on earlier calls (!= model at a later position of a call history)", d)
			}
			outs, saved = append(outs, got), append(saved, append([]byte(nil), got...))
			for q := 0; q < pos; q++ {
				if !bytes.Equal(outs[q], saved[q]) {
					c.Violation("bcrypt_pbkdf.Key: a key returned earlier changes when a later call runs", d)
				}
			}
		}
		c.Nontrivial(fmt.Sprintf("hist/%v", seq))
	})
	c.Outcome("call histories checked")
}
