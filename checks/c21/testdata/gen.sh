#!/bin/bash
# Development-time generator of the OpenSSL fixtures (OpenSSL 3.5.6, legacy provider).
# Keys/certificates are generated once; PFX files for every password x key x variant.
set -e
cd "$(dirname "$0")"
if [ ! -f key-rsa1024.pem ]; then
  openssl genpkey -algorithm RSA -pkeyopt rsa_keygen_bits:1024 -out key-rsa1024.pem
  openssl genpkey -algorithm RSA -pkeyopt rsa_keygen_bits:2048 -out key-rsa2048.pem
  openssl genpkey -algorithm EC -pkeyopt ec_paramgen_curve:P-256 -out key-p256.pem
  for k in rsa1024 rsa2048 p256; do
    openssl req -new -x509 -key key-$k.pem -subj "/CN=verif c21 $k/O=verif" -days 36500 -sha256 -out cert-$k.pem
  done
fi
PW0=''
PW1='a'
PW2='0123456789abcdefghijABCDEFGHIJ!#%&()*+,-'
PW3=$'\xc3\xa9'                 # U+00E9 (Latin-1 range)
PW4=$'\xe5\xaf\x86\xed\x95\x9c' # U+5BC6 U+D55C (CJK: Han, Hangul; second one has a high octet >= 0x80)
PW5=$'\xf0\x9d\x84\x9e'         # U+1D11E (needs a UTF-16 surrogate pair)
if [ "${ONLY_ATTR:-}" != 1 ]; then
rm -f ossl-*.p12
for k in rsa1024 rsa2048 p256; do
  for i in 0 1 2 3 4 5; do
    eval "pw=\$PW$i"
    # A: -legacy defaults = RC2-40 certificates, 3DES key, SHA-1 MAC, 2048 iterations
    openssl pkcs12 -export -legacy -inkey key-$k.pem -in cert-$k.pem -name "verif-$k" -passout "pass:$pw" -out ossl-$k-A-$i.p12
    # B: 3DES for both, SHA-1 MAC
    openssl pkcs12 -export -legacy -certpbe PBE-SHA1-3DES -keypbe PBE-SHA1-3DES -macalg sha1 -inkey key-$k.pem -in cert-$k.pem -name "verif-$k" -passout "pass:$pw" -out ossl-$k-B-$i.p12
  done
done
# iteration-count and cipher variants (one key each)
for i in 0 1 3 4; do
  eval "pw=\$PW$i"
  openssl pkcs12 -export -legacy -noiter -nomaciter -inkey key-p256.pem -in cert-p256.pem -passout "pass:$pw" -out ossl-p256-C-$i.p12                  # iterations 1, no names
  openssl pkcs12 -export -legacy -iter 2 -inkey key-rsa1024.pem -in cert-rsa1024.pem -name "verif-rsa1024" -passout "pass:$pw" -out ossl-rsa1024-D-$i.p12
  openssl pkcs12 -export -legacy -iter 4096 -certpbe PBE-SHA1-RC2-40 -keypbe PBE-SHA1-RC2-40 -inkey key-p256.pem -in cert-p256.pem -name "verif-p256" -passout "pass:$pw" -out ossl-p256-E-$i.p12
done
fi
# F: bag-attribute shapes (password "a"): empty friendlyName, empty / non-empty Microsoft CSP name,
# non-ASCII name with a code point >= U+8000, no name at all with a CSP name
rm -f attr-*.p12
openssl pkcs12 -export -legacy -inkey key-p256.pem -in cert-p256.pem -name "" -passout pass:a -out attr-p256-emptyname.p12
openssl pkcs12 -export -legacy -inkey key-rsa1024.pem -in cert-rsa1024.pem -name "" -passout pass:a -out attr-rsa1024-emptyname.p12
openssl pkcs12 -export -legacy -inkey key-p256.pem -in cert-p256.pem -name "n" -CSP "" -passout pass:a -out attr-p256-emptycsp.p12
openssl pkcs12 -export -legacy -inkey key-rsa1024.pem -in cert-rsa1024.pem -name $'\xc3\xa9\xed\x95\x9c' -CSP "Microsoft Enhanced Cryptographic Provider v1.0" -passout pass:a -out attr-rsa1024-csp.p12
openssl pkcs12 -export -legacy -inkey key-p256.pem -in cert-p256.pem -CSP "csp only" -passout pass:a -out attr-p256-csponly.p12
ls -la | wc -l
