// C21: PKCS#12 decoding interoperates with OpenSSL legacy PFX files.
//
//  1. Embedded fixtures written by `openssl pkcs12 -export -legacy` (OpenSSL 3.5.6; see
//     testdata/gen.sh): password {"", "a", 40 ASCII, Latin-1, CJK, non-BMP} x key {RSA-1024,
//     RSA-2048, P-256} x {RC2-40 cert + 3DES key, 3DES both} plus iteration-count / RC2-key
//     variants; a few are regenerated at run time when an openssl binary is present.
//  2. PFX files produced by the independent encoder verif/ref/p12ref (RFC 7292 App. B KDF,
//     PBE-SHA1-3DES, PBE-SHA1-RC2-40, HMAC-SHA1, BMPString) for the whole password x
//     iterations x key x cipher grid with salt-length classes and layout variants.
//     pkcs12.Decode / ToPEM must return exactly the key, the certificate and the attributes.
//     2b. Bag-attribute shapes (friendlyName / localKeyId / Microsoft CSP name / unknown OID, empty,
//     terminated and malformed values, order, placement), model-built and OpenSSL-built.
//  3. Wrong passwords (that the model confirms to be wrong) => exactly ErrIncorrectPassword.
//  4. Malformed files with a VALID MAC (bad padding of every kind, ciphertext length, MAC over
//     the wrong octets, ...) => error.
//  5. Fault enumeration: every single-byte substitution {0x00, 0xFF, b^1} at every offset and
//     every truncation of two PFX files => error or the identical result, never a panic.
package main

import (
	"bytes"
	"context"
	"crypto/ecdsa"
	"crypto/rsa"
	"crypto/sha1"
	"crypto/x509"
	"embed"
	"encoding/asn1"
	"encoding/hex"
	"encoding/pem"
	"fmt"
	"os"
	"os/exec"
	"path/filepath"
	"reflect"
	"sort"
	"strings"
	"time"

	"golang.org/x/crypto/pkcs12"
	"verif/ref/p12ref"
	"verif/vf"
)

//go:embed testdata/*.pem testdata/*.p12
var fixtures embed.FS

func main() { vf.Main("C21", vf.Exploration, run) }

type keyMat struct {
	name    string
	pkcs8   []byte
	certDER []byte
	key     any // *rsa.PrivateKey | *ecdsa.PrivateKey (parsed by crypto/x509 from the PKCS#8 file)
	pemKey  []byte
	pemCert []byte
}

type pwClass struct {
	name string
	pw   string
}

var passwords = []pwClass{
	{"empty", ""},
	{"a", "a"},
	{"ascii40", "0123456789abcdefghijABCDEFGHIJ!#%&()*+,-"},
	{"latin1", "é"},
	{"cjk", "密한"},
	{"surrogate", "\U0001D11E"},
}

// further password shapes for the model grid: BMP encodings of exactly 64 and 66 octets (the
// KDF's v = 64 block boundary), mixed scripts
var modelPasswords = append(append([]pwClass{}, passwords...),
	pwClass{"ascii31", "0123456789abcdefghijABCDEFGHIJ!"},
	pwClass{"ascii32", "0123456789abcdefghijABCDEFGHIJ!#"},
	pwClass{"mixed", "päss 密 ÿĀ한\uE000\uFFEE"},
)

func mustRead(name string) []byte {
	b, err := fixtures.ReadFile("testdata/" + name)
	if err != nil {
		panic(err)
	}
	return b
}

func pemDER(b []byte) []byte {
	blk, _ := pem.Decode(b)
	if blk == nil {
		panic("fixture is not PEM")
	}
	return blk.Bytes
}

func loadKeys() []keyMat {
	var out []keyMat
	for _, n := range []string{"rsa1024", "rsa2048", "p256"} {
		k := keyMat{name: n, pemKey: mustRead("key-" + n + ".pem"), pemCert: mustRead("cert-" + n + ".pem")}
		k.pkcs8, k.certDER = pemDER(k.pemKey), pemDER(k.pemCert)
		key, err := x509.ParsePKCS8PrivateKey(k.pkcs8)
		if err != nil {
			panic(err)
		}
		k.key = key
		out = append(out, k)
	}
	return out
}

// expectation for one PFX
type expect struct {
	km        *keyMat
	name      string   // friendlyName ("" = attribute absent)
	keyID     []byte   // localKeyID (nil = absent)
	keyFirst  bool     // order of the bags in the file
	moreCerts [][]byte // further certificate bags (ToPEM only; Decode refuses them)
}

type tcase struct {
	label  string // human readable
	source string // "openssl", "openssl-live", "model"
	pwc    pwClass
	pfx    []byte
	exp    expect
	derive bool // expected ToPEM headers come from the reference decoder (bag-attribute shapes)
}

func sameKey(got any, want any) bool {
	switch w := want.(type) {
	case *rsa.PrivateKey:
		g, ok := got.(*rsa.PrivateKey)
		return ok && g.Equal(w)
	case *ecdsa.PrivateKey:
		g, ok := got.(*ecdsa.PrivateKey)
		return ok && g.Equal(w)
	}
	return false
}

// pkcs8Inner returns the privateKey OCTET STRING content of a PrivateKeyInfo.
func pkcs8Inner(der []byte) []byte {
	var p struct {
		Version int
		Algo    asn1.RawValue
		Key     []byte
	}
	if _, err := asn1.Unmarshal(der, &p); err != nil {
		panic(err)
	}
	return p.Key
}

// checkBlocks compares ToPEM output with the expectation; it returns a failure description or "".
//
// accept, when non-nil, lists for every block (file order) the header maps that are acceptable
// (reference-derived); skipHeaders leaves the headers unchecked (malformed attribute values).
func checkBlocks(blocks []*pem.Block, e expect, accept [][]map[string]string, skipHeaders bool) string {
	type want struct {
		isKey bool
		der   []byte
		attrs bool
	}
	var ws []want
	certs := []want{{false, e.km.certDER, true}}
	for _, m := range e.moreCerts {
		certs = append(certs, want{false, m, false})
	}
	if e.keyFirst {
		ws = append([]want{{true, nil, true}}, certs...)
	} else {
		ws = append(certs, want{true, nil, true})
	}
	if len(blocks) != len(ws) {
		return fmt.Sprintf("ToPEM returns %d blocks, want %d", len(blocks), len(ws))
	}
	for i, w := range ws {
		b := blocks[i]
		if b == nil {
			return "ToPEM returns a nil block"
		}
		if w.isKey {
			if b.Type != "PRIVATE KEY" {
				return "ToPEM block order/type wrong (want PRIVATE KEY at " + fmt.Sprint(i) + ", got " + b.Type + ")"
			}
			switch k := e.km.key.(type) {
			case *rsa.PrivateKey:
				g, err := x509.ParsePKCS1PrivateKey(b.Bytes)
				if err != nil || !g.Equal(k) {
					return "ToPEM key block is not the RSA key (PKCS #1)"
				}
				if !bytes.Equal(b.Bytes, pkcs8Inner(e.km.pkcs8)) {
					return "ToPEM RSA key block differs from the RSAPrivateKey in the PKCS #8 input"
				}
			case *ecdsa.PrivateKey:
				g, err := x509.ParseECPrivateKey(b.Bytes)
				if err != nil || !g.Equal(k) {
					return "ToPEM key block is not the EC key (SEC 1)"
				}
			}
		} else {
			if b.Type != "CERTIFICATE" {
				return "ToPEM block order/type wrong (want CERTIFICATE at " + fmt.Sprint(i) + ", got " + b.Type + ")"
			}
			if !bytes.Equal(b.Bytes, w.der) {
				return "ToPEM certificate block differs from the certificate"
			}
		}
		if skipHeaders {
			continue
		}
		if accept != nil {
			gotH := b.Headers
			if gotH == nil {
				gotH = map[string]string{}
			}
			ok := false
			for _, a := range accept[i] {
				ok = ok || reflect.DeepEqual(gotH, a)
			}
			if !ok {
				for _, k := range []string{"friendlyName", "localKeyId", "Microsoft CSP Name"} {
					gv, gp := gotH[k]
					wv, wp := accept[i][0][k]
					if gp != wp {
						return "ToPEM " + k + " header missing or unexpected"
					}
					if gv != wv && (len(accept[i]) < 2 || gv != accept[i][1][k]) {
						return "ToPEM " + k + " header has a wrong value"
					}
				}
				return "ToPEM returns unexpected headers"
			}
			continue
		}
		wantH := map[string]string{}
		if w.attrs {
			if e.name != "" {
				wantH["friendlyName"] = e.name
			}
			if e.keyID != nil {
				wantH["localKeyId"] = hex.EncodeToString(e.keyID)
			}
		}
		gotH := b.Headers
		if gotH == nil {
			gotH = map[string]string{}
		}
		if !reflect.DeepEqual(gotH, wantH) {
			for _, k := range []string{"friendlyName", "localKeyId"} {
				if gotH[k] != wantH[k] {
					return "ToPEM " + k + " header wrong or missing"
				}
			}
			return "ToPEM returns unexpected headers"
		}
	}
	return ""
}

// checkValid: a well-formed PFX and its password.
func checkValid(c *vf.Ctx, t tcase) {
	tag := fmt.Sprintf(" [%s, password %s]", t.source, t.pwc.name)
	detail := func(extra any) map[string]any {
		return map[string]any{"case": t.label, "password": t.pwc.pw, "pfx_hex": hex.EncodeToString(t.pfx), "info": extra}
	}
	nonBMP := t.pwc.name == "surrogate"
	var accept [][]map[string]string
	malformedAttr := false
	if t.derive {
		ref, rerr := p12ref.Parse(t.pfx, p12ref.BMPPassword(t.pwc.pw))
		if rerr != nil || len(ref.Bags) != 2 {
			c.Outcome("attribute file not understood by the reference decoder (skipped)")
			return
		}
		for _, b := range ref.Bags {
			plain, ok := b.Headers(false)
			stripped, _ := b.Headers(true) // one trailing U+0000 may be taken as a terminator
			malformedAttr = malformedAttr || !ok
			accept = append(accept, []map[string]string{plain, stripped})
		}
		t.exp.keyFirst = ref.Bags[0].IsKey
	}
	var key any
	var cert *x509.Certificate
	var err error
	// hardening A: the package sees a private copy of the file inside a sentinel frame (spare capacity
	// behind the slice or cap == len, alternating); it must leave it intact, and the caller wipes it
	// as soon as the call has returned - before looking at the results.
	fpfx, gpfx := guard(t.pfx, len(t.pfx)%2 == 0)
	if p, v, st := vf.Protect(func() { key, cert, err = pkcs12.Decode(gpfx, t.pwc.pw) }); p {
		c.Violation("Decode panics on a valid PFX"+tag, detail(map[string]any{"panic": fmt.Sprint(v), "stack": st}))
		return
	}
	c.Eval(1)
	if !intact(fpfx, t.pfx) {
		c.Violation("Decode writes to the caller's PFX buffer or its spare capacity"+tag, detail(nil))
	}
	wipe(fpfx)
	switch {
	case len(t.exp.moreCerts) > 0:
		// documented: Decode assumes one certificate and one key; the result is only tallied
		c.Outcome(fmt.Sprintf("Decode on a 3-bag file: err=%v", err != nil))
	case err != nil && nonBMP:
		// the property covers BMP characters; a non-BMP password may be refused, never mis-decoded
		c.Outcome("Decode refuses the non-BMP password")
	case err != nil && malformedAttr:
		c.Outcome("Decode refuses a malformed attribute value")
	case err != nil:
		kind := "Decode fails on a valid PFX"
		if err == pkcs12.ErrIncorrectPassword {
			kind = "Decode reports ErrIncorrectPassword for the correct password"
		}
		c.Violation(kind+tag, detail(err.Error()))
	default:
		if !sameKey(key, t.exp.km.key) {
			c.Violation("Decode returns a different private key"+tag, detail(nil))
		}
		if cert == nil || !bytes.Equal(cert.Raw, t.exp.km.certDER) {
			c.Violation("Decode returns a different certificate"+tag, detail(nil))
		}
		c.Outcome("Decode ok " + t.source)
	}
	var blocks []*pem.Block
	fpfx, gpfx = guard(t.pfx, len(t.pfx)%2 == 1)
	if p, v, st := vf.Protect(func() { blocks, err = pkcs12.ToPEM(gpfx, t.pwc.pw) }); p {
		c.Violation("ToPEM panics on a valid PFX"+tag, detail(map[string]any{"panic": fmt.Sprint(v), "stack": st}))
		return
	}
	c.Eval(1)
	if !intact(fpfx, t.pfx) {
		c.Violation("ToPEM writes to the caller's PFX buffer or its spare capacity"+tag, detail(nil))
	}
	wipe(fpfx)
	switch {
	case err != nil && nonBMP:
		c.Outcome("ToPEM refuses the non-BMP password")
	case err != nil && malformedAttr:
		c.Outcome("ToPEM refuses a malformed attribute value")
	case err != nil:
		kind := "ToPEM fails on a valid PFX"
		if err == pkcs12.ErrIncorrectPassword {
			kind = "ToPEM reports ErrIncorrectPassword for the correct password"
		}
		c.Violation(kind+tag, detail(err.Error()))
	default:
		if why := checkBlocks(blocks, t.exp, accept, malformedAttr); why != "" {
			c.Violation(why+tag, detail(nil))
		}
		if malformedAttr {
			c.Outcome("ToPEM tolerates a malformed attribute value")
		} else {
			c.Outcome("ToPEM ok " + t.source)
		}
	}
	if c.WantSample() && t.source == "model" && t.pwc.name == "cjk" {
		c.Sample(map[string]any{"case": t.label, "password": t.pwc.pw, "pfx_len": len(t.pfx), "pfx_head_hex": hex.EncodeToString(t.pfx[:32])})
	}
}

// wrongPasswords returns candidates near pw; only those the model's MAC check refuses are used.
func wrongPasswords(pw string) []string {
	out := []string{pw + "x", pw + " ", "A" + pw, strings.ToUpper(pw) + "é"}
	if r := []rune(pw); len(r) > 0 {
		out = append(out, string(r[:len(r)-1]), string(r[1:]), "")
		if len(r) > 1 {
			sw := append([]rune{}, r...)
			sw[0], sw[1] = sw[1], sw[0]
			out = append(out, string(sw))
		}
	} else {
		out = append(out, "a", "0", "密")
	}
	return out
}

func checkWrong(c *vf.Ctx, t tcase) {
	tag := fmt.Sprintf(" [%s, password %s]", t.source, t.pwc.name)
	for _, w := range wrongPasswords(t.pwc.pw) {
		if w == t.pwc.pw {
			continue
		}
		// the model decides whether w is really a different password for this file
		if _, merr := p12ref.Parse(t.pfx, p12ref.BMPPassword(w)); merr != p12ref.ErrMAC {
			c.Outcome("wrong-password candidate not refused by the model (skipped)")
			continue
		}
		if w == "" {
			// "" is additionally tried as the empty octet string by implementations
			if _, merr := p12ref.Parse(t.pfx, nil); merr != p12ref.ErrMAC {
				continue
			}
		}
		var err1, err2 error
		var key any
		var blocks []*pem.Block
		if p, v, st := vf.Protect(func() {
			key, _, err1 = pkcs12.Decode(t.pfx, w)
			blocks, err2 = pkcs12.ToPEM(t.pfx, w)
		}); p {
			c.Violation("panic with a wrong password"+tag, map[string]any{"case": t.label, "wrong": w, "panic": fmt.Sprint(v), "stack": st})
			continue
		}
		c.Eval(2)
		if hasNonBMP(w) {
			// such a password may be refused before the MAC is looked at: any error will do
			if err1 == nil || err2 == nil {
				c.Violation("wrong non-BMP password accepted"+tag, map[string]any{"case": t.label, "wrong": w})
			}
			c.Outcome("wrong non-BMP password => error")
			continue
		}
		if err1 != pkcs12.ErrIncorrectPassword {
			kind := "Decode with a wrong password returns another error than ErrIncorrectPassword"
			if err1 == nil {
				kind = "Decode accepts a wrong password"
			}
			c.Violation(kind+tag, map[string]any{"case": t.label, "password": t.pwc.pw, "wrong": w, "err": fmt.Sprint(err1), "key": key != nil, "pfx_hex": hex.EncodeToString(t.pfx)})
		}
		if err2 != pkcs12.ErrIncorrectPassword {
			kind := "ToPEM with a wrong password returns another error than ErrIncorrectPassword"
			if err2 == nil {
				kind = "ToPEM accepts a wrong password"
			}
			c.Violation(kind+tag, map[string]any{"case": t.label, "password": t.pwc.pw, "wrong": w, "err": fmt.Sprint(err2), "blocks": len(blocks), "pfx_hex": hex.EncodeToString(t.pfx)})
		}
		c.Outcome("wrong password => ErrIncorrectPassword")
	}
}

func hasNonBMP(s string) bool {
	for _, r := range s {
		if r >= 0x10000 {
			return true
		}
	}
	return false
}

func keyByName(keys []keyMat, n string) *keyMat {
	for i := range keys {
		if keys[i].name == n {
			return &keys[i]
		}
	}
	panic("no key " + n)
}

func sha1Of(b []byte) []byte { s := sha1.Sum(b); return s[:] }

// ---------------------------------------------------------------------------

func run(c *vf.Ctx) {
	c.Rule("(1) every embedded OpenSSL fixture: password{empty,a,ascii40,latin1,cjk,non-BMP} x key{rsa1024,rsa2048,p256} x {RC2-40+3DES, 3DES+3DES} + iteration/cipher variants; " +
		"(2) model-encoded PFX grid: password{9 shapes incl. BMP length 64/66} x iterations{1,2,2048 (thorough +3,1000,4096)} x key{3} x cipher pair{RC2/3DES,3DES/3DES,RC2/RC2} x salt-length class{8,1,20,64,65 rotating; thorough all} " +
		"x empty-password encodings{00 00, empty string} + layout variants{key first, cert unencrypted, attribute order, no attributes, non-ASCII name, extra certificate, mac/pbe iterations differ}; " +
		"(2b) bag-attribute shapes, full product: friendlyName{absent,empty,a,latin1,>=U+8000,64 chars,terminated,terminator only,double terminator,odd length,one octet,no value,two values} x localKeyId{absent,empty,1,20 octets} x CSP name{absent,empty,text} x unknown attribute{absent,present} x order{normal,reversed} x placed on{key bag,cert bag,both}, " +
		"plus OpenSSL-written files with -name \"\" / -CSP \"\" (embedded and live): Decode exact, ToPEM headers as derived by the reference decoder, error allowed only for malformed values; " +
		"(3) wrong passwords confirmed wrong by the model for every case; (4) malformed-with-valid-MAC set; " +
		"(5) faults: every offset x {0x00,0xFF,b^1} and every truncation of 2 files (thorough: 3 files, two of them with all 255 values); " +
		"hardening: (A) every Decode / ToPEM call on a valid file gets a private copy of the file in a sentinel frame (spare capacity or cap == len) that must be intact afterwards and is wiped before the returned key, certificate and PEM blocks are compared; " +
		"(C/E) model files with password length{30,31,32,33,62,63,64,95,127,128,255,256,1023,4095,65535} characters (BMP encodings around multiples of the 64-octet KDF block), salt length{0,7,63,127,128,129,255,256,1000,65536} x password{cjk,empty}, iterations{65535,65536,65537 (thorough + 2^20-1, 2^20 = the package limit)}, " +
		"and salts searched so that KDF step 6.C (I_j+B+1) gives a sum with 1 and with 2 leading zero octets, and an overflow whose remainder starts with a zero octet x password{a,cjk,empty} x iterations{1,2}; " +
		"(D) every history of 3 Decode+ToPEM calls over {3 valid files, empty password as empty string (retry path), empty password as 00 00, wrong password, bad padding with valid MAC}; " +
		"non-trivial = distinct (source,password class,iterations,key,ciphers,salt class,layout) decoded to the exact key+certificate, and distinct (file,offset) whose fault is detected; " +
		"oracle = fixed key/certificate fixtures + verif/ref/p12ref (validated against OpenSSL's PKCS12_key_gen_uni KATs, the classic smeg/queeg vectors, and openssl reading its output)")
	c.Assume("crypto/x509 parses the PKCS#8 / certificate fixtures correctly (expected values); crypto/des, crypto/sha1, crypto/hmac are correct; RC2 per verif/ref/rc2ref")
	c.Assume("passwords outside the BMP may be refused (property speaks of BMP characters): error or exact result; a NUL-equivalent wrong password (same KDF input) is not counted as wrong: the model decides")

	keys := loadKeys()
	var cases []tcase

	// (1) embedded OpenSSL fixtures
	entries, _ := fixtures.ReadDir("testdata")
	for _, e := range entries {
		n := e.Name()
		if !strings.HasPrefix(n, "ossl-") {
			continue
		}
		parts := strings.Split(strings.TrimSuffix(n, ".p12"), "-") // ossl key variant pwidx
		km := keyByName(keys, parts[1])
		var idx int
		fmt.Sscan(parts[3], &idx)
		ex := expect{km: km, name: "verif-" + km.name, keyID: sha1Of(km.certDER)}
		if parts[2] == "C" {
			ex.name = "" // generated without -name; OpenSSL still writes localKeyID
		}
		cases = append(cases, tcase{label: n, source: "openssl", pwc: passwords[idx], pfx: mustRead(n), exp: ex})
	}
	for _, e := range entries {
		n := e.Name()
		if !strings.HasPrefix(n, "attr-") {
			continue
		}
		km := keyByName(keys, strings.Split(n, "-")[1])
		cases = append(cases, tcase{label: n, source: "openssl-attr", pwc: passwords[1], pfx: mustRead(n), exp: expect{km: km}, derive: true})
	}
	nFix := len(cases)
	c.Set("openssl_fixtures", nFix)

	// (2) model grid
	type layout struct {
		name string
		mod  func(o *p12ref.Options, e *expect)
	}
	iters := []int{1, 2, 2048}
	saltLens := []int{8, 1, 20, 64, 65}
	if c.Thorough {
		iters = []int{1, 2, 3, 1000, 2048, 4096}
	}
	pairs := []struct {
		name      string
		cert, key p12ref.PBE
	}{{"rc2+3des", p12ref.PBERC240, p12ref.PBE3DES}, {"3des+3des", p12ref.PBE3DES, p12ref.PBE3DES}, {"rc2+rc2", p12ref.PBERC240, p12ref.PBERC240}}
	n := 0
	addModel := func(label string, pwc pwClass, km *keyMat, o p12ref.Options, ex expect) {
		o.KeyPKCS8, o.CertDER = km.pkcs8, km.certDER
		ex.km = km
		cases = append(cases, tcase{label: label, source: "model", pwc: pwc, pfx: p12ref.Build(o), exp: ex})
	}
	for _, pwc := range modelPasswords {
		for _, it := range iters {
			for ki := range keys {
				for _, pr := range pairs {
					sls := []int{saltLens[n%len(saltLens)]}
					if c.Thorough {
						sls = saltLens
					}
					for _, sl := range sls {
						n++
						km := &keys[ki]
						o := p12ref.Options{Password: pwc.pw, CertPBE: pr.cert, KeyPBE: pr.key, Iter: it, MacIter: it,
							CertSalt: c.Bytes("certsalt", n, sl), KeySalt: c.Bytes("keysalt", n, sl), MacSalt: c.Bytes("macsalt", n, sl),
							FriendlyName: "model " + km.name, LocalKeyID: sha1Of(km.certDER)}
						ex := expect{name: o.FriendlyName, keyID: o.LocalKeyID}
						label := fmt.Sprintf("model pw=%s iter=%d key=%s pbe=%s salt=%d", pwc.name, it, km.name, pr.name, sl)
						addModel(label, pwc, km, o, ex)
						if pwc.pw == "" {
							// "no password" written as the empty octet string instead of 00 00
							o.UseRawPassword = true
							addModel(label+" empty-string-password", pwc, km, o, ex)
						}
					}
				}
			}
		}
	}
	// layout variants
	layouts := []layout{
		{"key-first", func(o *p12ref.Options, e *expect) { o.KeyFirst = true; e.keyFirst = true }},
		{"cert-unencrypted", func(o *p12ref.Options, e *expect) { o.CertInData = true }},
		{"keyid-before-name", func(o *p12ref.Options, e *expect) { o.LocalKeyIDLead = true }},
		{"no-attributes", func(o *p12ref.Options, e *expect) {
			o.FriendlyName, o.LocalKeyID = "", nil
			e.name, e.keyID = "", nil
		}},
		{"name-only", func(o *p12ref.Options, e *expect) { o.LocalKeyID = nil; e.keyID = nil }},
		{"non-ascii-name", func(o *p12ref.Options, e *expect) {
			o.FriendlyName = "名é z한\uE000"
			e.name = o.FriendlyName
		}},
		{"one-octet-keyid", func(o *p12ref.Options, e *expect) { o.LocalKeyID = []byte{0}; e.keyID = []byte{0} }},
		{"mac-iter-1", func(o *p12ref.Options, e *expect) { o.MacIter = 1; o.Iter = 2048 }},
		{"pbe-iter-1", func(o *p12ref.Options, e *expect) { o.MacIter = 2048; o.Iter = 1 }},
		{"iter-255-256", func(o *p12ref.Options, e *expect) { o.MacIter = 255; o.Iter = 256 }},
		{"iter-128-32768", func(o *p12ref.Options, e *expect) { o.MacIter = 128; o.Iter = 32768 }},
		{"extra-certificate", nil},
	}
	for li, ly := range layouts {
		for _, pwc := range []pwClass{passwords[0], passwords[1], passwords[4]} {
			for ki := range keys {
				if ki == 1 && !c.Thorough {
					continue
				}
				km := &keys[ki]
				pr := pairs[(li+ki)%len(pairs)]
				o := p12ref.Options{Password: pwc.pw, CertPBE: pr.cert, KeyPBE: pr.key, Iter: 2, MacIter: 2,
					CertSalt: c.Bytes("lcs", li, 8), KeySalt: c.Bytes("lks", li, 8), MacSalt: c.Bytes("lms", li, 8),
					FriendlyName: "n", LocalKeyID: []byte{1, 2, 3, 4}}
				ex := expect{name: "n", keyID: o.LocalKeyID}
				if ly.mod != nil {
					ly.mod(&o, &ex)
				} else {
					other := keys[(ki+1)%len(keys)].certDER
					o.MoreCert = [][]byte{other}
					ex.moreCerts = [][]byte{other}
				}
				addModel(fmt.Sprintf("model layout=%s pw=%s key=%s pbe=%s", ly.name, pwc.name, km.name, pr.name), pwc, km, o, ex)
			}
		}
	}
	c.Set("model_files", len(cases)-nFix)
	nModel := len(cases)
	cases = append(cases, attrCases(c, keys)...)
	c.Set("model_attribute_files", len(cases)-nModel)

	nBefore := len(cases)
	cases = append(cases, hardeningCases(c, keys)...)
	c.Set("hardening_files", len(cases)-nBefore)

	c.ParallelFor(len(cases), func(i int) {
		t := cases[i]
		checkValid(c, t)
		if !t.derive {
			checkWrong(c, t)
		}
		c.Nontrivial("valid/" + t.label)
	})

	malformed(c, keys)
	callHistories(c, keys)
	faults(c, keys, cases)
	liveOpenSSL(c, keys)
}

// attrCases: model-built files over the product of bag-attribute shapes. Expected ToPEM
// headers are derived from the file by the reference decoder (p12ref.Bag.Headers); Decode must
// not care about attributes at all.
func attrCases(c *vf.Ctx, keys []keyMat) []tcase {
	type shape struct {
		name string
		attr *p12ref.Attr // nil = attribute absent
	}
	bmp := func(oid []int, units []byte) *p12ref.Attr {
		return &p12ref.Attr{OID: oid, Values: [][]byte{p12ref.BMPValue(units)}}
	}
	u := p12ref.UTF16BE
	long := strings.Repeat("0123456789abcdef", 4) // 64 characters
	names := []shape{
		{"absent", nil},
		{"empty", bmp(p12ref.OIDFriendlyName, nil)},
		{"a", bmp(p12ref.OIDFriendlyName, u("a"))},
		{"latin1", bmp(p12ref.OIDFriendlyName, u("é"))},
		{"high", bmp(p12ref.OIDFriendlyName, u("한"))},
		{"64chars", bmp(p12ref.OIDFriendlyName, u(long))},
		{"terminated", bmp(p12ref.OIDFriendlyName, append(u("ab"), 0, 0))},
		{"terminator-only", bmp(p12ref.OIDFriendlyName, []byte{0, 0})},
		{"double-terminator", bmp(p12ref.OIDFriendlyName, append(u("ab"), 0, 0, 0, 0))},
		{"odd-length(malformed)", bmp(p12ref.OIDFriendlyName, []byte{0, 0x61, 0})},
		{"one-octet(malformed)", bmp(p12ref.OIDFriendlyName, []byte{0x61})},
		{"no-value(malformed)", &p12ref.Attr{OID: p12ref.OIDFriendlyName}},
		{"two-values(malformed)", &p12ref.Attr{OID: p12ref.OIDFriendlyName, Values: [][]byte{p12ref.BMPValue(u("a")), p12ref.BMPValue(u("b"))}}},
	}
	ids := []shape{
		{"absent", nil},
		{"empty", &p12ref.Attr{OID: p12ref.OIDLocalKeyID, Values: [][]byte{p12ref.OctetsValue(nil)}}},
		{"1", &p12ref.Attr{OID: p12ref.OIDLocalKeyID, Values: [][]byte{p12ref.OctetsValue([]byte{0x0A})}}},
		{"20", &p12ref.Attr{OID: p12ref.OIDLocalKeyID, Values: [][]byte{p12ref.OctetsValue(c.Bytes("attr-id", 0, 20))}}},
	}
	csps := []shape{
		{"absent", nil},
		{"empty", bmp(p12ref.OIDMSCSPName, nil)},
		{"text", bmp(p12ref.OIDMSCSPName, u("Microsoft Enhanced Cryptographic Provider v1.0"))},
	}
	unknowns := []shape{
		{"absent", nil},
		// Oracle/Java trustedKeyUsage-style attribute: an OID value
		{"present", &p12ref.Attr{OID: []int{2, 16, 840, 1, 113894, 746875, 1, 1}, Values: [][]byte{{0x06, 0x04, 0x55, 0x1D, 0x25, 0x00}}}},
	}
	pairs := []struct{ cert, key p12ref.PBE }{{p12ref.PBERC240, p12ref.PBE3DES}, {p12ref.PBE3DES, p12ref.PBE3DES}, {p12ref.PBERC240, p12ref.PBERC240}}
	var out []tcase
	n := 0
	for _, fn := range names {
		for _, id := range ids {
			for _, csp := range csps {
				for _, un := range unknowns {
					for _, reversed := range []bool{false, true} {
						var list []p12ref.Attr
						for _, sh := range []shape{fn, id, csp, un} {
							if sh.attr != nil {
								list = append(list, *sh.attr)
							}
						}
						if reversed {
							if len(list) < 2 {
								continue // same file as the unreversed one
							}
							for i, j := 0, len(list)-1; i < j; i, j = i+1, j-1 {
								list[i], list[j] = list[j], list[i]
							}
						}
						for _, place := range []string{"key", "cert", "both"} {
							if list == nil && place != "both" {
								continue
							}
							n++
							km := &keys[2] // p256
							if n%5 == 0 {
								km = &keys[0] // rsa1024
							}
							pr := pairs[n%3]
							pwc := passwords[1]
							if n%7 == 0 {
								pwc = passwords[0]
							}
							o := p12ref.Options{Password: pwc.pw, CertPBE: pr.cert, KeyPBE: pr.key, Iter: 1, MacIter: 1,
								CertSalt: c.Bytes("acs", n, 8), KeySalt: c.Bytes("aks", n, 8), MacSalt: c.Bytes("ams", n, 8),
								KeyPKCS8: km.pkcs8, CertDER: km.certDER, UseAttrLists: true}
							if place != "cert" {
								o.KeyAttrs = list
							}
							if place != "key" {
								o.CertAttrs = list
							}
							label := fmt.Sprintf("model attrs on=%s name=%s keyid=%s csp=%s unknown=%s reversed=%v key=%s", place, fn.name, id.name, csp.name, un.name, reversed, km.name)
							out = append(out, tcase{label: label, source: "model-attr", pwc: pwc, pfx: p12ref.Build(o), exp: expect{km: km}, derive: true})
						}
					}
				}
			}
		}
	}
	return out
}

// ---------------------------------------------------------------------------
// (4) malformed files whose MAC is valid
// ---------------------------------------------------------------------------

func mustFail(c *vf.Ctx, class string, pfx []byte, pw string, wantIncorrectPassword bool) {
	var err1, err2 error
	if p, v, st := vf.Protect(func() {
		_, _, err1 = pkcs12.Decode(pfx, pw)
		_, err2 = pkcs12.ToPEM(pfx, pw)
	}); p {
		c.Violation("panic on a malformed PFX: "+class, map[string]any{"pfx_hex": hex.EncodeToString(pfx), "password": pw, "panic": fmt.Sprint(v), "stack": st})
		return
	}
	c.Eval(2)
	if err1 == nil {
		c.Violation("Decode accepts a malformed PFX: "+class, map[string]any{"pfx_hex": hex.EncodeToString(pfx), "password": pw})
	}
	if err2 == nil {
		c.Violation("ToPEM accepts a malformed PFX: "+class, map[string]any{"pfx_hex": hex.EncodeToString(pfx), "password": pw})
	}
	if wantIncorrectPassword && (err1 != pkcs12.ErrIncorrectPassword || err2 != pkcs12.ErrIncorrectPassword) && err1 != nil && err2 != nil {
		c.Violation("MAC failure not reported as ErrIncorrectPassword: "+class, map[string]any{"decode": err1.Error(), "topem": err2.Error()})
	}
	if err1 != nil && err2 != nil {
		c.Outcome("malformed refused: " + strings.SplitN(class, " (pbe", 2)[0])
		c.Nontrivial("malformed/" + class)
	}
}

func malformed(c *vf.Ctx, keys []keyMat) {
	for ki := range keys {
		km := &keys[ki]
		for _, pbe := range []p12ref.PBE{p12ref.PBE3DES, p12ref.PBERC240} {
			for _, pw := range []string{"", "pwé"} {
				base := func() p12ref.Options {
					return p12ref.Options{Password: pw, CertPBE: pbe, KeyPBE: pbe, Iter: 2, MacIter: 2,
						CertSalt: c.Bytes("mcs", ki, 8), KeySalt: c.Bytes("mks", ki, 8), MacSalt: c.Bytes("mms", ki, 8),
						FriendlyName: "n", LocalKeyID: []byte{1, 2, 3, 4}, KeyPKCS8: km.pkcs8, CertDER: km.certDER}
				}
				sfx := fmt.Sprintf(" (pbe %d)", pbe)
				// sanity: the unmodified file decodes (otherwise the malformed cases prove nothing)
				if _, _, err := pkcs12.Decode(p12ref.Build(base()), pw); err != nil {
					c.Violation("Decode fails on a valid PFX [model, malformed-base]", err.Error())
					continue
				}

				// padding longer than the block: 9..16 octets of value p with (len+p)%8 == 0
				long := func(plain []byte) []byte {
					p := 16 - len(plain)%8
					return append(append([]byte{}, plain...), bytes.Repeat([]byte{byte(p)}, p)...)
				}
				o := base()
				o.CertPad = long
				mustFail(c, "certificate ciphertext padded with 9..16 octets"+sfx, p12ref.Build(o), pw, false)
				o = base()
				o.KeyPad = long
				mustFail(c, "key ciphertext padded with 9..16 octets"+sfx, p12ref.Build(o), pw, false)

				// inconsistent padding: the last octet says p >= 2, an earlier pad octet differs
				incons := func(which int) func(plain []byte) []byte {
					return func(plain []byte) []byte {
						out := p12ref.Pad(plain)
						p := int(out[len(out)-1]) // >= 2 by the choice of the plaintext length below
						pos := len(out) - p       // variant 0: the first pad octet
						if which == 1 {
							pos = len(out) - 2 // variant 1: the last but one
						}
						out[pos] ^= 0x01
						return out
					}
				}
				for which := 0; which < 2; which++ {
					for _, bag := range []string{"certificate", "key"} {
						o = base()
						// choose a friendly name length that leaves a pad of >= 2 octets
						ok := false
						for extra := 0; extra < 8 && !ok; extra++ {
							o.FriendlyName = "n" + strings.Repeat("x", extra)
							plain := km.pkcs8
							if bag == "certificate" {
								plain = o.CertSafeContents()
							}
							ok = len(plain)%8 <= 6
							if bag == "key" {
								break
							}
						}
						if !ok {
							c.Outcome("inconsistent-padding case not constructible for " + km.name + "/" + bag)
							continue
						}
						if bag == "certificate" {
							o.CertPad = incons(which)
						} else {
							o.KeyPad = incons(which)
						}
						mustFail(c, fmt.Sprintf("%s padding octets inconsistent (variant %d)%s", bag, which, sfx), p12ref.Build(o), pw, false)
					}
				}

				// no padding at all: block-aligned certificate SafeContents that ends in 0x00 (a
				// pad length of zero must not be taken for "no padding")
				func() {
					for idLen := 4; idLen <= 5; idLen++ {
						for extra := 0; extra < 8; extra++ {
							o := base()
							o.FriendlyName = "n" + strings.Repeat("x", extra)
							o.LocalKeyID = make([]byte, idLen) // ends in 0x00
							o.LocalKeyID[0] = 7
							plain := o.CertSafeContents()
							if len(plain)%8 == 0 && plain[len(plain)-1] == 0 {
								o.CertPad = func(p []byte) []byte { return p }
								mustFail(c, "certificate ciphertext without padding, plaintext ends in 0x00"+sfx, p12ref.Build(o), pw, false)
								return
							}
						}
					}
					c.Outcome("zero-pad case not constructible for " + km.name)
				}()

				// ciphertext length
				o = base()
				o.CertCTTail = []byte{0x5A}
				mustFail(c, "certificate ciphertext length not a multiple of 8"+sfx, p12ref.Build(o), pw, false)
				o = base()
				o.CertPad = func(p []byte) []byte { return nil }
				mustFail(c, "certificate ciphertext empty"+sfx, p12ref.Build(o), pw, false)
				o = base()
				o.KeyPad = func(p []byte) []byte { return nil }
				mustFail(c, "key ciphertext empty"+sfx, p12ref.Build(o), pw, false)

				// MAC over other octets than the contents of the OCTET STRING
				for scope := 1; scope <= 2; scope++ {
					o = base()
					o.MacScope = scope
					mustFail(c, fmt.Sprintf("MAC computed over the wrong octets (scope %d)%s", scope, sfx), p12ref.Build(o), pw, true)
				}
				o = base()
				o.MacDigestTrunc = 1
				mustFail(c, "MAC value truncated to 19 octets"+sfx, p12ref.Build(o), pw, true)
				// MAC keyed with another password than the encryption
				other := pw + "2"
				o = base()
				o.MacPassword = &other
				pfx := p12ref.Build(o)
				mustFail(c, "MAC password differs from encryption password (opened with the encryption password)"+sfx, pfx, pw, true)
				mustFail(c, "MAC password differs from encryption password (opened with the MAC password)"+sfx, pfx, other, false)
				// PFX version
				o = base()
				o.Version = 2
				mustFail(c, "PFX version 2"+sfx, p12ref.Build(o), pw, false)
			}
		}
	}
}

// ---------------------------------------------------------------------------
// (5) single-byte substitutions and truncations
// ---------------------------------------------------------------------------

type result struct {
	err    bool
	key    any
	cert   []byte
	blocks []*pem.Block
	perr   bool
}

func decodeBoth(pfx []byte, pw string) (r result, panicked bool, pv any, stack string) {
	panicked, pv, stack = vf.Protect(func() {
		k, cert, err := pkcs12.Decode(pfx, pw)
		r.err = err != nil
		if err == nil {
			r.key = k
			if cert != nil {
				r.cert = cert.Raw
			}
		}
		b, err := pkcs12.ToPEM(pfx, pw)
		r.perr = err != nil
		if err == nil {
			r.blocks = b
		}
	})
	return
}

func sameBlocks(a, b []*pem.Block) bool {
	if len(a) != len(b) {
		return false
	}
	for i := range a {
		if a[i].Type != b[i].Type || !bytes.Equal(a[i].Bytes, b[i].Bytes) || !reflect.DeepEqual(a[i].Headers, b[i].Headers) {
			return false
		}
	}
	return true
}

func faults(c *vf.Ctx, keys []keyMat, cases []tcase) {
	type target struct {
		name string
		pfx  []byte
		pw   string
		km   *keyMat
		all  bool // all 255 substitution values
	}
	find := func(label string) tcase {
		for _, t := range cases {
			if t.label == label {
				return t
			}
		}
		panic("no case " + label)
	}
	t1 := find("ossl-rsa1024-A-1.p12")
	var t2 tcase
	for _, t := range cases {
		if t.source == "model" && t.pwc.name == "cjk" && t.exp.km.name == "p256" && strings.Contains(t.label, "iter=1 ") && strings.Contains(t.label, "3des+3des") {
			t2 = t
			break
		}
	}
	targets := []target{{"openssl rsa1024 RC2+3DES iter 2048", t1.pfx, t1.pwc.pw, t1.exp.km, c.Thorough}, {"model p256 3DES+3DES iter 1", t2.pfx, t2.pwc.pw, t2.exp.km, c.Thorough}}
	if c.Thorough {
		t3 := find("ossl-p256-E-4.p12")
		targets = append(targets, target{"openssl p256 RC2+RC2 iter 4096", t3.pfx, t3.pwc.pw, t3.exp.km, false})
	}
	for _, tg := range targets {
		base, p, _, _ := decodeBoth(tg.pfx, tg.pw)
		if p || base.err || base.perr || !sameKey(base.key, tg.km.key) {
			c.Violation("fault-enumeration base file does not decode", tg.name)
			continue
		}
		type job struct {
			off  int
			val  int // -1: truncation to off octets
			kind string
		}
		var jobs []job
		for off := 0; off < len(tg.pfx); off++ {
			jobs = append(jobs, job{off, -1, "truncate"})
			b := tg.pfx[off]
			if tg.all {
				for v := 0; v < 256; v++ {
					if byte(v) != b {
						jobs = append(jobs, job{off, v, "subst"})
					}
				}
				continue
			}
			seen := map[byte]bool{b: true}
			for _, v := range []byte{0x00, 0xFF, b ^ 1} {
				if !seen[v] {
					seen[v] = true
					jobs = append(jobs, job{off, int(v), "subst"})
				}
			}
		}
		c.Set("fault_jobs/"+tg.name, len(jobs))
		c.ParallelFor(len(jobs), func(i int) {
			j := jobs[i]
			var mut []byte
			if j.val < 0 {
				mut = append([]byte{}, tg.pfx[:j.off]...)
			} else {
				mut = append([]byte{}, tg.pfx...)
				mut[j.off] = byte(j.val)
			}
			r, p, pv, st := decodeBoth(mut, tg.pw)
			c.Eval(2)
			where := map[string]any{"file": tg.name, "offset": j.off, "value": j.val, "kind": j.kind, "password": tg.pw, "pfx_hex": hex.EncodeToString(mut)}
			if p {
				c.Violation("panic on a faulted PFX ("+j.kind+")", map[string]any{"at": where, "panic": fmt.Sprint(pv), "stack": st})
				return
			}
			if !r.err {
				if !sameKey(r.key, base.key) || !bytes.Equal(r.cert, base.cert) {
					c.Violation("Decode returns a different result for a faulted PFX ("+j.kind+")", where)
				}
				c.Outcome("fault tolerated with identical Decode result (" + j.kind + ")")
			} else {
				c.Outcome("fault detected by Decode (" + j.kind + ")")
				c.Nontrivial(fmt.Sprintf("fault/%s/%d", tg.name, j.off))
			}
			if !r.perr {
				if !sameBlocks(r.blocks, base.blocks) {
					c.Violation("ToPEM returns a different result for a faulted PFX ("+j.kind+")", where)
				}
			}
			if r.err != r.perr {
				c.Outcome("Decode and ToPEM disagree on a faulted PFX")
			}
		})
	}
}

// ---------------------------------------------------------------------------
// live OpenSSL (extra oracle; silently skipped when the binary or its legacy provider is absent)
// ---------------------------------------------------------------------------

func liveOpenSSL(c *vf.Ctx, keys []keyMat) {
	bin, err := exec.LookPath("openssl")
	if err != nil {
		c.Set("openssl_live", "absent")
		return
	}
	dir, err := os.MkdirTemp("", "c21-")
	if err != nil {
		c.Set("openssl_live", "no temp dir")
		return
	}
	defer os.RemoveAll(dir)
	runCmd := func(args ...string) ([]byte, error) {
		ctx, cancel := context.WithTimeout(context.Background(), 60*time.Second)
		defer cancel()
		return exec.CommandContext(ctx, bin, args...).CombinedOutput()
	}
	type lv struct {
		name string
		args []string
	}
	variants := []lv{
		{"A", []string{"-legacy"}},
		{"B", []string{"-legacy", "-certpbe", "PBE-SHA1-3DES", "-keypbe", "PBE-SHA1-3DES", "-macalg", "sha1"}},
	}
	var made, failed int
	var cases []tcase
	for ki := range keys {
		km := &keys[ki]
		if km.name == "rsa2048" && !c.Thorough {
			continue
		}
		kf, cf := filepath.Join(dir, km.name+".key"), filepath.Join(dir, km.name+".crt")
		os.WriteFile(kf, km.pemKey, 0o600)
		os.WriteFile(cf, km.pemCert, 0o600)
		for pi, pwc := range passwords {
			if !c.Thorough && (pi == 2 || pi == 5) {
				continue
			}
			for _, v := range variants {
				out := filepath.Join(dir, fmt.Sprintf("%s-%s-%d.p12", km.name, v.name, pi))
				args := append([]string{"pkcs12", "-export"}, v.args...)
				args = append(args, "-inkey", kf, "-in", cf, "-name", "live "+km.name, "-passout", "pass:"+pwc.pw, "-out", out)
				if o, err := runCmd(args...); err != nil {
					failed++
					c.Set("openssl_live_last_error", strings.TrimSpace(string(o)))
					continue
				}
				pfx, err := os.ReadFile(out)
				if err != nil {
					failed++
					continue
				}
				made++
				cases = append(cases, tcase{label: "live " + filepath.Base(out), source: "openssl-live", pwc: pwc, pfx: pfx,
					exp: expect{km: km, name: "live " + km.name, keyID: sha1Of(km.certDER)}})
			}
		}
	}
	// bag-attribute shapes written by OpenSSL itself (empty friendlyName / CSP name, ...)
	for ai, extra := range [][]string{{"-name", ""}, {"-name", "n", "-CSP", ""}, {"-CSP", "Microsoft Base Cryptographic Provider v1.0"}, {"-name", "", "-CSP", ""}} {
		km := &keys[(ai*2)%3]
		kf, cf := filepath.Join(dir, km.name+".key"), filepath.Join(dir, km.name+".crt")
		os.WriteFile(kf, km.pemKey, 0o600)
		os.WriteFile(cf, km.pemCert, 0o600)
		out := filepath.Join(dir, fmt.Sprintf("attr-%d.p12", ai))
		args := append([]string{"pkcs12", "-export", "-legacy", "-inkey", kf, "-in", cf, "-passout", "pass:a", "-out", out}, extra...)
		if o, err := runCmd(args...); err != nil {
			failed++
			c.Set("openssl_live_last_error", strings.TrimSpace(string(o)))
			continue
		}
		pfx, err := os.ReadFile(out)
		if err != nil {
			failed++
			continue
		}
		made++
		cases = append(cases, tcase{label: "live attr " + strings.Join(extra, " "), source: "openssl-live-attr", pwc: passwords[1], pfx: pfx, exp: expect{km: km}, derive: true})
	}
	for _, t := range cases {
		// the model must agree that this is a file for this key before the real code is blamed
		f, merr := p12ref.Parse(t.pfx, p12ref.BMPPassword(t.pwc.pw))
		if merr != nil || len(f.Bags) != 2 || !bytes.Equal(f.Bags[0].Data, t.exp.km.certDER) || !bytes.Equal(f.Bags[1].Data, t.exp.km.pkcs8) {
			c.Outcome("live OpenSSL file not understood by the model (skipped)")
			continue
		}
		checkValid(c, t)
		if !t.derive {
			checkWrong(c, t)
		}
		c.Nontrivial("valid/" + t.label)
	}
	// the reverse direction, informational: OpenSSL reads what the model writes
	agree, disagree := 0, 0
	km := keyByName(keys, "p256")
	for i, pwc := range passwords {
		o := p12ref.Options{Password: pwc.pw, Iter: 2048, MacIter: 2048, CertSalt: c.Bytes("xs", i, 8), KeySalt: c.Bytes("xk", i, 8), MacSalt: c.Bytes("xm", i, 8),
			FriendlyName: "x", LocalKeyID: []byte{9}, KeyPKCS8: km.pkcs8, CertDER: km.certDER}
		p := filepath.Join(dir, fmt.Sprintf("model-%d.p12", i))
		os.WriteFile(p, p12ref.Build(o), 0o600)
		out, err := runCmd("pkcs12", "-legacy", "-in", p, "-nodes", "-passin", "pass:"+pwc.pw)
		var ders [][]byte
		for rest := out; err == nil; {
			var blk *pem.Block
			blk, rest = pem.Decode(rest)
			if blk == nil {
				break
			}
			ders = append(ders, blk.Bytes)
		}
		if err == nil && len(ders) == 2 && bytes.Equal(ders[0], km.certDER) && bytes.Equal(ders[1], km.pkcs8) {
			agree++
		} else {
			disagree++
		}
	}
	c.Set("openssl_live", map[string]int{"exported": made, "export_failed": failed, "model_files_read_by_openssl": agree, "model_files_not_read": disagree})
	var names []string
	for _, t := range cases {
		names = append(names, t.label)
	}
	sort.Strings(names)
	c.Set("openssl_live_files", len(names))
}

// ---------------------------------------------------------------- hardening helpers

func guard(b []byte, spare bool) (frame, s []byte) {
	frame = bytes.Repeat([]byte{0xA5}, 8+len(b)+24)
	copy(frame[8:], b)
	if spare {
		return frame, frame[8 : 8+len(b)]
	}
	return frame, frame[8 : 8+len(b) : 8+len(b)]
}

func intact(frame, orig []byte) bool {
	for i, v := range frame {
		if i >= 8 && i < 8+len(orig) {
			if v != orig[i-8] {
				return false
			}
		} else if v != 0xA5 {
			return false
		}
	}
	return true
}

func wipe(frame []byte) {
	for i := range frame {
		frame[i] ^= 0xFF
	}
}

// leadingZeros returns how many leading octets of (blk + B + 1) are zero when the sum does NOT
// overflow 2^(8*len) (the case in which a big-integer implementation gets a short byte string), and
// whether it overflows.
func addInfo(blk, B []byte) (zeros int, overflow bool) {
	sum := make([]byte, len(blk))
	carry := 1
	for k := len(blk) - 1; k >= 0; k-- {
		x := int(blk[k]) + int(B[k]) + carry
		sum[k] = byte(x)
		carry = x >> 8
	}
	for zeros < len(sum) && sum[zeros] == 0 {
		zeros++
	}
	return zeros, carry == 1
}

// searchSalt finds (deterministically, independent of the seed) an 8-octet salt for which step 6.C
// of RFC 7292 B.2 (I_j = I_j + B + 1 mod 2^512, ID = 1, r iterations) gives, for the salt block, a
// sum with exactly `zeros` leading zero octets without overflow (overflow=false), or an overflowing
// sum whose low 512 bits start with a zero octet (overflow=true).
func searchSalt(bmpPassword []byte, r, zeros int, overflow bool) []byte {
	D := bytes.Repeat([]byte{1}, 64)
	var P []byte
	if len(bmpPassword) > 0 {
		P = make([]byte, 64*((len(bmpPassword)+63)/64))
		for i := range P {
			P[i] = bmpPassword[i%len(bmpPassword)]
		}
	}
	for n := uint64(0); ; n++ {
		salt := make([]byte, 8)
		for i := 2; i < 8; i++ {
			salt[i] = byte(n >> (8 * uint(i-2)))
		}
		if overflow {
			salt[0], salt[1] = byte(0xF0|n&0xF), byte(n>>4)
		}
		S := bytes.Repeat(salt, 8)
		h := sha1.Sum(append(append(append([]byte{}, D...), S...), P...))
		for k := 2; k <= r; k++ {
			h = sha1.Sum(h[:])
		}
		B := make([]byte, 64)
		for k := range B {
			B[k] = h[k%20]
		}
		z, ov := addInfo(S, B)
		if ov == overflow && ((!overflow && z == zeros) || (overflow && z >= 1)) {
			return salt
		}
	}
}

// hardeningCases: further model-built files.
//
//	C/E  password lengths (characters) whose BMP encoding is just below / exactly / just above a
//	     multiple of the KDF block (64 octets) up to 65535 characters; salt lengths 0, 7, 63, 127..129,
//	     255, 256, 1000, 65536; iteration counts 65535..65537 (thorough: the package limit 2^20)
//	E    salts searched so that the big-integer addition of KDF step 6.C yields a short result (1 and 2
//	     leading zero octets) resp. an overflow whose remainder starts with a zero octet
func hardeningCases(c *vf.Ctx, keys []keyMat) []tcase {
	var out []tcase
	pairs := []struct {
		name      string
		cert, key p12ref.PBE
	}{{"rc2+3des", p12ref.PBERC240, p12ref.PBE3DES}, {"3des+3des", p12ref.PBE3DES, p12ref.PBE3DES}, {"rc2+rc2", p12ref.PBERC240, p12ref.PBERC240}}
	n := 0
	add := func(label string, pwc pwClass, it, macIt int, cs, ks, ms []byte) {
		km := &keys[n%len(keys)]
		pr := pairs[n%len(pairs)]
		if strings.HasPrefix(label, "kdf-add") {
			pr = pairs[1]
		}
		n++
		o := p12ref.Options{Password: pwc.pw, CertPBE: pr.cert, KeyPBE: pr.key, Iter: it, MacIter: macIt, CertSalt: cs, KeySalt: ks, MacSalt: ms,
			FriendlyName: "h " + km.name, LocalKeyID: sha1Of(km.certDER), KeyPKCS8: km.pkcs8, CertDER: km.certDER}
		out = append(out, tcase{label: fmt.Sprintf("model hardening %s key=%s pbe=%s", label, km.name, pr.name), source: "model", pwc: pwc, pfx: p12ref.Build(o),
			exp: expect{km: km, name: o.FriendlyName, keyID: o.LocalKeyID}})
	}
	alphabet := []rune("aé密Z한！€9")
	for _, nch := range []int{30, 31, 32, 33, 62, 63, 64, 95, 127, 128, 255, 256, 1023, 4095, 65535} {
		r := make([]rune, nch)
		for i := range r {
			r[i] = alphabet[(i+nch)%len(alphabet)]
		}
		pwc := pwClass{fmt.Sprintf("chars%d", nch), string(r)}
		add("password-length", pwc, 2, 2, c.Bytes("hcs", nch, 8), c.Bytes("hks", nch, 8), c.Bytes("hms", nch, 8))
	}
	for _, sl := range []int{0, 7, 63, 127, 128, 129, 255, 256, 1000, 65536} {
		for _, pwc := range []pwClass{passwords[4], passwords[0]} {
			add(fmt.Sprintf("salt-length=%d", sl), pwc, 2, 3, c.Bytes("hcs2", sl, sl), c.Bytes("hks2", sl, sl), c.Bytes("hms2", sl, sl))
		}
	}
	its := []int{65535, 65536, 65537}
	if c.Thorough {
		its = append(its, 1<<20-1, 1<<20)
	}
	for i, it := range its {
		add(fmt.Sprintf("iterations=%d", it), passwords[1+i%4], it, it, c.Bytes("hcs3", it, 8), c.Bytes("hks3", it, 8), c.Bytes("hms3", it, 8))
	}
	for _, pwc := range []pwClass{passwords[1], passwords[4], passwords[0]} {
		bmp := p12ref.BMPPassword(pwc.pw)
		for _, r := range []int{1, 2} {
			for _, sh := range []struct {
				zeros    int
				overflow bool
			}{{1, false}, {2, false}, {0, true}} {
				salt := searchSalt(bmp, r, sh.zeros, sh.overflow)
				add(fmt.Sprintf("kdf-add zeros=%d overflow=%v iter=%d", sh.zeros, sh.overflow, r), pwc, r, r, salt, salt, c.Bytes("hms4", r, 8))
			}
		}
	}
	return out
}

// callHistories (D): Decode and ToPEM are functions. Every sequence of 3 calls over an alphabet of
// (file, password) pairs - valid files of different shape, the empty-password file that needs the
// "empty octet string" retry, a wrong password, a file with bad padding and a valid MAC - must give
// at every position what the call gives on its own.
func callHistories(c *vf.Ctx, keys []keyMat) {
	mk := func(i int, pw string, raw bool, pbe p12ref.PBE, pad func([]byte) []byte) []byte {
		km := &keys[i%len(keys)]
		o := p12ref.Options{Password: pw, UseRawPassword: raw, CertPBE: pbe, KeyPBE: p12ref.PBE3DES, Iter: 2, MacIter: 2,
			CertSalt: c.Bytes("hh-cs", i, 8), KeySalt: c.Bytes("hh-ks", i, 20), MacSalt: c.Bytes("hh-ms", i, 8),
			FriendlyName: "hist", LocalKeyID: []byte{byte(i)}, KeyPKCS8: km.pkcs8, CertDER: km.certDER, KeyPad: pad}
		return p12ref.Build(o)
	}
	badPad := func(plain []byte) []byte { // padding octets 00
		p := 8 - len(plain)%8
		return append(append([]byte{}, plain...), make([]byte, p)...)
	}
	type in struct {
		name string
		pfx  []byte
		pw   string
		km   *keyMat // nil: must fail
		inc  bool    // must fail with ErrIncorrectPassword
	}
	alpha := []in{
		{"rsa1024 RC2 cjk", mk(0, passwords[4].pw, false, p12ref.PBERC240, nil), passwords[4].pw, &keys[0], false},
		{"p256 3DES empty password as empty string", mk(2, "", true, p12ref.PBE3DES, nil), "", &keys[2], false},
		{"rsa2048 3DES ascii40", mk(1, passwords[2].pw, false, p12ref.PBE3DES, nil), passwords[2].pw, &keys[1], false},
		{"rsa1024 3DES empty password as 00 00", mk(3, "", false, p12ref.PBE3DES, nil), "", &keys[0], false},
		{"wrong password", mk(0, passwords[4].pw, false, p12ref.PBERC240, nil), "wrong", nil, true},
		{"bad key padding, valid MAC", mk(2, "pw", false, p12ref.PBE3DES, badPad), "pw", nil, false},
	}
	n := len(alpha)
	c.ParallelFor(n*n*n, func(h int) {
		seq := []int{h / (n * n), h / n % n, h % n}
		names := []string{alpha[seq[0]].name, alpha[seq[1]].name, alpha[seq[2]].name}
		for pos, k := range seq {
			a := alpha[k]
			d := map[string]any{"history": names, "position": pos}
			fp, gp := guard(a.pfx, (h+pos)%2 == 0)
			var key any
			var cert *x509.Certificate
			var blocks []*pem.Block
			var err1, err2 error
			if p, v, st := vf.Protect(func() {
				key, cert, err1 = pkcs12.Decode(gp, a.pw)
				blocks, err2 = pkcs12.ToPEM(gp, a.pw)
			}); p {
				d["panic"], d["stack"] = fmt.Sprint(v), st
				c.Violation("pkcs12 panics in a call history", d)
				return
			}
			c.Eval(2)
			if !intact(fp, a.pfx) {
				c.Violation("pkcs12 writes to the caller's PFX buffer or its spare capacity", d)
			}
			wipe(fp)
			switch {
			case a.km == nil && (err1 == nil || err2 == nil):
				c.Violation("pkcs12 accepts a bad file / wrong password at a later position of a call history", d)
			case a.inc && (err1 != pkcs12.ErrIncorrectPassword || err2 != pkcs12.ErrIncorrectPassword):
				c.Violation("wrong password at a later position of a call history does not give ErrIncorrectPassword", d)
			case a.km != nil && (err1 != nil || err2 != nil || !sameKey(key, a.km.key) || cert == nil || !bytes.Equal(cert.Raw, a.km.certDER) || len(blocks) != 2):
				d["err"] = fmt.Sprint(err1, err2)
				c.Violation("pkcs12 result depends on earlier calls (valid file not decoded exactly at a later position of a call history)", d)
			}
		}
		c.Nontrivial(fmt.Sprintf("hist/%v", seq))
	})
	c.Outcome("call histories checked")
}
