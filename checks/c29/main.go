// C29: key exchanges agree, bind the transcript and reject invalid peer values.
//
// The real Client/Server halves of every kexAlgoMap entry are run (through
// handshakeTransport.client / .server, hook ssh/verif_c29.go) over an in-memory packet
// pipe against each other and against the independent reference halves of
// /verif/ref/sshkexref, for every host key algorithm; every transcript/reply fault must
// make the client refuse; every invalid peer value of the boundary sets must make the
// receiving half fail; every DH-GEX request of the boundary cube goes through the real
// server path and chooseDH and is compared with the OpenSSH rule.
package main

import (
	"bytes"
	"crypto/mlkem"
	"crypto/sha256"
	"errors"
	"fmt"
	"io"
	"math/big"
	"sort"
	"strings"
	"sync"
	"time"

	"golang.org/x/crypto/ssh"

	"verif/checks/c29/hk"
	ref "verif/ref/sshkexref"
	"verif/ref/x25519ref"
	"verif/vf"
)

func main() { vf.Main("C29", vf.Exploration, run) }

// ---------------------------------------------------------------------------------
// packet pipe

const readTimeout = 180 * time.Second

var errHang = errors.New("c29: no packet within the hang guard")

type end struct {
	in    chan []byte
	out   chan []byte
	sent  [][]byte // packets as this side wrote them (before the man in the middle)
	xform func(i int, p []byte) []byte
	once  sync.Once
	hung  bool
}

func newPipe() (a, b *end) {
	x, y := make(chan []byte, 16), make(chan []byte, 16)
	return &end{in: x, out: y}, &end{in: y, out: x}
}

func clone(b []byte) []byte { return append([]byte{}, b...) }

func (e *end) WritePacket(p []byte) error {
	q := clone(p)
	e.sent = append(e.sent, q)
	w := clone(q)
	scramble(p)
	if e.xform != nil {
		w = e.xform(len(e.sent)-1, w)
	}
	e.out <- w
	return nil
}

// scramble does to a written packet what the real transport does ("writePacket destroys the
// contents", ssh/handshake.go; "the contents of the packet are generally scrambled",
// ssh/transport.go): a key exchange half that still needs the packet it has written (for the
// exchange hash, say) would work against this harness's copies but not on a connection. The
// packet conns of this check are used by the code under test only through the hook adapter
// (verifC29Conn), never by the reference peers, which call Send with their own slices.
func scramble(p []byte) {
	for i := range p {
		p[i] ^= 0xa5
	}
}

func (e *end) ReadPacket() ([]byte, error) {
	select {
	case p, ok := <-e.in:
		if !ok {
			return nil, io.EOF
		}
		return p, nil
	case <-time.After(readTimeout):
		e.hung = true
		return nil, errHang
	}
}

func (e *end) Close()                { e.once.Do(func() { close(e.out) }) }
func (e *end) Send(p []byte) error   { return e.WritePacket(clone(p)) }
func (e *end) Recv() ([]byte, error) { return e.ReadPacket() }

// canned replays recorded server packets to a client half; no second party runs.
type canned struct {
	replies [][]byte
	next    int
	sent    [][]byte
}

func (c *canned) WritePacket(p []byte) error { c.sent = append(c.sent, clone(p)); scramble(p); return nil }
func (c *canned) ReadPacket() ([]byte, error) {
	if c.next >= len(c.replies) {
		return nil, io.EOF
	}
	p := c.replies[c.next]
	c.next++
	return clone(p), nil
}

// ---------------------------------------------------------------------------------

type env struct {
	c        *vf.Ctx
	keys     *hk.Set
	alt      *hk.Set // second key set (same types, other keys) for wrong-key faults
	kex      []string
	algos    []string
	signers  []ssh.Signer
	slowKex  map[string]bool
	fastAlgo []string

	mu     sync.Mutex
	phase2 []func()
}

// later queues f for the second, flat parallel phase.
func (e *env) later(f ...func()) {
	e.mu.Lock()
	e.phase2 = append(e.phase2, f...)
	e.mu.Unlock()
}

func (e *env) viol(class string, kv ...any) {
	d := map[string]any{}
	for i := 0; i+1 < len(kv); i += 2 {
		d[fmt.Sprint(kv[i])] = kv[i+1]
	}
	e.c.Violation(class, d)
}

func errStr(err error) string {
	if err == nil {
		return ""
	}
	return err.Error()
}

func (e *env) transcript(label string) (ssh.VerifC29Magics, ref.Transcript) {
	c := e.c
	if isLong(label) {
		return e.longTranscript(label)
	}
	vc := append([]byte("SSH-2.0-Go_"), []byte(fmt.Sprintf("%x", c.Bytes(label+"|vc", 0, 3)))...)
	vs := append([]byte("SSH-2.0-OpenSSH_9.2p1 "), []byte(fmt.Sprintf("%x", c.Bytes(label+"|vs", 0, 2)))...)
	n1 := 40 + int(c.Bytes(label+"|n", 0, 1)[0])
	n2 := 40 + int(c.Bytes(label+"|n", 1, 1)[0])
	ic := append([]byte{20}, c.Bytes(label+"|ic", 0, n1)...)
	is := append([]byte{20}, c.Bytes(label+"|is", 0, n2)...)
	return ssh.VerifC29Magics{ClientVersion: vc, ServerVersion: vs, ClientKexInit: ic, ServerKexInit: is},
		ref.Transcript{VC: vc, VS: vs, IC: ic, IS: is}
}

func toRef(m ssh.VerifC29Magics) ref.Transcript {
	return ref.Transcript{VC: m.ClientVersion, VS: m.ServerVersion, IC: m.ClientKexInit, IS: m.ServerKexInit}
}

type rrOut struct {
	cli            *ssh.VerifC29ClientOutcome
	srv            *ssh.VerifC29ServerOutcome
	ce, se         *end
	cliPan, srvPan string
}

// runRR runs the real client half against the real server half.
func (e *env) runRR(kex, algo, label string, mc, ms ssh.VerifC29Magics, cx, sx func(int, []byte) []byte) rrOut {
	ce, se := newPipe()
	ce.xform, se.xform = cx, sx
	out := rrOut{ce: ce, se: se}
	done := make(chan struct{})
	go func() {
		defer close(done)
		defer se.Close()
		if p, v, st := vf.Protect(func() {
			out.srv, _ = ssh.VerifC29Server(kex, se, vf.NewRand(label+"|srv"), ms, e.signers, algo)
		}); p {
			out.srvPan = fmt.Sprint(v) + "\n" + st
		}
	}()
	if p, v, st := vf.Protect(func() {
		out.cli, _ = ssh.VerifC29Client(kex, ce, vf.NewRand(label+"|cli"), mc, algo)
	}); p {
		out.cliPan = fmt.Sprint(v) + "\n" + st
	}
	ce.Close()
	<-done
	if out.cliPan != "" || out.srvPan != "" {
		e.viol(kex+": key exchange half panics", "algo", algo, "label", label, "client", out.cliPan, "server", out.srvPan)
	}
	if ce.hung || se.hung {
		e.viol(kex+": key exchange halves wait for each other forever", "algo", algo, "label", label)
	}
	return out
}

// runClient runs the real client half against `peer` (a function speaking on the other end).
func (e *env) runClient(kex, algo, label string, mc ssh.VerifC29Magics, peer func(conn *end)) (*ssh.VerifC29ClientOutcome, *end) {
	ce, pe := newPipe()
	done := make(chan struct{})
	go func() {
		defer close(done)
		defer pe.Close()
		peer(pe)
	}()
	var out *ssh.VerifC29ClientOutcome
	if p, v, st := vf.Protect(func() {
		out, _ = ssh.VerifC29Client(kex, ce, vf.NewRand(label+"|cli"), mc, algo)
	}); p {
		e.viol(kex+": key exchange half panics", "algo", algo, "label", label, "client", fmt.Sprint(v)+"\n"+st)
	}
	ce.Close()
	<-done
	if ce.hung || pe.hung {
		e.viol(kex+": client half never finishes against a scripted peer", "algo", algo, "label", label)
	}
	return out, ce
}

// runServer runs the real server half against `peer`.
func (e *env) runServer(kex, algo, label string, ms ssh.VerifC29Magics, peer func(conn *end)) (*ssh.VerifC29ServerOutcome, *end) {
	se, pe := newPipe()
	done := make(chan struct{})
	var out *ssh.VerifC29ServerOutcome
	go func() {
		defer close(done)
		defer se.Close()
		if p, v, st := vf.Protect(func() {
			out, _ = ssh.VerifC29Server(kex, se, vf.NewRand(label+"|srv"), ms, e.signers, algo)
		}); p {
			e.viol(kex+": key exchange half panics", "algo", algo, "label", label, "server", fmt.Sprint(v)+"\n"+st)
		}
	}()
	peer(pe)
	pe.Close()
	<-done
	if se.hung || pe.hung {
		e.viol(kex+": server half never finishes against a scripted peer", "algo", algo, "label", label)
	}
	return out, se
}

// ---------------------------------------------------------------------------------
// reference recomputation from the packets on the wire

type wireView struct {
	h       []byte
	ks, sig []byte
	reply   *ref.Reply
	replyAt int // index of the reply among the server's packets
	initAt  int // index of the init (e / Q_C) among the client's packets
}

// kMagnitude decodes an encoded K (mpint) as written by the code under test: 4 length bytes
// and the magnitude; canonical reports whether it is the RFC 4251 encoding of that value.
func kMagnitude(kEnc []byte) (k *big.Int, canonical bool) {
	if len(kEnc) < 4 {
		return nil, false
	}
	body := kEnc[4:]
	k = new(big.Int).SetBytes(body)
	return k, bytes.Equal(ref.Mpint(k), kEnc)
}

func recompute(m ref.Method, t ref.Transcript, cSent, sSent [][]byte, kEnc []byte) (*wireView, error) {
	w := &wireView{}
	need := func(c, s int) error {
		if len(cSent) != c || len(sSent) != s {
			return fmt.Errorf("expected %d client and %d server packets, saw %d and %d", c, s, len(cSent), len(sSent))
		}
		return nil
	}
	var k *big.Int
	if m.Kind != ref.KindHybrid {
		var canon bool
		if k, canon = kMagnitude(kEnc); !canon {
			return nil, fmt.Errorf("K is not a canonical mpint: %x", kEnc)
		}
		if k.Sign() == 0 {
			return nil, errors.New("K is zero")
		}
	}
	switch m.Kind {
	case ref.KindDH:
		if err := need(1, 1); err != nil {
			return nil, err
		}
		e, err := ref.ParseInitMpint(cSent[0], ref.MsgKexDHInit)
		if err != nil {
			return nil, err
		}
		if !bytes.Equal(ref.InitMpint(ref.MsgKexDHInit, e), cSent[0]) {
			return nil, errors.New("KEXDH_INIT is not canonically encoded")
		}
		rep, err := ref.ParseReply(sSent[0], ref.MsgKexDHReply, true)
		if err != nil {
			return nil, err
		}
		if !bytes.Equal(ref.ReplyMpint(ref.MsgKexDHReply, rep.KS, rep.F, rep.Sig), sSent[0]) {
			return nil, errors.New("KEXDH_REPLY is not canonically encoded")
		}
		p := ref.MODP(m.Bits)
		for _, v := range []*big.Int{e, rep.F} {
			if v.Cmp(big.NewInt(1)) <= 0 || v.Cmp(new(big.Int).Sub(p, big.NewInt(1))) >= 0 {
				return nil, errors.New("a half sent a DH value outside (1, p-1) of the method's group")
			}
		}
		w.reply, w.h = rep, ref.HashDH(m.Hash, t, rep.KS, e, rep.F, k)
	case ref.KindGEX:
		if err := need(2, 2); err != nil {
			return nil, err
		}
		min, n, max, err := ref.ParseGexRequest(cSent[0])
		if err != nil {
			return nil, err
		}
		p, g, err := ref.ParseGexGroup(sSent[0])
		if err != nil {
			return nil, err
		}
		if !bytes.Equal(ref.GexGroup(p, g), sSent[0]) {
			return nil, errors.New("KEX_DH_GEX_GROUP is not canonically encoded")
		}
		e, err := ref.ParseInitMpint(cSent[1], ref.MsgGexInit)
		if err != nil {
			return nil, err
		}
		if !bytes.Equal(ref.InitMpint(ref.MsgGexInit, e), cSent[1]) {
			return nil, errors.New("KEX_DH_GEX_INIT is not canonically encoded")
		}
		rep, err := ref.ParseReply(sSent[1], ref.MsgGexReply, true)
		if err != nil {
			return nil, err
		}
		if !bytes.Equal(ref.ReplyMpint(ref.MsgGexReply, rep.KS, rep.F, rep.Sig), sSent[1]) {
			return nil, errors.New("KEX_DH_GEX_REPLY is not canonically encoded")
		}
		w.reply, w.replyAt, w.initAt = rep, 1, 1
		w.h = ref.HashGEX(m.Hash, t, rep.KS, min, n, max, p, g, e, rep.F, k)
	case ref.KindECDH, ref.KindX25519, ref.KindHybrid:
		if err := need(1, 1); err != nil {
			return nil, err
		}
		qc, err := ref.ParseInitString(cSent[0])
		if err != nil {
			return nil, err
		}
		rep, err := ref.ParseReply(sSent[0], ref.MsgKexECDHReply, false)
		if err != nil {
			return nil, err
		}
		w.reply = rep
		switch m.Kind {
		case ref.KindECDH:
			cv, _ := ref.CurveByName(m.Curve)
			if _, err := cv.Decode(qc); err != nil {
				return nil, fmt.Errorf("Q_C: %v", err)
			}
			if _, err := cv.Decode(rep.QS); err != nil {
				return nil, fmt.Errorf("Q_S: %v", err)
			}
			w.h = ref.HashECDH(m.Hash, t, rep.KS, qc, rep.QS, k)
		case ref.KindX25519:
			if len(qc) != 32 || len(rep.QS) != 32 {
				return nil, errors.New("X25519 public value is not 32 bytes")
			}
			w.h = ref.HashECDH(m.Hash, t, rep.KS, qc, rep.QS, k)
		case ref.KindHybrid:
			if len(qc) != mlkem.EncapsulationKeySize768+32 || len(rep.QS) != mlkem.CiphertextSize768+32 {
				return nil, errors.New("hybrid public value has the wrong length")
			}
			if len(kEnc) != 36 || !bytes.Equal(kEnc[:4], []byte{0, 0, 0, 32}) {
				return nil, fmt.Errorf("hybrid K is not a 32-byte string: %x", kEnc)
			}
			w.h = ref.HashHybrid(m.Hash, t, rep.KS, qc, rep.QS, kEnc[4:])
		}
	}
	w.ks, w.sig = w.reply.KS, w.reply.Sig
	return w, nil
}

// ---------------------------------------------------------------------------------
// part A: agreement

func kShape(kEnc []byte, hybrid bool) string {
	if hybrid || len(kEnc) < 5 {
		return "string"
	}
	if kEnc[4] == 0 {
		return "mpint-leading-zero"
	}
	return "mpint-plain"
}

func (e *env) agreeRR(kex, algo string) { e.agreeRRt(kex, algo, "") }

func (e *env) agreeRRt(kex, algo, tag string) {
	c := e.c
	m, _ := ref.Lookup(kex)
	label := fmt.Sprintf("%d|A|rr|%s|%s%s", c.Seed, kex, algo, tag)
	mg, tr := e.transcript(label)
	o := e.runRR(kex, algo, label, mg, mg, nil, nil)
	c.Eval(1)
	if o.cli == nil || o.srv == nil {
		return
	}
	ent, _ := e.keys.Get(algo)
	if o.srv.Err != nil || o.cli.KexErr != nil || o.cli.AcceptErr != nil || o.cli.Kex == nil || o.srv.Kex == nil {
		e.viol(kex+": honest exchange between the two real halves fails", "algo", algo,
			"server", errStr(o.srv.Err), "clientKex", errStr(o.cli.KexErr), "clientAccept", errStr(o.cli.AcceptErr))
		return
	}
	ck, sk := o.cli.Kex, o.srv.Kex
	if !bytes.Equal(ck.H, sk.H) || !bytes.Equal(ck.K, sk.K) {
		e.viol(kex+": client and server derive different H or K", "algo", algo, "clientH", vf.Hex8(ck.H), "serverH", vf.Hex8(sk.H),
			"clientK", vf.Hex8(ck.K), "serverK", vf.Hex8(sk.K))
	}
	if ck.Hash != m.Hash || sk.Hash != m.Hash || len(ck.H) != m.Hash.Size() {
		e.viol(kex+": wrong hash function for the method", "algo", algo, "client", ck.Hash.String(), "server", sk.Hash.String(), "spec", m.Hash.String())
	}
	if !bytes.Equal(sk.HostKey, ent.Blob) || !bytes.Equal(ck.HostKey, ent.Blob) || !bytes.Equal(o.cli.CallbackKey, ent.Blob) {
		e.viol(kex+": host key blob reported by a half differs from the server's key", "algo", algo)
	}
	for side, kr := range map[string]*ssh.VerifC29Result{"client": ck, "server": sk} {
		w, err := recompute(m, tr, o.ce.sent, o.se.sent, kr.K)
		if err != nil {
			e.viol(kex+": wire messages or K violate the specification ("+side+" view)", "algo", algo, "error", err.Error())
			continue
		}
		if !bytes.Equal(w.h, kr.H) {
			e.viol(kex+": exchange hash differs from the specification's H over the transcript ("+side+")", "algo", algo,
				"impl", vf.Hex8(kr.H), "ref", vf.Hex8(w.h), "K", vf.Hex8(kr.K))
		}
		if err := ref.VerifyHostSignature(w.ks, algo, w.h, w.sig); err != nil {
			e.viol(kex+": host key signature does not verify over the specification's H ("+side+")", "algo", algo, "error", err.Error())
		}
		if !bytes.Equal(w.ks, ent.Blob) {
			e.viol(kex+": K_S on the wire is not the server's host key", "algo", algo)
		}
	}
	c.Nontrivial("A|rr|" + kex + "|" + algo + tag)
	c.Nontrivial("Kshape|" + kex + "|" + kShape(ck.K, m.Kind == ref.KindHybrid))
	c.Outcome("honest exchange accepted")
	if c.WantSample() {
		c.Sample(map[string]any{"part": "agreement real/real", "kex": kex, "hostkey": algo, "H": vf.Hex8(ck.H), "K": vf.Hex8(ck.K)})
	}
}

func gexOfferFor(label string) *ref.GexOffer {
	return &ref.GexOffer{P: ref.MODP(2048), G: big.NewInt(2)}
}

// agreeRefServer: real client against the reference server.
func (e *env) agreeRefServer(kex, algo string, shape int, offer *ref.GexOffer, tag string) {
	c := e.c
	m, _ := ref.Lookup(kex)
	label := fmt.Sprintf("%d|A|rs|%s|%s|%d|%s", c.Seed, kex, algo, shape, tag)
	mg, tr := e.transcript(label)
	ent, _ := e.keys.Get(algo)
	sec := &ref.Secret{Seed: label}
	// shapes of K as an mpint, judged on the minimal magnitude m of the fixed-width value k:
	// 0: shorter than the field (leading zero bytes dropped), 1: top bit of m set (a zero byte
	// must be prepended), 2: full length with the top bit clear
	strip := func(k []byte) []byte {
		for len(k) > 1 && k[0] == 0 {
			k = k[1:]
		}
		return k
	}
	switch shape {
	case 0:
		sec.Shape = func(k []byte) bool { return len(strip(k)) < len(k) }
	case 1:
		sec.Shape = func(k []byte) bool { return strip(k)[0]&0x80 != 0 }
	case 2:
		sec.Shape = func(k []byte) bool { return len(strip(k)) == len(k) && k[0]&0x80 == 0 }
	}
	if offer == nil {
		offer = gexOfferFor(label)
	}
	var rr *ref.Result
	var rerr error
	out, _ := e.runClient(kex, algo, label, mg, func(conn *end) {
		rr, rerr = ref.Server(m, conn, tr, ref.HostKey{Priv: ent.Priv, Blob: ent.Blob}, algo, sec, offer)
	})
	c.Eval(1)
	if out == nil {
		return
	}
	if rerr != nil {
		e.viol(kex+": reference server cannot complete against the real client", "algo", algo, "error", rerr.Error(), "clientKex", errStr(out.KexErr))
		return
	}
	if out.KexErr != nil || out.AcceptErr != nil || out.Kex == nil {
		e.viol(kex+": real client refuses an exchange computed per specification by the reference server", "algo", algo, "tag", tag,
			"clientKex", errStr(out.KexErr), "clientAccept", errStr(out.AcceptErr), "K", vf.Hex8(rr.KEnc))
		return
	}
	if !bytes.Equal(out.Kex.H, rr.H) || !bytes.Equal(out.Kex.K, rr.KEnc) {
		e.viol(kex+": real client derives H or K different from the reference server", "algo", algo, "tag", tag,
			"implH", vf.Hex8(out.Kex.H), "refH", vf.Hex8(rr.H), "implK", vf.Hex8(out.Kex.K), "refK", vf.Hex8(rr.KEnc))
	}
	if !bytes.Equal(out.CallbackKey, ent.Blob) {
		e.viol(kex+": host key handed to the callback differs from K_S", "algo", algo)
	}
	c.Nontrivial(fmt.Sprintf("A|rs|%s|%s|%d|%s", kex, algo, shape, tag))
	c.Nontrivial("Kshape|" + kex + "|" + kShape(rr.KEnc, m.Kind == ref.KindHybrid))
	c.Outcome("reference-server exchange accepted")
}

// agreeRefClient: reference client against the real server.
func (e *env) agreeRefClient(kex, algo string, req [3]uint32, tag string) {
	c := e.c
	m, _ := ref.Lookup(kex)
	label := fmt.Sprintf("%d|A|cr|%s|%s|%s", c.Seed, kex, algo, tag)
	mg, tr := e.transcript(label)
	ent, _ := e.keys.Get(algo)
	var rr *ref.Result
	var rerr error
	out, _ := e.runServer(kex, algo, label, mg, func(conn *end) {
		rr, rerr = ref.Client(m, conn, tr, algo, &ref.Secret{Seed: label}, req)
	})
	c.Eval(1)
	if out == nil {
		return
	}
	if out.Err != nil || out.Kex == nil || rerr != nil {
		e.viol(kex+": real server fails against the reference client", "algo", algo, "tag", tag, "server", errStr(out.Err), "refClient", errStr(rerr))
		return
	}
	if !bytes.Equal(out.Kex.H, rr.H) || !bytes.Equal(out.Kex.K, rr.KEnc) {
		e.viol(kex+": real server derives H or K different from the reference client", "algo", algo, "tag", tag,
			"implH", vf.Hex8(out.Kex.H), "refH", vf.Hex8(rr.H), "implK", vf.Hex8(out.Kex.K), "refK", vf.Hex8(rr.KEnc))
	}
	if rr.SigErr != nil {
		e.viol(kex+": real server's signature is rejected by the reference client", "algo", algo, "tag", tag, "error", rr.SigErr.Error())
	}
	if !bytes.Equal(rr.KS, ent.Blob) {
		e.viol(kex+": K_S on the wire is not the server's host key", "algo", algo)
	}
	if m.Kind == ref.KindGEX {
		size, ok := ref.ChooseGroupSize(knownGex, req[0], req[1], req[2])
		if !ok || rr.P.BitLen() != size {
			e.viol(kex+": group size in a completed exchange differs from the choose_dh rule", "req", req, "bits", rr.P.BitLen(), "want", size)
		}
		c.Nontrivial(fmt.Sprintf("gex-full|%s|%d", kex, rr.P.BitLen()))
	}
	c.Nontrivial(fmt.Sprintf("A|cr|%s|%s|%s", kex, algo, tag))
	c.Nontrivial("Kshape|" + kex + "|" + kShape(rr.KEnc, m.Kind == ref.KindHybrid))
	c.Outcome("reference-client exchange completed")
}

// ---------------------------------------------------------------------------------
// part B: faults — the client must refuse

type fault struct {
	name string
	// exactly one of these is set
	replyPos  int // flip in server packet replyPkt at this offset (replyPos>=0)
	replyPkt  int
	mask      byte
	clientPos int // flip in client packet clientPkt
	clientPkt int
	magic     func(m *ssh.VerifC29Magics) // alter the client's view of the transcript
}

func flipAt(idx, pos int, mask byte) func(int, []byte) []byte {
	return func(i int, p []byte) []byte {
		if i == idx && len(p) > 0 {
			q := pos
			if q >= len(p) {
				q = len(p) - 1
			}
			p[q] ^= mask
		}
		return p
	}
}

func fieldPositions(off, n int) []int {
	// the four length bytes, first, middle and last content byte
	ps := []int{off - 4, off - 3, off - 2, off - 1}
	if n > 0 {
		ps = append(ps, off, off+n/2, off+n-1)
	}
	return ps
}

func (e *env) faults(kex, algo string, everyByte bool) (jobs []func()) {
	c := e.c
	m, _ := ref.Lookup(kex)
	label := fmt.Sprintf("%d|B|%s|%s", c.Seed, kex, algo)
	mg, tr := e.transcript(label)
	base := e.runRR(kex, algo, label, mg, mg, nil, nil)
	c.Eval(1)
	if base.cli == nil || base.srv == nil || base.cli.AcceptErr != nil || base.srv.Err != nil {
		e.viol(kex+": honest exchange between the two real halves fails", "algo", algo, "where", "fault baseline")
		return nil
	}
	w, err := recompute(m, tr, base.ce.sent, base.se.sent, base.cli.Kex.K)
	if err != nil {
		return nil // reported by part A
	}
	var fs []fault
	reply := base.se.sent[w.replyAt]
	if everyByte {
		for pos := 0; pos < len(reply); pos++ {
			fs = append(fs, fault{name: "reply byte (every byte)", replyPos: pos, replyPkt: w.replyAt, mask: 1 << uint(pos%8), clientPos: -1})
		}
	} else {
		seen := map[int]bool{}
		add := func(what string, ps []int) {
			for _, p := range ps {
				if p >= 0 && p < len(reply) && !seen[p] {
					seen[p] = true
					fs = append(fs, fault{name: "reply " + what, replyPos: p, replyPkt: w.replyAt, mask: 1, clientPos: -1})
				}
			}
		}
		add("message number", []int{0})
		add("K_S", fieldPositions(w.reply.KSOff, len(w.reply.KS)))
		vlen := len(w.reply.QS)
		if w.reply.F != nil {
			vlen = len(ref.Mpint(w.reply.F)) - 4
		}
		add("f / Q_S", fieldPositions(w.reply.ValOff, vlen))
		add("signature", fieldPositions(w.reply.SigOff, len(w.reply.Sig)))
		// inside the signature: format name and blob
		add("signature format name", []int{w.reply.SigOff + 4, w.reply.SigOff + 5})
		add("signature blob", []int{len(reply) - 1, len(reply) - 2, len(reply) - 20})
	}
	// top bit flips of the first content byte of each field (sign of mpints, type bytes)
	for _, p := range []int{w.reply.KSOff, w.reply.ValOff, w.reply.SigOff} {
		if p < len(reply) {
			fs = append(fs, fault{name: "reply field first byte top bit", replyPos: p, replyPkt: w.replyAt, mask: 0x80, clientPos: -1})
		}
	}
	if m.Kind == ref.KindGEX {
		grp := base.se.sent[0]
		for _, p := range []int{5, len(grp) / 2, len(grp) - 6, len(grp) - 1} {
			fs = append(fs, fault{name: "GEX group p/g", replyPos: p, replyPkt: 0, mask: 1, clientPos: -1})
		}
		for _, p := range []int{4, 8, 12} { // low byte of min, n, max
			fs = append(fs, fault{name: "GEX request min/n/max", replyPos: -1, clientPos: p, clientPkt: 0, mask: 1})
		}
	}
	ci := base.ce.sent[w.initAt]
	for _, p := range []int{5, len(ci) / 2, len(ci) - 1} {
		fs = append(fs, fault{name: "client e / Q_C", replyPos: -1, clientPos: p, clientPkt: w.initAt, mask: 1})
	}
	flipField := func(name string, get func(m *ssh.VerifC29Magics) *[]byte) {
		fs = append(fs,
			fault{name: name + " first byte", replyPos: -1, clientPos: -1, magic: func(m *ssh.VerifC29Magics) { b := clone(*get(m)); b[0] ^= 1; *get(m) = b }},
			fault{name: name + " last byte", replyPos: -1, clientPos: -1, magic: func(m *ssh.VerifC29Magics) { b := clone(*get(m)); b[len(b)-1] ^= 1; *get(m) = b }},
			fault{name: name + " one byte longer", replyPos: -1, clientPos: -1, magic: func(m *ssh.VerifC29Magics) { *get(m) = append(clone(*get(m)), 0) }},
			fault{name: name + " one byte shorter", replyPos: -1, clientPos: -1, magic: func(m *ssh.VerifC29Magics) { b := *get(m); *get(m) = clone(b[:len(b)-1]) }},
		)
	}
	flipField("V_C", func(m *ssh.VerifC29Magics) *[]byte { return &m.ClientVersion })
	flipField("V_S", func(m *ssh.VerifC29Magics) *[]byte { return &m.ServerVersion })
	flipField("I_C", func(m *ssh.VerifC29Magics) *[]byte { return &m.ClientKexInit })
	flipField("I_S", func(m *ssh.VerifC29Magics) *[]byte { return &m.ServerKexInit })
	fs = append(fs,
		fault{name: "V_C and V_S swapped", replyPos: -1, clientPos: -1, magic: func(m *ssh.VerifC29Magics) {
			m.ClientVersion, m.ServerVersion = m.ServerVersion, m.ClientVersion
		}},
		fault{name: "I_C and I_S swapped", replyPos: -1, clientPos: -1, magic: func(m *ssh.VerifC29Magics) {
			m.ClientKexInit, m.ServerKexInit = m.ServerKexInit, m.ClientKexInit
		}},
		fault{name: "V_C/I_C boundary moved", replyPos: -1, clientPos: -1, magic: func(m *ssh.VerifC29Magics) {
			// same concatenated bytes, different field split: must still change H (length prefixes)
			v := clone(m.ClientVersion)
			m.ClientVersion = v[:len(v)-1]
			m.ServerVersion = append([]byte{v[len(v)-1]}, m.ServerVersion...)
		}},
	)

	// Deterministic client (everything except the NIST curves, whose ephemeral key comes
	// from the process entropy): replay the recorded server packets instead of re-running
	// the server.
	replayable := m.Kind != ref.KindECDH
	one := func(f fault) {
		mc := mg
		if f.magic != nil {
			f.magic(&mc)
		}
		var out *ssh.VerifC29ClientOutcome
		ran := false
		if replayable && f.clientPos < 0 {
			cn := &canned{}
			for i, p := range base.se.sent {
				q := clone(p)
				if f.replyPos >= 0 && i == f.replyPkt {
					q = flipAt(i, f.replyPos, f.mask)(i, q)
				}
				cn.replies = append(cn.replies, q)
			}
			if p, v, st := vf.Protect(func() {
				out, _ = ssh.VerifC29Client(kex, cn, vf.NewRand(label+"|cli"), mc, algo)
			}); p {
				e.viol(kex+": client half panics on a faulted exchange", "algo", algo, "fault", f.name, "panic", fmt.Sprint(v)+"\n"+st)
				return
			}
			// the replay is only meaningful if the client sent what it sent in the baseline
			same := len(cn.sent) <= len(base.ce.sent)
			for i := range cn.sent {
				if same && !bytes.Equal(cn.sent[i], base.ce.sent[i]) {
					same = false
				}
			}
			ran = same
		}
		if !ran {
			var cx, sx func(int, []byte) []byte
			if f.replyPos >= 0 {
				sx = flipAt(f.replyPkt, f.replyPos, f.mask)
			}
			if f.clientPos >= 0 {
				cx = flipAt(f.clientPkt, f.clientPos, f.mask)
			}
			o := e.runRR(kex, algo, label, mc, mg, cx, sx)
			out = o.cli
		}
		c.Eval(1)
		if out == nil {
			return
		}
		if out.AcceptErr == nil {
			e.viol(kex+": client accepts an exchange although "+f.name+" was altered", "algo", algo, "fault", f.name,
				"replyPos", f.replyPos, "clientPos", f.clientPos, "mask", f.mask)
		} else if out.KexErr != nil {
			c.Outcome("fault refused by the kex half")
		} else {
			c.Outcome("fault refused by host key signature verification")
		}
		c.Nontrivial("B|" + kex + "|" + algo + "|" + f.name)
	}
	// cheap replays are batched, full re-runs are one job each
	const batch = 64
	for i := 0; i < len(fs); i += batch {
		chunk := fs[i:min(i+batch, len(fs))]
		if replayable {
			jobs = append(jobs, func() {
				for _, f := range chunk {
					one(f)
				}
			})
			continue
		}
		for _, f := range chunk {
			f := f
			jobs = append(jobs, func() { one(f) })
		}
	}
	return jobs
}

// sigFaults: a reference server that computes everything per specification but signs
// wrongly; the real client must refuse although the key exchange itself succeeds.
func (e *env) sigFaults(kex, algo string) {
	c := e.c
	m, _ := ref.Lookup(kex)
	ent, _ := e.keys.Get(algo)
	altEnt, _ := e.alt.Get(algo)
	type sf struct {
		name string
		fn   func(h []byte) ([]byte, error)
	}
	good := func(h []byte) ([]byte, error) { return ref.SignHost(ent.Priv, algo, h) }
	sfs := []sf{
		{"signature by a different key of the same type", func(h []byte) ([]byte, error) { return ref.SignHost(altEnt.Priv, algo, h) }},
		{"signature over H with one bit changed", func(h []byte) ([]byte, error) { g := clone(h); g[len(g)-1] ^= 1; return good(g) }},
		{"signature over H truncated by one byte", func(h []byte) ([]byte, error) { return good(h[:len(h)-1]) }},
		{"signature field followed by one extra byte", func(h []byte) ([]byte, error) { s, err := good(h); return append(s, 0), err }},
		{"signature blob followed by an extra string", func(h []byte) ([]byte, error) { s, err := good(h); return append(s, ref.Str(nil)...), err }},
		{"empty signature field", func(h []byte) ([]byte, error) { return nil, nil }},
	}
	if strings.Contains(algo, "rsa") {
		for _, other := range []string{"ssh-rsa", "rsa-sha2-256", "rsa-sha2-512"} {
			o := other
			if o == ref.SigFormat(algo) {
				continue
			}
			sfs = append(sfs,
				sf{"valid " + o + " signature where " + ref.SigFormat(algo) + " was negotiated", func(h []byte) ([]byte, error) { return ref.SignHost(ent.Priv, o, h) }},
				sf{o + " signature relabelled as " + ref.SigFormat(algo), func(h []byte) ([]byte, error) {
					s, err := ref.SignHost(ent.Priv, o, h)
					if err != nil {
						return nil, err
					}
					blob := s[4+len(o):]
					return append(ref.Str([]byte(ref.SigFormat(algo))), blob...), nil
				}})
		}
	}
	for i, f := range sfs {
		label := fmt.Sprintf("%d|S|%s|%s|%d", c.Seed, kex, algo, i)
		mg, tr := e.transcript(label)
		var rerr error
		out, _ := e.runClient(kex, algo, label, mg, func(conn *end) {
			_, rerr = ref.Server(m, conn, tr, ref.HostKey{Priv: ent.Priv, Blob: ent.Blob, SignFunc: f.fn}, algo, &ref.Secret{Seed: label}, gexOfferFor(label))
		})
		c.Eval(1)
		if out == nil || rerr != nil {
			if rerr != nil {
				e.viol(kex+": reference server cannot complete against the real client", "algo", algo, "error", rerr.Error())
			}
			continue
		}
		if out.AcceptErr == nil {
			e.viol("client accepts a host key signature that is not a "+ref.SigFormat(algo)+" signature by K_S over H: "+f.name, "kex", kex, "algo", algo)
		}
		if out.KexErr != nil {
			e.viol(kex+": real client refuses an exchange computed per specification by the reference server", "algo", algo, "where", "signature fault "+f.name, "error", out.KexErr.Error())
		}
		c.Outcome("wrong signature refused")
		c.Nontrivial("S|" + kex + "|" + algo + "|" + f.name)
	}
}

// ---------------------------------------------------------------------------------
// part C: invalid peer values

type badVal struct {
	name  string
	wire  []byte // the complete init packet (to a server) or the value field bytes
	valid bool   // control: must NOT be refused
}

// serverMustJudge sends init packets to the real server half.
func (e *env) serverJudges(kex string, pre func(conn *end) bool, pkt []byte, name string, valid bool) {
	c := e.c
	algo := e.fastAlgo[0]
	label := fmt.Sprintf("%d|C|srv|%s|%s", c.Seed, kex, name)
	mg, _ := e.transcript(label)
	gotReply := false
	out, _ := e.runServer(kex, algo, label, mg, func(conn *end) {
		if pre != nil && !pre(conn) {
			return
		}
		conn.Send(pkt)
		if _, err := conn.Recv(); err == nil {
			gotReply = true
		}
	})
	c.Eval(1)
	if out == nil {
		return
	}
	c.Nontrivial("C|srv|" + kex + "|" + name)
	if valid {
		if out.Err != nil || !gotReply {
			e.viol(kex+": server refuses a valid peer value: "+name, "error", errStr(out.Err))
		}
		c.Outcome("valid boundary value accepted")
		return
	}
	if out.Err == nil || gotReply {
		e.viol(kex+": server accepts an invalid peer value: "+name, "replySent", gotReply)
	}
	c.Outcome("invalid peer value refused")
}

// clientJudges lets a scripted server answer the real client with the given reply value.
func (e *env) clientJudges(kex string, script func(conn *end) error, name string, valid bool) {
	c := e.c
	algo := e.fastAlgo[0]
	label := fmt.Sprintf("%d|C|cli|%s|%s", c.Seed, kex, name)
	mg, _ := e.transcript(label)
	var serr error
	out, _ := e.runClient(kex, algo, label, mg, func(conn *end) { serr = script(conn) })
	c.Eval(1)
	if out == nil {
		return
	}
	if serr != nil {
		e.viol(kex+": scripted server could not parse the real client's messages", "error", serr.Error(), "case", name)
		return
	}
	c.Nontrivial("C|cli|" + kex + "|" + name)
	if valid {
		if out.KexErr != nil {
			e.viol(kex+": client refuses a valid peer value: "+name, "error", out.KexErr.Error())
		}
		c.Outcome("valid boundary value accepted")
		return
	}
	if out.KexErr == nil {
		e.viol(kex+": client accepts an invalid peer value: "+name, "K", vf.Hex8(out.Kex.K))
	}
	if out.AcceptErr == nil {
		e.viol(kex + ": client accepts an exchange with an invalid peer value: " + name)
	}
	c.Outcome("invalid peer value refused")
}

func dhValues(p *big.Int) []struct {
	name  string
	v     *big.Int
	valid bool
} {
	one := big.NewInt(1)
	return []struct {
		name  string
		v     *big.Int
		valid bool
	}{
		{"-1", big.NewInt(-1), false},
		{"0", big.NewInt(0), false},
		{"1", big.NewInt(1), false},
		{"p-1", new(big.Int).Sub(p, one), false},
		{"p", new(big.Int).Set(p), false},
		{"p+1", new(big.Int).Add(p, one), false},
		{"-2", big.NewInt(-2), false},
		{"2p-2 (= -2 mod p, valid only after reduction)", new(big.Int).Sub(new(big.Int).Lsh(p, 1), big.NewInt(2)), false},
		{"2 (valid)", big.NewInt(2), true},
		{"p-2 (valid)", new(big.Int).Sub(p, big.NewInt(2)), true},
	}
}

var junkSig = append(ref.Str([]byte("ssh-ed25519")), ref.Str(make([]byte, 64))...)

func (e *env) invalidDH(kex string) {
	m, _ := ref.Lookup(kex)
	ent, _ := e.keys.Get(e.fastAlgo[0])
	if m.Kind == ref.KindDH {
		p := ref.MODP(m.Bits)
		for _, dv := range dhValues(p) {
			dv := dv
			e.later(func() { e.serverJudges(kex, nil, ref.InitMpint(ref.MsgKexDHInit, dv.v), "e = "+dv.name, dv.valid) })
			e.later(func() {
				e.clientJudges(kex, func(conn *end) error {
					pkt, err := conn.Recv()
					if err != nil {
						return err
					}
					if _, err := ref.ParseInitMpint(pkt, ref.MsgKexDHInit); err != nil {
						return err
					}
					return conn.Send(ref.ReplyMpint(ref.MsgKexDHReply, ent.Blob, dv.v, junkSig))
				}, "f = "+dv.name, dv.valid)
			})
		}
		return
	}
	// group exchange: the server picks the group (2048 bits for this request); the scripted
	// server offers the 2048-bit group.
	for _, dv := range dhValues(ref.MODP(2048)) {
		dv := dv
		e.later(func() {
			e.serverJudges(kex, func(conn *end) bool {
				conn.Send(ref.GexRequest(2048, 2048, 2048))
				pkt, err := conn.Recv()
				if err != nil {
					return false
				}
				p, _, err := ref.ParseGexGroup(pkt)
				return err == nil && p.Cmp(ref.MODP(2048)) == 0
			}, ref.InitMpint(ref.MsgGexInit, dv.v), "e = "+dv.name, dv.valid)
		})
		e.later(func() {
			e.clientJudges(kex, func(conn *end) error {
				pkt, err := conn.Recv()
				if err != nil {
					return err
				}
				if _, _, _, err := ref.ParseGexRequest(pkt); err != nil {
					return err
				}
				conn.Send(ref.GexGroup(ref.MODP(2048), big.NewInt(2)))
				if pkt, err = conn.Recv(); err != nil {
					return err
				}
				if _, err := ref.ParseInitMpint(pkt, ref.MsgGexInit); err != nil {
					return err
				}
				return conn.Send(ref.ReplyMpint(ref.MsgGexReply, ent.Blob, dv.v, junkSig))
			}, "f = "+dv.name, dv.valid)
		})
	}
}

func ecPoints(cv *ref.Curve) []badVal {
	n := cv.ByteLen
	enc := func(x, y *big.Int) []byte {
		out := make([]byte, 1+2*n)
		out[0] = 4
		x.FillBytes(out[1 : 1+n])
		y.FillBytes(out[1+n:])
		return out
	}
	g := ref.Point{X: cv.Gx, Y: cv.Gy}
	q := cv.Base(big.NewInt(0x1234567))
	small := cv.SmallX(0)
	var out []badVal
	out = append(out,
		badVal{"generator (valid)", cv.Encode(g), true},
		badVal{"multiple of the generator (valid)", cv.Encode(q), true},
		badVal{"point with tiny x (valid)", cv.Encode(small), true},
		badVal{"infinity as single zero byte", []byte{0}, false},
		badVal{"empty string", nil, false},
		badVal{"(0,0)", enc(big.NewInt(0), big.NewInt(0)), false},
		badVal{"off curve: y+1", enc(q.X, new(big.Int).Add(q.Y, big.NewInt(1))), false},
		badVal{"off curve: x+1", enc(new(big.Int).Add(q.X, big.NewInt(1)), q.Y), false},
		badVal{"off curve: (Gx, Gx)", enc(cv.Gx, cv.Gx), false},
		badVal{"x = p (0 mod p), y = sqrt(b)", enc(cv.P, cv.SmallX(0).Y), false},
		badVal{"x >= p: tiny-x point with x+p", enc(new(big.Int).Add(small.X, cv.P), small.Y), false},
		badVal{"y = p", enc(q.X, cv.P), false},
		badVal{"wrong length: one byte short", cv.Encode(q)[:2*n], false},
		badVal{"wrong length: one byte long", append(cv.Encode(q), 0), false},
		badVal{"wrong length: x only", cv.Encode(q)[:1+n], false},
		badVal{"hybrid form 06/07", append([]byte{6 + byte(q.Y.Bit(0))}, cv.Encode(q)[1:]...), false},
		badVal{"type byte 05", append([]byte{5}, cv.Encode(q)[1:]...), false},
		badVal{"type byte 00 with coordinates", append([]byte{0}, cv.Encode(q)[1:]...), false},
	)
	comp := append([]byte{2 + byte(q.Y.Bit(0))}, cv.Encode(q)[1:1+n]...)
	out = append(out, badVal{"compressed form 02/03", comp, false})
	// y >= p is only encodable when y + p fits the coordinate width (P-521)
	if yp := new(big.Int).Add(small.Y, cv.P); yp.BitLen() <= 8*n {
		out = append(out, badVal{"y >= p: on-curve point with y+p", enc(small.X, yp), false})
	}
	// a point of another curve (on P-256 for P-384 etc. lengths differ: covered by length); the negated point is valid
	neg := ref.Point{X: q.X, Y: new(big.Int).Sub(cv.P, q.Y)}
	out = append(out, badVal{"negated point (valid)", cv.Encode(neg), true})
	return out
}

func (e *env) invalidECDH(kex string) {
	m, _ := ref.Lookup(kex)
	cv, _ := ref.CurveByName(m.Curve)
	ent, _ := e.keys.Get(e.fastAlgo[0])
	for _, bv := range ecPoints(cv) {
		bv := bv
		e.later(func() { e.serverJudges(kex, nil, ref.InitString(bv.wire), "Q_C = "+bv.name, bv.valid) })
		e.later(func() {
			e.clientJudges(kex, func(conn *end) error {
				pkt, err := conn.Recv()
				if err != nil {
					return err
				}
				qc, err := ref.ParseInitString(pkt)
				if err != nil {
					return err
				}
				if _, err := cv.Decode(qc); err != nil {
					return err
				}
				return conn.Send(ref.ReplyString(ent.Blob, bv.wire, junkSig))
			}, "Q_S = "+bv.name, bv.valid)
		})
	}
}

func x25519Values() []badVal {
	var out []badVal
	for i, enc := range x25519ref.SmallOrderEncodings() {
		v := enc
		out = append(out, badVal{fmt.Sprintf("low-order point #%d %x", i, v[:]), v[:], false})
	}
	var priv [32]byte
	copy(priv[:], vf.DetBytes("c29|x25519|valid", 32))
	pub := x25519ref.X25519(priv, x25519ref.Base)
	hi := pub
	hi[31] |= 0x80
	two := [32]byte{2}
	out = append(out,
		badVal{"valid public value", pub[:], true},
		badVal{"valid public value with bit 255 set", hi[:], true},
		badVal{"u = 2 (valid, on the twist)", two[:], true},
		badVal{"length 31", pub[:31], false},
		badVal{"length 33", append(clone(pub[:]), 0), false},
		badVal{"length 0", nil, false},
		badVal{"length 64", append(clone(pub[:]), pub[:]...), false},
	)
	return out
}

func (e *env) invalidX25519(kex string) {
	ent, _ := e.keys.Get(e.fastAlgo[0])
	for _, bv := range x25519Values() {
		bv := bv
		e.serverJudges(kex, nil, ref.InitString(bv.wire), "Q_C = "+bv.name, bv.valid)
		e.clientJudges(kex, func(conn *end) error {
			pkt, err := conn.Recv()
			if err != nil {
				return err
			}
			if qc, err := ref.ParseInitString(pkt); err != nil || len(qc) != 32 {
				return errors.New("bad Q_C from the real client")
			}
			return conn.Send(ref.ReplyString(ent.Blob, bv.wire, junkSig))
		}, "Q_S = "+bv.name, bv.valid)
	}
}

func (e *env) invalidHybrid(kex string) {
	c := e.c
	ent, _ := e.keys.Get(e.fastAlgo[0])
	dk, _ := mlkem.NewDecapsulationKey768(vf.DetBytes("c29|mlkem|dk", mlkem.SeedSize))
	ek := dk.EncapsulationKey().Bytes()
	var priv [32]byte
	copy(priv[:], vf.DetBytes("c29|mlkem|x", 32))
	xpub := x25519ref.X25519(priv, x25519ref.Base)
	cat := func(a, b []byte) []byte { return append(clone(a), b...) }
	ff := bytes.Repeat([]byte{0xff}, len(ek))
	coefQ := clone(ek) // first coefficient = q = 3329 = 0xD01
	coefQ[0], coefQ[1] = 0x01, coefQ[1]&0xf0|0x0d
	coefQm1 := clone(ek) // first coefficient = q-1 = 0xD00: still a well-formed key
	coefQm1[0], coefQm1[1] = 0x00, coefQm1[1]&0xf0|0x0d
	lastQ := clone(ek) // last coefficient (bytes 1150,1151) = q: b>>4 = 0xD0, low nibble 1
	lastQ[1150], lastQ[1151] = lastQ[1150]&0x0f|0x10, 0xd0
	inits := []badVal{
		{"well-formed C_INIT (valid)", cat(ek, xpub[:]), true},
		{"first coefficient q-1 (valid encoding)", cat(coefQm1, xpub[:]), true},
		{"length +1", append(cat(ek, xpub[:]), 0), false},
		{"length -1", cat(ek, xpub[:31]), false},
		{"truncated to the ML-KEM key", clone(ek), false},
		{"truncated to the X25519 value", clone(xpub[:]), false},
		{"truncated to half", cat(ek, xpub[:])[:608], false},
		{"empty", nil, false},
		{"ML-KEM key all 0xFF (coefficients >= q)", cat(ff, xpub[:]), false},
		{"ML-KEM first coefficient = q", cat(coefQ, xpub[:]), false},
		{"ML-KEM last coefficient = q", cat(lastQ, xpub[:]), false},
	}
	for i, lo := range x25519ref.SmallOrderEncodings() {
		v := lo
		inits = append(inits, badVal{fmt.Sprintf("valid ML-KEM key with low-order X25519 value #%d", i), cat(ek, v[:]), false})
	}
	for _, bv := range inits {
		e.serverJudges(kex, nil, ref.InitString(bv.wire), "C_INIT = "+bv.name, bv.valid)
	}
	// server replies: ciphertext for the client's own encapsulation key
	type rep struct {
		name  string
		build func(ct []byte) []byte
		// strict: kex.Client itself must fail; otherwise only the exchange as a whole must be refused
		strict, valid bool
	}
	reps := []rep{
		{"well-formed S_REPLY (valid)", func(ct []byte) []byte { return cat(ct, xpub[:]) }, true, true},
		{"length +1", func(ct []byte) []byte { return append(cat(ct, xpub[:]), 0) }, true, false},
		{"length -1", func(ct []byte) []byte { return cat(ct, xpub[:31]) }, true, false},
		{"truncated to the ciphertext", func(ct []byte) []byte { return clone(ct) }, true, false},
		{"truncated to the X25519 value", func(ct []byte) []byte { return clone(xpub[:]) }, true, false},
		{"truncated to half", func(ct []byte) []byte { return cat(ct, xpub[:])[:560] }, true, false},
		{"empty", func(ct []byte) []byte { return nil }, true, false},
		// every bit string of the right length is a well-formed ML-KEM ciphertext (implicit
		// rejection, FIPS 203 section 6.3): decapsulation yields an unrelated secret, so the
		// exchange must fail at the host key signature, not necessarily inside the kex half.
		{"ciphertext all 0xFF", func(ct []byte) []byte { return cat(bytes.Repeat([]byte{0xff}, len(ct)), xpub[:]) }, false, false},
		{"ciphertext with one bit changed", func(ct []byte) []byte { q := clone(ct); q[17] ^= 4; return cat(q, xpub[:]) }, false, false},
	}
	for i, lo := range x25519ref.SmallOrderEncodings() {
		v := lo
		reps = append(reps, rep{fmt.Sprintf("valid ciphertext with low-order X25519 value #%d", i), func(ct []byte) []byte { return cat(ct, v[:]) }, true, false})
	}
	m, _ := ref.Lookup(kex)
	for _, r := range reps {
		r := r
		algo := e.fastAlgo[0]
		label := fmt.Sprintf("%d|C|cli|%s|%s", c.Seed, kex, r.name)
		mg, tr := e.transcript(label)
		var serr error
		out, _ := e.runClient(kex, algo, label, mg, func(conn *end) {
			pkt, err := conn.Recv()
			if err != nil {
				serr = err
				return
			}
			cinit, err := ref.ParseInitString(pkt)
			if err != nil || len(cinit) != mlkem.EncapsulationKeySize768+32 {
				serr = errors.New("bad C_INIT from the real client")
				return
			}
			cek, err := mlkem.NewEncapsulationKey768(cinit[:mlkem.EncapsulationKeySize768])
			if err != nil {
				serr = err
				return
			}
			kpq, ct := cek.Encapsulate()
			sreply := r.build(ct)
			// sign what an honest server would have derived from its own view
			kcl := x25519ref.X25519(priv, [32]byte(cinit[mlkem.EncapsulationKeySize768:]))
			k := sha256.Sum256(append(clone(kpq), kcl[:]...))
			h := ref.HashHybrid(m.Hash, tr, ent.Blob, cinit, sreply, k[:])
			sig, _ := ref.SignHost(ent.Priv, algo, h)
			conn.Send(ref.ReplyString(ent.Blob, sreply, sig))
		})
		c.Eval(1)
		if out == nil {
			continue
		}
		if serr != nil {
			e.viol(kex+": scripted server could not parse the real client's messages", "error", serr.Error())
			continue
		}
		c.Nontrivial("C|cli|" + kex + "|" + r.name)
		switch {
		case r.valid:
			if out.AcceptErr != nil {
				e.viol(kex+": client refuses a valid peer value: S_REPLY "+r.name, "error", out.AcceptErr.Error())
			}
			c.Outcome("valid boundary value accepted")
		case r.strict:
			if out.KexErr == nil {
				e.viol(kex + ": client accepts an invalid peer value: S_REPLY " + r.name)
			}
			c.Outcome("invalid peer value refused")
		default:
			if out.AcceptErr == nil {
				e.viol(kex + ": client accepts an exchange with an invalid peer value: S_REPLY " + r.name)
			}
			c.Outcome("invalid peer value refused")
		}
	}
}

// ---------------------------------------------------------------------------------
// part D: group exchange requests

var knownGex = []int{2048, 3072, 4096}

var (
	safeMu    sync.Mutex
	safeCache = map[string]bool{}
)

func safePrime(p *big.Int) bool {
	key := p.Text(62)
	safeMu.Lock()
	defer safeMu.Unlock()
	if v, ok := safeCache[key]; ok {
		return v
	}
	v := p.ProbablyPrime(8) && new(big.Int).Rsh(p, 1).ProbablyPrime(8)
	safeCache[key] = v
	return v
}

func (e *env) gexCube() {
	c := e.c
	B := []uint32{0, 1, 1023, 1024, 2047, 2048, 2049, 3071, 3072, 3073, 4095, 4096, 4097, 8191, 8192, 8193, 0xffffffff,
		// the group sizes modulo 2^16, the sign bit of a 32-bit integer, -2048 as a 32-bit integer
		1<<16 + 2048, 1<<16 + 3072, 1<<16 + 4096, 1<<31 - 1, 1 << 31, 0xfffff800}
	nExtra := 2
	if c.Thorough {
		nExtra = 6
	}
	for i := 0; i < nExtra; i++ {
		b := c.Bytes("gex|extra", i, 4)
		v := uint32(b[0])<<24 | uint32(b[1])<<16 | uint32(b[2])<<8 | uint32(b[3])
		if i%2 == 0 {
			v = 1024 + v%8192 // a value in the interesting range
		}
		B = append(B, v)
	}
	c.Set("gex_alphabet", B)
	type tri struct{ min, n, max uint32 }
	var tris []tri
	for _, a := range B {
		for _, b := range B {
			for _, d := range B {
				tris = append(tris, tri{a, b, d})
			}
		}
	}
	gexNames := []string{}
	for _, k := range e.kex {
		if m, _ := ref.Lookup(k); m.Kind == ref.KindGEX {
			gexNames = append(gexNames, k)
		}
	}
	algo := e.fastAlgo[0]
	c.ParallelFor(len(tris), func(i int) {
		t := tris[i]
		valid := ref.GexRequestValid(t.min, t.n, t.max)
		size, ok := ref.ChooseGroupSize(knownGex, t.min, t.n, t.max)
		desc := fmt.Sprintf("(%d,%d,%d)", t.min, t.n, t.max)

		// chooseDH itself: defined for every triple
		p, err := ssh.VerifC29ChooseDH(t.min, t.n, t.max)
		c.Eval(1)
		switch {
		case ok && (err != nil || p == nil):
			e.viol("chooseDH: no group although a known group lies within [min,max]", "req", desc, "want", size, "error", errStr(err))
		case !ok && err == nil:
			e.viol("chooseDH: returns a group although no known group lies within [min,max]", "req", desc, "bits", p.BitLen())
		case ok:
			if p.BitLen() != size {
				e.viol("chooseDH: group size differs from the choose_dh rule (smallest >= preferred within [min,max], else largest)", "req", desc, "bits", p.BitLen(), "want", size)
			}
			if uint64(p.BitLen()) < uint64(t.min) || uint64(p.BitLen()) > uint64(t.max) {
				e.viol("chooseDH: group outside the requested bounds", "req", desc, "bits", p.BitLen())
			}
		}

		// the real server path
		for _, kex := range gexNames {
			label := fmt.Sprintf("D|%s|%s", kex, desc)
			mg, _ := e.transcript(label)
			var gp, gg *big.Int
			gotGroup := false
			var perr error
			out, _ := e.runServer(kex, algo, label, mg, func(conn *end) {
				conn.Send(ref.GexRequest(t.min, t.n, t.max))
				pkt, err := conn.Recv()
				if err != nil {
					return
				}
				gotGroup = true
				gp, gg, perr = ref.ParseGexGroup(pkt)
			})
			c.Eval(1)
			if out == nil {
				continue
			}
			if !valid || !ok {
				why := "no known group within [min,max]"
				if !valid {
					why = "request violates min <= preferred <= max, max >= 2048"
				}
				if gotGroup {
					e.viol(kex+": server answers a group exchange request it must refuse: "+why, "req", desc)
				}
				c.Outcome("gex request refused: " + why)
				c.Nontrivial("D|refused|" + desc)
				continue
			}
			if !gotGroup || perr != nil {
				e.viol(kex+": server refuses a valid group exchange request", "req", desc, "error", errStr(out.Err), "parse", errStr(perr))
				continue
			}
			if gp.BitLen() != size {
				e.viol(kex+": server's group size differs from the choose_dh rule (smallest >= preferred within [min,max], else largest)", "req", desc, "bits", gp.BitLen(), "want", size)
			}
			if uint64(gp.BitLen()) < uint64(t.min) || uint64(gp.BitLen()) > uint64(t.max) {
				e.viol(kex+": server's group lies outside the requested bounds", "req", desc, "bits", gp.BitLen())
			}
			if !safePrime(gp) {
				e.viol(kex+": server's group modulus is not a safe prime", "req", desc, "bits", gp.BitLen())
			}
			if gg.Cmp(big.NewInt(1)) <= 0 || gg.Cmp(new(big.Int).Sub(gp, big.NewInt(1))) >= 0 {
				e.viol(kex+": server's generator is outside (1, p-1)", "req", desc)
			}
			c.Outcome(fmt.Sprintf("gex group %d bits", gp.BitLen()))
			c.Nontrivial(fmt.Sprintf("D|%d|%s", gp.BitLen(), desc))
		}
	})
}

// ---------------------------------------------------------------------------------

func run(c *vf.Ctx) {
	c.Rule("parts: (A) every kexAlgoMap entry x every host key algorithm x pairing {real/real, real client/reference server, reference client/real server} " +
		"(+ the three mpint shapes of K, + GEX offers/requests); (B) every single fault of the honest exchange: a bit flip at every byte class of the reply " +
		"(every byte for the fast methods), of the client's value, of the GEX request/group, every alteration of V_C,V_S,I_C,I_S on the client, and every wrong-signature " +
		"variant by a reference server; (C) every invalid peer value of the boundary sets for the method, sent by a scripted peer to each half, plus valid controls; " +
		"(D) every (min,preferred,max) of the boundary cube (alphabet incl. 2^16+{2048,3072,4096}, 2^31-1, 2^31, 2^32-2048) through the real GEX server path and chooseDH; " +
		"hardening: every packet a half writes is scrambled by the harness after it was copied (as the transport does); per method: long transcript strings (V_C 255, V_S 8, I_C 65537, I_S 35000 bytes) in all three pairings; a second complete exchange of the same method nested before each message of a reference peer (shared kexAlgoMap object); the same exchange re-run after everything else (same packets, H, K); DH values p+2, 2p-1, 2p+1, 2-p, -(p-2), 2^bits, 2^bits-1, 2^(bits+64)+2 and controls 3, p-3, 2^(bits-1) to both halves. A case is distinct by (part, method, host key algorithm, pairing/fault/value/triple).")
	c.Assume("math/big, the hash functions, RSA/ECDSA/Ed25519/DSA signature primitives and crypto/mlkem of the Go standard library are trusted (shared by implementation and reference)")
	c.Assume("the group exchange server knows groups of 2048, 3072 and 4096 bits (documented in ssh/kex.go); OpenSSH's choose_dh rule is taken over an ascending list")
	c.Assume("value alphabet: ephemeral secrets and transcript strings are seeded; shapes (methods, algorithms, fault positions, boundary values, triples) do not depend on the seed")

	e := &env{c: c, kex: ssh.VerifC29KexNames(), slowKex: map[string]bool{}}
	sup, ins := ssh.SupportedAlgorithms(), ssh.InsecureAlgorithms()
	e.algos = append(append([]string{}, sup.HostKeys...), ins.HostKeys...)
	sort.Strings(e.algos)
	keys, skipped, err := hk.New(c.Seed, e.algos)
	if err != nil {
		panic(err)
	}
	alt, _, err := hk.New(c.Seed+7777, e.algos)
	if err != nil {
		panic(err)
	}
	e.keys, e.alt = keys, alt
	if len(skipped) > 0 {
		c.Capped("host key algorithms without a key in the harness: " + strings.Join(skipped, ","))
		var kept []string
		for _, a := range e.algos {
			if _, ok := keys.Get(a); ok {
				kept = append(kept, a)
			}
		}
		e.algos = kept
	}
	e.signers = keys.DistinctSigners()
	e.fastAlgo = []string{"ssh-ed25519"}
	if _, ok := keys.Get("ssh-ed25519"); !ok {
		e.fastAlgo = []string{e.algos[0]}
	}
	c.Set("kex_methods", e.kex)
	c.Set("host_key_algorithms", e.algos)

	var modelled []string
	for _, k := range e.kex {
		m, ok := ref.Lookup(k)
		if !ok {
			e.viol("kexAlgoMap entry without a reference model: "+k, "kex", k)
			continue
		}
		modelled = append(modelled, k)
		if (m.Kind == ref.KindDH && m.Bits >= 4096) || m.Kind == ref.KindGEX {
			e.slowKex[k] = true
		}
	}
	e.kex = modelled

	type job func()
	var jobs []job
	add := func(f job) { jobs = append(jobs, f) }

	// ---- part A
	for _, kex := range e.kex {
		m, _ := ref.Lookup(kex)
		reps := 1
		if c.Thorough && !e.slowKex[kex] {
			reps = 4 // more seeded value classes of the ephemeral secrets
		}
		for _, algo := range e.algos {
			kex, algo := kex, algo
			add(func() { e.agreeRR(kex, algo) })
			for v := 0; v < reps; v++ {
				tag := ""
				if v > 0 {
					tag = fmt.Sprintf("v%d", v)
				}
				add(func() { e.agreeRefServer(kex, algo, -1, nil, tag) })
				add(func() { e.agreeRefClient(kex, algo, [3]uint32{2048, 3072, 8192}, tag) })
			}
		}
		// the three shapes of K as mpint
		shapeOK := m.Kind == ref.KindX25519 || (m.Kind == ref.KindDH && m.Bits <= 2048) || (m.Kind == ref.KindECDH && m.Curve == "nistp256")
		if c.Thorough && m.Kind != ref.KindHybrid && m.Kind != ref.KindGEX {
			shapeOK = true
		}
		if shapeOK {
			for s := 0; s < 3; s++ {
				kex, s := kex, s
				add(func() { e.agreeRefServer(kex, e.fastAlgo[0], s, nil, "shape") })
			}
		}
		if m.Kind == ref.KindGEX {
			kex := kex
			// the real client against reference servers offering other groups and generators
			offers := []struct {
				bits int
				g    int64
			}{{2048, 5}, {3072, 2}, {3072, 5}, {4096, 2}, {8192, 2}}
			for _, o := range offers {
				o := o
				if o.bits == 8192 && kex != "diffie-hellman-group-exchange-sha256" && !c.Thorough {
					continue
				}
				add(func() {
					e.agreeRefServer(kex, e.fastAlgo[0], -1, &ref.GexOffer{P: ref.MODP(o.bits), G: big.NewInt(o.g)}, fmt.Sprintf("offer%d-g%d", o.bits, o.g))
				})
			}
			// the reference client with other requests against the real server
			reqs := [][3]uint32{{2048, 2048, 8192}, {1024, 3072, 8193}, {1, 1, 2048}, {3000, 3072, 3100}, {2048, 3073, 4095}, {2048, 4096, 4096}, {0, 0xffffffff, 0xffffffff}}
			for i, r := range reqs {
				r := r
				if i >= 5 && !c.Thorough && kex != "diffie-hellman-group-exchange-sha256" {
					continue
				}
				add(func() {
					e.agreeRefClient(kex, e.algos[len(r)%len(e.algos)], r, fmt.Sprintf("req%d-%d-%d", r[0], r[1], r[2]))
				})
			}
		}
	}

	// ---- part B
	for _, kex := range e.kex {
		m, _ := ref.Lookup(kex)
		algos := e.algos
		if !c.Thorough {
			// Big-group exponentiations dominate the cost and the fault logic of a DH client does
			// not depend on the host key type: the quick tier uses fewer host key algorithms
			// (value classes) for the large groups; the full cross product is the thorough tier.
			switch {
			case m.Kind == ref.KindDH && m.Bits >= 4096:
				algos = []string{"rsa-sha2-512"}
			case m.Kind == ref.KindGEX && m.Hash.Size() == 20:
				algos = []string{"ssh-ed25519"}
			case m.Kind == ref.KindGEX:
				algos = []string{"ssh-ed25519", "ecdsa-sha2-nistp256-cert-v01@openssh.com"}
			case m.Kind == ref.KindDH && m.Bits == 2048 && m.Hash.Size() == 20:
				algos = []string{"ssh-rsa", "ssh-ed25519-cert-v01@openssh.com"}
			case m.Kind == ref.KindDH && m.Bits == 2048:
				algos = []string{"ssh-ed25519", "rsa-sha2-256", "ecdsa-sha2-nistp384", "rsa-sha2-512-cert-v01@openssh.com"}
			}
		}
		for _, algo := range algos {
			if _, ok := e.keys.Get(algo); !ok {
				continue
			}
			kex, algo := kex, algo
			every := kex == "curve25519-sha256" || (c.Thorough && (m.Kind == ref.KindX25519 || m.Kind == ref.KindHybrid || m.Curve == "nistp256" || (m.Kind == ref.KindDH && m.Bits <= 2048)))
			add(func() { e.later(e.faults(kex, algo, every)...) })
			if kex == "curve25519-sha256" || (c.Thorough && !e.slowKex[kex]) || algo == "ssh-ed25519" {
				add(func() { e.sigFaults(kex, algo) })
			}
		}
	}

	// ---- part C
	for _, kex := range e.kex {
		kex := kex
		m, _ := ref.Lookup(kex)
		switch m.Kind {
		case ref.KindDH, ref.KindGEX:
			add(func() { e.invalidDH(kex) })
		case ref.KindECDH:
			add(func() { e.invalidECDH(kex) })
		case ref.KindX25519:
			add(func() { e.invalidX25519(kex) })
		case ref.KindHybrid:
			add(func() { e.invalidHybrid(kex) })
		}
	}

	for _, f := range e.hardenedJobs() {
		add(f)
	}

	// phase 1 runs the exchanges and baselines; the faults and per-value jobs they queue run flat in phase 2
	c.ParallelFor(len(jobs), func(i int) { jobs[i]() })
	c.ParallelFor(len(e.phase2), func(i int) { e.phase2[i]() })

	// ---- part D
	e.gexCube()
}
