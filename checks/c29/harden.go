// Hardening pass for C29: long transcript strings, exchanges nested inside each other on the
// shared kexAlgoMap objects, determinism after other exchanges, more values just outside the
// boundary sets.
package main

import (
	"bytes"
	"fmt"
	"math/big"
	"strings"

	"golang.org/x/crypto/ssh"

	ref "verif/ref/sshkexref"
)

// longTranscript: V_C of the maximum 255 bytes, V_S of the minimum, I_C one byte above 2^16,
// I_S just below the packet limit of a KEXINIT (35000). The exchange hash takes each with a
// 32-bit length prefix.
func (e *env) longTranscript(label string) (ssh.VerifC29Magics, ref.Transcript) {
	c := e.c
	vc := append([]byte("SSH-2.0-"), []byte(fmt.Sprintf("%x", c.Bytes(label+"|vc", 0, 124)))...)[:255]
	vs := []byte("SSH-2.0-")
	ic := append([]byte{20}, c.Bytes(label+"|ic", 0, 65536)...)
	is := append([]byte{20}, c.Bytes(label+"|is", 0, 34999)...)
	return ssh.VerifC29Magics{ClientVersion: vc, ServerVersion: vs, ClientKexInit: ic, ServerKexInit: is},
		ref.Transcript{VC: vc, VS: vs, IC: ic, IS: is}
}

// hookConn runs before[k] right before the k-th Send of the wrapped reference peer.
type hookConn struct {
	*end
	n      int
	before map[int]func()
}

func (h *hookConn) Send(p []byte) error {
	if f := h.before[h.n]; f != nil {
		f()
	}
	h.n++
	return h.end.Send(p)
}

// nestedRefServer: the real client half of `kex` talks to a reference server which, right
// before its k-th message, lets a second, complete exchange of the same method run (real
// client against another reference server, other secrets, other transcript, for group
// exchange another group and generator). kexAlgoMap holds ONE object per method for all
// connections of the process, so nothing of an exchange may live in it: both exchanges must
// be accepted with the reference's H and K.
func (e *env) nestedRefServer(kex string, k int) {
	c := e.c
	algo := e.fastAlgo[0]
	m, _ := ref.Lookup(kex)
	label := fmt.Sprintf("%d|N|rs|%s|%d", c.Seed, kex, k)
	mg, tr := e.transcript(label)
	ent, _ := e.keys.Get(algo)
	var rr *ref.Result
	var rerr error
	ran := false
	out, _ := e.runClient(kex, algo, label, mg, func(conn *end) {
		hc := &hookConn{end: conn, before: map[int]func(){k: func() {
			ran = true
			e.agreeRefServer(kex, algo, -1, &ref.GexOffer{P: ref.MODP(3072), G: big.NewInt(5)}, fmt.Sprintf("nested%d", k))
		}}}
		rr, rerr = ref.Server(m, hc, tr, ref.HostKey{Priv: ent.Priv, Blob: ent.Blob}, algo, &ref.Secret{Seed: label}, gexOfferFor(label))
	})
	c.Eval(1)
	if out == nil || !ran {
		return // fewer than k+1 server messages in this method
	}
	if rerr != nil || out.KexErr != nil || out.AcceptErr != nil || out.Kex == nil {
		e.viol(kex+": client half fails when another exchange of the same method runs in between", "before_server_message", k,
			"ref", errStr(rerr), "clientKex", errStr(out.KexErr), "clientAccept", errStr(out.AcceptErr))
		return
	}
	if !bytes.Equal(out.Kex.H, rr.H) || !bytes.Equal(out.Kex.K, rr.KEnc) {
		e.viol(kex+": client half derives another H or K when another exchange of the same method runs in between", "before_server_message", k,
			"implH", vfHex(out.Kex.H), "refH", vfHex(rr.H))
	}
	c.Nontrivial(fmt.Sprintf("N|rs|%s|%d", kex, k))
	c.Outcome("nested exchanges on one kex object agree with the reference")
}

// nestedRefClient: the same for the real server half (reference clients).
func (e *env) nestedRefClient(kex string, k int) {
	c := e.c
	algo := e.fastAlgo[0]
	m, _ := ref.Lookup(kex)
	label := fmt.Sprintf("%d|N|cr|%s|%d", c.Seed, kex, k)
	mg, tr := e.transcript(label)
	var rr *ref.Result
	var rerr error
	ran := false
	req := [3]uint32{2048, 2048, 8192}
	out, _ := e.runServer(kex, algo, label, mg, func(conn *end) {
		hc := &hookConn{end: conn, before: map[int]func(){k: func() {
			ran = true
			e.agreeRefClient(kex, algo, [3]uint32{3072, 4096, 8192}, fmt.Sprintf("nested%d", k))
		}}}
		rr, rerr = ref.Client(m, hc, tr, algo, &ref.Secret{Seed: label}, req)
	})
	c.Eval(1)
	if out == nil || !ran {
		return
	}
	if out.Err != nil || out.Kex == nil || rerr != nil || rr.SigErr != nil {
		e.viol(kex+": server half fails when another exchange of the same method runs in between", "before_client_message", k,
			"server", errStr(out.Err), "ref", errStr(rerr))
		return
	}
	if !bytes.Equal(out.Kex.H, rr.H) || !bytes.Equal(out.Kex.K, rr.KEnc) {
		e.viol(kex+": server half derives another H or K when another exchange of the same method runs in between", "before_client_message", k,
			"implH", vfHex(out.Kex.H), "refH", vfHex(rr.H))
	}
	if m.Kind == ref.KindGEX {
		if size, ok := ref.ChooseGroupSize(knownGex, req[0], req[1], req[2]); !ok || rr.P.BitLen() != size {
			e.viol(kex+": group size in a completed exchange differs from the choose_dh rule", "req", req, "bits", rr.P.BitLen(), "want", size, "where", "nested")
		}
	}
	c.Nontrivial(fmt.Sprintf("N|cr|%s|%d", kex, k))
	c.Outcome("nested exchanges on one kex object agree with the reference")
}

func vfHex(b []byte) string {
	if len(b) > 12 {
		return fmt.Sprintf("%x..", b[:12])
	}
	return fmt.Sprintf("%x", b)
}

// repeatRR: the same honest exchange (same Rand streams, same transcript) run again after
// everything else of phase 1 must put the same packets on the wire and give the same H and K
// (methods whose ephemeral keys come from the Rand parameter only).
func (e *env) repeatRR(kex string) {
	c := e.c
	m, _ := ref.Lookup(kex)
	if m.Kind == ref.KindECDH || m.Kind == ref.KindHybrid {
		return // ephemeral keys from process entropy
	}
	algo := e.fastAlgo[0]
	label := fmt.Sprintf("%d|R|%s", c.Seed, kex)
	mg, _ := e.transcript(label)
	a := e.runRR(kex, algo, label, mg, mg, nil, nil)
	e.later(func() {
		b := e.runRR(kex, algo, label, mg, mg, nil, nil)
		c.Eval(2)
		if a.cli == nil || b.cli == nil || a.cli.Kex == nil || b.cli.Kex == nil || a.srv == nil || b.srv == nil || a.srv.Kex == nil || b.srv.Kex == nil {
			return // failures are reported by part A
		}
		same := len(a.ce.sent) == len(b.ce.sent) && len(a.se.sent) == len(b.se.sent)
		for i := 0; same && i < len(a.ce.sent); i++ {
			same = bytes.Equal(a.ce.sent[i], b.ce.sent[i])
		}
		// the server's reply contains a signature, which may be randomised: compare all but the last server packet, and H, K
		for i := 0; same && i+1 < len(a.se.sent); i++ {
			same = bytes.Equal(a.se.sent[i], b.se.sent[i])
		}
		if !same || !bytes.Equal(a.cli.Kex.H, b.cli.Kex.H) || !bytes.Equal(a.cli.Kex.K, b.cli.Kex.K) || !bytes.Equal(a.srv.Kex.K, b.srv.Kex.K) {
			e.viol(kex+": the same exchange (same Rand streams and transcript) gives different packets, H or K when run again later", "algo", algo)
			return
		}
		c.Nontrivial("R|" + kex)
		c.Outcome("exchange reproducible after other exchanges")
	})
}

// moreDHValues: values just outside the set of dhValues: congruent to valid or degenerate
// values modulo p but outside (1, p-1), and the powers of two around the modulus size.
func moreDHValues(p *big.Int) []struct {
	name  string
	v     *big.Int
	valid bool
} {
	one := big.NewInt(1)
	add := func(a *big.Int, b int64) *big.Int { return new(big.Int).Add(a, big.NewInt(b)) }
	top := new(big.Int).Lsh(one, uint(p.BitLen()))
	return []struct {
		name  string
		v     *big.Int
		valid bool
	}{
		{"p+2 (= 2 mod p)", add(p, 2), false},
		{"2p-1 (= -1 mod p)", add(new(big.Int).Lsh(p, 1), -1), false},
		{"2p+1 (= 1 mod p)", add(new(big.Int).Lsh(p, 1), 1), false},
		{"2 - p (negative, = 2 mod p)", new(big.Int).Sub(big.NewInt(2), p), false},
		{"-(p-2) (negative of a valid value)", new(big.Int).Neg(add(p, -2)), false},
		{"2^bits (one bit longer than p)", top, false},
		{"2^bits - 1 (all ones, > p)", add(top, -1), false},
		{"2^(bits+64) + 2 (longer mpint)", add(new(big.Int).Lsh(one, uint(p.BitLen()+64)), 2), false},
		{"3 (valid)", big.NewInt(3), true},
		{"p-3 (valid)", add(p, -3), true},
		{"2^(bits-1) (valid, top bit of the field width set)", new(big.Int).Lsh(one, uint(p.BitLen()-1)), true},
	}
}

func (e *env) moreInvalidDH(kex string) {
	m, _ := ref.Lookup(kex)
	ent, _ := e.keys.Get(e.fastAlgo[0])
	if m.Kind == ref.KindDH {
		p := ref.MODP(m.Bits)
		for _, dv := range moreDHValues(p) {
			dv := dv
			e.later(func() { e.serverJudges(kex, nil, ref.InitMpint(ref.MsgKexDHInit, dv.v), "e = "+dv.name, dv.valid) })
			e.later(func() {
				e.clientJudges(kex, func(conn *end) error {
					pkt, err := conn.Recv()
					if err != nil {
						return err
					}
					if _, err := ref.ParseInitMpint(pkt, ref.MsgKexDHInit); err != nil {
						return err
					}
					return conn.Send(ref.ReplyMpint(ref.MsgKexDHReply, ent.Blob, dv.v, junkSig))
				}, "f = "+dv.name, dv.valid)
			})
		}
		return
	}
	for _, dv := range moreDHValues(ref.MODP(2048)) {
		dv := dv
		e.later(func() {
			e.serverJudges(kex, func(conn *end) bool {
				conn.Send(ref.GexRequest(2048, 2048, 2048))
				pkt, err := conn.Recv()
				if err != nil {
					return false
				}
				p, _, err := ref.ParseGexGroup(pkt)
				return err == nil && p.Cmp(ref.MODP(2048)) == 0
			}, ref.InitMpint(ref.MsgGexInit, dv.v), "e = "+dv.name, dv.valid)
		})
		e.later(func() {
			e.clientJudges(kex, func(conn *end) error {
				pkt, err := conn.Recv()
				if err != nil {
					return err
				}
				if _, _, _, err := ref.ParseGexRequest(pkt); err != nil {
					return err
				}
				conn.Send(ref.GexGroup(ref.MODP(2048), big.NewInt(2)))
				if pkt, err = conn.Recv(); err != nil {
					return err
				}
				if _, err := ref.ParseInitMpint(pkt, ref.MsgGexInit); err != nil {
					return err
				}
				return conn.Send(ref.ReplyMpint(ref.MsgGexReply, ent.Blob, dv.v, junkSig))
			}, "f = "+dv.name, dv.valid)
		})
	}
}

// hardenedJobs returns the phase-1 jobs of the hardening pass.
func (e *env) hardenedJobs() (jobs []func()) {
	for _, kex := range e.kex {
		kex := kex
		m, _ := ref.Lookup(kex)
		// long transcript strings: real/real with recomputation, and both reference pairings
		jobs = append(jobs,
			func() { e.agreeRRt(kex, e.fastAlgo[0], "|long") },
			func() { e.agreeRefServer(kex, e.fastAlgo[0], -1, nil, "|long") },
			func() { e.agreeRefClient(kex, e.fastAlgo[0], [3]uint32{2048, 3072, 8192}, "|long") })
		// nesting points: before server message 0 (and 1 for group exchange: between GROUP and REPLY);
		// before client message 0 and 1 (group exchange: between REQUEST and INIT)
		ks := []int{0}
		if m.Kind == ref.KindGEX {
			ks = []int{0, 1}
		}
		for _, k := range ks {
			k := k
			jobs = append(jobs, func() { e.nestedRefServer(kex, k) }, func() { e.nestedRefClient(kex, k) })
		}
		jobs = append(jobs, func() { e.repeatRR(kex) })
		if m.Kind == ref.KindDH || m.Kind == ref.KindGEX {
			jobs = append(jobs, func() { e.moreInvalidDH(kex) })
		}
	}
	return jobs
}

func isLong(label string) bool { return strings.Contains(label, "|long") }
