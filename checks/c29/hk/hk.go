// Package hk builds the deterministic host key set shared by the C29 and C27 drivers:
// one standard-library private key per key type, the real ssh.Signer for it, host
// certificates issued by a fixed CA, and for every host key ALGORITHM name the signer,
// the private key and the K_S blob that go with it.
package hk

import (
	"crypto/dsa"
	"crypto/ecdsa"
	"crypto/ed25519"
	"crypto/elliptic"
	"crypto/rsa"
	"fmt"
	"math/big"
	"strings"

	"golang.org/x/crypto/ssh"

	"verif/vf"
)

// Entry is one host key algorithm with the key that serves it.
type Entry struct {
	Algo   string     // negotiated host key algorithm name
	Signer ssh.Signer // real signer (plain key or certificate signer)
	Priv   any        // the standard-library private key behind it
	Blob   []byte     // K_S: Signer.PublicKey().Marshal()
	Cert   bool
}

// Set is the full key set.
type Set struct {
	Entries []Entry
	CA      ssh.Signer
	byAlgo  map[string]*Entry
}

// Get returns the entry for a host key algorithm name.
func (s *Set) Get(algo string) (*Entry, bool) { e, ok := s.byAlgo[algo]; return e, ok }

func detPrime(r *vf.Rand, bits int) *big.Int {
	buf := make([]byte, bits/8)
	for {
		r.Read(buf)
		buf[0] |= 0xc0
		buf[len(buf)-1] |= 1
		p := new(big.Int).SetBytes(buf)
		if p.ProbablyPrime(20) {
			return p
		}
	}
}

// DetRSA builds an RSA key from primes found with a deterministic stream.
func DetRSA(label string, bits int) *rsa.PrivateKey {
	r := vf.NewRand(label)
	for {
		p, q := detPrime(r, bits/2), detPrime(r, bits/2)
		if p.Cmp(q) == 0 {
			continue
		}
		n := new(big.Int).Mul(p, q)
		if n.BitLen() != bits {
			continue
		}
		phi := new(big.Int).Mul(new(big.Int).Sub(p, big.NewInt(1)), new(big.Int).Sub(q, big.NewInt(1)))
		d := new(big.Int).ModInverse(big.NewInt(65537), phi)
		if d == nil {
			continue
		}
		k := &rsa.PrivateKey{PublicKey: rsa.PublicKey{N: n, E: 65537}, D: d, Primes: []*big.Int{p, q}}
		k.Precompute()
		if k.Validate() != nil {
			continue
		}
		return k
	}
}

// DetECDSA builds an ECDSA key from a deterministic scalar.
func DetECDSA(label string, c elliptic.Curve) *ecdsa.PrivateKey {
	n := c.Params().N
	d := new(big.Int).SetBytes(vf.DetBytes(label, (n.BitLen()+7)/8+8))
	d.Mod(d, new(big.Int).Sub(n, big.NewInt(1)))
	d.Add(d, big.NewInt(1))
	x, y := c.ScalarBaseMult(d.Bytes())
	return &ecdsa.PrivateKey{PublicKey: ecdsa.PublicKey{Curve: c, X: x, Y: y}, D: d}
}

// DetDSA builds a DSA key (L1024 N160) with a deterministic stream.
func DetDSA(label string) (*dsa.PrivateKey, error) {
	k := &dsa.PrivateKey{}
	r := vf.NewRand(label)
	if err := dsa.GenerateParameters(&k.Parameters, r, dsa.L1024N160); err != nil {
		return nil, err
	}
	if err := dsa.GenerateKey(k, r); err != nil {
		return nil, err
	}
	return k, nil
}

const certSuffix = "-cert-v01@openssh.com"

// New builds the key set for `seed`. algos lists the host key algorithm names to serve
// (normally SupportedAlgorithms().HostKeys + InsecureAlgorithms().HostKeys); names whose key
// type this package cannot build are returned in skipped.
func New(seed int64, algos []string) (*Set, []string, error) {
	lbl := func(s string) string { return fmt.Sprintf("hk|%d|%s", seed, s) }
	ed := ed25519.NewKeyFromSeed(vf.DetBytes(lbl("ed25519"), 32))
	caKey := ed25519.NewKeyFromSeed(vf.DetBytes(lbl("ca"), 32))
	ca, err := ssh.NewSignerFromKey(caKey)
	if err != nil {
		return nil, nil, err
	}
	privs := map[string]any{}
	need := func(format string) (any, error) {
		if p, ok := privs[format]; ok {
			return p, nil
		}
		var p any
		switch format {
		case "ssh-ed25519":
			p = ed
		case "ecdsa-sha2-nistp256":
			p = DetECDSA(lbl("p256"), elliptic.P256())
		case "ecdsa-sha2-nistp384":
			p = DetECDSA(lbl("p384"), elliptic.P384())
		case "ecdsa-sha2-nistp521":
			p = DetECDSA(lbl("p521"), elliptic.P521())
		case "ssh-rsa":
			p = DetRSA(lbl("rsa"), 2048)
		case "ssh-dss":
			k, err := DetDSA(lbl("dsa"))
			if err != nil {
				return nil, err
			}
			p = k
		default:
			return nil, nil
		}
		privs[format] = p
		return p, nil
	}
	set := &Set{CA: ca, byAlgo: map[string]*Entry{}}
	signers := map[string]ssh.Signer{}
	var skipped []string
	for _, algo := range algos {
		cert := strings.HasSuffix(algo, certSuffix)
		format := strings.TrimSuffix(algo, certSuffix)
		if format == "rsa-sha2-256" || format == "rsa-sha2-512" {
			format = "ssh-rsa"
		}
		priv, err := need(format)
		if err != nil {
			return nil, nil, err
		}
		if priv == nil {
			skipped = append(skipped, algo)
			continue
		}
		key := format
		if cert {
			key += certSuffix
		}
		sg, ok := signers[key]
		if !ok {
			plain, err := ssh.NewSignerFromKey(priv)
			if err != nil {
				return nil, nil, fmt.Errorf("%s: %w", algo, err)
			}
			sg = plain
			if cert {
				c := &ssh.Certificate{
					Key:             plain.PublicKey(),
					Serial:          uint64(len(signers) + 1),
					CertType:        ssh.HostCert,
					KeyId:           "verif-host-" + format,
					ValidPrincipals: []string{"127.0.0.1", "localhost", "verif"},
					ValidAfter:      0,
					ValidBefore:     ssh.CertTimeInfinity,
				}
				if err := c.SignCert(vf.NewRand(lbl("nonce|"+key)), ca); err != nil {
					return nil, nil, err
				}
				if sg, err = ssh.NewCertSigner(c, plain); err != nil {
					return nil, nil, err
				}
			}
			signers[key] = sg
		}
		set.Entries = append(set.Entries, Entry{Algo: algo, Signer: sg, Priv: priv, Blob: sg.PublicKey().Marshal(), Cert: cert})
	}
	for i := range set.Entries {
		set.byAlgo[set.Entries[i].Algo] = &set.Entries[i]
	}
	return set, skipped, nil
}

// DistinctSigners returns each distinct signer of the set once (for ServerConfig.AddHostKey).
func (s *Set) DistinctSigners() []ssh.Signer {
	var out []ssh.Signer
	seen := map[ssh.Signer]bool{}
	for _, e := range s.Entries {
		if !seen[e.Signer] {
			seen[e.Signer] = true
			out = append(out, e.Signer)
		}
	}
	return out
}
