package main

import (
	"bytes"
	"crypto"
	"fmt"
	"os"
	"strings"

	"verif/vf"
)

// gpgPolicyOK: GnuPG refuses (EC)DSA signatures whose hash is narrower than the group order.
func gpgPolicyOK(signer string, h crypto.Hash) bool {
	need := map[string]int{"": 0, "rsa": 0, "dsa": 32, "p256": 32, "p384": 48, "p521": 64}[signer]
	return h.Size() >= need
}

// effective signature hash of Sign / Encrypt: the configured hash if the recipient/signing
// key preferences admit it, else SHA-256 (all fixture keys prefer SHA512 SHA384 SHA256 SHA224 SHA1).
func effSigHash(s spec) crypto.Hash {
	if s.op == "sign" || s.op == "encrypt" {
		if s.hash == crypto.SHA224 {
			return crypto.SHA256
		}
	}
	return s.hash
}

// legacy algorithms: a gpg refusal is tallied, not reported.
func legacy(s spec) bool {
	return effSigHash(s) == crypto.SHA1 && s.signer != ""
}

func gpgWanted(s spec, i int, thorough bool) bool {
	if !gpgPolicyOK(s.signer, effSigHash(s)) {
		return false
	}
	if s.msgName == "loneCR" && strings.Contains(s.op, "text") {
		return false // GnuPG treats a lone CR before LF differently in text mode; outside the property's text
	}
	switch s.op {
	case "encrypt", "sign", "symmetric":
		if s.hints%4 == 2 {
			return false // "_CONSOLE": gpg wants a terminal for for-your-eyes-only data
		}
		if s.op == "symmetric" && len(s.pass) == 0 {
			return false // an empty passphrase cannot be handed to gpg in loopback mode
		}
		if len(s.msg) > 50000 {
			return s.read == 0
		}
		return thorough || s.read == 0 || s.read == 22 || len(s.to) > 0
	default:
		// detached signatures cost one gpg process each
		if thorough {
			return s.msgName == "text5" || s.msgName == "text4"
		}
		if s.msgName != "text5" {
			return false
		}
		want := map[string]crypto.Hash{"rsa": crypto.SHA256, "dsa": crypto.SHA512, "p256": crypto.SHA256, "p384": crypto.SHA384, "p521": crypto.SHA512}[s.signer]
		if s.signer == "rsa" && strings.HasPrefix(s.op, "a") {
			want = crypto.SHA224
		}
		return s.hash == want
	}
}

func (w *world) gpgChecks(outs []produced) {
	if w.gpg == nil {
		return
	}
	c, g := w.c, w.gpg
	// 1. messages, batched by passphrase through --decrypt-files
	groups := map[string][]int{}
	var det []int
	for i, p := range outs {
		switch p.s.op {
		case "encrypt", "sign", "symmetric":
			k := string(p.s.pass)
			groups[k] = append(groups[k], i)
		default:
			det = append(det, i)
		}
	}
	type batch struct {
		pass string
		idx  []int
	}
	var batches []batch
	for pass, idx := range groups {
		for len(idx) > 0 {
			n := 120
			if n > len(idx) {
				n = len(idx)
			}
			batches = append(batches, batch{pass, idx[:n]})
			idx = idx[n:]
		}
	}
	c.ParallelFor(len(batches), func(bi int) {
		b := batches[bi]
		files := make([]string, len(b.idx))
		for k, i := range b.idx {
			files[k] = g.File(fmt.Sprintf("m%d", i), outs[i].out) + ".gpg"
			os.Rename(strings.TrimSuffix(files[k], ".gpg"), files[k])
		}
		pos := 0
		for pos < len(files) {
			args := append([]string{"--status-fd", "1", "--passphrase", b.pass, "--decrypt-files"}, files[pos:]...)
			out, serr, _ := g.Run(nil, args...)
			type st struct{ dec, good, bad, done bool }
			var cur *st
			n := 0
			finish := func(s *st, aborted bool) {
				p := outs[b.idx[pos+n-1]]
				c.Eval(1)
				data, rerr := os.ReadFile(strings.TrimSuffix(files[pos+n-1], ".gpg"))
				enc := p.s.op != "sign"
				same := rerr == nil && bytes.Equal(data, p.s.msg)
				if h := hintsOf(p.s.hints); rerr == nil && (h == nil || !h.IsBinary) {
					// literal packets of format 't': on output gpg converts to the native line ending by dropping CR octets
					same = bytes.Equal(bytes.ReplaceAll(data, []byte("\r"), nil), bytes.ReplaceAll(p.s.msg, []byte("\r"), nil))
				}
				ok := same && (!enc || s.dec) && (p.s.signer == "" || s.good) && !s.bad
				if ok {
					c.Outcome("gpg accepts package output: " + p.s.op)
					return
				}
				if legacy(p.s) {
					c.Outcome("gpg refuses a legacy algorithm (tallied only)")
					return
				}
				// a failure must be reproducible: gpg and its agent are external processes on a shared
				// machine; the same file is handed to gpg alone up to three more times
				for try := 0; try < 3; try++ {
					if w.gpgDecryptAlone(p, files[pos+n-1], b.pass) {
						c.Outcome("gpg accepts package output: " + p.s.op + " (on retry; first attempt failed inside a batch)")
						return
					}
				}
				c.Violation("GnuPG does not accept a message produced by "+p.s.op, map[string]any{"case": p.s.String(), "decryption_ok": s.dec, "goodsig": s.good, "badsig": s.bad,
					"output_matches": same, "aborted": aborted, "stderr": string(clip(serr, 600)), "message_hex": fmt.Sprintf("%x", clip(p.out, 300))})
			}
			for _, ln := range strings.Split(string(out), "\n") {
				switch {
				case strings.HasPrefix(ln, "[GNUPG:] FILE_START"):
					if cur != nil && !cur.done {
						finish(cur, true)
					}
					cur = &st{}
					n++
				case cur == nil:
				case strings.HasPrefix(ln, "[GNUPG:] DECRYPTION_OKAY"):
					cur.dec = true
				case strings.HasPrefix(ln, "[GNUPG:] GOODSIG"):
					cur.good = true
				case strings.HasPrefix(ln, "[GNUPG:] BADSIG"), strings.HasPrefix(ln, "[GNUPG:] ERRSIG"), strings.HasPrefix(ln, "[GNUPG:] DECRYPTION_FAILED"):
					cur.bad = true
				case strings.HasPrefix(ln, "[GNUPG:] FILE_DONE"):
					cur.done = true
					finish(cur, false)
				}
			}
			if cur != nil && !cur.done {
				finish(cur, true)
			}
			if n == 0 {
				c.Capped("gpg --decrypt-files produced no status output: " + string(clip(serr, 300)))
				return
			}
			pos += n
		}
	})
	// 2. detached signatures: one process each
	c.ParallelFor(len(det), func(k int) {
		p := outs[det[k]]
		sig := g.File("sig", p.out)
		doc := g.File("doc", p.s.msg)
		out, serr, _ := g.Run(nil, "--status-fd", "1", "--verify", sig, doc)
		c.Eval(1)
		if strings.Contains(string(out), "[GNUPG:] GOODSIG") && !strings.Contains(string(out), "BADSIG") {
			c.Outcome("gpg accepts package output: " + p.s.op)
			return
		}
		if legacy(p.s) {
			c.Outcome("gpg refuses a legacy algorithm (tallied only)")
			return
		}
		for try := 0; try < 3; try++ {
			o2, _, _ := g.Run(nil, "--status-fd", "1", "--verify", sig, doc)
			if strings.Contains(string(o2), "[GNUPG:] GOODSIG") && !strings.Contains(string(o2), "BADSIG") {
				c.Outcome("gpg accepts package output: " + p.s.op + " (on retry)")
				return
			}
		}
		c.Violation("GnuPG does not verify a detached signature produced by "+p.s.op, map[string]any{"case": p.s.String(), "status": string(clip(out, 400)), "stderr": string(clip(serr, 400)), "sig": vf.Hex8(p.out)})
	})
	c.Add("gpg_checked_outputs", int64(len(outs)))
}

// gpgDecryptAlone hands one file to a gpg process of its own and applies the same acceptance rule.
func (w *world) gpgDecryptAlone(p produced, file, pass string) bool {
	outFile := strings.TrimSuffix(file, ".gpg")
	os.Remove(outFile)
	out, _, _ := w.gpg.Run(nil, "--status-fd", "1", "--passphrase", pass, "--decrypt-files", file)
	st := string(out)
	data, err := os.ReadFile(outFile)
	if err != nil {
		return false
	}
	same := bytes.Equal(data, p.s.msg)
	if h := hintsOf(p.s.hints); h == nil || !h.IsBinary {
		same = bytes.Equal(bytes.ReplaceAll(data, []byte("\r"), nil), bytes.ReplaceAll(p.s.msg, []byte("\r"), nil))
	}
	enc := p.s.op != "sign"
	return same && (!enc || strings.Contains(st, "[GNUPG:] DECRYPTION_OKAY")) && (p.s.signer == "" || strings.Contains(st, "[GNUPG:] GOODSIG")) &&
		!strings.Contains(st, "BADSIG") && !strings.Contains(st, "DECRYPTION_FAILED")
}
