package main

import (
	"bytes"
	"fmt"
	"strings"

	"golang.org/x/crypto/openpgp"
	"golang.org/x/crypto/openpgp/armor"
	"verif/ref/pgpfix"
	"verif/ref/pgpref"
	"verif/vf"
)

// fixtures: every GnuPG-produced message of verif/ref/pgpfix/msgs (see gen-msgs.sh) is
// accepted by the package with the original plaintext and no signature error.
func (w *world) fixtures() {
	c := w.c
	names := pgpfix.MsgNames()
	plain, text, big := pgpfix.Plain(), pgpfix.Text(), pgpfix.Big()
	lockedRing := func() openpgp.EntityList {
		el, err := openpgp.ReadArmoredKeyRing(bytes.NewReader(pgpfix.Sec("locked")))
		if err != nil {
			panic(err)
		}
		return el
	}
	c.ParallelFor(len(names), func(i int) {
		name := names[i]
		f := strings.Split(name, ".")
		data := pgpfix.Msg(name)
		kind := f[0]
		want := plain
		if strings.HasSuffix(kind, "big") {
			want = big
		}
		if kind == "sigtext" {
			want = text
		}
		bad := func(class string, extra map[string]any) {
			d := map[string]any{"fixture": name}
			for k, v := range extra {
				d[k] = v
			}
			c.Violation(class, d)
		}
		c.Eval(1)
		switch kind {
		case "clear":
			return // cleartext fixtures belong to C46
		case "det", "dettext", "detasc":
			var ent *openpgp.Entity
			var err error
			docs := [][]byte{plain}
			if kind == "dettext" {
				docs = append(docs, pgpref.TextSigCanon(plain))
			}
			for _, doc := range docs {
				p, pv, st := vf.Protect(func() {
					if kind == "detasc" {
						ent, err = openpgp.CheckArmoredDetachedSignature(w.pubs, bytes.NewReader(doc), bytes.NewReader(data))
					} else {
						ent, err = openpgp.CheckDetachedSignature(w.pubs, bytes.NewReader(doc), bytes.NewReader(data))
					}
				})
				if p {
					bad("CheckDetachedSignature panics on a GnuPG signature", map[string]any{"panic": fmt.Sprint(pv), "stack": st})
					return
				}
				if err != nil || ent == nil || ent.PrimaryKey.KeyId != w.primaryID(f[1]) {
					bad("detached signature made by GnuPG is not accepted ["+kind+"]", map[string]any{"err": fmt.Sprint(err)})
					return
				}
			}
			if _, err := openpgp.CheckDetachedSignature(w.pubs, bytes.NewReader(append([]byte("x"), plain...)), bytes.NewReader(data)); err == nil && kind != "detasc" {
				bad("detached signature made by GnuPG verifies a different document", nil)
				return
			}
			c.Nontrivial("fixture/" + name)
			c.Outcome("gpg fixture accepted")
			c.Add("gpg_fixture_"+kind, 1)
			return
		}
		if kind == "encasc" {
			blk, err := armor.Decode(bytes.NewReader(data))
			if err != nil {
				bad("armored GnuPG message rejected by armor.Decode", map[string]any{"err": err.Error()})
				return
			}
			raw, err := readBody(blk.Body, 0)
			if err != nil {
				bad("armored GnuPG message: body read fails", map[string]any{"err": err.Error()})
				return
			}
			data = raw
		}
		var ring openpgp.KeyRing = w.ring
		pass := []byte("pw")
		var mkPrompt func() openpgp.PromptFunction
		switch {
		case kind == "sig" || kind == "sigbig" || kind == "sigtext":
			ring = w.pubs
		case name == "enc.locked.AES.gpg":
			ring = lockedRing()
			mkPrompt = func() openpgp.PromptFunction {
				calls := 0
				return func(keys []openpgp.Key, symmetric bool) ([]byte, error) {
					calls++
					if calls > 2 {
						return nil, fmt.Errorf("giving up")
					}
					for _, k := range keys {
						if err := k.PrivateKey.Decrypt([]byte(pgpfix.LockedPassphrase)); err != nil {
							return nil, err
						}
					}
					return nil, nil
				}
			}
		}
		for _, rs := range []int{0, 1, 23} {
			if len(want) > 50000 && rs == 1 {
				continue
			}
			var r readResult
			if mkPrompt != nil {
				prompt := mkPrompt()
				p, pv, st := vf.Protect(func() {
					r.md, r.parseErr = openpgp.ReadMessage(bytes.NewReader(data), ring, prompt, nil)
					if r.parseErr == nil {
						r.plaintext, r.bodyErr = readBody(r.md.UnverifiedBody, rs)
					}
				})
				if p {
					r.panicked, r.panicVal, r.stack = true, fmt.Sprint(pv), st
				}
				ring = lockedRing()
			} else {
				r = w.readMessage(data, ring, pass, rs)
			}
			switch {
			case r.panicked:
				bad("ReadMessage panics on a GnuPG-produced message", map[string]any{"panic": r.panicVal, "stack": r.stack})
				return
			case r.parseErr != nil:
				bad("GnuPG-produced message rejected by ReadMessage ["+kind+"]", map[string]any{"err": r.parseErr.Error()})
				return
			case r.bodyErr != nil:
				bad("GnuPG-produced message: reading the body fails ["+kind+"]", map[string]any{"err": r.bodyErr.Error()})
				return
			case !bytes.Equal(r.plaintext, want):
				bad("GnuPG-produced message read with a different plaintext ["+kind+"]", map[string]any{"gotlen": len(r.plaintext), "wantlen": len(want)})
				return
			}
			signed := strings.HasPrefix(kind, "sig")
			if signed {
				if !r.md.IsSigned || r.md.SignedBy == nil || r.md.SignedByKeyId != w.primaryID(f[1]) || r.md.SignatureError != nil || r.md.Signature == nil {
					bad("GnuPG-signed message not verified ["+kind+"]", map[string]any{"IsSigned": r.md.IsSigned, "sigerr": fmt.Sprint(r.md.SignatureError)})
					return
				}
			}
			if enc := strings.Contains(kind, "enc") || strings.HasPrefix(kind, "sym"); r.md.IsEncrypted != enc {
				bad("IsEncrypted wrong for a GnuPG-produced message", nil)
				return
			}
		}
		c.Nontrivial("fixture/" + name)
		c.Outcome("gpg fixture accepted")
		c.Add("gpg_fixture_"+kind, 1)
	})

	// A message with hidden recipient (gpg --throw-keyids, key id 0) makes ReadMessage try every
	// decryption key of the ring; the order of the ring must not matter.
	anon := pgpfix.Msg("encanon.rsa.AES.gpg")
	orders := [][]string{{"rsa", "dsa", "p256"}, {"dsa", "rsa", "p256"}, {"p256", "dsa", "rsa"}, {"p256", "rsa"}, {"rsa"}}
	for _, ord := range orders {
		var ring openpgp.EntityList
		for _, n := range ord {
			ring = append(ring, w.keys[n].sec)
		}
		r := w.readMessage(anon, ring, nil, 0)
		c.Eval(1)
		hasElGamalBefore := false
		for _, n := range ord {
			if n == "rsa" {
				break
			}
			if n == "dsa" {
				hasElGamalBefore = true
			}
		}
		switch {
		case r.panicked && hasElGamalBefore && strings.Contains(r.stack, "elgamal.Decrypt"):
			c.Violation("ReadMessage panics (elgamal.Decrypt: index out of range) when an RSA session-key packet with hidden key id is tried with an ElGamal key of the keyring", map[string]any{"ring_order": ord, "panic": r.panicVal, "stack": r.stack})
		case r.panicked:
			c.Violation("ReadMessage panics on a hidden-recipient message", map[string]any{"ring_order": ord, "panic": r.panicVal, "stack": r.stack})
		case r.parseErr != nil || r.bodyErr != nil || !bytes.Equal(r.plaintext, plain):
			c.Violation("hidden-recipient message (gpg --throw-keyids) not decrypted although the key is in the ring", map[string]any{"ring_order": ord, "err": fmt.Sprint(r.parseErr, r.bodyErr)})
		default:
			c.Outcome("gpg fixture accepted: hidden recipient")
			c.Nontrivial("fixture/anon/" + strings.Join(ord, ","))
		}
	}
}
