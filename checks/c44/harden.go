package main

// Hardening dimensions (HARDEN.md A-E) for C44. Every dimension is an enumerated field of a
// grid point (spec.x); the oracles are the ones of grid.go (round trip + reference reader).
//
//	A  caller-owned buffers: every Write gets a private copy that is overwritten as soon as
//	   Write returns, the passphrase and the FileHints structure are overwritten as soon as the
//	   constructor returns, and the buffer handed to Read is overwritten after each Read
//	B  (not applicable: the package has no caller-supplied destinations besides Read buffers)
//	C  every message length 0..1100 and 2^k+{-1,0,1}, 2^k-6+{-1,0,1} for k=10..16, 99999, 100000
//	D  non-initial states: a wrong passphrase first (rejected at the session-key stage, or only by
//	   the OCFB quick check of the data packet), key rings that hold the secret key of one
//	   recipient only, read sizes that change during one message, keys made by NewEntity with
//	   different preferences used in turn, compression levels
//	E  input readers that deliver 1 / 7 octets per Read or the last octets together with io.EOF,
//	   document readers without WriteTo that deliver 1/2/3/7 octets per Read (text-mode CR LF
//	   split over two Writes of the canonicalising hash)

import (
	"bytes"
	"crypto"
	"fmt"
	"io"
	"time"

	"golang.org/x/crypto/openpgp"
	"golang.org/x/crypto/openpgp/packet"
	"verif/ref/pgpref"
	"verif/vf"
)

type hard struct {
	clobW     bool // write buffers / passphrase / hints overwritten after the call
	clobR     bool // read buffer overwritten after each Read
	readMix   bool // read sizes cycle through mixSizes instead of one fixed size
	in        int  // input reader: 0 bytes.Reader, 1 one octet per Read, 2 seven octets, 3 4096 octets and the last ones together with io.EOF
	wrong     int  // symmetric: first passphrase is wrong; 1 = rejected by SymmetricKeyEncrypted.Decrypt, 2 = accepted there with a cipher of the same block size (rejected by the quick check of the data packet)
	ring      int  // 1: public keys + secret key of the LAST recipient; 2: secret key of the FIRST recipient + public keys in reverse order
	level     int  // compression level + 2 (0 = no CompressionConfig)
	srcChunk  int  // detached signatures: the document reader has no WriteTo and delivers this many octets per Read
	fixedRand bool // randomness independent of VERIF_SEED (cases whose applicability depends on random octets)
	noGPG     bool
	tag       string // which hardening group added the point (statistics only)
}

func (x hard) String() string {
	x.tag = ""
	if x == (hard{}) || x == (hard{noGPG: true}) {
		return ""
	}
	return fmt.Sprintf(" clobW=%v clobR=%v mix=%v in=%d wrong=%d ring=%d level=%d src=%d", x.clobW, x.clobR, x.readMix, x.in, x.wrong, x.ring, x.level-2, x.srcChunk)
}

func clobber(b []byte) {
	for i := range b {
		b[i] ^= 0xFF
	}
}

// clobberWriter hands every Write a private copy and overwrites it when Write has returned
// (io.Writer: "Write must not modify the slice data ... Implementations must not retain p").
type clobberWriter struct {
	w interface {
		Write([]byte) (int, error)
		Close() error
	}
}

func (cw clobberWriter) Write(p []byte) (int, error) {
	q := append(make([]byte, 0, len(p)+16), p...)
	n, err := cw.w.Write(q)
	clobber(q[:cap(q)])
	return n, err
}
func (cw clobberWriter) Close() error { return cw.w.Close() }

// chunkReader delivers at most n octets per Read, has no WriteTo, and (eofWithData) returns the
// final octets together with io.EOF as io.Reader permits.
type chunkReader struct {
	data        []byte
	n           int
	eofWithData bool
}

func (r *chunkReader) Read(p []byte) (int, error) {
	if len(r.data) == 0 {
		return 0, io.EOF
	}
	k := r.n
	if k > len(p) {
		k = len(p)
	}
	if k > len(r.data) {
		k = len(r.data)
	}
	copy(p, r.data[:k])
	r.data = r.data[k:]
	if r.eofWithData && len(r.data) == 0 {
		return k, io.EOF
	}
	return k, nil
}

func (x hard) input(b []byte) io.Reader {
	switch x.in {
	case 1:
		return &chunkReader{data: b, n: 1}
	case 2:
		return &chunkReader{data: b, n: 7}
	case 3:
		return &chunkReader{data: b, n: 4096, eofWithData: true}
	}
	return bytes.NewReader(b)
}

func (x hard) source(b []byte) io.Reader {
	if x.srcChunk > 0 {
		return &chunkReader{data: b, n: x.srcChunk}
	}
	return bytes.NewReader(b)
}

var mixSizes = []int{23, 1, 4096, 22, 5, 512, 21, 100}

// readBodyX is readBody with the hardening read dimensions.
func readBodyX(r io.Reader, size int, x hard) (data []byte, err error) {
	if !x.clobR && !x.readMix {
		return readBody(r, size)
	}
	if size <= 0 {
		size = 512
	}
	for steps := 0; steps < stepBudget; steps++ {
		sz := size
		if x.readMix {
			sz = mixSizes[steps%len(mixSizes)]
		}
		buf := make([]byte, sz)
		n, e := r.Read(buf)
		data = append(data, buf[:n]...)
		if x.clobR {
			for i := range buf { // the buffer is the caller's again
				buf[i] = 0xA5
			}
		}
		if e == io.EOF {
			return data, nil
		}
		if e != nil {
			return data, e
		}
	}
	return data, fmt.Errorf("step budget exhausted: no EOF after %d Read calls", stepBudget)
}

func blockSizeOf(c packet.CipherFunction) int {
	switch c {
	case packet.Cipher3DES, packet.CipherCAST5:
		return 8
	case packet.CipherAES128, packet.CipherAES192, packet.CipherAES256:
		return 16
	}
	return 0
}

// findWrong selects a wrong passphrase of the wanted class for a SymmetricallyEncrypt output.
// Class 1: SymmetricKeyEncrypted.Decrypt rejects it (garbage cipher octet / key length).
// Class 2: it is accepted there and names a cipher with the block size of the real one, so that
// SymmetricallyEncrypted.Decrypt is tried with a wrong key before the right one.
// (A wrong passphrase that yields a cipher with a different block size makes the later attempt
// fail by design - "can't try ciphers with different block lengths" - and is never selected.)
func findWrong(msg []byte, s spec) ([]byte, string) {
	p, err := packet.NewReader(bytes.NewReader(msg)).Next()
	if err != nil {
		return nil, "first packet unreadable: " + err.Error()
	}
	ske, ok := p.(*packet.SymmetricKeyEncrypted)
	if !ok {
		return nil, "first packet is not a symmetric-key ESK"
	}
	for i := 0; i < 6000; i++ {
		cand := []byte(fmt.Sprintf("wrong-%d", i))
		_, cf, err := ske.Decrypt(cand)
		switch {
		case s.x.wrong == 1 && err != nil:
			return cand, ""
		case s.x.wrong == 2 && err == nil && blockSizeOf(cf) == blockSizeOf(effCipher(s.cipher)):
			return cand, ""
		}
	}
	return nil, "no wrong passphrase of the wanted class among 6000 candidates"
}

func (w *world) readMessageX(msg []byte, ring openpgp.KeyRing, s spec) (res readResult) {
	x := s.x
	x.tag = ""
	if x == (hard{}) || x == (hard{noGPG: true}) {
		return w.readMessage(msg, ring, s.pass, s.read)
	}
	prompt := promptFor(s.pass)
	if x.wrong != 0 {
		var wrong []byte
		var why string
		if p, pv, _ := vf.Protect(func() { wrong, why = findWrong(msg, s) }); p {
			why = fmt.Sprint("panic while classifying passphrases: ", pv)
		}
		if wrong == nil {
			res.skipped, res.panicVal = true, why
			return
		}
		calls := 0
		prompt = func(keys []openpgp.Key, symmetric bool) ([]byte, error) {
			calls++
			switch {
			case !symmetric || calls > 3:
				return nil, fmt.Errorf("no (more) passphrases")
			case calls == 1:
				return append([]byte{}, wrong...), nil
			}
			return append([]byte{}, s.pass...), nil
		}
	}
	p, pv, st := vf.Protect(func() {
		res.md, res.parseErr = openpgp.ReadMessage(x.input(msg), ring, prompt, nil)
		if res.parseErr != nil {
			return
		}
		res.plaintext, res.bodyErr = readBodyX(res.md.UnverifiedBody, s.read, x)
	})
	if p {
		res.panicked, res.panicVal, res.stack = true, fmt.Sprint(pv), st
	}
	return
}

// hardRing: a key ring that holds all public keys but the secret key of ONE recipient only.
func (w *world) hardRing(s spec) openpgp.KeyRing {
	var ring openpgp.EntityList
	switch s.x.ring {
	case 1:
		ring = append(ring, w.pubs...)
		ring = append(ring, w.keys[s.to[len(s.to)-1]].sec)
	case 2:
		ring = append(ring, w.keys[s.to[0]].sec)
		for i := len(w.pubs) - 1; i >= 0; i-- {
			ring = append(ring, w.pubs[i])
		}
	}
	return ring
}

// newEntityKeys: keys made by NewEntity (openpgp/keys.go) with three different preference sets;
// they are serialized and read back so that the package, the public-only view and the
// reference model all see the same octets.
var newKeyNames = []string{"new256", "new512", "new384"}

func (w *world) addNewEntities() bool {
	c := w.c
	prefs := []struct {
		h  crypto.Hash
		ci packet.CipherFunction
	}{{crypto.SHA256, packet.CipherAES128}, {crypto.SHA512, packet.CipherAES256}, {crypto.SHA384, packet.CipherCAST5}}
	for i, n := range newKeyNames {
		now := w.now
		cfg := &packet.Config{Rand: vf.NewRand("c44|newentity|" + n), RSABits: 1024, DefaultHash: prefs[i].h, DefaultCipher: prefs[i].ci, Time: func() time.Time { return now }}
		var secB, pubB bytes.Buffer
		var err error
		var e *openpgp.Entity
		if p, pv, st := vf.Protect(func() {
			e, err = openpgp.NewEntity("C44 "+n, "", n+"@verif.test", cfg)
			if err != nil {
				return
			}
			if err = e.SerializePrivate(&secB, cfg); err != nil {
				return
			}
			err = e.Serialize(&pubB)
		}); p {
			c.Violation("NewEntity / Serialize panics", map[string]any{"key": n, "panic": fmt.Sprint(pv), "stack": st})
			return false
		}
		if err != nil {
			c.Violation("NewEntity / Serialize fails", map[string]any{"key": n, "err": err.Error()})
			return false
		}
		sec, err1 := openpgp.ReadKeyRing(bytes.NewReader(secB.Bytes()))
		pub, err2 := openpgp.ReadKeyRing(bytes.NewReader(pubB.Bytes()))
		if err1 != nil || err2 != nil || len(sec) != 1 || len(pub) != 1 {
			c.Violation("key made by NewEntity is rejected by ReadKeyRing", map[string]any{"key": n, "err": fmt.Sprint(err1, err2)})
			return false
		}
		rk, err := pgpref.ParseKeys(secB.Bytes())
		if err != nil || len(rk) < 2 {
			c.Violation("key made by NewEntity is rejected by the reference key parser", map[string]any{"key": n, "err": fmt.Sprint(err)})
			return false
		}
		w.keys[n] = &keyInfo{n, sec[0], pub[0], rk}
		w.ring = append(w.ring, sec[0])
		w.pubs = append(w.pubs, pub[0])
		pgpref.AddTo(w.refKey, rk)
		w.refAll = append(w.refAll, rk...)
	}
	return true
}

// hardenSpecs appends the hardening grid points.
func (w *world) hardenSpecs(add func(spec), all, bin, text []shape) {
	c := w.c
	byName := map[string]shape{}
	for _, sh := range all {
		byName[sh.name] = sh
	}
	pick := func(names ...string) (out []shape) {
		for _, n := range names {
			out = append(out, byName[n])
		}
		return
	}
	big := shape{"rand100000", c.Bytes("c44-big", 0, 100000), false}
	n0 := 0
	tag := ""
	count := func(label string, f func()) {
		before := n0
		tag = label
		f()
		c.Set("hard_points_"+label, n0-before)
	}
	addX := func(s spec) { n0++; s.x.tag = tag; add(s) }

	// H1 (A): caller-owned buffers on both sides, x shape x write chunking x read size
	count("A_buffers", func() {
		bases := []spec{
			{op: "encrypt", to: []string{"rsa"}, signer: "p256", cipher: packet.CipherAES128, hash: crypto.SHA256},
			{op: "sign", signer: "rsa", hash: crypto.SHA512},
			{op: "symmetric", cipher: packet.CipherAES256, comp: packet.CompressionZIP, hash: crypto.SHA256},
			{op: "symmetric", cipher: packet.CipherCAST5, comp: packet.CompressionNone, hash: crypto.SHA1},
		}
		shapes := append(pick("rand1", "rand23", "rand511", "rand512", "rand513", "rand700", "rand1025", "rand8192", "text700"), big)
		for _, b := range bases {
			for _, sh := range shapes {
				for _, ch := range []int{0, 1, 100, 512, 4096} {
					if ch == 1 && len(sh.data) > 2000 || ch == 4096 && len(sh.data) < 4096 {
						continue
					}
					if b.comp != packet.CompressionNone && (ch == 100 || ch == 1) {
						continue // a deflate state costs ~1 MB per case
					}
					for ri, rd := range []int{1, 22, 23, 4096, -1} {
						if len(sh.data) > 50000 && (rd == 1 || rd == 22 || ch == 100) {
							continue
						}
						s := b
						s.msg, s.msgName, s.chunk, s.read, s.hints = sh.data, sh.name, ch, rd, -1
						s.x = hard{clobW: true, clobR: true, readMix: rd < 0, noGPG: ri != 3}
						addX(s)
					}
				}
			}
		}
	})

	// H2 (C/E): every message length 0..1100, and the powers of two up to the property's 100k
	count("C_lengths", func() {
		bases := []spec{
			{op: "sign", signer: "p256", hash: crypto.SHA256},
			{op: "symmetric", cipher: packet.CipherAES128, comp: packet.CompressionNone, hash: crypto.SHA256, s2kCount: 1024},
			{op: "symmetric", cipher: packet.CipherCAST5, comp: packet.CompressionNone, hash: crypto.SHA256, s2kCount: 1024},
			{op: "encrypt", to: []string{"rsa"}, cipher: packet.CipherAES256, hash: crypto.SHA256},
			{op: "encrypt", to: []string{"dsa"}, signer: "p384", cipher: packet.CipherAES128, hash: crypto.SHA384},
		}
		dense := c.Bytes("c44-dense", 0, 1100)
		chunks := []int{0, 1, 100, 512}
		reads := []int{0, 1, 22, 23, 4096}
		for bi, b := range bases {
			hintSets := []int{0}
			if bi == 1 {
				hintSets = []int{0, 1, 3} // file names of 0, 8 and 255 octets shift the stream offsets
			}
			top := 1100
			if b.op == "encrypt" && !c.Thorough {
				top = 600 // public-key operations dominate the cost; 0..600 covers the 192- and 512-octet stream boundaries
			}
			for _, hi := range hintSets {
				for n := 0; n <= top; n++ {
					s := b
					if bi == 2 && (n >= 170 && n <= 200 || n >= 490 && n <= 520) {
						s.comp = packet.CompressionZLIB // a deflate state costs ~1 MB: compressed only around the stream boundaries
					}
					s.msg, s.msgName, s.chunk, s.read, s.hints = dense[:n], fmt.Sprintf("len%d", n), chunks[(n+bi)%4], reads[(n/4+bi)%5], hi
					near := func(m int) bool { return n >= m-7 && n <= m+1 }
					s.x.noGPG = !(bi <= 1 && hi == 0 && (near(192) || near(512)))
					if !s.x.noGPG {
						s.read = 0 // gpgWanted hands only these read sizes to gpg
					}
					addX(s)
				}
			}
		}
		var lens []int
		for k := 10; k <= 16; k++ {
			for _, d := range []int{-7, -6, -5, -1, 0, 1} {
				lens = append(lens, 1<<k+d)
			}
		}
		lens = append(lens, 99999, 100000)
		long := c.Bytes("c44-long", 0, 100000)
		for bi, b := range bases {
			for li, n := range lens {
				if n <= 1100 {
					continue
				}
				s := b
				s.msg, s.msgName, s.chunk, s.read, s.hints = long[:n], fmt.Sprintf("len%d", n), []int{0, 4096, 1000, 65536}[(li+bi)%4], []int{0, 4096, 23}[(li/4+bi)%3], 0
				s.x.noGPG = true
				s.x.clobW, s.x.clobR = li%2 == 0, li%2 == 0
				addX(s)
			}
		}
	})

	// H3 (D): wrong passphrase first; rings with one secret key; keys made by NewEntity; compression levels
	count("D_states", func() {
		for _, ci := range []packet.CipherFunction{packet.Cipher3DES, packet.CipherCAST5, packet.CipherAES128, packet.CipherAES192, packet.CipherAES256} {
			for _, wr := range []int{1, 2} {
				for _, sh := range pick("rand23", "rand700", "rand0") {
					for _, co := range []packet.CompressionAlgo{packet.CompressionNone, packet.CompressionZIP} {
						addX(spec{op: "symmetric", cipher: ci, comp: co, hash: crypto.SHA256, s2kCount: 1024, msg: sh.data, msgName: sh.name, read: []int{0, 1, 23}[wr%3], hints: -1,
							x: hard{wrong: wr, fixedRand: true, noGPG: true}})
					}
				}
			}
		}
		for _, to := range [][]string{{"rsa", "dsa"}, {"dsa", "rsa"}, {"p256", "dsa"}, {"dsa", "p256", "rsa"}} {
			for _, rm := range []int{1, 2} {
				for _, sg := range []string{"", "p256", "dsa"} {
					for _, sh := range pick("rand22", "rand700") {
						addX(spec{op: "encrypt", to: to, signer: sg, hash: crypto.SHA256, msg: sh.data, msgName: sh.name, chunk: 100, read: 23, hints: -1, x: hard{ring: rm, noGPG: true}})
					}
				}
			}
		}
		k := 0
		for round := 0; round < 2; round++ { // each key is used again after the others
			for _, nk := range newKeyNames {
				for _, sg := range []string{"", nk, "rsa"} {
					for _, h := range []crypto.Hash{crypto.SHA256, crypto.SHA512, crypto.SHA384} {
						for _, ci := range []packet.CipherFunction{0, packet.CipherAES256, packet.CipherCAST5} {
							sh := pick("rand23", "rand700", "text700", "rand1025")[k%4]
							addX(spec{op: "encrypt", to: []string{nk}, signer: sg, hash: h, cipher: ci, msg: sh.data, msgName: fmt.Sprintf("%s#%d", sh.name, round), chunk: []int{0, 100}[k%2], read: []int{0, 1, 23}[k%3], hints: -1, x: hard{noGPG: true}})
							k++
						}
					}
				}
				for _, h := range []crypto.Hash{crypto.SHA256, crypto.SHA512, crypto.SHA384, crypto.SHA1, crypto.SHA224} {
					sh := pick("rand23", "rand700", "text700", "rand1025")[k%4]
					addX(spec{op: "sign", signer: nk, hash: h, msg: sh.data, msgName: fmt.Sprintf("%s#%d", sh.name, round), read: []int{0, 1, 23}[k%3], hints: -1, x: hard{noGPG: true}})
					addX(spec{op: []string{"detach", "detachtext", "adetach", "adetachtext"}[k%4], signer: nk, hash: h, msg: sh.data, msgName: fmt.Sprintf("%s#%d", sh.name, round), x: hard{noGPG: true}})
					k++
				}
			}
		}
		for _, co := range []packet.CompressionAlgo{packet.CompressionZIP, packet.CompressionZLIB} {
			for _, lv := range []int{-1, 0, 1, 9} {
				for _, sh := range append(pick("rand700", "zeros600", "text700", "rand8192", "rand0"), big) {
					addX(spec{op: "symmetric", cipher: packet.CipherAES128, comp: co, hash: crypto.SHA256, msg: sh.data, msgName: sh.name, chunk: 512, read: 0, hints: 0, x: hard{level: lv + 2}})
				}
			}
		}
	})

	// H4 (E): input delivered in small reads / final octets together with io.EOF
	count("E_input_readers", func() {
		bases := []spec{
			{op: "encrypt", to: []string{"rsa"}, signer: "dsa", cipher: packet.CipherAES128, hash: crypto.SHA256},
			{op: "encrypt", to: []string{"dsa"}, cipher: packet.Cipher3DES, hash: crypto.SHA256},
			{op: "sign", signer: "p384", hash: crypto.SHA384},
			{op: "symmetric", cipher: packet.CipherAES128, comp: packet.CompressionZLIB, hash: crypto.SHA256},
			{op: "symmetric", cipher: packet.CipherCAST5, comp: packet.CompressionNone, hash: crypto.SHA256},
		}
		for _, b := range bases {
			for _, in := range []int{1, 2, 3} {
				for _, sh := range pick("rand0", "rand1", "rand22", "rand513", "rand8192", "text700") {
					for _, rd := range []int{0, 1, 23, -1} {
						s := b
						s.msg, s.msgName, s.chunk, s.read, s.hints = sh.data, sh.name, 100, rd, -1
						s.x = hard{in: in, readMix: rd < 0, clobR: rd == 23, noGPG: true}
						addX(s)
					}
				}
			}
		}
		// detached signatures over a document reader that has no WriteTo (several Writes into the
		// canonicalising hash), checked with the same kind of reader and a chunked signature reader
		crlf := shape{"crlfmix", []byte("a\r\nb\r\n\r\n\n\n\r\nend\r\n"), false}
		for _, op := range []string{"detach", "detachtext", "adetach", "adetachtext"} {
			for _, sg := range []string{"rsa", "p256"} {
				for _, sh := range append(append([]shape{}, text...), crlf, byName["rand700"]) {
					for _, sc := range []int{1, 2, 3, 7} {
						addX(spec{op: op, signer: sg, hash: crypto.SHA256, msg: sh.data, msgName: sh.name, x: hard{srcChunk: sc, in: sc % 4, noGPG: !(sc == 2 && sh.name == "text5")}})
					}
				}
			}
		}
	})
}
