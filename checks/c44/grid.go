package main

import (
	"bytes"
	"crypto"
	"fmt"
	"strings"
	"sync"
	"time"

	"golang.org/x/crypto/openpgp"
	"golang.org/x/crypto/openpgp/packet"
	"verif/ref/pgpref"
	"verif/vf"
)

// spec is one grid point: which operation with which keys, algorithms and message.
type spec struct {
	op       string // encrypt | sign | symmetric | detach | detachtext | adetach | adetachtext
	to       []string
	signer   string
	hash     crypto.Hash
	cipher   packet.CipherFunction
	comp     packet.CompressionAlgo
	s2kCount int
	pass     []byte
	msg      []byte
	msgName  string
	chunk    int // write chunk size, 0 = one Write
	read     int // read buffer size
	hints    int // index into hint variants
	pubRing  bool
	x        hard // hardening dimensions (harden.go); the zero value is the plain case
}

func (s spec) String() string {
	return fmt.Sprintf("%s to=%v signer=%s hash=%s cipher=%s comp=%s s2k=%d pass=%d msg=%s chunk=%d read=%d hints=%d",
		s.op, s.to, s.signer, hashName[s.hash], cipherName[s.cipher], compName[s.comp], s.s2kCount, len(s.pass), s.msgName, s.chunk, s.read, s.hints) + s.x.String()
}

// produced is an output kept for the gpg pass.
type produced struct {
	s   spec
	out []byte
}

func hintsOf(i int) *openpgp.FileHints {
	switch i % 4 {
	case 1:
		return &openpgp.FileHints{IsBinary: true, FileName: "file.bin", ModTime: time.Unix(1700000000, 0)}
	case 2:
		return &openpgp.FileHints{FileName: "_CONSOLE"}
	case 3:
		return &openpgp.FileHints{IsBinary: true, FileName: strings.Repeat("n", 300)}
	}
	return nil
}

func writeChunks(w interface{ Write([]byte) (int, error) }, msg []byte, chunk int) error {
	if chunk <= 0 {
		_, err := w.Write(msg)
		return err
	}
	for i := 0; i < len(msg); i += chunk {
		j := i + chunk
		if j > len(msg) {
			j = len(msg)
		}
		if _, err := w.Write(msg[i:j]); err != nil {
			return err
		}
	}
	return nil
}

func (w *world) produce(s spec) (out []byte, err error) {
	var buf bytes.Buffer
	cfg := w.cfg(s.String(), s.hash, s.cipher, s.comp)
	if s.x.fixedRand {
		cfg.Rand = vf.NewRand("c44|fixed|" + s.String())
	}
	cfg.S2KCount = s.s2kCount
	if s.x.level != 0 {
		cfg.CompressionConfig = &packet.CompressionConfig{Level: s.x.level - 2}
	}
	hints := hintsOf(s.hints)
	if s.x.clobW && hints != nil {
		h := *hints
		hints = &h
	}
	var signer *openpgp.Entity
	if s.signer != "" {
		signer = w.keys[s.signer].sec
	}
	p, pv, st := vf.Protect(func() {
		switch s.op {
		case "encrypt", "sign", "symmetric":
			var wc interface {
				Write([]byte) (int, error)
				Close() error
			}
			switch s.op {
			case "encrypt":
				var to []*openpgp.Entity
				for _, n := range s.to {
					to = append(to, w.keys[n].pub)
				}
				wc, err = openpgp.Encrypt(&buf, to, signer, hints, cfg)
			case "sign":
				wc, err = openpgp.Sign(&buf, signer, hints, cfg)
			default:
				pass := s.pass
				if s.x.clobW {
					pass = append([]byte{}, s.pass...)
				}
				wc, err = openpgp.SymmetricallyEncrypt(&buf, pass, hints, cfg)
				if s.x.clobW {
					clobber(pass) // the caller may wipe its passphrase as soon as the call returns
				}
			}
			if err != nil {
				return
			}
			if s.x.clobW {
				if hints != nil { // the hints structure belongs to the caller again
					*hints = openpgp.FileHints{IsBinary: !hints.IsBinary, FileName: "clobbered", ModTime: time.Unix(1, 0)}
				}
				wc = clobberWriter{wc}
			}
			if err = writeChunks(wc, s.msg, s.chunk); err != nil {
				return
			}
			err = wc.Close()
		case "detach":
			err = openpgp.DetachSign(&buf, signer, s.x.source(s.msg), cfg)
		case "detachtext":
			err = openpgp.DetachSignText(&buf, signer, s.x.source(s.msg), cfg)
		case "adetach":
			err = openpgp.ArmoredDetachSign(&buf, signer, s.x.source(s.msg), cfg)
		case "adetachtext":
			err = openpgp.ArmoredDetachSignText(&buf, signer, s.x.source(s.msg), cfg)
		}
	})
	if p {
		return nil, fmt.Errorf("PANIC %v\n%s", pv, st)
	}
	return buf.Bytes(), err
}

func (w *world) primaryID(name string) uint64 { return w.keys[name].ref[0].KeyID }

// encryption subkey id of a fixture as seen by the reference key parser
func (w *world) encID(name string) uint64 {
	for _, k := range w.keys[name].ref {
		if k.Tag == 7 || k.Tag == 14 {
			return k.KeyID
		}
	}
	return 0
}

// verify checks one produced output with the package reader and with the reference reader.
func (w *world) verify(s spec, out []byte) bool {
	c := w.c
	bad := func(class string, extra map[string]any) bool {
		d := map[string]any{"case": s.String(), "output": vf.Hex8(out)}
		for k, v := range extra {
			d[k] = v
		}
		c.Violation(class, d)
		return false
	}
	switch s.op {
	case "detach", "detachtext", "adetach", "adetachtext":
		return w.verifyDetached(s, out, bad)
	}
	// --- the package's reader
	var ring openpgp.KeyRing = w.ring
	if s.pubRing && s.op == "sign" {
		ring = w.pubs
	}
	if s.x.ring != 0 {
		ring = w.hardRing(s)
	}
	r := w.readMessageX(out, ring, s)
	switch {
	case r.skipped:
		c.Outcome("wrong-passphrase case skipped: " + r.panicVal)
		return true
	case r.panicked:
		return bad("ReadMessage panics on a message produced by the package", map[string]any{"panic": r.panicVal, "stack": r.stack})
	case r.parseErr != nil:
		return bad("ReadMessage rejects a message produced by "+s.op, map[string]any{"err": r.parseErr.Error()})
	case r.bodyErr != nil:
		return bad("reading the body of a message produced by "+s.op+" fails", map[string]any{"err": r.bodyErr.Error()})
	case !bytes.Equal(r.plaintext, s.msg):
		return bad("ReadMessage returns a different plaintext than was written ("+s.op+")", map[string]any{"gotlen": len(r.plaintext), "wantlen": len(s.msg)})
	}
	md := r.md
	enc := s.op != "sign"
	if md.IsEncrypted != enc || md.IsSymmetricallyEncrypted != (s.op == "symmetric") {
		return bad("MessageDetails encryption flags wrong", map[string]any{"IsEncrypted": md.IsEncrypted, "IsSymmetricallyEncrypted": md.IsSymmetricallyEncrypted})
	}
	if s.signer != "" {
		if !md.IsSigned || md.SignedBy == nil || md.SignedByKeyId != w.primaryID(s.signer) || md.SignedBy.PublicKey.KeyId != w.primaryID(s.signer) {
			return bad("signed message not reported as signed by the signing key", map[string]any{"IsSigned": md.IsSigned, "SignedByKeyId": fmt.Sprintf("%x", md.SignedByKeyId)})
		}
		if md.SignatureError != nil {
			return bad("signature error on an unmodified message produced by "+s.op, map[string]any{"err": md.SignatureError.Error()})
		}
		if md.Signature == nil {
			return bad("no Signature in MessageDetails after EOF", nil)
		}
	} else if md.IsSigned || md.SignatureError != nil {
		return bad("unsigned message reported as signed / with signature error", map[string]any{"err": fmt.Sprint(md.SignatureError)})
	}
	if s.op == "encrypt" {
		var want []uint64
		for _, n := range s.to {
			want = append(want, w.encID(n))
		}
		if fmt.Sprint(md.EncryptedToKeyIds) != fmt.Sprint(want) {
			return bad("EncryptedToKeyIds are not the recipients' encryption subkeys", map[string]any{"got": fmt.Sprintf("%x", md.EncryptedToKeyIds), "want": fmt.Sprintf("%x", want)})
		}
		ok := false
		for _, id := range want {
			if md.DecryptedWith.PublicKey != nil && md.DecryptedWith.PublicKey.KeyId == id {
				ok = true
			}
		}
		if !ok {
			return bad("DecryptedWith is not a recipient key", nil)
		}
	}
	h := hintsOf(s.hints)
	if h == nil {
		h = &openpgp.FileHints{}
	}
	wantName := h.FileName
	if len(wantName) > 255 {
		wantName = wantName[:255]
	}
	var wantTime uint32
	if !h.ModTime.IsZero() {
		wantTime = uint32(h.ModTime.Unix())
	}
	if md.LiteralData == nil || md.LiteralData.IsBinary != h.IsBinary || md.LiteralData.FileName != wantName || md.LiteralData.Time != wantTime {
		return bad("literal data metadata (hints) not preserved", map[string]any{"got": fmt.Sprintf("%+v", md.LiteralData)})
	}

	// --- the reference reader (independent of the package)
	keys := *w.refKey
	keys.Passphrase = s.pass
	m, err := pgpref.ReadMessage(out, &keys)
	if err != nil {
		return bad("reference RFC 4880 reader rejects a message produced by "+s.op+": "+classOf(err), map[string]any{"err": err.Error()})
	}
	if !bytes.Equal(m.Literal, s.msg) {
		return bad("reference reader obtains a different plaintext ("+s.op+")", map[string]any{"gotlen": len(m.Literal)})
	}
	if m.Encrypted != enc || (enc && !m.MDC) {
		return bad("message produced by "+s.op+" is not integrity protected (tag 18 + verified MDC) for the reference reader", map[string]any{"encrypted": m.Encrypted, "mdc": m.MDC})
	}
	wf := byte('t')
	if h.IsBinary {
		wf = 'b'
	}
	if m.Format != wf || m.Filename != wantName || m.Date != wantTime {
		return bad("literal packet header differs from the hints (reference reader)", map[string]any{"format": string(m.Format), "name": m.Filename, "date": m.Date})
	}
	if s.signer != "" {
		if m.Sig == nil || m.OnePass == nil {
			return bad("no one-pass signature / signature packet found by the reference reader", nil)
		}
		if m.OnePass.KeyID != w.primaryID(s.signer) || !m.Sig.HasIssuer || m.Sig.Issuer != w.primaryID(s.signer) || m.OnePass.HashAlgo != m.Sig.HashAlgo || m.OnePass.Type != m.Sig.Type {
			return bad("one-pass signature packet and signature packet disagree or name the wrong key", nil)
		}
		if err := m.Sig.Verify(w.keys[s.signer].ref[0].Pub, m.Literal); err != nil {
			return bad("signature does not verify with the reference RFC 4880 5.2.4 verifier ("+s.op+")", map[string]any{"err": err.Error()})
		}
		if !m.Sig.HasCreated || m.Sig.Created != uint32(w.now.Unix()) {
			return bad("signature creation time is not config.Time", map[string]any{"created": m.Sig.Created})
		}
		c.Outcome("signature hash " + hashNameOfID(m.Sig.HashAlgo))
	}
	if enc {
		c.Outcome(fmt.Sprintf("encrypted with cipher %d", m.Cipher))
	}
	if s.op == "symmetric" {
		if m.Compression != int(s.comp) || m.Cipher != int(effCipher(s.cipher)) {
			return bad("SymmetricallyEncrypt does not use the configured cipher/compression", map[string]any{"cipher": m.Cipher, "compression": m.Compression})
		}
	}
	return true
}

func effCipher(c packet.CipherFunction) packet.CipherFunction {
	if c == 0 {
		return packet.CipherAES128
	}
	return c
}

func hashNameOfID(id int) string {
	for h, i := range hashID {
		if i == id {
			return hashName[h]
		}
	}
	return fmt.Sprint(id)
}

func classOf(err error) string {
	s := err.Error()
	if i := strings.IndexByte(s, ':'); i > 0 {
		s = s[:i]
	}
	if len(s) > 60 {
		s = s[:60]
	}
	return s
}

func (w *world) verifyDetached(s spec, out []byte, bad func(string, map[string]any) bool) bool {
	c := w.c
	armored := s.op == "adetach" || s.op == "adetachtext"
	text := s.op == "detachtext" || s.op == "adetachtext"
	var ring openpgp.KeyRing = w.ring
	if s.pubRing {
		ring = w.pubs
	}
	check := func(data, sig []byte) (ent *openpgp.Entity, err error, panicked bool, pv any) {
		panicked, pv, _ = vf.Protect(func() {
			if armored {
				ent, err = openpgp.CheckArmoredDetachedSignature(ring, s.x.source(data), s.x.input(sig))
			} else {
				ent, err = openpgp.CheckDetachedSignature(ring, s.x.source(data), s.x.input(sig))
			}
		})
		return
	}
	ent, err, p, pv := check(s.msg, out)
	if p {
		return bad("CheckDetachedSignature panics on a signature produced by the package", map[string]any{"panic": fmt.Sprint(pv)})
	}
	if err != nil {
		return bad("CheckDetachedSignature rejects a signature produced by "+s.op, map[string]any{"err": err.Error()})
	}
	if ent == nil || ent.PrimaryKey.KeyId != w.primaryID(s.signer) {
		return bad("CheckDetachedSignature returns the wrong signer", nil)
	}
	// a changed document must not verify (full enumeration of document faults is in faults.go)
	alt := append(append([]byte{}, s.msg...), 'x')
	if _, err, _, _ := check(alt, out); err == nil {
		return bad("detached signature verifies a document with an appended octet", nil)
	}
	// reference view
	raw := out
	if armored {
		a, err := pgpref.ArmorDecode(out)
		if err != nil || a.Type != "PGP SIGNATURE" || !a.HasCRC {
			return bad("armored detached signature rejected by the reference armor decoder", map[string]any{"err": fmt.Sprint(err), "out": string(out)})
		}
		raw = a.Body
	}
	pk, err := pgpref.SplitPackets(raw)
	if err != nil || len(pk) != 1 || pk[0].Tag != 2 {
		return bad("detached signature is not exactly one signature packet", map[string]any{"err": fmt.Sprint(err)})
	}
	rs, err := pgpref.ParseSigV4(pk[0].Body)
	if err != nil {
		return bad("detached signature rejected by the reference parser", map[string]any{"err": err.Error()})
	}
	wantType := 0
	if text {
		wantType = 1
	}
	if rs.Type != wantType || rs.HashAlgo != hashID[s.hash] || !rs.HasIssuer || rs.Issuer != w.primaryID(s.signer) || !rs.HasCreated || rs.Created != uint32(w.now.Unix()) {
		return bad("detached signature has wrong type / hash / issuer / creation time", map[string]any{"type": rs.Type, "hash": rs.HashAlgo})
	}
	if err := rs.Verify(w.keys[s.signer].ref[0].Pub, s.msg); err != nil {
		return bad("detached signature does not verify with the reference RFC 4880 5.2.4 verifier ("+s.op+")", map[string]any{"err": err.Error()})
	}
	if text {
		// the same signature must verify every line-ending variant of the document
		if alt := pgpref.TextSigCanon(s.msg); !bytes.Equal(alt, s.msg) {
			if _, err, _, _ := check(alt, out); err != nil {
				return bad("text-mode signature does not verify the CRLF form of the document", map[string]any{"err": err.Error()})
			}
		}
	}
	c.Outcome("detached signature verified (package + reference)")
	return true
}

type shape struct {
	name string
	data []byte
	text bool // usable for text-mode / gpg text comparisons (no lone CR)
}

func (w *world) shapes() (bin []shape, text []shape) {
	c := w.c
	for _, n := range []int{0, 1, 2, 21, 22, 23, 511, 512, 513, 700, 1023, 1024, 1025, 8192} {
		bin = append(bin, shape{fmt.Sprintf("rand%d", n), c.Bytes("c44-msg", n, n), false})
	}
	bin = append(bin, shape{"zeros600", make([]byte, 600), false})
	for i, t := range []string{"", "a", "a\n", "a\r\n", "line1\nline2\r\nline3", "trail \t\n- dash\n\nFrom x\n", "\n\n", "\r\n\r\n", "-----BEGIN PGP MESSAGE-----\n\n=\n"} {
		text = append(text, shape{fmt.Sprintf("text%d", i), []byte(t), true})
	}
	text = append(text, shape{"loneCR", []byte("a\rb\n\rc\r"), false})
	text = append(text, shape{"text700", []byte(strings.Repeat("0123456789 abcdefghij \r\nxyz\n", 25)), true})
	return
}

func (w *world) grid() []produced {
	c := w.c
	bin, text := w.shapes()
	all := append(append([]shape{}, bin...), text...)
	big := shape{"rand100000", c.Bytes("c44-big", 0, 100000), false}
	hashes := []crypto.Hash{crypto.SHA256, crypto.SHA1, crypto.SHA224, crypto.SHA384, crypto.SHA512}
	ciphers := []packet.CipherFunction{0, packet.Cipher3DES, packet.CipherCAST5, packet.CipherAES128, packet.CipherAES192, packet.CipherAES256}
	comps := []packet.CompressionAlgo{packet.CompressionNone, packet.CompressionZIP, packet.CompressionZLIB}
	recips := [][]string{{"rsa"}, {"dsa"}, {"p256"}, {"rsa", "dsa"}}
	signers := []string{"", "rsa", "dsa", "p256", "p384", "p521"}
	chunks := []int{0, 1, 100, 512}
	reads := []int{0, 1, 22, 23, 4096}

	var specs []spec
	add := func(s spec) {
		i := len(specs)
		if s.hints < 0 {
			s.hints = i
		}
		if s.pass == nil && s.op == "symmetric" {
			s.pass = []byte("pw")
		}
		s.pubRing = i%2 == 1
		specs = append(specs, s)
	}
	small := func(i int) shape { return all[i%len(all)] }

	// A. Encrypt: full algorithm cross, message shape / chunking / read size rotating
	k := 0
	for _, to := range recips {
		for _, ci := range ciphers {
			for _, sg := range signers {
				for _, h := range hashes {
					nsh := 1
					if c.Thorough {
						nsh = 8
					}
					for r := 0; r < nsh; r++ {
						sh := small(k)
						add(spec{op: "encrypt", to: to, signer: sg, hash: h, cipher: ci, comp: comps[k%3], msg: sh.data, msgName: sh.name, chunk: chunks[k%4], read: reads[k%5], hints: -1})
						k++
					}
				}
			}
		}
	}
	// B. Encrypt: three algorithm combinations x every shape x chunking x read size
	combos := []spec{
		{op: "encrypt", to: []string{"rsa"}, cipher: packet.CipherAES128, hash: crypto.SHA256},
		{op: "encrypt", to: []string{"dsa"}, signer: "p256", cipher: packet.CipherAES256, hash: crypto.SHA512},
		{op: "encrypt", to: []string{"p256"}, signer: "rsa", cipher: packet.CipherCAST5, hash: crypto.SHA1},
	}
	shapeCross := func(base spec, shapes []shape) {
		for _, sh := range shapes {
			for _, ch := range chunks {
				if ch == 1 && len(sh.data) > 2000 {
					continue
				}
				for _, rd := range reads {
					if !c.Thorough && len(sh.data) < 20 && (ch > 1 || (rd != 0 && rd != 1)) {
						continue // tiny messages: chunking and read size cannot matter beyond {one write, bytewise}
					}
					s := base
					s.msg, s.msgName, s.chunk, s.read, s.hints = sh.data, sh.name, ch, rd, -1
					add(s)
				}
			}
		}
		for _, rd := range []int{0, 1, 4096} {
			s := base
			s.msg, s.msgName, s.chunk, s.read, s.hints = big.data, big.name, []int{0, 4096, 1000}[rd%3], rd, -1
			add(s)
		}
	}
	for _, b := range combos {
		shapeCross(b, all)
	}
	// C. Sign: signer x hash x shape
	for _, sg := range signers[1:] {
		for _, h := range hashes {
			for si, sh := range all {
				add(spec{op: "sign", signer: sg, hash: h, msg: sh.data, msgName: sh.name, chunk: chunks[(si+k)%4], read: reads[(si+k)%5], hints: -1})
				k++
			}
		}
	}
	shapeCross(spec{op: "sign", signer: "p256", hash: crypto.SHA256}, bin)
	// D. SymmetricallyEncrypt: cipher x compression x S2K hash; S2K count and passphrase variants; shapes
	for _, ci := range ciphers {
		for _, co := range comps {
			for _, h := range hashes {
				sh := small(k)
				add(spec{op: "symmetric", cipher: ci, comp: co, hash: h, msg: sh.data, msgName: sh.name, chunk: chunks[k%4], read: reads[k%5], hints: -1})
				k++
			}
		}
	}
	for _, cnt := range []int{1024, 65536, 1 << 20} {
		for _, pass := range [][]byte{{}, []byte("pw"), bytes.Repeat([]byte("long passphrase "), 8)} {
			sh := small(k)
			add(spec{op: "symmetric", cipher: packet.CipherAES128, hash: crypto.SHA256, s2kCount: cnt, pass: pass, msg: sh.data, msgName: sh.name, hints: -1})
			k++
		}
	}
	add(spec{op: "symmetric", cipher: packet.CipherAES256, hash: crypto.SHA1, s2kCount: 65011712, msg: []byte("max count"), msgName: "maxcount", hints: -1})
	for _, b := range []spec{
		{op: "symmetric", cipher: packet.CipherAES128, comp: packet.CompressionNone, hash: crypto.SHA256},
		{op: "symmetric", cipher: packet.Cipher3DES, comp: packet.CompressionZIP, hash: crypto.SHA1},
		{op: "symmetric", cipher: packet.CipherAES256, comp: packet.CompressionZLIB, hash: crypto.SHA512},
	} {
		shapeCross(b, all)
	}
	// E. detached signatures: operation x signer x hash x shape
	for _, op := range []string{"detach", "detachtext", "adetach", "adetachtext"} {
		for _, sg := range signers[1:] {
			for _, h := range hashes {
				for _, sh := range append(append([]shape{}, text...), bin[9], bin[0]) {
					add(spec{op: op, signer: sg, hash: h, msg: sh.data, msgName: sh.name, hints: 0})
				}
			}
		}
	}
	add(spec{op: "detach", signer: "rsa", hash: crypto.SHA256, msg: big.data, msgName: big.name})
	add(spec{op: "detachtext", signer: "p256", hash: crypto.SHA512, msg: big.data, msgName: big.name})

	w.hardenSpecs(add, all, bin, text)
	c.Set("grid_points", len(specs))
	var keep []produced
	var mu sync.Mutex
	perOp := map[string]int{}
	c.ParallelFor(len(specs), func(i int) {
		s := specs[i]
		tStart := time.Now()
		defer func() { c.Add("busy_ms_"+s.x.tag, time.Since(tStart).Milliseconds()) }()
		out, err := w.produce(s)
		c.Eval(1)
		if err != nil {
			cls := "producing a message fails: " + s.op
			if strings.HasPrefix(err.Error(), "PANIC") {
				cls = "producing a message panics: " + s.op
			}
			c.Violation(cls, map[string]any{"case": s.String(), "err": err.Error()})
			return
		}
		if !w.verify(s, out) {
			return
		}
		if len(s.msg) > 0 {
			c.Nontrivial("grid/" + s.String())
		}
		c.Outcome("round trip ok: " + s.op)
		if c.WantSample() && (i == 7 || i == len(specs)-40) {
			c.Sample(map[string]any{"part": "grid", "case": s.String(), "output_hex": fmt.Sprintf("%x", clip(out, 400))})
		}
		mu.Lock()
		perOp[s.op]++
		if w.gpg != nil && !s.x.noGPG && gpgWanted(s, i, c.Thorough) {
			keep = append(keep, produced{s, out})
		}
		mu.Unlock()
	})
	c.Set("grid_points_by_operation", perOp)
	return keep
}

func clip(b []byte, n int) []byte {
	if len(b) > n {
		return b[:n]
	}
	return b
}
