package main

import (
	"bytes"
	"crypto"
	"fmt"
	"sort"
	"strings"
	"sync"

	"golang.org/x/crypto/openpgp"
	"golang.org/x/crypto/openpgp/packet"
	"verif/ref/pgpref"
	"verif/vf"
)

// faults: for representative outputs, a substitution at every offset and every truncation.
// A faulted signed / integrity-protected message must be rejected, or report a signature
// or MDC error once the body has been read to EOF, or (faults in unauthenticated framing)
// yield the identical plaintext; it must never yield different plaintext as verified.
func (w *world) faults() {
	c := w.c
	text := []byte("Signed message\nline 2 \t\r\n\n- dash line\nlast line without newline")
	long := []byte(strings.Repeat("The quick brown fox jumps over the lazy dog. ", 16)) // 720 octets: two partial-length chunks
	reps := []spec{
		{op: "sign", signer: "rsa", hash: crypto.SHA256, msg: text},
		{op: "sign", signer: "p256", hash: crypto.SHA512, msg: text, hints: 1},
		{op: "sign", signer: "dsa", hash: crypto.SHA384, msg: long},
		{op: "encrypt", to: []string{"rsa"}, cipher: packet.CipherAES128, hash: crypto.SHA256, msg: text},
		{op: "encrypt", to: []string{"dsa"}, signer: "dsa", cipher: packet.CipherAES256, hash: crypto.SHA256, msg: text},
		{op: "encrypt", to: []string{"p256"}, signer: "p521", cipher: packet.CipherCAST5, hash: crypto.SHA512, msg: long, hints: 1},
		{op: "encrypt", to: []string{"rsa", "dsa"}, signer: "rsa", cipher: packet.CipherAES256, hash: crypto.SHA1, msg: text},
		{op: "symmetric", cipher: packet.CipherAES128, comp: packet.CompressionNone, hash: crypto.SHA256, pass: []byte("pw"), msg: text},
		{op: "symmetric", cipher: packet.Cipher3DES, comp: packet.CompressionZIP, hash: crypto.SHA1, pass: []byte("pw"), msg: text, hints: 1},
		{op: "symmetric", cipher: packet.CipherAES256, comp: packet.CompressionZLIB, hash: crypto.SHA512, pass: []byte("pw"), msg: long, chunk: 100},
		{op: "detach", signer: "rsa", hash: crypto.SHA256, msg: text},
		{op: "adetach", signer: "p384", hash: crypto.SHA384, msg: text},
		{op: "detachtext", signer: "dsa", hash: crypto.SHA256, msg: text},
	}
	subs := func(b byte) []byte {
		cand := []byte{b ^ 1, b ^ 0x80, b ^ 0x1B}
		if c.Thorough {
			cand = append(cand, 0x00, 0xFF, b^0x40, b+1)
		}
		var out []byte
		seen := map[byte]bool{b: true}
		for _, x := range cand {
			if !seen[x] {
				seen[x] = true
				out = append(out, x)
			}
		}
		return out
	}
	type job struct {
		rep, off int
		sub      byte
		trunc    bool
		doc      bool // fault in the signed document of a detached signature
		second   int  // >0: additionally flip bit 0 of the octet at this offset (MDC packet header inside the ciphertext)
	}
	var jobs []job
	outs := make([][]byte, len(reps))
	protFrom := make([]int, len(reps)) // encrypted messages: first offset of the integrity-protected packet body (-1: none)
	strict := make([]map[int]bool, len(reps)) // detached binary signatures: offsets that are authenticated
	for ri, s := range reps {
		s.msgName = fmt.Sprintf("rep%d", ri)
		reps[ri] = s
		out, err := w.produce(s)
		if err != nil {
			c.Violation("producing a message fails: "+s.op, map[string]any{"case": s.String(), "err": err.Error()})
			return
		}
		if !w.verify(s, out) {
			return
		}
		outs[ri] = out
		protFrom[ri] = -1
		if s.op == "encrypt" || s.op == "symmetric" {
			if pk, err := pgpref.SplitPackets(out); err == nil {
				for _, p := range pk {
					if p.Tag == 18 {
						protFrom[ri] = p.BodyStart
					}
				}
			}
			if protFrom[ri] < 0 {
				c.Violation("encrypted message has no integrity-protected (tag 18) packet", s.String())
				return
			}
		}
		for off := range out {
			for _, x := range subs(out[off]) {
				jobs = append(jobs, job{rep: ri, off: off, sub: x})
			}
			jobs = append(jobs, job{rep: ri, off: off, trunc: true})
		}
		if s.op != "sign" && !strings.Contains(s.op, "detach") && s.signer == "" {
			// "MDC stripping": the two ciphertext octets that carry the MDC packet header (22 and 21 octets
			// before the end) are damaged as well, so a reader that treats a missing MDC packet as
			// "not protected" would accept the first fault
			for _, second := range []int{len(out) - 22, len(out) - 21} {
				for off := 0; off < len(out)-22; off++ {
					jobs = append(jobs, job{rep: ri, off: off, sub: out[off] ^ 1, second: second})
				}
			}
		}
		if strings.Contains(s.op, "detach") {
			for off := range s.msg {
				for _, x := range subs(s.msg[off]) {
					jobs = append(jobs, job{rep: ri, off: off, sub: x, doc: true})
				}
				jobs = append(jobs, job{rep: ri, off: off, trunc: true, doc: true})
			}
		}
		if s.op == "detach" || s.op == "detachtext" {
			pk, err := pgpref.SplitPackets(out)
			if err != nil || len(pk) != 1 {
				c.Violation("detached signature is not exactly one signature packet", s.String())
				return
			}
			rs, err := pgpref.ParseSigV4(pk[0].Body)
			if err != nil {
				c.Violation("detached signature rejected by the reference parser", s.String())
				return
			}
			m := map[int]bool{}
			b0 := pk[0].BodyStart
			for o := 0; o < rs.HashedEnd; o++ {
				m[b0+o] = true // version .. end of hashed subpackets: covered by the hash
			}
			m[b0+rs.UnhashedEnd], m[b0+rs.UnhashedEnd+1] = true, true // left 16 bits of the hash
			for _, r := range rs.MPIValue {
				for o := r[0]; o < r[1]; o++ {
					m[b0+o] = true // signature value
				}
			}
			strict[ri] = m
		}
	}
	sizes := map[string]int{}
	for ri, s := range reps {
		sizes[fmt.Sprintf("%d:%s", ri, s.op)] = len(outs[ri])
	}
	c.Set("fault_targets_octets", sizes)
	c.Set("fault_cases", len(jobs))

	var mu sync.Mutex
	identical := map[string][]int{} // offsets whose faults normalise away, per representative

	c.ParallelFor(len(jobs), func(ji int) {
		j := jobs[ji]
		s := reps[j.rep]
		orig := outs[j.rep]
		what := fmt.Sprintf("rep %d (%s) offset %d", j.rep, s.op, j.off)
		if j.trunc {
			what += " truncation"
		} else {
			what += fmt.Sprintf(" -> %02x", j.sub)
		}
		if j.doc {
			what += " (in the signed document)"
		}
		if j.second > 0 {
			what += fmt.Sprintf(" plus bit 0 of offset %d (MDC packet header)", j.second)
		}
		mutate := func(src []byte) []byte {
			if j.trunc {
				return append([]byte{}, src[:j.off]...)
			}
			m := append([]byte{}, src...)
			m[j.off] = j.sub
			if j.second > 0 {
				m[j.second] ^= 1
			}
			return m
		}
		c.Eval(1)
		c.Nontrivial(fmt.Sprintf("F/%d/%d/%v/%02x/%v/%d", j.rep, j.off, j.trunc, j.sub, j.doc, j.second))
		detail := func(extra map[string]any) map[string]any {
			d := map[string]any{"fault": what, "case": s.String(), "original_hex": fmt.Sprintf("%x", orig)}
			for k, v := range extra {
				d[k] = v
			}
			return d
		}

		if strings.Contains(s.op, "detach") {
			armored := strings.HasPrefix(s.op, "a")
			textMode := strings.HasSuffix(s.op, "text")
			doc, sig := s.msg, orig
			if j.doc {
				doc = mutate(s.msg)
			} else {
				sig = mutate(orig)
			}
			var err error
			var ent *openpgp.Entity
			p, pv, st := vf.Protect(func() {
				if armored {
					ent, err = openpgp.CheckArmoredDetachedSignature(w.pubs, bytes.NewReader(doc), bytes.NewReader(sig))
				} else {
					ent, err = openpgp.CheckDetachedSignature(w.pubs, bytes.NewReader(doc), bytes.NewReader(sig))
				}
			})
			switch {
			case p:
				c.Violation("CheckDetachedSignature panics on a faulted signature", detail(map[string]any{"panic": fmt.Sprint(pv), "stack": st}))
			case err != nil:
				c.Outcome("detached: rejected")
			case j.doc:
				same := bytes.Equal(doc, s.msg)
				if textMode {
					same = bytes.Equal(pgpref.TextSigCanon(doc), pgpref.TextSigCanon(s.msg))
				}
				if !same {
					c.Violation("detached signature verifies a modified document", detail(map[string]any{"document": string(doc)}))
				} else {
					c.Outcome("detached: document fault normalises away (line ending)")
				}
			default:
				if ent == nil || ent.PrimaryKey.KeyId != w.primaryID(s.signer) {
					c.Violation("faulted detached signature accepted for a different signer", detail(nil))
				} else if strict[j.rep] != nil && !j.trunc && strict[j.rep][j.off] {
					c.Violation("fault in the authenticated part of a detached signature (hashed area, hash prefix or signature value) is accepted", detail(nil))
				} else {
					c.Outcome("detached: fault in unauthenticated framing, original document still verifies")
					mu.Lock()
					identical[fmt.Sprintf("%d:%s", j.rep, s.op)] = append(identical[fmt.Sprintf("%d:%s", j.rep, s.op)], j.off)
					mu.Unlock()
				}
			}
			return
		}

		msg := mutate(orig)
		readSizes := []int{[]int{0, 1, 22, 23, 4096}[ji%5]}
		if c.Thorough {
			readSizes = []int{0, 1, 22, 23, 4096} // thorough: every fault with every read size
		}
		c.Eval(len(readSizes) - 1)
		for _, rs := range readSizes {
			w.judgeFault(j.rep, j.off, s, msg, rs, detail, &mu, identical, protFrom[j.rep] >= 0 && j.off >= protFrom[j.rep])
		}
	})
	ranges := map[string]string{}
	for k := range identical {
		sort.Ints(identical[k])
		ranges[k] = asRanges(dedupe(identical[k]))
	}
	c.Set("offsets_where_faults_normalise_away", ranges)
	if c.WantSample() {
		c.Sample(map[string]any{"part": "faults", "representative": reps[0].String(), "message_hex": fmt.Sprintf("%x", outs[0]), "faults": "every offset x {b^1,b^0x80,b^0x1B} and every truncation"})
	}
}

// judgeFault reads one faulted message with one read size and classifies the outcome.
func (w *world) judgeFault(rep, off int, s spec, msg []byte, readSize int, detail func(map[string]any) map[string]any, mu *sync.Mutex, identical map[string][]int, protected bool) {
	c := w.c
	r := w.readMessage(msg, w.ring, s.pass, readSize)
	switch {
	case r.panicked:
		c.Violation("ReadMessage / body read panics on a faulted message", detail(map[string]any{"panic": r.panicVal, "stack": r.stack}))
	case r.parseErr != nil:
		c.Outcome("rejected by ReadMessage")
	case r.bodyErr != nil:
		if strings.Contains(r.bodyErr.Error(), "step budget") {
			c.Violation("reading the body of a faulted message does not terminate", detail(nil))
			return
		}
		c.Outcome("body read error (" + errClass(r.bodyErr) + ")")
	default:
		same := bytes.Equal(r.plaintext, s.msg)
		md := r.md
		encrypted := s.op != "sign"
		if md.SignatureError != nil {
			c.Outcome("EOF reached, SignatureError set")
			return
		}
		verified := md.IsSigned && md.SignedBy != nil
		switch {
		case same && protected:
			// everything inside the tag-18 packet is covered by the MDC: the hash runs over the
			// whole decrypted stream (signature packets and the MDC packet header included), so
			// a change there must be reported even when the literal data comes out unchanged
			c.Violation("fault inside the integrity-protected (MDC) container is read to EOF without any error", detail(map[string]any{"IsSigned": md.IsSigned, "plaintext_identical": true}))
		case same:
			c.Outcome("EOF reached, identical plaintext (fault in unauthenticated framing)")
			mu.Lock()
			identical[fmt.Sprintf("%d:%s", rep, s.op)] = append(identical[fmt.Sprintf("%d:%s", rep, s.op)], off)
			mu.Unlock()
		case encrypted:
			c.Violation("modified integrity-protected (MDC) message read to EOF without error yields DIFFERENT plaintext", detail(map[string]any{"plaintext": string(clip(r.plaintext, 200)), "IsSigned": md.IsSigned}))
		case verified:
			c.Violation("modified signed message read to EOF yields DIFFERENT plaintext with no signature error", detail(map[string]any{"plaintext": string(clip(r.plaintext, 200))}))
		default:
			// signed-only message whose fault removed the signature framing: reported as unsigned / unknown signer
			c.Outcome("EOF reached, different plaintext but reported as NOT verified (IsSigned=false or SignedBy=nil)")
		}
	}
}

func asRanges(a []int) string {
	var sb strings.Builder
	for i := 0; i < len(a); {
		j := i
		for j+1 < len(a) && a[j+1] == a[j]+1 {
			j++
		}
		if sb.Len() > 0 {
			sb.WriteByte(',')
		}
		if j > i {
			fmt.Fprintf(&sb, "%d-%d", a[i], a[j])
		} else {
			fmt.Fprintf(&sb, "%d", a[i])
		}
		i = j + 1
	}
	return sb.String()
}

func dedupe(a []int) []int {
	var out []int
	for i, x := range a {
		if i == 0 || x != a[i-1] {
			out = append(out, x)
		}
	}
	return out
}

func errClass(err error) string {
	s := err.Error()
	switch {
	case strings.Contains(s, "hash mismatch"), strings.Contains(s, "MDC"), strings.Contains(s, "error during reading"):
		return "MDC/signature error"
	case strings.Contains(s, "unexpected EOF"):
		return "unexpected EOF"
	case strings.Contains(s, "flate"), strings.Contains(s, "zlib"):
		return "decompression"
	case strings.Contains(s, "openpgp: invalid data"):
		return "invalid data"
	case strings.Contains(s, "openpgp: unsupported"):
		return "unsupported feature"
	}
	return "other"
}
