// C44: OpenPGP messages round-trip, verify, interoperate with GnuPG, and every single
// fault of a signed or integrity-protected message is detected.
//
//	grid.go    exhaustive algorithm/shape grid: Encrypt / Sign / SymmetricallyEncrypt /
//	           DetachSign[Text] / ArmoredDetachSign[Text] x key kind x cipher x hash x compression
//	           x message shape x write chunking x read size; read back by the package AND by an
//	           independent RFC 4880 reader/verifier (verif/ref/pgpref)
//	fixtures.go  GnuPG 2.2.40-produced messages (committed fixtures) read by the package
//	gpg.go     package output handed to gpg (throw-away GNUPGHOME) when gpg is installed
//	faults.go  fault enumeration: substitution at every offset and every truncation of 13
//	           representative outputs
//
//go:debug cryptocustomrand=1
package main

import (
	"bytes"
	"crypto"
	_ "crypto/sha1"
	_ "crypto/sha256"
	_ "crypto/sha512"
	"fmt"
	"io"
	"time"

	"golang.org/x/crypto/openpgp"
	"golang.org/x/crypto/openpgp/packet"
	"verif/ref/pgpfix"
	"verif/ref/pgpref"
	"verif/vf"
)

func main() { vf.Main("C44", vf.FaultEnumeration, run) }

type keyInfo struct {
	name string
	sec  *openpgp.Entity // with private key material
	pub  *openpgp.Entity // public part only (recipient / verification view)
	ref  []*pgpref.Key   // the same key parsed by the reference model
}

type world struct {
	c      *vf.Ctx
	keys   map[string]*keyInfo
	ring   openpgp.EntityList // all secret keys: decrypts and verifies
	pubs   openpgp.EntityList // public keys only
	refKey *pgpref.Keys
	refAll []*pgpref.Key
	gpg    *pgpfix.GPG
	now    time.Time
}

var keyNames = []string{"rsa", "dsa", "p256", "p384", "p521"}

var hashName = map[crypto.Hash]string{crypto.SHA1: "SHA1", crypto.SHA224: "SHA224", crypto.SHA256: "SHA256", crypto.SHA384: "SHA384", crypto.SHA512: "SHA512"}
var hashID = map[crypto.Hash]int{crypto.SHA1: 2, crypto.SHA224: 11, crypto.SHA256: 8, crypto.SHA384: 9, crypto.SHA512: 10}
var cipherName = map[packet.CipherFunction]string{0: "default", packet.Cipher3DES: "3DES", packet.CipherCAST5: "CAST5", packet.CipherAES128: "AES128", packet.CipherAES192: "AES192", packet.CipherAES256: "AES256"}
var compName = map[packet.CompressionAlgo]string{packet.CompressionNone: "none", packet.CompressionZIP: "zip", packet.CompressionZLIB: "zlib"}

func loadWorld(c *vf.Ctx) *world {
	w := &world{c: c, keys: map[string]*keyInfo{}, refKey: &pgpref.Keys{Passphrase: []byte("pw")}, now: time.Unix(pgpfix.FixtureTime, 0)}
	for _, n := range keyNames {
		sec, err := openpgp.ReadArmoredKeyRing(bytes.NewReader(pgpfix.Sec(n)))
		if err != nil || len(sec) != 1 {
			panic(fmt.Sprintf("fixture %s: %v", n, err))
		}
		pub, err := openpgp.ReadArmoredKeyRing(bytes.NewReader(pgpfix.Pub(n)))
		if err != nil || len(pub) != 1 {
			panic(fmt.Sprintf("fixture %s (public): %v", n, err))
		}
		a, err := pgpref.ArmorDecode(pgpfix.Sec(n))
		if err != nil {
			panic(err)
		}
		rk, err := pgpref.ParseKeys(a.Body)
		if err != nil {
			panic(err)
		}
		w.keys[n] = &keyInfo{n, sec[0], pub[0], rk}
		w.ring = append(w.ring, sec[0])
		w.pubs = append(w.pubs, pub[0])
		pgpref.AddTo(w.refKey, rk)
		w.refAll = append(w.refAll, rk...)
	}
	return w
}

func (w *world) cfg(label string, h crypto.Hash, ci packet.CipherFunction, comp packet.CompressionAlgo) *packet.Config {
	now := w.now
	return &packet.Config{Rand: vf.NewRand(fmt.Sprintf("c44|%d|%s", w.c.Seed, label)), DefaultHash: h, DefaultCipher: ci,
		DefaultCompressionAlgo: comp, Time: func() time.Time { return now }}
}

const stepBudget = 1 << 22

// readBody reads r to EOF with buffers of the given size (0: growing buffer as io.ReadAll does).
func readBody(r io.Reader, size int) (data []byte, err error) {
	if size <= 0 {
		size = 512
	}
	buf := make([]byte, size)
	for steps := 0; steps < stepBudget; steps++ {
		n, e := r.Read(buf)
		data = append(data, buf[:n]...)
		if e == io.EOF {
			return data, nil
		}
		if e != nil {
			return data, e
		}
	}
	return data, fmt.Errorf("step budget exhausted: no EOF after %d Read calls", stepBudget)
}

// readResult is what a reader of a message observes.
type readResult struct {
	panicked  bool
	panicVal  string
	stack     string
	parseErr  error // ReadMessage error
	bodyErr   error // error while reading UnverifiedBody
	md        *openpgp.MessageDetails
	plaintext []byte
}

func promptFor(pass []byte) openpgp.PromptFunction {
	calls := 0
	return func(keys []openpgp.Key, symmetric bool) ([]byte, error) {
		calls++
		if calls > 2 || !symmetric {
			return nil, fmt.Errorf("no (more) passphrases")
		}
		return pass, nil
	}
}

func (w *world) readMessage(msg []byte, ring openpgp.KeyRing, pass []byte, readSize int) (res readResult) {
	p, pv, st := vf.Protect(func() {
		res.md, res.parseErr = openpgp.ReadMessage(bytes.NewReader(msg), ring, promptFor(pass), nil)
		if res.parseErr != nil {
			return
		}
		res.plaintext, res.bodyErr = readBody(res.md.UnverifiedBody, readSize)
	})
	if p {
		res.panicked, res.panicVal, res.stack = true, fmt.Sprint(pv), st
	}
	return
}

func run(c *vf.Ctx) {
	c.Rule("grid: {Encrypt x recipient{rsa,dsa/elgamal,p256+rsa-subkey,rsa+dsa} x cipher{default,3DES,CAST5,AES128/192/256} x signer{none,rsa,dsa,p256,p384,p521} x hash{SHA1,224,256,384,512}; " +
		"Sign x signer x hash; SymmetricallyEncrypt x cipher x compression{none,zip,zlib} x S2K hash x S2K count x passphrase; DetachSign/DetachSignText/ArmoredDetachSign/ArmoredDetachSignText x signer x hash} " +
		"x message shape {0,1,2,21,22,23,511,512,513,700,8192,100000 octets, text edge cases} x write chunking x read size {1,22,23,512,4096}; " +
		"faults: for 13 representative outputs a substitution at EVERY offset (b^1, b^0x80, b^0x1B; thorough also 0x00, 0xFF) and EVERY truncation, for detached signatures also every octet of the signed document; " +
		"non-trivial = distinct (output, offset, substitution) / distinct grid points with a non-empty message; oracle = round trip + independent RFC 4880 reader/verifier (verif/ref/pgpref) + gpg 2.2")
	c.Assume("the standard library (crypto/*, compress/*, math/big) is correct; fixture keys were generated by GnuPG; GnuPG is an additional oracle and is never the reason for a failure when absent or when it refuses an algorithm by policy")
	w := loadWorld(c)
	g, why := pgpfix.NewGPG("c44")
	if g == nil {
		c.Set("external_oracle", "absent: "+why)
	} else {
		c.Set("external_oracle", g.Version)
		w.gpg = g
		defer g.Close()
	}
	phase := map[string]float64{}
	t0 := time.Now()
	step := func(name string, f func()) {
		t0 = time.Now()
		f()
		phase[name] = time.Since(t0).Seconds()
	}
	var outs []produced
	step("grid", func() { outs = w.grid() })
	step("gpg_fixtures", func() { w.fixtures() })
	step("gpg_reads_go_output", func() { w.gpgChecks(outs) })
	step("faults", func() { w.faults() })
	c.Set("phase_seconds", phase)
}
