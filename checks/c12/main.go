// C12: legacy block ciphers (Blowfish incl. NewSaltedCipher/ExpandKey, CAST5, Twofish,
// TEA with any even round count, XTEA, PKCS#12 RC2) are invertible, equal to their
// published reference algorithms, and accept exactly the documented key lengths.
//
// Grid: for every cipher, every key length 0..80 (accept/reject rule), every accepted
// length x key value classes x block value classes x {separate, in-place} x
// {Encrypt, Decrypt}; Blowfish additionally NewSaltedCipher over key length 0..80 x salt
// length menu and every ExpandKey re-keying history up to depth 2 over a key-length menu;
// TEA every round count 0..130 (and around the 8-/16-bit widths of rounds and rounds/2); RC2 the full product key length 1..128 x effective bits
// 1..1024 (RFC 2268 range). Oracle: reference models in /verif/ref (tables computed from
// pi / q-construction, or transcribed from libgcrypt+OpenSSL and validated with the RFC
// vectors).
package main

import (
	"bytes"
	"crypto/cipher"
	"fmt"

	"golang.org/x/crypto/blowfish"
	"golang.org/x/crypto/cast5"
	"golang.org/x/crypto/pkcs12"
	"golang.org/x/crypto/tea"
	"golang.org/x/crypto/twofish"
	"golang.org/x/crypto/xtea"
	"verif/ref/blowfishref"
	"verif/ref/cast5ref"
	"verif/ref/rc2ref"
	"verif/ref/tearef"
	"verif/ref/twofishref"
	"verif/vf"
)

func main() { vf.Main("C12", vf.Exploration, run) }

// block is the common surface of all six ciphers.
type block interface {
	BlockSize() int
	Encrypt(dst, src []byte)
	Decrypt(dst, src []byte)
}

// model is the reference: one block in, one block out.
type model struct {
	enc func(b []byte) []byte
	dec func(b []byte) []byte
}

// checkBlocks compares the real cipher with the model on every block of blocks, in both
// directions, with separate and shared dst/src, and checks that the instance is not
// changed by use (the first block is re-encrypted at the end).
func checkBlocks(c *vf.Ctx, name string, real block, m model, bs int, blocks [][]byte, detail map[string]any, owned ...[]byte) {
	if real.BlockSize() != bs {
		c.Violation(name+": BlockSize wrong", real.BlockSize())
	}
	guard := func(what string, f func()) bool {
		if p, v, _ := vf.Protect(f); p {
			d := map[string]any{"panic": fmt.Sprint(v), "op": what}
			for k, x := range detail {
				d[k] = x
			}
			c.Violation(name+": panic in "+what, d)
			return false
		}
		return true
	}
	with := func(b []byte, extra string) map[string]any {
		d := map[string]any{"block": fmt.Sprintf("%x", b), "case": extra}
		for k, x := range detail {
			d[k] = x
		}
		return d
	}
	for _, x := range blocks {
		want := m.enc(x)
		c.Eval(1)
		// separate buffers, dst pre-filled with a pattern; src must stay untouched
		src := append([]byte(nil), x...)
		dst := bytes.Repeat([]byte{0xA5}, bs)
		if !guard("Encrypt", func() { real.Encrypt(dst, src) }) {
			return
		}
		if !bytes.Equal(dst, want) {
			c.Violation(name+": Encrypt differs from reference algorithm", with(x, fmt.Sprintf("got %x want %x", dst, want)))
		}
		if !bytes.Equal(src, x) {
			c.Violation(name+": Encrypt modified src", with(x, ""))
		}
		// in place
		buf := append([]byte(nil), x...)
		if !guard("Encrypt in place", func() { real.Encrypt(buf, buf) }) {
			return
		}
		if !bytes.Equal(buf, want) {
			c.Violation(name+": in-place Encrypt differs", with(x, fmt.Sprintf("got %x want %x", buf, want)))
		}
		// Decrypt(Encrypt(x)) = x, separate and in place
		back := bytes.Repeat([]byte{0x5A}, bs)
		if !guard("Decrypt", func() { real.Decrypt(back, dst) }) {
			return
		}
		if !bytes.Equal(back, x) {
			c.Violation(name+": Decrypt(Encrypt(x)) != x", with(x, fmt.Sprintf("got %x", back)))
		}
		if !guard("Decrypt in place", func() { real.Decrypt(buf, buf) }) {
			return
		}
		if !bytes.Equal(buf, x) {
			c.Violation(name+": in-place Decrypt(Encrypt(x)) != x", with(x, fmt.Sprintf("got %x", buf)))
		}
		// Decrypt of an arbitrary block equals the reference inverse, and Encrypt inverts it
		wantD := m.dec(x)
		gotD := make([]byte, bs)
		if !guard("Decrypt", func() { real.Decrypt(gotD, x) }) {
			return
		}
		if !bytes.Equal(gotD, wantD) {
			c.Violation(name+": Decrypt differs from reference algorithm", with(x, fmt.Sprintf("got %x want %x", gotD, wantD)))
		}
		re := make([]byte, bs)
		real.Encrypt(re, gotD)
		if !bytes.Equal(re, x) {
			c.Violation(name+": Encrypt(Decrypt(y)) != y", with(x, fmt.Sprintf("got %x", re)))
		}
		// buffers longer than a block: exactly one block is consumed and written
		long := bytes.Repeat([]byte{0xC3}, bs+5)
		lsrc := append(append([]byte(nil), x...), 1, 2, 3)
		real.Encrypt(long, lsrc)
		if !bytes.Equal(long[:bs], want) || !bytes.Equal(long[bs:], bytes.Repeat([]byte{0xC3}, 5)) {
			c.Violation(name+": Encrypt with longer buffers wrote wrong bytes", with(x, fmt.Sprintf("%x", long)))
		}
	}
	if len(blocks) > 0 {
		again := make([]byte, bs)
		real.Encrypt(again, blocks[0])
		if !bytes.Equal(again, m.enc(blocks[0])) {
			c.Violation(name+": cipher instance changed by use", detail)
		}
		// the caller may wipe or reuse the key (and salt) buffers it passed to the constructor:
		// the instance must not depend on them any more
		if len(owned) > 0 {
			for _, o := range owned {
				for i := range o {
					o[i] ^= 0xFF
				}
			}
			real.Encrypt(again, blocks[0])
			back := make([]byte, bs)
			real.Decrypt(back, m.enc(blocks[0]))
			if !bytes.Equal(again, m.enc(blocks[0])) || !bytes.Equal(back, blocks[0]) {
				c.Violation(name+": cipher changes when the caller overwrites the key/salt buffer it was constructed from", detail)
			}
		}
	}
}

func dup(b []byte) []byte { return append(make([]byte, 0, len(b)), b...) }

func run(c *vf.Ctx) {
	c.Rule("per cipher: every key length 0..80 (accept/reject = documentation) x every accepted length x key value classes x block value classes x {Encrypt,Decrypt} x {separate,in-place,long buffers}; " +
		"Blowfish: + NewSaltedCipher keylen 0..80 x saltlen menu, + all ExpandKey histories to depth 2 over keylen menu; TEA: all round counts 0..130 and 254..258, 510..514, 600, 1022/1024/1026, 65534..65538, 131070/131072/131074; " +
		"RC2: full product keylen 1..128 x effective bits 1..1024; non-trivial = distinct (cipher, constructor variant, key length, salt length / rounds / effective bits, history) accepted and compared with the reference model")
	c.Assume("values outside the alphabet (4 fixed classes + seeded classes, plus extra seeded keys for table coverage) are not enumerated; shapes are")
	c.Assume("TEA/XTEA byte order is big-endian (package convention; the Wheeler-Needham notes define 32-bit words only)")
	c.Assume("reference models: Blowfish tables computed from pi with math/big; Twofish q-boxes computed from the 4-bit tables of the paper; CAST5 S-boxes and RC2 PITABLE transcribed from libgcrypt/OpenSSL binaries (identical in both), validated by RFC 2144 B.1+B.2 (full maintenance test) and RFC 2268 section 5")
	c.Assume("RC2: pkcs12/internal/rc2.New documents no key-length rule (never returns an error); parameters outside RFC 2268's range (empty key, key > 128 bytes, bits outside 1..1024) are not exercised")

	nv := c.V()
	extraKeys := 128 // additional seeded keys so that every S-box entry is consulted many times
	if c.Thorough {
		extraKeys = 512
	}
	blocks8 := c.ValueClasses("block8", 8, nv+2)
	blocks16 := c.ValueClasses("block16", 16, nv+2)
	keysOf := func(label string, n, extra int) [][]byte {
		ks := c.ValueClasses(label, n, nv)
		for i := 0; i < extra; i++ {
			ks = append(ks, c.Bytes(label+"-extra", i, n))
		}
		return ks
	}

	// ---------------------------------------------------------------- Blowfish
	bfModel := func(s *blowfishref.State) model { return model{s.Encrypt, s.Decrypt} }
	c.ParallelFor(81, func(n int) {
		valid := n >= 1 && n <= 56
		for ki, key := range keysOf("bf-key", n, 4) {
			kc := dup(key)
			ci, err := blowfish.NewCipher(kc)
			c.Eval(1)
			if (err == nil) != valid {
				c.Violation("blowfish.NewCipher key length acceptance differs from documentation (1..56)", map[string]any{"keylen": n, "err": fmt.Sprint(err)})
				break
			}
			if !valid {
				if ci != nil {
					c.Violation("blowfish.NewCipher returns a cipher together with an error", n)
				}
				if kse, ok := err.(blowfish.KeySizeError); !ok || int(kse) != n {
					c.Violation("blowfish.NewCipher error is not KeySizeError(len)", map[string]any{"keylen": n, "err": fmt.Sprint(err)})
				}
				break
			}
			checkBlocks(c, "blowfish", ci, bfModel(blowfishref.New(key)), 8, blocks8, map[string]any{"keylen": n, "keyclass": ki}, kc)
			c.Outcome("blowfish accepted")
		}
		if valid {
			c.Nontrivial(fmt.Sprintf("blowfish/NewCipher/%d", n))
		} else {
			c.Outcome("blowfish rejected")
		}
	})

	// NewSaltedCipher: salt empty -> NewCipher rules; otherwise any key length >= 1
	saltLens := []int{0, 1, 2, 3, 4, 5, 7, 8, 9, 15, 16, 17, 31, 32, 33, 64}
	type sp struct{ n, sl int }
	var sgrid []sp
	for n := 0; n <= 80; n++ {
		for _, sl := range saltLens {
			sgrid = append(sgrid, sp{n, sl})
		}
	}
	c.ParallelFor(len(sgrid), func(i int) {
		g := sgrid[i]
		valid := g.n >= 1 && (g.sl > 0 || g.n <= 56)
		keys := c.ValueClasses("bf-skey", g.n, nv)
		salts := c.ValueClasses("bf-salt", g.sl, nv)
		for ki, key := range keys {
			// pair key class ki with two salt classes (same index and the next), which
			// covers every salt class without squaring the cost
			for _, si := range []int{ki % len(salts), (ki + 1) % len(salts)} {
				salt := salts[si]
				var ci *blowfish.Cipher
				var err error
				kc, sc := dup(key), dup(salt)
				if p, v, _ := vf.Protect(func() { ci, err = blowfish.NewSaltedCipher(kc, sc) }); p {
					c.Violation("blowfish.NewSaltedCipher panics", map[string]any{"keylen": g.n, "saltlen": g.sl, "panic": fmt.Sprint(v)})
					return
				}
				c.Eval(1)
				if (err == nil) != valid {
					c.Violation("blowfish.NewSaltedCipher key length acceptance differs from documentation", map[string]any{"keylen": g.n, "saltlen": g.sl, "err": fmt.Sprint(err)})
					return
				}
				if !valid {
					continue
				}
				var ref *blowfishref.State
				if g.sl == 0 {
					ref = blowfishref.New(key)
				} else {
					ref = blowfishref.NewSalted(key, salt)
				}
				checkBlocks(c, "blowfish(salted)", ci, bfModel(ref), 8, blocks8[:4], map[string]any{"keylen": g.n, "saltlen": g.sl, "keyclass": ki, "saltclass": si}, kc, sc)
			}
		}
		if valid {
			c.Nontrivial(fmt.Sprintf("blowfish/NewSaltedCipher/%d/%d", g.n, g.sl))
			if c.WantSample() && g.n == 73 && g.sl == 16 {
				c.Sample(map[string]any{"cipher": "blowfish", "ctor": "NewSaltedCipher", "keylen": g.n, "saltlen": g.sl, "key_classes": len(keys)})
			}
		}
	})

	// ExpandKey histories: start from NewCipher or NewSaltedCipher, then every sequence of
	// ExpandKey calls with key lengths from the menu, up to depth 2 (depth 3 thorough).
	ekMenu := []int{1, 2, 3, 4, 5, 8, 16, 55, 56, 57, 71, 72, 73, 80}
	depth := 2
	if c.Thorough {
		depth = 3
	}
	var hist [][]int
	var gen func(prefix []int)
	gen = func(prefix []int) {
		if len(prefix) > 0 {
			hist = append(hist, append([]int(nil), prefix...))
		}
		if len(prefix) == depth {
			return
		}
		for _, n := range ekMenu {
			gen(append(prefix, n))
		}
	}
	gen(nil)
	c.ParallelFor(len(hist)*2, func(i int) {
		h := hist[i/2]
		salted := i%2 == 1
		for v := 0; v < 2; v++ {
			base := c.Bytes("bf-ek-base", v, 16)
			salt := c.Bytes("bf-ek-salt", v, 16)
			var ci *blowfish.Cipher
			var ref *blowfishref.State
			bc, sc := dup(base), dup(salt)
			ownedKeys := [][]byte{bc, sc}
			if salted {
				ci, _ = blowfish.NewSaltedCipher(bc, sc)
				ref = blowfishref.NewSalted(base, salt)
			} else {
				ci, _ = blowfish.NewCipher(bc)
				ref = blowfishref.New(base)
			}
			for step, n := range h {
				var key []byte
				if v == 0 {
					key = c.ValueClasses("bf-ek", n, 0)[(step+len(h))%4]
				} else {
					key = c.Bytes(fmt.Sprintf("bf-ek-%d", step), v, n)
				}
				kc := dup(key)
				ownedKeys = append(ownedKeys, kc)
				if p, pv, _ := vf.Protect(func() { blowfish.ExpandKey(kc, ci) }); p {
					c.Violation("blowfish.ExpandKey panics", map[string]any{"history": h, "panic": fmt.Sprint(pv)})
					return
				}
				ref.ExpandKey(nil, key)
				c.Eval(1)
			}
			checkBlocks(c, "blowfish(ExpandKey)", ci, bfModel(ref), 8, blocks8[2:5], map[string]any{"history_keylens": h, "salted_start": salted, "valueclass": v}, ownedKeys...)
		}
		c.Nontrivial(fmt.Sprintf("blowfish/ExpandKey/%v/%v", salted, h))
	})

	// ---------------------------------------------------------------- CAST5
	c.ParallelFor(81, func(n int) {
		valid := n == 16
		extra := 0
		if valid {
			extra = extraKeys * 8
		}
		for ki, key := range keysOf("cast5-key", n, extra) {
			kc := dup(key)
			ci, err := cast5.NewCipher(kc)
			c.Eval(1)
			if (err == nil) != valid {
				c.Violation("cast5.NewCipher key length acceptance differs from documentation (16)", map[string]any{"keylen": n, "err": fmt.Sprint(err)})
				break
			}
			if !valid {
				if ci != nil {
					c.Violation("cast5.NewCipher returns a cipher together with an error", n)
				}
				break
			}
			r := cast5ref.New(key)
			bl := blocks8
			if ki >= 4+nv {
				bl = [][]byte{c.Bytes("cast5-blk", ki, 8), c.Bytes("cast5-blk2", ki, 8)}
			}
			checkBlocks(c, "cast5", ci, model{r.Encrypt, r.Decrypt}, 8, bl, map[string]any{"keylen": n, "keyclass": ki}, kc)
			c.Nontrivial(fmt.Sprintf("cast5/key#%d", ki))
		}
	})

	// ---------------------------------------------------------------- Twofish
	c.ParallelFor(81, func(n int) {
		valid := n == 16 || n == 24 || n == 32
		extra := 0
		if valid {
			extra = extraKeys
		}
		for ki, key := range keysOf("twofish-key", n, extra) {
			kc := dup(key)
			ci, err := twofish.NewCipher(kc)
			c.Eval(1)
			if (err == nil) != valid {
				c.Violation("twofish.NewCipher key length acceptance differs from documentation (16, 24, 32)", map[string]any{"keylen": n, "err": fmt.Sprint(err)})
				break
			}
			if !valid {
				if ci != nil {
					c.Violation("twofish.NewCipher returns a cipher together with an error", n)
				}
				if kse, ok := err.(twofish.KeySizeError); !ok || int(kse) != n {
					c.Violation("twofish.NewCipher error is not KeySizeError(len)", map[string]any{"keylen": n, "err": fmt.Sprint(err)})
				}
				break
			}
			r := twofishref.New(key)
			bl := blocks16
			if ki >= 4+nv {
				bl = [][]byte{c.Bytes("twofish-blk", ki, 16), c.Bytes("twofish-blk2", ki, 16)}
			}
			checkBlocks(c, "twofish", ci, model{r.Encrypt, r.Decrypt}, 16, bl, map[string]any{"keylen": n, "keyclass": ki}, kc)
			c.Nontrivial(fmt.Sprintf("twofish/%d/key#%d", n, ki))
		}
	})

	// ---------------------------------------------------------------- XTEA
	c.ParallelFor(81, func(n int) {
		valid := n == 16
		for ki, key := range keysOf("xtea-key", n, 8) {
			kc := dup(key)
			ci, err := xtea.NewCipher(kc)
			c.Eval(1)
			if (err == nil) != valid {
				c.Violation("xtea.NewCipher key length acceptance differs from documentation (16)", map[string]any{"keylen": n, "err": fmt.Sprint(err)})
				break
			}
			if !valid {
				if ci != nil {
					c.Violation("xtea.NewCipher returns a cipher together with an error", n)
				}
				if kse, ok := err.(xtea.KeySizeError); !ok || int(kse) != n {
					c.Violation("xtea.NewCipher error is not KeySizeError(len)", map[string]any{"keylen": n, "err": fmt.Sprint(err)})
				}
				break
			}
			k := key
			checkBlocks(c, "xtea", ci, model{
				func(b []byte) []byte { return tearef.XTEAEncrypt(k, b, 32) },
				func(b []byte) []byte { return tearef.XTEADecrypt(k, b, 32) },
			}, 8, blocks8, map[string]any{"keylen": n, "keyclass": ki}, kc)
			c.Nontrivial(fmt.Sprintf("xtea/key#%d", ki))
		}
	})

	// ---------------------------------------------------------------- TEA
	// NewCipher (64 rounds) over all key lengths; NewCipherWithRounds over key length x rounds.
	c.ParallelFor(81, func(n int) {
		valid := n == 16
		for ki, key := range keysOf("tea-key", n, 2) {
			kc := dup(key)
			ci, err := tea.NewCipher(kc)
			c.Eval(1)
			if (err == nil) != valid {
				c.Violation("tea.NewCipher key length acceptance differs from documentation (16)", map[string]any{"keylen": n, "err": fmt.Sprint(err)})
				break
			}
			if !valid {
				if ci != nil {
					c.Violation("tea.NewCipher returns a cipher together with an error", n)
				}
				break
			}
			k := key
			checkBlocks(c, "tea", ci, model{
				func(b []byte) []byte { return tearef.TEAEncrypt(k, b, 32) },
				func(b []byte) []byte { return tearef.TEADecrypt(k, b, 32) },
			}, 8, blocks8, map[string]any{"keylen": n, "rounds": "default", "keyclass": ki}, kc)
			c.Nontrivial(fmt.Sprintf("tea/default/key#%d", ki))
		}
	})
	// every round count 0..130, plus counts on both sides of the 8- and 16-bit width boundaries of
	// rounds and of rounds/2 (a cycle count or start sum kept in a narrower integer; seed c12r6)
	teaRounds := make([]int, 0, 160)
	for r := 0; r <= 130; r++ {
		teaRounds = append(teaRounds, r)
	}
	teaRounds = append(teaRounds, 254, 255, 256, 257, 258, 510, 511, 512, 513, 514, 600, 1022, 1024, 1026, 65534, 65535, 65536, 65537, 65538, 131070, 131072, 131074)
	c.ParallelFor(len(teaRounds), func(ri int) {
		rounds := teaRounds[ri]
		for _, n := range []int{0, 1, 8, 15, 16, 17, 24, 32} {
			valid := n == 16 && rounds%2 == 0
			for ki, key := range keysOf("tea-rkey", n, 0) {
				var ci cipher.Block
				var err error
				kc := dup(key)
				if p, v, _ := vf.Protect(func() { ci, err = tea.NewCipherWithRounds(kc, rounds) }); p {
					c.Violation("tea.NewCipherWithRounds panics", map[string]any{"keylen": n, "rounds": rounds, "panic": fmt.Sprint(v)})
					return
				}
				c.Eval(1)
				if (err == nil) != valid {
					c.Violation("tea.NewCipherWithRounds acceptance differs from documentation (16-byte key, even rounds)", map[string]any{"keylen": n, "rounds": rounds, "err": fmt.Sprint(err)})
					break
				}
				if !valid {
					break
				}
				k := key
				cyc := rounds / 2
				checkBlocks(c, "tea(rounds)", ci, model{
					func(b []byte) []byte { return tearef.TEAEncrypt(k, b, cyc) },
					func(b []byte) []byte { return tearef.TEADecrypt(k, b, cyc) },
				}, 8, blocks8, map[string]any{"keylen": n, "rounds": rounds, "keyclass": ki}, kc)
			}
			if valid {
				c.Nontrivial(fmt.Sprintf("tea/rounds=%d", rounds))
				if c.WantSample() && rounds == 6 {
					c.Sample(map[string]any{"cipher": "tea", "ctor": "NewCipherWithRounds", "rounds": rounds, "keylen": n})
				}
			}
		}
	})

	// ---------------------------------------------------------------- RC2 (PKCS#12)
	// full product key length 1..128 x effective bits 1..1024
	c.ParallelFor(128, func(i int) {
		n := i + 1
		for t1 := 1; t1 <= 1024; t1++ {
			if c.Expired() {
				return
			}
			// value classes: one seeded key per point; the fixed classes on a sub-grid
			keys := [][]byte{c.Bytes(fmt.Sprintf("rc2-key-%d", t1), 0, n)}
			if t1%8 <= 1 || t1 < 20 || c.Thorough {
				keys = append(keys, c.ValueClasses("rc2-key", n, 0)...)
			}
			for ki, key := range keys {
				var ci cipher.Block
				var err error
				kc := dup(key)
				if p, v, _ := vf.Protect(func() { ci, err = pkcs12.VerifC12NewRC2(kc, t1) }); p {
					c.Violation("rc2.New panics inside the RFC 2268 parameter range", map[string]any{"keylen": n, "bits": t1, "panic": fmt.Sprint(v)})
					return
				}
				c.Eval(1)
				if err != nil {
					c.Violation("rc2.New rejects parameters inside the RFC 2268 range", map[string]any{"keylen": n, "bits": t1, "err": fmt.Sprint(err)})
					return
				}
				r := rc2ref.New(key, t1)
				checkBlocks(c, "rc2", ci, model{r.Encrypt, r.Decrypt}, 8, blocks8[3:5], map[string]any{"keylen": n, "bits": t1, "keyclass": ki}, kc)
			}
			c.Nontrivial(fmt.Sprintf("rc2/%d/%d", n, t1))
		}
		if c.WantSample() && n == 5 {
			c.Sample(map[string]any{"cipher": "rc2", "keylen": n, "bits": "1..1024", "note": "pkcs12 uses keylen 5 bits 40 and keylen 16 bits 128"})
		}
	})
	// the two parameterisations PKCS#12 itself uses, on the whole block alphabet
	for _, n := range []int{5, 16} {
		for ki, key := range keysOf("rc2-p12", n, 16) {
			kc := dup(key)
			ci, err := pkcs12.VerifC12NewRC2(kc, 8*n)
			if err != nil {
				c.Violation("rc2.New rejects a PKCS#12 parameter set", n)
				continue
			}
			r := rc2ref.New(key, 8*n)
			checkBlocks(c, "rc2", ci, model{r.Encrypt, r.Decrypt}, 8, blocks8, map[string]any{"keylen": n, "bits": 8 * n, "keyclass": ki}, kc)
		}
	}
	c.Sample(map[string]any{"cipher": "blowfish", "accepted_keylens": "1..56", "salted": "keylen>=1 with non-empty salt", "expandkey_histories": len(hist) * 2})
}
