// C02: AEAD Open rejects every input it did not produce.
//
// Fault enumeration: for genuine sealed messages of a set of lengths, on both
// ChaCha20-Poly1305 implementation paths, both nonce sizes, and for NaCl secretbox/box,
// EVERY single-bit flip of sealed output, nonce, AD and key, every truncation and
// extension by 1..32 bytes at either end, every input shorter than the tag, contiguous
// 2- and 4-byte overwrites, and AD/ciphertext boundary shifts are opened; each must be
// rejected, with no plaintext returned and (ChaCha20-Poly1305) no decrypted bytes left in
// the region of dst the plaintext would have occupied.
package main

import (
	"bytes"
	"crypto/cipher"
	"fmt"
	"time"

	"golang.org/x/crypto/chacha20poly1305"
	"golang.org/x/crypto/nacl/box"
	"golang.org/x/crypto/nacl/secretbox"
	"verif/ref/aeadref"
	"verif/ref/aeadsteer"
	"verif/vf"
)

func main() { vf.Main("C02", vf.FaultEnumeration, run) }

var prefix = []byte{0xA5, 0x5A, 0xC3, 0x3C, 0x0F}

const poison = 0xEE

// fault is one modified copy of a byte string.
type fault struct {
	kind string // class of modification
	pos  int    // byte position / amount
	data []byte
}

// structural faults of a byte string whose length may change (sealed output, AD):
// every single-bit flip, truncation by 1..32 at either end, extension by 1..32 at either end
// with bytes from the alphabet, contiguous 2- and 4-byte overwrites at up to 8 positions
// around the given boundary, and — only when minLen > 0 — every input shorter than minLen.
func eachFault(orig []byte, boundary, minLen int, ext [][]byte, f func(fault)) {
	n := len(orig)
	for i := 0; i < n; i++ {
		for b := 0; b < 8; b++ {
			m := append([]byte(nil), orig...)
			m[i] ^= 1 << b
			f(fault{"bitflip", i, m})
		}
	}
	for k := 1; k <= 32 && k <= n; k++ {
		f(fault{"truncate-tail", k, append([]byte(nil), orig[:n-k]...)})
		f(fault{"truncate-head", k, append([]byte(nil), orig[k:]...)})
	}
	for k := 1; k <= 32; k++ {
		for _, e := range ext {
			f(fault{"extend-tail", k, append(append([]byte(nil), orig...), e[:k]...)})
			f(fault{"extend-head", k, append(append([]byte(nil), e[:k]...), orig...)})
		}
	}
	// overwrite positions: start, 1, middle, straddling the boundary, at the boundary, inside the
	// part after the boundary, end-4, end-2
	cand := []int{0, 1, n / 2, boundary - 1, boundary - 2, boundary, boundary + 6, n - 4, n - 2, n - 3}
	seen := map[int]bool{}
	cnt := 0
	for _, p := range cand {
		if p < 0 || seen[p] || cnt == 8 {
			continue
		}
		seen[p] = true
		used := false
		for _, w := range []int{2, 4} {
			if p+w > n {
				continue
			}
			for pi, pat := range [][]byte{{0xFF, 0xFF, 0xFF, 0xFF}, {0x01, 0x00, 0x00, 0x80}, {0x5A, 0xA5, 0x3C, 0xC3}} {
				m := append([]byte(nil), orig...)
				for j := 0; j < w; j++ {
					m[p+j] ^= pat[j]
				}
				if w == 2 && pi == 1 {
					m[p+1] ^= 0x40 // make both bytes differ
				}
				f(fault{fmt.Sprintf("overwrite%d", w), p, m})
				used = true
			}
		}
		if used {
			cnt++
		}
	}
	if minLen > 0 {
		for k := 0; k < minLen; k++ {
			if k <= n {
				f(fault{"shorter-than-tag:prefix", k, append([]byte(nil), orig[:k]...)})
				f(fault{"shorter-than-tag:suffix", k, append([]byte(nil), orig[n-k:]...)})
			}
			f(fault{"shorter-than-tag:zeros", k, make([]byte, k)})
		}
	}
}

// eachTagPair modifies TWO bytes of the 16-byte tag at tagStart at once, for every pair of tag
// byte positions (120) x 10 patterns whose differences cancel in a comparison that sums or
// otherwise combines per-byte / per-word differences instead of OR-ing them: the same single bit
// flipped in both bytes (8), both bytes complemented, and +1 / -1 (arithmetic, mod 256).
func eachTagPair(orig []byte, tagStart int, f func(fault)) {
	if tagStart < 0 || tagStart+16 > len(orig) {
		return
	}
	for i := 0; i < 16; i++ {
		for j := i + 1; j < 16; j++ {
			for pat := 0; pat < 10; pat++ {
				m := append([]byte(nil), orig...)
				switch {
				case pat < 8:
					m[tagStart+i] ^= 1 << pat
					m[tagStart+j] ^= 1 << pat
				case pat == 8:
					m[tagStart+i] ^= 0xFF
					m[tagStart+j] ^= 0xFF
				default:
					m[tagStart+i]++
					m[tagStart+j]--
				}
				f(fault{fmt.Sprintf("tag-pair/pat%d", pat), i*16 + j, m})
			}
		}
	}
}

func eachBitflip(orig []byte, skip map[int]bool, f func(fault)) {
	for i := range orig {
		for b := 0; b < 8; b++ {
			if skip[i*8+b] {
				continue
			}
			m := append([]byte(nil), orig...)
			m[i] ^= 1 << b
			f(fault{"bitflip", i, m})
		}
	}
}

func allEq(b []byte, v byte) bool {
	for _, x := range b {
		if x != v {
			return false
		}
	}
	return true
}

// ---------------------------------------------------------------------------------------

type variant struct {
	name  string
	nonce int
	mk    func([]byte) (cipher.AEAD, error)
}

func lens(c *vf.Ctx, extra ...int) []int {
	set := map[int]bool{}
	for _, n := range []int{0, 1, 15, 16, 17, 63, 64, 65, 255, 256, 257, 1024} {
		set[n] = true
	}
	for _, n := range extra {
		set[n] = true
	}
	if c.Thorough {
		for n := 0; n <= 300; n++ {
			set[n] = true
		}
	}
	var out []int
	for n := 0; n <= 1024; n++ {
		if set[n] {
			out = append(out, n)
		}
	}
	return out
}

func run(c *vf.Ctx) {
	c.Rule("fault enumeration on genuine sealed messages: targets {ChaCha20-Poly1305, XChaCha20-Poly1305} x path{asm,generic}, secretbox.Open, box.Open, box.OpenAfterPrecomputation, box.OpenAnonymous; " +
		"message lengths {0,1,15,16,17,63,64,65,255,256,257,1024} (NaCl also 31,32,33; thorough: every 0..300); faults = EVERY single-bit flip of sealed output / nonce / AD / key, truncation by 1..32 at either end, " +
		"extension by 1..32 at either end (3 byte classes), every length 0..15, 2- and 4-byte overwrites at 8 positions x 3 patterns, EVERY pair of tag bytes (120) modified together x 10 cancelling patterns (same bit flipped in both, both complemented, +1/-1), AD<->ciphertext boundary shifts by 1..16, AD truncation/extension; " +
		"for the width-truncation AD lengths {0,1,12,13,14,16}+{256,512,768,4096,65536}, 255, 257, 511, 513, 65535, 65537 (plaintext lengths 0,1,16,65,257): a bit flip and a substituted byte in EACH 16-byte block of the AD (64 KiB class in quick: every block for lengths = 13 or 16 mod 256, else every 16th), " +
		"same-length AD agreeing on the first 13/16/32 bytes, AD cut to its length mod 256, +-1/16/256 bytes, every tag bit; " +
		"plus the STEERED-ACCUMULATOR family (messages crafted with math/big so that the AEAD code's own Poly1305 accumulator has chosen limb values before the lengths block and before the final reduction, 15 lengths x AD {0,1,13,16,17} x both nonce sizes): " +
		"genuine tag accepted; tag +-1 in either 64-bit half and the tags obtained by dropping/duplicating the carry out of the low or middle limb when the lengths block is added are rejected (dst nil and in place); " +
		"plus the BLOCK family: genuine messages of EVERY length 0..1024 (thorough 0..2048; AD 13, and empty AD up to 320, thorough 1024) and of the long lengths 2^k+{-1,0,1,15,16,17} for k=11..20 (thorough ..22), for both nonce sizes on both paths and for secretbox.Open: one bit flip in EACH 16-byte block of the ciphertext (above 4096 bytes: the four blocks at either end, the blocks on both sides of every 2^j-byte boundary, j>=6, and 16 (thorough 64) evenly spread blocks), tag bits 0/63/64/127/(length mod 128), ciphertext cut to its length mod 256 and mod 65536 with the genuine tag kept, truncation to those lengths, -1/-16/-64 bytes, +1/16/64 zero bytes; dst in place and prefix+poisoned spare capacity; " +
		"after all faults of a unit (main and block family) the genuine message must still open with the same object in every dst mode; the key slice given to New/NewX is a private copy that is overwritten right after the constructor returned; " +
		"each fault opened with dst{prefix+poisoned spare capacity, nil, in place}; non-trivial = distinct (target,length,field,fault kind,byte position); " +
		"oracle: error/false, no plaintext returned, and for ChaCha20-Poly1305 the would-be plaintext region of dst is all zero or untouched")
	c.Assume("forgeries that need more than the enumerated modifications are a MAC-security question, not enumerated")
	c.Assume("X25519 ignores bit 255 of a public key and clamps bits 0,1,2,254,255 of a private key (RFC 7748): those six single-bit flips denote the same key and are not counted as faults")
	aeadPart(c)
	tn := time.Now()
	naclPart(c)
	c.Set("nacl_seconds", time.Since(tn).Seconds())
	tn = time.Now()
	secretboxBlockPart(c)
	c.Set("block_family_seconds_secretbox", time.Since(tn).Seconds())
}

func aeadPart(c *vf.Ctx) {
	variants := []variant{
		{"chacha20poly1305", chacha20poly1305.NonceSize, chacha20poly1305.New},
		{"xchacha20poly1305", chacha20poly1305.NonceSizeX, chacha20poly1305.NewX},
	}
	ls := lens(c)
	adLens := []int{0, 13, 16, 33}
	nv := 1 + c.V() // value classes: ascending + seeded
	type unit struct {
		v, n, an, ci int
		ext          bool // extended AD length: AD-focused faults only
	}
	var units []unit
	// width-truncation classes of the AD length: special small length + k*256 etc.
	var extAD []int
	for _, base := range []int{256, 512, 768, 4096, 65536} {
		for _, d := range []int{0, 1, 12, 13, 14, 16} {
			extAD = append(extAD, base+d)
		}
	}
	extAD = append(extAD, 255, 257, 511, 513, 65535, 65537)
	for _, an := range extAD {
		for v := range variants {
			for _, n := range []int{0, 1, 16, 65, 257} {
				if an > 5000 && n != 0 && n != 65 {
					continue // the 64 KiB class: two plaintext length classes
				}
				units = append(units, unit{v, n, an, 0, true})
			}
		}
	}
	c.Set("extended_ad_lengths", extAD)
	for i := len(ls) - 1; i >= 0; i-- {
		for v := range variants {
			for ai, an := range adLens {
				for ci := 0; ci < nv; ci++ {
					// every AD length with the first class; the other classes with AD length 13
					if ci > 0 && ai != 1 {
						continue
					}
					units = append(units, unit{v, ls[i], an, ci, false})
				}
			}
		}
	}
	ext := [][]byte{make([]byte, 32), bytes.Repeat([]byte{0xFF}, 32), c.Bytes("c02-ext", 0, 32)}

	initial := chacha20poly1305.VerifC01UseAVX2()
	defer chacha20poly1305.VerifC01SetAVX2(initial)
	type phase struct {
		name string
		avx2 bool
	}
	var phases []phase
	if chacha20poly1305.VerifC01HasAsm && initial {
		phases = append(phases, phase{"asm", true})
	} else {
		c.Capped("assembly path not available on this CPU/build: only the generic path was checked")
	}
	phases = append(phases, phase{"generic", false})

	// steered-accumulator family (see verif/ref/aeadsteer): genuine messages whose Poly1305
	// accumulator inside the AEAD code sits on chosen limb values when the lengths block is added
	// and when the final reduction happens
	steered, attempted := aeadsteer.Family(c, 32)
	c.Set("steered_cases", len(steered))
	c.Set("steered_targets_attempted", attempted)

	for _, ph := range phases {
		chacha20poly1305.VerifC01SetAVX2(ph.avx2)
		runSteered(c, ph.name, steered)
		tb := time.Now()
		aeadBlockPart(c, ph.name, variants)
		c.Set("block_family_seconds_"+ph.name, time.Since(tb).Seconds())
		c.ParallelFor(len(units), func(ui int) {
			u := units[ui]
			va := variants[u.v]
			tgt := va.name + "/" + ph.name
			var key, nonce, pt, ad []byte
			if u.ci == 0 {
				key, nonce, pt, ad = seq(0x80, 32), seq(0x40, va.nonce), seq(1, u.n), seq(0x50, u.an)
			} else {
				key, nonce, pt, ad = c.Bytes("c02-key", u.ci, 32), c.Bytes("c02-nonce", u.ci, va.nonce), c.Bytes("c02-pt", u.ci, u.n), c.Bytes("c02-ad", u.ci, u.an)
			}
			aead, err := newAEAD(va.mk, key) // private key copy, overwritten after the constructor returned
			if err != nil {
				c.Violation(tgt+": constructor rejects a 32-byte key", err.Error())
				return
			}
			sealed := aead.Seal(nil, nonce, pt, ad)
			// whether Seal is RFC 8439 is property C01's business; here it is only recorded, and the
			// faults are applied to whatever this Seal produced ("everything it did not produce")
			if bytes.Equal(sealed, aeadref.Seal(key, nonce, pt, ad)) {
				c.Outcome(tgt + ": sealed output equals the RFC 8439 model")
			} else {
				c.Outcome(tgt + ": sealed output DIFFERS from the RFC 8439 model (see C01)")
			}
			// sanity: the genuine message opens (otherwise "rejects everything" is vacuous)
			if back, err := aead.Open(nil, nonce, sealed, ad); err != nil || !bytes.Equal(back, pt) {
				c.Violation(tgt+": genuine sealed message does not open", map[string]any{"len": u.n, "adLen": u.an})
				return
			}
			c.Outcome(tgt + ": genuine message accepted")
			evals := 0
			nt := map[string]struct{}{}
			oc := map[string]struct{}{}
			arena := make([]byte, len(prefix)+u.n+64+16)

			// try opens one faulty (key, nonce, ct, ad) tuple in three dst modes
			try := func(field string, ft fault, k cipher.AEAD, nonceF, ctF, adF []byte) {
				det := func(mode string) map[string]any {
					return map[string]any{"target": tgt, "len": u.n, "adLen": u.an, "class": u.ci, "field": field, "fault": ft.kind, "pos": ft.pos, "dst": mode}
				}
				nt[fmt.Sprintf("%s/%d/%d/%s/%s/%d", tgt, u.n, u.an, field, ft.kind, ft.pos)] = struct{}{}
				modes := 3
				if u.an > 5000 {
					modes = 1 // 64 KiB of AD per Open: one dst mode
				}
				for mode := 0; mode < modes; mode++ {
					name := [...]string{"prefix+spare", "nil", "in-place"}[mode]
					var dst []byte
					in := append(make([]byte, 0, len(ctF)+8), ctF...)
					need := len(ctF) - 16
					if need < 0 {
						need = 0
					}
					switch mode {
					case 0:
						dst = arena[:len(prefix):len(arena)]
						copy(dst, prefix)
						sp := arena[len(prefix):]
						for i := range sp {
							sp[i] = poison
						}
					case 1:
						dst = nil
					case 2:
						dst = in[:0]
					}
					var out []byte
					var oerr error
					if p, v, _ := vf.Protect(func() { out, oerr = k.Open(dst, nonceF, in, adF) }); p {
						c.Violation(fmt.Sprintf("%s: Open panics on modified %s (%s)", tgt, field, ft.kind), map[string]any{"at": det(name), "panic": fmt.Sprint(v)})
						continue
					}
					evals++
					if oerr == nil {
						c.Violation(fmt.Sprintf("%s: Open ACCEPTS modified %s (%s)", tgt, field, ft.kind), det(name))
						continue
					}
					if len(out) > len(dst) {
						c.Violation(fmt.Sprintf("%s: Open returns bytes together with an error (%s %s)", tgt, field, ft.kind), det(name))
					}
					switch mode {
					case 0:
						region := arena[len(prefix) : len(prefix)+need]
						if !bytes.Equal(arena[:len(prefix)], prefix) {
							c.Violation(tgt+": failed Open modified the dst prefix", det(name))
						}
						switch {
						case allEq(region, 0):
							if need > 0 {
								oc[tgt+": rejected, dst region zeroed"] = struct{}{}
							} else {
								oc[tgt+": rejected (empty region)"] = struct{}{}
							}
						case allEq(region, poison):
							oc[tgt+": rejected, dst region untouched"] = struct{}{}
						default:
							c.Violation(fmt.Sprintf("%s: failed Open leaves bytes in dst (modified %s, %s)", tgt, field, ft.kind), map[string]any{"at": det(name), "region": vf.Hex8(region)})
						}
						if !allEq(arena[len(prefix)+need:], poison) {
							c.Violation(tgt+": failed Open wrote beyond the plaintext region of dst", det(name))
						}
					case 2:
						region := in[:need]
						if !allEq(region, 0) && !bytes.Equal(region, ctF[:need]) {
							c.Violation(fmt.Sprintf("%s: failed in-place Open leaves bytes that are neither zero nor the input (modified %s, %s)", tgt, field, ft.kind), map[string]any{"at": det(name), "region": vf.Hex8(region)})
						}
					}
				}
			}

			// D: after all failed Opens of the unit the genuine message must still open (same object)
			reopen := func() {
				for mode := 0; mode < 3; mode++ {
					in := append(make([]byte, 0, len(sealed)+8), sealed...)
					var dst []byte
					switch mode {
					case 0:
						dst = arena[:len(prefix):len(arena)]
						copy(dst, prefix)
					case 2:
						dst = in[:0]
					}
					back, err := aead.Open(dst, nonce, in, ad)
					evals++
					if err != nil || len(back) != len(dst)+len(pt) || !bytes.Equal(back[len(dst):], pt) {
						c.Violation(tgt+": genuine sealed message does not open after a series of failed Opens", map[string]any{"len": u.n, "adLen": u.an, "dst": mode})
						return
					}
				}
				oc[tgt+": genuine message accepted after failed Opens"] = struct{}{}
			}

			if u.ext {
				// AD-focused faults for the long / width-truncation AD lengths
				blocks := (u.an + 15) / 16
				every := u.an <= 5000 || c.Thorough || u.an%256 == 13 || u.an%256 == 16
				for b := 0; b < blocks; b++ {
					if !every && b%16 != 0 && b >= 4 && b < blocks-4 {
						continue
					}
					// a bit flip somewhere in the block (position varies with the block index) ...
					i := 16*b + b%16
					if i >= u.an {
						i = u.an - 1
					}
					m := append([]byte(nil), ad...)
					m[i] ^= 1 << (b % 8)
					try("ad", fault{"bitflip-in-block", b, nil}, aead, nonce, sealed, m)
					// ... and a substituted byte at the end of the block
					j := 16*b + 15
					if j >= u.an {
						j = u.an - 1
					}
					m = append([]byte(nil), ad...)
					m[j] ^= 0xA5
					try("ad", fault{"byte-substituted-in-block", b, nil}, aead, nonce, sealed, m)
				}
				// another AD of the same length that agrees on the first 13 / 16 / 32 bytes
				for _, k := range []int{13, 16, 32} {
					if u.an > k {
						m := append([]byte(nil), ad...)
						for i := k; i < len(m); i++ {
							m[i] ^= 0x5A
						}
						try("ad", fault{"same-length-AD-agreeing-on-prefix", k, nil}, aead, nonce, sealed, m)
						m = append([]byte(nil), ad...)
						m[len(m)-1] ^= 1
						try("ad", fault{"same-length-AD-differing-in-last-byte", k, nil}, aead, nonce, sealed, m)
					}
				}
				// length confusions: AD cut to its length mod 256, shortened/extended by 256, by 1, by 16
				if k := u.an & 0xff; k != u.an {
					try("ad", fault{"truncated-to-length-mod-256", k, nil}, aead, nonce, sealed, ad[:k])
				}
				for _, k := range []int{1, 16, 256} {
					if u.an >= k {
						try("ad", fault{"truncate-tail", k, nil}, aead, nonce, sealed, ad[:u.an-k])
					}
					try("ad", fault{"extend-tail", k, nil}, aead, nonce, sealed, append(append([]byte(nil), ad...), make([]byte, k)...))
				}
				try("ad", fault{"dropped", 0, nil}, aead, nonce, sealed, nil)
				// the sealed output itself: every bit of the tag and the ciphertext/tag boundary
				for i := len(sealed) - 16; i < len(sealed); i++ {
					for b := 0; b < 8; b++ {
						m := append([]byte(nil), sealed...)
						m[i] ^= 1 << b
						try("sealed", fault{"bitflip", i, nil}, aead, nonce, m, ad)
					}
				}
				reopen()
				c.Eval(evals)
				for k := range nt {
					c.Nontrivial(k)
				}
				for k := range oc {
					c.Outcome(k)
				}
				if u.an == 269 && u.n == 65 {
					c.Sample(map[string]any{"target": tgt, "len": u.n, "adLen": u.an, "distinct_faults": len(nt), "opens": evals, "ad_blocks": blocks})
				}
				return
			}
			eachFault(sealed, u.n, 16, ext, func(ft fault) { try("sealed", ft, aead, nonce, ft.data, ad) })
			eachTagPair(sealed, len(sealed)-16, func(ft fault) { try("sealed", ft, aead, nonce, ft.data, ad) })
			eachBitflip(nonce, nil, func(ft fault) { try("nonce", ft, aead, ft.data, sealed, ad) })
			eachBitflip(key, nil, func(ft fault) {
				k2, err := newAEAD(va.mk, ft.data)
				if err != nil {
					c.Violation(tgt+": constructor rejects a 32-byte key", err.Error())
					return
				}
				try("key", ft, k2, nonce, sealed, ad)
			})
			eachFault(ad, u.an, 0, ext, func(ft fault) { try("ad", ft, aead, nonce, sealed, ft.data) })
			// boundary shifts between AD and ciphertext (the §2.8 length block must catch them)
			for k := 1; k <= 16; k++ {
				if k <= len(sealed)-16 {
					ad2 := append(append([]byte(nil), ad...), sealed[:k]...)
					try("ad|sealed", fault{"shift-ct-head-into-ad", k, nil}, aead, nonce, sealed[k:], ad2)
				}
				if k <= len(ad) {
					ct2 := append(append([]byte(nil), ad[len(ad)-k:]...), sealed...)
					try("ad|sealed", fault{"shift-ad-tail-into-ct", k, nil}, aead, nonce, ct2, ad[:len(ad)-k])
				}
			}
			// whole-field substitutions
			if u.an > 0 {
				try("ad", fault{"dropped", 0, nil}, aead, nonce, sealed, nil)
			}
			try("ad", fault{"replaced-by-ciphertext", 0, nil}, aead, nonce, sealed, sealed)
			reopen()
			c.Eval(evals)
			for k := range nt {
				c.Nontrivial(k)
			}
			for k := range oc {
				c.Outcome(k)
			}
			if u.n == 257 && u.an == 13 && u.ci == 0 {
				c.Sample(map[string]any{"target": tgt, "len": u.n, "adLen": u.an, "distinct_faults": len(nt), "opens": evals, "sealed": vf.Hex8(sealed)})
			}
		})
	}
}

// runSteered: for every crafted message Open must accept exactly the RFC 8439 tag: the genuine
// message opens, and the tags a misplaced/dropped carry would produce or accept are rejected.
func runSteered(c *vf.Ctx, path string, cases []*aeadsteer.Case) {
	c.ParallelFor(len(cases), func(i int) {
		sc := cases[i]
		vname, mk := "chacha20poly1305", chacha20poly1305.New
		if len(sc.Nonce) == chacha20poly1305.NonceSizeX {
			vname, mk = "xchacha20poly1305", chacha20poly1305.NewX
		}
		tgt := vname + "/" + path
		aead, err := newAEAD(mk, sc.Key)
		if err != nil {
			c.Violation(tgt+": constructor rejects a 32-byte key", err.Error())
			return
		}
		n := len(sc.Ciphertext)
		det := func(fault string) map[string]any {
			return map[string]any{"target": tgt, "len": n, "adLen": len(sc.AD), "steered": sc.Stage.String(), "accumulator_target": sc.Target.Name, "fault": fault,
				"accumulator_before_lengths_block": fmt.Sprintf("%x", sc.HPre), "accumulator_before_final_reduction": fmt.Sprintf("%x", sc.VFinal),
				"key": fmt.Sprintf("%x", sc.Key), "nonce": fmt.Sprintf("%x", sc.Nonce), "ad": fmt.Sprintf("%x", sc.AD), "ciphertext": fmt.Sprintf("%x", sc.Ciphertext), "genuine_tag": fmt.Sprintf("%x", sc.Tag)}
		}
		open := func(tag [16]byte, inPlace bool) (out []byte, err error, panicked bool, pv any) {
			in := append(append(make([]byte, 0, n+16), sc.Ciphertext...), tag[:]...)
			var dst []byte
			if inPlace {
				dst = in[:0]
			}
			panicked, pv, _ = vf.Protect(func() { out, err = aead.Open(dst, sc.Nonce, in, sc.AD) })
			return
		}
		for _, inPlace := range []bool{false, true} {
			out, err, pn, pv := open(sc.Tag, inPlace)
			c.Eval(1)
			switch {
			case pn:
				c.Violation(tgt+": Open panics on a genuine steered message", map[string]any{"at": det("none"), "panic": fmt.Sprint(pv)})
			case err != nil || !bytes.Equal(out, sc.Plaintext):
				c.Violation(tgt+": genuine sealed message does not open (steered accumulator)", det("none"))
			}
			for name, forged := range sc.ForgedTags() {
				out, err, pn, pv := open(forged, inPlace)
				c.Eval(1)
				switch {
				case pn:
					c.Violation(tgt+": Open panics on a forged tag", map[string]any{"at": det(name), "panic": fmt.Sprint(pv)})
				case err == nil:
					d := det(name)
					d["accepted_tag"] = fmt.Sprintf("%x", forged)
					c.Violation(tgt+": Open ACCEPTS a forged tag for a steered message ("+forgeClass(name)+")", d)
				case len(out) != 0:
					c.Violation(tgt+": Open returns bytes together with an error (steered message)", det(name))
				}
			}
		}
		c.Nontrivial(fmt.Sprintf("%s/steered/%d/%d/%s/%s", tgt, n, len(sc.AD), sc.Stage, sc.Target.Name))
		if i%1499 == 0 {
			c.Sample(map[string]any{"target": tgt, "steered": sc.Stage.String(), "accumulator_target": sc.Target.Name, "len": n, "adLen": len(sc.AD), "forged_tags": len(sc.ForgedTags())})
		}
	})
	if len(cases) > 0 {
		c.Outcome(path + ": steered messages: genuine accepted, forged tags rejected")
	}
}

// forgeClass shortens a forged-tag name to a stable class fragment.
func forgeClass(name string) string {
	if len(name) > 4 && name[:4] == "tag " {
		return "tag +-1 in a 64-bit half"
	}
	return name
}

func seq(from, n int) []byte {
	b := make([]byte, n)
	for i := range b {
		b[i] = byte(from + i)
	}
	return b
}

// ---------------------------------------------------------------------------------------

func naclPart(c *vf.Ctx) {
	ls := lens(c, 31, 32, 33)
	nv := 1 + c.V()
	ext := [][]byte{make([]byte, 32), bytes.Repeat([]byte{0xFF}, 32), c.Bytes("c02-ext", 0, 32)}
	type unit struct {
		n, ci int
		tgt   string
	}
	var units []unit
	for i := len(ls) - 1; i >= 0; i-- {
		for ci := 0; ci < nv; ci++ {
			for _, t := range []string{"secretbox.Open", "box.OpenAfterPrecomputation", "box.Open", "box.OpenAnonymous"} {
				// the X25519-based entry points cost ~50us per call: all lengths with the first class,
				// the seeded classes with the lengths around the 32-byte first-block split only
				if ci > 0 && (t == "box.Open" || t == "box.OpenAnonymous") && !(ls[i] >= 31 && ls[i] <= 33) {
					continue
				}
				units = append(units, unit{ls[i], ci, t})
			}
		}
	}
	// equivalent-key bit positions (see Assume)
	skipPub := map[int]bool{255: true}
	skipPriv := map[int]bool{0: true, 1: true, 2: true, 254: true, 255: true}
	c.Set("x25519_equivalent_key_flips_skipped_per_keypair", len(skipPub)+len(skipPriv))

	c.ParallelFor(len(units), func(ui int) {
		u := units[ui]
		tgt := u.tgt
		var key, nonceB, msg []byte
		if u.ci == 0 {
			key, nonceB, msg = seq(0x10, 32), seq(0x70, 24), seq(1, u.n)
		} else {
			key, nonceB, msg = c.Bytes("c02-nkey", u.ci, 32), c.Bytes("c02-nnonce", u.ci, 24), c.Bytes("c02-nmsg", u.ci, u.n)
		}
		var nonce [24]byte
		copy(nonce[:], nonceB)
		// key pairs for box
		pubA, privA, _ := box.GenerateKey(vf.NewRand(fmt.Sprintf("c02-A-%d-%d", c.Seed, u.ci)))
		pubB, privB, _ := box.GenerateKey(vf.NewRand(fmt.Sprintf("c02-B-%d-%d", c.Seed, u.ci)))
		var k32 [32]byte
		copy(k32[:], key)

		// open(field values) -> (out, ok); fields: box bytes, nonce, keyA (secret/shared/peer public), keyB (private)
		type fields struct {
			boxed []byte
			nonce [24]byte
			k1    [32]byte // secretbox key | shared key | sender public key | recipient public key
			k2    [32]byte // recipient private key (box.Open, box.OpenAnonymous)
		}
		var good fields
		var open func(out []byte, f *fields) ([]byte, bool)
		var keyFields []string
		switch tgt {
		case "secretbox.Open":
			good = fields{boxed: secretbox.Seal(nil, msg, &nonce, &k32), nonce: nonce, k1: k32}
			open = func(out []byte, f *fields) ([]byte, bool) { return secretbox.Open(out, f.boxed, &f.nonce, &f.k1) }
			keyFields = []string{"key"}
		case "box.OpenAfterPrecomputation":
			var shared [32]byte
			box.Precompute(&shared, pubB, privA)
			good = fields{boxed: box.SealAfterPrecomputation(nil, msg, &nonce, &shared), nonce: nonce}
			box.Precompute(&good.k1, pubA, privB) // the recipient's view of the shared key
			if good.k1 != shared {
				c.Violation("box.Precompute: the two sides derive different shared keys", u.ci)
				return
			}
			open = func(out []byte, f *fields) ([]byte, bool) {
				return box.OpenAfterPrecomputation(out, f.boxed, &f.nonce, &f.k1)
			}
			keyFields = []string{"key"}
		case "box.Open":
			good = fields{boxed: box.Seal(nil, msg, &nonce, pubB, privA), nonce: nonce, k1: *pubA, k2: *privB}
			open = func(out []byte, f *fields) ([]byte, bool) { return box.Open(out, f.boxed, &f.nonce, &f.k1, &f.k2) }
			keyFields = []string{"peer-public-key", "private-key"}
		case "box.OpenAnonymous":
			b, err := box.SealAnonymous(nil, msg, pubB, vf.NewRand(fmt.Sprintf("c02-eph-%d-%d-%d", c.Seed, u.ci, u.n)))
			if err != nil {
				c.Violation("box.SealAnonymous fails", err.Error())
				return
			}
			good = fields{boxed: b, k1: *pubB, k2: *privB}
			open = func(out []byte, f *fields) ([]byte, bool) { return box.OpenAnonymous(out, f.boxed, &f.k1, &f.k2) }
			keyFields = []string{"recipient-public-key", "private-key"}
		}
		if back, ok := open(nil, &good); !ok || !bytes.Equal(back, msg) {
			c.Violation(tgt+": genuine box does not open", map[string]any{"len": u.n})
			return
		}
		c.Outcome(tgt + ": genuine message accepted")
		overhead := len(good.boxed) - u.n
		evals := 0
		rejected := false
		nt := map[string]struct{}{}
		arena := make([]byte, len(prefix)+u.n+64+48)
		try := func(field string, ft fault, f *fields) {
			det := func(mode string) map[string]any {
				return map[string]any{"target": tgt, "len": u.n, "class": u.ci, "field": field, "fault": ft.kind, "pos": ft.pos, "dst": mode}
			}
			nt[fmt.Sprintf("%s/%d/%s/%s/%d", tgt, u.n, field, ft.kind, ft.pos)] = struct{}{}
			for mode := 0; mode < 2; mode++ {
				name := [...]string{"prefix+spare", "nil"}[mode]
				var dst []byte
				if mode == 0 {
					dst = arena[:len(prefix):len(arena)]
					copy(dst, prefix)
				}
				var out []byte
				var ok bool
				if p, v, _ := vf.Protect(func() { out, ok = open(dst, f) }); p {
					c.Violation(fmt.Sprintf("%s panics on modified %s (%s)", tgt, field, ft.kind), map[string]any{"at": det(name), "panic": fmt.Sprint(v)})
					continue
				}
				evals++
				if ok {
					c.Violation(fmt.Sprintf("%s ACCEPTS modified %s (%s)", tgt, field, ft.kind), det(name))
					continue
				}
				if len(out) > len(dst) {
					c.Violation(fmt.Sprintf("%s returns bytes together with false (%s %s)", tgt, field, ft.kind), det(name))
				}
				rejected = true
			}
		}
		withBox := func(b []byte) *fields { f := good; f.boxed = b; return &f }
		// for OpenAnonymous the box starts with the 32-byte ephemeral public key: boundary = start of the tag
		eachFault(good.boxed, overhead, overhead, ext, func(ft fault) { try("box", ft, withBox(ft.data)) })
		eachTagPair(good.boxed, overhead-16, func(ft fault) { try("box", ft, withBox(ft.data)) })
		if tgt != "box.OpenAnonymous" {
			eachBitflip(good.nonce[:], nil, func(ft fault) { f := good; copy(f.nonce[:], ft.data); try("nonce", ft, &f) })
		}
		for i, kf := range keyFields {
			skip := map[int]bool(nil)
			switch kf {
			case "peer-public-key":
				skip = skipPub
			case "private-key":
				skip = skipPriv
			}
			src := good.k1
			if i == 1 {
				src = good.k2
			}
			eachBitflip(src[:], skip, func(ft fault) {
				f := good
				if i == 0 {
					copy(f.k1[:], ft.data)
				} else {
					copy(f.k2[:], ft.data)
				}
				try(kf, ft, &f)
			})
		}
		c.Eval(evals)
		for k := range nt {
			c.Nontrivial(k)
		}
		if rejected {
			c.Outcome(tgt + ": rejected")
		}
		if u.n == 33 && u.ci == 0 {
			c.Sample(map[string]any{"target": tgt, "len": u.n, "distinct_faults": len(nt), "opens": evals, "box": vf.Hex8(good.boxed)})
		}
	})
}
