package main

import "sync"

// bufPool hands out byte buffers and takes them back for reuse. On this machine first-touch
// page faults of fresh memory are very expensive (~0.1 s per MiB under load), so the long-input
// families reuse a handful of buffers instead of allocating per unit. Contents are whatever the
// previous user left: callers initialise what they read.
type bufPool struct {
	mu   sync.Mutex
	free [][]byte
}

func (p *bufPool) get(n int) []byte {
	p.mu.Lock()
	best := -1
	for i, b := range p.free {
		if cap(b) >= n && (best < 0 || cap(b) < cap(p.free[best])) {
			best = i
		}
	}
	if best >= 0 {
		b := p.free[best]
		p.free[best] = p.free[len(p.free)-1]
		p.free = p.free[:len(p.free)-1]
		p.mu.Unlock()
		return b[:n]
	}
	p.mu.Unlock()
	return make([]byte, n)
}

func (p *bufPool) put(b []byte) {
	p.mu.Lock()
	p.free = append(p.free, b[:cap(b)])
	p.mu.Unlock()
}

var pool bufPool
