// Hardening dimensions of C02 (see MUTATIONS.md, "Hardening pass"):
//
//	A  the key slice handed to New/NewX is a private copy that is overwritten as soon as the
//	   constructor has returned (newAEAD);
//	C/E  BLOCK family: genuine messages of EVERY length 0..1024 (thorough 0..2048) and of the long
//	   lengths 2^k+{-1,0,1,15,16,17}, k = 11..20 (thorough ..22), with one fault in each 16-byte
//	   block of the ciphertext (long lengths: the blocks at both ends, on both sides of every
//	   2^j-byte boundary and 16 (thorough 64) evenly spread ones), tag bits, and length confusions (cut to the
//	   length mod 256 / mod 65536, +-1/16/64 bytes), for ChaCha20-Poly1305 / XChaCha20-Poly1305 on
//	   both paths and for secretbox.Open;
//	D  after all faults of a unit the genuine message must still open (the object and the
//	   buffers have been through thousands of failed Opens by then).
package main

import (
	"bytes"
	"crypto/cipher"
	"fmt"
	"sort"

	"golang.org/x/crypto/nacl/secretbox"
	"verif/vf"
)

// newAEAD constructs the AEAD from a private copy of key and then overwrites that copy.
func newAEAD(mk func([]byte) (cipher.AEAD, error), key []byte) (cipher.AEAD, error) {
	k := append([]byte(nil), key...)
	a, err := mk(k)
	for i := range k {
		k[i] ^= 0xFF
	}
	return a, err
}

const blockFullMax = 4096 // up to this length every 16-byte block gets a fault

func blockLens(c *vf.Ctx) []int {
	set := map[int]bool{}
	every, kmax := 1024, 20
	if c.Thorough {
		every, kmax = 2048, 22
	}
	for n := 0; n <= every; n++ {
		set[n] = true
	}
	for k := 11; k <= kmax; k++ {
		for _, d := range []int{-1, 0, 1, 15, 16, 17} {
			set[1<<k+d] = true
		}
	}
	var out []int
	for n := range set {
		out = append(out, n)
	}
	sort.Sort(sort.Reverse(sort.IntSlice(out))) // longest first
	return out
}

// faultBlocks returns the indices of the 16-byte blocks of an n-byte string that get a fault.
func faultBlocks(n int, spread int) []int {
	blocks := (n + 15) / 16
	if n <= blockFullMax {
		out := make([]int, blocks)
		for i := range out {
			out[i] = i
		}
		return out
	}
	set := map[int]bool{}
	for i := 0; i < 4; i++ {
		set[i], set[blocks-1-i] = true, true
	}
	for j := 6; 1<<j <= n; j++ {
		b := (1 << j) / 16
		set[b-1] = true
		if b < blocks {
			set[b] = true
		}
	}
	for i := 0; i < spread; i++ {
		set[int(int64(blocks)*int64(i)/int64(spread))] = true
	}
	var out []int
	for b := range set {
		out = append(out, b)
	}
	sort.Ints(out)
	return out
}

// one single-bit fault inside block b of an n-byte string: byte position and bit mask (the
// position inside the block and the bit vary with the block index)
func blockFault(n, b int) (int, byte) {
	i := 16*b + b%16
	if i >= n {
		i = n - 1
	}
	return i, 1 << uint(b%8)
}

// aeadBlockPart runs the BLOCK family on the currently selected path.
func aeadBlockPart(c *vf.Ctx, path string, variants []variant) {
	ls := blockLens(c)
	spread := 16
	if c.Thorough {
		spread = 64
	}
	type unit struct{ v, n, an int }
	var units []unit
	for _, n := range ls {
		for v := range variants {
			for _, an := range []int{13, 0} {
				if an == 0 && (n > 1024 || n > 320 && !c.Thorough) {
					continue // empty AD: the lengths of the assembly's short-input paths (thorough: to 1024)
				}
				units = append(units, unit{v, n, an})
			}
		}
	}
	c.ParallelFor(len(units), func(ui int) {
		u := units[ui]
		va := variants[u.v]
		tgt := va.name + "/" + path
		key, nonce, pt, ad := c.Bytes("c02-blk-key", u.v, 32), c.Bytes("c02-blk-nonce", u.v, va.nonce), c.Bytes("c02-blk-pt", 0, u.n), seq(0x50, u.an)
		aead, err := newAEAD(va.mk, key)
		if err != nil {
			c.Violation(tgt+": constructor rejects a 32-byte key", err.Error())
			return
		}
		sealed := aead.Seal(nil, nonce, pt, ad)
		n := u.n
		long := n > blockFullMax
		buf := pool.get(n + 16 + 64)                 // working copy of the (faulty) sealed message
		arena := pool.get(len(prefix) + n + 64 + 16) // prefix + poisoned spare capacity
		defer func() { pool.put(buf); pool.put(arena) }()
		evals := 0
		nt := map[string]struct{}{}
		oc := map[string]struct{}{}

		// open one faulty message (already in in, which aliases buf) in the given dst mode
		// (0 prefix+spare, 2 in place); faultAt < 0: the fault is not a bit flip inside in[:need]
		open := func(field, kind string, pos int, in, adF []byte, mode int, faultAt int, mask byte) {
			name := [...]string{"prefix+spare", "nil", "in-place"}[mode]
			det := func() map[string]any {
				return map[string]any{"target": tgt, "len": n, "adLen": u.an, "field": field, "fault": kind, "pos": pos, "dst": name, "family": "block"}
			}
			need := len(in) - 16
			if need < 0 {
				need = 0
			}
			var dst []byte
			if mode == 0 {
				dst = arena[:len(prefix):len(arena)]
				copy(dst, prefix)
				sp := arena[len(prefix):]
				for i := range sp {
					sp[i] = poison
				}
			} else {
				dst = in[:0]
			}
			var out []byte
			var oerr error
			if p, v, _ := vf.Protect(func() { out, oerr = aead.Open(dst, nonce, in, adF) }); p {
				c.Violation(fmt.Sprintf("%s: Open panics on modified %s (%s)", tgt, field, kind), map[string]any{"at": det(), "panic": fmt.Sprint(v)})
				return
			}
			evals++
			if oerr == nil {
				c.Violation(fmt.Sprintf("%s: Open ACCEPTS modified %s (%s)", tgt, field, kind), det())
				return
			}
			if len(out) > len(dst) {
				c.Violation(fmt.Sprintf("%s: Open returns bytes together with an error (%s %s)", tgt, field, kind), det())
			}
			if mode == 0 {
				region := arena[len(prefix) : len(prefix)+need]
				if !bytes.Equal(arena[:len(prefix)], prefix) {
					c.Violation(tgt+": failed Open modified the dst prefix", det())
				}
				switch {
				case allEq(region, 0):
					if need > 0 {
						oc[tgt+": rejected, dst region zeroed"] = struct{}{}
					} else {
						oc[tgt+": rejected (empty region)"] = struct{}{}
					}
				case allEq(region, poison):
					oc[tgt+": rejected, dst region untouched"] = struct{}{}
				default:
					c.Violation(fmt.Sprintf("%s: failed Open leaves bytes in dst (modified %s, %s)", tgt, field, kind), map[string]any{"at": det(), "region": vf.Hex8(region)})
				}
				if !allEq(arena[len(prefix)+need:], poison) {
					c.Violation(tgt+": failed Open wrote beyond the plaintext region of dst", det())
				}
				return
			}
			region := in[:need]
			if allEq(region, 0) {
				return
			}
			// otherwise it must still be the (faulty) input
			if faultAt >= 0 && faultAt < need {
				region[faultAt] ^= mask
			}
			if !bytes.Equal(region, sealed[:need]) {
				c.Violation(fmt.Sprintf("%s: failed in-place Open leaves bytes that are neither zero nor the input (modified %s, %s)", tgt, field, kind), map[string]any{"at": det(), "region": vf.Hex8(region)})
			}
		}
		flip := func(field, kind string, pos, i int, mask byte, mode int) {
			in := buf[:len(sealed)]
			copy(in, sealed)
			in[i] ^= mask
			open(field, kind, pos, in, ad, mode, i, mask)
		}

		// one fault in each (selected) 16-byte block of the ciphertext
		fb := faultBlocks(n, spread)
		if len(fb) > 0 {
			nt[fmt.Sprintf("%s/%d/%d/sealed/bitflip-in-each-of-%d-blocks", tgt, n, u.an, len(fb))] = struct{}{}
		}
		for bi, b := range fb {
			i, mask := blockFault(n, b)
			flip("sealed", "bitflip-in-block", b, i, mask, 2)
			if !long || bi%16 == 0 || c.Thorough {
				flip("sealed", "bitflip-in-block", b, i, mask, 0)
			}
		}
		// the tag: bits 0, 63, 64, 127 and bit (n mod 128) (every tag bit is flipped for the 12 lengths
		// of the main family; over the lengths of this family every bit position occurs as well)
		nt[fmt.Sprintf("%s/%d/%d/sealed/tag-bitflips", tgt, n, u.an)] = struct{}{}
		for _, bit := range []int{0, 63, 64, 127, n % 128} {
			flip("sealed", "bitflip", n+bit/8, n+bit/8, 1<<uint(bit%8), 2)
			flip("sealed", "bitflip", n+bit/8, n+bit/8, 1<<uint(bit%8), 0)
		}
		// length confusions of the sealed message: first bytes || genuine tag, and plain cuts
		cut := func(kind string, keep int) {
			if keep < 0 || keep >= n {
				return
			}
			nt[fmt.Sprintf("%s/%d/%d/sealed/%s/%d", tgt, n, u.an, kind, keep)] = struct{}{}
			in := buf[:keep+16]
			copy(in, sealed[:keep])
			copy(in[keep:], sealed[n:]) // the genuine tag behind a shortened ciphertext
			open("sealed", kind+":ciphertext-cut-tag-kept", keep, in, ad, 2, -1, 0)
			in = buf[:keep+16]
			copy(in, sealed[:keep+16]) // plain truncation
			open("sealed", kind+":truncated", keep, in, ad, 0, -1, 0)
		}
		if n > 0 {
			cut("length-mod-256", n&0xff)
			cut("length-mod-65536", n&0xffff)
			for _, k := range []int{1, 16, 64} {
				cut(fmt.Sprintf("shortened-by-%d", k), n-k)
			}
			for _, k := range []int{1, 16, 64} { // extended: the genuine message followed by k zero bytes
				nt[fmt.Sprintf("%s/%d/%d/sealed/extended/%d", tgt, n, u.an, k)] = struct{}{}
				in := buf[:n+16+k]
				copy(in, sealed)
				for i := n + 16; i < len(in); i++ {
					in[i] = 0
				}
				open("sealed", "extend-tail", k, in, ad, 0, -1, 0)
			}
		}
		// D: after all these failed Opens the genuine message still opens, in both dst modes
		for _, mode := range []int{0, 2} {
			in := buf[:len(sealed)]
			copy(in, sealed)
			dst := in[:0]
			if mode == 0 {
				dst = arena[:len(prefix):len(arena)]
				copy(dst, prefix)
			}
			back, err := aead.Open(dst, nonce, in, ad)
			evals++
			if err != nil || len(back) != len(dst)+n || !bytes.Equal(back[len(dst):], pt) {
				c.Violation(tgt+": genuine sealed message does not open after a series of failed Opens", map[string]any{"len": n, "adLen": u.an, "dst": mode})
			} else {
				oc[tgt+": genuine message accepted after failed Opens"] = struct{}{}
			}
		}
		c.Eval(evals)
		for k := range nt {
			c.Nontrivial(k)
		}
		for k := range oc {
			c.Outcome(k)
		}
		if n == 1<<16+17 {
			c.Sample(map[string]any{"family": "block", "target": tgt, "len": n, "adLen": u.an, "distinct_faults": len(nt), "opens": evals, "fault_blocks": len(faultBlocks(n, spread))})
		}
	})
}

// secretboxBlockPart: the same family for secretbox.Open (tag first, then the ciphertext).
func secretboxBlockPart(c *vf.Ctx) {
	ls := blockLens(c)
	spread := 16
	if c.Thorough {
		spread = 64
	}
	c.ParallelFor(len(ls), func(li int) {
		n := ls[li]
		const tgt = "secretbox.Open"
		var key [32]byte
		var nonce [24]byte
		copy(key[:], c.Bytes("c02-blk-nkey", 0, 32))
		copy(nonce[:], c.Bytes("c02-blk-nnonce", 0, 24))
		msg := c.Bytes("c02-blk-pt", 1, n)
		boxed := secretbox.Seal(nil, msg, &nonce, &key)
		buf := pool.get(len(boxed) + 64)
		arena := pool.get(len(prefix) + n + 64)
		defer func() { pool.put(buf); pool.put(arena) }()
		evals := 0
		nt := map[string]struct{}{}
		open := func(kind string, pos int, in []byte, mode int) {
			det := map[string]any{"target": tgt, "len": n, "field": "box", "fault": kind, "pos": pos, "dst": [...]string{"prefix+spare", "nil"}[mode], "family": "block"}
			var dst []byte
			if mode == 0 {
				dst = arena[:len(prefix):len(arena)]
				copy(dst, prefix)
			}
			var out []byte
			var ok bool
			if p, v, _ := vf.Protect(func() { out, ok = secretbox.Open(dst, in, &nonce, &key) }); p {
				c.Violation(fmt.Sprintf("%s panics on modified box (%s)", tgt, kind), map[string]any{"at": det, "panic": fmt.Sprint(v)})
				return
			}
			evals++
			if ok {
				c.Violation(fmt.Sprintf("%s ACCEPTS modified box (%s)", tgt, kind), det)
				return
			}
			if len(out) > len(dst) {
				c.Violation(fmt.Sprintf("%s returns bytes together with false (box %s)", tgt, kind), det)
			}
		}
		total := len(boxed)
		for bi, b := range faultBlocks(total, spread) {
			i, mask := blockFault(total, b)
			in := buf[:total]
			copy(in, boxed)
			in[i] ^= mask
			if bi == 0 {
				nt[fmt.Sprintf("%s/%d/box/bitflip-in-each-of-%d-blocks", tgt, n, len(faultBlocks(total, spread)))] = struct{}{}
			}
			open("bitflip-in-block", b, in, bi%2)
		}
		cut := func(kind string, keep int) {
			if keep < 0 || keep >= n {
				return
			}
			nt[fmt.Sprintf("%s/%d/box/%s/%d", tgt, n, kind, keep)] = struct{}{}
			in := buf[:16+keep]
			copy(in, boxed[:16+keep])
			open(kind+":truncated", keep, in, 1)
		}
		if n > 0 {
			cut("length-mod-256", n&0xff)
			cut("length-mod-65536", n&0xffff)
			for _, k := range []int{1, 16, 64} {
				cut(fmt.Sprintf("shortened-by-%d", k), n-k)
				nt[fmt.Sprintf("%s/%d/box/extended/%d", tgt, n, k)] = struct{}{}
				in := buf[:total+k]
				copy(in, boxed)
				for i := total; i < len(in); i++ {
					in[i] = 0
				}
				open("extend-tail", k, in, 0)
			}
		}
		// D: the genuine box still opens afterwards
		back, ok := secretbox.Open(arena[:0], boxed, &nonce, &key)
		evals++
		if !ok || !bytes.Equal(back, msg) {
			c.Violation(tgt+": genuine box does not open after a series of failed Opens", map[string]any{"len": n})
		} else {
			c.Outcome(tgt + ": genuine message accepted after failed Opens")
		}
		c.Eval(evals)
		for k := range nt {
			c.Nontrivial(k)
		}
		if n == 1<<16+17 {
			c.Sample(map[string]any{"family": "block", "target": tgt, "len": n, "distinct_faults": len(nt), "opens": evals})
		}
	})
}
