// C06: BLAKE2X extendable output follows the BLAKE2X specification.
//
// The real blake2b.NewXOF / blake2s.NewXOF objects are compared byte for byte with the
// BLAKE2X model in verif/ref/blake2ref (root hash with the XOF-length parameter, then
// B2(node, len, H0) per output node, last node shortened) over
//
//	G1  declared length grid x key {none,max} x message {"", B+1 bytes}: one Read, an
//	    oversized Read, and every constant read chunk size 1..200 (with interleaved
//	    zero-length reads), always up to io.EOF;
//	G2  every history over {Read(n), Clone-and-continue-on-clone, Clone-and-keep,
//	    Write(1), Reset} to a depth, for lengths that straddle node boundaries and for
//	    OutputLengthUnknown; Write after any Read must panic and leave the object intact;
//	    all clones and originals are read to the end afterwards (independence);
//	G3  far positions reached with the verif-tagged skip hook: the last nodes of
//	    lengths 70000, 65534 (2s), 2^32-2 (2b) and of the unknown-length stream
//	    (node counter 2^32-1, then EOF), and a 200000-byte unknown-length BLAKE2Xs read;
//	G4  a reduced G1 on every other hashBlocks implementation;
//	G5  NewXOF argument rules;
//	G6  long declared lengths 2^k + {-1,0,1,N-1,N,N+1} with reads whose boundaries sit on
//	    and cross those points.
//
// Hardening pass: keys/messages/read destinations are caller-owned (overwritten after each
// call, guard zone behind every destination), G1 patterns run on reused (Reset) objects,
// the unknown-length read runs to 4 MiB.
package main

import (
	"bytes"
	"fmt"
	"io"
	"sort"
	"strings"
	"time"

	"golang.org/x/crypto/blake2b"
	"golang.org/x/crypto/blake2s"
	"verif/ref/blake2ref"
	"verif/vf"
)

func main() { vf.Main("C06", vf.ModelChecking, run) }

type xofI interface {
	io.Writer
	io.Reader
	Reset()
}

type xalg struct {
	name    string
	node    int    // output node size = digest size of the underlying hash
	B       int    // input block size
	maxKey  int    // longest key
	magic   uint64 // declared length rejected by NewXOF (it encodes "unknown")
	maxLen  uint64 // largest declarable length
	unkStop uint64 // bytes produced in unknown-length mode before io.EOF (documented cap)
	newXOF  func(size uint64, key []byte) (xofI, error)
	clone   func(xofI) xofI
	skip    func(x xofI, nodes uint64) bool
	// ref returns stream bytes [from, from+n) for declared length size (0 = unknown)
	ref      func(size uint64, key, msg []byte, from uint64, n int) []byte
	paths    func() []string
	setPath  func(string) bool
	restore  func()
	readLens []int
}

func xalgs() []*xalg {
	b := &xalg{name: "blake2b", node: 64, B: 128, maxKey: 64, magic: 1<<32 - 1, maxLen: 1<<32 - 2, unkStop: (1 << 32) * 64,
		newXOF: func(size uint64, key []byte) (xofI, error) {
			x, err := blake2b.NewXOF(uint32(size), key)
			if err != nil {
				return nil, err
			}
			return x, nil
		},
		clone: func(x xofI) xofI { return x.(blake2b.XOF).Clone() },
		skip:  func(x xofI, n uint64) bool { return blake2b.VerifC06SkipNodes(x.(blake2b.XOF), n) },
		ref: func(size uint64, key, msg []byte, from uint64, n int) []byte {
			p := uint32(size)
			if size == 0 {
				p = blake2ref.UnknownB
			}
			return blake2ref.XOFB(p, key, msg, from, n)
		},
		paths: blake2b.VerifC05Paths, setPath: blake2b.VerifC05SetPath, restore: blake2b.VerifC05RestorePath,
		readLens: []int{0, 1, 63, 64, 65, 127, 128, 129, 200},
	}
	s := &xalg{name: "blake2s", node: 32, B: 64, maxKey: 32, magic: 1<<16 - 1, maxLen: 1<<16 - 2, unkStop: (1 << 32) * 32,
		newXOF: func(size uint64, key []byte) (xofI, error) {
			x, err := blake2s.NewXOF(uint16(size), key)
			if err != nil {
				return nil, err
			}
			return x, nil
		},
		clone: func(x xofI) xofI { return x.(blake2s.XOF).Clone() },
		skip:  func(x xofI, n uint64) bool { return blake2s.VerifC06SkipNodes(x.(blake2s.XOF), n) },
		ref: func(size uint64, key, msg []byte, from uint64, n int) []byte {
			p := uint16(size)
			if size == 0 {
				p = blake2ref.UnknownS
			}
			return blake2ref.XOFS(p, key, msg, from, n)
		},
		paths: blake2s.VerifC05Paths, setPath: blake2s.VerifC05SetPath, restore: blake2s.VerifC05RestorePath,
		readLens: []int{0, 1, 31, 32, 33, 63, 64, 65, 200},
	}
	return []*xalg{b, s}
}

func (a *xalg) class(s string) string { return a.name + " XOF: " + s }

// total is the number of bytes the stream holds for declared length size.
func (a *xalg) total(size uint64) uint64 {
	if size == 0 {
		return a.unkStop
	}
	return size
}

// reader tracks one real XOF in read mode against the reference stream.
type reader struct {
	a     *xalg
	x     xofI
	pos   uint64 // bytes produced so far
	total uint64
	// want returns reference bytes [from, from+n)
	want func(from uint64, n int) []byte
}

// read performs one Read(len n) and checks it against the model; it returns "" or a
// mismatch description. Accepted: 0 < k <= min(n, remaining) bytes equal to the stream
// (k = 0 when min is 0), err == nil, or io.EOF only when the stream is exhausted by or
// before this call; an exhausted stream must answer (0, io.EOF).
func (r *reader) read(n int) string {
	// destination with old contents (never zero) and a guard zone behind len(buf)
	const guard = 8
	full := make([]byte, n+guard)
	for i := range full {
		full[i] = 0xA5
	}
	buf := full[:n]
	var k int
	var err error
	if p, v, _ := vf.Protect(func() { k, err = r.x.Read(buf) }); p {
		return fmt.Sprintf("Read panics | %v", v)
	}
	for _, g := range full[n:] {
		if g != 0xA5 {
			return "Read writes behind the end of the destination slice"
		}
	}
	// the buffer belongs to the caller again: it is overwritten before the next call
	defer clobber(full)
	left := r.total - r.pos
	if left == 0 {
		if k != 0 || err != io.EOF {
			return fmt.Sprintf("Read on exhausted XOF does not return (0,EOF) | got (%d,%v)", k, err)
		}
		return ""
	}
	max := uint64(n)
	if left < max {
		max = left
	}
	if k < 0 || uint64(k) > max {
		return fmt.Sprintf("Read returns more bytes than requested or than the declared length allows | Read(%d) returned n=%d with %d bytes left", n, k, left)
	}
	if max > 0 && k == 0 {
		return fmt.Sprintf("Read makes no progress before the declared length is produced | Read(%d) = (0,%v) with %d bytes left", n, err, left)
	}
	if !bytes.Equal(buf[:k], r.want(r.pos, k)) {
		return "output bytes differ from the BLAKE2X construction"
	}
	r.pos += uint64(k)
	if err != nil && !(err == io.EOF && r.pos == r.total) {
		return fmt.Sprintf("Read returns an error before the declared length is produced | Read(%d) error %v at position %d", n, err, r.pos)
	}
	return ""
}

// drain reads with chunk size n until EOF was seen (at most limit bytes beyond the current position when limit > 0).
func (r *reader) drain(n int, limit uint64) string {
	stop := r.total
	if limit > 0 && r.pos+limit < stop {
		stop = r.pos + limit
	}
	for r.pos < stop {
		c := n
		if uint64(c) > stop-r.pos && stop != r.total {
			c = int(stop - r.pos)
		}
		if m := r.read(c); m != "" {
			return m
		}
	}
	if stop == r.total {
		// exhausted: EOF now and again
		for i := 0; i < 2; i++ {
			if m := r.read(n); m != "" {
				return m
			}
		}
		if m := r.read(0); m != "" {
			return m
		}
	}
	return ""
}

func clobber(b []byte) {
	for i := range b {
		b[i] ^= 0xFF
	}
}

// pow2Points lists, ascending, every 2^k + {-1,0,1,N-1,N,N+1} (k = kmin..kmax) in 1..upto.
func pow2Points(N, kmin, kmax int, upto uint64) []uint64 {
	seen := map[uint64]bool{}
	var out []uint64
	for k := kmin; k <= kmax; k++ {
		for _, d := range []int{-1, 0, 1, N - 1, N, N + 1} {
			p := uint64(int64(1)<<k + int64(d))
			if p >= 1 && p <= upto && !seen[p] {
				seen[p] = true
				out = append(out, p)
			}
		}
	}
	sort.Slice(out, func(i, j int) bool { return out[i] < out[j] })
	return out
}

// readTo reads with one Read call per gap between consecutive points (so every point is a
// chunk boundary), starting at the reader's current position.
func (r *reader) readTo(points []uint64) string {
	for _, p := range points {
		if p <= r.pos || p > r.total {
			continue
		}
		for r.pos < p { // a Read may legally return less than asked
			if m := r.read(int(p - r.pos)); m != "" {
				return m
			}
		}
	}
	return ""
}

func cut(m string) string { cat, _, _ := strings.Cut(m, " | "); return cat }

func pattern(c *vf.Ctx, label string, n int) []byte { return c.Bytes(label, 0, n) }

func run(c *vf.Ctx) {
	c.Rule("for blake2b and blake2s XOFs: (G1) declared length {1..130 all, 255,256,257, 1000, 65534, 65535(2b)/rejected(2s), 65536, 70000 (2b), unknown} x key {none,max} x msg {empty, B+1 bytes}: " +
		"one exact Read, one oversized Read, every constant chunk size 1..200 (a subset for lengths > 1000) with interleaved zero-length reads, to EOF; " +
		"(G2) every history over {Read(0,1,N-1,N,N+1,2N-1,2N,2N+1,200), CloneSwitch, CloneKeep, Write(1), Reset} to depth D for lengths straddling node boundaries and unknown, all objects drained afterwards; " +
		"(G3) last nodes of very long / unknown-length outputs via the skip hook; real unknown-length reads of 2^22+2N bytes (2^24 thorough) with chunkings {4096, 65537, one Read, 2048N-1, one Read per gap between all points 2^k+{-1,0,1,N-1,N,N+1}}; (G4) reduced G1 on every other hashBlocks implementation; (G5) NewXOF argument rules; " +
		"(G6) declared lengths 2^k+{-1,0,1,N-1,N,N+1}, k=8..20 (22 thorough; up to 65534 for BLAKE2Xs) x key {none,max}: one Read, oversized Read, one Read per gap between the 2^k points, strides 4095 and 65537, all on one object that is Reset between patterns. " +
		"Caller-owned buffers everywhere: key and message are private copies overwritten right after NewXOF/Write return (stream, and stream after Reset, must be those of the original key); every Read gets a destination pre-filled with 0xA5 plus a guard zone that must stay intact, and the destination is overwritten before the next call. " +
		"Non-initial states: in G1 two of three reading patterns run on the object of the previous pattern after Reset (drained, or abandoned mid-stream for unknown length). " +
		"non-trivial = distinct (alg,length,key,msg,chunk) whose reads cross a node boundary or hit EOF with a partial last node, and every history from depth 2. oracle = BLAKE2X model (ref/blake2ref)")
	c.Assume("reference model verif/ref/blake2ref (validated against the official BLAKE2X KATs for known lengths; unknown length = XOF-length parameter 2^32-1 / 2^16-1 and full nodes, per blake2x.pdf section 2)")
	c.Assume("a Read may legally return fewer bytes than asked (io.Reader); what is demanded is the byte stream, its exact total before io.EOF, and (0,io.EOF) afterwards")
	c.Assume("G3 trusts the add-only hook VerifC06SkipNodes to emulate discarding whole nodes (remaining -= n*node, nodeOffset += n)")

	for _, a := range xalgs() {
		g5(c, a)
		t0 := time.Now()
		g1(c, a, "default", false)
		t1 := time.Now()
		g2(c, a)
		t2 := time.Now()
		g3(c, a)
		t2b := time.Now()
		g6(c, a)
		t3 := time.Now()
		for _, p := range a.paths()[1:] {
			if !a.setPath(p) {
				c.Violation(a.class("dispatch hook could not select "+p), nil)
				continue
			}
			g1(c, a, p, true)
		}
		a.restore()
		c.Set("wall_s_"+a.name, fmt.Sprintf("G1=%.1f G2=%.1f G3=%.1f G6=%.1f G4=%.1f", t1.Sub(t0).Seconds(), t2.Sub(t1).Seconds(), t2b.Sub(t2).Seconds(), t3.Sub(t2b).Seconds(), time.Since(t3).Seconds()))
	}
}

// ------------------------------------------------------------------ G1 / G4

type g1case struct {
	size uint64
	key  []byte
	msg  []byte
}

func g1(c *vf.Ctx, a *xalg, path string, reduced bool) {
	var sizes []uint64
	if reduced {
		sizes = []uint64{1, uint64(a.node) + 1, 257, 0}
	} else {
		for l := uint64(1); l <= 130; l++ {
			sizes = append(sizes, l)
		}
		sizes = append(sizes, 255, 256, 257, 1000, 65534, 0)
		if a.name == "blake2b" {
			sizes = append(sizes, 65535, 65536, 70000)
		}
	}
	keys := [][]byte{nil, pattern(c, a.name+"-key", a.maxKey)}
	msgs := [][]byte{nil, pattern(c, a.name+"-msg", a.B+1)}
	var cases []g1case
	for _, s := range sizes {
		for _, k := range keys {
			for _, m := range msgs {
				cases = append(cases, g1case{s, k, m})
			}
		}
	}
	pfor(c, a.name+" section G1", len(cases), func(i int) {
		g := cases[i]
		// how much of the stream this case looks at
		span := a.total(g.size)
		if g.size == 0 {
			span = 3000
		}
		stream := a.ref(g.size, g.key, g.msg, 0, int(span))
		want := func(from uint64, n int) []byte { return stream[from : from+uint64(n)] }
		// mk builds the XOF for one reading pattern. The caller owns its buffers: key and
		// message are private copies that are overwritten as soon as NewXOF / Write return.
		// With reuse != nil the object of an earlier pattern (drained, or abandoned in the
		// middle of the stream) is Reset and fed again instead: Reset must restore the
		// initial state keyed with the ORIGINAL key.
		mk := func(split bool, reuse *reader) (*reader, string) {
			var x xofI
			if reuse != nil {
				x = reuse.x
				x.Reset()
			} else {
				pk := append([]byte(nil), g.key...) // nil stays nil
				var err error
				x, err = a.newXOF(g.size, pk)
				if err != nil {
					return nil, "NewXOF rejects a valid length/key: " + err.Error()
				}
				clobber(pk)
			}
			pm := append([]byte(nil), g.msg...)
			if split && len(pm) > 1 {
				x.Write(pm[:1])
				clobber(pm[:1])
				x.Write(pm[1:])
			} else {
				x.Write(pm)
			}
			clobber(pm)
			return &reader{a: a, x: x, total: a.total(g.size), want: want}, ""
		}
		fail := func(what, m string, extra map[string]any) {
			d := map[string]any{"path": path, "declared_length": g.size, "keylen": len(g.key), "msglen": len(g.msg), "mismatch": m}
			for k, v := range extra {
				d[k] = v
			}
			cat, _, _ := strings.Cut(m, " | ")
			c.Violation(a.class(what+": "+cat+" ["+path+"]"), d)
		}
		// one exact read, then EOF
		r, m := mk(false, nil)
		if m != "" {
			fail("constructor", m, nil)
			return
		}
		c.Eval(1)
		if m := r.drain(int(span), span); m != "" {
			fail("single Read of the declared length", m, nil)
			return
		}
		// oversized read
		r, _ = mk(true, r) // reused: Reset of a drained object
		c.Eval(1)
		if g.size != 0 {
			if m := r.drain(int(span)+50, 0); m != "" {
				fail("oversized Read", m, nil)
				return
			}
		}
		// constant chunk sizes
		var chunks []int
		if span <= 1000 || c.Thorough {
			for k := 1; k <= 200; k++ {
				chunks = append(chunks, k)
			}
		} else {
			chunks = []int{1, a.node - 1, a.node, a.node + 1, 2*a.node - 1, 2*a.node + 1, 200, 4096, 65535}
		}
		if reduced {
			chunks = []int{1, a.node - 1, a.node + 1, 200}
		}
		for _, k := range chunks {
			// two of three patterns run on the Reset object of the previous pattern
			// (non-initial state), every third on a fresh one
			if k%3 == 1 {
				r, _ = mk(k%2 == 0, nil)
			} else {
				r, _ = mk(k%2 == 0, r)
			}
			c.Eval(1)
			// interleave zero-length reads when k is a multiple of 3
			var m string
			if k%3 == 0 {
				for r.pos < span && m == "" {
					if m = r.read(0); m == "" {
						n := k
						if g.size == 0 && uint64(n) > span-r.pos {
							n = int(span - r.pos)
						}
						m = r.read(n)
					}
				}
				if m == "" && g.size != 0 {
					m = r.drain(k, 0)
				}
			} else {
				m = r.drain(k, span)
			}
			if m != "" {
				fail("chunked Read", m, map[string]any{"chunk": k})
				return
			}
			if span > uint64(a.node) && k%a.node != 0 || span%uint64(a.node) != 0 {
				c.Nontrivial(fmt.Sprintf("G1/%s/%s/%d/%d/%d/%d", a.name, path, g.size, len(g.key), len(g.msg), k))
			}
		}
		if !reduced && (g.size == 129 || g.size == 0) && len(g.key) > 0 && len(g.msg) > 0 {
			c.Sample(map[string]any{"section": "G1", "alg": a.name, "declared_length": g.size, "keylen": len(g.key), "msglen": len(g.msg), "chunk_sizes": len(chunks), "first_bytes": vf.Hex8(stream[:min(len(stream), 16)])})
		}
	})
}

// ------------------------------------------------------------------ G2

type xop struct {
	kind byte // 'R' read, 'C' clone and continue on the clone, 'K' clone and keep using the original, 'W' write 1 byte, 'Z' reset
	n    int
}

func g2(c *vf.Ctx, a *xalg) {
	N := uint64(a.node)
	var ops []xop
	ops = append(ops, xop{'R', 1}, xop{'C', 0}, xop{'W', 1}, xop{'R', a.node}, xop{'K', 0}, xop{'Z', 0})
	for _, n := range a.readLens {
		if n != 1 && n != a.node {
			ops = append(ops, xop{'R', n})
		}
	}
	depth := 4
	if c.Thorough {
		depth = 5
	}
	sizes := []uint64{1, N + 1, 2*N + 1, 3*N + 36, 4 * N, 4*N + 1, 600, 0}
	key := pattern(c, a.name+"-g2-key", a.maxKey)
	base := pattern(c, a.name+"-g2-msg", 3)
	extra := pattern(c, a.name+"-g2-extra", depth)
	type cfg struct {
		size uint64
		key  []byte
	}
	var cfgs []cfg
	for _, s := range sizes {
		cfgs = append(cfgs, cfg{s, nil})
	}
	cfgs = append(cfgs, cfg{2*N + 1, key}, cfg{0, key})
	for _, cf := range cfgs {
		// reference streams for message = base + extra[:k], k = 0..depth
		span := a.total(cf.size)
		if cf.size == 0 {
			span = uint64(depth*200 + 300)
		}
		streams := make([][]byte, depth+1)
		for k := range streams {
			msg := append(append([]byte{}, base...), extra[:k]...)
			streams[k] = a.ref(cf.size, cf.key, msg, 0, int(span))
		}
		label := fmt.Sprintf("G2/%s/len%d/key%d", a.name, cf.size, len(cf.key))
		vf.ExploreSeq(c, label, vf.SeqSpec[xop]{
			Ops: ops, Depth: depth, Parallel: true,
			Name: func(o xop) string {
				switch o.kind {
				case 'R':
					return fmt.Sprintf("Read(%d)", o.n)
				case 'C':
					return "CloneSwitch"
				case 'K':
					return "CloneKeep"
				case 'W':
					return "Write(1)"
				}
				return "Reset"
			},
			Class: func(h []xop, mis string) string {
				cat, _, _ := strings.Cut(mis, " | ")
				return a.class("history: " + cat)
			},
			Run: func(hist []xop) (key string, stop bool, mis string) {
				defer recoverRun(&stop, &mis)
				pk := append([]byte(nil), cf.key...) // nil stays nil
				x, err := a.newXOF(cf.size, pk)
				if err != nil {
					return "", true, "NewXOF rejects valid arguments"
				}
				clobber(pk) // caller-owned: every later Reset must re-key with the ORIGINAL key
				pb := append([]byte(nil), base...)
				x.Write(pb)
				clobber(pb)
				wpanics := 0
				written := 0     // extra bytes absorbed since the last Reset
				reading := false // a Read has happened since the last Reset
				type live struct {
					r       *reader
					reading bool
					written int
				}
				mkReader := func(x xofI, w int, pos uint64) *reader {
					st := streams[w]
					return &reader{a: a, x: x, pos: pos, total: a.total(cf.size), want: func(from uint64, n int) []byte { return st[from : from+uint64(n)] }}
				}
				cur := mkReader(x, 0, 0)
				var parked []live
				for _, o := range hist {
					switch o.kind {
					case 'R':
						if !reading {
							reading = true
							cur = mkReader(cur.x, written, 0)
						}
						if m := cur.read(o.n); m != "" {
							return "", true, m
						}
					case 'W':
						w1 := []byte{extra[written]}
						p, _, _ := vf.Protect(func() { cur.x.Write(w1) })
						w1[0] ^= 0xFF
						if reading {
							if !p {
								return "", true, "Write after Read does not panic"
							}
							wpanics++
							// the object must be unaffected: checked by the final drain
						} else {
							if p {
								return "", true, "Write before any Read panics"
							}
							written++
						}
					case 'Z':
						if p, v, _ := vf.Protect(func() { cur.x.Reset() }); p {
							return "", true, fmt.Sprintf("Reset panics | %v", v)
						}
						// Reset returns to the keyed initial state: the base message is gone too
						cur = mkReader(cur.x, 0, 0)
						written, reading = 0, false
						// model: message after Reset is empty + later writes; re-absorb base so that streams[] apply
						cur.x.Write(base)
					case 'C', 'K':
						var y xofI
						if p, v, _ := vf.Protect(func() { y = a.clone(cur.x) }); p {
							return "", true, fmt.Sprintf("Clone panics | %v", v)
						}
						other := mkReader(y, written, cur.pos)
						if o.kind == 'C' {
							parked = append(parked, live{cur, reading, written})
							cur = other
						} else {
							parked = append(parked, live{other, reading, written})
						}
					}
				}
				// drain every object: the current one first, then all parked ones (a clone or
				// original disturbed by operations on its sibling shows up here)
				all := append([]live{{cur, reading, written}}, parked...)
				for i, l := range all {
					r := l.r
					if !l.reading {
						r = mkReader(r.x, l.written, 0)
					}
					if m := r.drain(a.node+7, 300); m != "" {
						who := "current object"
						if i > 0 {
							who = "parked clone/original"
						}
						return "", true, "final drain of " + who + ": " + m
					}
				}
				if len(hist) == depth {
					c.Outcome(fmt.Sprintf("history end: write-panics=%d objects=%d exhausted=%v", wpanics, len(all), cur.pos == cur.total))
				}
				return "", false, ""
			},
		})
	}
}

// ------------------------------------------------------------------ G3

func g3(c *vf.Ctx, a *xalg) {
	N := uint64(a.node)
	key := pattern(c, a.name+"-g3-key", 7)
	msg := pattern(c, a.name+"-g3-msg", 10)
	type far struct {
		size      uint64
		skipNodes uint64
	}
	var fs []far
	lens := []uint64{70000, a.maxLen, a.maxLen - 1, a.maxLen - N + 1, 0}
	if a.name == "blake2s" {
		lens = []uint64{a.maxLen, a.maxLen - 1, a.maxLen - 30, a.maxLen - 31, 0}
	}
	for _, l := range lens {
		nodes := (a.total(l) + N - 1) / N
		for _, back := range []uint64{1, 2, 3} {
			fs = append(fs, far{l, nodes - back})
		}
		if l == 0 {
			// positions around 2^16 bytes and 2^16 nodes
			fs = append(fs, far{0, 65536/N - 2}, far{0, 65536 - 2}, far{0, 1<<31 - 1}, far{0, 1<<32 - 1})
		}
	}
	pfor(c, a.name+" section G3", len(fs), func(i int) {
		f := fs[i]
		for _, chunk := range []int{1, a.node - 1, a.node, a.node + 1, 3*a.node + 5} {
			x, err := a.newXOF(f.size, key)
			if err != nil {
				c.Violation(a.class("NewXOF rejects a valid length"), map[string]any{"declared_length": f.size, "err": err.Error()})
				return
			}
			x.Write(msg)
			// read a little first so that the skip starts from a state reached by real reads
			r := &reader{a: a, x: x, total: a.total(f.size), want: func(from uint64, n int) []byte { return a.ref(f.size, key, msg, from, n) }}
			pre := uint64(0)
			if f.skipNodes >= 2 {
				if m := r.read(2 * a.node); m != "" {
					c.Violation(a.class("far position: "+cut(m)), map[string]any{"declared_length": f.size, "mismatch": m})
					return
				}
				pre = 2
			}
			if !a.skip(x, f.skipNodes-pre) {
				c.Violation(a.class("skip hook refused a valid skip"), map[string]any{"declared_length": f.size, "nodes": f.skipNodes})
				return
			}
			r.pos = f.skipNodes * N
			c.Eval(1)
			if m := r.drain(chunk, 4*N); m != "" {
				c.Violation(a.class("far position: "+cut(m)), map[string]any{"declared_length": f.size, "start_node": f.skipNodes, "chunk": chunk, "mismatch": m})
				return
			}
			c.Nontrivial(fmt.Sprintf("G3/%s/%d/%d/%d", a.name, f.size, f.skipNodes, chunk))
		}
		if i == 0 {
			c.Sample(map[string]any{"section": "G3", "alg": a.name, "declared_length": f.size, "start_node": f.skipNodes})
		}
	})
	// a long real read in unknown-length mode (well beyond 2^16 bytes)
	kmax := 22
	if c.Thorough {
		kmax = 24
	}
	n := 1<<kmax + 2*a.node
	want := a.ref(0, key, msg, 0, n)
	points := pow2Points(a.node, 5, kmax, uint64(n))
	chunks := []int{4096, 65537, n, 0, a.node*2048 - 1} // 0 = one Read per gap between the 2^k+{-1,0,1,N-1,N,N+1} points
	pfor(c, a.name+" section G3-long", len(chunks), func(i int) {
		chunk := chunks[i]
		x, _ := a.newXOF(0, key)
		x.Write(msg)
		r := &reader{a: a, x: x, total: a.unkStop, want: func(from uint64, k int) []byte { return want[from : from+uint64(k)] }}
		c.Eval(1)
		var m string
		if chunk == 0 {
			m = r.readTo(points)
		} else {
			m = r.drain(chunk, uint64(n))
		}
		if m != "" {
			c.Violation(a.class("long unknown-length read: "+cut(m)), map[string]any{"chunk": chunk, "position": r.pos, "mismatch": m})
		}
		c.Nontrivial(fmt.Sprintf("G3long/%s/%d", a.name, chunk))
	})
}

// ------------------------------------------------------------------ G6 (long declared lengths)

func g6(c *vf.Ctx, a *xalg) {
	N := a.node
	// the BLAKE2X model produces ~8 MB/s: declared lengths up to 2^20 in quick, 2^22 in
	// thorough (positions up to 2^22 / 2^24 are reached by the unknown-length reads of G3)
	kmax := 20
	if c.Thorough {
		kmax = 22
	}
	lens := pow2Points(N, 8, kmax, a.maxLen)
	key := pattern(c, a.name+"-g6-key", a.maxKey)
	msg := pattern(c, a.name+"-g6-msg", a.B+1)
	type lcase struct {
		size uint64
		key  []byte
	}
	var cases []lcase
	for i := len(lens) - 1; i >= 0; i-- { // longest first
		L := lens[i]
		if L <= 1<<17 {
			cases = append(cases, lcase{L, nil}, lcase{L, key})
		} else if i%2 == 0 {
			cases = append(cases, lcase{L, nil})
		} else {
			cases = append(cases, lcase{L, key})
		}
	}
	pfor(c, a.name+" section G6", len(cases), func(i int) {
		g := cases[i]
		stream := a.ref(g.size, g.key, msg, 0, int(g.size))
		want := func(from uint64, n int) []byte { return stream[from : from+uint64(n)] }
		pk := append([]byte(nil), g.key...)
		x, err := a.newXOF(g.size, pk)
		if err != nil {
			c.Violation(a.class("NewXOF rejects a valid length/key"), map[string]any{"declared_length": g.size, "err": err.Error()})
			return
		}
		clobber(pk)
		points := pow2Points(N, 5, kmax, g.size)
		for pi, pat := range []string{"one Read", "oversized Read", "boundaries at 2^k+{-1,0,1,N-1,N,N+1}", "stride 4095", "stride 65537"} {
			if pi > 0 {
				x.Reset() // the object is reused: every pattern but the first starts from a drained-and-Reset state
			}
			x.Write(msg)
			r := &reader{a: a, x: x, total: g.size, want: want}
			var m string
			switch pi {
			case 0:
				m = r.drain(int(g.size), 0)
			case 1:
				m = r.drain(int(g.size)+50, 0)
			case 2:
				if m = r.readTo(points); m == "" {
					m = r.drain(N+1, 0)
				}
			case 3:
				m = r.drain(4095, 0)
			case 4:
				m = r.drain(65537, 0)
			}
			c.Eval(1)
			if m != "" {
				c.Violation(a.class("long declared length, "+pat+": "+cut(m)), map[string]any{"declared_length": g.size, "keylen": len(g.key), "position": r.pos, "mismatch": m})
				return
			}
			c.Nontrivial(fmt.Sprintf("G6/%s/%d/%d/%d", a.name, g.size, len(g.key), pi))
		}
		if i == 0 {
			c.Sample(map[string]any{"section": "G6", "alg": a.name, "declared_length": g.size, "keylen": len(g.key), "boundary_points": len(points)})
		}
	})
}

// ------------------------------------------------------------------ G5

func g5(c *vf.Ctx, a *xalg) {
	c.Eval(4)
	if _, err := a.newXOF(a.magic, nil); err == nil {
		c.Violation(a.class("NewXOF accepts the reserved length that encodes 'unknown'"), a.magic)
	}
	if _, err := a.newXOF(10, make([]byte, a.maxKey+1)); err == nil {
		c.Violation(a.class("NewXOF accepts an over-long key"), a.maxKey+1)
	}
	if _, err := a.newXOF(10, make([]byte, a.maxKey)); err != nil {
		c.Violation(a.class("NewXOF rejects a maximal key"), err.Error())
	}
	if _, err := a.newXOF(a.maxLen, nil); err != nil {
		c.Violation(a.class("NewXOF rejects the maximal length"), err.Error())
	}
}

// pfor is c.ParallelFor with every case guarded: a panic escaping the code under test
// is recorded as a violation instead of crashing the run.
func pfor(c *vf.Ctx, section string, n int, f func(i int)) {
	c.ParallelFor(n, func(i int) {
		if p, v, st := vf.Protect(func() { f(i) }); p {
			if len(st) > 1500 {
				st = st[:1500]
			}
			c.Violation(section+": unexpected panic in the code under test", map[string]any{"case_index": i, "panic": fmt.Sprint(v), "stack": st})
		}
	})
}

// recoverRun turns a panic inside a history into a mismatch of that history.
func recoverRun(stop *bool, mis *string) {
	if r := recover(); r != nil {
		*stop, *mis = true, fmt.Sprintf("unexpected panic | %v", r)
	}
}
