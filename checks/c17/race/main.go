package main

import (
	"bytes"
	"fmt"
	"golang.org/x/crypto/bcrypt"
	"sync"
)

func compute(g, i int) [][]byte {
	pw := []byte(fmt.Sprint("password-", g, "-", i))
	h, err := bcrypt.GenerateFromPassword(pw, 4)
	if err != nil {
		return [][]byte{[]byte(err.Error())}
	}
	ok := []byte{0}
	if bcrypt.CompareHashAndPassword(h, pw) == nil && bcrypt.CompareHashAndPassword(h, append(pw, 1)) != nil {
		ok[0] = 1
	}
	c, _ := bcrypt.Cost(h)
	return [][]byte{ok, {byte(c)}}
}

func main() {
	const G, N = 4, 10
	want := make([][][][]byte, G)
	for g := 0; g < G; g++ {
		for i := 0; i < N; i++ {
			want[g] = append(want[g], compute(g, i))
		}
	}
	var wg sync.WaitGroup
	var mu sync.Mutex
	bad := ""
	for g := 0; g < G; g++ {
		wg.Add(1)
		go func(g int) {
			defer wg.Done()
			for i := 0; i < N; i++ {
				got := compute(g, i)
				for k := range got {
					if !bytes.Equal(got[k], want[g][i][k]) {
						mu.Lock()
						if bad == "" {
							bad = fmt.Sprintf("goroutine %d call %d result %d differs from the same call made alone", g, i, k)
						}
						mu.Unlock()
						return
					}
				}
			}
		}(g)
	}
	wg.Wait()
	if bad != "" {
		fmt.Println("COMPANION-MISMATCH:", bad)
	}
	fmt.Println("race companion: rounds completed:", 1)
}
