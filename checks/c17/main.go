// C17: bcrypt hashes verify exactly the right passwords and interoperate.
//
// Grid A (generate): every password length 0..72 x 8 value classes (last byte 00,7F,80,FF,'a'; all FF; all NUL; printable) x
//
//	cost {4,5,6} (+ costs below MinCost -> DefaultCost, 7..9 once, > MaxCost -> error;
//	lengths 73..80,100,1000 -> ErrPasswordTooLong): the hash string must equal the model's
//	"$2a$" encoding for the salt drawn from (a deterministic) crypto/rand.Reader, byte for byte.
//
// Grid B (compare): every password length 0..80 x value classes x {$2a$,$2b$,$2y$} model
//
//	hashes x candidates {same, every single byte changed, truncated by one, extended by one
//	of 5 bytes, pw||0||pw, tails beyond byte 72, lengths 255..257}: success iff the 72-byte
//	cyclic key pw||NUL is the same (and, on a sub-grid, iff the model verifies).
//
// Grid C (foreign): 245 embedded libxcrypt hashes verify here, near misses do not; when
//
//	libcrypt is reachable through python3/ctypes, hashes produced here verify there (7-bit
//	passwords) and fresh libxcrypt $2b$/$2y$ hashes verify here.
//
// Grid D (malformed): every single-byte substitution (256 values x every position), every
//
//	truncation and short extension of valid hash strings, every string of length <= 2, all
//	double substitutions in the 7-byte header over a 16/24-character alphabet: Cost and
//	CompareHashAndPassword never panic, never succeed unless the model verifies.
package main

import (
	"bytes"
	"context"
	"crypto/rand"
	"encoding/hex"
	"encoding/json"
	"errors"
	"fmt"
	"io"
	"os/exec"
	"strings"
	"sync"
	"time"

	"golang.org/x/crypto/bcrypt"
	"verif/ref/bcryptref"
	"verif/vf"
)

func main() { vf.Main("C17", vf.Exploration, run) }

// recReader is a deterministic, recording replacement for crypto/rand.Reader.
type recReader struct {
	mu  sync.Mutex
	r   io.Reader
	log []byte
}

func (r *recReader) Read(p []byte) (int, error) {
	r.mu.Lock()
	defer r.mu.Unlock()
	n, err := r.r.Read(p)
	r.log = append(r.log, p[:n]...)
	return n, err
}

func (r *recReader) take() []byte {
	r.mu.Lock()
	defer r.mu.Unlock()
	b := r.log
	r.log = nil
	return b
}

const maxCompareCost = 8 // never run CompareHashAndPassword on a string whose cost field exceeds this

// safeCompare runs CompareHashAndPassword unless the hash string's cost would make it
// run for minutes; it reports panics.
func safeCompare(c *vf.Ctx, h, pw []byte, where string) (err error, ran bool) {
	// gate on our own reading of the cost field and on the package's
	if len(h) >= 7 {
		for _, off := range []int{3, 4} { // "$2$NN" or "$2a$NN"
			if off+2 <= len(h) {
				d := h[off : off+2]
				if d[0] >= '0' && d[0] <= '9' && d[1] >= '0' && d[1] <= '9' && int(d[0]-'0')*10+int(d[1]-'0') > maxCompareCost {
					if (off == 3 && h[2] == '$') || (off == 4 && h[2] != '$') {
						return nil, false
					}
				}
			}
		}
	}
	// Hardening A: the package only ever sees private copies of the hash and the password. They
	// sit inside sentinel-framed buffers, alternately with spare capacity behind them (an append
	// inside the package would write into the caller's memory) and with capacity == length; they
	// must be intact after every call.
	origH, origPw := h, pw
	spare := (len(origH)+len(origPw))%2 == 0
	fh, h := guard(origH, spare)
	fp, pw := guard(origPw, !spare || len(origPw)%3 == 0)
	check := func(api string) {
		if !intact(fh, origH) {
			c.Violation(api+" writes to the caller's hash buffer or its spare capacity", map[string]any{"hash": string(origH), "hex": hex.EncodeToString(origH), "after": hex.EncodeToString(fh), "where": where})
		}
		if !intact(fp, origPw) {
			c.Violation(api+" writes to the caller's password buffer or its spare capacity", map[string]any{"hash": string(origH), "pwlen": len(origPw), "where": where})
		}
	}
	var cost int
	var cerr error
	if p, v, st := vf.Protect(func() { cost, cerr = bcrypt.Cost(h) }); p {
		c.Violation("bcrypt.Cost panics ("+where+")", map[string]any{"hash": string(h), "hex": hex.EncodeToString(h), "panic": fmt.Sprint(v), "stack": st})
		return nil, false
	}
	check("bcrypt.Cost")
	if cerr == nil && cost > maxCompareCost {
		return nil, false
	}
	if p, v, st := vf.Protect(func() { err = bcrypt.CompareHashAndPassword(h, pw) }); p {
		c.Violation("bcrypt.CompareHashAndPassword panics ("+where+")", map[string]any{"hash": string(h), "hex": hex.EncodeToString(h), "pwlen": len(pw), "panic": fmt.Sprint(v), "stack": st})
		return nil, false
	}
	check("bcrypt.CompareHashAndPassword")
	return err, true
}

// guard places a private copy of b in a frame: 8 sentinel bytes in front, 24 behind. With spare
// the returned slice's capacity extends over the trailing sentinels, otherwise cap == len.
func guard(b []byte, spare bool) (frame, s []byte) {
	frame = bytes.Repeat([]byte{0xA5}, 8+len(b)+24)
	copy(frame[8:], b)
	if spare {
		return frame, frame[8 : 8+len(b)]
	}
	return frame, frame[8 : 8+len(b) : 8+len(b)]
}

func intact(frame, orig []byte) bool {
	if len(frame) != 8+len(orig)+24 {
		return false
	}
	for i, v := range frame {
		if i >= 8 && i < 8+len(orig) {
			if v != orig[i-8] {
				return false
			}
		} else if v != 0xA5 {
			return false
		}
	}
	return true
}

// password value classes for length n: seeded bytes (NULs allowed) with the last byte forced.
var lastBytes = []byte{0x00, 0x7f, 0x80, 0xff, 'a'}

func password(c *vf.Ctx, n, variant int) []byte {
	var pw []byte
	switch variant % 8 {
	case 5:
		pw = bytes.Repeat([]byte{0xff}, n)
	case 6:
		pw = make([]byte, n) // all NUL
	case 7:
		pw = c.Bytes("pw-ascii", n, n) // printable 7-bit, usable with crypt(3)
		for i := range pw {
			pw[i] = 0x21 + pw[i]%0x5e
		}
	default:
		pw = c.Bytes("pw", n*16+variant, n)
		if n > 0 {
			pw[n-1] = lastBytes[variant%5]
		}
	}
	return pw
}

func salts(c *vf.Ctx) [][]byte { return c.ValueClasses("salt", 16, c.V()) }

func run(c *vf.Ctx) {
	c.RaceCompanion("the bcrypt functions", "golang.org/x/crypto/bcrypt.", "golang.org/x/crypto/blowfish.")
	c.Rule("A: GenerateFromPassword over pwlen 0..72 x 8 value classes x cost{4,5,6} (+cost<4, 7..9, >31; pwlen>72) vs model string; " +
		"B: CompareHashAndPassword over pwlen 0..80 x value classes x minor{a,b,y} x salt classes x candidates{same, each single byte changed, -1 byte, +1 byte of 5 values, pw|0|pw, tail changes beyond 72, len 255..257} vs 72-byte-cyclic-key oracle (+ model on sub-grid); " +
		"C: 245 embedded libxcrypt hashes + live libxcrypt when reachable; " +
		"D: all single-byte substitutions/truncations/extensions of valid hashes, all strings of len<=2, all header double substitutions: no panic, success only if model verifies; " +
		"hardening: (A) every GenerateFromPassword / Cost / CompareHashAndPassword call of every grid receives hash and password as private copies in sentinel-framed buffers, alternately with spare capacity behind the slice and with cap == len, which must be intact after the call (passwords are wiped after Generate); (C/E) candidate lengths 65535, 65536, 65537, 2^20+1 for pwlen in {0,8,..,64,71..80}, trailing garbage of 196, 197, 65477 and 2^20 bytes after a valid hash; " +
		"(D/B) every history of 3 operations {compare right, compare wrong, cost, generate+compare, compare malformed (59-byte $2a$), compare 200-byte cyclic continuation} on ONE set of caller buffers x hash form {$2a$, $2b$, $2y$ cost 5, $2$, $2a$+trailing bytes} x {spare capacity, cap == len}: each result as on fresh buffers, all buffers intact after each operation; " +
		"non-trivial = distinct (grid, pwlen, class, cost/minor, candidate kind / fault position) evaluated against the oracle")
	c.Assume("values: passwords/salts from a fixed alphabet plus seeded classes; costs above 10 are not executed (2^cost key expansions); Cost() alone is checked for cost fields up to 99")
	c.Assume("reference model: eksblowfish on pi-computed Blowfish tables, validated by the Openwall/OpenBSD vectors and 245 libxcrypt hashes; libxcrypt $2a$ differs from OpenBSD for a few 8-bit passwords (collision countermeasure), so live $2a$ interop uses 7-bit passwords")
	c.Assume("leniencies of the parser that the property does not forbid are tallied, not alarmed: trailing bytes after a 60-byte hash, any minor version byte, major version below '2', unchecked separator after the cost, '+N' cost, non-canonical last salt character")

	// ------------------------------------------------------------------ A: generation
	rr := &recReader{r: vf.NewRand(fmt.Sprintf("c17-salt-%d", c.Seed))}
	oldReader := rand.Reader
	rand.Reader = rr
	var gens []gen
	addGenV := func(pw []byte, cost, eff int, live bool) {
		rr.take()
		var h []byte
		var err error
		fpw, gpw := guard(pw, (len(pw)+cost)%2 == 0)
		if p, v, st := vf.Protect(func() { h, err = bcrypt.GenerateFromPassword(gpw, cost) }); p {
			c.Violation("bcrypt.GenerateFromPassword panics", map[string]any{"pwlen": len(pw), "cost": cost, "panic": fmt.Sprint(v), "stack": st})
			return
		}
		c.Eval(1)
		if !intact(fpw, pw) {
			c.Violation("bcrypt.GenerateFromPassword writes to the caller's password buffer or its spare capacity", map[string]any{"pwlen": len(pw), "cost": cost})
		}
		for i := range fpw { // the caller wipes its password; the returned hash must not care
			fpw[i] ^= 0xFF
		}
		if err != nil {
			c.Violation("bcrypt.GenerateFromPassword fails for a valid password/cost", map[string]any{"pwlen": len(pw), "cost": cost, "err": err.Error()})
			return
		}
		gens = append(gens, gen{pw, cost, eff, h, rr.take(), live})
	}
	addGen := func(pw []byte, cost, eff int) { addGenV(pw, cost, eff, false) }
	for n := 0; n <= 72; n++ {
		for v := 0; v < 8; v++ {
			addGenV(password(c, n, v), 4, 4, v == 7)
		}
		addGen(password(c, n, n), 5, 5)
		addGen(password(c, n, n+1), 6, 6)
	}
	for _, cost := range []int{7, 8, 9} {
		addGen(password(c, 9+cost, cost), cost, cost)
	}
	for _, cost := range []int{-1, 0, 3} { // documented: below MinCost -> DefaultCost
		addGen(password(c, 8, cost+1), cost, bcrypt.DefaultCost)
	}
	addGen(password(c, 8, 0), 10, 10)
	rand.Reader = oldReader
	for _, n := range []int{73, 74, 75, 76, 77, 78, 79, 80, 100, 1000} {
		for _, cost := range []int{4, 0, 40} {
			h, err := bcrypt.GenerateFromPassword(bytes.Repeat([]byte{'x'}, n), cost)
			c.Eval(1)
			if err != bcrypt.ErrPasswordTooLong || h != nil {
				c.Violation("bcrypt.GenerateFromPassword accepts a password longer than 72 bytes", map[string]any{"pwlen": n, "cost": cost, "err": fmt.Sprint(err)})
			}
		}
		c.Outcome("generate: ErrPasswordTooLong")
	}
	for _, cost := range []int{32, 33, 64, 100, 1 << 20} {
		// A tree that lets such a cost through would start >= 2^32 key expansions. The call
		// runs in its own goroutine; if it has not returned after 20 s it is abandoned and
		// the run is marked non-exhaustive (no verdict is derived from the delay: the cost
		// limit itself is decided by grid E through Cost()).
		type res struct {
			h   []byte
			err error
		}
		ch := make(chan res, 1)
		go func() {
			h, err := bcrypt.GenerateFromPassword([]byte("pw"), cost)
			ch <- res{h, err}
		}()
		var h []byte
		var err error
		select {
		case r := <-ch:
			h, err = r.h, r.err
		case <-time.After(20 * time.Second):
			c.Capped(fmt.Sprintf("GenerateFromPassword(cost=%d) did not return within 20 s; abandoned", cost))
			continue
		}
		c.Eval(1)
		var ice bcrypt.InvalidCostError
		if h != nil || !errors.As(err, &ice) || int(ice) != cost {
			c.Violation("bcrypt.GenerateFromPassword does not reject cost > MaxCost with InvalidCostError", map[string]any{"cost": cost, "err": fmt.Sprint(err)})
		}
		c.Outcome("generate: InvalidCostError")
	}
	c.ParallelFor(len(gens), func(i int) {
		g := gens[i]
		d := map[string]any{"pwlen": len(g.pw), "pw": hex.EncodeToString(g.pw), "cost": g.cost, "hash": string(g.h)}
		if len(g.salt) != 16 {
			c.Violation("bcrypt.GenerateFromPassword does not draw exactly 16 salt bytes from rand.Reader", map[string]any{"drawn": len(g.salt), "cost": g.cost})
			return
		}
		want := bcryptref.Hash(g.pw, g.eff, g.salt, 'a')
		if string(g.h) != want {
			d["want"] = want
			c.Violation("bcrypt.GenerateFromPassword hash string differs from the reference $2a$ encoding", d)
		}
		if p, err := bcryptref.ParseStrict(string(g.h)); err != nil || !p.SaltCanonical {
			c.Violation("bcrypt.GenerateFromPassword output is not a canonical bcrypt hash string", d)
		}
		cost, err := bcrypt.Cost(g.h)
		if err != nil || cost != g.eff {
			d["Cost"] = fmt.Sprint(cost, err)
			c.Violation("bcrypt.Cost of a generated hash is wrong", d)
		}
		if err := bcrypt.CompareHashAndPassword(g.h, g.pw); err != nil {
			d["err"] = err.Error()
			c.Violation("CompareHashAndPassword(GenerateFromPassword(pw), pw) fails", d)
		}
		c.Outcome("generate: ok")
		c.Nontrivial(fmt.Sprintf("A/%d/%d/#%d", len(g.pw), g.cost, i))
		if len(g.pw) == 72 && g.cost == 5 {
			c.Sample(map[string]any{"grid": "A", "pwlen": 72, "cost": 5, "hash": string(g.h), "salt": hex.EncodeToString(g.salt)})
		}
	})

	// ------------------------------------------------------------------ B: compare matrix
	type bp struct{ n, v, cost int }
	var bgrid []bp
	nvar := 2
	if c.Thorough {
		nvar = 8
	}
	for n := 0; n <= 80; n++ {
		for v := 0; v < nvar; v++ {
			bgrid = append(bgrid, bp{n, v, 4})
		}
	}
	costLens := []int{0, 1, 56, 71, 72, 73}
	if c.Thorough {
		costLens = []int{0, 1, 2, 55, 56, 57, 70, 71, 72, 73, 74, 80}
	}
	for _, n := range costLens {
		bgrid = append(bgrid, bp{n, 3, 5}, bp{n, 4, 6})
	}
	sl := salts(c)
	minors := []byte{'a', 'b', 'y'}
	c.ParallelFor(len(bgrid), func(i int) {
		g := bgrid[i]
		pw := password(c, g.n, g.v)
		if g.v == 1 && g.n >= 2 {
			pw[g.n/2] = 0 // an embedded NUL
		}
		salt := sl[(g.n+g.v)%len(sl)]
		minor := minors[(g.n+g.v)%3]
		h := []byte(bcryptref.Hash(pw, g.cost, salt, minor))
		k72 := bcryptref.Key72(pw)
		type cand struct {
			kind string
			pw   []byte
		}
		cands := []cand{{"same", pw}}
		for j := 0; j < g.n; j++ {
			q := append([]byte(nil), pw...)
			q[j] ^= 1 << uint(j%8)
			cands = append(cands, cand{fmt.Sprintf("byte %d changed", j), q})
		}
		if g.n > 0 {
			cands = append(cands, cand{"truncated by one", pw[:g.n-1]})
			q := append([]byte(nil), pw...)
			q[g.n-1] ^= 0x80
			cands = append(cands, cand{"last byte high bit flipped", q})
		}
		for _, b := range lastBytes {
			cands = append(cands, cand{fmt.Sprintf("extended by %02x", b), append(append([]byte(nil), pw...), b)})
		}
		cands = append(cands, cand{"pw|00|pw", append(append(append([]byte(nil), pw...), 0), pw...)})
		cands = append(cands, cand{"pw|00", append(append([]byte(nil), pw...), 0)})
		cands = append(cands, cand{"pw|00|00", append(append([]byte(nil), pw...), 0, 0)})
		totals := []int{72, 73, 74, 255, 256, 257}
		if g.v == 0 && (g.n%8 == 0 || g.n >= 71) {
			// Hardening C/E: candidate lengths around 2^16 and 2^20 (only the first 72 bytes of the cyclic key count)
			totals = append(totals, 65535, 65536, 65537, 1<<20+1)
		}
		for _, total := range totals {
			if total > g.n {
				// cyclic continuation of pw||NUL up to total bytes: same key iff bcrypt only sees 72 bytes
				k := append(append([]byte(nil), pw...), 0)
				q := make([]byte, total)
				for j := range q {
					q[j] = k[j%len(k)]
				}
				cands = append(cands, cand{fmt.Sprintf("cyclic continuation to %d", total), q})
				q2 := append([]byte(nil), q...)
				q2[total-1] ^= 0x55
				cands = append(cands, cand{fmt.Sprintf("cyclic continuation to %d, last byte changed", total), q2})
			}
		}
		for ci, cd := range cands {
			want := bcryptref.Key72(cd.pw) == k72
			// independent second opinion from the full model on a sub-grid
			if ci < 3 || ci%9 == g.n%9 || c.Thorough {
				if mv, _ := bcryptref.Verify(string(h), cd.pw); mv != want {
					c.Violation("harness: model and 72-byte key oracle disagree", map[string]any{"pw": hex.EncodeToString(pw), "cand": hex.EncodeToString(cd.pw)})
					return
				}
			}
			err, ran := safeCompare(c, h, cd.pw, "valid hash")
			if !ran {
				continue
			}
			c.Eval(1)
			d := map[string]any{"hash": string(h), "pwlen": g.n, "pw": hex.EncodeToString(pw), "candidate": hex.EncodeToString(cd.pw), "kind": cd.kind, "err": fmt.Sprint(err)}
			if want && err != nil {
				c.Violation("CompareHashAndPassword rejects a password with the same 72-byte bcrypt key", d)
			}
			if !want && err == nil {
				c.Violation("CompareHashAndPassword accepts a password with a different bcrypt key", d)
			}
			if !want && err != nil && err != bcrypt.ErrMismatchedHashAndPassword {
				c.Violation("CompareHashAndPassword mismatch error is not ErrMismatchedHashAndPassword", d)
			}
			if want {
				c.Outcome("compare: match")
			} else {
				c.Outcome("compare: mismatch")
			}
			kind := cd.kind
			if strings.HasPrefix(kind, "byte ") {
				kind = "byte changed"
			}
			c.Nontrivial(fmt.Sprintf("B/%d/%d/%d/%s", g.n, g.v, g.cost, kind))
		}
		if g.n == 73 && g.v == 0 {
			c.Sample(map[string]any{"grid": "B", "pwlen": g.n, "hash": string(h), "candidates": len(cands)})
		}
	})

	// ------------------------------------------------------------------ C: foreign hashes
	fv := bcryptref.LibxcryptVectors()
	c.ParallelFor(len(fv), func(i int) {
		v := fv[i]
		if v.Cost > maxCompareCost+2 {
			return
		}
		c.Eval(3)
		if err := bcrypt.CompareHashAndPassword([]byte(v.Hash), v.Password); err != nil {
			c.Violation("libxcrypt hash does not verify here", map[string]any{"hash": v.Hash, "pw": hex.EncodeToString(v.Password), "err": err.Error()})
		}
		if cost, err := bcrypt.Cost([]byte(v.Hash)); err != nil || cost != v.Cost {
			c.Violation("bcrypt.Cost wrong for a libxcrypt hash", map[string]any{"hash": v.Hash, "got": fmt.Sprint(cost, err)})
		}
		wrong := append(append([]byte(nil), v.Password...), 'x')
		if len(v.Password) > 0 {
			wrong = append([]byte(nil), v.Password...)
			wrong[0] ^= 0x20
		}
		if bcryptref.Key72(wrong) != bcryptref.Key72(v.Password) {
			if err := bcrypt.CompareHashAndPassword([]byte(v.Hash), wrong); err == nil {
				c.Violation("libxcrypt hash verifies with a wrong password", map[string]any{"hash": v.Hash})
			}
		}
		c.Nontrivial(fmt.Sprintf("C/embedded/%d", i))
	})
	c.Outcome(fmt.Sprintf("foreign: %d embedded libxcrypt hashes", len(fv)))
	liveInterop(c, gens)

	// ------------------------------------------------------------------ D: malformed hash strings
	pwD := []byte("correct horse")
	baseA := bcryptref.Hash(pwD, 4, c.Bytes("saltD", 0, 16), 'a')
	baseB := bcryptref.Hash(pwD, 4, c.Bytes("saltD", 1, 16), 'b')
	base2 := "$2$" + baseA[4:] // 59 bytes, no minor version
	bases := []string{baseA, baseB, base2}
	type fault struct {
		base int
		pos  int
	}
	var fgrid []fault
	for b := range bases {
		for pos := 0; pos < len(bases[b]); pos++ {
			fgrid = append(fgrid, fault{b, pos})
		}
	}
	c.ParallelFor(len(fgrid), func(i int) {
		f := fgrid[i]
		base := bases[f.base]
		for val := 0; val < 256; val++ {
			if byte(val) == base[f.pos] {
				continue
			}
			// quick tier: all 256 values on the header (positions 0..7) of every base; on salt and
			// digest positions the 8 invalid bytes below plus 8 alphabet characters spread around
			// the original one (every position is still hit by valid and invalid substitutions)
			if f.pos >= 8 && !c.Thorough {
				keep := bytes.ContainsRune([]byte("\x00\xff$= \n-_"), rune(val))
				if k := strings.IndexByte(bcryptref.Alphabet, base[f.pos]); k >= 0 {
					for _, d := range []int{1, 2, 7, 16, 31, 32, 47, 63} {
						if byte(val) == bcryptref.Alphabet[(k+d)%64] {
							keep = true
						}
					}
				}
				if !keep {
					continue
				}
			}
			h := []byte(base)
			h[f.pos] = byte(val)
			checkMalformed(c, h, pwD, fmt.Sprintf("substitution base %d", f.base))
		}
		c.Nontrivial(fmt.Sprintf("D/subst/%d/%d", f.base, f.pos))
	})
	for b, base := range bases {
		for n := 0; n < len(base); n++ {
			checkMalformed(c, []byte(base[:n]), pwD, "truncation")
			err, ran := safeCompare(c, []byte(base[:n]), pwD, "truncation")
			if n < 59 && ran && err != bcrypt.ErrHashTooShort {
				c.Violation("CompareHashAndPassword on a hash shorter than 59 bytes does not return ErrHashTooShort", map[string]any{"len": n, "err": fmt.Sprint(err)})
			}
			c.Nontrivial(fmt.Sprintf("D/trunc/%d/%d", b, n))
		}
		for _, ext := range []string{"\x00", "a", "$", ".", "\n", "==", "aaaa", strings.Repeat("A", 100), strings.Repeat("/", 196), strings.Repeat("A", 197), strings.Repeat("z", 65536-59), strings.Repeat("A", 1<<20)} {
			checkMalformed(c, []byte(base+ext), pwD, "extension")
			c.Nontrivial(fmt.Sprintf("D/ext/%d/%q", b, ext))
		}
	}
	// every string of length <= 2
	c.ParallelFor(257, func(i int) {
		if i == 256 {
			checkMalformed(c, []byte{}, pwD, "short")
			checkMalformed(c, nil, pwD, "short")
			return
		}
		checkMalformed(c, []byte{byte(i)}, pwD, "short")
		for j := 0; j < 256; j++ {
			checkMalformed(c, []byte{byte(i), byte(j)}, pwD, "short")
		}
		c.Nontrivial(fmt.Sprintf("D/short/%d", i))
	})
	// double substitutions in the 7-byte header
	hdrAlpha := []byte("$0123459abxyz.+-/ \x00\xff=A\n")
	if !c.Thorough {
		hdrAlpha = []byte("$01249abz+- \x00\xffA\n")
	}
	var pairs [][2]int
	for p := 0; p < 7; p++ {
		for q := p + 1; q < 7; q++ {
			pairs = append(pairs, [2]int{p, q})
		}
	}
	c.ParallelFor(len(pairs), func(i int) {
		p, q := pairs[i][0], pairs[i][1]
		for _, x := range hdrAlpha {
			for _, y := range hdrAlpha {
				h := []byte(baseA)
				h[p], h[q] = x, y
				checkMalformed(c, h, pwD, "header double substitution")
			}
		}
		c.Nontrivial(fmt.Sprintf("D/hdr2/%d/%d", p, q))
	})
	// prefixes of the grammar padded to the length thresholds
	for _, pre := range []string{"", "$", "$2", "$2a", "$2a$", "$2a$0", "$2a$04", "$2a$04$", "$2$", "$2$04", "$2$04$", "$3a$04$", "$2a$4$", "$2a$004$", "$2a$-4$", "$2a$ 4$", "2a$04$"} {
		for _, total := range []int{57, 58, 59, 60, 61, 64} {
			for _, fill := range []byte{'.', 'A', '$', '9', 0, 0xff, '='} {
				if len(pre) > total {
					continue
				}
				h := append([]byte(pre), bytes.Repeat([]byte{fill}, total-len(pre))...)
				checkMalformed(c, h, pwD, "padded prefix")
			}
		}
		c.Nontrivial("D/prefix/" + pre)
	}

	histories(c)

	// ------------------------------------------------------------------ E: Cost over every cost field
	for v := 0; v <= 99; v++ {
		for _, minor := range []string{"a", "b", "y"} {
			h := fmt.Sprintf("$2%s$%02d$%s", minor, v, baseA[7:])
			cost, err := bcrypt.Cost([]byte(h))
			c.Eval(1)
			if v >= 4 && v <= 31 {
				if err != nil || cost != v {
					c.Violation("bcrypt.Cost wrong for a well-formed hash", map[string]any{"hash": h, "got": fmt.Sprint(cost, err)})
				}
			} else {
				var ice bcrypt.InvalidCostError
				if !errors.As(err, &ice) || int(ice) != v {
					c.Violation("bcrypt.Cost does not reject a cost outside 4..31 with InvalidCostError", map[string]any{"hash": h, "got": fmt.Sprint(cost, err)})
				}
				// only when Cost itself rejected the string: a tree that accepts cost 32 would
				// otherwise start 2^32 key expansions here
				if err != nil && v < bcrypt.MinCost {
					if cerr, ran := safeCompare(c, []byte(h), pwD, "cost field"); ran && cerr == nil {
						c.Violation("CompareHashAndPassword accepts a hash with cost outside 4..31", h)
					}
				}
			}
		}
		c.Nontrivial(fmt.Sprintf("E/cost/%d", v))
	}
}

// gen is one GenerateFromPassword call of grid A.
type gen struct {
	pw   []byte
	cost int // requested
	eff  int // effective cost
	h    []byte
	salt []byte // bytes drawn from rand.Reader
	live bool   // printable 7-bit password: also handed to libxcrypt
}

// checkMalformed applies Cost and CompareHashAndPassword to an arbitrary byte string.
// Oracle: never panic; for strings of the strict grammar the results equal the model's;
// otherwise CompareHashAndPassword may only succeed if the salt and digest fields are
// well-formed and the model verifies the password under the cost that Cost() reports
// (this tolerates, and tallies, the parser's leniencies in the header and after byte 60).
func checkMalformed(c *vf.Ctx, h, pw []byte, where string) {
	c.Eval(1)
	var cost int
	var cerr error
	if p, v, st := vf.Protect(func() { cost, cerr = bcrypt.Cost(h) }); p {
		c.Violation("bcrypt.Cost panics ("+where+")", map[string]any{"hash": string(h), "hex": hex.EncodeToString(h), "panic": fmt.Sprint(v), "stack": st})
		return
	}
	if cerr == nil && (cost < bcrypt.MinCost || cost > bcrypt.MaxCost) {
		c.Violation("bcrypt.Cost returns a cost outside MinCost..MaxCost without error", map[string]any{"hash": string(h), "cost": cost})
	}
	if len(h) < 59 && cerr != bcrypt.ErrHashTooShort {
		c.Violation("bcrypt.Cost on a hash shorter than 59 bytes does not return ErrHashTooShort", map[string]any{"hex": hex.EncodeToString(h), "err": fmt.Sprint(cerr)})
	}
	if len(h) >= 59 {
		var pe bcrypt.InvalidHashPrefixError
		var ve bcrypt.HashVersionTooNewError
		switch {
		case h[0] != '$' && h[1] > '2':
			if !errors.As(cerr, &pe) && !errors.As(cerr, &ve) {
				c.Violation("bcrypt.Cost: wrong prefix and too-new version not reported by the documented error types", map[string]any{"hex": hex.EncodeToString(h), "err": fmt.Sprint(cerr)})
			}
		case h[0] != '$':
			if !errors.As(cerr, &pe) || byte(pe) != h[0] {
				c.Violation("bcrypt.Cost: hash not starting with '$' does not give InvalidHashPrefixError", map[string]any{"hex": hex.EncodeToString(h), "err": fmt.Sprint(cerr)})
			}
		case h[1] > '2':
			if !errors.As(cerr, &ve) || byte(ve) != h[1] {
				c.Violation("bcrypt.Cost: major version above '2' does not give HashVersionTooNewError", map[string]any{"hex": hex.EncodeToString(h), "err": fmt.Sprint(cerr)})
			}
		}
	}
	strict, serr := bcryptref.ParseStrict(string(h))
	if serr == nil && (cerr != nil || cost != strict.Cost) {
		c.Violation("bcrypt.Cost wrong for a well-formed hash", map[string]any{"hash": string(h), "got": fmt.Sprint(cost, cerr)})
	}
	err, ran := safeCompare(c, h, pw, where)
	if !ran {
		c.Outcome("malformed: compare skipped (cost field too expensive)")
		return
	}
	if serr == nil {
		want, _ := bcryptref.Verify(string(h), pw)
		if want != (err == nil) {
			c.Violation("CompareHashAndPassword disagrees with the model on a well-formed hash", map[string]any{"hash": string(h), "model": want, "err": fmt.Sprint(err)})
		}
		if err == nil {
			if !strict.SaltCanonical {
				c.Outcome("lenient accept: non-canonical last salt character")
			} else {
				c.Outcome("well-formed variant accepted (model agrees)")
			}
		} else {
			c.Outcome("well-formed variant rejected (model agrees)")
		}
		return
	}
	if err != nil {
		c.Outcome("malformed: error")
		return
	}
	// success on a string outside the strict grammar: justify it or alarm
	if h[0] != '$' || h[1] > '2' {
		c.Violation("CompareHashAndPassword succeeds on a hash with a wrong prefix or a newer major version", map[string]any{"hash": string(h), "hex": hex.EncodeToString(h)})
		return
	}
	ok := false
	kind := ""
	if cerr == nil && len(h) >= 59 {
		off := 7
		if len(h) > 2 && h[2] == '$' {
			off = 6
		}
		if len(h) >= off+53 {
			canon := fmt.Sprintf("$2a$%02d$%s", cost, string(h[off:off+53]))
			if v, e := bcryptref.Verify(canon, pw); e == nil && v {
				ok = true
				switch {
				case len(h) > off+53:
					kind = "trailing bytes ignored"
				case off == 6:
					kind = "no minor version ($2$)"
				case h[1] != '2':
					kind = "major version below 2"
				case !strings.ContainsRune("abxy", rune(h[2])):
					kind = "unknown minor version"
				case h[6] != '$':
					kind = "separator after cost not checked"
				default:
					kind = "cost field spelling"
				}
			}
		}
	}
	if !ok {
		c.Violation("CompareHashAndPassword succeeds on a malformed hash that the model does not verify", map[string]any{"hash": string(h), "hex": hex.EncodeToString(h), "where": where})
		return
	}
	c.Outcome("lenient accept: " + kind)
}

// liveInterop talks to libxcrypt's crypt(3) through python3+ctypes when available. It is an
// additional conformance oracle: absence (or any failure to run it) is recorded, not alarmed.
func liveInterop(c *vf.Ctx, gens []gen) {
	const script = `
import sys, json, ctypes
C = ctypes.CDLL('libcrypt.so.1')
C.crypt.restype = ctypes.c_char_p
C.crypt.argtypes = [ctypes.c_char_p, ctypes.c_char_p]
probe = C.crypt(b'U*U', b'$2b$05$CCCCCCCCCCCCCCCCCCCCC.')
if probe != b'$2b$05$CCCCCCCCCCCCCCCCCCCCC.E5YPO9kmyuRGyh0XouQYb4YMJKvyOeW':
    sys.exit(3)
for line in sys.stdin:
    r = json.loads(line)
    out = C.crypt(bytes.fromhex(r['pw']), r['setting'].encode('latin-1'))
    print(json.dumps({'out': (out or b'').decode('latin-1')}))
`
	type req struct {
		PW      string `json:"pw"`
		Setting string `json:"setting"`
		want    string // expected output ("" = must equal Go's verification below)
		pw      []byte
		dir     string
	}
	var reqs []req
	// direction 1: hashes produced here verify there (crypt(pw, hash) == hash); 7-bit, NUL-free passwords
	for _, g := range gens {
		if g.live {
			reqs = append(reqs, req{PW: hex.EncodeToString(g.pw), Setting: string(g.h), want: string(g.h), pw: g.pw, dir: "here->libxcrypt"})
		}
	}
	n1 := len(reqs)
	// direction 2: libxcrypt hashes the password ($2b$/$2y$/$2a$), we verify
	for n := 0; n <= 80; n++ {
		pw := c.Bytes("live-pw", n, n)
		for i := range pw {
			if pw[i] == 0 {
				pw[i] = 0x81
			}
		}
		minor := "by"[n%2 : n%2+1]
		if n%5 == 0 {
			minor = "a"
			for i := range pw {
				pw[i] = 0x21 + pw[i]%0x5e
			}
		}
		setting := fmt.Sprintf("$2%s$%02d$%s", minor, 4+n%3, bcryptref.Encode64(c.Bytes("live-salt", n, 16)))
		reqs = append(reqs, req{PW: hex.EncodeToString(pw), Setting: setting, pw: pw, dir: "libxcrypt->here"})
	}
	ctx, cancel := context.WithTimeout(context.Background(), 90*time.Second)
	defer cancel()
	cmd := exec.CommandContext(ctx, "python3", "-c", script)
	var in bytes.Buffer
	for _, r := range reqs {
		b, _ := json.Marshal(r)
		in.Write(b)
		in.WriteByte('\n')
	}
	cmd.Stdin = &in
	out, err := cmd.Output()
	lines := strings.Split(strings.TrimSpace(string(out)), "\n")
	if err != nil || len(lines) != len(reqs) {
		c.Set("external_oracle", "libxcrypt via python3/ctypes: absent ("+fmt.Sprint(err)+")")
		return
	}
	c.Set("external_oracle", fmt.Sprintf("libxcrypt via python3/ctypes: present, %d hashes produced here checked there, %d produced there checked here", n1, len(reqs)-n1))
	for i, r := range reqs {
		var resp struct{ Out string }
		if json.Unmarshal([]byte(lines[i]), &resp) != nil {
			c.Set("external_oracle", "libxcrypt via python3/ctypes: unusable output")
			return
		}
		c.Eval(1)
		if r.dir == "here->libxcrypt" {
			if resp.Out != r.want {
				c.Violation("hash produced here does not verify under libxcrypt", map[string]any{"hash": r.want, "pw": r.PW, "libxcrypt": resp.Out})
			}
			c.Nontrivial("C/live/out/" + r.want[:29])
			continue
		}
		if !strings.HasPrefix(resp.Out, "$2") || len(resp.Out) != 60 {
			continue // libxcrypt refused the setting: nothing to compare
		}
		if err := bcrypt.CompareHashAndPassword([]byte(resp.Out), r.pw); err != nil {
			c.Violation("fresh libxcrypt hash does not verify here", map[string]any{"hash": resp.Out, "pw": r.PW, "err": err.Error()})
		}
		wrong := append(append([]byte(nil), r.pw...), '!')
		if bcryptref.Key72(wrong) != bcryptref.Key72(r.pw) {
			if err := bcrypt.CompareHashAndPassword([]byte(resp.Out), wrong); err == nil {
				c.Violation("fresh libxcrypt hash verifies with a wrong password", map[string]any{"hash": resp.Out})
			}
		}
		c.Nontrivial("C/live/in/" + resp.Out[:29])
	}
}

// histories (hardening D/A/B): every sequence of 3 operations on ONE set of caller-owned buffers
// (hash slice, right password, wrong password, a malformed hash), for several hash forms and both
// capacity layouts. After every operation the result must be the one the operation gives on fresh
// buffers and all four buffers must be byte for byte what the caller put there.
func histories(c *vf.Ctx) {
	right, wrong := []byte("history right pw"), []byte("history wrong pw")
	salt := c.Bytes("hist-salt", 0, 16)
	h2a := bcryptref.Hash(right, 4, salt, 'a')
	type form struct {
		name string
		hash string
	}
	forms := []form{
		{"$2a$", h2a},
		{"$2b$", bcryptref.Hash(right, 4, c.Bytes("hist-salt", 1, 16), 'b')},
		{"$2y$ cost 5", bcryptref.Hash(right, 5, c.Bytes("hist-salt", 2, 16), 'y')},
		{"$2$ (59 bytes)", "$2$" + h2a[4:]},
		{"$2a$ with trailing bytes", h2a + "trailing"},
	}
	short59 := bad0(h2a) // a $2a$ hash that is one character short
	ops := []string{"compare right", "compare wrong", "cost", "generate+compare", "compare malformed", "compare right 72+"}
	long := append(append([]byte(nil), right...), 0)
	for len(long) < 200 {
		long = append(long, long[:len(right)+1]...)
	}
	n := len(ops)
	type job struct {
		f     int
		spare bool
		h     int
	}
	var jobs []job
	for f := range forms {
		for _, sp := range []bool{true, false} {
			for h := 0; h < n*n*n; h++ {
				jobs = append(jobs, job{f, sp, h})
			}
		}
	}
	c.ParallelFor(len(jobs), func(i int) {
		j := jobs[i]
		fm := forms[j.f]
		wantCost := 4
		if strings.Contains(fm.name, "cost 5") {
			wantCost = 5
		}
		fH, H := guard([]byte(fm.hash), j.spare)
		fR, R := guard(right, j.spare)
		fW, W := guard(wrong, !j.spare)
		fB, B := guard([]byte(short59), j.spare)
		fL, L := guard(long, j.spare)
		seq := []int{j.h / (n * n), j.h / n % n, j.h % n}
		for pos, k := range seq {
			d := map[string]any{"form": fm.name, "spare_capacity": j.spare, "history": []string{ops[seq[0]], ops[seq[1]], ops[seq[2]]}, "position": pos}
			var bad string
			pan, val, st := vf.Protect(func() {
				switch ops[k] {
				case "compare right":
					if err := bcrypt.CompareHashAndPassword(H, R); err != nil {
						bad = "CompareHashAndPassword rejects the right password: " + err.Error()
					}
				case "compare right 72+":
					if err := bcrypt.CompareHashAndPassword(H, L); err != nil {
						bad = "CompareHashAndPassword rejects the cyclic continuation of the right password: " + err.Error()
					}
				case "compare wrong":
					if err := bcrypt.CompareHashAndPassword(H, W); err != bcrypt.ErrMismatchedHashAndPassword {
						bad = "CompareHashAndPassword on a wrong password returns " + fmt.Sprint(err)
					}
				case "cost":
					if cost, err := bcrypt.Cost(H); err != nil || cost != wantCost {
						bad = "Cost returns " + fmt.Sprint(cost, err)
					}
				case "compare malformed":
					if err := bcrypt.CompareHashAndPassword(B, R); err == nil {
						bad = "CompareHashAndPassword accepts a truncated hash"
					}
				case "generate+compare":
					g, err := bcrypt.GenerateFromPassword(R, 4)
					if err != nil {
						bad = "GenerateFromPassword fails: " + err.Error()
					} else if ok, _ := bcryptref.Verify(string(g), right); !ok {
						bad = "GenerateFromPassword output does not verify under the model"
					} else if bcrypt.CompareHashAndPassword(g, R) != nil || bcrypt.CompareHashAndPassword(g, W) == nil {
						bad = "generated hash does not verify exactly the right password"
					}
				}
			})
			c.Eval(1)
			if pan {
				d["panic"], d["stack"] = fmt.Sprint(val), st
				c.Violation("bcrypt panics in an operation history on shared buffers", d)
				return
			}
			if bad != "" {
				d["what"] = bad
				c.Violation("bcrypt result depends on earlier operations on the same buffers ("+ops[k]+")", d)
			}
			if !intact(fH, []byte(fm.hash)) || !intact(fB, []byte(short59)) {
				d["hash_after"] = string(fH[8 : 8+len(fm.hash)])
				c.Violation("bcrypt ("+ops[k]+") writes to the caller's hash buffer or its spare capacity", d)
				return
			}
			if !intact(fR, right) || !intact(fW, wrong) || !intact(fL, long) {
				c.Violation("bcrypt ("+ops[k]+") writes to the caller's password buffer or its spare capacity", d)
				return
			}
		}
		c.Nontrivial(fmt.Sprintf("H/%d/%v/%d", j.f, j.spare, j.h))
	})
	c.Outcome("operation histories on shared buffers checked")
}

func bad0(h2a string) string { return h2a[:59] }
