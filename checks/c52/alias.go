package main

import (
	"bytes"
	"fmt"
	"math/big"

	"verif/vf"
)

// aliasOps are the in-place variants of the group operations: dst is an existing element
// that may be one of the operands.
type aliasOps struct {
	addInto  func(dst, a, b any) any
	negInto  func(dst, a any) any // nil for G2
	smulInto func(dst, a any, k *big.Int) any
	sbmInto  func(dst any, k *big.Int) any // nil for GT
}

// aliasing checks every group operation with every legal aliasing pattern of dst and
// operands, over all ordered pairs of the element set x the two basic operand forms:
//
//	Add:  dst==a, dst==b (b resp. a a distinct object, also when it has the same value),
//	      a==b the same object with a fresh dst, dst==a==b, a dirty unrelated dst
//	Neg:  dst==a, dirty dst
//	ScalarMult: dst==a and dirty dst for the scalars {0,1,2,3,n-1,n,-1,-3}
//
// The oracle is the model value; "dirty dst" = dst already holds another element.
func aliasing(c *vf.Ctx, g *ops) {
	ao := g.alias
	ne := len(g.elems)
	check := func(what string, got any, want []byte, class string) {
		c.Eval(1)
		c.Nontrivial("alias|" + what)
		if b := g.enc(got); !bytes.Equal(b, want) {
			c.Violation(class, map[string]any{"case": what, "got": vf.Hex8(b), "want": vf.Hex8(want)})
		}
	}
	c.ParallelFor(ne*ne*2, func(ix int) {
		i, j, f := ix/(2*ne), ix/2%ne, ix%2
		tag := fmt.Sprintf("%s a=%s b=%s [%s]", g.name, g.elems[i].name, g.elems[j].name, formNames[f])
		protect(c, g.name+" aliased operation", tag, func() {
			want := g.mAdd(g.encA[i], g.encA[j])
			kind := "Add"
			if i == j {
				kind = "Add with equal operands (doubling)"
			}
			e := g.mk(i, f)
			check("e.Add(e, b) "+tag, ao.addInto(e, e, g.mk(j, f)), want, g.name+"."+kind+" is wrong when dst is the first operand")
			e = g.mk(j, f)
			check("e.Add(a, e) "+tag, ao.addInto(e, g.mk(i, f), e), want, g.name+"."+kind+" is wrong when dst is the second operand")
			check("dirty.Add(a, b) "+tag, ao.addInto(g.mk((i+3)%ne, 1-f), g.mk(i, f), g.mk(j, f)), want, g.name+"."+kind+" is wrong when dst already holds an element")
			if i == j {
				e = g.mk(i, f)
				check("r.Add(e, e) "+tag, ao.addInto(g.mk(0, 0), e, e), want, g.name+".Add(e, e) with one object as both operands is wrong")
				if b := g.enc(e); !bytes.Equal(b, g.encA[i]) {
					c.Violation(g.name+".Add(e, e) modifies its operand", tag)
				}
				e = g.mk(i, f)
				check("e.Add(e, e) "+tag, ao.addInto(e, e, e), want, g.name+".Add with equal operands (doubling) is wrong when dst is the first operand")
			}
		})
	})
	ks := []*big.Int{bi(0), bi(1), bi(2), bi(3), sub(g.order, one), g.order, bi(-1), bi(-3)}
	wantMul := make([][]byte, ne*len(ks))
	c.ParallelFor(len(wantMul), func(ix int) { wantMul[ix] = g.mBase(mul(g.elems[ix/len(ks)].k, ks[ix%len(ks)])) })
	if c.Expired() {
		return
	}
	c.ParallelFor(ne*2, func(ix int) {
		i, f := ix/2, ix%2
		tag := fmt.Sprintf("%s a=%s [%s]", g.name, g.elems[i].name, formNames[f])
		protect(c, g.name+" aliased operation", tag, func() {
			if ao.negInto != nil {
				e := g.mk(i, f)
				check("e.Neg(e) "+tag, ao.negInto(e, e), g.encN[i], g.name+".Neg is wrong when dst is the operand")
				check("dirty.Neg(a) "+tag, ao.negInto(g.mk((i+3)%len(g.elems), 1-f), g.mk(i, f)), g.encN[i], g.name+".Neg is wrong when dst already holds an element")
			}
			for ki, k := range ks {
				want := wantMul[i*len(ks)+ki]
				e := g.mk(i, f)
				check(fmt.Sprintf("e.ScalarMult(e, %v) %s", k, tag), ao.smulInto(e, e, k), want, g.name+".ScalarMult is wrong when dst is the operand")
				check(fmt.Sprintf("dirty.ScalarMult(a, %v) %s", k, tag), ao.smulInto(g.mk((i+3)%len(g.elems), 1-f), g.mk(i, f), k), want, g.name+".ScalarMult is wrong when dst already holds an element")
			}
		})
	})
}
