package main

import (
	"bytes"
	"fmt"
	"math/big"

	"golang.org/x/crypto/bn256"
	ref "verif/ref/bn256ref"
	"verif/vf"
)

// pairingReps: the pairing must not depend on HOW its operands were produced. For the
// value pairs (1,1) and (s1,s2) every representation of a*P the G1 API can produce is
// paired with every representation of b*Q the G2 API can produce (full cross product), and
// for the values {2, n-1} every representation is paired with a plain Unmarshal operand.
// Oracle: e(aP,bQ) = e(P,Q)^(ab) (model power of the real e(P,Q)) and, on the real outputs
// alone, e(P,-Q) * e(P,Q) = 1 and e(-P,Q) * e(P,Q) = 1 for every representation of -Q / -P.
func pairingReps(c *vf.Ctx, g2gen ref.G2, s1, s2 *big.Int) {
	n := ref.N
	minus1 := big.NewInt(-1)
	u1 := func(m ref.G1) *bn256.G1 {
		e, ok := new(bn256.G1).Unmarshal(m.Encode())
		if !ok {
			panic("G1.Unmarshal rejects a canonical encoding")
		}
		return e
	}
	u2 := func(m ref.G2) *bn256.G2 {
		e, ok := new(bn256.G2).Unmarshal(m.Encode())
		if !ok {
			panic("G2.Unmarshal rejects a canonical encoding")
		}
		return e
	}
	P := func(k *big.Int) ref.G1 { return ref.G1Gen.Mul(k) }
	Q := func(k *big.Int) ref.G2 { return g2gen.Mul(k) }
	neg := func(k *big.Int) *big.Int { return new(big.Int).Mod(new(big.Int).Neg(k), n) } // n-k mod n
	type rep1 struct {
		name string
		mk   func(k *big.Int) *bn256.G1 // an element with value k*G1gen, 0 < k < n
	}
	type rep2 struct {
		name string
		mk   func(k *big.Int) *bn256.G2
	}

	reps1 := []rep1{
		{"Unmarshal", func(k *big.Int) *bn256.G1 { return u1(P(k)) }},
		{"ScalarBaseMult(k)", func(k *big.Int) *bn256.G1 { return new(bn256.G1).ScalarBaseMult(k) }},
		{"ScalarBaseMult(k-n) (negative scalar)", func(k *big.Int) *bn256.G1 { return new(bn256.G1).ScalarBaseMult(sub(k, n)) }},
		{"ScalarMult(affine generator, k)", func(k *big.Int) *bn256.G1 { return new(bn256.G1).ScalarMult(u1(ref.G1Gen), k) }},
		{"ScalarMult(affine -kP, -1)", func(k *big.Int) *bn256.G1 { return new(bn256.G1).ScalarMult(u1(P(neg(k))), minus1) }},
		{"ScalarMult(computed -kP, -1)", func(k *big.Int) *bn256.G1 {
			return new(bn256.G1).ScalarMult(new(bn256.G1).ScalarBaseMult(add(neg(k), n)), minus1)
		}},
		{"ScalarMult(affine -kP, n-1)", func(k *big.Int) *bn256.G1 { return new(bn256.G1).ScalarMult(u1(P(neg(k))), sub(n, one)) }},
		{"ScalarMult(affine kP, 1)", func(k *big.Int) *bn256.G1 { return new(bn256.G1).ScalarMult(u1(P(k)), one) }},
		{"Add((k-7)P, 7P)", func(k *big.Int) *bn256.G1 { return new(bn256.G1).Add(u1(P(sub(k, bi(7)))), u1(P(bi(7)))) }},
		{"Add(kP, infinity)", func(k *big.Int) *bn256.G1 { return new(bn256.G1).Add(u1(P(k)), u1(ref.G1Inf)) }},
		{"Neg(affine -kP)", func(k *big.Int) *bn256.G1 { return new(bn256.G1).Neg(u1(P(neg(k)))) }},
		{"Neg(computed -kP)", func(k *big.Int) *bn256.G1 { return new(bn256.G1).Neg(new(bn256.G1).ScalarBaseMult(add(neg(k), n))) }},
		{"Neg(Neg(affine kP))", func(k *big.Int) *bn256.G1 { return new(bn256.G1).Neg(new(bn256.G1).Neg(u1(P(k)))) }},
		{"computed, made affine in place by Marshal", func(k *big.Int) *bn256.G1 {
			e := new(bn256.G1).ScalarBaseMult(add(k, n))
			e.Marshal()
			return e
		}},
	}
	reps2 := []rep2{
		{"Unmarshal", func(k *big.Int) *bn256.G2 { return u2(Q(k)) }},
		{"ScalarBaseMult(k)", func(k *big.Int) *bn256.G2 { return new(bn256.G2).ScalarBaseMult(k) }},
		{"ScalarBaseMult(k-n) (negative scalar)", func(k *big.Int) *bn256.G2 { return new(bn256.G2).ScalarBaseMult(sub(k, n)) }},
		{"ScalarMult(affine generator, k)", func(k *big.Int) *bn256.G2 { return new(bn256.G2).ScalarMult(u2(g2gen), k) }},
		{"ScalarMult(affine -kQ, -1)", func(k *big.Int) *bn256.G2 { return new(bn256.G2).ScalarMult(u2(Q(neg(k))), minus1) }},
		{"ScalarMult(computed -kQ, -1)", func(k *big.Int) *bn256.G2 {
			return new(bn256.G2).ScalarMult(new(bn256.G2).ScalarBaseMult(add(neg(k), n)), minus1)
		}},
		{"ScalarMult(affine -kQ, n-1)", func(k *big.Int) *bn256.G2 { return new(bn256.G2).ScalarMult(u2(Q(neg(k))), sub(n, one)) }},
		{"ScalarMult(affine kQ, 1)", func(k *big.Int) *bn256.G2 { return new(bn256.G2).ScalarMult(u2(Q(k)), one) }},
		{"ScalarMult(ScalarMult(affine kQ, -1), -1)", func(k *big.Int) *bn256.G2 {
			return new(bn256.G2).ScalarMult(new(bn256.G2).ScalarMult(u2(Q(k)), minus1), minus1)
		}},
		{"Add((k-7)Q, 7Q)", func(k *big.Int) *bn256.G2 { return new(bn256.G2).Add(u2(Q(sub(k, bi(7)))), u2(Q(bi(7)))) }},
		{"Add(kQ, infinity)", func(k *big.Int) *bn256.G2 { return new(bn256.G2).Add(u2(Q(k)), u2(ref.G2Inf)) }},
		{"Add(ScalarMult(affine -(k-7)Q, -1), 7Q)", func(k *big.Int) *bn256.G2 {
			return new(bn256.G2).Add(new(bn256.G2).ScalarMult(u2(Q(neg(sub(k, bi(7))))), minus1), u2(Q(bi(7))))
		}},
		{"computed, made affine in place by Marshal", func(k *big.Int) *bn256.G2 {
			e := new(bn256.G2).ScalarBaseMult(add(k, n))
			e.Marshal()
			return e
		}},
	}
	// negVerbatim: the G2 operand is the affine point that the negative-scalar branch of
	// ScalarMult/ScalarBaseMult returns as it is when |scalar| = 1 (region of a known defect)
	negVerbatim := func(r2 int, k *big.Int) bool {
		switch reps2[r2].name {
		case "ScalarMult(affine -kQ, -1)", "ScalarMult(ScalarMult(affine kQ, -1), -1)":
			return true
		case "ScalarBaseMult(k-n) (negative scalar)":
			return k.Cmp(sub(n, one)) == 0
		}
		return false
	}
	const staleT = "Pair is wrong for an affine G2 operand returned by ScalarMult(affine,-1) / ScalarBaseMult(-1): twistPoint.Negative leaves the cached t = 0 and MakeAffine does not restore it"
	c.Set("pairing_operand_representations", map[string]int{"G1": len(reps1), "G2": len(reps2)})

	e0enc := bn256.Pair(u1(ref.G1Gen), u2(g2gen)).Marshal()
	e0, _ := ref.DecodeGT(e0enc)
	oneEnc := ref.Fp12One().Encode()
	type job struct {
		a, b   *big.Int
		an, bn string
		r1, r2 int
	}
	var jobs []job
	full := []struct {
		a, b   *big.Int
		an, bn string
	}{{bi(1), bi(1), "1", "1"}, {s1, s2, "s1", "s2"}}
	for _, v := range full {
		for r1 := range reps1 {
			for r2 := range reps2 {
				jobs = append(jobs, job{v.a, v.b, v.an, v.bn, r1, r2})
			}
		}
	}
	for _, v := range []struct {
		k  *big.Int
		kn string
	}{{bi(2), "2"}, {sub(n, one), "n-1"}} {
		for r1 := range reps1 {
			jobs = append(jobs, job{v.k, s2, v.kn, "s2", r1, 0})
		}
		for r2 := range reps2 {
			jobs = append(jobs, job{s1, v.k, "s1", v.kn, 0, r2})
		}
	}
	// model values e0^(ab)
	want := map[string][]byte{}
	var keys []*big.Int
	for _, j := range jobs {
		pr := new(big.Int).Mod(mul(j.a, j.b), n)
		if _, ok := want[pr.String()]; !ok {
			want[pr.String()] = nil
			keys = append(keys, pr)
		}
	}
	vals := make([][]byte, len(keys))
	c.ParallelFor(len(keys), func(i int) { vals[i] = e0.Pow(keys[i]).Encode() })
	if c.Expired() {
		return
	}
	for i, k := range keys {
		want[k.String()] = vals[i]
	}
	c.ParallelFor(len(jobs), func(ix int) {
		j := jobs[ix]
		what := fmt.Sprintf("e(%s*P as %s, %s*Q as %s)", j.an, reps1[j.r1].name, j.bn, reps2[j.r2].name)
		protect(c, "Pair", what, func() {
			c.Eval(1)
			c.Nontrivial("pairrep|" + what)
			p, q := reps1[j.r1].mk(j.a), reps2[j.r2].mk(j.b)
			got := bn256.Pair(p, q).Marshal()
			w := want[new(big.Int).Mod(mul(j.a, j.b), n).String()]
			if !bytes.Equal(got, w) {
				cl := "pairing not bilinear: e(aP,bQ) != e(P,Q)^(ab)"
				// is it the representation? (the same values re-encoded pair correctly)
				p2, ok1 := new(bn256.G1).Unmarshal(p.Marshal())
				q2, ok2 := new(bn256.G2).Unmarshal(q.Marshal())
				if ok1 && ok2 {
					switch {
					case bytes.Equal(bn256.Pair(reps1[j.r1].mk(j.a), q2).Marshal(), w) && negVerbatim(j.r2, j.b):
						cl = staleT
					case bytes.Equal(bn256.Pair(reps1[j.r1].mk(j.a), q2).Marshal(), w):
						cl = "Pair is wrong for a G2 operand produced as " + reps2[j.r2].name + " (correct after re-encoding that operand)"
					case bytes.Equal(bn256.Pair(p2, reps2[j.r2].mk(j.b)).Marshal(), w):
						cl = "Pair is wrong for a G1 operand produced as " + reps1[j.r1].name + " (correct after re-encoding that operand)"
					case bytes.Equal(bn256.Pair(p2, q2).Marshal(), w):
						cl = "Pair is wrong for operands produced as " + reps1[j.r1].name + " / " + reps2[j.r2].name + " (correct after re-encoding both)"
					}
				}
				c.Violation(cl, map[string]any{"case": what, "got": vf.Hex8(got), "want": vf.Hex8(w)})
			}
			c.Outcome("pairrep: evaluated")
		})
	})
	// e(P,-Q) e(P,Q) = 1 and e(-P,Q) e(P,Q) = 1 on the real outputs, every representation of the negated operand
	for _, v := range []struct {
		k  *big.Int
		kn string
	}{{bi(1), "1"}, {s2, "s2"}} {
		v := v
		var base []byte
		if !protect(c, "Pair", "inverse base", func() { base = bn256.Pair(u1(P(s1)), u2(Q(v.k))).Marshal() }) {
			continue
		}
		base2 := bn256.Pair(u1(P(v.k)), u2(Q(s1))).Marshal()
		gt := func(b []byte) *bn256.GT { e, _ := new(bn256.GT).Unmarshal(b); return e }
		c.ParallelFor(len(reps1)+len(reps2), func(ix int) {
			if ix < len(reps2) {
				what := fmt.Sprintf("e(s1*P, -%s*Q as %s) * e(s1*P, %s*Q)", v.kn, reps2[ix].name, v.kn)
				protect(c, "Pair", what, func() {
					c.Eval(1)
					c.Nontrivial("pairinv|" + what)
					m := bn256.Pair(u1(P(s1)), reps2[ix].mk(neg(v.k)))
					if got := new(bn256.GT).Add(m, gt(base)).Marshal(); !bytes.Equal(got, oneEnc) {
						cl := "e(P,-Q) * e(P,Q) != 1"
						if negVerbatim(ix, neg(v.k)) {
							cl = staleT
						}
						c.Violation(cl, what)
					}
				})
				return
			}
			r := ix - len(reps2)
			what := fmt.Sprintf("e(-%s*P as %s, s1*Q) * e(%s*P, s1*Q)", v.kn, reps1[r].name, v.kn)
			protect(c, "Pair", what, func() {
				c.Eval(1)
				c.Nontrivial("pairinv|" + what)
				m := bn256.Pair(reps1[r].mk(neg(v.k)), u2(Q(s1)))
				if got := new(bn256.GT).Add(m, gt(base2)).Marshal(); !bytes.Equal(got, oneEnc) {
					c.Violation("e(-P,Q) * e(P,Q) != 1", what)
				}
			})
		})
	}
}
