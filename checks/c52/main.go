// C52: bn256 group operations, pairing and encodings.
//
// Exhaustive grids on the real golang.org/x/crypto/bn256 against ref/bn256ref (affine
// math/big model of E: y^2=x^3+3 over Fp, the sextic twist y^2=x^3+3/xi over Fp2 and
// Fp12 = Fp2[w]/(w^6-xi), parameters from the dclxvi paper):
//
//	A  group laws and model agreement in G1, G2, GT: an 8-element set per group (0, P, 2P,
//	   (n-1)P, sP, s'P, (n-s)P, s''P; 12 in thorough), every ordered pair x operand form
//	   (affine/reduced from Unmarshal, Jacobian/unreduced as the output of an Add) for Add,
//	   every triple for associativity, Neg and inverse, every element x form x every scalar
//	   of the scalar grid for ScalarMult (and ScalarBaseMult, GT powers, pairing outputs as
//	   constructions of the elements), the distributive laws over all scalar pairs and all
//	   (scalar, element pair) combinations.
//	B  pairing: e(aP,bQ) = e(P,Q)^(ab) for every (a,b) of the non-negative scalar grid x
//	   operand form x 2 base pairs, e = 1 exactly when ab = 0 mod n, e(P,Q) has order n,
//	   additivity in both arguments over all scalar pairs.
//	D  representations and aliasing (alias.go, pairreps.go): every operand representation the
//	   API can produce (Unmarshal, ScalarBaseMult/ScalarMult incl. n-1, 1, -1 and other negative
//	   scalars, Add outputs, Neg, Neg of Neg, made affine in place by Marshal) as operand of
//	   Add/ScalarMult/inverse and, as full cross product G1 x G2 representations, of Pair
//	   (bilinearity, e(P,-Q)e(P,Q)=1); every group operation with dst==a, dst==b, a==b the
//	   same object, dst==a==b, equal values in distinct objects, and a dirty dst.
//	C  encodings: Marshal = canonical model encoding; Unmarshal(Marshal) round trip; for 16
//	   points per group every encoding with a non-empty subset of coordinates replaced by
//	   coordinate + k*p (k = 1..3 while < 2^256), coordinate+1, coordinate zeroed, all
//	   coordinates p; every length 0..400; infinity. Real accept/reject and decoded value
//	   must equal the strict model decoder.
package main

import (
	"bytes"
	"fmt"
	"math/big"
	"sync"
	"time"

	"golang.org/x/crypto/bn256"
	ref "verif/ref/bn256ref"
	"verif/vf"
)

func main() { vf.Main("C52", vf.Exploration, run) }

var (
	one    = big.NewInt(1)
	two256 = new(big.Int).Lsh(one, 256)
)

func bi(v int64) *big.Int        { return big.NewInt(v) }
func add(a, b *big.Int) *big.Int { return new(big.Int).Add(a, b) }
func sub(a, b *big.Int) *big.Int { return new(big.Int).Sub(a, b) }
func mul(a, b *big.Int) *big.Int { return new(big.Int).Mul(a, b) }

type scalar struct {
	name string
	k    *big.Int
}

type ctor struct {
	name string
	mk   func(i int) any
}

// ops describes one group generically: real elements are `any` (*bn256.G1/G2/GT), model
// elements are canonical encodings.
type ops struct {
	name  string
	elems []scalar // element i = elems[i].k * base
	// real side
	unm   func(b []byte) any                   // Unmarshal of a canonical encoding (panics if rejected)
	unmTo func(recv any, b []byte) (any, bool) // Unmarshal into an existing element
	add   func(a, b any) any
	neg   func(a any) any // nil when the package has no Neg for the group
	smul  func(a any, k *big.Int) any
	enc   func(a any) []byte
	extra []ctor               // further constructions of element i, checked against the model once
	sbm   func(k *big.Int) any // ScalarBaseMult (nil for GT)
	// model side
	mBase func(k *big.Int) []byte // canonical encoding of k*base
	mAdd  func(x, y []byte) []byte
	mNeg  func(x []byte) []byte
	mMul  func(x []byte, k *big.Int) []byte
	ident []byte

	alias aliasOps
	zero  func() any // the zero value of the element type (usable as a receiver only)
	order *big.Int
	reps  []ctor // further cheap representations of element i (used as operands everywhere)

	encA, encL, encN [][]byte // encodings of k_i*base, (k_i-7)*base and (n-k_i)*base
	enc7             []byte
}

var formNames = []string{"affine/reduced (Unmarshal)", "jacobian/unreduced (output of Add)"}

func (g *ops) nforms() int { return 2 + len(g.reps) }
func (g *ops) formName(f int) string {
	if f < 2 {
		return formNames[f]
	}
	return g.reps[f-2].name
}

// mk returns a FRESH real element i (Marshal mutates its receiver, so nothing is shared).
func (g *ops) mk(i, form int) any {
	switch {
	case form == 0:
		return g.unm(g.encA[i])
	case form == 1:
		return g.add(g.unm(g.encL[i]), g.unm(g.enc7))
	}
	return g.reps[form-2].mk(i)
}

// stdReps are the representations every group can produce besides Unmarshal and Add
// outputs: the verbatim copies made by ScalarMult(.,1) and ScalarMult(.,-1) of an affine
// element, a computed element made affine in place by Marshal, and (where the group has
// Neg) Neg of an affine and of a computed element and a double negation.
func (g *ops) stdReps() {
	minus1 := big.NewInt(-1)
	g.reps = []ctor{
		{"ScalarMult(affine,-1)", func(i int) any { return g.smul(g.unm(g.encN[i]), minus1) }},
		{"ScalarMult(affine,1)", func(i int) any { return g.smul(g.unm(g.encA[i]), one) }},
		{"made affine in place by Marshal", func(i int) any { e := g.mk(i, 1); g.enc(e); return e }},
		{"ScalarMult(ScalarMult(affine,-1),-1)", func(i int) any { return g.smul(g.smul(g.unm(g.encA[i]), minus1), minus1) }},
	}
	if g.neg != nil {
		g.reps = append(g.reps,
			ctor{"Neg(affine)", func(i int) any { return g.neg(g.unm(g.encN[i])) }},
			ctor{"Neg(output of Add of two Neg(affine))", func(i int) any { return g.neg(g.add(g.neg(g.unm(g.encL[i])), g.neg(g.unm(g.enc7)))) }},
			ctor{"Neg(Neg(affine))", func(i int) any { return g.neg(g.neg(g.unm(g.encA[i]))) }})
	}
}

func run(c *vf.Ctx) {
	c.RaceCompanion("the same group elements as operands", "golang.org/x/crypto/bn256.")
	c.Rule("full grids (see header): 8-element sets per group (12 thorough) x all ordered pairs x operand forms and all triples for the group laws, " +
		"scalar grid {0,1,2,n-1,n,n+1,2n-1,2^256-1,-1,-2,-s, seeded 256-bit and 64-bit classes} x every element x form for scalar multiplication, all scalar pairs for distributivity and (non-negative ones) bilinearity, " +
		"16 points per group x every non-empty coordinate subset x {+kp, +1, zeroed} encodings, every length 0..400; " +
		"one element object per group driven through EVERY sequence of 2 (thorough 3; G1 also 3 in quick) in-place operations {ScalarBaseMult(3/s3), Add(e,x), Add(x,e), Add(e,e), Neg(e), Neg(x), ScalarMult(e,2/-3/n), ScalarMult(x,5), Unmarshal(s2/identity), Marshal} from 4 start states, observed after every step, then used twice as Pair operand; " +
		"caller-owned buffers and scalars for every element x scalar; " +
		"non-trivial = distinct (operation, operands, forms) case / distinct mutated encoding; " +
		"oracle = affine math/big model (ref/bn256ref) for every G1/G2/GT operation result byte for byte, the group laws on the real outputs, the strict decoder of the model for Unmarshal")
	c.Assume("math/big is correct")
	c.Assume("the pairing value itself is not modelled: its oracle is bilinearity, non-degeneracy, order n and additivity; a pairing that is a fixed non-trivial power of the optimal ate pairing would not be noticed")
	c.Assume("scalar and point values outside the alphabet are not enumerated")

	// ---- model vs package constants -------------------------------------------------
	if bn256.Order.Cmp(ref.N) != 0 {
		c.Violation("bn256.Order differs from the BN group order n", bn256.Order.String())
		return
	}
	g1genEnc := new(bn256.G1).ScalarBaseMult(one).Marshal()
	if !bytes.Equal(g1genEnc, ref.G1Gen.Encode()) {
		// not fatal: the model has its own generator, the grids below say what exactly is off
		c.Violation("G1: ScalarBaseMult(1).Marshal() is not the canonical encoding of the generator (1,-2)", fmt.Sprintf("%x", g1genEnc))
	}
	g2genEnc := new(bn256.G2).ScalarBaseMult(one).Marshal()
	g2gen, ok := ref.DecodeG2(g2genEnc)
	if !ok || g2gen.Inf || !g2gen.Mul(ref.N).Inf {
		c.Violation("G2 generator is not a canonical order-n point of the twist y^2=x^3+3/xi", fmt.Sprintf("%x", g2genEnc))
		return
	}
	c.Eval(3)

	// ---- scalar grid -----------------------------------------------------------------
	n := ref.N
	seeded := func(label string, i, bytesN int) *big.Int {
		k := new(big.Int).SetBytes(c.Bytes(label, i, bytesN))
		if k.Sign() == 0 {
			k.SetInt64(3)
		}
		return k
	}
	sd := func(i int) *big.Int {
		k := new(big.Int).Mod(seeded("c52-s", i, 32), n)
		if k.Cmp(bi(20)) < 0 {
			k.Add(k, bi(1000))
		}
		return k
	}
	s1, s2, s3 := sd(1), sd(2), sd(3)
	elems := []scalar{{"0", bi(0)}, {"1", bi(1)}, {"2", bi(2)}, {"n-1", sub(n, one)}, {"s1", s1}, {"s2", s2}, {"n-s1", sub(n, s1)}, {"s3", s3}}
	scalars := []scalar{{"0", bi(0)}, {"1", bi(1)}, {"2", bi(2)}, {"n-1", sub(n, one)}, {"n", n}, {"n+1", add(n, one)},
		{"2n-1", sub(mul(n, bi(2)), one)}, {"2^256-1", sub(two256, one)},
		{"-1", bi(-1)}, {"-2", bi(-2)}, {"-s1", new(big.Int).Neg(s1)}}
	nv := c.V() // 2 quick, 8 thorough
	for i := 0; i < nv; i++ {
		scalars = append(scalars, scalar{fmt.Sprintf("seed256.%d", i), seeded("c52-k256", i, 32)})
	}
	for i := 0; i < (nv+1)/2; i++ {
		scalars = append(scalars, scalar{fmt.Sprintf("seed64.%d", i), seeded("c52-k64", i, 8)})
	}
	if c.Thorough {
		elems = append(elems, scalar{"3", bi(3)}, scalar{"n-2", sub(n, bi(2))}, scalar{"s4", sd(4)}, scalar{"n-s2", sub(n, s2)})
		scalars = append(scalars, scalar{"3", bi(3)}, scalar{"n-2", sub(n, bi(2))}, scalar{"2^255", new(big.Int).Lsh(one, 255)}, scalar{"-n", new(big.Int).Neg(n)}, scalar{"-(n+1)", new(big.Int).Neg(add(n, one))})
	}
	c.Set("elements_per_group", len(elems))
	c.Set("scalars", len(scalars))

	// ---- G1 ops --------------------------------------------------------------------------
	decG1 := func(b []byte) ref.G1 {
		a, ok := ref.DecodeG1(b)
		if !ok {
			panic("model cannot decode its own G1 encoding")
		}
		return a
	}
	g1 := &ops{name: "G1", elems: elems,
		unm: func(b []byte) any {
			e, ok := new(bn256.G1).Unmarshal(b)
			if !ok {
				panic("G1.Unmarshal rejects a canonical encoding")
			}
			return e
		},
		unmTo: func(r any, b []byte) (any, bool) { e, ok := r.(*bn256.G1).Unmarshal(b); return e, ok },
		add:   func(a, b any) any { return new(bn256.G1).Add(a.(*bn256.G1), b.(*bn256.G1)) },
		neg:   func(a any) any { return new(bn256.G1).Neg(a.(*bn256.G1)) },
		smul:  func(a any, k *big.Int) any { return new(bn256.G1).ScalarMult(a.(*bn256.G1), k) },
		enc:   func(a any) []byte { return a.(*bn256.G1).Marshal() },
		extra: []ctor{{"ScalarBaseMult(k)", func(i int) any { return new(bn256.G1).ScalarBaseMult(elems[i].k) }}},
		sbm:   func(k *big.Int) any { return new(bn256.G1).ScalarBaseMult(k) },
		mBase: func(k *big.Int) []byte { return ref.G1Gen.Mul(k).Encode() },
		mAdd:  func(x, y []byte) []byte { return decG1(x).Add(decG1(y)).Encode() },
		mNeg:  func(x []byte) []byte { return decG1(x).Neg().Encode() },
		mMul:  func(x []byte, k *big.Int) []byte { return decG1(x).Mul(k).Encode() },
		ident: make([]byte, 64),
		order: ref.N,
		alias: aliasOps{
			addInto:  func(d, a, b any) any { return d.(*bn256.G1).Add(a.(*bn256.G1), b.(*bn256.G1)) },
			negInto:  func(d, a any) any { return d.(*bn256.G1).Neg(a.(*bn256.G1)) },
			smulInto: func(d, a any, k *big.Int) any { return d.(*bn256.G1).ScalarMult(a.(*bn256.G1), k) },
			sbmInto:  func(d any, k *big.Int) any { return d.(*bn256.G1).ScalarBaseMult(k) },
		},
		zero: func() any { return new(bn256.G1) },
	}

	// ---- G2 ops --------------------------------------------------------------------------
	decG2 := func(b []byte) ref.G2 {
		a, ok := ref.DecodeG2(b)
		if !ok {
			panic("model cannot decode its own G2 encoding")
		}
		return a
	}
	g2 := &ops{name: "G2", elems: elems,
		unm: func(b []byte) any {
			e, ok := new(bn256.G2).Unmarshal(b)
			if !ok {
				panic("G2.Unmarshal rejects a canonical encoding")
			}
			return e
		},
		unmTo: func(r any, b []byte) (any, bool) { e, ok := r.(*bn256.G2).Unmarshal(b); return e, ok },
		add:   func(a, b any) any { return new(bn256.G2).Add(a.(*bn256.G2), b.(*bn256.G2)) },
		smul:  func(a any, k *big.Int) any { return new(bn256.G2).ScalarMult(a.(*bn256.G2), k) },
		enc:   func(a any) []byte { return a.(*bn256.G2).Marshal() },
		extra: []ctor{{"ScalarBaseMult(k)", func(i int) any { return new(bn256.G2).ScalarBaseMult(elems[i].k) }}},
		sbm:   func(k *big.Int) any { return new(bn256.G2).ScalarBaseMult(k) },
		mBase: func(k *big.Int) []byte { return g2gen.Mul(k).Encode() },
		mAdd:  func(x, y []byte) []byte { return decG2(x).Add(decG2(y)).Encode() },
		mNeg:  func(x []byte) []byte { return decG2(x).Neg().Encode() },
		mMul:  func(x []byte, k *big.Int) []byte { return decG2(x).Mul(k).Encode() },
		ident: make([]byte, 128),
		order: ref.N,
		alias: aliasOps{
			addInto:  func(d, a, b any) any { return d.(*bn256.G2).Add(a.(*bn256.G2), b.(*bn256.G2)) },
			smulInto: func(d, a any, k *big.Int) any { return d.(*bn256.G2).ScalarMult(a.(*bn256.G2), k) },
			sbmInto:  func(d any, k *big.Int) any { return d.(*bn256.G2).ScalarBaseMult(k) },
		},
		zero: func() any { return new(bn256.G2) },
	}

	// ---- GT ops --------------------------------------------------------------------------
	gt0enc := bn256.Pair(new(bn256.G1).ScalarBaseMult(one), new(bn256.G2).ScalarBaseMult(one)).Marshal()
	gt0, _ := ref.DecodeGT(gt0enc)
	c.Eval(1)
	if gt0.IsOne() {
		c.Violation("pairing degenerate: e(G1 generator, G2 generator) = 1", nil)
		return
	}
	if !gt0.Exp(n).IsOne() {
		c.Violation("e(G1 generator, G2 generator) does not have order n in Fp12 (model)", fmt.Sprintf("%x", gt0enc))
		return
	}
	decGT := func(b []byte) ref.Fp12 { x, _ := ref.DecodeGT(b); return x }
	unmGT := func(b []byte) any {
		e, ok := new(bn256.GT).Unmarshal(b)
		if !ok {
			panic("GT.Unmarshal rejects a 384-byte encoding")
		}
		return e
	}
	gt := &ops{name: "GT", elems: elems,
		unm:   unmGT,
		unmTo: func(r any, b []byte) (any, bool) { e, ok := r.(*bn256.GT).Unmarshal(b); return e, ok },
		add:   func(a, b any) any { return new(bn256.GT).Add(a.(*bn256.GT), b.(*bn256.GT)) },
		neg:   func(a any) any { return new(bn256.GT).Neg(a.(*bn256.GT)) },
		smul:  func(a any, k *big.Int) any { return new(bn256.GT).ScalarMult(a.(*bn256.GT), k) },
		enc:   func(a any) []byte { return a.(*bn256.GT).Marshal() },
		extra: []ctor{
			{"ScalarMult(e(P,Q),k)", func(i int) any { return new(bn256.GT).ScalarMult(unmGT(gt0enc).(*bn256.GT), elems[i].k) }},
			{"Pair(kP,Q)", func(i int) any {
				return bn256.Pair(new(bn256.G1).ScalarBaseMult(elems[i].k), new(bn256.G2).ScalarBaseMult(one))
			}},
			{"Pair(P,kQ)", func(i int) any {
				return bn256.Pair(new(bn256.G1).ScalarBaseMult(one), new(bn256.G2).ScalarBaseMult(elems[i].k))
			}},
		},
		mBase: func(k *big.Int) []byte { return gt0.Pow(k).Encode() },
		mAdd:  func(x, y []byte) []byte { return decGT(x).Mul(decGT(y)).Encode() },
		mNeg:  func(x []byte) []byte { return decGT(x).Pow(bi(-1)).Encode() },
		mMul:  func(x []byte, k *big.Int) []byte { return decGT(x).Pow(k).Encode() },
		ident: ref.Fp12One().Encode(),
		order: ref.N,
		alias: aliasOps{
			addInto:  func(d, a, b any) any { return d.(*bn256.GT).Add(a.(*bn256.GT), b.(*bn256.GT)) },
			negInto:  func(d, a any) any { return d.(*bn256.GT).Neg(a.(*bn256.GT)) },
			smulInto: func(d, a any, k *big.Int) any { return d.(*bn256.GT).ScalarMult(a.(*bn256.GT), k) },
		},
		zero: func() any { return new(bn256.GT) },
	}

	for _, g := range []*ops{g1, g2, gt} {
		g.stdReps()
		groupLaws(c, g, scalars)
		aliasing(c, g)
	}
	tH := time.Now()
	history(c, g1, gt, s1, s2, s3, func(e any) *bn256.GT { return bn256.Pair(e.(*bn256.G1), new(bn256.G2).ScalarBaseMult(one)) })
	history(c, g2, gt, s1, s2, s3, func(e any) *bn256.GT { return bn256.Pair(new(bn256.G1).ScalarBaseMult(one), e.(*bn256.G2)) })
	history(c, gt, gt, s1, s2, s3, nil)
	tO := time.Now()
	for _, g := range []*ops{g1, g2, gt} {
		ownership(c, g, scalars)
	}
	c.Set("harden_wall_s", map[string]float64{"history": tO.Sub(tH).Seconds(), "ownership": time.Since(tO).Seconds()})
	pairing(c, scalars, g2gen, s1, s2)
	pairingReps(c, g2gen, s1, s2)
	encodings(c, g2gen)
	randomElems(c, g2gen)
}

// protect runs f; a panic is a violation of class "panic in <what>".
func protect(c *vf.Ctx, what string, detail any, f func()) bool {
	if p, v, st := vf.Protect(f); p {
		c.Violation("panic in "+what, map[string]any{"case": detail, "panic": fmt.Sprint(v), "stack": st})
		return false
	}
	return true
}

// negClass: all failures that involve a negative scalar share one class per group.
func negClass(neg bool, group, what string) string {
	if neg {
		return group + ".ScalarMult with a negative scalar k does not compute k*a"
	}
	return group + ": " + what
}

func groupLaws(c *vf.Ctx, g *ops, scalars []scalar) {
	ne, nf, ns := len(g.elems), 2, len(scalars)
	na := g.nforms() // all representations; nf = the two basic ones
	// model tables
	g.encA, g.encL, g.encN = make([][]byte, ne), make([][]byte, ne), make([][]byte, ne)
	g.enc7 = g.mBase(bi(7))
	mulTab := make([][][]byte, ne) // model: scalars[s] * element i
	for i := range mulTab {
		mulTab[i] = make([][]byte, ns)
	}
	c.ParallelFor(3*ne+ne*ns, func(ix int) {
		switch {
		case ix < ne:
			g.encA[ix] = g.mBase(g.elems[ix].k)
		case ix < 2*ne:
			g.encL[ix-ne] = g.mBase(sub(g.elems[ix-ne].k, bi(7)))
		case ix < 3*ne:
			g.encN[ix-2*ne] = g.mBase(sub(ref.N, g.elems[ix-2*ne].k))
		default:
			ix -= ne
			i, s := (ix-2*ne)/ns, (ix-2*ne)%ns
			mulTab[i][s] = g.mBase(mul(g.elems[i].k, scalars[s].k))
		}
	})
	if c.Expired() {
		return
	}
	// 0. every construction of every element marshals to the model encoding; round trip
	nx := na + len(g.extra)
	c.ParallelFor(ne*nx, func(ix int) {
		i, f := ix/nx, ix%nx
		fname := ""
		if f < na {
			fname = g.formName(f)
		} else {
			fname = g.extra[f-na].name
		}
		what := fmt.Sprintf("%s element %s as %s", g.name, g.elems[i].name, fname)
		protect(c, g.name+" construction/Marshal", what, func() {
			c.Eval(1)
			c.Nontrivial("elem|" + what)
			var e any
			if f < na {
				e = g.mk(i, f)
			} else {
				e = g.extra[f-na].mk(i)
			}
			got := g.enc(e)
			if !bytes.Equal(got, g.encA[i]) {
				cl := g.name + ": " + fname + " (or Marshal of it) differs from the model"
				if g.name == "GT" && f >= na+1 {
					cl = "pairing not bilinear: e(aP,bQ) != e(P,Q)^(ab)"
				}
				c.Violation(cl, map[string]any{"case": what, "got": vf.Hex8(got), "want": vf.Hex8(g.encA[i])})
			}
			if again := g.enc(e); !bytes.Equal(again, got) {
				c.Violation(g.name+": Marshal twice gives different bytes", what)
			}
			// Unmarshal(Marshal(e)) is the same element
			if back := g.enc(g.unm(got)); !bytes.Equal(back, got) {
				c.Violation(g.name+": Unmarshal(Marshal(e)) != e", what)
			}
		})
	})
	// 0b. Unmarshal into a receiver that already holds another element (every element x form,
	// including the identity and unreduced results of arithmetic): the receiver must become
	// exactly the decoded element, for Marshal and for further arithmetic
	c.ParallelFor(ne*ne*na, func(ix int) {
		i, j, fj := ix/(ne*na), ix/na%ne, ix%na
		what := fmt.Sprintf("%s Unmarshal(%s) into a receiver holding %s [%s]", g.name, g.elems[i].name, g.elems[j].name, g.formName(fj))
		protect(c, g.name+".Unmarshal (reused receiver)", what, func() {
			c.Eval(1)
			c.Nontrivial("unmreuse|" + what)
			recv := g.mk(j, fj)
			e, ok := g.unmTo(recv, g.encA[i])
			if !ok {
				c.Violation(g.name+".Unmarshal into a used receiver rejects a canonical encoding", what)
				return
			}
			if got := g.enc(e); !bytes.Equal(got, g.encA[i]) {
				c.Violation(g.name+".Unmarshal into a used receiver gives a different element", map[string]any{"case": what, "got": vf.Hex8(got), "want": vf.Hex8(g.encA[i])})
				return
			}
			if got := g.enc(recv); !bytes.Equal(got, g.encA[i]) {
				c.Violation(g.name+".Unmarshal into a used receiver: receiver and result differ", what)
			}
			k := (i + j + 1) % ne
			if got, want := g.enc(g.add(e, g.mk(k, 0))), g.mAdd(g.encA[i], g.encA[k]); !bytes.Equal(got, want) {
				c.Violation(g.name+".Add with an element unmarshalled into a used receiver differs from the model", what)
			}
		})
	})
	// 1. Add: all ordered pairs x forms; model agreement, commutativity, operands unchanged
	c.ParallelFor(ne*ne*na*na, func(ix int) {
		i, j, fi, fj := ix/(ne*na*na), ix/(na*na)%ne, ix/na%na, ix%na
		what := fmt.Sprintf("%s Add(%s [%s], %s [%s])", g.name, g.elems[i].name, g.formName(fi), g.elems[j].name, g.formName(fj))
		protect(c, g.name+".Add", what, func() {
			c.Eval(1)
			c.Nontrivial("add|" + what)
			if c.WantSample() && ix%37 == 5 {
				c.Sample(what)
			}
			a, b := g.mk(i, fi), g.mk(j, fj)
			got := g.enc(g.add(a, b))
			want := g.mAdd(g.encA[i], g.encA[j])
			switch {
			case bytes.Equal(want, g.ident):
				c.Outcome(g.name + " add: result is the identity")
			case bytes.Equal(g.encA[i], g.ident) || bytes.Equal(g.encA[j], g.ident):
				c.Outcome(g.name + " add: identity operand")
			case i == j:
				c.Outcome(g.name + " add: doubling")
			default:
				c.Outcome(g.name + " add: generic")
			}
			if !bytes.Equal(got, want) {
				c.Violation(g.name+".Add differs from the model", map[string]any{"case": what, "got": vf.Hex8(got), "want": vf.Hex8(want)})
			}
			if !bytes.Equal(g.enc(a), g.encA[i]) || !bytes.Equal(g.enc(b), g.encA[j]) {
				c.Violation(g.name+".Add modifies an operand", what)
			}
			if ba := g.enc(g.add(g.mk(j, fj), g.mk(i, fi))); !bytes.Equal(ba, got) {
				c.Violation(g.name+".Add not commutative", what)
			}
		})
	})
	// 2. associativity: all triples, operands and intermediate sums in unreduced form
	c.ParallelFor(ne*ne*ne, func(ix int) {
		i, j, k := ix/(ne*ne), ix/ne%ne, ix%ne
		what := fmt.Sprintf("%s (%s+%s)+%s", g.name, g.elems[i].name, g.elems[j].name, g.elems[k].name)
		protect(c, g.name+".Add", what, func() {
			c.Eval(1)
			c.Nontrivial("assoc|" + what)
			l := g.enc(g.add(g.add(g.mk(i, 1), g.mk(j, (i+j)%na)), g.mk(k, (i+j+k)%na)))
			r := g.enc(g.add(g.mk(i, (i+j+k+1)%na), g.add(g.mk(j, (j+k)%na), g.mk(k, 1))))
			want := g.mAdd(g.mAdd(g.encA[i], g.encA[j]), g.encA[k])
			if !bytes.Equal(l, r) {
				c.Violation(g.name+".Add not associative", what)
			} else if !bytes.Equal(l, want) {
				c.Violation(g.name+".Add differs from the model", map[string]any{"case": what})
			}
		})
	})
	// 3. inverse
	c.ParallelFor(ne*na, func(ix int) {
		i, f := ix/na, ix%na
		what := fmt.Sprintf("%s inverse of %s [%s]", g.name, g.elems[i].name, g.formName(f))
		protect(c, g.name+" inverse", what, func() {
			c.Eval(1)
			c.Nontrivial("inv|" + what)
			var inv any
			if g.neg != nil {
				inv = g.neg(g.mk(i, f))
				if got := g.enc(g.neg(g.mk(i, f))); !bytes.Equal(got, g.mNeg(g.encA[i])) {
					c.Violation(g.name+".Neg differs from the model", map[string]any{"case": what, "got": vf.Hex8(got)})
				}
			} else {
				inv = g.smul(g.mk(i, f), sub(ref.N, one))
			}
			if got := g.enc(g.add(g.mk(i, f), inv)); !bytes.Equal(got, g.ident) {
				c.Violation(g.name+": a + (-a) is not the identity", map[string]any{"case": what, "got": vf.Hex8(got)})
			}
			if got := g.enc(g.add(inv, g.mk(i, (f+1)%na))); !bytes.Equal(got, g.ident) {
				c.Violation(g.name+": (-a) + a is not the identity", map[string]any{"case": what, "got": vf.Hex8(got)})
			}
		})
	})
	// 4. scalar multiplication: every element x form x scalar = model
	realMul := make([][][]byte, ne) // real outputs (operand form 0), reused by the distributivity laws
	for i := range realMul {
		realMul[i] = make([][]byte, ns)
	}
	smallScalar := map[string]bool{"0": true, "1": true, "2": true, "n-1": true, "-1": true, "-2": true, "seed64.0": true}
	c.ParallelFor(ne*na*ns, func(ix int) {
		i, f, s := ix/(na*ns), ix/ns%na, ix%ns
		if f >= nf && !smallScalar[scalars[s].name] {
			return // the further representations get the scalar subset {0,1,2,n-1,-1,-2,one seeded 64-bit}
		}
		k := scalars[s].k
		what := fmt.Sprintf("%s ScalarMult(%s [%s], %s)", g.name, g.elems[i].name, g.formName(f), scalars[s].name)
		protect(c, g.name+".ScalarMult", what, func() {
			c.Eval(1)
			c.Nontrivial("smul|" + what)
			a := g.mk(i, f)
			got := g.enc(g.smul(a, k))
			if f == 0 {
				realMul[i][s] = got
			}
			want := mulTab[i][s]
			if bytes.Equal(want, g.ident) {
				c.Outcome(g.name + " smul: identity")
			} else {
				c.Outcome(g.name + " smul: non-identity")
			}
			if !bytes.Equal(got, want) {
				c.Violation(negClass(k.Sign() < 0, g.name, "ScalarMult differs from the model"), map[string]any{"case": what, "got": vf.Hex8(got), "want": vf.Hex8(want)})
			}
			if !bytes.Equal(g.enc(a), g.encA[i]) {
				c.Violation(g.name+".ScalarMult modifies its operand", what)
			}
		})
	})
	// 4b. ScalarBaseMult over the whole scalar grid (element index 1 is the generator)
	if g.sbm != nil {
		c.ParallelFor(ns, func(s int) {
			k := scalars[s].k
			what := fmt.Sprintf("%s ScalarBaseMult(%s)", g.name, scalars[s].name)
			protect(c, g.name+".ScalarBaseMult", what, func() {
				c.Eval(1)
				c.Nontrivial("sbm|" + what)
				if got := g.enc(g.sbm(k)); !bytes.Equal(got, mulTab[1][s]) {
					c.Violation(negClass(k.Sign() < 0, g.name, "ScalarBaseMult differs from the model"), map[string]any{"case": what, "got": vf.Hex8(got), "want": vf.Hex8(mulTab[1][s])})
				}
			})
		})
	}
	for i := range realMul {
		for s := range realMul[i] {
			if realMul[i][s] == nil {
				return // a panic was reported above
			}
		}
	}
	// 5. distributivity on the real outputs, all scalar pairs on element s1*base:
	//    (k1+k2)a = k1 a + k2 a and (k1 k2)a = k1 (k2 a)
	const ai = 4
	c.ParallelFor(ns*ns, func(ix int) {
		s, t := ix/ns, ix%ns
		k1, k2 := scalars[s].k, scalars[t].k
		neg := k1.Sign() < 0 || k2.Sign() < 0
		f := (s + t) % nf
		what := fmt.Sprintf("%s k1=%s k2=%s a=%s [%s]", g.name, scalars[s].name, scalars[t].name, g.elems[ai].name, formNames[f])
		protect(c, g.name+".ScalarMult", what, func() {
			c.Eval(1)
			c.Nontrivial("dist|" + what)
			l := g.enc(g.smul(g.mk(ai, f), add(k1, k2)))
			r := g.enc(g.add(g.unm(realMul[ai][s]), g.unm(realMul[ai][t])))
			if !bytes.Equal(l, r) {
				c.Violation(negClass(neg || add(k1, k2).Sign() < 0, g.name, "(k1+k2)a != k1 a + k2 a"), what)
			}
			l = g.enc(g.smul(g.mk(ai, f), mul(k1, k2)))
			r = g.enc(g.smul(g.unm(realMul[ai][t]), k1))
			if !bytes.Equal(l, r) {
				c.Violation(negClass(neg, g.name, "(k1 k2)a != k1 (k2 a)"), what)
			}
		})
	})
	//    k(a+b) = ka + kb for every scalar and every unordered element pair
	c.ParallelFor(ns*ne*ne, func(ix int) {
		s, i, j := ix/(ne*ne), ix/ne%ne, ix%ne
		if i > j {
			return
		}
		k := scalars[s].k
		f := (s + i + j) % nf
		what := fmt.Sprintf("%s k=%s a=%s b=%s", g.name, scalars[s].name, g.elems[i].name, g.elems[j].name)
		protect(c, g.name+".ScalarMult", what, func() {
			c.Eval(1)
			c.Nontrivial("dist2|" + what)
			l := g.enc(g.smul(g.add(g.mk(i, f), g.mk(j, 1-f)), k))
			r := g.enc(g.add(g.unm(realMul[i][s]), g.unm(realMul[j][s])))
			if !bytes.Equal(l, r) {
				c.Violation(negClass(k.Sign() < 0, g.name, "k(a+b) != ka + kb"), what)
			}
		})
	})
}

// pairing: bilinearity over the scalar grid, non-degeneracy, additivity.
func pairing(c *vf.Ctx, scalars []scalar, g2gen ref.G2, s1, s2 *big.Int) {
	type base struct {
		name string
		p    ref.G1
		q    ref.G2
	}
	bases := []base{
		{"generators", ref.G1Gen, g2gen},
		{"s1*G1gen, cofactor-cleared twist point from x=1+i", ref.G1Gen.Mul(s1), ref.G2FromX(1)},
	}
	unmP := func(b []byte) *bn256.G1 {
		e, ok := new(bn256.G1).Unmarshal(b)
		if !ok {
			panic("G1.Unmarshal rejects a canonical encoding")
		}
		return e
	}
	unmQ := func(b []byte) *bn256.G2 {
		e, ok := new(bn256.G2).Unmarshal(b)
		if !ok {
			panic("G2.Unmarshal rejects a canonical encoding")
		}
		return e
	}
	// negative scalars are excluded here (their scalar multiplication is judged in groupLaws)
	var ks []scalar
	for _, s := range scalars {
		if s.k.Sign() >= 0 {
			ks = append(ks, s)
		}
	}
	ns := len(ks)
	oneEnc := ref.Fp12One().Encode()
	for bi_, b := range bases {
		b := b
		// model encodings of k*P and k*Q
		encP, encQ := make([][]byte, ns), make([][]byte, ns)
		c.ParallelFor(2*ns, func(ix int) {
			if ix < ns {
				encP[ix] = b.p.Mul(ks[ix].k).Encode()
			} else {
				encQ[ix-ns] = b.q.Mul(ks[ix-ns].k).Encode()
			}
		})
		if c.Expired() {
			return
		}
		// form 0: affine from the model's encoding; form 1: Jacobian result of the real ScalarMult
		mkP := func(s, form int) *bn256.G1 {
			if form == 0 {
				return unmP(encP[s])
			}
			return new(bn256.G1).ScalarMult(unmP(b.p.Encode()), ks[s].k)
		}
		mkQ := func(s, form int) *bn256.G2 {
			if form == 0 {
				return unmQ(encQ[s])
			}
			return new(bn256.G2).ScalarMult(unmQ(b.q.Encode()), ks[s].k)
		}
		var e0 ref.Fp12
		if !protect(c, "Pair", b.name, func() {
			e0, _ = ref.DecodeGT(bn256.Pair(unmP(b.p.Encode()), unmQ(b.q.Encode())).Marshal())
		}) {
			continue
		}
		c.Eval(1)
		if e0.IsOne() || !e0.Exp(ref.N).IsOne() {
			c.Violation("pairing degenerate or not of order n on a pair of order-n points", b.name)
			continue
		}
		// model e(P,Q)^(ab) for all distinct ab mod n
		prods := map[string]*big.Int{}
		for s := 0; s < ns; s++ {
			for t := 0; t < ns; t++ {
				pr := new(big.Int).Mod(mul(ks[s].k, ks[t].k), ref.N)
				prods[pr.String()] = pr
			}
		}
		var keys []string
		for k := range prods {
			keys = append(keys, k)
		}
		want := map[string][]byte{}
		var mu sync.Mutex
		c.ParallelFor(len(keys), func(i int) {
			w := e0.Pow(prods[keys[i]]).Encode()
			mu.Lock()
			want[keys[i]] = w
			mu.Unlock()
		})
		if c.Expired() {
			return
		}
		single := make([][]byte, ns)  // real e(k*P, s2*Q)
		single2 := make([][]byte, ns) // real e(s2*P, k*Q)
		c.ParallelFor(ns*ns*2+2*ns, func(ix int) {
			if ix >= ns*ns*2 {
				s := ix - ns*ns*2
				protect(c, "Pair", "single", func() {
					if s < ns {
						single[s] = bn256.Pair(mkP(s, 0), new(bn256.G2).ScalarMult(unmQ(b.q.Encode()), s2)).Marshal()
					} else {
						single2[s-ns] = bn256.Pair(new(bn256.G1).ScalarMult(unmP(b.p.Encode()), s2), mkQ(s-ns, 0)).Marshal()
					}
				})
				return
			}
			s, t, form := ix/(2*ns), ix/2%ns, ix%2
			ka, kb := ks[s].k, ks[t].k
			what := fmt.Sprintf("e(%s*P, %s*Q) base %d (%s), operands %s", ks[s].name, ks[t].name, bi_, b.name, formNames[form])
			protect(c, "Pair", what, func() {
				c.Eval(1)
				c.Nontrivial("bilin|" + what)
				got := bn256.Pair(mkP(s, form), mkQ(t, form)).Marshal()
				prod := new(big.Int).Mod(mul(ka, kb), ref.N)
				isOne := bytes.Equal(got, oneEnc)
				if prod.Sign() == 0 {
					c.Outcome("pair: one")
					if !isOne {
						c.Violation("pairing of the identity (or of multiples of n) is not 1", what)
					}
				} else {
					c.Outcome("pair: non-trivial")
					if isOne {
						c.Violation("pairing degenerate: e(aP,bQ) = 1 although ab != 0 mod n", what)
					}
				}
				if !bytes.Equal(got, want[prod.String()]) {
					c.Violation("pairing not bilinear: e(aP,bQ) != e(P,Q)^(ab)", map[string]any{"case": what, "got": vf.Hex8(got), "want": vf.Hex8(want[prod.String()])})
				}
			})
		})
		ok := true
		for s := 0; s < ns; s++ {
			ok = ok && single[s] != nil && single2[s] != nil
		}
		if !ok {
			continue
		}
		unmT := func(b []byte) *bn256.GT { e, _ := new(bn256.GT).Unmarshal(b); return e }
		// additivity over all unordered scalar pairs:
		// e(P1+P2,Q) = e(P1,Q) e(P2,Q) and e(P,Q1+Q2) = e(P,Q1) e(P,Q2)
		c.ParallelFor(ns*ns, func(ix int) {
			s, t := ix/ns, ix%ns
			if s > t {
				return
			}
			what := fmt.Sprintf("additivity k1=%s k2=%s base %d", ks[s].name, ks[t].name, bi_)
			protect(c, "Pair", what, func() {
				c.Eval(1)
				c.Nontrivial("additive|" + what)
				sum := new(bn256.G1).Add(mkP(s, 0), mkP(t, 0)) // Jacobian sum
				l := bn256.Pair(sum, new(bn256.G2).ScalarMult(unmQ(b.q.Encode()), s2)).Marshal()
				r := new(bn256.GT).Add(unmT(single[s]), unmT(single[t])).Marshal()
				if !bytes.Equal(l, r) {
					c.Violation("pairing not additive in the first argument", what)
				}
				sum2 := new(bn256.G2).Add(mkQ(s, 0), mkQ(t, 0))
				l = bn256.Pair(new(bn256.G1).ScalarMult(unmP(b.p.Encode()), s2), sum2).Marshal()
				r = new(bn256.GT).Add(unmT(single2[s]), unmT(single2[t])).Marshal()
				if !bytes.Equal(l, r) {
					c.Violation("pairing not additive in the second argument", what)
				}
			})
		})
	}
}

// mutated encodings of one point
type encCase struct {
	name string
	b    []byte
}

// mutations returns, for a canonical encoding of nc 32-byte coordinates, every encoding in
// which a non-empty subset of the coordinates is replaced by coordinate+k*p (k=1..3 while
// < 2^256), by coordinate+1 mod p, or by zero.
func mutations(enc []byte, nc int) []encCase {
	var out []encCase
	coord := func(b []byte, i int) *big.Int { return new(big.Int).SetBytes(b[32*i : 32*i+32]) }
	for mask := 1; mask < 1<<nc; mask++ {
		for k := int64(1); k <= 3; k++ {
			b := append([]byte{}, enc...)
			fits := true
			for i := 0; i < nc; i++ {
				if mask>>i&1 == 1 {
					v := add(coord(enc, i), mul(ref.P, bi(k)))
					if v.Cmp(two256) >= 0 {
						fits = false
						break
					}
					v.FillBytes(b[32*i : 32*i+32])
				}
			}
			if fits {
				out = append(out, encCase{fmt.Sprintf("coords %0*b + %dp", nc, mask, k), b})
			}
		}
		b := append([]byte{}, enc...)
		z := append([]byte{}, enc...)
		for i := 0; i < nc; i++ {
			if mask>>i&1 == 1 {
				new(big.Int).Mod(add(coord(enc, i), one), ref.P).FillBytes(b[32*i : 32*i+32])
				copy(z[32*i:32*i+32], make([]byte, 32))
			}
		}
		out = append(out, encCase{fmt.Sprintf("coords %0*b + 1", nc, mask), b})
		out = append(out, encCase{fmt.Sprintf("coords %0*b zeroed", nc, mask), z})
	}
	// single coordinate minus 1, and top bit set
	for i := 0; i < nc; i++ {
		b := append([]byte{}, enc...)
		new(big.Int).Mod(sub(coord(enc, i), one), ref.P).FillBytes(b[32*i : 32*i+32])
		out = append(out, encCase{fmt.Sprintf("coord %d - 1", i), b})
		b = append([]byte{}, enc...)
		b[32*i] ^= 0x80
		out = append(out, encCase{fmt.Sprintf("coord %d top bit flipped", i), b})
	}
	return out
}

func encodings(c *vf.Ctx, g2gen ref.G2) {
	// 16 points per group: k*generator for k = 1..6, n-1, n-2 and 8 seeded k; for G2 two of
	// them are multiples of an independently derived subgroup point. Seeded points are
	// drawn (deterministically) until every coordinate is < 2^256-p, so that every
	// coordinate subset has its +p alias and the number of cases does not depend on the seed.
	type target struct {
		group string
		nc    int
		enc   []byte
		name  string
	}
	var ts []target
	limit := sub(two256, ref.P)
	allAliasable := func(enc []byte) bool {
		for i := 0; i+32 <= len(enc); i += 32 {
			if new(big.Int).SetBytes(enc[i:i+32]).Cmp(limit) >= 0 {
				return false
			}
		}
		return true
	}
	fixed := []*big.Int{bi(1), bi(2), bi(3), bi(4), bi(5), bi(6), sub(ref.N, one), sub(ref.N, bi(2))}
	for i, k := range fixed {
		ts = append(ts, target{"G1", 2, ref.G1Gen.Mul(k).Encode(), fmt.Sprintf("point %d", i)})
		ts = append(ts, target{"G2", 4, g2gen.Mul(k).Encode(), fmt.Sprintf("point %d", i)})
	}
	other := ref.G2FromX(17)
	for _, grp := range []string{"G1", "G2"} {
		for i, j := 8, 0; i < 16; j++ {
			k := new(big.Int).Mod(new(big.Int).SetBytes(c.Bytes("c52-encpt-"+grp, j, 32)), ref.N)
			var enc []byte
			switch {
			case grp == "G1":
				enc = ref.G1Gen.Mul(k).Encode()
			case i >= 14:
				enc = other.Mul(k).Encode()
			default:
				enc = g2gen.Mul(k).Encode()
			}
			if k.Sign() == 0 || !allAliasable(enc) {
				continue
			}
			ts = append(ts, target{grp, len(enc) / 32, enc, fmt.Sprintf("point %d", i)})
			i++
		}
	}
	// the G1 point with x = 0 (exists iff 3 is a square mod p): x = p is then an alias too
	if y := new(big.Int).ModSqrt(bi(3), ref.P); y != nil {
		ts = append(ts, target{"G1", 2, ref.G1{X: bi(0), Y: y}.Encode(), "point (0, sqrt 3)"})
	}
	// infinity and the all-p encodings
	pb := make([]byte, 32)
	ref.P.FillBytes(pb)
	for _, t := range []target{{"G1", 2, make([]byte, 64), "infinity"}, {"G2", 4, make([]byte, 128), "infinity"}} {
		ts = append(ts, t)
	}

	unm := func(group string, b []byte) (ok bool, re []byte, nilRet bool) {
		if group == "G1" {
			e, ok := new(bn256.G1).Unmarshal(b)
			if ok {
				re = e.Marshal()
			}
			return ok, re, e == nil
		}
		e, ok := new(bn256.G2).Unmarshal(b)
		if ok {
			re = e.Marshal()
		}
		return ok, re, e == nil
	}
	model := func(group string, b []byte) (bool, []byte) {
		if group == "G1" {
			a, ok := ref.DecodeG1(b)
			if !ok {
				return false, nil
			}
			return true, a.Encode()
		}
		a, ok := ref.DecodeG2(b)
		if !ok {
			return false, nil
		}
		return true, a.Encode()
	}
	// would the encoding be accepted by a decoder that reduces coordinates mod p first?
	lax := func(group string, b []byte) bool {
		r := append([]byte{}, b...)
		over := false
		for i := 0; i+32 <= len(r); i += 32 {
			v := new(big.Int).SetBytes(r[i : i+32])
			if v.Cmp(ref.P) >= 0 {
				over = true
				v.Mod(v, ref.P).FillBytes(r[i : i+32])
			}
		}
		if !over {
			return false
		}
		allZero := true
		for _, x := range r {
			allZero = allZero && x == 0
		}
		ok, _ := model(group, r)
		return ok && !allZero
	}
	judge := func(group, what string, b []byte) {
		c.Eval(1)
		protect(c, group+".Unmarshal", what, func() {
			ok, re, nilRet := unm(group, b)
			wantOK, wantEnc := model(group, b)
			switch {
			case ok && !wantOK:
				c.Outcome("unmarshal: accepted, model rejects")
				cl := group + ".Unmarshal accepts an encoding that is not the canonical encoding of a curve point"
				if lax(group, b) {
					cl = group + ".Unmarshal accepts coordinates >= p (x+p aliases of an on-curve point): a group element has several accepted encodings"
				}
				c.Violation(cl, map[string]any{"case": what, "encoding": fmt.Sprintf("%x", b), "re-marshals to": fmt.Sprintf("%x", re)})
			case !ok && wantOK:
				c.Outcome("unmarshal: rejected, model accepts")
				c.Violation(group+".Unmarshal rejects a canonical encoding of a curve point", map[string]any{"case": what, "encoding": fmt.Sprintf("%x", b)})
			case ok:
				c.Outcome("unmarshal: accepted")
				if !bytes.Equal(re, wantEnc) || !bytes.Equal(re, b) {
					c.Violation(group+": Marshal(Unmarshal(b)) != b for a canonical encoding", map[string]any{"case": what, "encoding": fmt.Sprintf("%x", b), "got": fmt.Sprintf("%x", re)})
				}
			default:
				c.Outcome("unmarshal: rejected")
				if !nilRet {
					c.Violation(group+".Unmarshal returns a non-nil element together with ok=false", what)
				}
			}
		})
	}
	// expand
	type job struct {
		group, what string
		b           []byte
	}
	var jobs []job
	for _, t := range ts {
		jobs = append(jobs, job{t.group, t.group + " " + t.name + " canonical", t.enc})
		for _, m := range mutations(t.enc, t.nc) {
			jobs = append(jobs, job{t.group, t.group + " " + t.name + " " + m.name, m.b})
		}
	}
	for _, g := range []struct {
		group string
		nc    int
	}{{"G1", 2}, {"G2", 4}} {
		for mask := 1; mask < 1<<g.nc; mask++ {
			b := make([]byte, 32*g.nc)
			for i := 0; i < g.nc; i++ {
				if mask>>i&1 == 1 {
					copy(b[32*i:], pb)
				}
			}
			jobs = append(jobs, job{g.group, fmt.Sprintf("%s coordinates %0*b = p, others 0 (alias of the all-zero infinity encoding)", g.group, g.nc, mask), b})
		}
	}
	// every length 0..400: prefix / zero-extension of a valid encoding
	for _, g := range []struct {
		group string
		enc   []byte
	}{{"G1", ref.G1Gen.Mul(bi(5)).Encode()}, {"G2", g2gen.Mul(bi(5)).Encode()}} {
		for l := 0; l <= 400; l++ {
			b := make([]byte, l)
			copy(b, g.enc)
			if l != len(g.enc) {
				jobs = append(jobs, job{g.group, fmt.Sprintf("%s length %d (valid encoding truncated/zero-extended)", g.group, l), b})
			}
			if l != len(g.enc) && l%32 == 0 {
				jobs = append(jobs, job{g.group, fmt.Sprintf("%s length %d all zero", g.group, l), make([]byte, l)})
			}
		}
	}
	c.ParallelFor(len(jobs), func(i int) {
		j := jobs[i]
		c.Nontrivial("enc|" + j.what)
		if c.WantSample() && i%97 == 3 {
			c.Sample(map[string]any{"case": j.what, "encoding": vf.Hex8(j.b)})
		}
		if len(j.b) != 64 && j.group == "G1" || len(j.b) != 128 && j.group == "G2" {
			c.Eval(1)
			protect(c, j.group+".Unmarshal", j.what, func() {
				if ok, _, _ := unm(j.group, j.b); ok {
					c.Violation(j.group+".Unmarshal accepts an input of the wrong length", j.what)
				} else {
					c.Outcome("unmarshal: wrong length rejected")
				}
			})
			return
		}
		judge(j.group, j.what, j.b)
	})
	c.Set("encoding_cases", len(jobs))

	// infinity behaves as the identity after Unmarshal
	protect(c, "infinity", "Unmarshal(zeros)", func() {
		c.Eval(4)
		z1, ok1 := new(bn256.G1).Unmarshal(make([]byte, 64))
		z2, ok2 := new(bn256.G2).Unmarshal(make([]byte, 128))
		if !ok1 || !ok2 {
			c.Violation("Unmarshal rejects the all-zero encoding of the point at infinity", nil)
			return
		}
		p := new(bn256.G1).ScalarBaseMult(bi(7))
		q := new(bn256.G2).ScalarBaseMult(bi(7))
		if !bytes.Equal(new(bn256.G1).Add(z1, p).Marshal(), ref.G1Gen.Mul(bi(7)).Encode()) || !bytes.Equal(new(bn256.G1).Add(p, z1).Marshal(), ref.G1Gen.Mul(bi(7)).Encode()) {
			c.Violation("G1: unmarshalled infinity is not the identity for Add", nil)
		}
		if !bytes.Equal(new(bn256.G2).Add(z2, q).Marshal(), g2gen.Mul(bi(7)).Encode()) || !bytes.Equal(new(bn256.G2).Add(q, z2).Marshal(), g2gen.Mul(bi(7)).Encode()) {
			c.Violation("G2: unmarshalled infinity is not the identity for Add", nil)
		}
		oneEnc := ref.Fp12One().Encode()
		if !bytes.Equal(bn256.Pair(z1, q).Marshal(), oneEnc) || !bytes.Equal(bn256.Pair(p, z2).Marshal(), oneEnc) || !bytes.Equal(bn256.Pair(z1, z2).Marshal(), oneEnc) {
			c.Violation("pairing of the identity (or of multiples of n) is not 1", "unmarshalled infinity")
		}
		if !bytes.Equal(new(bn256.G1).ScalarMult(z1, bi(5)).Marshal(), make([]byte, 64)) || !bytes.Equal(new(bn256.G2).ScalarMult(z2, bi(5)).Marshal(), make([]byte, 128)) {
			c.Violation("k * infinity is not infinity", nil)
		}
	})
}

// RandomG1/RandomG2 return (k, k*generator) with 0 < k < n.
func randomElems(c *vf.Ctx, g2gen ref.G2) {
	for i := 0; i < 4; i++ {
		what := fmt.Sprintf("Random stream %d", i)
		protect(c, "RandomG1/RandomG2", what, func() {
			c.Eval(2)
			c.Nontrivial("random|" + what)
			k, e, err := bn256.RandomG1(vf.NewRand(fmt.Sprintf("c52-r1-%d-%d", c.Seed, i)))
			if err != nil || k.Sign() <= 0 || k.Cmp(ref.N) >= 0 || !bytes.Equal(e.Marshal(), ref.G1Gen.Mul(k).Encode()) {
				c.Violation("RandomG1 does not return (k, k*G) with 0<k<n", fmt.Sprint(k, err))
			}
			k, e2, err := bn256.RandomG2(vf.NewRand(fmt.Sprintf("c52-r2-%d-%d", c.Seed, i)))
			if err != nil || k.Sign() <= 0 || k.Cmp(ref.N) >= 0 || !bytes.Equal(e2.Marshal(), g2gen.Mul(k).Encode()) {
				c.Violation("RandomG2 does not return (k, k*G) with 0<k<n", fmt.Sprint(k, err))
			}
		})
	}
}
