// Free-running companion of C52, built with -race by bin/check (DESIGN §2.3 (7b)).
// Group elements are values: an operation may write its receiver only. Several goroutines use
// the SAME element objects as operands (never as receivers) at the same time - Add, Neg,
// ScalarMult, Pair (not Marshal: it normalises its receiver in place, as upstream does, so a
// shared element must not be marshalled concurrently) - and every result is compared with the result of the same call
// made alone beforehand; the race detector watches for operands (or package-level tables) that
// are written, even temporarily, during an operation.
package main

import (
	"bytes"
	"fmt"
	"math/big"
	"sync"

	"golang.org/x/crypto/bn256"
)

func main() {
	k1, k2, k3 := big.NewInt(7), big.NewInt(1234567), new(big.Int).Lsh(big.NewInt(1), 200)
	p1, p2 := new(bn256.G1).ScalarBaseMult(k1), new(bn256.G1).ScalarBaseMult(k2)
	q1, q2 := new(bn256.G2).ScalarBaseMult(k2), new(bn256.G2).ScalarBaseMult(k3)
	// unreduced (non-affine) operands as well: results of arithmetic, not of Unmarshal
	p3 := new(bn256.G1).Add(p1, p2)
	q3 := new(bn256.G2).Add(q1, q2)
	t1 := bn256.Pair(p1, q1)
	ops := []struct {
		name string
		f    func() []byte
	}{
		{"G1.Add", func() []byte { return new(bn256.G1).Add(p1, p3).Marshal() }},
		{"G1.Neg", func() []byte { return new(bn256.G1).Neg(p3).Marshal() }},
		{"G1.ScalarMult", func() []byte { return new(bn256.G1).ScalarMult(p3, k2).Marshal() }},
		{"G1.ScalarBaseMult", func() []byte { return new(bn256.G1).ScalarBaseMult(k3).Marshal() }},
		{"G2.Add", func() []byte { return new(bn256.G2).Add(q1, q3).Marshal() }},
		{"G2.ScalarMult", func() []byte { return new(bn256.G2).ScalarMult(q3, k1).Marshal() }},
		{"G2.ScalarBaseMult", func() []byte { return new(bn256.G2).ScalarBaseMult(k1).Marshal() }},
		{"Pair", func() []byte { return bn256.Pair(p3, q3).Marshal() }},
		{"Pair(affine)", func() []byte { return bn256.Pair(p2, q2).Marshal() }},
		{"GT.Add", func() []byte { return new(bn256.GT).Add(t1, t1).Marshal() }},
		{"GT.ScalarMult", func() []byte { return new(bn256.GT).ScalarMult(t1, k2).Marshal() }},
		{"GT.Neg", func() []byte { return new(bn256.GT).Neg(t1).Marshal() }},
	}
	want := make([][]byte, len(ops))
	for i, o := range ops {
		want[i] = o.f()
	}
	var wg sync.WaitGroup
	var mu sync.Mutex
	bad := ""
	for g := 0; g < 4; g++ {
		wg.Add(1)
		go func(g int) {
			defer wg.Done()
			for r := 0; r < 3; r++ {
				for i := range ops {
					j := (i + g*3) % len(ops)
					if !bytes.Equal(ops[j].f(), want[j]) {
						mu.Lock()
						if bad == "" {
							bad = fmt.Sprintf("%s: goroutine %d round %d differs from the same call made alone", ops[j].name, g, r)
						}
						mu.Unlock()
						return
					}
				}
			}
		}(g)
	}
	wg.Wait()
	if bad != "" {
		fmt.Println("COMPANION-MISMATCH:", bad)
	}
	fmt.Println("race companion: rounds completed:", 3)
}
