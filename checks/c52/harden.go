package main

// Hardening dimensions (HARDEN.md A, B, D) for C52.
//
// history(): ONE element object per group is driven through every sequence of D in-place
// operations (the object is receiver and, where the operation has operands, also operand):
//
//	e.ScalarBaseMult(3) / (s3)           (G1, G2: receiver holds anything)
//	e.Add(e, x)  e.Add(x, e)  e.Add(e, e)
//	e.Neg(e)  e.Neg(x)                   (G1, GT)
//	e.ScalarMult(e, 2) / (e, -3) / (e, n) / (x, 5)
//	e.Unmarshal(enc(s2)) / (enc(identity))
//	e.Marshal()                          (normalises the object in place)
//
// from four start states (zero value new(G), identity, affine s2, unreduced output of Add).
// After every step the object is observed without touching it (a verbatim copy made by
// Add(e, identity) into a fresh element is marshalled) and compared with the model value
// (scalars mod n tracked alongside, encodings from ref/bn256ref). After the last step the
// object is also used as an operand of Pair (G1, G2), Pair is called a second time with the same
// objects, and the object is observed again: Pair must neither depend on the history of its
// operands nor change them.
//
// ownership(): the caller's buffers and scalars: Unmarshal(m) with m overwritten afterwards,
// Marshal output overwritten, the *big.Int handed to ScalarMult / ScalarBaseMult unchanged by the
// call and overwritten afterwards (scalar grid incl. negative and > n values).

import (
	"bytes"
	"fmt"
	"math/big"
	"sync"

	"golang.org/x/crypto/bn256"
	ref "verif/ref/bn256ref"
	"verif/vf"
)

type hop struct {
	name string
	// apply performs the operation on e (x is a distinct operand object of value kx) and returns the new scalar of e
	apply func(g *ops, e, x any, k, kx *big.Int) *big.Int
	need  string // "neg": group has Neg; "sbm": group has ScalarBaseMult
}

func modn(k *big.Int) *big.Int { return new(big.Int).Mod(k, ref.N) }

func historyOps(s2, s3 *big.Int) []hop {
	return []hop{
		{"e.ScalarBaseMult(3)", func(g *ops, e, x any, k, kx *big.Int) *big.Int { g.alias.sbmInto(e, bi(3)); return bi(3) }, "sbm"},
		{"e.ScalarBaseMult(s3)", func(g *ops, e, x any, k, kx *big.Int) *big.Int {
			g.alias.sbmInto(e, new(big.Int).Set(s3))
			return modn(s3)
		}, "sbm"},
		{"e.Add(e, x)", func(g *ops, e, x any, k, kx *big.Int) *big.Int { g.alias.addInto(e, e, x); return modn(add(k, kx)) }, ""},
		{"e.Add(x, e)", func(g *ops, e, x any, k, kx *big.Int) *big.Int { g.alias.addInto(e, x, e); return modn(add(k, kx)) }, ""},
		{"e.Add(e, e)", func(g *ops, e, x any, k, kx *big.Int) *big.Int { g.alias.addInto(e, e, e); return modn(add(k, k)) }, ""},
		{"e.Neg(e)", func(g *ops, e, x any, k, kx *big.Int) *big.Int {
			g.alias.negInto(e, e)
			return modn(new(big.Int).Neg(k))
		}, "neg"},
		{"e.Neg(x)", func(g *ops, e, x any, k, kx *big.Int) *big.Int {
			g.alias.negInto(e, x)
			return modn(new(big.Int).Neg(kx))
		}, "neg"},
		{"e.ScalarMult(e, 2)", func(g *ops, e, x any, k, kx *big.Int) *big.Int {
			g.alias.smulInto(e, e, bi(2))
			return modn(mul(k, bi(2)))
		}, ""},
		{"e.ScalarMult(e, -3)", func(g *ops, e, x any, k, kx *big.Int) *big.Int {
			g.alias.smulInto(e, e, bi(-3))
			return modn(mul(k, bi(-3)))
		}, ""},
		{"e.ScalarMult(e, n)", func(g *ops, e, x any, k, kx *big.Int) *big.Int {
			g.alias.smulInto(e, e, new(big.Int).Set(ref.N))
			return bi(0)
		}, ""},
		{"e.ScalarMult(x, 5)", func(g *ops, e, x any, k, kx *big.Int) *big.Int {
			g.alias.smulInto(e, x, bi(5))
			return modn(mul(kx, bi(5)))
		}, ""},
		{"e.Unmarshal(s2)", func(g *ops, e, x any, k, kx *big.Int) *big.Int {
			if _, ok := g.unmTo(e, append([]byte(nil), g.mBaseCached(s2)...)); !ok {
				panic("Unmarshal into a used receiver rejects a canonical encoding")
			}
			return modn(s2)
		}, ""},
		{"e.Unmarshal(identity)", func(g *ops, e, x any, k, kx *big.Int) *big.Int {
			if _, ok := g.unmTo(e, append([]byte(nil), g.ident...)); !ok {
				panic("Unmarshal into a used receiver rejects the encoding of the identity")
			}
			return bi(0)
		}, ""},
		{"e.Marshal()", func(g *ops, e, x any, k, kx *big.Int) *big.Int { g.enc(e); return k }, ""},
	}
}

var modelCache sync.Map // group name + scalar -> encoding

func (g *ops) mBaseCached(k *big.Int) []byte {
	key := g.name + "|" + modn(k).String()
	if v, ok := modelCache.Load(key); ok {
		return v.([]byte)
	}
	b := g.mBase(modn(k))
	modelCache.Store(key, b)
	return b
}

// observe returns the encoding of e's value without touching e.
func (g *ops) observe(e any) []byte {
	return g.enc(g.add(e, g.unm(g.ident)))
}

func history(c *vf.Ctx, g *ops, gt *ops, s1, s2, s3 *big.Int, pairWith func(e any) *bn256.GT) {
	var hops []hop
	for _, h := range historyOps(s2, s3) {
		if h.need == "neg" && g.alias.negInto == nil || h.need == "sbm" && g.alias.sbmInto == nil {
			continue
		}
		hops = append(hops, h)
	}
	type start struct {
		name string
		mk   func() any
		k    *big.Int
	}
	starts := []start{
		{"unreduced output of Add (s2)", func() any { return g.add(g.unm(g.mBaseCached(sub(s2, bi(7)))), g.unm(g.mBaseCached(bi(7)))) }, modn(s2)},
		{"identity", func() any { return g.unm(g.ident) }, bi(0)},
		{"affine (Unmarshal of s2)", func() any { return g.unm(g.mBaseCached(s2)) }, modn(s2)},
	}
	if g.zero != nil {
		starts = append(starts, start{"zero value", g.zero, nil})
	}
	D := 2
	if c.Thorough {
		D = 3
	}
	nh := len(hops)
	// quick: full depth 2 from every start state, plus full depth 3 from the unreduced start
	// state for G1 (the cheapest group); thorough: full depth 3 from every start state for G1 and
	// from the unreduced and identity start states for G2 / GT (depth 2 from the other two).
	type job struct {
		st  int
		seq []int
	}
	var jobs []job
	var gen func(st int, seq []int, d int)
	gen = func(st int, seq []int, d int) {
		if len(seq) == d {
			jobs = append(jobs, job{st, append([]int(nil), seq...)})
			return
		}
		for h := range hops {
			gen(st, append(seq, h), d)
		}
	}
	for st := range starts {
		d := D
		if c.Thorough && g.name != "G1" && st >= 2 {
			d = 2 // G2 / GT operations are several times dearer: depth 3 from the unreduced and the identity start only
		}
		gen(st, nil, d)
	}
	if !c.Thorough && g.name == "G1" {
		gen(0, nil, 3)
	}
	kx := modn(s1)
	// pass 1: the scalars the histories reach (symbolically), so that the model table is built in parallel
	need := map[string]*big.Int{}
	for _, j := range jobs {
		k := starts[j.st].k
		for _, h := range j.seq {
			k = symbolic(hops[h].name, k, kx, s2, s3)
			if k != nil {
				need[k.String()] = k
			}
		}
	}
	var ks []*big.Int
	for _, k := range need {
		ks = append(ks, k)
	}
	c.ParallelFor(len(ks), func(i int) {
		g.mBaseCached(ks[i])
		if pairWith != nil {
			gt.mBaseCached(ks[i])
		}
	})
	if c.Expired() {
		return
	}
	c.Set("history_"+g.name, map[string]any{"operations": nh, "start_states": len(starts), "sequences": len(jobs), "distinct_model_values": len(ks)})
	c.ParallelFor(len(jobs), func(ix int) {
		j := jobs[ix]
		var names []string
		for _, h := range j.seq {
			names = append(names, hops[h].name)
		}
		what := fmt.Sprintf("%s start=%s: %v", g.name, starts[j.st].name, names)
		protect(c, g.name+" in-place operation history", what, func() {
			c.Eval(1)
			c.Nontrivial("hist|" + what)
			e := starts[j.st].mk()
			x := g.mk(4, ix%2) // element s1, affine or unreduced
			k := starts[j.st].k
			for step, h := range j.seq {
				op := hops[h]
				if k == nil && (op.name != "e.ScalarBaseMult(3)" && op.name != "e.ScalarBaseMult(s3)" && op.name != "e.Neg(x)" && op.name != "e.ScalarMult(x, 5)" && op.name != "e.Unmarshal(s2)" && op.name != "e.Unmarshal(identity)") {
					return // the zero value is not a legal operand; only operations that use it as receiver alone apply
				}
				k = op.apply(g, e, x, k, kx)
				if got, want := g.observe(e), g.mBaseCached(k); !bytes.Equal(got, want) {
					c.Violation(g.name+": an element object reused through a history of in-place operations holds a wrong value after "+op.name,
						map[string]any{"case": what, "step": step, "got": vf.Hex8(got), "want": vf.Hex8(want)})
					return
				}
				if got := g.enc(x); !bytes.Equal(got, g.encA[4]) {
					c.Violation(g.name+": "+op.name+" modifies its other operand", what)
					return
				}
				x = g.mk(4, (ix+step)%2)
			}
			if pairWith != nil && k != nil && (len(j.seq) == 2 || c.Thorough) && ix%8 == 0 {
				want := gt.mBaseCached(k)
				p1 := pairWith(e).Marshal()
				p2 := pairWith(e).Marshal()
				if !bytes.Equal(p1, want) || !bytes.Equal(p2, want) {
					c.Violation("Pair is wrong for (or changed by a first call on) an operand object that went through a history of in-place operations ("+g.name+")",
						map[string]any{"case": what, "first": vf.Hex8(p1), "second": vf.Hex8(p2), "want": vf.Hex8(want)})
					return
				}
				if got := g.observe(e); !bytes.Equal(got, g.mBaseCached(k)) {
					c.Violation("Pair modifies its "+g.name+" operand", what)
				}
				c.Outcome("hist: Pair on a reused " + g.name + " object")
			}
			c.Outcome("hist: " + g.name + " history consistent")
		})
	})
}

// symbolic mirrors the scalar bookkeeping of historyOps (nil = zero value, not an element yet).
func symbolic(op string, k, kx, s2, s3 *big.Int) *big.Int {
	switch op {
	case "e.ScalarBaseMult(3)":
		return bi(3)
	case "e.ScalarBaseMult(s3)":
		return modn(s3)
	case "e.Neg(x)":
		return modn(new(big.Int).Neg(kx))
	case "e.ScalarMult(x, 5)":
		return modn(mul(kx, bi(5)))
	case "e.Unmarshal(s2)":
		return modn(s2)
	case "e.Unmarshal(identity)":
		return bi(0)
	}
	if k == nil {
		return nil
	}
	switch op {
	case "e.Add(e, x)", "e.Add(x, e)":
		return modn(add(k, kx))
	case "e.Add(e, e)", "e.ScalarMult(e, 2)":
		return modn(mul(k, bi(2)))
	case "e.Neg(e)":
		return modn(new(big.Int).Neg(k))
	case "e.ScalarMult(e, -3)":
		return modn(mul(k, bi(-3)))
	case "e.ScalarMult(e, n)":
		return bi(0)
	}
	return k // e.Marshal()
}

// ownership: buffers and scalars belong to the caller.
func ownership(c *vf.Ctx, g *ops, scalars []scalar) {
	ne := len(g.elems)
	c.ParallelFor(ne*len(scalars), func(ix int) {
		i, si := ix/len(scalars), ix%len(scalars)
		if g.name == "GT" && !c.Thorough && i%2 == 1 {
			return // GT exponentiations dominate the cost; quick takes every second element
		}
		sc := scalars[si]
		what := fmt.Sprintf("%s element %s, scalar %s", g.name, g.elems[i].name, sc.name)
		protect(c, g.name+" caller-owned buffers", what, func() {
			c.Eval(1)
			c.Nontrivial("own|" + what)
			// Unmarshal keeps nothing of the caller's slice
			m := append(make([]byte, 0, len(g.encA[i])), g.encA[i]...)
			e, ok := g.unmTo(g.mk((i+1)%ne, si%2), m)
			if !ok {
				c.Violation(g.name+".Unmarshal into a used receiver rejects a canonical encoding", what)
				return
			}
			for b := range m {
				m[b] ^= 0xFF
			}
			// the scalar is the caller's: unchanged by the call, and free to be changed afterwards
			k := new(big.Int).Set(sc.k)
			r := g.smul(e, k)
			if k.Cmp(sc.k) != 0 {
				c.Violation(g.name+".ScalarMult modifies the caller's scalar", map[string]any{"case": what, "after": k.String()})
				return
			}
			k.SetInt64(7777)
			k.Lsh(k, 300)
			want := g.mBaseCached(mul(g.elems[i].k, sc.k))
			out := g.enc(r)
			if !bytes.Equal(out, want) {
				c.Violation(g.name+": ScalarMult result (or the element decoded from a buffer the caller has overwritten since) differs from the model",
					map[string]any{"case": what, "got": vf.Hex8(out), "want": vf.Hex8(want)})
				return
			}
			// Marshal output is the caller's
			for b := range out {
				out[b] ^= 0xFF
			}
			if again := g.enc(r); !bytes.Equal(again, want) {
				c.Violation(g.name+": Marshal after the caller has overwritten the previous Marshal output differs", what)
				return
			}
			if got := g.enc(e); !bytes.Equal(got, g.encA[i]) {
				c.Violation(g.name+": the element decoded from a buffer that the caller has overwritten since changed its value", what)
				return
			}
			if g.sbm != nil && i == 0 {
				k2 := new(big.Int).Set(sc.k)
				r2 := g.sbm(k2)
				if k2.Cmp(sc.k) != 0 {
					c.Violation(g.name+".ScalarBaseMult modifies the caller's scalar", map[string]any{"case": what, "after": k2.String()})
					return
				}
				k2.SetInt64(1)
				if got := g.enc(r2); !bytes.Equal(got, g.mBaseCached(sc.k)) {
					c.Violation(g.name+": ScalarBaseMult differs from the model", map[string]any{"case": what, "got": vf.Hex8(got)})
				}
			}
			c.Outcome("own: " + g.name + " consistent")
		})
	})
}
