package main

// The default script and its deviations.
//
//   query -> AKE -> a1,a2 to B -> b1,b2 to A -> SMP (A asks, B answers) -> a3, b3 -> End by A
//   [-> optional second session started by B: query, AKE, one message each way]
//
// Benign deviations (the property demands full success): FragmentSize of either
// side, both sides starting the AKE at once, unequal SMP secrets (then SMP must
// fail), no question, second session. SMP restarts ("aborted mid-way") keep every
// demand except the SMP verdict. Transport faults keep the safety demands only.

import (
	"bytes"
	"fmt"

	"golang.org/x/crypto/otr"
	"verif/ref/otrref"
	"verif/vf"
)

var secretClassName = []string{"equal", "last byte differs", "first byte differs", "B's is a proper prefix of A's", "B's is A's plus a zero byte", "A's is empty"}

// texts are the plaintexts of the script (lengths around the 256-byte padding
// boundary: len+1+4 = 256 for 251), filled in by initValues.
var texts = map[string][]byte{}
var baseSecret []byte

func initValues(c *vf.Ctx) {
	lens := map[string]int{"a1": 251, "a2": 1 + 3, "b1": 250, "b2": 252, "a3": 40, "b3": 507, "a4": 33, "b4": 17}
	i := 0
	for _, k := range []string{"a1", "a2", "b1", "b2", "a3", "b3", "a4", "b4"} {
		texts[k] = text(c, k, i, lens[k])
		i++
	}
	baseSecret = c.Bytes("smp-secret", 0, 40)
}

// text returns n bytes without NUL that start with the tag (so all texts differ).
func text(c *vf.Ctx, tag string, i, n int) []byte {
	b := c.Bytes("text-"+tag, i, n)
	for j := range b {
		if b[j] == 0 {
			b[j] = 0x80
		}
	}
	copy(b, tag+":")
	return b
}

func secrets(class int) (a, b []byte) {
	a = append([]byte(nil), baseSecret...)
	b = append([]byte(nil), baseSecret...)
	switch class {
	case 1:
		b[len(b)-1] ^= 1
	case 2:
		b[0] ^= 1
	case 3:
		b = b[:len(b)-1]
	case 4:
		b = append(b, 0)
	case 5:
		a = nil
	}
	return
}

func (e *exec) question() string {
	if e.withQuestion {
		return "what is the name of the cat?"
	}
	return ""
}

// call runs an API call of party i under panic protection.
func (e *exec) call(i int, what string, f func() [][]byte) {
	if e.dead {
		return
	}
	var out [][]byte
	p, v, st := vf.Protect(func() { out = f() })
	e.trans++
	if p {
		e.panicked(what, v, st, e.p[i].conv, map[string]any{"party": e.p[i].name})
		return
	}
	e.noteState()
	e.emit(i, out, what)
}

func (e *exec) send(i int, msg []byte) {
	p := e.p[i]
	enc := p.conv.IsEncrypted()
	e.call(i, "Send", func() [][]byte {
		priv := cloneBytes(msg) // the caller may reuse its message buffer as soon as Send has returned
		raw, err := p.conv.Send(priv)
		out := cloneAll(raw)
		clobberAll(raw)
		clobber(priv)
		if err != nil {
			e.logf("%s Send error %v", p.name, err)
			if enc {
				e.fail("Send fails although IsEncrypted reported true", map[string]any{"err": err.Error()})
			}
			return nil
		}
		if enc {
			p.sent = append(p.sent, msg)
			for _, w := range out {
				if len(msg) >= 8 && bytes.Contains(w, msg) {
					e.fail("Send left the plaintext on the wire although IsEncrypted reported true", nil)
				}
			}
		}
		return out
	})
}

func (e *exec) authenticate(i int, question, what string) {
	p := e.p[i]
	e.call(i, "Authenticate", func() [][]byte {
		sec := cloneBytes(p.secret) // the caller wipes its copy of the secret after the call
		raw, err := p.conv.Authenticate(question, sec)
		out := cloneAll(raw)
		clobberAll(raw)
		clobber(sec)
		if err != nil {
			e.logf("%s Authenticate(%s) error %v", p.name, what, err)
			if e.netFault == 0 && e.abort == 0 {
				e.fail("Authenticate fails in an execution without faults", map[string]any{"party": p.name, "err": err.Error(), "what": what})
			}
		}
		return out
	})
	if what == "answer" && i == 1 && e.abort == 3 && !e.abortDone {
		e.abortDone = true
		e.authenticate(1, e.question(), "B starts its own SMP while answering")
	}
}

func (e *exec) expect(cond bool, class string, extra map[string]any) {
	if !cond {
		e.fail(class, extra)
	}
}

func (e *exec) counts() map[string]any {
	a, b := e.p[0], e.p[1]
	return map[string]any{"A_encrypted": a.conv.IsEncrypted(), "B_encrypted": b.conv.IsEncrypted(), "A_newkeys": a.newKeys, "B_newkeys": b.newKeys,
		"A_got": a.got, "B_got": b.got, "A_sent": len(a.sent), "B_sent": len(b.sent), "A_smp": fmt.Sprintf("needed %d complete %d failed %d", a.needed, a.complete, a.failed),
		"B_smp": fmt.Sprintf("needed %d complete %d failed %d", b.needed, b.complete, b.failed), "A_last_err": a.lastErr, "B_last_err": b.lastErr}
}

// run executes the script once. It returns a short outcome signature.
func (e *exec) run() string {
	o := e.o
	A, B := e.p[0], e.p[1]
	fa, fb, sim, second := o.fixFragA, o.fixFragB, 0, 0
	e.withQuestion = true
	if o.benign && !o.smpChoicesOnly {
		fa = e.choose(len(fragSizes), func(k int) string { return fmt.Sprintf("A.FragmentSize=%d", fragSizes[k]) })
		fb = e.choose(len(fragSizes), func(k int) string { return fmt.Sprintf("B.FragmentSize=%d", fragSizes[k]) })
		sim = e.choose(3, func(k int) string {
			return []string{"", "both sides send a query at once", "both sides send a query at once (randomness swapped)"}[k]
		})
	}
	if o.benign {
		if o.withSMP {
			e.secClass = e.choose(len(secretClassName), func(k int) string { return "SMP secrets: " + secretClassName[k] })
			if e.choose(2, func(int) string { return "SMP without question" }) == 1 {
				e.withQuestion = false
			}
			e.abort = e.choose(4, func(k int) string {
				return []string{"", "A restarts SMP right after starting it", "A restarts SMP after answering SMP2", "B starts its own SMP while answering"}[k]
			})
		}
		if !o.smpChoicesOnly {
			second = e.choose(2, func(int) string { return "second session after End" })
		}
	}
	A.conv.FragmentSize, B.conv.FragmentSize = fragSizes[fa], fragSizes[fb]
	if sim == 2 {
		A.conv.Rand, B.conv.Rand = B.conv.Rand, A.conv.Rand
	}
	A.secret, B.secret = secrets(e.secClass)
	query := []byte(otr.QueryMessage)

	// --- AKE ---
	e.phase = phAKE
	e.send(0, query)
	if sim != 0 {
		e.send(1, query)
	}
	e.pump()
	if e.dead {
		return "dead"
	}
	clean := func() bool { return e.netFault == 0 && !e.dead }
	encAfterAKE := fmt.Sprintf("%v/%v", A.conv.IsEncrypted(), B.conv.IsEncrypted())
	if clean() {
		e.expect(A.conv.IsEncrypted() && B.conv.IsEncrypted() && A.newKeys >= 1 && B.newKeys >= 1,
			"AKE did not bring both sides to the encrypted state", e.counts())
		e.expect(A.newKeys == 1 && B.newKeys == 1, "one key exchange reported NewKeys more than once", e.counts())
		e.expect(A.conv.SSID == B.conv.SSID, "the two sides computed different session ids", nil)
		if sim != 0 {
			// "compare the hashed gx you sent with the one you received, as 32-byte unsigned big-endian
			// values; if yours is the higher: ignore the incoming commit and resend yours; otherwise reply
			// with a D-H Key message" - so the D-H Key message comes from the side with the lower hash.
			da, db := commitDigest(e.firstCommit[0]), commitDigest(e.firstCommit[1])
			if da == nil || db == nil {
				e.fail("simultaneous start: a side did not send a well-formed D-H commit message", nil)
			} else if c := bytes.Compare(da, db); c != 0 {
				loser := 0
				if c < 0 {
					loser = 0
				} else {
					loser = 1
				}
				e.expect(e.firstKeyFrom == loser, "SYN crossing: the D-H key message was not sent by the side with the lower commit hash", map[string]any{
					"A_hash": fmt.Sprintf("%x", da[:8]), "B_hash": fmt.Sprintf("%x", db[:8]), "dh_key_sent_by": e.firstKeyFrom})
			}
		}
	}

	// --- data ---
	e.phase = phData
	e.send(0, texts["a1"])
	e.send(0, texts["a2"])
	e.pump()
	e.send(1, texts["b1"])
	e.send(1, texts["b2"])
	e.pump()
	if clean() {
		e.expect(B.got == 2 && A.got == 2, "a data message was not delivered to the peer", e.counts())
	}

	// --- SMP ---
	if o.withSMP && !e.dead {
		e.phase = phSMP
		e.authenticate(0, e.question(), "start")
		if e.abort == 1 {
			e.authenticate(0, e.question(), "restart before anything was delivered")
		}
		e.pump()
		if clean() && e.abort == 0 {
			if e.secClass == 0 {
				e.expect(A.complete == 1 && B.complete == 1 && A.failed == 0 && B.failed == 0 && B.needed == 1 && A.needed == 0,
					"SMP with equal secrets did not complete on both sides", e.counts())
			} else {
				e.expect(A.complete == 0 && B.complete == 0 && A.failed >= 1 && B.failed >= 1 && B.needed == 1,
					"SMP with unequal secrets did not fail on both sides", e.counts())
			}
		}
		// the conversation must still carry data afterwards
		e.phase = phPost
		e.send(0, texts["a3"])
		e.pump()
		e.send(1, texts["b3"])
		e.pump()
		if clean() {
			e.expect(B.got == 3 && A.got == 3, "a data message sent after SMP was not delivered", e.counts())
		}
	}

	// --- End ---
	if !e.dead {
		e.phase = phEnd
		e.call(0, "End", func() [][]byte { return A.conv.End() })
		e.pump()
		if clean() {
			e.expect(!A.conv.IsEncrypted() && !B.conv.IsEncrypted() && B.ended == 1 && A.ended == 0, "End did not finish the conversation on both sides", e.counts())
			var err error
			p, v, st := vf.Protect(func() { _, err = B.conv.Send([]byte("after the end")) })
			if p {
				e.panicked("Send", v, st, B.conv, nil)
			} else {
				e.expect(err != nil, "Send succeeds on a conversation that the peer has ended", nil)
			}
		}
		if !e.dead {
			e.call(1, "End", func() [][]byte { return B.conv.End() })
			e.pump()
		}
	}

	// --- second session, started by B ---
	if second == 1 && !e.dead {
		e.phase = phSecond
		nkA, nkB, gA, gB := A.newKeys, B.newKeys, A.got, B.got
		e.send(1, query)
		e.pump()
		e.send(1, texts["b4"])
		e.pump()
		e.send(0, texts["a4"])
		e.pump()
		if clean() {
			e.expect(A.conv.IsEncrypted() && B.conv.IsEncrypted() && A.newKeys == nkA+1 && B.newKeys == nkB+1,
				"second AKE on the same conversations did not bring both sides to the encrypted state", e.counts())
			e.expect(A.got == gA+1 && B.got == gB+1, "a data message of the second session was not delivered", e.counts())
			e.expect(A.conv.SSID == B.conv.SSID, "the two sides computed different session ids", nil)
		}
	}
	if e.dead {
		return "dead"
	}
	return fmt.Sprintf("enc=%s keys=%d/%d got=%d/%d of %d/%d smp=c%d%d f%d%d ended=%d",
		encAfterAKE, A.newKeys, B.newKeys, A.got, B.got, len(B.sent), len(A.sent),
		A.complete, B.complete, min(A.failed, 1), min(B.failed, 1), B.ended)
}

// commitDigest extracts the hashed gx (second DATA field) of a D-H commit message.
func commitDigest(m *lmsg) []byte {
	if m == nil {
		return nil
	}
	bin, ok := otrref.Decode(m.whole)
	if !ok || otrref.Type(bin) != otrref.TypeDHCommit {
		return nil
	}
	b := bin[3:]
	for i := 0; i < 2; i++ {
		if len(b) < 4 {
			return nil
		}
		n := int(b[0])<<24 | int(b[1])<<16 | int(b[2])<<8 | int(b[3])
		if n > len(b)-4 {
			return nil
		}
		if i == 1 {
			if n != 32 || len(b) != 4+n {
				return nil
			}
			return b[4:]
		}
		b = b[4+n:]
	}
	return nil
}
