// C47: OTR conversations deliver messages and authenticate secrets.
//
// Part E (environment-answer mode, model checking): two real otr.Conversation
// objects (deterministic Rand, fixed DSA keys) joined by a message queue under the
// check's control run the default script; every execution with at most k
// non-default environment answers is enumerated (see script.go / conv.go).
// Part G: message-length x fragment-size grid over one long conversation.
// Part F: forgeries built from MAC keys revealed on the wire.
// Part T: totality of Receive (short inputs, all single faults of every message of
// a recorded conversation in the matching state, crafted-message sequences,
// crafted SMP payloads from an authenticated peer).
//
//go:debug cryptocustomrand=1
package main

import (
	"fmt"
	"io"
	"runtime/debug"
	"sort"
	"sync"
	"time"

	"golang.org/x/crypto/otr"
	"verif/vf"
)

func main() { vf.Main("C47", vf.ModelChecking, run) }

// detRand is vf.Rand with one twist: reads of exactly one byte do not advance the
// stream (crypto/internal/randutil.MaybeReadByte consumes such a byte at random,
// which would make executions irreproducible).
type detRand struct{ r *vf.Rand }

func newDetRand(label string) io.Reader { return detRand{vf.NewRand(label)} }

func (d detRand) Read(p []byte) (int, error) {
	if len(p) == 1 {
		p[0] = 0x5a
		return 1, nil
	}
	return d.r.Read(p)
}

var dsaKeys [2]*otr.PrivateKey

func genKeys() {
	var wg sync.WaitGroup
	for i := range dsaKeys {
		wg.Add(1)
		go func() {
			defer wg.Done()
			k := new(otr.PrivateKey)
			k.Generate(newDetRand(fmt.Sprintf("c47-dsa-key-%d", i)))
			dsaKeys[i] = k
		}()
	}
	wg.Wait()
}

func allPhases() (f [nPhases]bool) {
	for i := range f {
		f[i] = true
	}
	return
}

func run(c *vf.Ctx) {
	c.Rule("environment-answer exploration: one case = one execution of the script (query, AKE, 2+2 data messages, SMP, 1+1 data messages, End, optional second session) " +
		"over two real Conversations, identified by its vector of non-default answers (fragment sizes, simultaneous start, SMP secret class/restart, and per in-flight message: " +
		"twice/drop/swap/substitution at evenly spaced offsets/piece-level dup-drop-swap); every vector with <= bound deviations is run; distinct = distinct deviation vector. " +
		"Totality parts: one case = one input (or input pair/sequence) fed to a conversation in a named state. " +
		"Part Y: every sequence of D operations over {A/B calls Authenticate (at most 2), A/B sends a text (at most 2), deliver the oldest message to A/B} after a clean AKE, for equal and unequal secrets, then a clean SMP from whatever state is left; " +
		"part Z: a second key exchange on the same objects (End+End, End by one side, a query arriving while encrypted, the same with an unanswered SMP) x first-session history x every data-exchange schedule of depth D2 in the new session, then clean SMPs. " +
		"In every part each Receive/Send/Authenticate call gets private copies of its byte-slice arguments, which are overwritten when the call returns, and the returned slices are copied and then overwritten")
	c.Assume("crypto/dsa, crypto/aes, crypto/hmac, crypto/sha1, crypto/sha256, math/big and encoding/base64 of the standard library are trusted")
	c.Assume("DSA keys and all Conversation randomness come from a deterministic SHA-256 counter stream; a different seed changes texts and secrets only")
	c.Assume("fragment reassembly, message framing and the data-message layout are modelled from the OTR v2 protocol description (ref/otrref)")
	debug.SetGCPercent(400) // many short-lived big.Ints and slices; the live heap stays small
	genKeys()
	initValues(c)

	section := ""
	if c.Replay != nil {
		if d, ok := c.Replay["detail"].(map[string]any); ok {
			section, _ = d["pass"].(string)
		}
	}
	want := func(name string) bool { return section == "" || section == name }

	// ---- Part E ----
	var passes []*passOpts
	smpOnly := [nPhases]bool{}
	smpOnly[phSMP], smpOnly[phPost], smpOnly[phEnd] = true, true, true
	smpMsgs := [nPhases]bool{}
	smpMsgs[phSMP] = true
	if !c.Thorough {
		passes = []*passOpts{
			{name: "E1 full script, all menus, 32 offsets, bound 1", withSMP: true, faultPhase: allPhases(), subOffsets: 32, fragOps: true, benign: true, bound: 1},
			{name: "E2 script without SMP, all menus, 4 offsets, bound 2", withSMP: false, faultPhase: allPhases(), subOffsets: 4, fragOps: true, benign: true, bound: 2},
			{name: "E3 full script, SMP choices and faults on SMP messages, 2 offsets, bound 2", withSMP: true, faultPhase: smpMsgs, subOffsets: 2, benign: true, smpChoicesOnly: true, bound: 2},
		}
	} else {
		passes = []*passOpts{
			{name: "E1 full script, all menus, 32 offsets, bound 1", withSMP: true, faultPhase: allPhases(), subOffsets: 32, fragOps: true, benign: true, bound: 1},
			{name: "E2 script without SMP, all menus, 32 offsets, bound 2", withSMP: false, faultPhase: allPhases(), subOffsets: 32, fragOps: true, benign: true, bound: 2},
			{name: "E3 full script, faults on SMP/post/End messages, 8 offsets, bound 2", withSMP: true, faultPhase: smpOnly, subOffsets: 8, fragOps: true, benign: true, bound: 2},
			{name: "E4 script without SMP, all menus, 2 offsets, bound 3", withSMP: false, faultPhase: allPhases(), subOffsets: 2, fragOps: true, benign: true, bound: 3},
		}
	}
	perPass := map[string]any{}
	for _, o := range passes {
		if !want(o.name) {
			continue
		}
		perPass[o.name] = explore(c, o)
	}
	c.Set("exploration_passes", perPass)
	if c.Replay != nil && section != "" && section[0] == 'E' {
		return
	}

	// ---- Parts G, F, T ----
	if want("X") {
		timed(c, "X data-exchange schedules", func() { schedulePart(c) })
	}
	if want("Y") {
		timed(c, "Y SMP schedules", func() { smpSchedulePart(c) })
	}
	if want("Z") {
		timed(c, "Z reused conversations", func() { reusePart(c) })
	}
	if want("G") {
		timed(c, "G grid", func() { gridPart(c) })
	}
	if want("F") {
		timed(c, "F forgery", func() { forgeryPart(c) })
	}
	if want("T") {
		totalityPart(c)
	}
}

// explore runs one pass and returns its statistics.
func explore(c *vf.Ctx, o *passOpts) map[string]any {
	var mu sync.Mutex
	byDev := map[int]int64{}
	outcomes := map[string]int64{}
	maxPieces := 0
	t0 := time.Now()
	n := vf.ExploreChoices(c, o.bound, true, func(ch *vf.Chooser) {
		e := newExec(c, ch, o, "E")
		sig := e.run()
		c.Transition(e.trans)
		for s := range e.states {
			c.State(s)
		}
		for _, v := range e.viol {
			c.Violation(v.class, v.detail)
		}
		dv := ch.Deviations()
		if dv > 0 {
			c.Nontrivial(o.name[:2] + fmt.Sprint(ch.C))
		}
		c.Outcome(sig)
		if dv <= 1 && c.WantSample() && (dv == 0 || len(e.devs) > 0 && e.netFault > 0) {
			c.Sample(map[string]any{"pass": o.name, "deviations": e.devs, "outcome": sig, "api_calls": e.trans, "pieces_delivered": e.pieces})
		}
		mu.Lock()
		byDev[dv]++
		outcomes[sig]++
		if e.pieces > maxPieces {
			maxPieces = e.pieces
		}
		mu.Unlock()
	})
	var devs []string
	for k := 0; k <= o.bound; k++ {
		devs = append(devs, fmt.Sprintf("%d deviations: %d", k, byDev[k]))
	}
	type kv struct {
		k string
		n int64
	}
	var top []kv
	for k, n := range outcomes {
		top = append(top, kv{k, n})
	}
	sort.Slice(top, func(i, j int) bool { return top[i].n > top[j].n })
	var tops []string
	for i := 0; i < len(top) && i < 8; i++ {
		tops = append(tops, fmt.Sprintf("%d x %s", top[i].n, top[i].k))
	}
	return map[string]any{"executions": n, "by_deviations": devs, "distinct_outcomes": len(outcomes), "most_frequent_outcomes": tops, "max_pieces_in_one_execution": maxPieces, "bound": o.bound, "wall_s": time.Since(t0).Seconds()}
}
