package main

// Part X: data-exchange schedules. After a clean AKE, every sequence of length D over
// {A sends, B sends, deliver the oldest in-flight message to A, ... to B} (delivery in order
// per direction, as the transport under an OTR conversation guarantees) is run on two real
// Conversations; then everything in flight is delivered and one more message goes each way
// in lock step. Messages that cross on the wire use the peer's previous key; every message
// must be delivered unchanged, once and in order, and none may be refused.

import (
	"fmt"
	"sync/atomic"

	"verif/vf"
)

func schedulePart(c *vf.Ctx) {
	D := 6
	if c.Thorough {
		D = 8
	}
	var seqs [][]int8
	var gen func(prefix []int8, toA, toB int)
	gen = func(prefix []int8, toA, toB int) {
		if len(prefix) == D {
			seqs = append(seqs, append([]int8(nil), prefix...))
			return
		}
		gen(append(prefix, 0), toA, toB+1)
		gen(append(prefix, 1), toA+1, toB)
		if toA > 0 {
			gen(append(prefix, 2), toA-1, toB)
		}
		if toB > 0 {
			gen(append(prefix, 3), toA, toB-1)
		}
	}
	gen(nil, 0, 0)
	var msgs [2][][]byte
	for p := 0; p < 2; p++ {
		for k := 0; k <= D; k++ {
			msgs[p] = append(msgs[p], text(c, fmt.Sprintf("x%c%d", 'A'+p, k), 100+p*20+k, 12+5*k))
		}
	}
	var execs, crossing atomic.Int64
	c.ParallelFor(len(seqs), func(i int) {
		seq := seqs[i]
		e := scripted(c, "X", "X", false, 0, 0)
		defer func() { flush(c, e) }()
		if !e.ake() {
			return
		}
		e.phase = phData
		var n [2]int
		crossed := false
		for _, op := range seq {
			if e.dead {
				return
			}
			switch op {
			case 0, 1:
				for _, m := range e.q {
					if m.to == int(op) {
						crossed = true // the sender has not yet seen a message that is on its way to it
					}
				}
				e.send(int(op), msgs[op][n[op]])
				n[op]++
			default:
				to := int(op) - 2
				for j, m := range e.q {
					if m.to == to {
						e.q = append(e.q[:j:j], e.q[j+1:]...)
						e.nLogical++
						e.deliverAll(m, m.pieces)
						break
					}
				}
			}
		}
		e.pump()
		e.send(0, msgs[0][D])
		e.pump()
		e.send(1, msgs[1][D])
		e.pump()
		if !e.dead {
			A, B := e.p[0], e.p[1]
			e.expect(A.got == len(B.sent) && B.got == len(A.sent) && len(A.sent) == n[0]+1 && len(B.sent) == n[1]+1,
				"a data message was not delivered to the peer (data-exchange schedule)", map[string]any{"schedule": fmt.Sprint(seq), "counts": e.counts()})
		}
		execs.Add(1)
		if crossed {
			crossing.Add(1)
			c.Nontrivial("X" + fmt.Sprint(seq))
		}
		c.Outcome(fmt.Sprintf("X sent=%d/%d", n[0], n[1]))
	})
	c.Set("data_exchange_schedules", map[string]any{"depth": D, "schedules": len(seqs), "executed": execs.Load(), "with_crossing_messages": crossing.Load()})
}
